/-
Two invariants of the abstract tracer (`Uniflow.ATracer`) along every protocol-conforming call
history, and what follows from them once the loops of a process have ended. Used by `Props/C05.lean`.

* `HF` – the oldest request of every reader is incomplete (complete heads have been answered and left);
* `HC` – whatever a request still waits for (a `written q w` cell, a request written directly to `w`)
         is queued on that writer (`q ∈ wq w`) – the converse of `Inv.owed`;
* `no_request_left` – with both, if every request read on a reader of the process is settled (each
  derived packet written or answered) and nothing is queued on the writers of the process, no request
  of the process is left.
-/
import Uniflow.Proofs.ATracer
namespace Uniflow.ATracer
open Uniflow.Tracer
open Uniflow.NodeSpec (PInfo optL)

/-! ### generic facts about `updReq`, heads of readers -/

/-- the first request of reader `r` -/
def headOf (r : Rid) (rs : List Req) : Option Req := rs.find? (fun x => x.r = r)

/-- `HF`: the oldest request of every reader is incomplete (whatever is complete at the head of a
reader's queue has been answered and has left the state). -/
def HF (rs : List Req) : Prop := ∀ r x, headOf r rs = some x → reply x.st = none

theorem mem_updReq_inv (rs : List Req) (p : Pid) (f : RSt → RSt) (y : Req) (h : y ∈ updReq p f rs) :
    y ∈ rs ∨ ∃ y0, findReq p rs = some y0 ∧ y = { y0 with st := f y0.st } := by
  induction rs with
  | nil => simp [updReq] at h
  | cons z zs ih =>
    simp only [updReq] at h
    by_cases e : z.p = p
    · rw [if_pos e] at h
      rcases List.mem_cons.mp h with h1 | h1
      · right; exact ⟨z, by simp [findReq, e], h1⟩
      · left; simp [h1]
    · rw [if_neg e] at h
      rcases List.mem_cons.mp h with h1 | h1
      · left; simp [h1]
      · rcases ih h1 with h2 | ⟨y0, h2, h3⟩
        · left; simp [h2]
        · right; exact ⟨y0, by simp [findReq, e, h2], h3⟩

theorem headOf_updReq (rs : List Req) (p : Pid) (f : RSt → RSt) (r : Rid) (y : Req)
    (h : headOf r (updReq p f rs) = some y) :
    headOf r rs = some y ∨ ∃ y0, findReq p rs = some y0 ∧ y = { y0 with st := f y0.st } := by
  induction rs with
  | nil => simp [updReq, headOf] at h
  | cons z zs ih =>
    simp only [updReq] at h
    by_cases e : z.p = p
    · rw [if_pos e] at h
      simp only [headOf, List.find?_cons] at h ⊢
      by_cases hr : z.r = r
      · have hd : decide (z.r = r) = true := by simpa using hr
        simp only [hd, Option.some.injEq] at h
        right; exact ⟨z, by simp [findReq, e], h.symm⟩
      · simp only [hr, decide_false] at h ⊢
        left; exact h
    · rw [if_neg e] at h
      simp only [headOf, List.find?_cons] at h ⊢
      by_cases hr : z.r = r
      · simp only [hr, decide_true] at h ⊢; left; exact h
      · simp only [hr, decide_false] at h ⊢
        rcases ih h with h2 | ⟨y0, h2, h3⟩
        · left; exact h2
        · right; exact ⟨y0, by simp [findReq, e, h2], h3⟩

theorem hf_updReq (rs : List Req) (p : Pid) (f : RSt → RSt) (h : HF rs)
    (hf : ∀ y0, findReq p rs = some y0 → reply (f y0.st) = none) : HF (updReq p f rs) := by
  intro r y hy
  rcases headOf_updReq rs p f r y hy with h1 | ⟨y0, h1, h2⟩
  · exact h r y h1
  · subst h2; exact hf y0 h1

theorem headOf_filter (r : Rid) (rs : List Req) : headOf r rs = (rs.filter (fun x => x.r = r)).head? := by
  induction rs with
  | nil => rfl
  | cons z zs ih =>
    simp only [headOf, List.find?_cons, List.filter_cons] at ih ⊢
    by_cases hr : z.r = r
    · simp [hr]
    · simp only [hr, decide_false]; exact ih

theorem hf_flushR (r : Rid) (rs : List Req) (h : ∀ r', r' ≠ r → ∀ x, headOf r' rs = some x → reply x.st = none) :
    HF (flushR r rs).1 := by
  intro r' x hx
  by_cases e : r' = r
  · subst e
    rw [headOf_filter] at hx
    obtain ⟨_, _, _, _, h4⟩ := flushR_spec r' rs
    cases hf : (flushR r' rs).1.filter (fun x => x.r = r') with
    | nil => rw [hf] at hx; cases hx
    | cons y rest =>
      rw [hf] at hx; simp at hx; subst hx
      exact h4 y rest hf
  · apply h r' e x
    rw [headOf_filter] at hx ⊢
    rw [filter_flushR_other r r' rs e] at hx
    exact hx

theorem headOf_append (r : Rid) (rs : List Req) (x y : Req) (h : headOf r (rs ++ [x]) = some y) :
    headOf r rs = some y ∨ y = x := by
  simp only [headOf, List.find?_append] at h ⊢
  cases hf : rs.find? (fun x => decide (x.r = r)) with
  | some z => rw [hf] at h; left; simpa using h
  | none =>
    rw [hf] at h
    simp only [Option.none_or, List.find?_cons] at h
    split at h
    · right; simpa using h.symm
    · simp at h

theorem hasNil_append_none {β : Type} (l : List (Option β)) : hasNil (l ++ [none]) = true := by
  induction l with
  | nil => rfl
  | cons d ds ih => cases d <;> simp [hasNil, ih]

theorem reply_linked (cs : List Cell) (q : Pid) : reply (.cells (cs ++ [.linked q])) = none := by
  have hn : hasNil ((cs ++ [Cell.linked q]).map cellVal) = true := by
    simp only [List.map_append, List.map_cons, List.map_nil, cellVal]; exact hasNil_append_none _
  cases h : cs ++ [Cell.linked q] with
  | nil => simp at h
  | cons c cs' => rw [h] at hn; simp only [reply, hn, if_true]

theorem reply_written (cs : List Cell) (k : Pid) (w : Wid) (h : Cell.written k w ∈ cs) : reply (.cells cs) = none := by
  cases cs with
  | nil => simp at h
  | cons c cs' =>
    have := written_hasNil (c :: cs') k w h
    simp only [reply, this, if_true]

theorem headOf_r (r : Rid) (rs : List Req) (y : Req) (h : headOf r rs = some y) : y.r = r := by
  have := List.find?_some h
  simpa using this

/-- after a cell of request `p` was changed by `f`: `afterFill` restores `HF` -/
theorem hf_fill (a : A) (p : Pid) (f : RSt → RSt) (h : HF a.reqs) :
    HF (afterFill a (updReq p f a.reqs) p).1.reqs := by
  have H : ∀ r y, headOf r (updReq p f a.reqs) = some y →
      reply y.st = none ∨ findReq p (updReq p f a.reqs) = some y := by
    intro r y hy
    rcases headOf_updReq a.reqs p f r y hy with h1 | ⟨y0, h1, h2⟩
    · left; exact h r y h1
    · right; subst h2; exact findReq_upd a.reqs p f y0 h1
  unfold afterFill
  cases hx : findReq p (updReq p f a.reqs) with
  | none => exact h
  | some x =>
    simp only []
    cases hr : reply x.st with
    | none =>
      intro r y hy
      rcases H r y hy with h1 | h1
      · exact h1
      · rw [hx] at h1; injection h1 with h1; subst h1; exact hr
    | some ans =>
      simp only []
      apply hf_flushR
      intro r' hne y hy
      rcases H r' y hy with h1 | h1
      · exact h1
      · rw [hx] at h1; injection h1 with h1; subst h1
        exact absurd (headOf_r r' _ _ hy).symm hne

theorem hf_afill (a : A) (k : Pid) (ans : Ans) (h : HF a.reqs) : HF (afill a k ans).1.reqs := by
  unfold afill
  split
  · exact hf_fill a k _ h
  · exact hf_fill a k _ h
  · exact h
  · split
    · exact hf_fill a _ _ h
    · exact h

theorem hf_acall (a : A) (c : Call) (hi : Inv a) (h : HF a.reqs) : HF (acall a c).1.reqs := by
  cases c with
  | read r p =>
    intro r' y hy
    rcases headOf_append r' a.reqs _ y hy with h1 | h1
    · exact h r' y h1
    · subst h1; rfl
  | link p q =>
    simp only [acall, alink]
    split
    · exact h
    · split
      · rename_i x r0 cs hx
        apply hf_updReq _ _ _ h
        intro y0 hy0
        rw [hx] at hy0; injection hy0 with hy0; subst hy0
        exact reply_linked cs q
      · exact h
  | write w k pay acc =>
    simp only [acall, awrite]
    split
    · rename_i w0
      split
      · apply hf_updReq _ _ _ h
        intro y0 _; rfl
      · exact h
      · split
        · rename_i p r0 cs ho
          split
          · rename_i hl
            apply hf_updReq _ _ _ h
            intro y0 hy0
            obtain ⟨hm, cs', hst, _⟩ := ownerOf_spec k a.reqs _ ho
            have := findReq_of_mem a.reqs _ hi.nodup hm
            simp only at this
            rw [this] at hy0; injection hy0 with hy0; subst hy0
            exact reply_written _ k w0 (markWritten_mem k w0 cs hl)
          · exact h
        · exact h
    · exact hf_afill a k pay h
  | answer w ans =>
    simp only [acall, aanswer]
    split
    · exact h
    · exact hf_afill _ _ _ h


/-! ### `HC`: what a request still waits for is queued on its writer -/

def HCreq (wq : List (Wid × List Pid)) (x : Req) : Prop :=
  (∀ w, x.st = .direct w → x.p ∈ getL wq w) ∧
  (∀ cs q w, x.st = .cells cs → Cell.written q w ∈ cs → q ∈ getL wq w)

def HC (a : A) : Prop := ∀ x ∈ a.reqs, HCreq a.wq x

theorem written_fillCell_inv (k : Pid) (a : Ans) (cs : List Cell) (q : Pid) (w : Wid)
    (h : Cell.written q w ∈ fillCell k a cs) : Cell.written q w ∈ cs := by
  induction cs with
  | nil => simp [fillCell] at h
  | cons c cs ih =>
    cases c with
    | linked q' =>
      simp only [fillCell] at h
      split at h
      · simp at h; simp [h]
      · simp at h; simp [ih h]
    | written q' w' =>
      simp only [fillCell] at h
      split at h
      · simp at h; simp [h]
      · rcases List.mem_cons.mp h with e | h'
        · simp [e]
        · simp [ih h']
    | filled b =>
      simp only [fillCell] at h
      simp at h; simp [ih h]

theorem written_markWritten_inv (k : Pid) (w : Wid) (cs : List Cell) (q : Pid) (w' : Wid)
    (h : Cell.written q w' ∈ markWritten k w cs) : Cell.written q w' ∈ cs ∨ (q = k ∧ w' = w) := by
  induction cs with
  | nil => simp [markWritten] at h
  | cons c cs ih =>
    cases c with
    | linked q' =>
      simp only [markWritten] at h
      split at h
      · rename_i e
        rcases List.mem_cons.mp h with e1 | h'
        · right; injection e1 with e2 e3; exact ⟨e2.trans e, e3⟩
        · left; simp [h']
      · rcases List.mem_cons.mp h with e1 | h'
        · cases e1
        · rcases ih h' with h2 | h2
          · left; simp [h2]
          · right; exact h2
    | written q' w2 =>
      simp only [markWritten] at h
      rcases List.mem_cons.mp h with e1 | h'
      · left; simp [e1]
      · rcases ih h' with h2 | h2
        · left; simp [h2]
        · right; exact h2
    | filled b =>
      simp only [markWritten] at h
      rcases List.mem_cons.mp h with e1 | h'
      · cases e1
      · rcases ih h' with h2 | h2
        · left; simp [h2]
        · right; exact h2

/-- with unique request ids an update leaves every other request alone -/
theorem mem_updReq_nodup (rs : List Req) (p : Pid) (f : RSt → RSt) (y : Req) (hnd : (rs.map (·.p)).Nodup)
    (h : y ∈ updReq p f rs) :
    (y ∈ rs ∧ y.p ≠ p) ∨ ∃ y0, findReq p rs = some y0 ∧ y = { y0 with st := f y0.st } := by
  induction rs with
  | nil => simp [updReq] at h
  | cons z zs ih =>
    simp only [List.map_cons, List.nodup_cons] at hnd
    simp only [updReq] at h
    by_cases e : z.p = p
    · rw [if_pos e] at h
      rcases List.mem_cons.mp h with h1 | h1
      · right; exact ⟨z, by simp [findReq, e], h1⟩
      · left
        refine ⟨by simp [h1], ?_⟩
        intro hy
        apply hnd.1
        rw [e, ← hy]; exact List.mem_map_of_mem (f := fun x : Req => x.p) h1
    · rw [if_neg e] at h
      rcases List.mem_cons.mp h with h1 | h1
      · left; subst h1; exact ⟨by simp, e⟩
      · rcases ih hnd.2 h1 with ⟨h2, h3⟩ | ⟨y0, h2, h3⟩
        · left; exact ⟨by simp [h2], h3⟩
        · right; exact ⟨y0, by simp [findReq, e, h2], h3⟩

theorem nodup_p (a : A) (hi : Inv a) : (a.reqs.map (·.p)).Nodup :=
  List.Nodup.sublist (map_p_sublist a.reqs) hi.nodup

theorem hcreq_mono (wq wq' : List (Wid × List Pid)) (x : Req) (h : HCreq wq x)
    (hs : ∀ w q, q ∈ getL wq w → q ∈ getL wq' w) : HCreq wq' x :=
  ⟨fun w hw => hs w _ (h.1 w hw), fun cs q w hc hm => hs w q (h.2 cs q w hc hm)⟩

/-- `afterFill` only removes requests -/
theorem mem_afterFill (a : A) (reqs : List Req) (p : Pid) (y : Req) (h : y ∈ (afterFill a reqs p).1.reqs) :
    y ∈ reqs ∨ y ∈ a.reqs := by
  unfold afterFill at h
  split at h
  · split at h
    · left; exact (flushR_sublist _ reqs).subset h
    · left; exact h
  · right; exact h

theorem afterFill_wq (a : A) (reqs : List Req) (p : Pid) : (afterFill a reqs p).1.wq = a.wq := by
  unfold afterFill
  split
  · split <;> rfl
  · rfl

theorem afill_wq (a : A) (k : Pid) (ans : Ans) : (afill a k ans).1.wq = a.wq := by
  unfold afill
  split
  · exact afterFill_wq _ _ _
  · exact afterFill_wq _ _ _
  · rfl
  · split
    · exact afterFill_wq _ _ _
    · rfl

/-- Filling the cell of `k` (in a step that does not end in `bad`): every remaining request is an
old one that does not involve `k`, or the filled one. `Q` is any property of requests. -/
theorem afill_reqs_pred (a : A) (k : Pid) (ans : Ans) (hnd : (ids a.reqs).Nodup) (Q : Req → Prop)
    (hold : ∀ y ∈ a.reqs, k ∉ idsR y → Q y)
    (hnew1 : ∀ y0 ∈ a.reqs, y0.p = k → Q { y0 with st := .cells [.filled ans] })
    (hnew2 : ∀ y0 ∈ a.reqs, ∀ cs, y0.st = .cells cs → k ∈ openIds cs → Q { y0 with st := .cells (fillCell k ans cs) })
    (hgood : (afill a k ans).1.bad = false) :
    ∀ y ∈ (afill a k ans).1.reqs, Q y := by
  have hndp : (a.reqs.map (·.p)).Nodup := List.Nodup.sublist (map_p_sublist a.reqs) hnd
  -- after an update of request `p0` by `f`, when the updated requests all satisfy Q
  have after : ∀ (p0 : Pid) (f : RSt → RSt), (∀ y ∈ updReq p0 f a.reqs, Q y) →
      (afterFill a (updReq p0 f a.reqs) p0).1.bad = false →
      ∀ y ∈ (afterFill a (updReq p0 f a.reqs) p0).1.reqs, Q y := by
    intro p0 f hq hb y hy
    unfold afterFill at hy hb
    cases hf : findReq p0 (updReq p0 f a.reqs) with
    | none => rw [hf] at hb; simp at hb
    | some x =>
      rw [hf] at hy
      simp only at hy
      cases hr : reply x.st with
      | none => rw [hr] at hy; exact hq y hy
      | some v => rw [hr] at hy; exact hq y ((flushR_sublist _ _).subset hy)
  have req_case : ∀ (x : Req), findReq k a.reqs = some x →
      ∀ y ∈ updReq k (fun _ => RSt.cells [.filled ans]) a.reqs, Q y := by
    intro x hx y hy
    have hxm := findReq_mem k a.reqs _ hx
    rcases mem_updReq_nodup a.reqs k _ y hndp hy with ⟨h1, h2⟩ | ⟨y0, h1, h2⟩
    · apply hold y h1
      intro hk
      have := mem_unique a.reqs y x k hnd h1 hxm.1 hk (by simp [idsR, hxm.2])
      exact h2 (by rw [this]; exact hxm.2)
    · subst h2
      have := findReq_mem k a.reqs y0 h1
      exact hnew1 y0 this.1 this.2
  intro y hy
  cases hx : findReq k a.reqs with
  | some x =>
    obtain ⟨xp, xr, xst⟩ := x
    cases xst with
    | direct w0 =>
      simp only [afill, hx] at hy hgood
      exact after k _ (req_case _ hx) hgood y hy
    | cells cs0 =>
      cases cs0 with
      | nil =>
        simp only [afill, hx] at hy hgood
        exact after k _ (req_case _ hx) hgood y hy
      | cons c cs1 => simp [afill, hx] at hgood
  | none =>
    cases ho : ownerOf k a.reqs with
    | none => simp [afill, hx, ho] at hgood
    | some x =>
      simp only [afill, hx, ho] at hy hgood
      obtain ⟨hxm, cs, hst, hk⟩ := ownerOf_spec k a.reqs x ho
      have hfx := findReq_of_mem a.reqs x hnd hxm
      refine after x.p _ ?_ hgood y hy
      intro y hy
      rcases mem_updReq_nodup a.reqs x.p _ y hndp hy with ⟨h1, h2⟩ | ⟨y0, h1, h2⟩
      · apply hold y h1
        intro hk'
        have := mem_unique a.reqs y x k hnd h1 hxm hk' (by simp [idsR, hst, cellsOfSt, hk])
        exact h2 (by rw [this])
      · rw [hfx] at h1; injection h1 with h1; subst h1
        subst h2
        have := hnew2 x hxm cs hst hk
        simpa [fillSt, hst] using this

theorem written_open (cs : List Cell) (q : Pid) (w : Wid) (h : Cell.written q w ∈ cs) : q ∈ openIds cs :=
  written_mem_open cs q w h

/-- popping the head `k` of writer `w`'s queue keeps `HCreq` for requests that do not involve `k` -/
theorem hcreq_pop (wq : List (Wid × List Pid)) (w : Wid) (k : Pid) (rest : List Pid) (y : Req)
    (hq : getL wq w = k :: rest) (h : HCreq wq y) (hk : k ∉ idsR y) : HCreq (setOrDel wq w rest) y := by
  have key : ∀ w' q, q ∈ getL wq w' → q ≠ k → q ∈ getL (setOrDel wq w rest) w' := by
    intro w' q hm hne
    rw [getL_setOrDel]
    by_cases e : w' = w
    · subst e; simp only [if_true]; rw [hq] at hm
      rcases List.mem_cons.mp hm with e1 | h1
      · exact absurd e1 hne
      · exact h1
    · simp only [e, if_false]; exact hm
  refine ⟨?_, ?_⟩
  · intro w' hst
    apply key w' _ (h.1 w' hst)
    intro e; apply hk; simp [idsR, e]
  · intro cs q w' hst hm
    apply key w' q (h.2 cs q w' hst hm)
    intro e; apply hk
    subst e
    simp only [idsR, hst, cellsOfSt, List.mem_cons]
    right; exact written_open cs q w' hm

theorem hc_afill (a : A) (k : Pid) (ans : Ans) (hnd : (ids a.reqs).Nodup)
    (hgood : (afill a k ans).1.bad = false)
    (h : ∀ y ∈ a.reqs, k ∉ idsR y → HCreq a.wq y)
    (hown : ∀ y0 ∈ a.reqs, ∀ cs, y0.st = .cells cs → k ∈ openIds cs →
       ∀ q w, Cell.written q w ∈ cs → q ≠ k → q ∈ getL a.wq w) : HC (afill a k ans).1 := by
  intro y hy
  rw [afill_wq]
  refine afill_reqs_pred a k ans hnd (HCreq a.wq) h ?_ ?_ hgood y hy
  · intro y0 _ _
    exact ⟨fun w hw => (by cases hw), fun cs q w hc hm => by injection hc with hc; subst hc; simp at hm⟩
  · intro y0 hy0 cs hst hk
    refine ⟨fun w hw => (by cases hw), ?_⟩
    intro cs' q w hc hm
    injection hc with hc; subst hc
    have h1 := written_fillCell_inv k ans cs q w hm
    have hnd' : (openIds cs).Nodup := by
      have := idsR_nodup a.reqs y0 hnd hy0
      simp only [idsR, hst, cellsOfSt, List.nodup_cons] at this
      exact this.2
    have h2 : q ≠ k := ((openIds_fillCell_mem k ans cs hnd' q).mp (written_open _ q w hm)).2
    exact hown y0 hy0 cs hst hk q w h1 h2

theorem hc_acall (a : A) (c : Call) (hi : Inv a) (hi' : Inv (acall a c).1) (h : HC a) : HC (acall a c).1 := by
  cases c with
  | read r p =>
    intro y hy
    simp only [acall, aread] at hy ⊢
    rcases List.mem_append.mp hy with h1 | h1
    · exact h y h1
    · simp at h1; subst h1
      exact ⟨fun w hw => (by cases hw), fun cs q w hc hm => by injection hc with hc; subst hc; simp at hm⟩
  | link p q =>
    simp only [acall, alink]
    split
    · exact h
    · split
      · rename_i x r0 cs hx
        intro y hy
        simp only at hy ⊢
        rcases mem_updReq_inv a.reqs p _ y hy with h1 | ⟨y0, h1, h2⟩
        · exact h y h1
        · rw [hx] at h1; injection h1 with h1; subst h1; subst h2
          have hy0 := (findReq_mem p a.reqs _ hx).1
          refine ⟨fun w hw => (by cases hw), ?_⟩
          intro cs' q' w hc hm
          simp only at hc
          injection hc with hc; subst hc
          rcases List.mem_append.mp hm with h3 | h3
          · exact (h _ hy0).2 cs q' w rfl h3
          · simp at h3
      · exact h
  | write w k pay acc =>
    have hgood := hi'.good
    simp only [acall, awrite] at hgood ⊢
    split
    · rename_i w0
      split
      · rename_i x r0 hx
        have hsup : ∀ w' q, q ∈ getL a.wq w' → q ∈ getL (aset a.wq w0 (getL a.wq w0 ++ [k])) w' := by
          intro w' q hm; rw [getL_aset]; split
          · rename_i e; subst e; simp [hm]
          · exact hm
        intro y hy
        simp only at hy ⊢
        rcases mem_updReq_inv a.reqs k _ y hy with h1 | ⟨y0, h1, h2⟩
        · exact hcreq_mono _ _ y (h y h1) hsup
        · subst h2
          have hp := (findReq_mem k a.reqs y0 h1).2
          refine ⟨?_, fun cs q w hc _ => (by cases hc)⟩
          intro w' hw
          injection hw with hw; subst hw
          rw [getL_aset]; simp [hp]
      · exact h
      · split
        · rename_i p r0 cs ho
          split
          · rename_i hl
            have hsup : ∀ w' q, q ∈ getL a.wq w' → q ∈ getL (aset a.wq w0 (getL a.wq w0 ++ [k])) w' := by
              intro w' q hm; rw [getL_aset]; split
              · rename_i e; subst e; simp [hm]
              · exact hm
            obtain ⟨hm0, cs', hst, _⟩ := ownerOf_spec k a.reqs _ ho
            have hf0 := findReq_of_mem a.reqs _ hi.nodup hm0
            simp only at hst hf0
            injection hst with hst; subst hst
            intro y hy
            simp only at hy ⊢
            rcases mem_updReq_inv a.reqs p _ y hy with h1 | ⟨y0, h1, h2⟩
            · exact hcreq_mono _ _ y (h y h1) hsup
            · rw [hf0] at h1; injection h1 with h1; subst h1; subst h2
              refine ⟨fun w hw => (by cases hw), ?_⟩
              intro cs' q w' hc hm
              simp only at hc
              injection hc with hc; subst hc
              rcases written_markWritten_inv k w0 cs q w' hm with h3 | ⟨h3, h4⟩
              · exact hsup w' q ((h _ hm0).2 cs q w' rfl h3)
              · subst h3; subst h4; rw [getL_aset]; simp
          · exact h
        · exact h
    · apply hc_afill a k pay hi.nodup
      · have := hi'.good
        simp only [acall, awrite] at this
        exact this
      · intro y hy _; exact h y hy
      · intro y0 hy0 cs hst _ q w' hm _; exact (h y0 hy0).2 cs q w' hst hm
  | answer w ans =>
    have hgood := hi'.good
    simp only [acall, aanswer] at hgood ⊢
    cases hq : getL a.wq w with
    | nil => simp only [hq] at hgood ⊢; exact h
    | cons k rest =>
      simp only [hq] at hgood ⊢
      apply hc_afill { a with wq := setOrDel a.wq w rest } k ans hi.nodup hgood
      · intro y hy hk; exact hcreq_pop a.wq w k rest y hq (h y hy) hk
      · intro y0 hy0 cs hst hk q w' hm hne
        have := (h y0 hy0).2 cs q w' hst hm
        show q ∈ getL (setOrDel a.wq w rest) w'
        rw [getL_setOrDel]
        by_cases e : w' = w
        · subst e; simp only [if_true]; rw [hq] at this
          rcases List.mem_cons.mp this with e1 | h1
          · exact absurd e1 hne
          · exact h1
        · simp only [e, if_false]; exact this

/-! ### both invariants along every protocol-conforming history -/

theorem hf_hc_run (cs : List Call) : ∀ (a : A) (t : T), TRel a t → Inv a → HF a.reqs → HC a → Protocol a cs →
    HF (arun a cs).1.reqs ∧ HC (arun a cs).1 := by
  induction cs with
  | nil => intro a t _ _ h1 h2 _; exact ⟨h1, h2⟩
  | cons c cs ih =>
    intro a t h hi h1 h2 hp
    obtain ⟨_, g2, g3⟩ := call_refines a t c h hi hp.1
    simp only [arun]
    exact ih _ _ g2 g3 (hf_acall a c hi h1) (hc_acall a c hi g3 h2) hp.2

theorem hf_init : HF ({} : A).reqs := by intro r x h; simp [headOf] at h
theorem hc_init : HC ({} : A) := by intro x h; simp at h

/-! ### what "the loops of process p have ended" means -/

def cellOK (Wp : Wid → Bool) : Cell → Bool
  | .linked _ => false
  | .written _ w => Wp w
  | .filled _ => true

/-- every derived packet of the request has been written (to a writer of the process) or answered -/
def stOK (Wp : Wid → Bool) : RSt → Bool
  | .direct w => Wp w
  | .cells cs => !cs.isEmpty && cs.all (cellOK Wp)

/-- No request read on a reader of the process is between `Read` and the last `Write` of its
iteration, and what it still waits for was written to writers of the process. -/
def Settled (Rp : Rid → Bool) (Wp : Wid → Bool) (a : A) : Prop :=
  ∀ x ∈ a.reqs, Rp x.r = true → stOK Wp x.st = true

theorem headOf_exists (r : Rid) (rs : List Req) (x : Req) (hx : x ∈ rs) (hr : x.r = r) : ∃ y, headOf r rs = some y ∧ y ∈ rs := by
  induction rs with
  | nil => simp at hx
  | cons z zs ih =>
    simp only [headOf, List.find?_cons]
    by_cases e : z.r = r
    · exact ⟨z, by simp [e], by simp⟩
    · simp only [e, decide_false]
      rcases List.mem_cons.mp hx with e1 | h1
      · subst e1; exact absurd hr e
      · obtain ⟨y, h2, h3⟩ := ih h1
        exact ⟨y, h2, by simp [h3]⟩

theorem hasNil_cell (cs : List Cell) (h : hasNil (cs.map cellVal) = true) :
    ∃ c ∈ cs, cellVal c = none := by
  induction cs with
  | nil => simp [hasNil] at h
  | cons c cs ih =>
    cases hc : cellVal c with
    | none => exact ⟨c, by simp, hc⟩
    | some v =>
      simp only [List.map_cons, hc, hasNil] at h
      obtain ⟨c', h1, h2⟩ := ih h
      exact ⟨c', by simp [h1], h2⟩

/-- The abstract core: with the two invariants, if the requests of the process are settled and
nothing is queued on its writers, no request of the process is left. -/
theorem no_request_left (a : A) (Rp : Rid → Bool) (Wp : Wid → Bool) (h1 : HF a.reqs) (h2 : HC a)
    (hs : Settled Rp Wp a) (hw : ∀ w, Wp w = true → getL a.wq w = []) :
    ∀ x ∈ a.reqs, Rp x.r = false := by
  intro x hx
  cases hR : Rp x.r with
  | false => rfl
  | true =>
    exfalso
    obtain ⟨y, hy, hym⟩ := headOf_exists x.r a.reqs x hx rfl
    have hyr := headOf_r x.r a.reqs y hy
    have hrep := h1 x.r y hy
    have hok := hs y hym (by rw [hyr]; exact hR)
    cases hst : y.st with
    | direct w =>
      rw [hst] at hok
      have := (h2 y hym).1 w hst
      rw [hw w hok] at this; cases this
    | cells cs =>
      rw [hst] at hok hrep
      simp only [stOK, Bool.and_eq_true, Bool.not_eq_true', List.all_eq_true] at hok
      cases cs with
      | nil => simp at hok
      | cons c cs' =>
        simp only [reply] at hrep
        split at hrep
        · rename_i hn
          obtain ⟨c', hc1, hc2⟩ := hasNil_cell (c :: cs') hn
          have := hok.2 c' hc1
          cases c' with
          | linked q => simp [cellOK] at this
          | filled v => simp [cellVal] at hc2
          | written q w =>
            simp only [cellOK] at this
            have hq := (h2 y hym).2 (c :: cs') q w hst hc1
            rw [hw w this] at hq; cases hq
        · cases hrep


/-- a `reader` entry names the reader of a request that is still in the state -/
theorem rdr_of_info (a : A) (k : Pid) (r : Rid) (h : (info a k).rdr = some r) : ∃ x ∈ a.reqs, x.r = r := by
  simp only [info] at h
  cases hil : infoL a.reqs k with
  | none => rw [hil] at h; cases h
  | some i =>
    rw [hil] at h
    have hx : ∃ x ∈ a.reqs, infoR x k = some i := by
      clear h
      generalize a.reqs = rs at hil
      induction rs with
      | nil => simp [infoL] at hil
      | cons z zs ih =>
        simp only [infoL] at hil
        cases hz : infoR z k with
        | some j => rw [hz] at hil; exact ⟨z, by simp, by rw [hz]; exact hil⟩
        | none => rw [hz] at hil; obtain ⟨x, h1, h2⟩ := ih hil; exact ⟨x, by simp [h1], h2⟩
    obtain ⟨x, hxm, hxi⟩ := hx
    simp only [infoR] at hxi
    split at hxi
    · injection hxi with hxi; subst hxi
      simp only at h
      injection h with h
      exact ⟨x, hxm, h⟩
    · have key : ∀ (cs0 : List Cell) (j : PInfo), infoCells x.p cs0 k = some j → j.rdr = none := by
        intro cs0
        induction cs0 with
        | nil => intro j hj; simp [infoCells] at hj
        | cons c cs1 ih =>
          intro j hj
          cases c with
          | linked q =>
            simp only [infoCells] at hj
            split at hj
            · injection hj with hj; subst hj; rfl
            · exact ih j hj
          | written q w =>
            simp only [infoCells] at hj
            split at hj
            · injection hj with hj; subst hj; rfl
            · exact ih j hj
          | filled v => simp only [infoCells] at hj; exact ih j hj
      have := key _ i hxi
      rw [this] at h; cases h

end Uniflow.ATracer
