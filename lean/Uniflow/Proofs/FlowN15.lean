/-
C02, joint model, all node kinds, part 15: a writer hands its node an answer (the request it belongs to may be of
any in-reader of the node); `settle`.
-/
import Uniflow.Proofs.FlowN14

namespace Uniflow.FlowN
open Uniflow.Tracer Uniflow.Node Uniflow.Flow Uniflow.FlowInv Uniflow.FlowG Uniflow.ATracer Uniflow.FlowH Uniflow.FlowM
open Uniflow.ATracer (getL_setOrDel getL_aset)

theorem HIe_backStep (kinds : List Kind) (links : List (Nat × List Tgt)) (hwf : GraphWF5 kinds links) (g g' : G)
    (n : Nat) (nd : Node) (w : Nat) (hw8 : w < maxW) (h : HIe kinds links g)
    (hn : getNode g.nodes n = some nd) (hs : backStep g n nd w = some g') : HIe kinds links g' := by
  obtain ⟨aa, h⟩ := h
  have hN := hwf.small
  have hjb := h.jb n nd hn
  have hnN : n < kinds.length := (h.nodesLen n).mp (by rw [hn]; rfl)
  simp only [backStep, getWriter_eq] at hs
  cases hq : (gw g.writers (wkey n w)).queue with
  | nil => simp [hq] at hs
  | cons a rest =>
    simp only [hq] at hs
    cases hl : getL links (wkey n w) with
    | nil => have := h.wq0 _ hl; rw [hq] at this; cases this
    | cons t ts =>
      have hl1 : getL links (wkey n w) ≠ [] := by rw [hl]; simp
      have hwk0 := h.wk (wkey n w) hl1
      rw [pendH_wkey aa g.roots g.resp.length n w _ hnN hN hw8] at hwk0
      obtain ⟨q0, pend', e1, hra, hwk1⟩ := wkg_consume _ _ _ _ _ a rest hwk0 hq
      have hqne : getL (aa n).wq w ≠ [] := by rw [e1]; simp
      obtain ⟨hst, hjb'⟩ := jbm_answer nd (aa n) g.next hjb w a hqne
      have hinv := hjb.j.inv
      have hall : ∀ x ∈ (aa n).reqs, ∃ th, NLt g.log n x.r th (aa n) := by
        intro x hx
        obtain ⟨th, hth⟩ := getThread_some nd.threads x.r (h.rdr n nd hn x hx)
        exact ⟨th, h.nl n nd hn x.r th hth⟩
      obtain ⟨x, hx, hq0x, hfill⟩ := nlt_answer g.log n (aa n) w a q0 pend' hinv e1 hra hall
      obtain ⟨th, hth⟩ := getThread_some nd.threads x.r (h.rdr n nd hn x hx)
      obtain ⟨inbox, pc⟩ := th
      have hq0i : q0 ∈ ids (aa n).reqs := mem_ids_of_mem hx hq0x
      have hdis := jbm_disj nd (aa n) g.next hjb x.r _ hth q0 hq0i
      obtain ⟨ds, d1, d2, d3, d4, d5, d6, d7⟩ := hfill inbox pc (h.nl n nd hn x.r _ hth)
        (fun y hy e => hdis (by simp only [tids, List.mem_append, List.mem_map]; left; exact ⟨y, hy, e⟩))
        (fun y _ _ _ hm => hdis (by simp only [tids, List.mem_append]; right; exact remFor_sub _ y.p q0 hm))
      have hev : (acall (aa n) (.answer w a)).2 = ds.map (fun d => Ev.reply x.r d.2) := d2
      rw [hst, hev] at hs
      simp only [Option.some.injEq] at hs
      subst hs
      have hub : Unlogged g.log g.next := h.logBound g.next (Nat.le_refl _)
      have hw64 : w < 64 := Nat.lt_of_lt_of_le hw8 (by decide)
      obtain ⟨dd1, dd2⟩ := wkey_div_mod n w hw64
      have hsrc : srcKey ≠ wkey n w := by
        rcases src_ne_wkey n w _ hnN hN with h1 | h1
        · exact h1
        · omega
      have key := HI_thread_debt kinds links hwf aa g h n nd
        { nd with tr := (receiveW nd.strict nd.tr w (some a)).1 } x.r { inbox := inbox, pc := pc }
        { inbox := inbox, pc := pc } (aanswer (aa n) w a).1 g.log g.next
        (aset g.writers (wkey n w) { gw g.writers (wkey n w) with queue := rest }) ds hn hth rfl
        (by
          intro j
          show getThread nd.threads j = _
          by_cases e : j = x.r
          · rw [e]; simp [hth]
          · simp [e])
        hjb' d1 d5
        (rdr_acall (aa n) (.answer w a) (fun r => r < nd.threads.length) (h.rdr n nd hn)
          (fun r hr => by simp [newReads] at hr))
        rfl d4 d6 (logExt_refl g.log g.next hub) rfl h.logBound (Or.inl (Nat.le_refl _)) (Or.inl (Nat.le_refl _)) d3
        (by simp only [gw_aset, hsrc, if_false]; exact h.srcq)
        (by
          intro key hk
          have : key ≠ wkey n w := by intro e; rw [e] at hk; exact hl1 hk
          simp only [gw_aset, this, if_false]; exact h.wq0 key hk)
        (by
          intro key hl'
          by_cases e : key = wkey n w
          · subst e
            simp only [gw_aset, if_true]
            have : pendH (updA aa n (aanswer (aa n) w a).1) g.roots g.resp.length (wkey n w) = pend' := by
              rw [pendH_wkey _ g.roots g.resp.length n w _ hnN hN hw8]
              simp only [updA, if_true]
              show getL (aanswer (aa n) w a).1.wq w = _
              rw [d7, getL_setOrDel]; simp
            rw [this]; exact hwk1
          · simp only [gw_aset, e, if_false]
            have : pendH (updA aa n (aanswer (aa n) w a).1) g.roots g.resp.length key =
                pendH aa g.roots g.resp.length key := by
              simp only [pendH]
              by_cases e1 : key = srcKey
              · simp [e1]
              · simp only [e1, if_false]
                by_cases e2 : key / 64 = n
                · simp only [updA, e2, if_true]
                  show getL (aanswer (aa n) w a).1.wq (key % 64) = _
                  rw [d7, getL_setOrDel]
                  have : key % 64 ≠ w := fun e3 => e (key_eq_wkey n w key e2 e3)
                  simp [this]
                · simp [updA, e2]
            rw [this]; exact h.wk key hl')
        (ordAt_none g.log g.next g.next hub.2.1 hub.1)
      exact ⟨_, key⟩

theorem HIe_settle (kinds : List Kind) (links : List (Nat × List Tgt)) (hwf : GraphWF5 kinds links) (fuel : Nat) (g : G)
    (h : HIe kinds links g) : HIe kinds links (settle fuel g) := by
  apply settle_inv (HIe kinds links) _ _ fuel g h
  · intro g g' hg hs
    obtain ⟨n, nd, hn, ⟨i, hi⟩ | ⟨w, hw, hb⟩⟩ := settleStep_cases' g g' hs
    · exact HIe_threadStep kinds links hwf g g' n nd i hg hn hi
    · exact HIe_backStep kinds links hwf g g' n nd w hw hg hn hb
  · intro g ⟨aa, hg⟩
    exact ⟨aa, HI_congr _ links aa D0 g _ hg rfl rfl rfl rfl rfl rfl rfl rfl rfl⟩

end Uniflow.FlowN
