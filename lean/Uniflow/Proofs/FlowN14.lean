/-
C02, joint model, all node kinds, part 14: every step of a forward thread preserves the invariant.
-/
import Uniflow.Proofs.FlowN13

namespace Uniflow.FlowN
open Uniflow.Tracer Uniflow.Node Uniflow.Flow Uniflow.FlowInv Uniflow.FlowG Uniflow.ATracer Uniflow.FlowH Uniflow.FlowM
open Uniflow.ATracer (getL_setOrDel getL_aset)

theorem HIe_threadStep (kinds : List Kind) (links : List (Nat × List Tgt)) (hwf : GraphWF5 kinds links) (g g' : G)
    (n : Nat) (nd : Node) (i : Nat) (h : HIe kinds links g) (hn : getNode g.nodes n = some nd)
    (hs : threadStep g n nd i = some g') : HIe kinds links g' := by
  obtain ⟨aa, h⟩ := h
  have hjb := h.jb n nd hn
  have hgl : g.links = links := h.glinks
  cases hg0 : getThread nd.threads i with
  | none => simp [threadStep, hg0] at hs
  | some th' =>
    obtain ⟨inbox, pc⟩ := th'
    cases pc with
    | idle =>
      cases inbox with
      | nil => simp [threadStep, hg0] at hs
      | cons p rest =>
        obtain ⟨nd', pc', hst, hg1, key⟩ := HI_read kinds links hwf aa g h n nd i p rest hn hg0
        simp only [threadStep, hg0, hst, putNode, route, hg1] at hs
        cases pc' with
        | idle =>
          simp only [Option.some.injEq] at hs; subst hs; exact ⟨_, key⟩
        | emit ops =>
          simp only [Option.some.injEq] at hs; subst hs; exact ⟨_, key⟩
        | action p' grp =>
          simp only [Option.some.injEq] at hs; subst hs
          exact ⟨_, HI_congr _ links _ D0 _ _ key rfl rfl rfl rfl rfl rfl rfl rfl rfl⟩
    | action p grp => simp [threadStep, hg0] at hs
    | emit ops =>
      cases ops with
      | nil => simp [threadStep, hg0] at hs
      | cons o ops' =>
        cases o with
        | link s t =>
          obtain ⟨nd', hst, key⟩ := HI_link kinds links hwf aa g h n nd i inbox s t ops' hn hg0 false
          simp only [threadStep, hg0, hst, putNode, route, Option.some.injEq] at hs
          subst hs
          exact ⟨_, key⟩
        | write w q =>
          cases w with
          | none =>
            obtain ⟨nd', ev, hst, key⟩ := HI_write_rej kinds links hwf aa g h n nd i inbox none q ops' hn hg0
            simp only [threadStep, hg0, hst, Option.some.injEq] at hs
            subst hs
            exact ⟨_, key⟩
          | some w =>
            simp only [threadStep, hg0] at hs
            cases hl : getL links (wkey n w) with
            | nil =>
              rw [gWrite_none g _ _ _ (by rw [hgl]; exact hl)] at hs
              simp only [Bool.false_eq_true, if_false] at hs
              have e : getNode (logEcho g q).nodes n = some nd := hn
              simp only [e] at hs
              obtain ⟨nd', ev, hst, key⟩ := HI_write_rej kinds links hwf aa g h n nd i inbox (some w) q ops' hn hg0
              simp only [hst, Option.some.injEq] at hs
              subst hs
              exact ⟨_, key⟩
            | cons t ts =>
              have hlne : getL links (wkey n w) ≠ [] := by rw [hl]; simp
              have hnl := h.nl n nd hn i _ hg0
              have hw : w < maxW := hnl.wb w q (by simp)
              obtain ⟨nd', hst, hn1, key⟩ := HI_write_acc kinds links hwf aa g h n nd i inbox w q ops' hn hg0 hlne hw
              have hgl' : getL g.links (wkey n w) = getL links (wkey n w) := by rw [hgl]
              have hqU : Unlogged g.log q.id := by
                rcases write_shape g.log n nd (aa n) g.next hjb i inbox (some w) q ops' hg0 hnl with ⟨e, hXe⟩ |
                  ⟨_, _, _, _, _, _, hqU, _⟩
                · subst e; exact req_unlogged g.log n i _ (aa n) q.id hnl hXe (by simp [remFor, remOps])
                · exact hqU
              have heq := gWrite_eqH kinds hwf.small hwf.kindsOK aa g (wkey n w) q.id q.pay (nih_of kinds links aa g h)
                (by rw [hgl']; exact hlne) (by rw [hgl']; exact tok_of_mem5 kinds links hwf _) hqU.2.1
              rw [hgl'] at heq
              rw [heq] at hs
              simp only [if_true, hn1, hst, putNode, route, Option.some.injEq] at hs
              subst hs
              exact ⟨_, HI_congr _ links _ D0 _ _ key rfl rfl rfl rfl rfl rfl rfl rfl rfl⟩

end Uniflow.FlowN
