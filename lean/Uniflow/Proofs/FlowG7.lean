/-
C02, joint model, general links, part 7: `deliverAll` – handing the copies of one write to all linked
readers – computed, with the facts about nodes, sinks, FIFOs and owner tags afterwards.
-/
import Uniflow.Proofs.FlowG6

namespace Uniflow.FlowG
open Uniflow.Tracer Uniflow.Node Uniflow.Flow Uniflow.FlowInv
open Uniflow.NodeSpec (S EReq ESt Cur Rel curRead writesOf allIds)
open Uniflow.ATracer (getL_setOrDel getL_aset)

/-- the node part of the invariant -/
structure NI (N : Nat) (ss : Nat → S) (nodes : List Node) (nx : Nat) : Prop where
  len : ∀ n, (getNode nodes n).isSome = true ↔ n < N
  rel : ∀ n nd, getNode nodes n = some nd → Rel (ss n) nd nx

/-- a link target of the class -/
def TOK (N : Nat) : Tgt → Prop
  | .node m port => m < N ∧ port = 0
  | .sink _ => True

def pushS (ss : Nat → S) (t : Tgt) (c : Pid) (v : Val) : Nat → S :=
  match t with
  | .node m _ => upd ss m { (ss m) with inbox := (ss m).inbox ++ [⟨c, v⟩] }
  | .sink _ => ss

def pushNodes (nodes : List Node) (t : Tgt) (c : Pid) (v : Val) : List Node :=
  match t with
  | .node m port =>
    match getNode nodes m with
    | some nd =>
      match Node.step nd (.deliver port ⟨c, v⟩) with
      | some (nd', _) => setNode nodes m nd'
      | none => nodes
    | none => nodes
  | .sink _ => nodes

def pushSinks (sinks : List (Nat × List (Pid × Val))) (t : Tgt) (c : Pid) (v : Val) : List (Nat × List (Pid × Val)) :=
  match t with
  | .sink j => aset sinks j (getL sinks j ++ [(c, v)])
  | .node _ _ => sinks

def pushG (g : G) (key : Nat) (v : Val) (t : Tgt) : G :=
  { g with
    fifo := aset g.fifo (rkeyOf t) (getL g.fifo (rkeyOf t) ++ [key])
    nodes := pushNodes g.nodes t g.next v
    sinks := pushSinks g.sinks t g.next v
    arrived := (match t with | .sink k => g.arrived ++ [(k, v)] | .node _ _ => g.arrived)
    next := g.next + 1
    log := { g.log with owner := aset g.log.owner g.next (rkeyOf t) } }

theorem deliver_eq (N : Nat) (ss : Nat → S) (g : G) (key : Nat) (v : Val) (t : Tgt)
    (h : NI N ss g.nodes g.next) (ht : TOK N t) :
    deliver g key v t = pushG g key v t ∧ NI N (pushS ss t g.next v) (pushG g key v t).nodes (g.next + 1) := by
  cases t with
  | sink j =>
    refine ⟨rfl, h.len, fun n nd hn => NodeSpec.rel_mono _ _ _ _ (h.rel n nd hn) (Nat.le_succ _)⟩
  | node m port =>
    obtain ⟨hm, hp⟩ := ht
    subst hp
    cases hg : getNode g.nodes m with
    | none => have := (h.len m).mpr hm; rw [hg] at this; cases this
    | some ndm =>
      obtain ⟨ndm', hst, hrel⟩ := push_node (ss m) ndm g.next v (h.rel m ndm hg)
      refine ⟨?_, ?_, ?_⟩
      · simp only [deliver, hg, hst, pushG, pushNodes, pushSinks]
      · simp only [pushG, pushNodes, hg, hst]
        exact nodesLen_set' g.nodes N m ndm ndm' hg h.len
      · simp only [pushG, pushNodes, hg, hst, pushS]
        exact rel_upd' g.nodes ss m ndm ndm' _ g.next (g.next + 1) h.rel hg hrel (Nat.le_succ _)

def pushAllG (key : Nat) (v : Val) : List Tgt → G → G
  | [], g => g
  | t :: ts, g => pushAllG key v ts (pushG g key v t)

def pushAllS (v : Val) : List Tgt → (Nat → S) → Pid → (Nat → S)
  | [], ss, _ => ss
  | t :: ts, ss, c => pushAllS v ts (pushS ss t c v) (c + 1)

theorem deliverAll_eq (N : Nat) (key : Nat) (v : Val) : ∀ (ts : List Tgt) (g : G) (ss : Nat → S),
    NI N ss g.nodes g.next → (∀ t ∈ ts, TOK N t) →
    deliverAll key v ts g = (pushAllG key v ts g, List.range' g.next ts.length) ∧
    NI N (pushAllS v ts ss g.next) (pushAllG key v ts g).nodes (g.next + ts.length)
  | [], g, ss, h, _ => ⟨rfl, h⟩
  | t :: ts, g, ss, h, ht => by
    obtain ⟨e1, h1⟩ := deliver_eq N ss g key v t h (ht t List.mem_cons_self)
    obtain ⟨e2, h2⟩ := deliverAll_eq N key v ts (pushG g key v t) (pushS ss t g.next v) h1
      (fun t' ht' => ht t' (List.mem_cons_of_mem _ ht'))
    refine ⟨?_, ?_⟩
    · simp only [deliverAll, e1, e2, pushAllG, List.length_cons, List.range'_succ]; rfl
    · simp only [pushAllG, pushAllS, List.length_cons]
      have : (pushG g key v t).next = g.next + 1 := rfl
      rw [this] at h2
      have e : g.next + (ts.length + 1) = g.next + 1 + ts.length := by
        rw [Nat.add_comm ts.length 1, Nat.add_assoc]
      rw [e]; exact h2

/-- the copies handed to the reader with key `rk` -/
def copyOf : List Tgt → Pid → Nat → List Pid
  | [], _, _ => []
  | t :: ts, c, rk => (if rkeyOf t = rk then [c] else []) ++ copyOf ts (c + 1) rk

theorem copyOf_bound : ∀ (ts : List Tgt) (c : Pid) (rk : Nat), ∀ x ∈ copyOf ts c rk, c ≤ x ∧ x < c + ts.length
  | [], _, _, x, h => by simp [copyOf] at h
  | t :: ts, c, rk, x, h => by
    simp only [copyOf, List.mem_append] at h
    rcases h with h | h
    · split at h
      · simp only [List.mem_singleton] at h; subst h
        exact ⟨Nat.le_refl _, Nat.lt_add_of_pos_right (by simp)⟩
      · simp at h
    · have := copyOf_bound ts (c + 1) rk x h
      have h1 : @LE.le Nat _ (@HAdd.hAdd Nat Nat Nat _ c 1) x := this.1
      have h2 : @LT.lt Nat _ x (@HAdd.hAdd Nat Nat Nat _ (@HAdd.hAdd Nat Nat Nat _ c 1) ts.length) := this.2
      simp only [List.length_cons]
      exact ⟨by show @LE.le Nat _ c x; omega, by show @LT.lt Nat _ x (@HAdd.hAdd Nat Nat Nat _ c (ts.length + 1)); omega⟩

theorem copyOf_none : ∀ (ts : List Tgt) (c : Pid) (rk : Nat), rk ∉ ts.map rkeyOf → copyOf ts c rk = []
  | [], _, _, _ => rfl
  | t :: ts, c, rk, h => by
    simp only [List.map_cons, List.mem_cons, not_or] at h
    simp only [copyOf, Ne.symm h.1, if_false, List.nil_append]
    exact copyOf_none ts (c + 1) rk h.2

theorem copyOf_idx : ∀ (ts : List Tgt) (c : Pid) (i : Nat) (t : Tgt), (ts.map rkeyOf).Nodup → ts[i]? = some t →
    copyOf ts c (rkeyOf t) = [c + i]
  | [], _, _, _, _, h => by simp at h
  | t0 :: ts, c, 0, t, hnd, h => by
    simp only [List.getElem?_cons_zero, Option.some.injEq] at h; subst h
    simp only [List.map_cons, List.nodup_cons] at hnd
    simp only [copyOf, if_true, copyOf_none ts (c + 1) _ hnd.1]; rfl
  | t0 :: ts, c, i + 1, t, hnd, h => by
    simp only [List.getElem?_cons_succ] at h
    simp only [List.map_cons, List.nodup_cons] at hnd
    have hne : rkeyOf t0 ≠ rkeyOf t := fun e => hnd.1 (by rw [e]; exact List.mem_map_of_mem (List.mem_of_getElem? h))
    simp only [copyOf, hne, if_false, List.nil_append, copyOf_idx ts (c + 1) i t hnd.2 h]
    congr 1; rw [Nat.add_assoc, Nat.add_comm 1 i]

/-! ### projections of `pushAllG` -/

theorem pushAllG_frame (key : Nat) (v : Val) : ∀ (ts : List Tgt) (g : G),
    (pushAllG key v ts g).next = g.next + ts.length ∧ (pushAllG key v ts g).links = g.links ∧
    (pushAllG key v ts g).writers = g.writers ∧ (pushAllG key v ts g).roots = g.roots ∧
    (pushAllG key v ts g).resp = g.resp ∧ (pushAllG key v ts g).log.acts = g.log.acts ∧
    (pushAllG key v ts g).log.dels = g.log.dels ∧ (pushAllG key v ts g).log.echo = g.log.echo ∧
    (pushAllG key v ts g).log.sinkAns = g.log.sinkAns
  | [], g => ⟨rfl, rfl, rfl, rfl, rfl, rfl, rfl, rfl, rfl⟩
  | t :: ts, g => by
    obtain ⟨a1, a2, a3, a4, a5, a6, a7, a8, a9⟩ := pushAllG_frame key v ts (pushG g key v t)
    simp only [pushAllG]
    refine ⟨?_, a2, a3, a4, a5, a6, a7, a8, a9⟩
    rw [a1]; simp only [pushG, List.length_cons]; rw [Nat.add_assoc, Nat.add_comm 1]

theorem pushAllG_fifo (key : Nat) (v : Val) : ∀ (ts : List Tgt) (g : G) (rk : Nat),
    getL (pushAllG key v ts g).fifo rk = getL g.fifo rk ++ (copyOf ts g.next rk).map (fun _ => key)
  | [], g, rk => by simp [pushAllG, copyOf]
  | t :: ts, g, rk => by
    simp only [pushAllG, pushAllG_fifo key v ts (pushG g key v t) rk, copyOf]
    simp only [pushG, getL_aset]
    by_cases e : rk = rkeyOf t
    · subst e; simp
    · simp [e, Ne.symm e]

theorem pushAllG_owner_old (key : Nat) (v : Val) : ∀ (ts : List Tgt) (g : G) (id : Pid), id < g.next →
    aget (pushAllG key v ts g).log.owner id = aget g.log.owner id
  | [], g, id, _ => rfl
  | t :: ts, g, id, h => by
    simp only [pushAllG]
    rw [pushAllG_owner_old key v ts (pushG g key v t) id (Nat.lt_succ_of_lt h)]
    simp only [pushG, aget_aset, Nat.ne_of_lt h, if_false]

theorem pushAllG_owner_new (key : Nat) (v : Val) : ∀ (ts : List Tgt) (g : G) (rk : Nat), ∀ x ∈ copyOf ts g.next rk,
    aget (pushAllG key v ts g).log.owner x = some rk
  | [], g, rk, x, h => by simp [copyOf] at h
  | t :: ts, g, rk, x, h => by
    simp only [copyOf, List.mem_append] at h
    simp only [pushAllG]
    rcases h with h | h
    · split at h
      · rename_i e
        simp only [List.mem_singleton] at h; subst h
        rw [pushAllG_owner_old key v ts (pushG g key v t) g.next (Nat.lt_succ_self _)]
        simp only [pushG, aget_aset, if_true, e]
      · simp at h
    · exact pushAllG_owner_new key v ts (pushG g key v t) rk x h

theorem rkey_sink_of_tok (N : Nat) (hN : N ≤ 1000) (t : Tgt) (ht : TOK N t) (j : Nat)
    (e : rkeyOf t = rkeyOf (.sink j)) : t = .sink j := by
  cases t with
  | sink k => simp only [rkeyOf] at e; have : k = j := by omega
              rw [this]
  | node m port => simp only [TOK] at ht; simp only [rkeyOf] at e; omega

theorem rkey_node_of_tok (N : Nat) (hN : N ≤ 1000) (t : Tgt) (ht : TOK N t) (n : Nat) (hn : n < 1000)
    (e : rkeyOf t = rkeyOf (.node n 0)) : t = .node n 0 := by
  cases t with
  | sink k => simp only [rkeyOf] at e; omega
  | node m port =>
    simp only [TOK] at ht; simp only [rkeyOf] at e
    obtain ⟨_, rfl⟩ := ht
    have : m = n := by omega
    rw [this]

theorem pushAllG_sinks (N : Nat) (hN : N ≤ 1000) (key : Nat) (v : Val) : ∀ (ts : List Tgt) (g : G) (j : Nat),
    (∀ t ∈ ts, TOK N t) →
    getL (pushAllG key v ts g).sinks j = getL g.sinks j ++ (copyOf ts g.next (rkeyOf (.sink j))).map (fun c => (c, v))
  | [], g, j, _ => by simp [pushAllG, copyOf]
  | t :: ts, g, j, ht => by
    simp only [pushAllG, pushAllG_sinks N hN key v ts (pushG g key v t) j (fun t' h' => ht t' (List.mem_cons_of_mem _ h')), copyOf]
    by_cases e : rkeyOf t = rkeyOf (.sink j)
    · have := rkey_sink_of_tok N hN t (ht t List.mem_cons_self) j e
      subst this
      simp [pushG, pushSinks, getL_aset]
    · have hne : ∀ k, t = .sink k → j ≠ k := by intro k hk e2; subst hk; subst e2; exact e rfl
      simp only [e, if_false, List.nil_append]
      cases t with
      | node m port => simp [pushG, pushSinks]
      | sink k => simp [pushG, pushSinks, getL_aset, hne k rfl]

theorem pushAllS_spec (N : Nat) (hN : N ≤ 1000) (v : Val) : ∀ (ts : List Tgt) (ss : Nat → S) (c : Pid) (n : Nat),
    n < 1000 → (∀ t ∈ ts, TOK N t) →
    (pushAllS v ts ss c n).reqs = (ss n).reqs ∧ (pushAllS v ts ss c n).cur = (ss n).cur ∧
    (pushAllS v ts ss c n).inbox = (ss n).inbox ++ (copyOf ts c (rkeyOf (.node n 0))).map (fun x => ⟨x, v⟩)
  | [], ss, c, n, _, _ => by simp [pushAllS, copyOf]
  | t :: ts, ss, c, n, hn, ht => by
    obtain ⟨a1, a2, a3⟩ := pushAllS_spec N hN v ts (pushS ss t c v) (c + 1) n hn (fun t' h' => ht t' (List.mem_cons_of_mem _ h'))
    simp only [pushAllS, a1, a2, a3, copyOf]
    by_cases e : rkeyOf t = rkeyOf (.node n 0)
    · have := rkey_node_of_tok N hN t (ht t List.mem_cons_self) n hn e
      subst this
      simp [pushS, upd]
    · simp only [e, if_false, List.nil_append]
      cases t with
      | sink k => simp [pushS]
      | node m port =>
        have hp : port = 0 := (ht _ List.mem_cons_self).2
        subst hp
        have : n ≠ m := by intro e2; subst e2; exact e rfl
        simp [pushS, upd, this]

theorem pushAllS_dflt (N : Nat) (v : Val) : ∀ (ts : List Tgt) (ss : Nat → S) (c : Pid) (n : Nat),
    N ≤ n → (∀ t ∈ ts, TOK N t) → pushAllS v ts ss c n = ss n
  | [], ss, c, n, _, _ => rfl
  | t :: ts, ss, c, n, hn, ht => by
    simp only [pushAllS]
    rw [pushAllS_dflt N v ts (pushS ss t c v) (c + 1) n hn (fun t' h' => ht t' (List.mem_cons_of_mem _ h'))]
    cases t with
    | sink k => rfl
    | node m port =>
      have hm : m < N := (ht _ List.mem_cons_self).1
      have : n ≠ m := by omega
      simp [pushS, upd, this]

end Uniflow.FlowG
