/-
`patch` against the dictionary reference (Props/C10.lean `patch_eq_ref`): on a map in `Range` order (strictly ascending
`(hash, Compare)` keys – every map Go can build), `$set` / `$unset` give a map whose lookups are those of the reference
dictionary after `Dict.set` / `Dict.delete`. Core Lean only.
-/
import Uniflow.Proofs.Maps
import Uniflow.Proofs.Dict
import Uniflow.Spec.Query

namespace Uniflow.Store
open Uniflow.Value Uniflow.Query

/-! ### the order of `Range` -/

theorem keyCmp_antisymm (a b : Val) : keyCmp a b = -keyCmp b a := by
  unfold keyCmp
  rw [cmpNat_antisymm, Uniflow.Value.cmp_antisymm a b]
  exact lexStep_neg _ _

theorem keyCmp_T3 (a b c : Val) : T3 (keyCmp a b) (keyCmp b c) (keyCmp a c) :=
  T3_lex (cmpNat_T3 _ _ _) (cmp_T3 a b c)

theorem keyCmp_zero {a b : Val} : keyCmp a b = 0 ↔ equal a b = true := by
  unfold keyCmp
  rw [lexStep_zero]
  constructor
  · intro h; exact (cmp_zero_iff_equal a b).mp h.2
  · intro h
    refine ⟨?_, (cmp_zero_iff_equal a b).mpr h⟩
    rw [equal_hash a b h]
    exact cmpNat_zero.mpr rfl

theorem keyCmp_range (a b : Val) : keyCmp a b = -1 ∨ keyCmp a b = 0 ∨ keyCmp a b = 1 :=
  lexStep_range (cmpNat_range _ _) (cmp_range a b)

def pkeys : PList → List Val
  | .nil => []
  | .cons k _ ps => k :: pkeys ps

/-- strictly ascending keys -/
def KAsc : PList → Prop
  | .nil => True
  | .cons k _ ps => (∀ k' ∈ pkeys ps, keyCmp k k' < 0) ∧ KAsc ps

theorem mfind_none_of_above {x : Val} : ∀ {ps : PList}, (∀ k' ∈ pkeys ps, keyCmp x k' < 0) → mfind ps x = none
  | .nil, _ => rfl
  | .cons k v ps, h => by
    have h1 := h k (by simp [pkeys])
    have hne : equal k x = false := by
      cases he : equal k x with
      | false => rfl
      | true =>
        have := keyCmp_zero.mpr he
        have := keyCmp_antisymm x k
        omega
    simp only [mfind, hne, Bool.false_eq_true, if_false]
    exact mfind_none_of_above (fun k' hk' => h k' (by simp [pkeys, hk']))

theorem KAsc_distinct : ∀ {ps : PList}, KAsc ps → DistinctKeys ps
  | .nil, _ => trivial
  | .cons _ _ _, h => ⟨mfind_none_of_above h.1, KAsc_distinct h.2⟩

theorem pkeys_mset (k v : Val) : ∀ (ps : PList) (x : Val), x ∈ pkeys (mset ps k v) → x = k ∨ x ∈ pkeys ps
  | .nil, x, h => by simp [mset, pkeys] at h; exact Or.inl h
  | .cons k' v' ps, x, h => by
    simp only [mset] at h
    split at h
    · exact Or.inr h
    · split at h
      · simp only [pkeys, List.mem_cons] at h ⊢
        exact h
      · simp only [pkeys, List.mem_cons] at h ⊢
        rcases h with h | h
        · exact Or.inr (Or.inl h)
        · rcases pkeys_mset k v ps x h with h | h
          · exact Or.inl h
          · exact Or.inr (Or.inr h)

theorem KAsc_mset (k v : Val) : ∀ {ps : PList}, KAsc ps → KAsc (mset ps k v)
  | .nil, _ => by simp [mset, KAsc, pkeys]
  | .cons k' v' ps, h => by
    simp only [mset]
    split
    · exact h
    · next hne =>
      split
      · next hlt =>
        refine ⟨fun x hx => ?_, h⟩
        simp only [pkeys, List.mem_cons] at hx
        rcases hx with rfl | hx
        · exact hlt
        · exact (keyCmp_T3 k k' x).2.1 hlt (Int.le_of_lt (h.1 x hx))
      · next hge =>
        have hlt : keyCmp k' k < 0 := by
          have h0 : keyCmp k' k ≠ 0 := fun h0 => hne (keyCmp_zero.mp h0)
          have := keyCmp_antisymm k k'
          have := keyCmp_range k' k
          omega
        refine ⟨fun x hx => ?_, KAsc_mset k v h.2⟩
        rcases pkeys_mset k v ps x hx with rfl | hx
        · exact hlt
        · exact h.1 x hx

theorem pkeys_mdel (k : Val) : ∀ (ps : PList) (x : Val), x ∈ pkeys (mdel ps k) → x ∈ pkeys ps
  | .nil, x, h => by simp [mdel, pkeys] at h
  | .cons k' v' ps, x, h => by
    simp only [mdel] at h
    split at h
    · simp [pkeys, h]
    · simp only [pkeys, List.mem_cons] at h ⊢
      rcases h with h | h
      · exact Or.inl h
      · exact Or.inr (pkeys_mdel k ps x h)

theorem KAsc_mdel (k : Val) : ∀ {ps : PList}, KAsc ps → KAsc (mdel ps k)
  | .nil, _ => by simp [mdel, KAsc]
  | .cons k' v' ps, h => by
    simp only [mdel]
    split
    · exact h.2
    · exact ⟨fun x hx => h.1 x (pkeys_mdel k ps x hx), KAsc_mdel k h.2⟩

/-! ### the reference dictionary -/

theorem get_set (k v x : Val) : ∀ d : Dict.Dict, Dict.get (Dict.set d k v) x = if equal k x then some v else Dict.get d x
  | [] => by simp [Dict.set, Dict.get]
  | (k', v') :: d => by
    simp only [Dict.set]
    by_cases h1 : equal k' k = true
    · simp only [h1, if_true, Dict.get, equal_left_congr h1 x]
      split <;> simp_all
    · simp only [h1, Bool.false_eq_true, if_false, Dict.get, get_set k v x d]
      by_cases h2 : equal k' x = true
      · have : equal k x = false := by
          cases h3 : equal k x with
          | false => rfl
          | true => exact absurd (C14.equal_trans k' x k h2 (by rw [equal_comm]; exact h3)) h1
        simp [h2, this]
      · simp [h2]

theorem get_delete_other {k x : Val} (h : equal k x = false) : ∀ d : Dict.Dict, Dict.get (Dict.delete d k) x = Dict.get d x
  | [] => rfl
  | (k', v') :: d => by
    simp only [Dict.delete]
    by_cases h1 : equal k' k = true
    · have : equal k' x = false := by rw [equal_left_congr h1 x]; exact h
      simp [h1, Dict.get, this]
    · simp only [h1, Bool.false_eq_true, if_false, Dict.get, get_delete_other h d]

/-- no two keys of the dictionary are `equal` -/
def DD : Uniflow.Dict.Dict → Prop
  | [] => True
  | (k, _) :: d => Uniflow.Dict.get d k = none ∧ DD d

theorem get_congr_key {a b : Val} (h : equal a b = true) : ∀ d : Dict.Dict, Dict.get d a = Dict.get d b
  | [] => rfl
  | (k', v') :: d => by simp only [Dict.get, equal_right_congr h k', get_congr_key h d]

theorem get_delete_same {k x : Val} (h : equal k x = true) : ∀ {d : Dict.Dict}, DD d → Dict.get (Dict.delete d k) x = none
  | [], _ => rfl
  | (k', v') :: d, hd => by
    simp only [Dict.delete]
    by_cases h1 : equal k' k = true
    · simp only [h1, if_true]
      have : equal k' x = true := by rw [equal_left_congr h1 x]; exact h
      rw [← get_congr_key this]; exact hd.1
    · have : equal k' x = false := by
        cases h3 : equal k' x with
        | false => rfl
        | true => exact absurd (C14.equal_trans k' x k h3 (by rw [equal_comm]; exact h)) h1
      simp only [h1, Bool.false_eq_true, if_false, Dict.get, this, get_delete_same h hd.2]

theorem DD_set (k v : Val) : ∀ {d : Dict.Dict}, DD d → DD (Dict.set d k v)
  | [], _ => by simp [Dict.set, DD, Dict.get]
  | (k', v') :: d, hd => by
    simp only [Dict.set]
    by_cases h1 : equal k' k = true
    · simp only [h1, if_true]; exact hd
    · simp only [h1, Bool.false_eq_true, if_false]
      refine ⟨?_, DD_set k v hd.2⟩
      rw [get_set]
      have : equal k k' = false := by rw [equal_comm]; simpa using h1
      simp [this, hd.1]

theorem DD_delete (k : Val) : ∀ {d : Dict.Dict}, DD d → DD (Dict.delete d k)
  | [], _ => by simp [Dict.delete, DD]
  | (k', v') :: d, hd => by
    simp only [Dict.delete]
    by_cases h1 : equal k' k = true
    · simp only [h1, if_true]; exact hd.2
    · simp only [h1, Bool.false_eq_true, if_false]
      refine ⟨?_, DD_delete k hd.2⟩
      rw [get_delete_other (by rw [equal_comm]; simpa using h1)]
      exact hd.1

/-! ### the map and the dictionary move together -/

/-- the map `ps` (in `Range` order) and the dictionary `d` hold the same associations -/
structure Rel (ps : PList) (d : Uniflow.Dict.Dict) : Prop where
  asc : KAsc ps
  dd : DD d
  look : ∀ x, mfind ps x = Uniflow.Dict.get d x

theorem Rel_set {ps : PList} {d : Uniflow.Dict.Dict} (h : Rel ps d) (k v : Val) :
    Rel (mset ps k v) (Uniflow.Dict.set d k v) :=
  ⟨KAsc_mset k v h.asc, DD_set k v h.dd, fun x => by rw [mfind_mset, get_set, h.look]⟩

theorem Rel_del {ps : PList} {d : Uniflow.Dict.Dict} (h : Rel ps d) (k : Val) :
    Rel (mdel ps k) (Uniflow.Dict.delete d k) := by
  refine ⟨KAsc_mdel k h.asc, DD_delete k h.dd, fun x => ?_⟩
  cases he : equal k x with
  | true => rw [mfind_mdel_same he (KAsc_distinct h.asc), get_delete_same he h.dd]
  | false => rw [mfind_mdel_other he, get_delete_other he, h.look]

theorem Rel_setAll : ∀ (kv : PList) {ps : PList} {d : Uniflow.Dict.Dict}, Rel ps d → Rel (msetAll ps kv) (setAll d kv)
  | .nil, _, _, h => h
  | .cons k v rest, _, _, h => Rel_setAll rest (Rel_set h k v)

theorem Rel_unsetAll : ∀ (kv : PList) {ps : PList} {d : Uniflow.Dict.Dict}, Rel ps d → Rel (mdelAll ps kv) (unsetAll d kv)
  | .nil, _, _, h => h
  | .cons k _ rest, _, _, h => Rel_unsetAll rest (Rel_del h k)

theorem Rel_patch : ∀ (u : PList) {ps ps' : PList} {d : Uniflow.Dict.Dict}, Rel ps d → wfUpdate u = true →
    patchP ps u = .ok ps' → Rel ps' (refPatch d u)
  | .nil, ps, ps', d, h, _, hp => by
    simp only [patchP, Res.ok.injEq] at hp; subst hp
    simpa [refPatch] using h
  | .cons k value rest, ps, ps', d, h, hw, hp => by
    cases k with
    | str key =>
      cases value with
      | map kv =>
        simp only [wfUpdate, Bool.and_eq_true, Bool.or_eq_true, decide_eq_true_eq] at hw
        simp only [patchP] at hp
        simp only [refPatch]
        by_cases hs : key = opSet
        · simp only [hs, if_true] at hp ⊢
          exact Rel_patch rest (Rel_setAll kv h) hw.2 hp
        · have hu : key = opUnset := by rcases hw.1 with h1 | h1; exact absurd h1 hs; exact h1
          have hne : opUnset ≠ opSet := by decide
          simp only [hu, hne, if_false, if_true] at hp ⊢
          exact Rel_patch rest (Rel_unsetAll kv h) hw.2 hp
      | _ => simp [wfUpdate] at hw
    | _ => simp [wfUpdate] at hw

theorem Rel_toList : ∀ {ps : PList}, KAsc ps → Rel ps ps.toList
  | .nil, _ => ⟨trivial, trivial, fun _ => rfl⟩
  | .cons k v ps, h => by
    have ih := Rel_toList h.2
    refine ⟨h, ⟨?_, ih.dd⟩, fun x => ?_⟩
    · rw [← ih.look]; exact mfind_none_of_above h.1
    · simp only [mfind, PList.toList, Uniflow.Dict.get, ih.look]

end Uniflow.Store
