/-
C02, joint model, all node kinds, part 13: a `Write` of thread `i` accepted by the node's out-writer.
-/
import Uniflow.Proofs.FlowN12

namespace Uniflow.FlowN
open Uniflow.Tracer Uniflow.Node Uniflow.Flow Uniflow.FlowInv Uniflow.FlowG Uniflow.ATracer Uniflow.FlowH Uniflow.FlowM
open Uniflow.ATracer (getL_setOrDel getL_aset)

theorem HI_write_acc (kinds : List Kind) (links : List (Nat × List Tgt)) (hwf : GraphWF5 kinds links) (aa : Nat → A) (g : G)
    (h : HI kinds links aa D0 g) (n : Nat) (nd : Node) (i : Rid) (inbox : List Pkt) (w : Wid) (q : Pkt)
    (ops : List Op) (hn : getNode g.nodes n = some nd)
    (hg : getThread nd.threads i = some { inbox := inbox, pc := .emit (.write (some w) q :: ops) })
    (hlne : getL links (wkey n w) ≠ []) (hw : w < maxW) :
    ∃ nd', Node.step nd (.op i true) = some (nd', []) ∧
      getNode (pushAllG (wkey n w) q.pay (getL links (wkey n w)) (rowPush g (wkey n w))).nodes n = some nd ∧
      HI kinds links (updA aa n (awrite (aa n) (some w) q.id (.pay q.pay) true).1) D0
        { pushAllG (wkey n w) q.pay (getL links (wkey n w)) (rowPush g (wkey n w)) with
          nodes := setNode (pushAllG (wkey n w) q.pay (getL links (wkey n w)) (rowPush g (wkey n w))).nodes n nd',
          log := pushedLog (rowPush g (wkey n w)) (wkey n w) q.pay (getL links (wkey n w)) q.id } := by
  have hN := hwf.small
  have hjb := h.jb n nd hn
  have hnl := h.nl n nd hn i _ hg
  have hnN : n < kinds.length := (h.nodesLen n).mp (by rw [hn]; rfl)
  have hgl' : getL g.links (wkey n w) = getL links (wkey n w) := by rw [h.glinks]
  obtain ⟨hst, hjb', _⟩ := jbm_op nd (aa n) g.next hjb i inbox (.write (some w) q) ops hg true
  have hi63 : i < 63 :=
    Nat.lt_of_lt_of_le (getThread_lt _ _ _ hg) (by rw [h.thr n nd hn]; exact nIn_le _ (h.kindOK n nd hn))
  let a' := (awrite (aa n) (some w) q.id (.pay q.pay) true).1
  -- the written packet is a linked packet of the thread's request, or the request itself
  have main : ∃ x, x ∈ (aa n).reqs ∧ x.r = i ∧ q.id ∈ idsR x ∧ Unlogged g.log q.id ∧
      (∃ τ, aget g.log.owner q.id = some τ ∧ τ / 64 = n) ∧ q.id < g.next ∧
      ∀ lg' : Log, Tr g.log lg' q.id →
        (∀ id ∈ nlIdsT i { inbox := inbox, pc := .emit (.write (some w) q :: ops) } (aa n),
          aget lg'.owner id = aget g.log.owner id) →
        NLt lg' n i { inbox := inbox, pc := nextPc ops } a' ∧
        a'.wq = aset (aa n).wq w (getL (aa n).wq w ++ [q.id]) ∧
        (awrite (aa n) (some w) q.id (.pay q.pay) true).2 = [] ∧ ∃ f, a'.reqs = updReq x.p f (aa n).reqs := by
    rcases write_shape g.log n nd (aa n) g.next hjb i inbox (some w) q ops hg hnl with ⟨e1, hXe⟩ |
      ⟨p, cs, rest, hX, hl, hrem0, hqU, hqo, hqlt, hki, hkr⟩
    · subst e1
      have hqi : q.id ∈ ids (aa n).reqs := mem_ids_of_mem hXe (by simp [idsR])
      have hdis := jbm_disj nd (aa n) g.next hjb i _ hg q.id hqi
      refine ⟨_, hXe, rfl, by simp [idsR], req_unlogged g.log n i _ (aa n) q.id hnl hXe (by simp [remFor, remOps]),
        ⟨n * 64 + i, hnl.own _ hXe rfl, tag_reader n i hi63⟩, hjb.bnd q.id (List.mem_append_left _ hqi), ?_⟩
      intro lg' t ho
      obtain ⟨w1, w2, w3, w4⟩ := nlt_write_self_acc g.log lg' n i (aa n) inbox w q hnl hjb.j.inv.nodup hXe t
        (fun x hx' e => hdis (by simp only [tids, List.mem_append, List.mem_map]; left; exact ⟨x, hx', e⟩)) ho
      exact ⟨w1, w2, w3, _, w4⟩
    · have hql : q.id ∈ linkedIds cs := by rw [hl]; simp
      refine ⟨_, hX, rfl, linked_in_idsR _ cs rfl q.id hql, hqU, ⟨qTag n, hqo, tag_q n⟩, hqlt, ?_⟩
      intro lg' t ho
      obtain ⟨w1, w2, w3, w4⟩ := nlt_write_acc g.log lg' n i (aa n) inbox w q ops hnl hjb.j.inv.nodup p cs rest hX hl
        hrem0 t hki (fun y hy _ _ => hkr y hy) ho
      exact ⟨w1, w2, w3, _, w4⟩
  obtain ⟨x, hxm, hxr, hqx, hqU, ⟨τ, hqo, hτ⟩, hqlt, post⟩ := main
  have hnot : ∀ t' ∈ getL links (wkey n w), ∀ port, t' ≠ Tgt.node n port := by
    intro t' ht' port e
    subst e
    exact Nat.lt_irrefl _ (hwf.fwd n w n port hnN hw ht')
  let ts := getL links (wkey n w)
  let gb := rowPush g (wkey n w)
  let P := pushAllG (wkey n w) q.pay ts gb
  let lg' := pushedLog gb (wkey n w) q.pay ts q.id
  have hts : ∀ t ∈ ts, TOK kinds t := tok_of_mem5 kinds links hwf (wkey n w)
  obtain ⟨_, hnihP, hnodeP⟩ := deliverAll_eqH kinds hN hwf.kindsOK aa (wkey n w) q.pay ts gb (nih_of kinds links aa g h) hts
  have hn1 : getNode P.nodes n = some nd := by
    show getNode (pushAllG (wkey n w) q.pay ts gb).nodes n = _
    rw [pushAllG_nodes_other (wkey n w) q.pay n ts gb hnot]; exact hn
  have hxl : LogExt g.log lg' q.id := pushedLog_ext g gb (wkey n w) q.pay ts q.id hqU rfl
  have hoO : ∀ id, id < g.next → aget lg'.owner id = aget g.log.owner id := by
    intro id hid
    show aget P.log.owner id = _
    exact pushAllG_owner_old (wkey n w) q.pay ts gb id hid
  have hlt := nlIdsT_lt nd (aa n) g.next hjb i _ hg
  obtain ⟨w1, w2, w3, f, w4⟩ := post lg' (tr_of_ext g.log lg' q.id hxl) (fun id hid => hoO id (hlt id hid))
  have hev : (acall (aa n) (opCall true (.write (some w) q))).2 = [] := w3
  rw [hev] at hst
  let nd' : Node := { nd with tr := (tcall nd.tr (opCall true (.write (some w) q))).1,
                              threads := setThread nd.threads i { inbox := inbox, pc := nextPc ops } }
  have hths := hths_of_set nd.threads i _ { inbox := inbox, pc := nextPc ops } hg
  have hgi' : getThread nd'.threads i = some { inbox := inbox, pc := nextPc ops } := by rw [hths i]; simp
  have hrdall : ∀ port, (a'.reqs.filter (fun x => x.r = port)).map (·.p) =
      ((aa n).reqs.filter (fun x => x.r = port)).map (·.p) := by
    intro port; rw [w4]; exact readsOf_upd (aa n).reqs x.p _ port
  refine ⟨nd', hst, hn1, ?_⟩
  have hgetF : ∀ m, getNode (setNode P.nodes n nd') m = if m = n then some nd' else getNode P.nodes m :=
    fun m => getNode_setNode P.nodes n m nd' (by rw [hn1]; rfl)
  apply HI_pushed kinds links hwf aa g h (wkey n w) q.pay hlne gb rfl rfl rfl rfl rfl rfl
    (by simp only [gb, rowPush, newRow, hgl']) (Nat.le_refl _) h.rootsB q.id hqU hqlt
    (fun m => m = n) (updA aa n a') (setNode P.nodes n nd')
  · exact nodesLen_set' P.nodes _ n nd nd' hn1 hnihP.len
  · intro m ndm hm hgm
    subst hm
    rw [hgetF m] at hgm
    simp only [if_true, Option.some.injEq] at hgm
    subst hgm
    refine ⟨h.kindOK m nd hn, h.kindEq m nd hn, ?_, ?_⟩
    · show (setThread nd.threads i _).length = _
      rw [length_setThread]; exact h.thr m nd hn
    · simp only [updA, if_true]
      show ∀ x ∈ a'.reqs, x.r < (setThread nd.threads i _).length
      rw [length_setThread]
      exact rdr_acall (aa m) (opCall true (.write (some w) q)) (fun r => r < nd.threads.length) (h.rdr m nd hn)
        (fun r hr => by simp [opCall, newReads] at hr)
  · intro m hm
    have hm' : m ≠ n := hm
    exact ⟨by simp only [updA, hm', if_false], by rw [hgetF m]; simp only [hm', if_false]; rfl⟩
  · intro m hm; rw [hm]; exact hnN
  · intro m hm port hmem; rw [hm] at hmem; exact hnot _ hmem port rfl
  · intro m ndm hm hgm
    subst hm
    rw [hgetF m] at hgm
    simp only [if_true, Option.some.injEq] at hgm
    subst hgm
    simp only [updA, if_true]
    exact jbm_mono _ _ _ _ hjb' (Nat.le_add_right _ _)
  · intro m ndm hm hgm
    subst hm
    rw [hgetF m] at hgm
    simp only [if_true, Option.some.injEq] at hgm
    subst hgm
    simp only [updA, if_true]
    exact nlm_step g.log lg' q.id (tr_of_ext g.log lg' q.id hxl) m nd nd' (aa m) a' g.next hjb (h.nl m nd hn) i _
      { inbox := inbox, pc := nextPc ops } hg hths w1
      (fun y hy hyr => others_kept (aa m) x hjb.j.inv.nodup hxm f a' (fun y hy => by rw [w4] at hy; exact hy) y hy
        (by rw [hxr]; exact hyr))
      (Or.inr (Or.inr ⟨x, hxm, hxr, hqx⟩)) hoO
  · intro m ndm ndF port hm hg0 hgF
    subst hm
    rw [hgetF m] at hgF
    simp only [if_true, Option.some.injEq] at hgF
    subst hgF
    rw [hn] at hg0; simp only [Option.some.injEq] at hg0; subst hg0
    simp only [updA, if_true]
    by_cases e : port = i
    · rw [e, heldN_of nd' a' i _ hgi', heldN_of nd (aa m) i _ hg, hrdall i]
    · exact heldN_other nd nd' (aa m) a' i port _ e hths (hrdall port)
  · exact Or.inr ⟨τ, hqo, fun m hm => by rw [hτ]; exact fun e => hm e.symm,
      by rw [hτ]; exact Nat.lt_of_lt_of_le hnN hN⟩
  · intro key'
    show pendH (updA aa n a') g.roots g.resp.length key' = _
    have hw64 : w < 64 := Nat.lt_of_lt_of_le hw (by decide)
    obtain ⟨hd1, hd2⟩ := wkey_div_mod n w hw64
    simp only [pendH]
    by_cases e1 : key' = srcKey
    · have : srcKey ≠ wkey n w := by
        rcases src_ne_wkey n w _ hnN hN with h1 | h1
        · exact h1
        · omega
      simp [e1, this]
    · simp only [e1, if_false]
      by_cases e2 : key' / 64 = n
      · simp only [updA, e2, if_true]
        show getL a'.wq (key' % 64) = _
        rw [w2, getL_aset]
        by_cases e3 : key' % 64 = w
        · have : key' = wkey n w := key_eq_wkey n w key' e2 e3
          rw [this, hd2]; simp
        · have : key' ≠ wkey n w := fun e4 => e3 (by rw [e4]; exact hd2)
          simp [e3, this]
      · have : key' ≠ wkey n w := fun e4 => e2 (by rw [e4]; exact hd1)
        simp [updA, e2, this]
  · exact ⟨h.respOK.1, rfl⟩

end Uniflow.FlowN
