/-
Heap-level lemmas for `Uniflow.MapHeap` (bucket arrays, Go maps and mutableMap objects as heap objects):
`resolve` and the simulation of the by-value table operations by `aSet` / `aDelete`, the frame invariant behind
`snapshot_stable`, and the heap invariant behind `buckets_sorted`. Core Lean only.
-/
import Uniflow.Proofs.MapHeap

namespace Uniflow.MapHeap
open Uniflow.Value

/-! ### reading Go maps through the bucket heap -/

/-- `bs'` still holds every bucket array of `bs` unchanged -/
def Keeps (bs bs' : List Bucket) : Prop := ∀ (a : Nat) (b : Bucket), bs[a]? = some b → bs'[a]? = some b

theorem Keeps.refl (bs : List Bucket) : Keeps bs bs := fun _ _ h => h

theorem Keeps.trans {a b c : List Bucket} (h1 : Keeps a b) (h2 : Keeps b c) : Keeps a c :=
  fun x y h => h2 x y (h1 x y h)

theorem Keeps.append (bs ex : List Bucket) : Keeps bs (bs ++ ex) := by
  unfold Keeps
  intro a b h
  have ha : a < bs.length := by
    rcases Nat.lt_or_ge a bs.length with h' | h'
    · exact h'
    · rw [List.getElem?_eq_none h'] at h; cases h
  rw [List.getElem?_append_left ha]; exact h

theorem resolve_keeps {bs bs' : List Bucket} (hk : Keeps bs bs') :
    ∀ {t : ATable} {T : Table}, resolve bs t = some T → resolve bs' t = some T
  | [], _, h => by simpa [resolve] using h
  | (h, a) :: t, T, hr => by
    unfold resolve at hr ⊢
    cases hb : bs[a]? with
    | none => rw [hb] at hr; simp at hr
    | some b =>
      cases ht : resolve bs t with
      | none => rw [hb, ht] at hr; simp at hr
      | some T0 =>
        rw [hb, ht] at hr
        rw [hk a b hb, resolve_keeps hk ht]
        exact hr

/-- what `m.value[hash]` finds, through the heap -/
theorem resolve_bucketOf {bs : List Bucket} : ∀ {t : ATable} {T : Table}, resolve bs t = some T → ∀ h,
    (bucketOf t h = none ∧ bucketOf T h = none) ∨
    (∃ a b, bucketOf t h = some a ∧ bs[a]? = some b ∧ bucketOf T h = some b)
  | [], T, hr, h => by
    simp only [resolve, Option.some.injEq] at hr
    subst hr; exact .inl ⟨rfl, rfl⟩
  | (h', a) :: t, T, hr, h => by
    unfold resolve at hr
    cases hb : bs[a]? with
    | none => rw [hb] at hr; simp at hr
    | some b =>
      cases ht : resolve bs t with
      | none => rw [hb, ht] at hr; simp at hr
      | some T0 =>
        rw [hb, ht] at hr
        simp only [Option.some.injEq] at hr
        subst hr
        unfold bucketOf
        by_cases hh : h' = h
        · simp only [hh, ite_true]
          exact .inr ⟨a, b, rfl, hb, rfl⟩
        · simp only [hh, ite_false]
          exact resolve_bucketOf ht h

theorem curBucket_eq {bs : List Bucket} {t : ATable} {T : Table} (hr : resolve bs t = some T) (h : UInt64) :
    curBucket bs t h = some ((bucketOf T h).getD []) := by
  unfold curBucket
  rcases resolve_bucketOf hr h with ⟨h1, h2⟩ | ⟨a, b, h1, h2, h3⟩
  · rw [h1, h2]; rfl
  · rw [h1, h3]; exact h2

theorem resolve_put {bs : List Bucket} {a : Nat} {b : Bucket} (hb : bs[a]? = some b) (h : UInt64) :
    ∀ {t : ATable} {T : Table}, resolve bs t = some T → resolve bs (put t h a) = some (put T h b)
  | [], T, hr => by
    simp only [resolve, Option.some.injEq] at hr
    subst hr
    simp [put, resolve, hb]
  | (h', a') :: t, T, hr => by
    unfold resolve at hr
    cases hb' : bs[a']? with
    | none => rw [hb'] at hr; simp at hr
    | some b' =>
      cases ht : resolve bs t with
      | none => rw [hb', ht] at hr; simp at hr
      | some T0 =>
        rw [hb', ht] at hr
        simp only [Option.some.injEq] at hr
        subst hr
        unfold put
        by_cases hh : h' = h
        · simp only [hh, ite_true]
          unfold resolve; rw [hb, ht]
        · simp only [hh, ite_false]
          unfold resolve; rw [hb', resolve_put hb h ht]

theorem resolve_erase {bs : List Bucket} (h : UInt64) :
    ∀ {t : ATable} {T : Table}, resolve bs t = some T → resolve bs (erase t h) = some (erase T h)
  | [], T, hr => by
    simp only [resolve, Option.some.injEq] at hr
    subst hr
    simp [erase, resolve]
  | (h', a') :: t, T, hr => by
    unfold resolve at hr
    cases hb' : bs[a']? with
    | none => rw [hb'] at hr; simp at hr
    | some b' =>
      cases ht : resolve bs t with
      | none => rw [hb', ht] at hr; simp at hr
      | some T0 =>
        rw [hb', ht] at hr
        simp only [Option.some.injEq] at hr
        subst hr
        unfold erase
        by_cases hh : h' = h
        · simp only [hh, ite_true]; exact ht
        · simp only [hh, ite_false]
          unfold resolve; rw [hb', resolve_erase h ht]

theorem getElem?_append_new (bs : List Bucket) (b : Bucket) : (bs ++ [b])[bs.length]? = some b := by
  simp

/-! ### `aSet` / `aDelete` simulate `tSet` / `tDelete` on the content, and only append to the bucket heap -/

theorem aSet_ext {bs : List Bucket} {t : ATable} {key val : Val} {r : List Bucket × ATable}
    (h : aSet bs t key val = some r) : ∃ ex, r.1 = bs ++ ex := by
  unfold aSet at h
  split at h
  · cases h
  · split at h
    · cases h; exact ⟨_, rfl⟩
    · cases h; exact ⟨_, rfl⟩
    · cases h

theorem aDelete_ext {bs : List Bucket} {t : ATable} {key : Val} {r : List Bucket × ATable}
    (h : aDelete bs t key = some r) : ∃ ex, r.1 = bs ++ ex := by
  unfold aDelete at h
  split at h
  · cases h; exact ⟨[], by simp⟩
  · split at h
    · cases h
    · split at h
      · simp only at h
        split at h
        · cases h; exact ⟨_, rfl⟩
        · cases h; exact ⟨[], by simp⟩
      · cases h; exact ⟨[], by simp⟩
      · cases h

theorem aSet_sim {bs : List Bucket} {t : ATable} {T T' : Table} {key val : Val}
    (hr : resolve bs t = some T) (hs : tSet T key val = some T') :
    ∃ r, aSet bs t key val = some r ∧ resolve r.1 r.2 = some T' := by
  unfold aSet
  rw [curBucket_eq hr]
  unfold tSet at hs
  simp only at hs ⊢
  cases hsr : search ((bucketOf T (hash key)).getD []) key with
  | found i p =>
    rw [hsr] at hs
    simp only [Option.some.injEq] at hs
    subst hs
    exact ⟨_, rfl, resolve_put (getElem?_append_new _ _) _ (resolve_keeps (Keeps.append _ _) hr)⟩
  | absent lo =>
    rw [hsr] at hs
    simp only [Option.some.injEq] at hs
    subst hs
    exact ⟨_, rfl, resolve_put (getElem?_append_new _ _) _ (resolve_keeps (Keeps.append _ _) hr)⟩
  | panic => rw [hsr] at hs; cases hs

theorem aDelete_sim {bs : List Bucket} {t : ATable} {T T' : Table} {key : Val}
    (hr : resolve bs t = some T) (hs : tDelete T key = some T') :
    ∃ r, aDelete bs t key = some r ∧ resolve r.1 r.2 = some T' := by
  unfold aDelete
  unfold tDelete at hs
  simp only at hs
  rcases resolve_bucketOf hr (hash key) with ⟨h1, h2⟩ | ⟨a, b, h1, h2, h3⟩
  · rw [h1]; rw [h2] at hs
    simp only [Option.some.injEq] at hs
    subst hs
    exact ⟨_, rfl, hr⟩
  · rw [h1]; rw [h3] at hs
    simp only [h2]
    simp only at hs
    cases hsr : search b key with
    | found i p =>
      rw [hsr] at hs
      simp only at hs ⊢
      split
      · rename_i hl
        rw [if_pos hl] at hs
        simp only [Option.some.injEq] at hs
        subst hs
        exact ⟨_, rfl, resolve_put (getElem?_append_new _ _) _ (resolve_keeps (Keeps.append _ _) hr)⟩
      · rename_i hl
        rw [if_neg hl] at hs
        simp only [Option.some.injEq] at hs
        subst hs
        exact ⟨_, rfl, resolve_erase _ hr⟩
    | absent lo =>
      rw [hsr] at hs
      simp only [Option.some.injEq] at hs
      subst hs
      exact ⟨_, rfl, hr⟩
    | panic => rw [hsr] at hs; cases hs


/-! ### Frame reasoning on the heap -/

/-- Frame invariant relative to a base heap `hp0`: its bucket arrays and Go maps are still there, unchanged; every
mutableMap object created since holds a Go map created since. -/
structure Frame (hp0 hp : Heap) : Prop where
  tlen : hp0.tables.length ≤ hp.tables.length
  olen : hp0.objs.length ≤ hp.objs.length
  old : ∀ a, a < hp0.tables.length → hp.tables[a]? = hp0.tables[a]?
  bold : Keeps hp0.buckets hp.buckets
  fresh : ∀ o a, hp0.objs.length ≤ o → hp.objs[o]? = some a → hp0.tables.length ≤ a

/-- a handle that cannot write a Go map of the base heap: any immutable map, or a mutable map created since -/
def Derivable (hp0 : Heap) : Handle → Prop
  | .imm _ => True
  | .mut o => hp0.objs.length ≤ o

theorem Frame.refl (hp : Heap) : Frame hp hp :=
  ⟨Nat.le_refl _, Nat.le_refl _, fun _ _ => rfl, Keeps.refl _, fun o a ho h => by
    have : o < hp.objs.length := by
      rcases Nat.lt_or_ge o hp.objs.length with h' | h'
      · exact h'
      · rw [List.getElem?_eq_none h'] at h; cases h
    omega⟩

theorem Frame.allocTable {hp0 hp : Heap} (f : Frame hp0 hp) (t : ATable) :
    Frame hp0 (hp.allocTable t).1 ∧ (hp.allocTable t).2 = hp.tables.length ∧
      (hp.allocTable t).1.buckets = hp.buckets := by
  refine ⟨⟨?_, f.olen, ?_, f.bold, f.fresh⟩, rfl, rfl⟩
  · simp [Heap.allocTable]; have := f.tlen; omega
  · intro a ha
    simp only [Heap.allocTable]
    rw [List.getElem?_append_left (by have := f.tlen; omega)]
    exact f.old a ha

theorem Frame.write {hp0 hp : Heap} (f : Frame hp0 hp) {a : Nat} (ha : hp0.tables.length ≤ a)
    {r : List Bucket × ATable} (hk : Keeps hp.buckets r.1) : Frame hp0 (hp.write a r) := by
  refine ⟨?_, f.olen, ?_, f.bold.trans hk, f.fresh⟩
  · simp [Heap.write]; exact f.tlen
  · intro a0 ha0
    simp only [Heap.write]
    rw [List.getElem?_set_ne (by omega)]
    exact f.old a0 ha0

theorem Frame.allocObj {hp0 hp : Heap} (f : Frame hp0 hp) {a : Nat} (ha : hp0.tables.length ≤ a) :
    Frame hp0 (hp.allocObj a).1 ∧ hp0.objs.length ≤ (hp.allocObj a).2 := by
  refine ⟨⟨f.tlen, ?_, f.old, f.bold, ?_⟩, f.olen⟩
  · simp [Heap.allocObj]; have := f.olen; omega
  · intro o a' ho h
    simp only [Heap.allocObj] at h
    rw [List.getElem?_append] at h
    split at h
    · exact f.fresh o a' ho h
    · rcases Nat.lt_or_ge (o - hp.objs.length) 1 with h1 | h1
      · have : o - hp.objs.length = 0 := by omega
        rw [this] at h; simp at h; omega
      · rw [List.getElem?_eq_none (by simpa using h1)] at h; cases h

theorem Frame.setObj {hp0 hp : Heap} (f : Frame hp0 hp) (o : Nat) {a : Nat} (ha : hp0.tables.length ≤ a) :
    Frame hp0 { hp with objs := hp.objs.set o a } := by
  refine ⟨f.tlen, ?_, f.old, f.bold, ?_⟩
  · simp; exact f.olen
  · intro o' a' ho h
    simp only at h
    rw [List.getElem?_set] at h
    split at h
    · split at h
      · cases h; exact ha
      · cases h
    · exact f.fresh o' a' ho h

/-- a `mutableMap.Set`/`Delete` rule that only appends to the bucket heap -/
def AppendOnly (rule : List Bucket → ATable → Option (List Bucket × ATable)) : Prop :=
  ∀ bs t r, rule bs t = some r → Keeps bs r.1

theorem aSet_appendOnly (k v : Val) : AppendOnly (fun bs t => aSet bs t k v) := by
  intro bs t r h
  obtain ⟨ex, he⟩ := aSet_ext h
  rw [he]; exact Keeps.append _ _

theorem aDelete_appendOnly (k : Val) : AppendOnly (fun bs t => aDelete bs t k) := by
  intro bs t r h
  obtain ⟨ex, he⟩ := aDelete_ext h
  rw [he]; exact Keeps.append _ _

/-- copy the Go map `t` into a fresh address and run an append-only rule on the copy -/
theorem frame_copy_write {hp0 hp hp2 : Heap} (f : Frame hp0 hp) {t : ATable} {o : Nat}
    (heq : hp.copyTable t = (hp2, o)) {r : List Bucket × ATable} (hk : Keeps hp2.buckets r.1) :
    Frame hp0 (hp2.write o r) := by
  have h := f.allocTable t
  unfold Heap.copyTable at heq
  rw [heq] at h
  simp only at h
  exact h.1.write (by rw [h.2.1]; exact f.tlen) hk

theorem setWith_frame {rule : List Bucket → ATable → Val → Val → Option (List Bucket × ATable)}
    (hrule : ∀ k v, AppendOnly (fun bs t => rule bs t k v))
    {hp0 hp hp' : Heap} {h h' : Handle} {same : Bool} {k v : Val}
    (f : Frame hp0 hp) (hd : Derivable hp0 h) (hr : hp.setWith rule h k v = .ok hp' h' same) :
    Frame hp0 hp' ∧ Derivable hp0 h' := by
  unfold Heap.setWith at hr
  split at hr
  · split at hr
    · cases hr
    · split at hr
      · cases hr
      · split at hr
        · cases hr; exact ⟨f, hd⟩
        · split at hr
          rename_i heq
          split at hr
          · rename_i hru
            cases hr
            exact ⟨frame_copy_write f heq (hrule k v _ _ _ hru), trivial⟩
          · cases hr
      · split at hr
        rename_i heq
        split at hr
        · rename_i hru
          cases hr
          exact ⟨frame_copy_write f heq (hrule k v _ _ _ hru), trivial⟩
        · cases hr
  · rename_i o t a _ ha
    split at hr
    · rename_i hru
      cases hr; exact ⟨f.write (f.fresh _ _ hd ha) (hrule k v _ _ _ hru), hd⟩
    · cases hr
  · cases hr

theorem set_frame {hp0 hp hp' : Heap} {h h' : Handle} {same : Bool} {k v : Val}
    (f : Frame hp0 hp) (hd : Derivable hp0 h) (hr : hp.set h k v = .ok hp' h' same) :
    Frame hp0 hp' ∧ Derivable hp0 h' :=
  setWith_frame aSet_appendOnly f hd hr

theorem delete_frame {hp0 hp hp' : Heap} {h h' : Handle} {same : Bool} {k : Val}
    (f : Frame hp0 hp) (hd : Derivable hp0 h) (hr : hp.delete h k = .ok hp' h' same) :
    Frame hp0 hp' ∧ Derivable hp0 h' := by
  unfold Heap.delete at hr
  split at hr
  · split at hr
    · cases hr
    · split at hr
      · cases hr
      · cases hr; exact ⟨f, hd⟩
      · split at hr
        rename_i heq
        split at hr
        · rename_i hru
          cases hr
          exact ⟨frame_copy_write f heq (aDelete_appendOnly k _ _ _ hru), trivial⟩
        · cases hr
  · rename_i o t a _ ha
    split at hr
    · rename_i hru
      cases hr; exact ⟨f.write (f.fresh _ _ hd ha) (aDelete_appendOnly k _ _ _ hru), hd⟩
    · cases hr
  · cases hr

theorem clear_frame {hp0 hp hp' : Heap} {h h' : Handle} {same : Bool}
    (f : Frame hp0 hp) (hd : Derivable hp0 h) (hr : hp.clear h = .ok hp' h' same) :
    Frame hp0 hp' ∧ Derivable hp0 h' := by
  unfold Heap.clear at hr
  have ha := f.allocTable []
  split at hr
  · cases hr; exact ⟨ha.1, trivial⟩
  · cases hr
    refine ⟨ha.1.setObj _ ?_, hd⟩
    exact f.tlen
  · cases hr

theorem mutable_frame {hp0 hp hp' : Heap} {h h' : Handle} {same : Bool}
    (f : Frame hp0 hp) (hd : Derivable hp0 h) (hr : hp.mutable h = .ok hp' h' same) :
    Frame hp0 hp' ∧ Derivable hp0 h' := by
  unfold Heap.mutable at hr
  split at hr
  · rename_i a t _
    cases hr
    have ha := f.allocTable t
    have ho := ha.1.allocObj (a := (hp.allocTable t).2) (by rw [ha.2.1]; exact f.tlen)
    exact ⟨ho.1, ho.2⟩
  · cases hr; exact ⟨f, hd⟩
  · cases hr

theorem immutable_frame {hp0 hp hp' : Heap} {h h' : Handle} {same : Bool}
    (f : Frame hp0 hp) (hd : Derivable hp0 h) (hr : hp.immutable h = .ok hp' h' same) :
    Frame hp0 hp' ∧ Derivable hp0 h' := by
  unfold Heap.immutable at hr
  split at hr
  · cases hr; exact ⟨f, hd⟩
  · cases hr; exact ⟨f, trivial⟩
  · cases hr

theorem apply_frame {hp0 hp hp' : Heap} {h h' : Handle} {same : Bool} {op : Op}
    (f : Frame hp0 hp) (hd : Derivable hp0 h) (hr : hp.apply h op = .ok hp' h' same) :
    Frame hp0 hp' ∧ Derivable hp0 h' := by
  cases op <;> simp only [Heap.apply] at hr
  · exact set_frame f hd hr
  · exact delete_frame f hd hr
  · exact clear_frame f hd hr
  · exact mutable_frame f hd hr
  · exact immutable_frame f hd hr

theorem runDerived_frame {hp0 : Heap} : ∀ (prog : List (Nat × Op)) (hp : Heap) (D : List Handle),
    Frame hp0 hp → (∀ h ∈ D, Derivable hp0 h) →
    Frame hp0 (runDerived hp D prog).1 ∧ ∀ h ∈ (runDerived hp D prog).2, Derivable hp0 h
  | [], hp, D, f, hD => ⟨f, hD⟩
  | (i, op) :: rest, hp, D, f, hD => by
    unfold runDerived
    split
    · exact runDerived_frame rest hp D f hD
    · rename_i h hi
      split
      · rename_i hp' h' same hr
        have := apply_frame f (hD h (List.mem_of_getElem? hi)) hr
        apply runDerived_frame rest hp' (D ++ [h']) this.1
        intro x hx
        rw [List.mem_append] at hx
        rcases hx with hx | hx
        · exact hD x hx
        · simp at hx; subst hx; exact this.2
      · exact runDerived_frame rest hp D f hD

/-- under the frame invariant an old immutable handle reads the same content -/
theorem Frame.content_imm {hp0 hp : Heap} (f : Frame hp0 hp) {t : Nat} {T : Table}
    (hc : hp0.content (.imm t) = some T) : hp.content (.imm t) = some T := by
  unfold Heap.content Heap.tableOf Heap.addrOf at hc ⊢
  by_cases ht : t < hp0.tables.length
  · have ht' : t < hp.tables.length := by have := f.tlen; omega
    simp only [ht, ht', ite_true, Option.bind_some] at hc ⊢
    rw [f.old t ht]
    cases hx : hp0.tables[t]? with
    | none => rw [hx] at hc; cases hc
    | some at' =>
      rw [hx] at hc
      simp only [Option.bind_some] at hc ⊢
      exact resolve_keeps f.bold hc
  · simp only [ht, ite_false] at hc
    cases hc


/-! ### heap invariant and the content-level reading of every operation -/

/-- every Go map in the heap resolves (no dangling bucket reference) to a content satisfying the table invariant -/
def HeapInv (hp : Heap) : Prop := ∀ t ∈ hp.tables, ∃ T, resolve hp.buckets t = some T ∧ TInv T

theorem content_inv {hp : Heap} {h : Handle} {T : Table} (hc : hp.content h = some T) :
    ∃ a t, hp.addrOf h = some a ∧ hp.tables[a]? = some t ∧ hp.tableOf h = some t ∧ resolve hp.buckets t = some T := by
  unfold Heap.content at hc
  cases ht : hp.tableOf h with
  | none => rw [ht] at hc; cases hc
  | some t =>
    rw [ht] at hc
    have ht0 := ht
    unfold Heap.tableOf at ht
    cases ha : hp.addrOf h with
    | none => rw [ha] at ht; cases ht
    | some a => rw [ha] at ht; exact ⟨a, t, rfl, ht, rfl, hc⟩

theorem HeapInv.tinv {hp : Heap} (hi : HeapInv hp) {h : Handle} {T : Table} (hc : hp.content h = some T) : TInv T := by
  obtain ⟨a, t, _, hta, _, hres⟩ := content_inv hc
  obtain ⟨T', hr', hT'⟩ := hi t (List.mem_of_getElem? hta)
  rw [hres] at hr'; cases hr'; exact hT'

theorem lt_of_getElem? {α} {l : List α} {a : Nat} {x : α} (h : l[a]? = some x) : a < l.length := by
  rcases Nat.lt_or_ge a l.length with h' | h'
  · exact h'
  · rw [List.getElem?_eq_none h'] at h; cases h

/-- writing a resolved, well-formed content at a valid address with an extended bucket heap keeps the invariant -/
theorem HeapInv.write {hp : Heap} (hi : HeapInv hp) (a : Nat) {r : List Bucket × ATable} {T' : Table}
    (hk : Keeps hp.buckets r.1) (hr : resolve r.1 r.2 = some T') (hT : TInv T') : HeapInv (hp.write a r) := by
  intro t ht
  simp only [Heap.write] at ht ⊢
  rcases List.mem_or_eq_of_mem_set ht with h | rfl
  · obtain ⟨T, h1, h2⟩ := hi t h
    exact ⟨T, resolve_keeps hk h1, h2⟩
  · exact ⟨T', hr, hT⟩

theorem HeapInv.alloc {hp : Heap} (hi : HeapInv hp) {t : ATable} {T : Table}
    (hr : resolve hp.buckets t = some T) (hT : TInv T) : HeapInv (hp.allocTable t).1 := by
  intro t' ht'
  simp only [Heap.allocTable, List.mem_append, List.mem_singleton] at ht' ⊢
  rcases ht' with h | rfl
  · exact hi _ h
  · exact ⟨T, hr, hT⟩

theorem content_copy_write (hp : Heap) (t : ATable) (r : List Bucket × ATable) :
    ((hp.copyTable t).1.write (hp.copyTable t).2 r).content (.imm (hp.copyTable t).2) = resolve r.1 r.2 := by
  simp [Heap.copyTable, Heap.allocTable, Heap.write, Heap.content, Heap.tableOf, Heap.addrOf]

theorem content_write_mut {hp : Heap} {o a : Nat} (ho : hp.objs[o]? = some a) (ha : a < hp.tables.length)
    (r : List Bucket × ATable) : (hp.write a r).content (.mut o) = resolve r.1 r.2 := by
  simp [Heap.write, Heap.content, Heap.tableOf, Heap.addrOf, ho, ha]

theorem tDelete_miss {T : Table} {k : Val} (h : tLook T k = .miss) : tDelete T k = some T := by
  unfold tLook at h
  unfold tDelete
  simp only
  cases hb : bucketOf T (hash k) with
  | none => rfl
  | some b =>
    rw [hb] at h
    simp only at h ⊢
    cases hs : search b k with
    | found i p => rw [hs] at h; cases h
    | absent lo => rfl
    | panic => rw [hs] at h; cases h

/-- Every operation on a handle with a content succeeds (no panic), keeps the heap invariant, and the returned map
contains exactly what the by-value reading `cstep` says. -/
theorem apply_ok {hp : Heap} (hi : HeapInv hp) {h : Handle} {T : Table} (hc : hp.content h = some T) (op : Op) :
    ∃ hp' h' same, hp.apply h op = .ok hp' h' same ∧ HeapInv hp' ∧
      hp'.content h' = cstep h.isMut T op ∧ h'.isMut = kindAfter h.isMut op := by
  have hT := hi.tinv hc
  obtain ⟨a, t, haddr, hta, htab, hres⟩ := content_inv hc
  have halt := lt_of_getElem? hta
  cases op with
  | set k v =>
    obtain ⟨T', k0, hset, hT', _⟩ := tSet_spec hT k v
    rcases h with x | o
    ·
      simp only [Heap.apply, Heap.set, Heap.setWith, htab, haddr, hres, cstep, Handle.isMut, kindAfter]
      have hcopy : resolve (hp.copyTable t).1.buckets t = some T := hres
      obtain ⟨r, hr1, hr2⟩ := aSet_sim hcopy hset
      have hk : Keeps (hp.copyTable t).1.buckets r.1 := aSet_appendOnly k v _ _ _ hr1
      have hfin : HeapInv ((hp.copyTable t).1.write (hp.copyTable t).2 r) :=
        (hi.alloc hres hT).write _ hk hr2 hT'
      rcases tLook_spec hT k with hl | ⟨k1, v1, hl, _⟩
      · rw [hl.1]; simp only [hr1]
        exact ⟨_, _, _, rfl, hfin, by rw [content_copy_write, hr2]; simp [hset], rfl⟩
      · rw [hl]; simp only
        by_cases he : equal v1 v = true
        · simp only [he, ite_true]
          exact ⟨_, _, _, rfl, hi, hc, rfl⟩
        · simp only [he]
          simp only [hr1]
          exact ⟨_, _, _, rfl, hfin, by rw [content_copy_write, hr2]; simp [hset], rfl⟩
    ·
      simp only [Heap.apply, Heap.set, Heap.setWith, htab, haddr, cstep, Handle.isMut, kindAfter, ite_true]
      obtain ⟨r, hr1, hr2⟩ := aSet_sim hres hset
      have hk : Keeps hp.buckets r.1 := aSet_appendOnly k v _ _ _ hr1
      simp only [hr1]
      exact ⟨_, _, _, rfl, hi.write a hk hr2 hT', by rw [content_write_mut haddr halt, hr2, hset], rfl⟩
  | delete k =>
    obtain ⟨T', hdel, hT', _⟩ := tDelete_spec hT k
    rcases h with x | o
    ·
      simp only [Heap.apply, Heap.delete, htab, haddr, hres, cstep, Handle.isMut, kindAfter]
      have hcopy : resolve (hp.copyTable t).1.buckets t = some T := hres
      obtain ⟨r, hr1, hr2⟩ := aDelete_sim hcopy hdel
      have hk : Keeps (hp.copyTable t).1.buckets r.1 := aDelete_appendOnly k _ _ _ hr1
      rcases tLook_spec hT k with hl | ⟨k1, v1, hl, _⟩
      · rw [hl.1]; simp only
        exact ⟨_, _, _, rfl, hi, by rw [hc, tDelete_miss hl.1], rfl⟩
      · rw [hl]; simp only [hr1]
        exact ⟨_, _, _, rfl, (hi.alloc hres hT).write _ hk hr2 hT', by rw [content_copy_write, hr2, hdel], rfl⟩
    ·
      simp only [Heap.apply, Heap.delete, htab, haddr, cstep, Handle.isMut, kindAfter]
      obtain ⟨r, hr1, hr2⟩ := aDelete_sim hres hdel
      have hk : Keeps hp.buckets r.1 := aDelete_appendOnly k _ _ _ hr1
      simp only [hr1]
      exact ⟨_, _, _, rfl, hi.write a hk hr2 hT', by rw [content_write_mut haddr halt, hr2, hdel], rfl⟩
  | clear =>
    have hnil : resolve hp.buckets [] = some [] := rfl
    rcases h with x | o
    ·
      simp only [Heap.apply, Heap.clear, haddr, cstep, Handle.isMut, kindAfter]
      refine ⟨_, _, _, rfl, hi.alloc hnil tinv_nil, ?_, rfl⟩
      simp [Heap.allocTable, Heap.content, Heap.tableOf, Heap.addrOf, resolve]
    ·
      simp only [Heap.apply, Heap.clear, haddr, cstep, Handle.isMut, kindAfter]
      refine ⟨_, _, _, rfl, ?_, ?_, rfl⟩
      · intro t' ht'; exact (hi.alloc hnil tinv_nil) t' ht'
      · have ho := lt_of_getElem? haddr
        simp [Heap.allocTable, Heap.content, Heap.tableOf, Heap.addrOf, resolve, ho]
  | mutable =>
    rcases h with x | o
    ·
      simp only [Heap.apply, Heap.mutable, htab, cstep, Handle.isMut, kindAfter]
      refine ⟨_, _, _, rfl, ?_, ?_, rfl⟩
      · intro t' ht'; exact (hi.alloc hres hT) t' ht'
      · simp [Heap.copyTable, Heap.allocTable, Heap.allocObj, Heap.content, Heap.tableOf, Heap.addrOf]
        exact hres
    ·
      simp only [Heap.apply, Heap.mutable, htab, cstep, Handle.isMut, kindAfter]
      exact ⟨_, _, _, rfl, hi, hc, rfl⟩
  | immutable =>
    rcases h with x | o
    ·
      simp only [Heap.apply, Heap.immutable, haddr, cstep, Handle.isMut, kindAfter]
      exact ⟨_, _, _, rfl, hi, hc, rfl⟩
    ·
      simp only [Heap.apply, Heap.immutable, haddr, cstep, Handle.isMut, kindAfter]
      refine ⟨_, _, _, rfl, hi, ?_, rfl⟩
      simp [Heap.content, Heap.tableOf, Heap.addrOf, halt]
      have hget : hp.tables[a] = t := by
        have := List.getElem?_eq_getElem halt
        rw [this] at hta; exact Option.some.inj hta
      rw [hget]; exact hres


open Uniflow.Dict in
section

theorem tableOf_none_of_content_none {hp : Heap} (hi : HeapInv hp) {h : Handle} (hc : hp.content h = none) :
    hp.tableOf h = none := by
  unfold Heap.content at hc
  cases ht : hp.tableOf h with
  | none => rfl
  | some t =>
    rw [ht] at hc
    simp only [Option.bind_some] at hc
    unfold Heap.tableOf at ht
    cases ha : hp.addrOf h with
    | none => rw [ha] at ht; cases ht
    | some a =>
      rw [ha] at ht
      obtain ⟨T, hr, _⟩ := hi t (List.mem_of_getElem? ht)
      rw [hr] at hc; cases hc

/-- any operation on any handle (dangling ones included) that returns keeps the heap invariant -/
theorem apply_inv {hp hp' : Heap} (hi : HeapInv hp) {h h' : Handle} {same : Bool} {op : Op}
    (hr : hp.apply h op = .ok hp' h' same) : HeapInv hp' := by
  cases hc : hp.content h with
  | some T =>
    obtain ⟨hp2, h2, s2, hr2, hi2, _⟩ := apply_ok hi hc op
    rw [hr] at hr2; cases hr2; exact hi2
  | none =>
    have htn := tableOf_none_of_content_none hi hc
    have hnil : resolve hp.buckets [] = some [] := rfl
    cases op with
    | set k v => rcases h with x | o <;> simp [Heap.apply, Heap.set, Heap.setWith, htn] at hr
    | delete k => rcases h with x | o <;> simp [Heap.apply, Heap.delete, htn] at hr
    | mutable => rcases h with x | o <;> simp [Heap.apply, Heap.mutable, htn] at hr
    | immutable =>
      rcases h with x | o <;> simp only [Heap.apply, Heap.immutable] at hr <;> split at hr <;>
        first | (cases hr; exact hi) | cases hr
    | clear =>
      rcases h with x | o <;> simp only [Heap.apply, Heap.clear] at hr <;> split at hr <;>
        first
        | (cases hr; exact hi.alloc hnil tinv_nil)
        | (cases hr; intro t' ht'; exact (hi.alloc hnil tinv_nil) t' ht')
        | cases hr

theorem runDerived_inv : ∀ (prog : List (Nat × Op)) (hp : Heap) (D : List Handle),
    HeapInv hp → HeapInv (runDerived hp D prog).1
  | [], _, _, hi => hi
  | (i, op) :: rest, hp, D, hi => by
    unfold runDerived
    split
    · exact runDerived_inv rest hp D hi
    · split
      · rename_i hr; exact runDerived_inv rest _ _ (apply_inv hi hr)
      · exact runDerived_inv rest hp D hi

/-! ### whole histories on one map against the reference dictionary -/

def toDOp : Op → DOp
  | .set k v => .set k v
  | .delete k => .delete k
  | .clear => .clear
  | .mutable => .mutable
  | .immutable => .immutable

theorem kindAfter_eq (m : Bool) (op : Op) : kindAfter m op = Dict.kindAfter m (toDOp op) := by
  cases op <;> rfl

/-- one step: the content after the operation represents the reference dictionary after the reference step -/
theorem rep_cstep {T : Table} {d : Dict} (h : Rep T d) (m : Bool) (op : Op) :
    ∃ T', cstep m T op = some T' ∧ Rep T' (Dict.step m d (toDOp op)) := by
  cases op with
  | set k v =>
    obtain ⟨T', hs, hr⟩ := rep_set h k v
    cases m with
    | true => exact ⟨T', by simp [cstep, hs], by simpa [Dict.step, toDOp] using hr⟩
    | false =>
      have hl := rep_look h k
      simp only [cstep, Dict.step, toDOp]
      cases hlk : tLook T k with
      | panic => exact absurd hlk hl.1
      | miss =>
        have : Dict.get d k = none := by rw [← hl.2, hlk]; rfl
        simp only [this]
        exact ⟨T', by simpa using hs, hr⟩
      | hit v0 =>
        have : Dict.get d k = some v0 := by rw [← hl.2, hlk]; rfl
        simp only [this]
        by_cases he : equal v0 v = true
        · simp only [he, ite_true]; exact ⟨T, by simp, h⟩
        · simp only [he]; exact ⟨T', by simpa using hs, hr⟩
  | delete k =>
    obtain ⟨T', hs, hr⟩ := rep_delete h k
    exact ⟨T', hs, hr⟩
  | clear => exact ⟨[], rfl, rep_nil⟩
  | mutable => exact ⟨T, rfl, h⟩
  | immutable => exact ⟨T, rfl, h⟩

/-- Whole histories from **any** handle of the heap model that has a content: the history runs to the end (no panic), the heap
invariant is kept, and the map returned last represents the reference dictionary obtained by running the same history
on `Uniflow.Dict`. -/
theorem chain_refines : ∀ (ops : List Op) {hp : Heap} {h : Handle} {T : Table} {d : Dict},
    HeapInv hp → hp.content h = some T → Rep T d →
    ∃ hp' h' T', runChain hp h ops = some (hp', h') ∧ HeapInv hp' ∧ hp'.content h' = some T' ∧
      h'.isMut = (Dict.run h.isMut d (ops.map toDOp)).1 ∧ Rep T' (Dict.run h.isMut d (ops.map toDOp)).2
  | [], hp, h, T, d, hi, hc, hr => ⟨hp, h, T, rfl, hi, hc, rfl, hr⟩
  | op :: rest, hp, h, T, d, hi, hc, hr => by
    obtain ⟨hp1, h1, s, hap, hi1, hc1, hk1⟩ := apply_ok hi hc op
    obtain ⟨T1, hcs, hr1⟩ := rep_cstep hr h.isMut op
    rw [hcs] at hc1
    obtain ⟨hp', h', T', hrun, hi', hc', hk', hr'⟩ := chain_refines rest hi1 hc1 hr1
    refine ⟨hp', h', T', ?_, hi', hc', ?_, ?_⟩
    · simp only [runChain, hap]; exact hrun
    · simp only [List.map_cons, Dict.run]; rw [← kindAfter_eq, ← hk1]; exact hk'
    · simp only [List.map_cons, Dict.run]; rw [← kindAfter_eq, ← hk1]; exact hr'


end

end Uniflow.MapHeap
