/-
Round-trip laws of the pure conversions of the JSON path (Model/CodecNum.lean). Core Lean only.
-/
import Uniflow.Model.CodecNum

namespace Uniflow.Codec

/-- an integer up to 2^53 survives `float64(n)` and `int64(f)` exactly -/
theorem f64_nat_rt (n : Nat) (hn : n ≤ 9007199254740992) :
    ∃ b, f64OfNat n = some b ∧ magOfF64 b = some n ∧ b < 9223372036854775808 ∧ finite64 b = true := by
  by_cases h0 : n = 0
  · subst h0; exact ⟨0, by simp [f64OfNat], by simp [magOfF64], by omega, by simp [finite64]⟩
  · have hl := Nat.log2_self_le h0
    have hu := @Nat.lt_log2_self n
    generalize he : n.log2 = e at hl hu
    have he53 : e ≤ 53 := by
      by_cases c : e ≤ 53
      · exact c
      · have : (2 : Nat) ^ 54 ≤ 2 ^ e := Nat.pow_le_pow_right (by omega) (by omega)
        have h54 : (2 : Nat) ^ 54 = 18014398509481984 := by simp
        omega
    by_cases hc : e ≤ 52
    · have hp : 2 ^ e * 2 ^ (52 - e) = 4503599627370496 := by
        rw [← Nat.pow_add]
        have : e + (52 - e) = 52 := by omega
        rw [this]
      have ppos : 0 < 2 ^ (52 - e) := Nat.pow_pos (by omega)
      have h1 : 4503599627370496 ≤ n * 2 ^ (52 - e) := by
        rw [← hp]; exact Nat.mul_le_mul_right _ hl
      have h2 : n * 2 ^ (52 - e) < 9007199254740992 := by
        have := Nat.mul_lt_mul_of_pos_right hu ppos
        have e2 : 2 ^ (e + 1) * 2 ^ (52 - e) = 2 * (2 ^ e * 2 ^ (52 - e)) := by
          rw [Nat.pow_succ, Nat.mul_comm (2 ^ e) 2, Nat.mul_assoc]
        rw [e2, hp] at this; omega
      have hdiv : n * 2 ^ (52 - e) / 2 ^ (52 - e) = n := Nat.mul_div_cancel n ppos
      generalize hx : n * 2 ^ (52 - e) = x at h1 h2 hdiv
      refine ⟨(e + 1023) * 4503599627370496 + (x - 4503599627370496), ?_, ?_, by omega, ?_⟩
      · simp [f64OfNat, h0, he, hc, hx]
      · have q : ((e + 1023) * 4503599627370496 + (x - 4503599627370496)) / 4503599627370496 % 2048 = e + 1023 := by omega
        have r : ((e + 1023) * 4503599627370496 + (x - 4503599627370496)) % 4503599627370496 = x - 4503599627370496 := by omega
        have m : 4503599627370496 + (x - 4503599627370496) = x := by omega
        simp only [magOfF64, q, r, m]
        have n1 : ¬ (e + 1023 = 2047) := by omega
        have n2 : ¬ (e + 1023 < 1023) := by omega
        have e3 : e + 1023 - 1023 = e := by omega
        simp only [n1, n2, if_false, e3]
        by_cases c52 : e ≥ 52
        · have : e = 52 := by omega
          subst this
          simp at hdiv ⊢; omega
        · simp only [c52, if_false, hdiv]
      · have q : ((e + 1023) * 4503599627370496 + (x - 4503599627370496)) / 4503599627370496 % 2048 = e + 1023 := by omega
        simp [finite64, q]; omega
    · have e53 : e = 53 := by omega
      subst e53
      have h53 : (2 : Nat) ^ 53 = 9007199254740992 := by simp
      have hn' : n = 9007199254740992 := by omega
      subst hn'
      refine ⟨4845873199050653696, ?_, ?_, by omega, ?_⟩
      · simp [f64OfNat, he]
      · simp [magOfF64]
      · simp [finite64]

theorem f64_int_rt (v : Int) (h1 : -9007199254740992 ≤ v) (h2 : v ≤ 9007199254740992) :
    ∃ b, f64OfInt v = some b ∧ intOfF64 b = some v ∧ finite64 b = true := by
  by_cases c : 0 ≤ v
  · obtain ⟨b, hb, hm, hs, hf⟩ := f64_nat_rt v.toNat (by omega)
    refine ⟨b, by simp [f64OfInt, c, hb], ?_, hf⟩
    have : b / 9223372036854775808 % 2 = 0 := by omega
    simp [intOfF64, hm, this]; omega
  · obtain ⟨b, hb, hm, hs, hf⟩ := f64_nat_rt (-v).toNat (by omega)
    refine ⟨b + 9223372036854775808, by simp [f64OfInt, c, hb], ?_, ?_⟩
    · have s : (b + 9223372036854775808) / 9223372036854775808 % 2 = 1 := by omega
      have q : magOfF64 (b + 9223372036854775808) = magOfF64 b := by
        have a1 : (b + 9223372036854775808) / 4503599627370496 % 2048 = b / 4503599627370496 % 2048 := by omega
        have a2 : (b + 9223372036854775808) % 4503599627370496 = b % 4503599627370496 := by omega
        simp only [magOfF64, a1, a2]
      simp [intOfF64, q, hm, s]; omega
    · have a1 : (b + 9223372036854775808) / 4503599627370496 % 2048 = b / 4503599627370496 % 2048 := by omega
      simpa [finite64, a1] using hf


/-! ## base64 -/

theorem b64_chr_val : ∀ n, n < 64 → b64val (b64chr n) = some n ∧ b64chr n ≠ 61 ∧ b64chr n < 128 := by decide

theorem b64_rt : ∀ bs : List Nat, (∀ b ∈ bs, b < 256) → b64dec (b64enc bs) = some bs
  | [], _ => rfl
  | [a], h => by
    have ha : a < 256 := h a (by simp)
    have c0 := b64_chr_val (a / 4) (by omega)
    have c1 := b64_chr_val (a % 4 * 16) (by omega)
    simp only [b64enc, b64dec, c0.1, c1.1]
    simp; omega
  | [a, b], h => by
    have ha : a < 256 := h a (by simp)
    have hb : b < 256 := h b (by simp)
    have c0 := b64_chr_val (a / 4) (by omega)
    have c1 := b64_chr_val (a % 4 * 16 + b / 16) (by omega)
    have c2 := b64_chr_val (b % 16 * 4) (by omega)
    simp only [b64enc, b64dec, c0.1, c1.1, c2.1]
    simp [c2.2.1]; omega
  | a :: b :: c :: rest, h => by
    have ha : a < 256 := h a (by simp)
    have hb : b < 256 := h b (by simp)
    have hc : c < 256 := h c (by simp)
    have c0 := b64_chr_val (a / 4) (by omega)
    have c1 := b64_chr_val (a % 4 * 16 + b / 16) (by omega)
    have c2 := b64_chr_val (b % 16 * 4 + c / 64) (by omega)
    have c3 := b64_chr_val (c % 64) (by omega)
    have ih := b64_rt rest (fun x hx => h x (by simp [hx]))
    simp only [b64enc, b64dec, c0.1, c1.1, c2.1, c3.1, ih]
    simp [c3.2.1]; omega

theorem validUTF8_ascii : ∀ bs : List Nat, (∀ b ∈ bs, b < 128) → validUTF8 bs = true
  | [], _ => rfl
  | b :: rest, h => by
    have hb : b < 128 := h b (by simp)
    unfold validUTF8
    simp only [hb, if_true]
    exact validUTF8_ascii rest (fun x hx => h x (by simp [hx]))

theorem b64enc_ascii : ∀ bs : List Nat, (∀ b ∈ bs, b < 256) → ∀ c ∈ b64enc bs, c < 128
  | [], _, c, hc => by simp [b64enc] at hc
  | [a], h, c, hc => by
    have ha : a < 256 := h a (by simp)
    have c0 := b64_chr_val (a / 4) (by omega)
    have c1 := b64_chr_val (a % 4 * 16) (by omega)
    simp only [b64enc, List.mem_cons, List.mem_nil_iff, or_false] at hc
    rcases hc with rfl | rfl | rfl | rfl <;> omega
  | [a, b], h, c, hc => by
    have ha : a < 256 := h a (by simp)
    have hb : b < 256 := h b (by simp)
    have c0 := b64_chr_val (a / 4) (by omega)
    have c1 := b64_chr_val (a % 4 * 16 + b / 16) (by omega)
    have c2 := b64_chr_val (b % 16 * 4) (by omega)
    simp only [b64enc, List.mem_cons, List.mem_nil_iff, or_false] at hc
    rcases hc with rfl | rfl | rfl | rfl <;> omega
  | a :: b :: c' :: rest, h, c, hc => by
    have ha : a < 256 := h a (by simp)
    have hb : b < 256 := h b (by simp)
    have hc' : c' < 256 := h c' (by simp)
    have c0 := b64_chr_val (a / 4) (by omega)
    have c1 := b64_chr_val (a % 4 * 16 + b / 16) (by omega)
    have c2 := b64_chr_val (b % 16 * 4 + c' / 64) (by omega)
    have c3 := b64_chr_val (c' % 64) (by omega)
    simp only [b64enc, List.mem_cons] at hc
    rcases hc with rfl | rfl | rfl | rfl | hr
    · omega
    · omega
    · omega
    · omega
    · exact b64enc_ascii rest (fun x hx => h x (by simp [hx])) c hr

end Uniflow.Codec
