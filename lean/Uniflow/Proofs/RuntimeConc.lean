/-
Helper lemmas for C09, concurrent part: the invariant of `Uniflow.Runtime.cstep` (store
mutations landing between a `Load`'s store reads and its table writes; loads serialised).
-/
import Uniflow.Proofs.Runtime

namespace Uniflow.Runtime
open Keyed

/-- `Cov` at one id. -/
def CovAt (st : St) (j : Nat) : Prop :=
  ∃ vals0, Agree st.valEv st.ns vals0 st.vals ∧ lookup st.table j = targetAt st.specs vals0 st.ns j

/-- What a store mutation does, as far as the invariants are concerned. -/
structure MutFacts (st st' : St) : Prop where
  table : st'.table = st.table
  ns : st'.ns = st.ns
  watching : st'.watching = st.watching
  specEv : ∀ j, j ∉ st'.specEv → j ∉ st.specEv
  valEv : ∀ k, k ∉ st'.valEv → k ∉ st.valEv
  specs : ∀ j, j ∉ st'.specEv → ∀ vs, targetAt st'.specs vs st.ns j = targetAt st.specs vs st.ns j
  vals : ∀ k, k ∉ st'.valEv → rel st.ns (lookup st'.vals k) = rel st.ns (lookup st.vals k)

theorem mutFacts_refl (st : St) : MutFacts st st :=
  ⟨rfl, rfl, rfl, fun _ h => h, fun _ h => h, fun _ _ _ => rfl, fun _ _ => rfl⟩

theorem targetAt_congr_at {specs specs' : List Spec} {vs : List Value} {ns j : Nat}
    (h : lookup specs' j = lookup specs j) : targetAt specs' vs ns j = targetAt specs vs ns j := by
  unfold targetAt; rw [h]

theorem mut_facts (st : St) (o : Op) (hw : st.watching = true) (hm : isMut o = true) :
    MutFacts st (step st o).1 := by
  cases o with
  | watch => cases hm
  | load f => cases hm
  | consumeSpec => cases hm
  | consumeVal => cases hm
  | insSpec s =>
    simp only [step]
    cases hl : lookup st.specs s.id with
    | some _ => exact mutFacts_refl st
    | none =>
      refine ⟨rfl, rfl, rfl, fun j hj => (mem_emit hw j hj).1, fun _ h => h, ?_, fun _ _ => rfl⟩
      intro j hj vs
      by_cases hji : j = s.id
      · subst hji
        have hne := (mem_emit hw s.id hj).2 rfl
        show targetAt (put st.specs s) vs st.ns s.id = _
        rw [targetAt_other_ns (by intro s' hs'; rw [lookup_put] at hs'; simp [show key s = s.id from rfl] at hs'; subst hs'; exact hne),
          targetAt_other_ns (by intro s' hs'; rw [hl] at hs'; cases hs')]
      · apply targetAt_congr_at
        show lookup (put st.specs s) j = _
        rw [lookup_put]; simp [show ¬ key s = j from fun e => hji e.symm]
  | updSpec s =>
    simp only [step]
    cases hl : lookup st.specs s.id with
    | none => exact mutFacts_refl st
    | some old =>
      simp only []
      by_cases hon : old.ns = s.ns
      · rw [if_pos hon]
        refine ⟨rfl, rfl, rfl, fun j hj => (mem_emit hw j hj).1, fun _ h => h, ?_, fun _ _ => rfl⟩
        intro j hj vs
        by_cases hji : j = s.id
        · subst hji
          have hne := (mem_emit hw s.id hj).2 rfl
          show targetAt (put st.specs s) vs st.ns s.id = _
          rw [targetAt_other_ns (by intro s' hs'; rw [lookup_put] at hs'; simp [show key s = s.id from rfl] at hs'; subst hs'; exact hne),
            targetAt_other_ns (by intro s' hs'; rw [hl] at hs'; injection hs' with hs'; subst hs'; rw [hon]; exact hne)]
        · apply targetAt_congr_at
          show lookup (put st.specs s) j = _
          rw [lookup_put]; simp [show ¬ key s = j from fun e => hji e.symm]
      · rw [if_neg hon]; exact mutFacts_refl st
  | delSpec i =>
    simp only [step]
    cases hl : lookup st.specs i with
    | none => exact mutFacts_refl st
    | some old =>
      refine ⟨rfl, rfl, rfl, fun j hj => (mem_emit hw j hj).1, fun _ h => h, ?_, fun _ _ => rfl⟩
      intro j hj vs
      by_cases hji : j = i
      · subst hji
        have hne := (mem_emit hw j hj).2 rfl
        show targetAt (erase st.specs j) vs st.ns j = _
        rw [targetAt_other_ns (by intro s' hs'; rw [lookup_erase] at hs'; simp at hs'),
          targetAt_other_ns (by intro s' hs'; rw [hl] at hs'; injection hs' with hs'; subst hs'; exact hne)]
      · apply targetAt_congr_at
        show lookup (erase st.specs i) j = _
        rw [lookup_erase]; simp [hji]
  | insVal v =>
    simp only [step]
    cases hl : lookup st.vals v.id with
    | some _ => exact mutFacts_refl st
    | none =>
      refine ⟨rfl, rfl, rfl, fun _ h => h, fun k hk => (mem_emit hw k hk).1, fun _ _ _ => rfl, ?_⟩
      intro k hk
      show rel st.ns (lookup (put st.vals v) k) = _
      by_cases hkv : k = v.id
      · subst hkv
        have hne := (mem_emit hw v.id hk).2 rfl
        rw [lookup_put, hl]
        simp [rel, show key v = v.id from rfl, hne]
      · rw [lookup_put]; simp [show ¬ key v = k from fun e => hkv e.symm]
  | updVal v =>
    simp only [step]
    cases hl : lookup st.vals v.id with
    | none => exact mutFacts_refl st
    | some old =>
      simp only []
      by_cases hon : old.ns = v.ns
      · rw [if_pos hon]
        refine ⟨rfl, rfl, rfl, fun _ h => h, fun k hk => (mem_emit hw k hk).1, fun _ _ _ => rfl, ?_⟩
        intro k hk
        show rel st.ns (lookup (put st.vals v) k) = _
        by_cases hkv : k = v.id
        · subst hkv
          have hne := (mem_emit hw v.id hk).2 rfl
          rw [lookup_put, hl]
          simp [rel, show key v = v.id from rfl, hne, hon]
        · rw [lookup_put]; simp [show ¬ key v = k from fun e => hkv e.symm]
      · rw [if_neg hon]; exact mutFacts_refl st
  | delVal i =>
    simp only [step]
    cases hl : lookup st.vals i with
    | none => exact mutFacts_refl st
    | some old =>
      refine ⟨rfl, rfl, rfl, fun _ h => h, fun k hk => (mem_emit hw k hk).1, fun _ _ _ => rfl, ?_⟩
      intro k hk
      show rel st.ns (lookup (erase st.vals i) k) = _
      by_cases hki : k = i
      · subst hki
        have hne := (mem_emit hw k hk).2 rfl
        rw [lookup_erase, hl]
        simp [rel, hne]
      · rw [lookup_erase]; simp [hki]

theorem covAt_mut {st st' : St} (m : MutFacts st st') {j : Nat} (hj : j ∉ st'.specEv) (h : CovAt st j) :
    CovAt st' j := by
  obtain ⟨vals0, ha, ht⟩ := h
  refine ⟨vals0, ?_, ?_⟩
  · intro k hk
    rw [m.ns, ha k (m.valEv k hk)]
    exact (m.vals k hk).symm
  · rw [m.table, m.ns, ht]
    exact (m.specs j hj vals0).symm

/-- The snapshot of the load in flight differs from the stores only where an event is pending. -/
def FlightOK (st : St) (fl : Flight) : Prop :=
  (∀ j, j ∉ st.specEv → ∀ vs, targetAt fl.specs vs st.ns j = targetAt st.specs vs st.ns j) ∧
  Agree st.valEv st.ns fl.vals st.vals

theorem flightOK_mut {st st' : St} (m : MutFacts st st') {fl : Flight} (h : FlightOK st fl) : FlightOK st' fl := by
  obtain ⟨h1, h2⟩ := h
  constructor
  · intro j hj vs
    rw [m.ns, h1 j (m.specEv j hj) vs]
    exact (m.specs j hj vs).symm
  · intro k hk
    rw [m.ns, h2 k (m.valEv k hk)]
    exact (m.vals k hk).symm

theorem flightOK_now (st : St) (f : Filter) : FlightOK st ⟨f, st.specs, st.vals⟩ :=
  ⟨fun _ _ _ => rfl, fun _ _ => rfl⟩

/-- An id the value consumer does not select for `w` stays covered once the event is taken. -/
theorem covAt_unselected (st : St) (w : Nat) (rest : List Nat) (he : st.valEv = w :: rest) (j : Nat)
    (h : CovAt st j) (hsel : j ∉ selected { st with valEv := rest } w) : CovAt { st with valEv := rest } j := by
  obtain ⟨vals0, ha, ht⟩ := h
  rw [he] at ha
  by_cases hwr : w ∈ rest
  · refine ⟨vals0, ?_, ht⟩
    intro k hk
    exact ha k (by simp only [List.mem_cons, not_or]; exact ⟨fun e => hk (e ▸ hwr), hk⟩)
  · refine ⟨patch vals0 st.vals w, ?_, ?_⟩
    · intro k hk
      show rel st.ns (lookup (patch vals0 st.vals w) k) = rel st.ns (lookup st.vals k)
      rw [patched_patch vals0 st.vals w k]
      by_cases hkw : k = w
      · simp [hkw]
      · rw [if_neg hkw]
        exact ha k (by simp only [List.mem_cons, not_or]; exact ⟨hkw, hk⟩)
    · show lookup st.table j = targetAt st.specs (patch vals0 st.vals w) st.ns j
      rw [ht]
      unfold targetAt
      cases hs : lookup st.specs j with
      | none => rfl
      | some s =>
        simp only []
        by_cases hn : s.ns = st.ns
        · simp only [hn, if_true]
          have hl : lookup st.table j = some (compile (enum vals0) s) := by
            rw [ht]; simp [targetAt, hs, hn]
          have hb := selected_false (st := { st with valEv := rest }) hl hsel
          rw [probes_eq] at hb
          rw [compile_patched s (patched_patch vals0 st.vals w) hb]
        · simp [hn]

theorem tabNs_of {st st' : St} (m : MutFacts st st') (h : TabNs st) : TabNs st' := by
  intro i sb hl
  rw [m.table] at hl
  rw [m.ns]
  exact h i sb hl

/-- The invariant of the concurrent model. -/
def CGood (c : CSt) : Prop :=
  c.st.watching = true ∧ TabNs c.st ∧
  (∀ j, j ∉ c.st.specEv → (∃ fl, c.fl = some fl ∧ fl.f.matches j = true) ∨ CovAt c.st j) ∧
  (∀ fl, c.fl = some fl → FlightOK c.st fl)

theorem cgood_step (c : CSt) (o : COp) (hg : CGood c) : CGood (cstep c o) := by
  obtain ⟨hw, hns, hc, hf⟩ := hg
  cases o with
  | store o =>
    simp only [cstep]
    by_cases hm : isMut o = true
    · rw [if_pos hm]
      have m := mut_facts c.st o hw hm
      refine ⟨by rw [m.watching]; exact hw, tabNs_of m hns, ?_, fun fl hfl => flightOK_mut m (hf fl hfl)⟩
      intro j hj
      rcases hc j (m.specEv j hj) with h | h
      · exact Or.inl h
      · exact Or.inr (covAt_mut m hj h)
    · rw [if_neg hm]; exact ⟨hw, hns, hc, hf⟩
  | beginLoad f =>
    simp only [cstep]
    cases hfl : c.fl with
    | some fl => simp only []; exact ⟨hw, hns, hc, hf⟩
    | none =>
      simp only []
      refine ⟨hw, hns, ?_, ?_⟩
      · intro j hj
        rcases hc j hj with ⟨fl, h, _⟩ | h
        · rw [hfl] at h; cases h
        · exact Or.inr h
      · intro fl h
        injection h with h
        subst h
        exact flightOK_now c.st f
  | beginSpec =>
    simp only [cstep]
    cases hfl : c.fl with
    | some fl => simp only []; exact ⟨hw, hns, hc, hf⟩
    | none =>
      cases he : c.st.specEv with
      | nil => simp only []; exact ⟨hw, hns, hc, hf⟩
      | cons i rest =>
        simp only []
        refine ⟨hw, hns, ?_, ?_⟩
        · intro j hj
          by_cases hji : j = i
          · exact Or.inl ⟨_, rfl, by simp [Filter.matches, hji]⟩
          · rcases hc j (by rw [he]; simp [hji]; exact hj) with ⟨fl, h, _⟩ | h
            · rw [hfl] at h; cases h
            · exact Or.inr h
        · intro fl h
          injection h with h
          subst h
          exact ⟨fun _ _ _ => rfl, fun _ _ => rfl⟩
  | beginVal =>
    simp only [cstep]
    cases hfl : c.fl with
    | some fl => simp only []; exact ⟨hw, hns, hc, hf⟩
    | none =>
      cases he : c.st.valEv with
      | nil => simp only []; exact ⟨hw, hns, hc, hf⟩
      | cons w rest =>
        simp only []
        have plain : ∀ j, j ∉ c.st.specEv → CovAt c.st j := by
          intro j hj
          rcases hc j hj with ⟨fl, h, _⟩ | h
          · rw [hfl] at h; cases h
          · exact h
        split
        · rename_i hempty
          refine ⟨hw, hns, ?_, ?_⟩
          · intro j hj
            refine Or.inr (covAt_unselected c.st w rest he j (plain j hj) ?_)
            have : selected { c.st with valEv := rest } w = [] := by simpa using hempty
            rw [this]; exact List.not_mem_nil
          · intro fl h; cases h
        · refine ⟨hw, hns, ?_, ?_⟩
          · intro j hj
            by_cases hin : j ∈ selected { c.st with valEv := rest } w
            · exact Or.inl ⟨_, rfl, by simp [Filter.matches, hin]⟩
            · exact Or.inr (covAt_unselected c.st w rest he j (plain j hj) hin)
          · intro fl h
            injection h with h
            subst h
            exact ⟨fun _ _ _ => rfl, fun _ _ => rfl⟩
  | commit =>
    simp only [cstep]
    cases hfl : c.fl with
    | none => simp only []; exact ⟨hw, hns, hc, hf⟩
    | some fl =>
      simp only []
      obtain ⟨hf1, hf2⟩ := hf fl hfl
      have hnsF : TabNs { c.st with specs := fl.specs, vals := fl.vals } := hns
      have htab := load_table { c.st with specs := fl.specs, vals := fl.vals } fl.f hnsF
      have hnsL := load_tabNs { c.st with specs := fl.specs, vals := fl.vals } fl.f hnsF
      have e1 := (load_fields { c.st with specs := fl.specs, vals := fl.vals } fl.f).1
      refine ⟨hw, ?_, ?_, ?_⟩
      · intro i sb h
        have := hnsL i sb h
        rw [e1] at this
        exact this
      · intro j hj
        right
        by_cases hm : fl.f.matches j = true
        · refine ⟨fl.vals, hf2, ?_⟩
          show lookup (load { c.st with specs := fl.specs, vals := fl.vals } fl.f).table j = _
          rw [htab j, if_pos hm]
          exact hf1 j hj fl.vals
        · rcases hc j hj with ⟨fl', h, hm'⟩ | h
          · rw [hfl] at h; injection h with h; subst h; exact absurd hm' hm
          · obtain ⟨vals0, ha, ht⟩ := h
            refine ⟨vals0, ha, ?_⟩
            show lookup (load { c.st with specs := fl.specs, vals := fl.vals } fl.f).table j = _
            rw [htab j, if_neg hm]
            exact ht
      · intro fl' h; cases h

theorem cgood_run (c : CSt) (os : List COp) (hg : CGood c) : CGood (crun c os) := by
  induction os generalizing c with
  | nil => exact hg
  | cons o os ih => exact ih _ (cgood_step c o hg)

/-! ### the lossy model without drops is the concurrent model -/

theorem lstep_reliable (l : LSt) (o : LOp) (h : o.drop = false) : (lstep l o).c = cstep l.c o.op := by
  unfold lstep
  cases ho : o.op with
  | store m =>
    simp only [h, Bool.false_and, Bool.false_eq_true, if_false]
    split <;> (try split) <;> rfl
  | beginSpec => simp only []; split <;> rfl
  | beginVal => simp only []; split <;> rfl
  | commit => rfl
  | beginLoad f => rfl

theorem lrun_reliable (l : LSt) (os : List LOp) (h : ∀ o ∈ os, o.drop = false) :
    (lrun l os).c = crun l.c (os.map (·.op)) := by
  induction os generalizing l with
  | nil => rfl
  | cons o os ih =>
    simp only [lrun, List.map_cons, crun]
    rw [ih _ (fun o' ho' => h o' (List.mem_cons_of_mem _ ho')), lstep_reliable l o (h o (List.mem_cons_self ..))]

end Uniflow.Runtime
