/-
C02, joint model, general links, part 15: class T2 is inhabited by a workflow with fan-out and fan-in.
-/
import Uniflow.Proofs.FlowG14

namespace Uniflow.FlowG
open Uniflow.Tracer Uniflow.Node Uniflow.Flow Uniflow.FlowInv

/-- source → node 0; node 0's out port feeds nodes 1 AND 2 (fan-out); both feed node 3's in-port (fan-in);
node 3 → sink 0 -/
def diamond1Links : List (Nat × List Tgt) :=
  [(srcKey, [.node 0 0]), (wkey 0 1, [.node 1 0, .node 2 0]), (wkey 1 1, [.node 3 0]), (wkey 2 1, [.node 3 0]),
   (wkey 3 1, [.sink 0])]

theorem diamond1_getL (key : Nat) : getL diamond1Links key =
    if key = srcKey then [.node 0 0] else if key = wkey 0 1 then [.node 1 0, .node 2 0]
    else if key = wkey 1 1 then [.node 3 0] else if key = wkey 2 1 then [.node 3 0]
    else if key = wkey 3 1 then [.sink 0] else [] := by
  simp only [diamond1Links, getL, aget, srcKey, srcNode, wkey]
  by_cases e1 : key = 1000 * 64 + 1
  · subst e1; simp
  · by_cases e2 : key = 0 * 64 + 1
    · subst e2; simp
    · by_cases e3 : key = 1 * 64 + 1
      · subst e3; simp
      · by_cases e4 : key = 2 * 64 + 1
        · subst e4; simp
        · by_cases e5 : key = 3 * 64 + 1
          · subst e5; simp
          · simp [e1, e2, e3, e4, e5]

theorem diamond1_wf : GraphWF 4 diamond1Links := by
  refine ⟨by decide, ?_, ?_, ?_, ?_, ?_⟩
  · intro key; rw [diamond1_getL]
    repeat' split
    all_goals simp [rkeyOf]
  · intro key m port hm
    rw [diamond1_getL] at hm
    repeat' split at hm
    all_goals simp at hm
    all_goals omega
  · rw [diamond1_getL]; simp
  · intro key hk
    rw [diamond1_getL] at hk
    by_cases h0 : key = srcKey
    · left; exact h0
    · right
      rw [if_neg h0] at hk
      by_cases h1 : key = wkey 0 1
      · exact ⟨0, 1, by decide, by decide, h1⟩
      · rw [if_neg h1] at hk
        by_cases h2 : key = wkey 1 1
        · exact ⟨1, 1, by decide, by decide, h2⟩
        · rw [if_neg h2] at hk
          by_cases h3 : key = wkey 2 1
          · exact ⟨2, 1, by decide, by decide, h3⟩
          · rw [if_neg h3] at hk
            by_cases h4 : key = wkey 3 1
            · exact ⟨3, 1, by decide, by decide, h4⟩
            · rw [if_neg h4] at hk; exact absurd rfl hk
  · intro n w m port hn hw hm
    rw [diamond1_getL] at hm
    have h0 : ¬ (wkey n w = srcKey) := by simp only [wkey, srcKey, srcNode]; omega
    rw [if_neg h0] at hm
    by_cases h1 : wkey n w = wkey 0 1
    · rw [if_pos h1] at hm; simp only [wkey] at h1; simp at hm; omega
    · rw [if_neg h1] at hm
      by_cases h2 : wkey n w = wkey 1 1
      · rw [if_pos h2] at hm; simp only [wkey] at h2; simp at hm; omega
      · rw [if_neg h2] at hm
        by_cases h3 : wkey n w = wkey 2 1
        · rw [if_pos h3] at hm; simp only [wkey] at h3; simp at hm; omega
        · rw [if_neg h3] at hm
          by_cases h4 : wkey n w = wkey 3 1
          · rw [if_pos h4] at hm; simp at hm
          · rw [if_neg h4] at hm; simp at hm

end Uniflow.FlowG
