/-
The simulation behind `C01.refines`: the index-addressed model (`Uniflow.Writer`, with link
generations) and the id-keyed specification (`Uniflow.WriterSpec`) are related by `Rel`, and one
step of the model from a related state is one step of the specification – for every step.

The model's queues hold link generations, the specification's hold write ids; `FifoOK` relates
them entry by entry: an entry whose generation is the reader's current link generation belongs to
the oldest row that still owes the reader an answer, any other entry (a request of a link that
`Unlink` removed) belongs to a write whose row owes the reader nothing.
-/
import Uniflow.Proofs.Writer

namespace Uniflow.WriterProofs
open Uniflow.Writer Uniflow.WriterSpec

/-! ### Link generations -/

/-- `linkOf` by recursion on the two parallel lists. -/
def linkAt (r : RId) : List RId → List Nat → Option Nat
  | x :: xs, g :: gs => if x = r then some g else linkAt r xs gs
  | _, _ => none

theorem linkOf_eq (m : W) (r : RId) : linkOf m r = linkAt r m.readers m.links := by
  simp only [linkOf]
  generalize m.readers = xs
  generalize m.links = gs
  induction xs generalizing gs with
  | nil => simp [indexOf, linkAt]
  | cons x xs ih =>
    cases gs with
    | nil =>
      simp only [indexOf, linkAt]
      split
      · simp
      · cases indexOf r xs <;> simp
    | cons g gs =>
      simp only [indexOf, linkAt]
      by_cases hx : x = r
      · simp [hx]
      · simp only [hx, if_false]
        rw [← ih gs]
        cases indexOf r xs <;> simp

theorem linkAt_not_mem {r : RId} {xs : List RId} (gs : List Nat) (h : r ∉ xs) : linkAt r xs gs = none := by
  induction xs generalizing gs with
  | nil => simp [linkAt]
  | cons x xs ih =>
    cases gs with
    | nil => simp [linkAt]
    | cons g gs =>
      simp only [List.mem_cons, not_or] at h
      have hx : ¬ x = r := fun e => h.1 e.symm
      simp only [linkAt, hx, if_false]
      exact ih gs h.2

theorem linkAt_mem {r : RId} {xs : List RId} {gs : List Nat} {g : Nat} (h : linkAt r xs gs = some g) : g ∈ gs := by
  induction xs generalizing gs with
  | nil => simp [linkAt] at h
  | cons x xs ih =>
    cases gs with
    | nil => simp [linkAt] at h
    | cons g' gs =>
      simp only [linkAt] at h
      split at h
      · injection h with h; simp [h]
      · simp [ih h]

theorem linkAt_some_of_mem {r : RId} {xs : List RId} {gs : List Nat} (h : r ∈ xs) (hl : gs.length = xs.length) :
    ∃ g, linkAt r xs gs = some g := by
  induction xs generalizing gs with
  | nil => cases h
  | cons x xs ih =>
    cases gs with
    | nil => simp at hl
    | cons g' gs =>
      simp only [linkAt]
      by_cases hx : x = r
      · exact ⟨g', by simp [hx]⟩
      · simp only [hx, if_false]
        simp only [List.mem_cons] at h
        rcases h with h | h
        · exact absurd h.symm hx
        · exact ih h (by simpa using hl)

theorem linkAt_append {r y : RId} {xs : List RId} {gs : List Nat} (g : Nat) (hl : gs.length = xs.length) :
    linkAt r (xs ++ [y]) (gs ++ [g]) =
      match linkAt r xs gs with
      | some l => some l
      | none => if y = r then some g else none := by
  induction xs generalizing gs with
  | nil =>
    cases gs with
    | nil => simp [linkAt]
    | cons _ _ => simp at hl
  | cons x xs ih =>
    cases gs with
    | nil => simp at hl
    | cons g' gs =>
      simp only [List.cons_append, linkAt]
      by_cases hx : x = r
      · simp [hx]
      · simp only [hx, if_false]
        exact ih (by simpa using hl)

theorem linkAt_eraseIdx {r r' : RId} {xs : List RId} (gs : List Nat) {i : Nat} (hi : indexOf r xs = some i)
    (hne : r' ≠ r) : linkAt r' (xs.eraseIdx i) (gs.eraseIdx i) = linkAt r' xs gs := by
  induction xs generalizing gs i with
  | nil => simp [indexOf] at hi
  | cons x xs ih =>
    simp only [indexOf] at hi
    split at hi
    · rename_i hx
      injection hi with hi; subst hi
      cases gs with
      | nil => simp [linkAt]
      | cons g gs =>
        simp only [List.eraseIdx_zero, List.tail_cons, linkAt]
        rw [if_neg (fun e => hne (e.symm.trans hx))]
    · rename_i hx
      simp only [Option.map_eq_some_iff] at hi
      obtain ⟨j, hj, rfl⟩ := hi
      cases gs with
      | nil => simp [linkAt]
      | cons g gs =>
        simp only [List.eraseIdx_cons_succ, linkAt]
        rw [ih gs hj]

/-! ### The queues -/

/-- Queue of generations `gs` (model) against queue of write ids `ws` (specification) for a
reader whose current link generation is `cur`; `ob` = ids of the rows that owe the reader an
answer, oldest first. -/
def FifoOK (cur : Option Nat) : List Nat → List Nat → List Nat → Prop
  | [], [], ob => ob = []
  | g :: gs, w :: ws, ob =>
    if some g = cur then ∃ ob', ob = w :: ob' ∧ FifoOK cur gs ws ob'
    else w ∉ ob ∧ FifoOK cur gs ws ob
  | _, _, _ => False

theorem fifoOK_len {cur : Option Nat} {gs ws ob : List Nat} (h : FifoOK cur gs ws ob) : gs.length = ws.length := by
  induction gs generalizing ws ob with
  | nil => cases ws <;> simp_all [FifoOK]
  | cons g gs ih =>
    cases ws with
    | nil => simp [FifoOK] at h
    | cons w ws =>
      simp only [FifoOK] at h
      split at h
      · obtain ⟨ob', _, h'⟩ := h; simp [ih h']
      · simp [ih h.2]

theorem fifoOK_stale {cur : Option Nat} {gs ws : List Nat} (hl : gs.length = ws.length)
    (hs : ∀ g ∈ gs, some g ≠ cur) : FifoOK cur gs ws [] := by
  induction gs generalizing ws with
  | nil => cases ws <;> simp_all [FifoOK]
  | cons g gs ih =>
    cases ws with
    | nil => simp at hl
    | cons w ws =>
      simp only [FifoOK]
      rw [if_neg (hs g (by simp))]
      exact ⟨by simp, ih (by simpa using hl) (fun g' hg' => hs g' (by simp [hg']))⟩

theorem fifoOK_push {cur : Option Nat} {gs ws ob : List Nat} {g w : Nat} (h : FifoOK cur gs ws ob)
    (hg : some g = cur) (hw : ∀ w' ∈ ws, w' ≠ w) : FifoOK cur (gs ++ [g]) (ws ++ [w]) (ob ++ [w]) := by
  induction gs generalizing ws ob with
  | nil =>
    cases ws with
    | nil =>
      simp only [FifoOK] at h; subst h
      simp only [List.nil_append, FifoOK, hg, if_true]
      exact ⟨[], rfl, rfl⟩
    | cons _ _ => simp [FifoOK] at h
  | cons g0 gs ih =>
    cases ws with
    | nil => simp [FifoOK] at h
    | cons w0 ws =>
      simp only [FifoOK] at h
      simp only [List.cons_append, FifoOK]
      have hw' : ∀ w' ∈ ws, w' ≠ w := fun w' hw'' => hw w' (by simp [hw''])
      split at h
      · rename_i hc
        obtain ⟨ob', e, h'⟩ := h
        rw [if_pos hc]
        exact ⟨ob' ++ [w], by simp [e], ih h' hw'⟩
      · rename_i hc
        rw [if_neg hc]
        refine ⟨?_, ih h.2 hw'⟩
        simp only [List.mem_append, List.mem_singleton, not_or]
        exact ⟨h.1, hw w0 (by simp)⟩

/-! ### The relation -/

/-- The reader's queue as the writer sees it: its requests while it is open, the drop notices in
flight once it is closed. -/
def fifo (m : W) (r : RId) : List Nat := if m.closed r then m.drops r else m.pend r

structure Inv (s : S) : Prop where
  nodup : s.linked.Nodup
  rows : RowsOK s.linked s.nextW s.rows
  head : ∀ row rest, s.rows = row :: rest → hasNil row.cells = true
  fin : s.done = true → s.linked = []
  owedLt : ∀ r, ∀ w ∈ s.owed r, w < s.nextW

structure Rel (m : W) (s : S) : Prop where
  readers : m.readers = s.linked
  rows : m.rows = s.rows.map SRow.cells
  done : m.done = s.done
  closed : m.closed = s.closed
  linksLen : m.links.length = m.readers.length
  linksLe : ∀ g ∈ m.links, g ≤ m.linked
  fifoLe : ∀ r, ∀ g ∈ fifo m r, g ≤ m.linked
  pendClosed : ∀ r, m.closed r = true → m.pend r = []
  dropsOpen : ∀ r, m.closed r = false → m.drops r = []
  fifo : ∀ r, FifoOK (linkOf m r) (fifo m r) (s.owed r) (owedBy s.rows r)
  inv : Inv s

theorem rel_init : Rel W.init S.init := by
  refine ⟨rfl, rfl, rfl, rfl, rfl, by simp [W.init], by simp [W.init, fifo], fun _ _ => rfl, fun _ _ => rfl, ?_, ?_⟩
  · intro r; simp [W.init, S.init, fifo, FifoOK, owedBy]
  · exact ⟨by simp [S.init], ⟨by simp [S.init], by simp [S.init], by simp [S.init], by simp [S.init]⟩,
      by simp [S.init], by simp [S.init], by simp [S.init]⟩

/-! ### Helper lemmas on rows -/

theorem cfirst_isSome {srows : List SRow} {r : RId} {w : Nat} {rest : List Nat} (a : Fill)
    (ho : owedBy srows r = w :: rest) : ∃ rows', cfirst r a srows = some rows' := by
  induction srows with
  | nil => simp [owedBy] at ho
  | cons row tl ih =>
    rw [owedBy_cons] at ho
    simp only [cfirst]
    split at ho
    · rename_i hr; simp [hr]
    · rename_i hr
      obtain ⟨t', ht⟩ := ih ho
      simp [hr, ht]

theorem readers_nonempty {rows : List SRow} (hc : (rows.map SRow.readers).Pairwise (· <+: ·))
    (hh : ∀ row rest, rows = row :: rest → hasNil row.cells = true) : ∀ p ∈ rows.map SRow.readers, p ≠ [] := by
  intro p hp
  obtain ⟨row, hrow, rfl⟩ := List.mem_map.1 hp
  have := all_nonempty hc hh row hrow
  simpa [SRow.cells, SRow.readers] using this

theorem cells_nonempty_of_readers {rows : List SRow} (h : ∀ p ∈ rows.map SRow.readers, p ≠ []) :
    ∀ row ∈ rows.map SRow.cells, row ≠ [] := by
  intro c hc
  obtain ⟨row, hrow, rfl⟩ := List.mem_map.1 hc
  have := h row.readers (List.mem_map_of_mem hrow)
  simpa [SRow.cells, SRow.readers] using this

theorem indexOf_some_of_mem {r : RId} {l : List RId} (h : r ∈ l) : ∃ i, indexOf r l = some i := by
  cases hi : indexOf r l with
  | none => exact absurd h (indexOf_none.1 hi)
  | some i => exact ⟨i, rfl⟩


theorem owedBy_not_linked {rows : List SRow} {linked : List RId} {r : RId}
    (hp : ∀ p ∈ rows.map SRow.readers, p <+: linked) (hr : r ∉ linked) : owedBy rows r = [] := by
  simp only [owedBy, List.map_eq_nil_iff, List.filter_eq_nil_iff]
  intro row hrow
  have hpre := hp row.readers (List.mem_map_of_mem hrow)
  have : r ∉ row.slots.map Prod.fst := fun h => hr (hpre.subset h)
  rw [owes_def, owesS_not_mem this]; simp


theorem drop_cells_row {row : SRow} {linked : List RId} {r : RId} {i : Nat}
    (hp : row.readers <+: linked) (hnd : linked.Nodup) (hi : indexOf r linked = some i) :
    (row.drop r).cells = if i < row.cells.length then row.cells.eraseIdx i else row.cells := by
  have hnd' : row.readers.Nodup := hnd.sublist hp.sublist
  have := indexOf_prefix hp hi hnd
  have hlen : row.cells.length = row.readers.length := by simp [SRow.cells, SRow.readers]
  rw [hlen]
  split
  · rename_i hl
    rw [if_pos hl] at this
    exact drop_cells hnd' this
  · rename_i hl
    rw [if_neg hl] at this
    simp only [SRow.cells, SRow.drop]
    rw [drop_none this]

theorem drop_owedBy (rows : List SRow) {r r' : RId} (h : r' ≠ r) :
    owedBy (rows.map (·.drop r)) r' = owedBy rows r' := by
  induction rows with
  | nil => rfl
  | cons row tl ih =>
    simp only [List.map_cons, owedBy_cons, ih]
    have : (row.drop r).owes r' = row.owes r' := drop_owes_other row.slots h
    rw [this]; rfl


theorem mem_accepting {closed : RId → Bool} {l : List RId} {r : RId} :
    r ∈ accepting closed l ↔ r ∈ l ∧ closed r = false := by
  simp [accepting]

/-- The row a write creates owes exactly the open linked readers. -/
theorem newSlots_owes (closed : RId → Bool) (l : List RId) (r : RId) :
    owesS (l.map fun x => (x, if closed x then some none else none)) r = (decide (r ∈ l) && !closed r) := by
  induction l with
  | nil => simp [owesS]
  | cons x xs ih =>
    simp only [owesS] at ih
    simp only [owesS, List.map_cons, List.any_cons, ih, List.mem_cons]
    by_cases hx : x = r
    · subst hx; cases closed x <;> simp
    · have : (x == r) = false := by simpa using hx
      have h2 : ¬ r = x := fun e => hx e.symm
      simp [this, h2]

def newSRow (s : S) : SRow :=
  { wid := s.nextW, slots := s.linked.map fun r => (r, if s.closed r then some none else none) }


theorem arrive_ret (s : S) (w : Nat) (r : RId) (a : Ans) : ∃ b, (arrive s w r a).2.ret = .ok b := by
  simp only [arrive]
  split
  · exact ⟨_, rfl⟩
  · split
    · exact ⟨_, rfl⟩
    · split <;> exact ⟨_, rfl⟩


/-! ### An answer or drop notice arriving -/

theorem credit_mem {w : Nat} {r : RId} {a : Fill} {rows rows' : List SRow} (h : credit w r a rows = some rows') :
    w ∈ owedBy rows r := by
  induction rows generalizing rows' with
  | nil => simp [credit] at h
  | cons row tl ih =>
    simp only [credit] at h
    rw [owedBy_cons]
    split at h
    · rename_i hw
      split at h
      · rename_i ho; simp [ho, hw]
      · simp at h
    · cases hc : credit w r a tl with
      | none => simp [hc] at h
      | some tl' =>
        have := ih hc
        split <;> simp [this]

theorem arrive_fields (s : S) (w : Nat) (r : RId) (a : Ans) :
    (arrive s w r a).1.linked = s.linked ∧ (arrive s w r a).1.done = s.done ∧
    (arrive s w r a).1.closed = s.closed ∧ (arrive s w r a).1.owed = s.owed ∧
    (arrive s w r a).1.nextW = s.nextW := by
  simp only [arrive]
  split
  · exact ⟨rfl, rfl, rfl, rfl, rfl⟩
  split
  · exact ⟨rfl, rfl, rfl, rfl, rfl⟩
  split <;> exact ⟨rfl, rfl, rfl, rfl, rfl⟩

theorem W_rows_self {m : W} {x : List Row} (h : m.rows = x) : { m with rows := x } = m := by
  cases m; simp only at h; subst h; rfl

def arrived (s : S) (rows' : List SRow) : S :=
  { s with rows := (WriterSpec.flush rows').1, emittedIds := s.emittedIds ++ (WriterSpec.flush rows').2.2 }

/-- `(*Writer).receive(a, r, g)` against `arrive s w r a`, where `(g, w)` is the entry just
popped from the reader's queue: if `g` is the reader's current link generation the oldest row
owing `r` is the row of `w`; otherwise no row owes `r` an answer for `w`. -/
theorem sim_arrive {m : W} {s : S} (w g : Nat) (r : RId) (a : Ans)
    (hre : m.readers = s.linked) (hro : m.rows = s.rows.map SRow.cells) (hdo : m.done = s.done)
    (hll : m.links.length = m.readers.length) (hI : Inv s)
    (hq : if some g = linkOf m r then ∃ ob', owedBy s.rows r = w :: ob' else w ∉ owedBy s.rows r) :
    (receive m a r g).2 = (arrive s w r a).2 ∧
    (receive m a r g).1 = { m with rows := (arrive s w r a).1.rows.map SRow.cells } ∧
    Inv (arrive s w r a).1 ∧
    (∀ r', r' ≠ r → owedBy (arrive s w r a).1.rows r' = owedBy s.rows r') ∧
    owedBy (arrive s w r a).1.rows r =
      (if some g = linkOf m r then (owedBy s.rows r).tail else owedBy s.rows r) := by
  have hnd := hI.nodup
  have hrows := hI.rows
  have hhead := hI.head
  -- the three ways in which nothing happens
  have nothing : (receive m a r g).2 = Out.mk (.ok false) [] [] → (receive m a r g).1 = m →
      arrive s w r a = (s, Out.mk (.ok false) [] []) → ¬ some g = linkOf m r →
      (receive m a r g).2 = (arrive s w r a).2 ∧
      (receive m a r g).1 = { m with rows := (arrive s w r a).1.rows.map SRow.cells } ∧
      Inv (arrive s w r a).1 ∧
      (∀ r', r' ≠ r → owedBy (arrive s w r a).1.rows r' = owedBy s.rows r') ∧
      owedBy (arrive s w r a).1.rows r =
        (if some g = linkOf m r then (owedBy s.rows r).tail else owedBy s.rows r) := by
    intro h1 h2 h3 h4
    rw [h1, h2, h3]
    exact ⟨rfl, (W_rows_self hro).symm, hI, fun _ _ => rfl, by rw [if_neg h4]⟩
  by_cases hd : s.done = true
  · have hl := hI.fin hd
    have hmd : m.done = true := hdo.trans hd
    have hno : linkOf m r = none := by
      rw [linkOf_eq, hre, hl]; simp [linkAt]
    apply nothing
    · simp [receive, receiveWith, hmd]
    · simp [receive, receiveWith, hmd]
    · simp [arrive, hd]
    · rw [hno]; simp
  have hd' : s.done = false := by simpa using hd
  have hmd : m.done = false := hdo.trans hd'
  by_cases hm : r ∈ s.linked
  rotate_left
  · have hi : indexOf r m.readers = none := by rw [hre]; exact indexOf_none.2 hm
    have hno : linkOf m r = none := by simp [linkOf, hi]
    apply nothing
    · simp [receive, receiveWith, hmd, hi]
    · simp [receive, receiveWith, hmd, hi]
    · simp [arrive, hd', hm]
    · rw [hno]; simp
  obtain ⟨i, hi⟩ := indexOf_some_of_mem hm
  have hi' : indexOf r m.readers = some i := by rw [hre]; exact hi
  have hilt : i < m.links.length := by rw [hll, hre]; exact indexOf_lt hi
  obtain ⟨l, hlk⟩ : ∃ l, m.links[i]? = some l := ⟨m.links[i], List.getElem?_eq_getElem hilt⟩
  have hlo : linkOf m r = some l := by simp [linkOf, hi', hlk]
  rw [hlo] at hq ⊢
  by_cases hg : g = l
  rotate_left
  · have hne : ¬ some g = some l := by simpa using hg
    rw [if_neg hne] at hq
    have hcr : credit w r (some a) s.rows = none := by
      cases hc : credit w r (some a) s.rows with
      | none => rfl
      | some rows' => exact absurd (credit_mem hc) hq
    have hlg : (l != g) = true := by simpa using fun e => hg e.symm
    have := nothing (by simp [receive, receiveWith, hmd, hi', hlk, hlg]) (by simp [receive, receiveWith, hmd, hi', hlk, hlg])
      (by simp [arrive, hd', hm, hcr]) (by rw [hlo]; exact hne)
    rw [hlo] at this
    exact this
  subst hg
  rw [if_pos rfl] at hq ⊢
  obtain ⟨ob', hl⟩ := hq
  have hlg : (g != g) = false := by simp
  have hmf := mfill_cfirst (some a) hrows.pref hnd hi
  obtain ⟨rows', hcf⟩ := cfirst_isSome (some a) hl
  have hcr := credit_eq_cfirst (some a) hrows.wids hl
  rw [hcf] at hcr
  rw [hcf] at hmf
  obtain ⟨e1, e2, e3, e4⟩ := cfirst_effect hcf
  have hrows' : RowsOK s.linked s.nextW rows' := hrows.of_map_eq e3 e4
  have hinv : Inv (arrived s rows') :=
    ⟨hnd, hrows'.flush, flush_head rows', by simp [arrived, hd'], hI.owedLt⟩
  have harr : arrive s w r a = (arrived s rows', Out.mk (.ok true) (WriterSpec.flush rows').2.1 []) := by
    simp [arrive, arrived, hd', hm, hcr]
  rw [harr]
  have hmodel : (receive m a r g).2 = Out.mk (.ok true) (WriterSpec.flush rows').2.1 [] ∧
      (receive m a r g).1 = { m with rows := (WriterSpec.flush rows').1.map SRow.cells } := by
    cases hih : indexOfHead i (s.rows.map SRow.cells) with
    | panic => exact absurd hih (indexOfHead_ne_panic _ _)
    | notFound =>
      have := indexOfHead_notFound (some a) hih
      rw [hmf] at this; simp at this
    | found h =>
      obtain ⟨mrows', hset, hmf', hne0⟩ := indexOfHead_found (some a) hih
      rw [hmf] at hmf'
      simp only [Option.map_some, Option.some.injEq] at hmf'
      subst hmf'
      by_cases h0 : h = 0
      · have hfl := mflush_eq rows'
        subst h0
        simp [receive, receiveWith, hmd, hi', hlk, hlg, hro, hih, hset, hfl]
      · obtain ⟨row, rest, rest', hre1, _, hre'⟩ := hne0 h0
        have hflush : WriterSpec.flush rows' = (rows', [], []) := by
          cases hs : s.rows with
          | nil => simp [hs] at hre1
          | cons srow srest =>
            have hh := hhead srow srest hs
            simp only [hs, List.map_cons, List.cons.injEq] at hre1
            cases rows' with
            | nil => simp at hre'
            | cons srow' srest' =>
              simp only [List.map_cons, List.cons.injEq] at hre'
              apply flush_of_head
              rw [hre'.1, ← hre1.1]; exact hh
        simp [receive, receiveWith, hmd, hi', hlk, hlg, hro, hih, hset, h0, hflush]
  refine ⟨hmodel.1, hmodel.2, hinv, ?_, ?_⟩
  · intro r' hne
    show owedBy (WriterSpec.flush rows').1 r' = _
    rw [owedBy_flush, e2 r' hne]
  · show owedBy (WriterSpec.flush rows').1 r = _
    rw [owedBy_flush, e1]

/-! ### The individual steps -/

theorem sim_link {m : W} {s : S} (hR : Rel m s) (r : RId) :
    (Writer.step m (.link r)).2 = (WriterSpec.step s (.link r)).2 ∧
      Rel (Writer.step m (.link r)).1 (WriterSpec.step s (.link r)).1 := by
  by_cases hd : s.done = true
  · have hmd : m.done = true := hR.done.trans hd
    have e1 : Writer.step m (.link r) = (m, Out.mk (.ok false) [] []) := by simp [Writer.step, stepWith, hmd]
    have e2 : WriterSpec.step s (.link r) = (s, Out.mk (.ok false) [] []) := by simp [WriterSpec.step, hd]
    rw [e1, e2]; exact ⟨rfl, hR⟩
  have hd' : s.done = false := by simpa using hd
  have hmd : m.done = false := hR.done.trans hd'
  by_cases hm : r ∈ s.linked
  · have hm' : r ∈ m.readers := hR.readers ▸ hm
    have e1 : Writer.step m (.link r) = (m, Out.mk (.ok false) [] []) := by simp [Writer.step, stepWith, hmd, hm']
    have e2 : WriterSpec.step s (.link r) = (s, Out.mk (.ok false) [] []) := by simp [WriterSpec.step, hd', hm]
    rw [e1, e2]; exact ⟨rfl, hR⟩
  have hm' : r ∉ m.readers := hR.readers ▸ hm
  have e1 : Writer.step m (.link r) =
      ({ m with linked := m.linked + 1, readers := m.readers ++ [r], links := m.links ++ [m.linked + 1] },
       Out.mk (.ok true) [] []) := by simp [Writer.step, stepWith, hmd, hm']
  have e2 : WriterSpec.step s (.link r) = ({ s with linked := s.linked ++ [r] }, Out.mk (.ok true) [] []) := by
    simp [WriterSpec.step, hd', hm]
  rw [e1, e2]
  refine ⟨rfl, ?_⟩
  have hI := hR.inv
  refine ⟨by simp [hR.readers], hR.rows, hR.done, hR.closed, by simp [hR.linksLen], ?_, ?_, hR.pendClosed, hR.dropsOpen, ?_, ?_⟩
  · intro g hg
    simp only [List.mem_append, List.mem_singleton] at hg
    rcases hg with hg | hg
    · exact Nat.le_succ_of_le (hR.linksLe g hg)
    · simp [hg]
  · intro r' g hg
    exact Nat.le_succ_of_le (hR.fifoLe r' g hg)
  · intro r'
    show FifoOK (linkOf { m with linked := m.linked + 1, readers := m.readers ++ [r], links := m.links ++ [m.linked + 1] } r')
      (fifo m r') (s.owed r') (owedBy s.rows r')
    rw [linkOf_eq]
    show FifoOK (linkAt r' (m.readers ++ [r]) (m.links ++ [m.linked + 1])) _ _ _
    rw [linkAt_append _ hR.linksLen]
    have hold := hR.fifo r'
    rw [linkOf_eq] at hold
    by_cases e : r = r'
    · subst e
      rw [linkAt_not_mem _ hm']
      simp only [if_true]
      have h0 := owedBy_not_linked hI.rows.pref hm
      rw [h0] at hold ⊢
      apply fifoOK_stale (fifoOK_len hold)
      intro g hg
      have := hR.fifoLe r g hg
      simp only [ne_eq, Option.some.injEq]
      omega
    · cases hl : linkAt r' m.readers m.links with
      | some l => rw [hl] at hold; simpa using hold
      | none => rw [hl] at hold; simpa [e] using hold
  · refine ⟨?_, ⟨?_, hI.rows.chain, hI.rows.wids, hI.rows.widlt⟩, hI.head, by simp [hd'], hI.owedLt⟩
    · show (s.linked ++ [r]).Nodup
      rw [List.nodup_append]
      refine ⟨hI.nodup, by simp, ?_⟩
      intro a ha b hb
      simp only [List.mem_singleton] at hb
      subst hb
      exact fun e => hm (e ▸ ha)
    · intro p hp
      exact (hI.rows.pref p hp).trans (List.prefix_append _ _)

theorem sim_unlink {m : W} {s : S} (hR : Rel m s) (r : RId) :
    (Writer.step m (.unlink r)).2 = (WriterSpec.step s (.unlink r)).2 ∧
      Rel (Writer.step m (.unlink r)).1 (WriterSpec.step s (.unlink r)).1 := by
  have hI := hR.inv
  by_cases hd : s.done = true
  · have hmd : m.done = true := hR.done.trans hd
    have e1 : Writer.step m (.unlink r) = (m, Out.mk (.ok false) [] []) := by simp [Writer.step, stepWith, hmd]
    have e2 : WriterSpec.step s (.unlink r) = (s, Out.mk (.ok false) [] []) := by simp [WriterSpec.step, hd]
    rw [e1, e2]; exact ⟨rfl, hR⟩
  have hd' : s.done = false := by simpa using hd
  have hmd : m.done = false := hR.done.trans hd'
  by_cases hm : r ∈ s.linked
  rotate_left
  · have hi : indexOf r m.readers = none := by rw [hR.readers]; exact indexOf_none.2 hm
    have e1 : Writer.step m (.unlink r) = (m, Out.mk (.ok false) [] []) := by simp [Writer.step, stepWith, hmd, hi]
    have e2 : WriterSpec.step s (.unlink r) = (s, Out.mk (.ok false) [] []) := by simp [WriterSpec.step, hd', hm]
    rw [e1, e2]; exact ⟨rfl, hR⟩
  obtain ⟨i, hi⟩ := indexOf_some_of_mem hm
  have hi' : indexOf r m.readers = some i := by rw [hR.readers]; exact hi
  have hilt : i < s.linked.length := indexOf_lt hi
  have hill : ¬ m.links.length ≤ i := by rw [hR.linksLen, hR.readers]; omega
  have hcols : eraseCol i (s.rows.map SRow.cells) = (s.rows.map (·.drop r)).map SRow.cells := by
    simp only [eraseCol, List.map_map]
    apply List.map_congr_left
    intro row hrow
    simp only [Function.comp]
    exact (drop_cells_row (hI.rows.pref _ (List.mem_map_of_mem hrow)) hI.nodup hi).symm
  have hfl := mflush_eq (s.rows.map (·.drop r))
  have hrd := filter_ne_eq_eraseIdx hi hI.nodup
  have e1 : Writer.step m (.unlink r) =
      ({ m with readers := m.readers.eraseIdx i, links := m.links.eraseIdx i,
                rows := (Writer.flush (eraseCol i m.rows)).1 },
       Out.mk (.ok true) (Writer.flush (eraseCol i m.rows)).2 []) := by
    simp [Writer.step, stepWith, hmd, hi', hill]
  have e2 : WriterSpec.step s (.unlink r) =
      ({ s with linked := s.linked.filter (· ≠ r), rows := (WriterSpec.flush (s.rows.map (·.drop r))).1,
                emittedIds := s.emittedIds ++ (WriterSpec.flush (s.rows.map (·.drop r))).2.2 },
       Out.mk (.ok true) (WriterSpec.flush (s.rows.map (·.drop r))).2.1 []) := by
    simp [WriterSpec.step, hd', hm]
  rw [e1, e2, hR.rows, hcols, hfl]
  refine ⟨rfl, ?_⟩
  have hreaders : (s.rows.map (·.drop r)).map SRow.readers = (s.rows.map SRow.readers).map (·.filter (· ≠ r)) := by
    simp only [List.map_map]
    apply List.map_congr_left
    intro row _
    exact drop_readers row.slots r
  have hwid : (s.rows.map (·.drop r)).map (·.wid) = s.rows.map (·.wid) := by
    simp only [List.map_map]; rfl
  have hok : RowsOK (s.linked.filter (· ≠ r)) s.nextW (s.rows.map (·.drop r)) := by
    refine ⟨?_, ?_, hwid ▸ hI.rows.wids, hwid ▸ hI.rows.widlt⟩
    · rw [hreaders]
      intro p hp
      obtain ⟨q, hq, rfl⟩ := List.mem_map.1 hp
      exact (hI.rows.pref q hq).filter _
    · rw [hreaders, List.pairwise_map]
      exact hI.rows.chain.imp fun h => h.filter _
  have hnotin : r ∉ s.linked.filter (· ≠ r) := by simp
  refine ⟨?_, rfl, hR.done, hR.closed, ?_, ?_, hR.fifoLe, hR.pendClosed, hR.dropsOpen, ?_, ?_⟩
  · show m.readers.eraseIdx i = s.linked.filter (· ≠ r)
    rw [hrd, hR.readers]
  · show (m.links.eraseIdx i).length = (m.readers.eraseIdx i).length
    rw [List.length_eraseIdx, List.length_eraseIdx, hR.linksLen]
  · intro g hg
    exact hR.linksLe g (List.mem_of_mem_eraseIdx hg)
  · intro r'
    have hlo : ∀ m' : W, m'.readers = m.readers.eraseIdx i → m'.links = m.links.eraseIdx i →
        linkOf m' r' = linkAt r' (m.readers.eraseIdx i) (m.links.eraseIdx i) := by
      intro m' h1 h2; rw [linkOf_eq, h1, h2]
    rw [hlo _ rfl rfl]
    show FifoOK _ (fifo m r') (s.owed r') (owedBy (WriterSpec.flush (s.rows.map (·.drop r))).1 r')
    have hold := hR.fifo r'
    by_cases e : r' = r
    · subst e
      have hnr : r' ∉ m.readers.eraseIdx i := by rw [hR.readers, ← hrd]; exact hnotin
      rw [linkAt_not_mem _ hnr, owedBy_not_linked hok.flush.pref hnotin]
      exact fifoOK_stale (fifoOK_len hold) (by simp)
    · rw [linkAt_eraseIdx _ hi' e, owedBy_flush, drop_owedBy _ e, ← linkOf_eq]
      exact hold
  · exact ⟨hI.nodup.filter _, hok.flush, flush_head _, by simp [hd'], hI.owedLt⟩

theorem newRow_eq (s : S) : newRow s.closed s.linked = (newSRow s).cells := by
  simp [newSRow, SRow.cells, newRow]

theorem newSRow_owes (s : S) (r : RId) : (newSRow s).owes r = (decide (r ∈ s.linked) && !s.closed r) := by
  rw [owes_def]; exact newSlots_owes s.closed s.linked r

theorem sim_write {m : W} {s : S} (hR : Rel m s) (v : Nat) :
    (Writer.step m (.write v)).2 = (WriterSpec.step s (.write v)).2 ∧
      Rel (Writer.step m (.write v)).1 (WriterSpec.step s (.write v)).1 := by
  have hI := hR.inv
  by_cases hd : s.done = true
  · have hmd : m.done = true := hR.done.trans hd
    have e1 : Writer.step m (.write v) = (m, Out.mk (.cnt 0) [] []) := by simp [Writer.step, stepWith, hmd]
    have e2 : WriterSpec.step s (.write v) = (s, Out.mk (.cnt 0) [] []) := by simp [WriterSpec.step, hd]
    rw [e1, e2]; exact ⟨rfl, hR⟩
  have hd' : s.done = false := by simpa using hd
  have hmd : m.done = false := hR.done.trans hd'
  have hpanic : ¬ m.links.length < m.readers.length := by rw [hR.linksLen]; omega
  by_cases hacc : (accepting s.closed s.linked).length > 0
  rotate_left
  · have hnil : accepting s.closed s.linked = [] := by
      cases h : accepting s.closed s.linked with
      | nil => rfl
      | cons a t => simp [h] at hacc
    have hnil' : accepting m.closed m.readers = [] := by rw [hR.closed, hR.readers]; exact hnil
    have e2 : WriterSpec.step s (.write v) = (s, Out.mk (.cnt 0) [] []) := by simp [WriterSpec.step, hd', hnil]
    have e1 : Writer.step m (.write v) = (m, Out.mk (.cnt 0) [] []) := by
      simp only [Writer.step, stepWith, hmd, hpanic, hnil', Bool.false_eq_true, if_false, List.length_nil,
        Nat.lt_irrefl, List.not_mem_nil]
      split
      · rfl
      · congr 1
        cases m
        simp only [W.mk.injEq]
        simp_all
    rw [e1, e2]; exact ⟨rfl, hR⟩
  have hacc' : (accepting m.closed m.readers).length > 0 := by rw [hR.closed, hR.readers]; exact hacc
  have hne : m.readers.isEmpty = false := by
    cases h : m.readers with
    | nil => simp [h, accepting] at hacc'
    | cons a t => rfl
  have e2 : WriterSpec.step s (.write v) =
      ({ s with rows := s.rows ++ [newSRow s],
                owed := fun r => if r ∈ accepting s.closed s.linked then s.owed r ++ [s.nextW] else s.owed r,
                nextW := s.nextW + 1 },
       Out.mk (.cnt (accepting s.closed s.linked).length) [] ((accepting s.closed s.linked).map fun r => (r, v))) := by
    simp [WriterSpec.step, hd', hacc, newSRow]
  have e1 : Writer.step m (.write v) =
      ({ m with pend := fun r => if r ∈ accepting m.closed m.readers then m.pend r ++ (linkOf m r).toList else m.pend r,
                rows := m.rows ++ [newRow m.closed m.readers] },
       Out.mk (.cnt (accepting m.closed m.readers).length) [] ((accepting m.closed m.readers).map fun r => (r, v))) := by
    simp [Writer.step, stepWith, hmd, hne, hpanic, hacc']
  rw [e1, e2]
  refine ⟨by rw [hR.closed, hR.readers], ?_⟩
  have hreaders : (newSRow s).readers = s.linked := by
    simp [newSRow, SRow.readers, List.map_map, Function.comp_def]
  have hmemacc : ∀ r, r ∈ accepting m.closed m.readers ↔ r ∈ s.linked ∧ s.closed r = false := by
    intro r; rw [hR.closed, hR.readers]; exact mem_accepting
  refine ⟨hR.readers, ?_, hR.done, hR.closed, hR.linksLen, hR.linksLe, ?_, ?_, hR.dropsOpen, ?_, ?_⟩
  · show m.rows ++ [newRow m.closed m.readers] = (s.rows ++ [newSRow s]).map SRow.cells
    rw [hR.rows, hR.closed, hR.readers, newRow_eq]; simp
  · intro r g hg
    by_cases hc : m.closed r = true
    · have : fifo m r = m.drops r := by simp [fifo, hc]
      exact hR.fifoLe r g (by rw [this]; simpa [fifo, hc] using hg)
    · have hc' : m.closed r = false := by simpa using hc
      have hold : fifo m r = m.pend r := by simp [fifo, hc']
      simp only [fifo, hc', Bool.false_eq_true, if_false] at hg
      split at hg
      · simp only [List.mem_append] at hg
        rcases hg with hg | hg
        · exact hR.fifoLe r g (by rw [hold]; exact hg)
        · cases hl : linkOf m r with
          | none => simp [hl] at hg
          | some l =>
            simp only [hl, Option.toList_some, List.mem_singleton] at hg
            subst hg
            rw [linkOf_eq] at hl
            exact hR.linksLe g (linkAt_mem hl)
      · exact hR.fifoLe r g (by rw [hold]; exact hg)
  · intro r hc
    have : r ∉ accepting m.closed m.readers := by
      intro h; have := (hmemacc r).1 h; rw [hR.closed] at hc; rw [hc] at this; exact absurd this.2 (by simp)
    show (if r ∈ accepting m.closed m.readers then m.pend r ++ (linkOf m r).toList else m.pend r) = []
    rw [if_neg this]; exact hR.pendClosed r hc
  · intro r
    have hold := hR.fifo r
    show FifoOK (linkOf m r)
      (if m.closed r then m.drops r
        else (if r ∈ accepting m.closed m.readers then m.pend r ++ (linkOf m r).toList else m.pend r))
      (if r ∈ accepting s.closed s.linked then s.owed r ++ [s.nextW] else s.owed r)
      (owedBy (s.rows ++ [newSRow s]) r)
    rw [owedBy_append, owedBy_cons, newSRow_owes]
    have hnil : owedBy [] r = [] := rfl
    by_cases hr : r ∈ s.linked ∧ s.closed r = false
    · have h1 : r ∈ accepting m.closed m.readers := (hmemacc r).2 hr
      have h2 : r ∈ accepting s.closed s.linked := mem_accepting.2 hr
      have hc : m.closed r = false := by rw [hR.closed]; exact hr.2
      obtain ⟨g, hg⟩ : ∃ g, linkOf m r = some g := by
        rw [linkOf_eq]; exact linkAt_some_of_mem (hR.readers ▸ hr.1) hR.linksLen
      simp only [fifo, hc, Bool.false_eq_true, if_false] at hold
      simp only [hc, Bool.false_eq_true, if_false, h1, h2, if_true, hg, Option.toList_some, hr.1, hr.2,
        decide_true, Bool.not_false, Bool.and_self, hnil]
      rw [hg] at hold
      exact fifoOK_push hold rfl (fun w' hw' => Nat.ne_of_lt (hI.owedLt r w' hw'))
    · have h1 : r ∉ accepting m.closed m.readers := fun h => hr ((hmemacc r).1 h)
      have h2 : r ∉ accepting s.closed s.linked := fun h => hr (mem_accepting.1 h)
      have hno : (decide (r ∈ s.linked) && !s.closed r) = false := by
        by_cases hl : r ∈ s.linked
        · have : s.closed r = true := by
            cases hc : s.closed r with
            | true => rfl
            | false => exact absurd ⟨hl, hc⟩ hr
          simp [this]
        · simp [hl]
      simp only [h1, h2, if_false, hno, Bool.false_eq_true, hnil, List.append_nil]
      exact hold
  · refine ⟨hI.nodup, ⟨?_, ?_, ?_, ?_⟩, ?_, by simp [hd'], ?_⟩
    · intro p hp
      simp only [List.map_append, List.mem_append, List.map_cons, List.map_nil, List.mem_singleton] at hp
      rcases hp with hp | hp
      · exact hI.rows.pref p hp
      · rw [hp, hreaders]; exact List.prefix_refl _
    · simp only [List.map_append, List.map_cons, List.map_nil, List.pairwise_append, List.pairwise_cons,
        List.Pairwise.nil, List.mem_singleton]
      refine ⟨hI.rows.chain, ⟨by simp, trivial⟩, ?_⟩
      intro p hp q hq
      rw [hq, hreaders]; exact hI.rows.pref p hp
    · simp only [List.map_append, List.map_cons, List.map_nil, List.pairwise_append, List.pairwise_cons,
        List.Pairwise.nil, List.mem_singleton]
      refine ⟨hI.rows.wids, ⟨by simp, trivial⟩, ?_⟩
      intro w hw q hq
      rw [hq]; exact hI.rows.widlt w hw
    · intro w hw
      simp only [List.map_append, List.mem_append, List.map_cons, List.map_nil, List.mem_singleton] at hw
      rcases hw with hw | hw
      · exact Nat.lt_succ_of_lt (hI.rows.widlt w hw)
      · rw [hw]; exact Nat.lt_succ_self _
    · intro row rest he
      cases hs : s.rows with
      | nil =>
        simp only [hs, List.nil_append, List.cons.injEq] at he
        rw [← he.1]
        obtain ⟨a, ha⟩ : ∃ a, a ∈ accepting s.closed s.linked := by
          cases h : accepting s.closed s.linked with
          | nil => simp [h] at hacc
          | cons a t => exact ⟨a, by simp⟩
        have ha' := mem_accepting.1 ha
        simp only [hasNil, newSRow, SRow.cells, List.map_map, List.any_map, List.any_eq_true]
        exact ⟨a, ha'.1, by simp [ha'.2]⟩
      | cons r0 t0 =>
        simp only [hs, List.cons_append, List.cons.injEq] at he
        rw [← he.1]
        exact hI.head r0 t0 hs
    · intro r w hw
      have hw' : w ∈ (if r ∈ accepting s.closed s.linked then s.owed r ++ [s.nextW] else s.owed r) := hw
      split at hw'
      · simp only [List.mem_append, List.mem_singleton] at hw'
        rcases hw' with h | h
        · exact Nat.lt_succ_of_lt (hI.owedLt r w h)
        · rw [h]; exact Nat.lt_succ_self _
      · exact Nat.lt_succ_of_lt (hI.owedLt r w hw')

/-- The specification state after reader `r` popped the head of its queue. -/
def popped (s : S) (r : RId) (rest : List Nat) : S :=
  { s with owed := fun x => if x = r then rest else s.owed x }

/-- Reader `r` pops the head `(g, w)` of its queue (an answer, or a drop notice being delivered)
and the writer receives it: `m1` is the model state after the pop. -/
theorem sim_pop {m m1 : W} {s : S} (hR : Rel m s) (r : RId) (g w : Nat) (gs ws : List Nat) (a : Ans)
    (h1 : m1.readers = m.readers) (h2 : m1.links = m.links) (h3 : m1.linked = m.linked)
    (h4 : m1.rows = m.rows) (h5 : m1.done = m.done) (h6 : m1.closed = m.closed)
    (h7 : fifo m1 r = gs) (h8 : ∀ r', r' ≠ r → fifo m1 r' = fifo m r')
    (h9 : ∀ r', m1.closed r' = true → m1.pend r' = []) (h10 : ∀ r', m1.closed r' = false → m1.drops r' = [])
    (hf : fifo m r = g :: gs) (ho : s.owed r = w :: ws) :
    (receive m1 a r g).2 = (arrive (popped s r ws) w r a).2 ∧
      Rel (receive m1 a r g).1 (arrive (popped s r ws) w r a).1 := by
  have hI := hR.inv
  have hlo : ∀ x, linkOf m1 x = linkOf m x := by intro x; simp [linkOf, h1, h2]
  have hfo := hR.fifo r
  rw [hf, ho] at hfo
  simp only [FifoOK] at hfo
  have hI1 : Inv (popped s r ws) := by
    refine ⟨hI.nodup, hI.rows, hI.head, hI.fin, ?_⟩
    intro x w' hw'
    have hw'' : w' ∈ (if x = r then ws else s.owed x) := hw'
    split at hw''
    · rename_i hx; subst hx; exact hI.owedLt x w' (by rw [ho]; simp [hw''])
    · exact hI.owedLt x w' hw''
  have hq : if some g = linkOf m1 r then ∃ ob', owedBy (popped s r ws).rows r = w :: ob'
      else w ∉ owedBy (popped s r ws).rows r := by
    rw [hlo]
    show if some g = linkOf m r then ∃ ob', owedBy s.rows r = w :: ob' else w ∉ owedBy s.rows r
    split at hfo
    · rename_i hc; rw [if_pos hc]; obtain ⟨ob', e, _⟩ := hfo; exact ⟨ob', e⟩
    · rename_i hc; rw [if_neg hc]; exact hfo.1
  obtain ⟨o1, o2, o3, o4, o5⟩ := sim_arrive (m := m1) (s := popped s r ws) w g r a
    (by rw [h1]; exact hR.readers) (by rw [h4]; exact hR.rows) (by rw [h5]; exact hR.done)
    (by rw [h2, h1]; exact hR.linksLen) hI1 hq
  obtain ⟨f1, f2, f3, f4, f5⟩ := arrive_fields (popped s r ws) w r a
  refine ⟨o1, ?_⟩
  rw [o2]
  refine ⟨?_, rfl, ?_, ?_, ?_, ?_, ?_, h9, h10, ?_, o3⟩
  · show m1.readers = _
    rw [f1, h1]; exact hR.readers
  · show m1.done = _
    rw [f2, h5]; exact hR.done
  · show m1.closed = _
    rw [f3, h6]; exact hR.closed
  · show m1.links.length = m1.readers.length
    rw [h2, h1]; exact hR.linksLen
  · intro x hx
    have hx' : x ∈ m1.links := hx
    rw [h2] at hx'
    show x ≤ m1.linked
    rw [h3]; exact hR.linksLe x hx'
  · intro x y hy
    have hy' : y ∈ fifo m1 x := hy
    show y ≤ m1.linked
    rw [h3]
    by_cases hx : x = r
    · subst hx; rw [h7] at hy'; exact hR.fifoLe x y (by rw [hf]; simp [hy'])
    · rw [h8 x hx] at hy'; exact hR.fifoLe x y hy'
  · intro x
    show FifoOK (linkOf m1 x) (fifo m1 x) ((arrive (popped s r ws) w r a).1.owed x)
      (owedBy (arrive (popped s r ws) w r a).1.rows x)
    rw [f4, hlo]
    by_cases hx : x = r
    · subst hx
      rw [h7, o5, hlo]
      show FifoOK (linkOf m x) gs (if x = x then ws else s.owed x)
        (if some g = linkOf m x then (owedBy s.rows x).tail else owedBy s.rows x)
      rw [if_pos rfl]
      split at hfo
      · rename_i hc
        obtain ⟨ob', e, hrest⟩ := hfo
        rw [if_pos hc, e]; exact hrest
      · rename_i hc
        rw [if_neg hc]; exact hfo.2
    · rw [h8 x hx, o4 x hx]
      show FifoOK (linkOf m x) (fifo m x) (if x = r then ws else s.owed x) (owedBy s.rows x)
      rw [if_neg hx]; exact hR.fifo x

def popPend (m : W) (r : RId) (gs : List Nat) : W :=
  { m with pend := fun x => if x = r then gs else m.pend x }

def popDrops (m : W) (r : RId) (gs : List Nat) : W :=
  { m with drops := fun x => if x = r then gs else m.drops x }

def closeReader (m : W) (r : RId) : W :=
  { m with closed := fun x => if x = r then true else m.closed x,
           drops := fun x => if x = r then m.pend r else m.drops x,
           pend := fun x => if x = r then [] else m.pend x }

theorem sim_answer {m : W} {s : S} (hR : Rel m s) (r : RId) (a : Ans) :
    (Writer.step m (.answer r a)).2 = (WriterSpec.step s (.answer r a)).2 ∧
      Rel (Writer.step m (.answer r a)).1 (WriterSpec.step s (.answer r a)).1 := by
  by_cases hc : s.closed r = true
  · have hmc : m.closed r = true := by rw [hR.closed]; exact hc
    have hp := hR.pendClosed r hmc
    have e1 : Writer.step m (.answer r a) = (m, Out.mk (.ok false) [] []) := by simp [Writer.step, stepWith, hp]
    have e2 : WriterSpec.step s (.answer r a) = (s, Out.mk (.ok false) [] []) := by simp [WriterSpec.step, hc]
    rw [e1, e2]; exact ⟨rfl, hR⟩
  have hc' : s.closed r = false := by simpa using hc
  have hmc : m.closed r = false := by rw [hR.closed]; exact hc'
  have hfm : fifo m r = m.pend r := by simp [fifo, hmc]
  have hlen := fifoOK_len (hR.fifo r)
  rw [hfm] at hlen
  cases hp : m.pend r with
  | nil =>
    have ho : s.owed r = [] := by rw [hp] at hlen; exact List.length_eq_zero_iff.1 hlen.symm
    have e1 : Writer.step m (.answer r a) = (m, Out.mk (.ok false) [] []) := by simp [Writer.step, stepWith, hp]
    have e2 : WriterSpec.step s (.answer r a) = (s, Out.mk (.ok false) [] []) := by simp [WriterSpec.step, hc', ho]
    rw [e1, e2]; exact ⟨rfl, hR⟩
  | cons g gs =>
    cases ho : s.owed r with
    | nil => rw [hp, ho] at hlen; simp at hlen
    | cons w ws =>
      have e1 : Writer.step m (.answer r a) = receive (popPend m r gs) a r g := by
        simp [Writer.step, stepWith, hp, popPend]
      have e2 : WriterSpec.step s (.answer r a) = arrive (popped s r ws) w r a := by
        simp [WriterSpec.step, hc', ho, popped]
      rw [e1, e2]
      apply sim_pop (m1 := popPend m r gs) hR r g w gs ws a rfl rfl rfl rfl rfl rfl
      · simp [fifo, popPend, hmc]
      · intro r' hne; simp [fifo, popPend, hne]
      · intro r' hcl0
        have hcl : m.closed r' = true := hcl0
        show (if r' = r then gs else m.pend r') = []
        have hne : r' ≠ r := fun e => by rw [e, hmc] at hcl; cases hcl
        rw [if_neg hne]; exact hR.pendClosed r' hcl
      · exact hR.dropsOpen
      · rw [hfm, hp]
      · exact ho

theorem sim_closeR {m : W} {s : S} (hR : Rel m s) (r : RId) :
    (Writer.step m (.closeR r)).2 = (WriterSpec.step s (.closeR r)).2 ∧
      Rel (Writer.step m (.closeR r)).1 (WriterSpec.step s (.closeR r)).1 := by
  by_cases hc : s.closed r = true
  · have hmc : m.closed r = true := by rw [hR.closed]; exact hc
    have e1 : Writer.step m (.closeR r) = (m, Out.mk (.cnt 0) [] []) := by simp [Writer.step, stepWith, hmc]
    have e2 : WriterSpec.step s (.closeR r) = (s, Out.mk (.cnt 0) [] []) := by simp [WriterSpec.step, hc]
    rw [e1, e2]; exact ⟨rfl, hR⟩
  have hc' : s.closed r = false := by simpa using hc
  have hmc : m.closed r = false := by rw [hR.closed]; exact hc'
  have hfm : fifo m r = m.pend r := by simp [fifo, hmc]
  have hlen := fifoOK_len (hR.fifo r)
  rw [hfm] at hlen
  have e1 : Writer.step m (.closeR r) = (closeReader m r, Out.mk (.cnt (m.pend r).length) [] []) := by
    simp [Writer.step, stepWith, hmc, closeReader]
  have e2 : WriterSpec.step s (.closeR r) =
      ({ s with closed := fun x => if x = r then true else s.closed x }, Out.mk (.cnt (s.owed r).length) [] []) := by
    simp [WriterSpec.step, hc']
  rw [e1, e2]
  refine ⟨by rw [hlen], ?_⟩
  have hfifo : ∀ x, fifo (closeReader m r) x = fifo m x := by
    intro x
    by_cases hx : x = r
    · subst hx; simp [fifo, closeReader, hmc]
    · simp [fifo, closeReader, hx]
  refine ⟨hR.readers, hR.rows, hR.done, ?_, hR.linksLen, hR.linksLe, ?_, ?_, ?_, ?_, ?_⟩
  · show (fun x => if x = r then true else m.closed x) = fun x => if x = r then true else s.closed x
    rw [hR.closed]
  · intro x g hg; rw [hfifo] at hg; exact hR.fifoLe x g hg
  · intro x hx0
    have hx : (if x = r then true else m.closed x) = true := hx0
    show (if x = r then [] else m.pend x) = []
    split
    · rfl
    · rename_i hne
      have : m.closed x = true := by simpa [hne] using hx
      exact hR.pendClosed x this
  · intro x hx0
    have hx : (if x = r then true else m.closed x) = false := hx0
    show (if x = r then m.pend r else m.drops x) = []
    have hne : ¬ x = r := fun e => by simp [e] at hx
    rw [if_neg hne]
    have : m.closed x = false := by simpa [hne] using hx
    exact hR.dropsOpen x this
  · intro x; rw [hfifo]; exact hR.fifo x
  · exact ⟨hR.inv.nodup, hR.inv.rows, hR.inv.head, hR.inv.fin, hR.inv.owedLt⟩

theorem sim_drop {m : W} {s : S} (hR : Rel m s) (r : RId) :
    (Writer.step m (.deliverDrop r)).2 = (WriterSpec.step s (.deliverDrop r)).2 ∧
      Rel (Writer.step m (.deliverDrop r)).1 (WriterSpec.step s (.deliverDrop r)).1 := by
  by_cases hc : s.closed r = true
  rotate_left
  · have hc' : s.closed r = false := by simpa using hc
    have hmc : m.closed r = false := by rw [hR.closed]; exact hc'
    have hdz := hR.dropsOpen r hmc
    have e1 : Writer.step m (.deliverDrop r) = (m, Out.mk .skip [] []) := by simp [Writer.step, stepWith, hdz]
    have e2 : WriterSpec.step s (.deliverDrop r) = (s, Out.mk .skip [] []) := by simp [WriterSpec.step, hc']
    rw [e1, e2]; exact ⟨rfl, hR⟩
  have hmc : m.closed r = true := by rw [hR.closed]; exact hc
  have hfm : fifo m r = m.drops r := by simp [fifo, hmc]
  have hlen := fifoOK_len (hR.fifo r)
  rw [hfm] at hlen
  cases hp : m.drops r with
  | nil =>
    have ho : s.owed r = [] := by rw [hp] at hlen; exact List.length_eq_zero_iff.1 hlen.symm
    have e1 : Writer.step m (.deliverDrop r) = (m, Out.mk .skip [] []) := by simp [Writer.step, stepWith, hp]
    have e2 : WriterSpec.step s (.deliverDrop r) = (s, Out.mk .skip [] []) := by simp [WriterSpec.step, hc, ho]
    rw [e1, e2]; exact ⟨rfl, hR⟩
  | cons g gs =>
    cases ho : s.owed r with
    | nil => rw [hp, ho] at hlen; simp at hlen
    | cons w ws =>
      have hpop := sim_pop (m1 := popDrops m r gs) hR r g w gs ws Ans.dropped rfl rfl rfl rfl rfl rfl
        (by simp [fifo, popDrops, hmc]) (by intro r' hne; simp [fifo, popDrops, hne])
        (by intro r' hcl; exact hR.pendClosed r' hcl)
        (by
          intro r' hcl0
          have hcl : m.closed r' = false := hcl0
          show (if r' = r then gs else m.drops r') = []
          have hne : r' ≠ r := fun e => by rw [e, hmc] at hcl; cases hcl
          rw [if_neg hne]; exact hR.dropsOpen r' hcl)
        (by rw [hfm, hp]) ho
      obtain ⟨b, hb⟩ := arrive_ret (popped s r ws) w r Ans.dropped
      have hret : (receiveWith true (popDrops m r gs) Ans.dropped r g).2.ret = .ok b := by
        have := hpop.1; simp only [receive] at this; rw [this]; exact hb
      have e1 : Writer.step m (.deliverDrop r) =
          ((receive (popDrops m r gs) Ans.dropped r g).1,
           { (receive (popDrops m r gs) Ans.dropped r g).2 with ret := .unit }) := by
        simp only [popDrops] at hret
        simp [Writer.step, stepWith, hp, popDrops, hret]
      have e2 : WriterSpec.step s (.deliverDrop r) =
          ((arrive (popped s r ws) w r Ans.dropped).1,
           { (arrive (popped s r ws) w r Ans.dropped).2 with ret := .unit }) := by
        simp [WriterSpec.step, hc, ho, popped]
      rw [e1, e2]
      refine ⟨?_, hpop.2⟩
      rw [hpop.1]

theorem sim_closeW {m : W} {s : S} (hR : Rel m s) :
    (Writer.step m .closeW).2 = (WriterSpec.step s .closeW).2 ∧
      Rel (Writer.step m .closeW).1 (WriterSpec.step s .closeW).1 := by
  by_cases hd : s.done = true
  · have hmd : m.done = true := hR.done.trans hd
    have e1 : Writer.step m .closeW = (m, Out.mk .unit [] []) := by simp [Writer.step, stepWith, hmd]
    have e2 : WriterSpec.step s .closeW = (s, Out.mk .unit [] []) := by simp [WriterSpec.step, hd]
    rw [e1, e2]; exact ⟨rfl, hR⟩
  have hd' : s.done = false := by simpa using hd
  have hmd : m.done = false := hR.done.trans hd'
  have e1 : Writer.step m .closeW =
      ({ m with done := true, readers := [], links := [], rows := [] },
       Out.mk .unit (m.rows.map fun _ => Resp.dropped) []) := by simp [Writer.step, stepWith, hmd]
  have e2 : WriterSpec.step s .closeW =
      ({ s with done := true, linked := [], rows := [], emittedIds := s.emittedIds ++ s.rows.map (·.wid) },
       Out.mk .unit (s.rows.map fun _ => Resp.dropped) []) := by simp [WriterSpec.step, hd']
  rw [e1, e2]
  refine ⟨by rw [hR.rows]; simp, ?_⟩
  refine ⟨rfl, rfl, rfl, hR.closed, rfl, by simp, hR.fifoLe, hR.pendClosed, hR.dropsOpen, ?_, ?_⟩
  · intro r
    have hold := hR.fifo r
    show FifoOK (linkOf { m with done := true, readers := [], links := [], rows := [] } r) (fifo m r) (s.owed r) (owedBy [] r)
    have : linkOf { m with done := true, readers := [], links := [], rows := [] } r = none := by simp [linkOf, indexOf]
    rw [this]
    exact fifoOK_stale (fifoOK_len hold) (by simp)
  · exact ⟨by simp, ⟨by simp, by simp, by simp, by simp⟩, by simp, by simp, hR.inv.owedLt⟩

/-- One step of the model is one step of the specification – every step, from every related
pair of states. -/
theorem sim_step {m : W} {s : S} (hR : Rel m s) (st : Step) :
    (Writer.step m st).2 = (WriterSpec.step s st).2 ∧ Rel (Writer.step m st).1 (WriterSpec.step s st).1 := by
  cases st with
  | link r => exact sim_link hR r
  | unlink r => exact sim_unlink hR r
  | write v => exact sim_write hR v
  | answer r a => exact sim_answer hR r a
  | closeR r => exact sim_closeR hR r
  | deliverDrop r => exact sim_drop hR r
  | closeW => exact sim_closeW hR

theorem sim_run {m : W} {s : S} (hR : Rel m s) (h : List Step) :
    (Writer.runFrom m h).2 = (WriterSpec.runFrom s h).2 ∧
    Rel (Writer.runFrom m h).1 (WriterSpec.runFrom s h).1 := by
  induction h generalizing m s with
  | nil => exact ⟨rfl, hR⟩
  | cons st h ih =>
    obtain ⟨e, hR'⟩ := sim_step hR st
    obtain ⟨i1, i2⟩ := ih hR'
    simp only [Writer.runFrom, WriterSpec.runFrom, e, i1]
    exact ⟨trivial, i2⟩

end Uniflow.WriterProofs
