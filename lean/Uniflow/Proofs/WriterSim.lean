/-
The simulation behind `C01.refines_partial`: every specification state `s` satisfying `Inv`
is seen by the model as `absW s`, and one step of the model from `absW s` is one step of the
specification – provided the step does not re-link an open reader with unanswered requests.
-/
import Uniflow.Proofs.Writer

namespace Uniflow.WriterProofs
open Uniflow.Writer Uniflow.WriterSpec

/-- The model state that corresponds to a specification state: columns instead of reader ids,
counts instead of the queues of write ids. -/
def absW (s : S) : W :=
  { readers := s.linked
    rows := s.rows.map SRow.cells
    done := s.done
    pend := fun r => if s.closed r then 0 else (s.owed r).length
    closed := s.closed
    drops := fun r => if s.closed r then (s.owed r).length else 0 }

/-- What `r` is owed according to the rows agrees with its queue – or `r` is closed and was
re-linked, then no row expects anything from it. -/
def OweOK (s : S) (r : RId) : Prop :=
  owedBy s.rows r = s.owed r ∨ (s.closed r = true ∧ owedBy s.rows r = [])

structure Inv (s : S) : Prop where
  nodup : s.linked.Nodup
  rows : RowsOK s.linked s.nextW s.rows
  owe : ∀ r ∈ s.linked, OweOK s r
  head : ∀ row rest, s.rows = row :: rest → hasNil row.cells = true
  fin : s.done = true → s.linked = []

theorem inv_init : Inv S.init :=
  ⟨by simp [S.init], ⟨by simp [S.init], by simp [S.init], by simp [S.init], by simp [S.init]⟩,
   by simp [S.init], by simp [S.init], by simp [S.init]⟩

theorem absW_init : absW S.init = W.init := by
  simp [absW, S.init, W.init]

theorem W_eq {m m' : W} (h1 : m.readers = m'.readers) (h2 : m.rows = m'.rows) (h3 : m.done = m'.done)
    (h4 : ∀ r, m.pend r = m'.pend r) (h5 : ∀ r, m.closed r = m'.closed r) (h6 : ∀ r, m.drops r = m'.drops r) :
    m = m' := by
  cases m; cases m'
  simp only [W.mk.injEq]
  exact ⟨h1, h2, h3, funext h4, funext h5, funext h6⟩

theorem cfirst_isSome {srows : List SRow} {r : RId} {w : Nat} {rest : List Nat} (a : Ans)
    (ho : owedBy srows r = w :: rest) : ∃ rows', cfirst r a srows = some rows' := by
  induction srows with
  | nil => simp [owedBy] at ho
  | cons row tl ih =>
    rw [owedBy_cons] at ho
    simp only [cfirst]
    split at ho
    · rename_i hr; simp [hr]
    · rename_i hr
      obtain ⟨t', ht⟩ := ih ho
      simp [hr, ht]

theorem readers_nonempty {rows : List SRow} (hc : (rows.map SRow.readers).Pairwise (· <+: ·))
    (hh : ∀ row rest, rows = row :: rest → hasNil row.cells = true) : ∀ p ∈ rows.map SRow.readers, p ≠ [] := by
  intro p hp
  obtain ⟨row, hrow, rfl⟩ := List.mem_map.1 hp
  have := all_nonempty hc hh row hrow
  simpa [SRow.cells, SRow.readers] using this

theorem cells_nonempty_of_readers {rows : List SRow} (h : ∀ p ∈ rows.map SRow.readers, p ≠ []) :
    ∀ row ∈ rows.map SRow.cells, row ≠ [] := by
  intro c hc
  obtain ⟨row, hrow, rfl⟩ := List.mem_map.1 hc
  have := h row.readers (List.mem_map_of_mem hrow)
  simpa [SRow.cells, SRow.readers] using this

theorem indexOf_some_of_mem {r : RId} {l : List RId} (h : r ∈ l) : ∃ i, indexOf r l = some i := by
  cases hi : indexOf r l with
  | none => exact absurd h (indexOf_none.1 hi)
  | some i => exact ⟨i, rfl⟩

def arrived (s : S) (rows' : List SRow) : S :=
  { s with rows := (WriterSpec.flush rows').1, emittedIds := s.emittedIds ++ (WriterSpec.flush rows').2.2 }

/-- An answer / drop notice for write `w` arriving: `(*Writer).receive` against `arrive`. -/
theorem sim_arrive {s : S} (w : Nat) (r : RId) (a : Ans)
    (hnd : s.linked.Nodup) (hrows : RowsOK s.linked s.nextW s.rows)
    (hhead : ∀ row rest, s.rows = row :: rest → hasNil row.cells = true)
    (hfin : s.done = true → s.linked = [])
    (hother : ∀ r' ∈ s.linked, r' ≠ r → OweOK s r')
    (hr : r ∈ s.linked → owedBy s.rows r = w :: s.owed r ∨ (s.closed r = true ∧ owedBy s.rows r = [])) :
    receive (absW s) a r = (absW (arrive s w r a).1, (arrive s w r a).2) ∧ Inv (arrive s w r a).1 := by
  by_cases hd : s.done = true
  · have hl := hfin hd
    refine ⟨by simp [receive, arrive, absW, hd], ?_⟩
    simp only [arrive, hd, if_true]
    exact ⟨hnd, hrows, by simp [hl], hhead, hfin⟩
  have hd' : s.done = false := by simpa using hd
  by_cases hm : r ∈ s.linked
  rotate_left
  · have hi := indexOf_none.2 hm
    refine ⟨by simp [receive, arrive, absW, hd', hm, hi], ?_⟩
    simp only [arrive, hd', hm, not_false_eq_true, if_true, Bool.false_eq_true, if_false]
    exact ⟨hnd, hrows, fun r' hr' => hother r' hr' (fun e => hm (e ▸ hr')), hhead, hfin⟩
  obtain ⟨i, hi⟩ := indexOf_some_of_mem hm
  have hmf := mfill_cfirst a hrows.pref hnd hi
  rcases hr hm with hl | ⟨hc, hn⟩
  · obtain ⟨rows', hcf⟩ := cfirst_isSome a hl
    have hcr := credit_eq_cfirst a hrows.wids hl
    rw [hcf] at hcr
    rw [hcf] at hmf
    obtain ⟨e1, e2, e3, e4⟩ := cfirst_effect hcf
    have hrows' : RowsOK s.linked s.nextW rows' := hrows.of_map_eq e3 e4
    -- the specification's result
    have hinv : Inv (arrived s rows') := by
      refine ⟨hnd, hrows'.flush, ?_, flush_head rows', by simp [arrived, hd']⟩
      intro r'' hr''
      by_cases e : r'' = r
      · subst e
        left
        show owedBy (WriterSpec.flush rows').1 r'' = s.owed r''
        rw [owedBy_flush, e1, hl]; rfl
      · have := hother r'' hr'' e
        simp only [OweOK] at this ⊢
        show owedBy (WriterSpec.flush rows').1 r'' = s.owed r'' ∨
          (s.closed r'' = true ∧ owedBy (WriterSpec.flush rows').1 r'' = [])
        rw [owedBy_flush, e2 r'' e]
        exact this
    have harr : arrive s w r a = (arrived s rows', Out.mk (.ok true) (WriterSpec.flush rows').2.1 []) := by
      simp [arrive, arrived, hd', hm, hcr]
    rw [harr]
    refine ⟨?_, hinv⟩
    cases hih : indexOfHead i (s.rows.map SRow.cells) with
    | panic => exact absurd hih (indexOfHead_ne_panic _ _)
    | notFound =>
      have := indexOfHead_notFound a hih
      rw [hmf] at this; simp at this
    | found h =>
      obtain ⟨mrows', hset, hmf', hne0⟩ := indexOfHead_found a hih
      rw [hmf] at hmf'
      simp only [Option.map_some, Option.some.injEq] at hmf'
      subst hmf'
      by_cases h0 : h = 0
      · have hne : ∀ row ∈ rows'.map SRow.cells, row ≠ [] :=
          cells_nonempty_of_readers (e3 ▸ readers_nonempty hrows.chain hhead)
        have hfl := (flush_false_eq _ hne).trans (mflush_eq rows')
        subst h0
        simp [receive, absW, arrived, hd', hi, hih, hset, hfl]
      · obtain ⟨row, rest, rest', hre, _, hre'⟩ := hne0 h0
        have hflush : WriterSpec.flush rows' = (rows', [], []) := by
          cases hs : s.rows with
          | nil => simp [hs] at hre
          | cons srow srest =>
            have hh := hhead srow srest hs
            simp only [hs, List.map_cons, List.cons.injEq] at hre
            cases rows' with
            | nil => simp at hre'
            | cons srow' srest' =>
              simp only [List.map_cons, List.cons.injEq] at hre'
              apply flush_of_head
              rw [hre'.1, ← hre.1]; exact hh
        simp [receive, absW, arrived, hd', hi, hih, hset, h0, hflush]
  · have := credit_none_of_owedBy_nil w a hn
    rw [this.2] at hmf
    have harr : arrive s w r a = (s, Out.mk (.ok false) [] []) := by
      simp [arrive, hd', hm, this.1]
    rw [harr]
    refine ⟨?_, hnd, hrows, ?_, hhead, hfin⟩
    · cases hih : indexOfHead i (s.rows.map SRow.cells) with
      | panic => exact absurd hih (indexOfHead_ne_panic _ _)
      | notFound => simp [receive, absW, hd', hi, hih]
      | found h =>
        obtain ⟨mrows', _, hmf', _⟩ := indexOfHead_found a hih
        rw [hmf] at hmf'; simp at hmf'
    · intro r' hr'
      by_cases e : r' = r
      · subst e; exact Or.inr ⟨hc, hn⟩
      · exact hother r' hr' e

/-! ### The individual steps -/

theorem owedBy_not_linked {rows : List SRow} {linked : List RId} {r : RId}
    (hp : ∀ p ∈ rows.map SRow.readers, p <+: linked) (hr : r ∉ linked) : owedBy rows r = [] := by
  simp only [owedBy, List.map_eq_nil_iff, List.filter_eq_nil_iff]
  intro row hrow
  have hpre := hp row.readers (List.mem_map_of_mem hrow)
  have : r ∉ row.slots.map Prod.fst := fun h => hr (hpre.subset h)
  rw [owes_def, owesS_not_mem this]; simp

theorem sim_link {s : S} (hI : Inv s) (r : RId) (hn : relinkPending (absW s) (.link r) = false) :
    Writer.step (absW s) (.link r) = (absW (WriterSpec.step s (.link r)).1, (WriterSpec.step s (.link r)).2) ∧
      Inv (WriterSpec.step s (.link r)).1 := by
  by_cases hd : s.done = true
  · exact ⟨by simp [Writer.step, WriterSpec.step, absW, hd], by simpa [WriterSpec.step, hd] using hI⟩
  have hd' : s.done = false := by simpa using hd
  by_cases hm : r ∈ s.linked
  · exact ⟨by simp [Writer.step, WriterSpec.step, absW, hd', hm], by simpa [WriterSpec.step, hd', hm] using hI⟩
  refine ⟨by simp [Writer.step, WriterSpec.step, absW, hd', hm], ?_⟩
  simp only [WriterSpec.step, hd', hm, Bool.false_eq_true, if_false]
  refine ⟨?_, ⟨?_, hI.rows.chain, hI.rows.wids, hI.rows.widlt⟩, ?_, hI.head, by simp [hd']⟩
  · show (s.linked ++ [r]).Nodup
    rw [List.nodup_append]
    refine ⟨hI.nodup, by simp, ?_⟩
    intro a ha b hb
    simp only [List.mem_singleton] at hb
    subst hb
    exact fun e => hm (e ▸ ha)
  · intro p hp
    exact (hI.rows.pref p hp).trans (List.prefix_append _ _)
  · intro r' hr'
    show owedBy s.rows r' = s.owed r' ∨ (s.closed r' = true ∧ owedBy s.rows r' = [])
    have hr'' : r' ∈ s.linked ++ [r] := hr'
    simp only [List.mem_append, List.mem_singleton] at hr''
    rcases hr'' with h | h
    · exact hI.owe r' h
    · subst h
      have h0 := owedBy_not_linked hI.rows.pref hm
      by_cases hc : s.closed r' = true
      · exact Or.inr ⟨hc, h0⟩
      · left
        simp only [relinkPending, absW, hd', hm, hc] at hn
        have : s.owed r' = [] := by simpa using hn
        rw [h0, this]

theorem drop_cells_row {row : SRow} {linked : List RId} {r : RId} {i : Nat}
    (hp : row.readers <+: linked) (hnd : linked.Nodup) (hi : indexOf r linked = some i) :
    (row.drop r).cells = if i < row.cells.length then row.cells.eraseIdx i else row.cells := by
  have hnd' : row.readers.Nodup := hnd.sublist hp.sublist
  have := indexOf_prefix hp hi hnd
  have hlen : row.cells.length = row.readers.length := by simp [SRow.cells, SRow.readers]
  rw [hlen]
  split
  · rename_i hl
    rw [if_pos hl] at this
    exact drop_cells hnd' this
  · rename_i hl
    rw [if_neg hl] at this
    simp only [SRow.cells, SRow.drop]
    rw [drop_none this]

theorem drop_owedBy (rows : List SRow) {r r' : RId} (h : r' ≠ r) :
    owedBy (rows.map (·.drop r)) r' = owedBy rows r' := by
  induction rows with
  | nil => rfl
  | cons row tl ih =>
    simp only [List.map_cons, owedBy_cons, ih]
    have : (row.drop r).owes r' = row.owes r' := drop_owes_other row.slots h
    rw [this]; rfl

theorem sim_unlink {s : S} (hI : Inv s) (r : RId) :
    Writer.step (absW s) (.unlink r) = (absW (WriterSpec.step s (.unlink r)).1, (WriterSpec.step s (.unlink r)).2) ∧
      Inv (WriterSpec.step s (.unlink r)).1 := by
  by_cases hd : s.done = true
  · exact ⟨by simp [Writer.step, WriterSpec.step, absW, hd], by simpa [WriterSpec.step, hd] using hI⟩
  have hd' : s.done = false := by simpa using hd
  by_cases hm : r ∈ s.linked
  rotate_left
  · have hi := indexOf_none.2 hm
    exact ⟨by simp [Writer.step, WriterSpec.step, absW, hd', hm, hi], by simpa [WriterSpec.step, hd', hm] using hI⟩
  obtain ⟨i, hi⟩ := indexOf_some_of_mem hm
  have hcols : eraseCol i (s.rows.map SRow.cells) = (s.rows.map (·.drop r)).map SRow.cells := by
    simp only [eraseCol, List.map_map]
    apply List.map_congr_left
    intro row hrow
    simp only [Function.comp]
    exact (drop_cells_row (hI.rows.pref _ (List.mem_map_of_mem hrow)) hI.nodup hi).symm
  have hfl := mflush_eq (s.rows.map (·.drop r))
  have hrd := filter_ne_eq_eraseIdx hi hI.nodup
  have hrd' : List.filter (fun x => !decide (x = r)) s.linked = s.linked.eraseIdx i := by simpa using hrd
  simp only [List.map_map] at hfl hcols
  refine ⟨by simp [Writer.step, WriterSpec.step, absW, hd', hm, hi, hcols, hfl, hrd'], ?_⟩
  simp only [WriterSpec.step, hd', hm, Bool.false_eq_true, if_false, not_true_eq_false]
  have hreaders : (s.rows.map (·.drop r)).map SRow.readers = (s.rows.map SRow.readers).map (·.filter (· ≠ r)) := by
    simp only [List.map_map]
    apply List.map_congr_left
    intro row _
    exact drop_readers row.slots r
  have hwid : (s.rows.map (·.drop r)).map (·.wid) = s.rows.map (·.wid) := by
    simp only [List.map_map]; rfl
  have hok : RowsOK (s.linked.filter (· ≠ r)) s.nextW (s.rows.map (·.drop r)) := by
    refine ⟨?_, ?_, hwid ▸ hI.rows.wids, hwid ▸ hI.rows.widlt⟩
    · rw [hreaders]
      intro p hp
      obtain ⟨q, hq, rfl⟩ := List.mem_map.1 hp
      exact (hI.rows.pref q hq).filter _
    · rw [hreaders, List.pairwise_map]
      exact hI.rows.chain.imp fun h => h.filter _
  refine ⟨hI.nodup.filter _, hok.flush, ?_, flush_head _, by simp [hd']⟩
  intro r' hr'
  have hr'' : r' ∈ s.linked.filter (· ≠ r) := hr'
  simp only [List.mem_filter, decide_eq_true_eq] at hr''
  have := hI.owe r' hr''.1
  simp only [OweOK] at this
  show owedBy (WriterSpec.flush (s.rows.map (·.drop r))).1 r' = s.owed r' ∨
    (s.closed r' = true ∧ owedBy (WriterSpec.flush (s.rows.map (·.drop r))).1 r' = [])
  rw [owedBy_flush, drop_owedBy _ hr''.2]
  exact this

theorem mem_accepting {closed : RId → Bool} {l : List RId} {r : RId} :
    r ∈ accepting closed l ↔ r ∈ l ∧ closed r = false := by
  simp [accepting]

/-- The row a write creates owes exactly the open linked readers. -/
theorem newSlots_owes (closed : RId → Bool) (l : List RId) (r : RId) :
    owesS (l.map fun x => (x, if closed x then some Ans.none else none)) r = (decide (r ∈ l) && !closed r) := by
  induction l with
  | nil => simp [owesS]
  | cons x xs ih =>
    simp only [owesS] at ih
    simp only [owesS, List.map_cons, List.any_cons, ih, List.mem_cons]
    by_cases hx : x = r
    · subst hx; cases closed x <;> simp
    · have : (x == r) = false := by simpa using hx
      have h2 : ¬ r = x := fun e => hx e.symm
      simp [this, h2]

def newSRow (s : S) : SRow :=
  { wid := s.nextW, slots := s.linked.map fun r => (r, if s.closed r then some Ans.none else none) }

theorem sim_write {s : S} (hI : Inv s) (v : Nat) :
    Writer.step (absW s) (.write v) = (absW (WriterSpec.step s (.write v)).1, (WriterSpec.step s (.write v)).2) ∧
      Inv (WriterSpec.step s (.write v)).1 := by
  by_cases hd : s.done = true
  · exact ⟨by simp [Writer.step, WriterSpec.step, absW, hd], by simpa [WriterSpec.step, hd] using hI⟩
  have hd' : s.done = false := by simpa using hd
  by_cases hacc : (accepting s.closed s.linked).length > 0
  rotate_left
  · have hnil : accepting s.closed s.linked = [] := by
      cases h : accepting s.closed s.linked with
      | nil => rfl
      | cons a t => simp [h] at hacc
    refine ⟨?_, by simpa [WriterSpec.step, hd', hnil] using hI⟩
    simp only [Writer.step, WriterSpec.step, absW, hd', hnil, List.length_nil, Nat.lt_irrefl, if_false,
      Bool.false_eq_true, List.not_mem_nil]
    split <;> rfl
  have hne : s.linked.isEmpty = false := by
    cases h : s.linked with
    | nil => simp [h, accepting] at hacc
    | cons a t => rfl
  have hstep : WriterSpec.step s (.write v) =
      ({ s with rows := s.rows ++ [newSRow s],
                owed := fun r => if r ∈ accepting s.closed s.linked then s.owed r ++ [s.nextW] else s.owed r,
                nextW := s.nextW + 1 },
       Out.mk (.cnt (accepting s.closed s.linked).length) [] ((accepting s.closed s.linked).map fun r => (r, v))) := by
    simp [WriterSpec.step, hd', hacc, newSRow]
  rw [hstep]
  constructor
  · simp only [Writer.step, absW, hd', hne, hacc, if_true, Bool.false_eq_true, if_false]
    refine Prod.ext (W_eq rfl ?_ rfl ?_ (fun _ => rfl) ?_) rfl
    · simp [newSRow, SRow.cells, newRow]
    · intro r
      by_cases hr : r ∈ accepting s.closed s.linked
      · have := (mem_accepting.1 hr).2
        simp [hr, this]
      · simp [hr]
    · intro r
      by_cases hr : r ∈ accepting s.closed s.linked
      · have := (mem_accepting.1 hr).2
        simp [hr, this]
      · simp [hr]
  · have hreaders : (newSRow s).readers = s.linked := by
      simp [newSRow, SRow.readers, List.map_map, Function.comp_def]
    refine ⟨hI.nodup, ⟨?_, ?_, ?_, ?_⟩, ?_, ?_, by simp [hd']⟩
    · intro p hp
      simp only [List.map_append, List.mem_append, List.map_cons, List.map_nil, List.mem_singleton] at hp
      rcases hp with hp | hp
      · exact hI.rows.pref p hp
      · rw [hp, hreaders]; exact List.prefix_refl _
    · simp only [List.map_append, List.map_cons, List.map_nil, List.pairwise_append, List.pairwise_cons,
        List.Pairwise.nil, List.mem_singleton]
      refine ⟨hI.rows.chain, ⟨by simp, trivial⟩, ?_⟩
      intro p hp q hq
      rw [hq, hreaders]; exact hI.rows.pref p hp
    · simp only [List.map_append, List.map_cons, List.map_nil, List.pairwise_append, List.pairwise_cons,
        List.Pairwise.nil, List.mem_singleton]
      refine ⟨hI.rows.wids, ⟨by simp, trivial⟩, ?_⟩
      intro w hw q hq
      rw [hq]; exact hI.rows.widlt w hw
    · intro w hw
      simp only [List.map_append, List.mem_append, List.map_cons, List.map_nil, List.mem_singleton] at hw
      rcases hw with hw | hw
      · exact Nat.lt_succ_of_lt (hI.rows.widlt w hw)
      · rw [hw]; exact Nat.lt_succ_self _
    · intro r hr
      have hnew : (newSRow s).owes r = !s.closed r := by
        rw [owes_def]
        have := newSlots_owes s.closed s.linked r
        simp only [newSRow]
        rw [this]; simp [show r ∈ s.linked from hr]
      show owedBy (s.rows ++ [newSRow s]) r = (if r ∈ accepting s.closed s.linked then s.owed r ++ [s.nextW] else s.owed r) ∨
        (s.closed r = true ∧ owedBy (s.rows ++ [newSRow s]) r = [])
      rw [owedBy_append, owedBy_cons, hnew]
      have hold := hI.owe r hr
      simp only [OweOK] at hold
      by_cases hc : s.closed r = true
      · have : r ∉ accepting s.closed s.linked := fun h => by simp [(mem_accepting.1 h).2] at hc
        have hnil : owedBy [] r = [] := rfl
        simp only [hc, Bool.not_true, Bool.false_eq_true, if_false, this, hnil, List.append_nil]
        simpa [hc] using hold
      · have hc' : s.closed r = false := by simpa using hc
        have : r ∈ accepting s.closed s.linked := mem_accepting.2 ⟨hr, hc'⟩
        left
        rcases hold with h | h
        · have hnil : owedBy [] r = [] := rfl
          simp [hc', this, h, hnil, newSRow]
        · exact absurd h.1 hc
    · intro row rest he
      cases hs : s.rows with
      | nil =>
        simp only [hs, List.nil_append, List.cons.injEq] at he
        rw [← he.1]
        obtain ⟨a, ha⟩ : ∃ a, a ∈ accepting s.closed s.linked := by
          cases h : accepting s.closed s.linked with
          | nil => simp [h] at hacc
          | cons a t => exact ⟨a, by simp⟩
        have ha' := mem_accepting.1 ha
        simp only [hasNil, newSRow, SRow.cells, List.map_map, List.any_map, List.any_eq_true]
        exact ⟨a, ha'.1, by simp [ha'.2]⟩
      | cons r0 t0 =>
        simp only [hs, List.cons_append, List.cons.injEq] at he
        rw [← he.1]
        exact hI.head r0 t0 hs

/-- The specification state after reader `r` popped the head of its queue. -/
def popped (s : S) (r : RId) (rest : List Nat) : S :=
  { s with owed := fun x => if x = r then rest else s.owed x }

theorem arrive_ret (s : S) (w : Nat) (r : RId) (a : Ans) : ∃ b, (arrive s w r a).2.ret = .ok b := by
  simp only [arrive]
  split
  · exact ⟨_, rfl⟩
  · split
    · exact ⟨_, rfl⟩
    · split <;> exact ⟨_, rfl⟩

theorem sim_answer {s : S} (hI : Inv s) (r : RId) (a : Ans) :
    Writer.step (absW s) (.answer r a) = (absW (WriterSpec.step s (.answer r a)).1, (WriterSpec.step s (.answer r a)).2) ∧
      Inv (WriterSpec.step s (.answer r a)).1 := by
  by_cases hc : s.closed r = true
  · exact ⟨by simp [Writer.step, WriterSpec.step, absW, hc], by simpa [WriterSpec.step, hc] using hI⟩
  have hc' : s.closed r = false := by simpa using hc
  cases ho : s.owed r with
  | nil => exact ⟨by simp [Writer.step, WriterSpec.step, absW, hc', ho], by simpa [WriterSpec.step, hc', ho] using hI⟩
  | cons w rest =>
    have hspec : WriterSpec.step s (.answer r a) = arrive (popped s r rest) w r a := by
      simp [WriterSpec.step, hc', ho, popped]
    have hmodel : Writer.step (absW s) (.answer r a) = receive (absW (popped s r rest)) a r := by
      simp only [Writer.step, absW, hc', ho, Bool.false_eq_true, if_false, List.length_cons, Nat.succ_ne_zero]
      congr 1
      refine W_eq rfl rfl rfl ?_ (fun _ => rfl) ?_
      · intro x
        by_cases hx : x = r
        · subst hx; simp [popped, hc']
        · simp [popped, hx]
      · intro x
        by_cases hx : x = r
        · subst hx; simp [popped, hc']
        · simp [popped, hx]
    rw [hspec, hmodel]
    apply sim_arrive (s := popped s r rest) w r a hI.nodup hI.rows hI.head hI.fin
    · intro r' hr' hne
      have := hI.owe r' hr'
      simpa [OweOK, popped, hne] using this
    · intro hr
      left
      rcases hI.owe r hr with h | h
      · show owedBy s.rows r = w :: (if r = r then rest else s.owed r)
        rw [h, ho]; simp
      · exact absurd h.1 hc

theorem sim_closeR {s : S} (hI : Inv s) (r : RId) :
    Writer.step (absW s) (.closeR r) = (absW (WriterSpec.step s (.closeR r)).1, (WriterSpec.step s (.closeR r)).2) ∧
      Inv (WriterSpec.step s (.closeR r)).1 := by
  by_cases hc : s.closed r = true
  · exact ⟨by simp [Writer.step, WriterSpec.step, absW, hc], by simpa [WriterSpec.step, hc] using hI⟩
  have hc' : s.closed r = false := by simpa using hc
  constructor
  · simp only [Writer.step, WriterSpec.step, absW, hc', Bool.false_eq_true, if_false]
    refine Prod.ext (W_eq rfl rfl rfl ?_ (fun _ => rfl) ?_) rfl
    · intro x
      by_cases hx : x = r
      · subst hx; simp
      · simp [hx]
    · intro x
      by_cases hx : x = r
      · subst hx; simp [hc']
      · simp [hx]
  · simp only [WriterSpec.step, hc', Bool.false_eq_true, if_false]
    refine ⟨hI.nodup, hI.rows, ?_, hI.head, hI.fin⟩
    intro r' hr'
    rcases hI.owe r' hr' with h | h
    · exact Or.inl h
    · refine Or.inr ⟨?_, h.2⟩
      show (if r' = r then true else s.closed r') = true
      split
      · rfl
      · exact h.1

theorem sim_drop {s : S} (hI : Inv s) (r : RId) :
    Writer.step (absW s) (.deliverDrop r) =
        (absW (WriterSpec.step s (.deliverDrop r)).1, (WriterSpec.step s (.deliverDrop r)).2) ∧
      Inv (WriterSpec.step s (.deliverDrop r)).1 := by
  by_cases hc : s.closed r = true
  rotate_left
  · have hc' : s.closed r = false := by simpa using hc
    exact ⟨by simp [Writer.step, WriterSpec.step, absW, hc'], by simpa [WriterSpec.step, hc'] using hI⟩
  cases ho : s.owed r with
  | nil => exact ⟨by simp [Writer.step, WriterSpec.step, absW, hc, ho], by simpa [WriterSpec.step, hc, ho] using hI⟩
  | cons w rest =>
    have hmodel : { absW s with drops := fun x => if x = r then (absW s).drops r - 1 else (absW s).drops x }
        = absW (popped s r rest) := by
      refine W_eq rfl rfl rfl ?_ (fun _ => rfl) ?_
      · intro x
        by_cases hx : x = r
        · subst hx; simp [absW, popped, hc]
        · simp [absW, popped, hx]
      · intro x
        by_cases hx : x = r
        · subst hx; simp [absW, popped, hc, ho]
        · simp [absW, popped, hx]
    have hsim := sim_arrive (s := popped s r rest) w r Ans.dropped hI.nodup hI.rows hI.head hI.fin
      (by
        intro r' hr' hne
        have := hI.owe r' hr'
        simpa [OweOK, popped, hne] using this)
      (by
        intro hr
        rcases hI.owe r hr with h | h
        · left
          show owedBy s.rows r = w :: (if r = r then rest else s.owed r)
          rw [h, ho]; simp
        · exact Or.inr h)
    obtain ⟨b, hb⟩ := arrive_ret (popped s r rest) w r Ans.dropped
    have hd0 : (absW s).drops r ≠ 0 := by simp [absW, hc, ho]
    constructor
    · simp only [Writer.step, hd0, if_false]
      rw [hmodel, hsim.1]
      have hb' := hb
      simp only [popped] at hb'
      simp [WriterSpec.step, hc, ho, popped, hb']
    · have : (WriterSpec.step s (.deliverDrop r)).1 = (arrive (popped s r rest) w r Ans.dropped).1 := by
        simp [WriterSpec.step, hc, ho, popped]
      rw [this]; exact hsim.2

theorem sim_closeW {s : S} (hI : Inv s) :
    Writer.step (absW s) .closeW = (absW (WriterSpec.step s .closeW).1, (WriterSpec.step s .closeW).2) ∧
      Inv (WriterSpec.step s .closeW).1 := by
  by_cases hd : s.done = true
  · exact ⟨by simp [Writer.step, WriterSpec.step, absW, hd], by simpa [WriterSpec.step, hd] using hI⟩
  have hd' : s.done = false := by simpa using hd
  refine ⟨by simp [Writer.step, WriterSpec.step, absW, hd'], ?_⟩
  simp only [WriterSpec.step, hd', Bool.false_eq_true, if_false]
  exact ⟨by simp, ⟨by simp, by simp, by simp, by simp⟩, by simp, by simp, by simp⟩

/-- One step of the model from `absW s` is one step of the specification from `s`, unless the
step re-links an open reader that still has unanswered requests. -/
theorem sim_step {s : S} (hI : Inv s) (st : Step) (hn : relinkPending (absW s) st = false) :
    Writer.step (absW s) st = (absW (WriterSpec.step s st).1, (WriterSpec.step s st).2) ∧
      Inv (WriterSpec.step s st).1 := by
  cases st with
  | link r => exact sim_link hI r hn
  | unlink r => exact sim_unlink hI r
  | write v => exact sim_write hI v
  | answer r a => exact sim_answer hI r a
  | closeR r => exact sim_closeR hI r
  | deliverDrop r => exact sim_drop hI r
  | closeW => exact sim_closeW hI

theorem sim_run {s : S} (hI : Inv s) (h : List Step) (hn : NoRelink (absW s) h) :
    (Writer.runFrom (absW s) h).2 = (WriterSpec.runFrom s h).2 ∧
    (Writer.runFrom (absW s) h).1 = absW (WriterSpec.runFrom s h).1 ∧ Inv (WriterSpec.runFrom s h).1 := by
  induction h generalizing s with
  | nil => exact ⟨rfl, rfl, hI⟩
  | cons st h ih =>
    obtain ⟨h1, h2⟩ := hn
    obtain ⟨e, hI'⟩ := sim_step hI st h1
    have e1 : (Writer.step (absW s) st).1 = absW (WriterSpec.step s st).1 := by rw [e]
    have e2 : (Writer.step (absW s) st).2 = (WriterSpec.step s st).2 := by rw [e]
    rw [e1] at h2
    obtain ⟨i1, i2, i3⟩ := ih hI' h2
    simp only [Writer.runFrom, WriterSpec.runFrom, e1, e2, i1, i2]
    exact ⟨trivial, trivial, i3⟩

end Uniflow.WriterProofs
