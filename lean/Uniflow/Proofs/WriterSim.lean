/-
The simulation behind `C01.refines`: the index-addressed model (`Uniflow.Writer`, with link
generations) and the id-keyed specification (`Uniflow.WriterSpec`) are related by `Rel`, and one
step of the model from a related state is one step of the specification – for every step.

The model's queues hold (link generation, write number) pairs, the specification's hold write
ids; write numbers ARE write ids (`Writer.written` = `nextW`), so the queues – and the answers in
flight between `Reader.Receive`'s pop and `(*Writer).receive` – correspond entry by entry.  The
only thing the model checks in addition is the link generation; `Rel.ent` says it always agrees
when the row of the write still has a slot of the reader.
-/
import Uniflow.Proofs.Writer

namespace Uniflow.WriterProofs
open Uniflow.Writer Uniflow.WriterSpec

/-! ### Link generations -/

/-- `linkOf` by recursion on the two parallel lists. -/
def linkAt (r : RId) : List RId → List Nat → Option Nat
  | x :: xs, g :: gs => if x = r then some g else linkAt r xs gs
  | _, _ => none

theorem linkOf_eq (m : W) (r : RId) : linkOf m r = linkAt r m.readers m.links := by
  simp only [linkOf]
  generalize m.readers = xs
  generalize m.links = gs
  induction xs generalizing gs with
  | nil => simp [indexOf, linkAt]
  | cons x xs ih =>
    cases gs with
    | nil =>
      simp only [indexOf, linkAt]
      split
      · simp
      · cases indexOf r xs <;> simp
    | cons g gs =>
      simp only [indexOf, linkAt]
      by_cases hx : x = r
      · simp [hx]
      · simp only [hx, if_false]
        rw [← ih gs]
        cases indexOf r xs <;> simp

theorem linkAt_not_mem {r : RId} {xs : List RId} (gs : List Nat) (h : r ∉ xs) : linkAt r xs gs = none := by
  induction xs generalizing gs with
  | nil => simp [linkAt]
  | cons x xs ih =>
    cases gs with
    | nil => simp [linkAt]
    | cons g gs =>
      simp only [List.mem_cons, not_or] at h
      have hx : ¬ x = r := fun e => h.1 e.symm
      simp only [linkAt, hx, if_false]
      exact ih gs h.2

theorem linkAt_mem {r : RId} {xs : List RId} {gs : List Nat} {g : Nat} (h : linkAt r xs gs = some g) : g ∈ gs := by
  induction xs generalizing gs with
  | nil => simp [linkAt] at h
  | cons x xs ih =>
    cases gs with
    | nil => simp [linkAt] at h
    | cons g' gs =>
      simp only [linkAt] at h
      split at h
      · injection h with h; simp [h]
      · simp [ih h]

theorem linkAt_some_of_mem {r : RId} {xs : List RId} {gs : List Nat} (h : r ∈ xs) (hl : gs.length = xs.length) :
    ∃ g, linkAt r xs gs = some g := by
  induction xs generalizing gs with
  | nil => cases h
  | cons x xs ih =>
    cases gs with
    | nil => simp at hl
    | cons g' gs =>
      simp only [linkAt]
      by_cases hx : x = r
      · exact ⟨g', by simp [hx]⟩
      · simp only [hx, if_false]
        simp only [List.mem_cons] at h
        rcases h with h | h
        · exact absurd h.symm hx
        · exact ih h (by simpa using hl)

theorem linkAt_append {r y : RId} {xs : List RId} {gs : List Nat} (g : Nat) (hl : gs.length = xs.length) :
    linkAt r (xs ++ [y]) (gs ++ [g]) =
      match linkAt r xs gs with
      | some l => some l
      | none => if y = r then some g else none := by
  induction xs generalizing gs with
  | nil =>
    cases gs with
    | nil => simp [linkAt]
    | cons _ _ => simp at hl
  | cons x xs ih =>
    cases gs with
    | nil => simp at hl
    | cons g' gs =>
      simp only [List.cons_append, linkAt]
      by_cases hx : x = r
      · simp [hx]
      · simp only [hx, if_false]
        exact ih (by simpa using hl)

theorem linkAt_eraseIdx {r r' : RId} {xs : List RId} (gs : List Nat) {i : Nat} (hi : indexOf r xs = some i)
    (hne : r' ≠ r) : linkAt r' (xs.eraseIdx i) (gs.eraseIdx i) = linkAt r' xs gs := by
  induction xs generalizing gs i with
  | nil => simp [indexOf] at hi
  | cons x xs ih =>
    simp only [indexOf] at hi
    split at hi
    · rename_i hx
      injection hi with hi; subst hi
      cases gs with
      | nil => simp [linkAt]
      | cons g gs =>
        simp only [List.eraseIdx_zero, List.tail_cons, linkAt]
        rw [if_neg (fun e => hne (e.symm.trans hx))]
    · rename_i hx
      simp only [Option.map_eq_some_iff] at hi
      obtain ⟨j, hj, rfl⟩ := hi
      cases gs with
      | nil => simp [linkAt]
      | cons g gs =>
        simp only [List.eraseIdx_cons_succ, linkAt]
        rw [ih gs hj]

/-! ### The relation -/

/-- The reader's queue as the writer sees it: its requests while it is open, the drop notices in
flight once it is closed – (link generation, write number). -/
def fifo (m : W) (r : RId) : List (Nat × Nat) := if m.closed r then m.drops r else m.pend r

/-- Everything reader `r` still has out for this writer: queue entries and answers in flight. -/
def entries (m : W) (r : RId) : List (Nat × Nat) := fifo m r ++ (m.flight r).map (·.2)

/-- The pending row of write `w` has a slot of reader `r` (r was linked when `w` was written and
has not been unlinked since). -/
def hasSlot (rows : List SRow) (w : Nat) (r : RId) : Prop := ∃ row ∈ rows, row.wid = w ∧ r ∈ row.readers

structure Core (s : S) : Prop where
  nodup : s.linked.Nodup
  rows : RowsOK s.linked s.nextW s.rows
  head : ∀ row rest, s.rows = row :: rest → hasNil row.cells = true
  fin : s.done = true → s.linked = []
  finRows : s.done = true → s.rows = []

structure Inv (s : S) : Prop extends Core s where
  owedLt : ∀ r, ∀ w ∈ s.owed r, w < s.nextW
  flightLt : ∀ r, ∀ e ∈ s.flight r, e.2 < s.nextW
  /-- every answer a pending row waits for is on its way: in the reader's queue or in flight -/
  backed : ∀ r, ∀ w ∈ owedBy s.rows r, w ∈ s.owed r ∨ ∃ a, (a, w) ∈ s.flight r

structure Rel (m : W) (s : S) : Prop where
  readers : m.readers = s.linked
  rows : m.rows = s.rows.map SRow.cells
  writes : m.writes = s.rows.map (·.wid)
  written : m.written = s.nextW
  done : m.done = s.done
  closed : m.closed = s.closed
  linksLen : m.links.length = m.readers.length
  pendClosed : ∀ r, m.closed r = true → m.pend r = []
  dropsOpen : ∀ r, m.closed r = false → m.drops r = []
  queue : ∀ r, (fifo m r).map Prod.snd = s.owed r
  flight : ∀ r, (m.flight r).map (fun e => (e.1, e.2.2)) = s.flight r
  ent : ∀ r, ∀ e ∈ entries m r, hasSlot s.rows e.2 r → linkOf m r = some e.1
  inv : Inv s

theorem rel_init : Rel W.init S.init := by
  refine ⟨rfl, rfl, rfl, rfl, rfl, rfl, rfl, fun _ _ => rfl, fun _ _ => rfl, ?_, ?_, ?_, ?_⟩
  · intro r; simp [W.init, S.init, fifo]
  · intro r; simp [W.init, S.init]
  · intro r e he; simp [W.init, entries, fifo] at he
  · exact ⟨⟨by simp [S.init], ⟨by simp [S.init], by simp [S.init], by simp [S.init], by simp [S.init]⟩,
      by simp [S.init], by simp [S.init], by simp [S.init]⟩, by simp [S.init], by simp [S.init], by simp [S.init, owedBy]⟩

/-! ### Helper lemmas on rows -/

theorem cfirst_isSome {srows : List SRow} {r : RId} {w : Nat} {rest : List Nat} (a : Fill)
    (ho : owedBy srows r = w :: rest) : ∃ rows', cfirst r a srows = some rows' := by
  induction srows with
  | nil => simp [owedBy] at ho
  | cons row tl ih =>
    rw [owedBy_cons] at ho
    simp only [cfirst]
    split at ho
    · rename_i hr; simp [hr]
    · rename_i hr
      obtain ⟨t', ht⟩ := ih ho
      simp [hr, ht]

theorem readers_nonempty {rows : List SRow} (hc : (rows.map SRow.readers).Pairwise (· <+: ·))
    (hh : ∀ row rest, rows = row :: rest → hasNil row.cells = true) : ∀ p ∈ rows.map SRow.readers, p ≠ [] := by
  intro p hp
  obtain ⟨row, hrow, rfl⟩ := List.mem_map.1 hp
  have := all_nonempty hc hh row hrow
  simpa [SRow.cells, SRow.readers] using this

theorem cells_nonempty_of_readers {rows : List SRow} (h : ∀ p ∈ rows.map SRow.readers, p ≠ []) :
    ∀ row ∈ rows.map SRow.cells, row ≠ [] := by
  intro c hc
  obtain ⟨row, hrow, rfl⟩ := List.mem_map.1 hc
  have := h row.readers (List.mem_map_of_mem hrow)
  simpa [SRow.cells, SRow.readers] using this

theorem indexOf_some_of_mem {r : RId} {l : List RId} (h : r ∈ l) : ∃ i, indexOf r l = some i := by
  cases hi : indexOf r l with
  | none => exact absurd h (indexOf_none.1 hi)
  | some i => exact ⟨i, rfl⟩


theorem owedBy_not_linked {rows : List SRow} {linked : List RId} {r : RId}
    (hp : ∀ p ∈ rows.map SRow.readers, p <+: linked) (hr : r ∉ linked) : owedBy rows r = [] := by
  simp only [owedBy, List.map_eq_nil_iff, List.filter_eq_nil_iff]
  intro row hrow
  have hpre := hp row.readers (List.mem_map_of_mem hrow)
  have : r ∉ row.slots.map Prod.fst := fun h => hr (hpre.subset h)
  rw [owes_def, owesS_not_mem this]; simp


theorem drop_cells_row {row : SRow} {linked : List RId} {r : RId} {i : Nat}
    (hp : row.readers <+: linked) (hnd : linked.Nodup) (hi : indexOf r linked = some i) :
    (row.drop r).cells = if i < row.cells.length then row.cells.eraseIdx i else row.cells := by
  have hnd' : row.readers.Nodup := hnd.sublist hp.sublist
  have := indexOf_prefix hp hi hnd
  have hlen : row.cells.length = row.readers.length := by simp [SRow.cells, SRow.readers]
  rw [hlen]
  split
  · rename_i hl
    rw [if_pos hl] at this
    exact drop_cells hnd' this
  · rename_i hl
    rw [if_neg hl] at this
    simp only [SRow.cells, SRow.drop]
    rw [drop_none this]

theorem drop_owedBy (rows : List SRow) {r r' : RId} (h : r' ≠ r) :
    owedBy (rows.map (·.drop r)) r' = owedBy rows r' := by
  induction rows with
  | nil => rfl
  | cons row tl ih =>
    simp only [List.map_cons, owedBy_cons, ih]
    have : (row.drop r).owes r' = row.owes r' := drop_owes_other row.slots h
    rw [this]; rfl


theorem mem_accepting {closed : RId → Bool} {l : List RId} {r : RId} :
    r ∈ accepting closed l ↔ r ∈ l ∧ closed r = false := by
  simp [accepting]

/-- The row a write creates owes exactly the open linked readers. -/
theorem newSlots_owes (closed : RId → Bool) (l : List RId) (r : RId) :
    owesS (l.map fun x => (x, if closed x then some none else none)) r = (decide (r ∈ l) && !closed r) := by
  induction l with
  | nil => simp [owesS]
  | cons x xs ih =>
    simp only [owesS] at ih
    simp only [owesS, List.map_cons, List.any_cons, ih, List.mem_cons]
    by_cases hx : x = r
    · subst hx; cases closed x <;> simp
    · have : (x == r) = false := by simpa using hx
      have h2 : ¬ r = x := fun e => hx e.symm
      simp [this, h2]

def newSRow (s : S) : SRow :=
  { wid := s.nextW, slots := s.linked.map fun r => (r, if s.closed r then some none else none) }


theorem arrive_ret (s : S) (w : Nat) (r : RId) (a : Ans) : ∃ b, (arrive s w r a).2.ret = .ok b := by
  simp only [arrive]
  split
  · exact ⟨_, rfl⟩
  · split
    · exact ⟨_, rfl⟩
    · split <;> exact ⟨_, rfl⟩


theorem credit_mem {w : Nat} {r : RId} {a : Fill} {rows rows' : List SRow} (h : credit w r a rows = some rows') :
    w ∈ owedBy rows r := by
  induction rows generalizing rows' with
  | nil => simp [credit] at h
  | cons row tl ih =>
    simp only [credit] at h
    rw [owedBy_cons]
    split at h
    · rename_i hw
      split at h
      · rename_i ho; simp [ho, hw]
      · simp at h
    · cases hc : credit w r a tl with
      | none => simp [hc] at h
      | some tl' =>
        have := ih hc
        split <;> simp [this]


/-! ### An answer or drop notice arriving -/

theorem arrive_fields (s : S) (w : Nat) (r : RId) (a : Ans) :
    (arrive s w r a).1.linked = s.linked ∧ (arrive s w r a).1.done = s.done ∧
    (arrive s w r a).1.closed = s.closed ∧ (arrive s w r a).1.owed = s.owed ∧
    (arrive s w r a).1.nextW = s.nextW ∧ (arrive s w r a).1.flight = s.flight := by
  simp only [arrive]
  split
  · exact ⟨rfl, rfl, rfl, rfl, rfl, rfl⟩
  split
  · exact ⟨rfl, rfl, rfl, rfl, rfl, rfl⟩
  split <;> exact ⟨rfl, rfl, rfl, rfl, rfl, rfl⟩

theorem W_rows_self {m : W} {x : List Row} {y : List Nat} (h : m.rows = x) (h' : m.writes = y) :
    { m with rows := x, writes := y } = m := by
  cases m; simp only at h h'; subst h; subst h'; rfl

def arrived (s : S) (rows' : List SRow) : S :=
  { s with rows := (WriterSpec.flush rows').1, emittedIds := s.emittedIds ++ (WriterSpec.flush rows').2.2 }

theorem flush_wids_drop (rows : List SRow) :
    (rows.map (·.wid)).drop (WriterSpec.flush rows).2.1.length = (WriterSpec.flush rows).1.map (·.wid) := by
  induction rows with
  | nil => rfl
  | cons row tl ih =>
    simp only [WriterSpec.flush]
    split
    · simp
    · simpa using ih

/-- The keys (write id, readers) of the rows: all that `hasSlot`, `RowsOK` depend on. -/
def keys (rows : List SRow) : List (Nat × List RId) := rows.map fun row => (row.wid, row.readers)

theorem hasSlot_keys {rows : List SRow} {w : Nat} {r : RId} :
    hasSlot rows w r ↔ ∃ p ∈ keys rows, p.1 = w ∧ r ∈ p.2 := by
  simp only [hasSlot, keys, List.mem_map]
  constructor
  · rintro ⟨row, hm, h1, h2⟩; exact ⟨_, ⟨row, hm, rfl⟩, h1, h2⟩
  · rintro ⟨p, ⟨row, hm, rfl⟩, h1, h2⟩; exact ⟨row, hm, h1, h2⟩

theorem credit_keys {w : Nat} {r : RId} {a : Fill} {rows rows' : List SRow} (h : credit w r a rows = some rows') :
    keys rows' = keys rows := by
  induction rows generalizing rows' with
  | nil => simp [credit] at h
  | cons row tl ih =>
    simp only [credit] at h
    split at h
    · split at h
      · injection h with h; subst h
        simp only [keys, List.map_cons, List.cons.injEq, and_true]
        exact Prod.ext rfl (fill_readers' row r a)
      · simp at h
    · cases hc : credit w r a tl with
      | none => simp [hc] at h
      | some tl' =>
        simp only [hc, Option.map_some, Option.some.injEq] at h; subst h
        have := ih hc
        simp only [keys] at this ⊢
        simp [this]

theorem hasSlot_suffix {pre rows : List SRow} {w : Nat} {r : RId} (h : hasSlot rows w r) : hasSlot (pre ++ rows) w r := by
  obtain ⟨row, hm, h1, h2⟩ := h
  exact ⟨row, by simp [hm], h1, h2⟩

theorem hasSlot_flush {rows : List SRow} {w : Nat} {r : RId} (h : hasSlot (WriterSpec.flush rows).1 w r) :
    hasSlot rows w r := by
  obtain ⟨pre, h1, _⟩ := flush_spec rows
  rw [h1]; exact hasSlot_suffix h

/-- What `credit` does to the rows owing a reader. -/
theorem credit_owedBy {w : Nat} {r : RId} {a : Fill} {rows rows' : List SRow} (h : credit w r a rows = some rows')
    (hw : (rows.map (·.wid)).Pairwise (· < ·)) :
    (∀ r', r' ≠ r → owedBy rows' r' = owedBy rows r') ∧
    (∀ w' ∈ owedBy rows' r, w' ∈ owedBy rows r ∧ w' ≠ w) := by
  induction rows generalizing rows' with
  | nil => simp [credit] at h
  | cons row tl ih =>
    simp only [List.map_cons, List.pairwise_cons] at hw
    simp only [credit] at h
    split at h
    · rename_i hwid
      split at h
      · rename_i ho
        injection h with h; subst h
        constructor
        · intro r' hne
          rw [owedBy_cons, owedBy_cons]
          have : (row.fill r a).owes r' = row.owes r' := fill_owes_other row.slots a hne
          rw [this]; rfl
        · intro w' hw'
          rw [owedBy_cons] at hw'
          have : (row.fill r a).owes r = false := fill_owes_self row.slots r a
          simp only [this, Bool.false_eq_true, if_false] at hw'
          refine ⟨by rw [owedBy_cons]; split <;> simp [hw'], ?_⟩
          have := hw.1 w' (owedBy_sub tl r w' hw')
          omega
      · simp at h
    · rename_i hwid
      cases hc : credit w r a tl with
      | none => simp [hc] at h
      | some tl' =>
        simp only [hc, Option.map_some, Option.some.injEq] at h; subst h
        obtain ⟨h1, h2⟩ := ih hc hw.2
        constructor
        · intro r' hne
          rw [owedBy_cons, owedBy_cons, h1 r' hne]
        · intro w' hw'
          rw [owedBy_cons] at hw' ⊢
          split at hw'
          · rename_i ho
            simp only [List.mem_cons] at hw'
            rcases hw' with e | e
            · subst e; simp [ho]; exact hwid
            · have := h2 w' e
              simp [ho, this.1]; exact this.2
          · rename_i ho
            have := h2 w' hw'
            simp [ho, this.1]; exact this.2

/-- A row of write `w` that owes `r` is found by `credit`. -/
theorem credit_some_of_mem {w : Nat} {r : RId} (a : Fill) {rows : List SRow} (h : w ∈ owedBy rows r)
    (hw : (rows.map (·.wid)).Pairwise (· < ·)) : ∃ rows', credit w r a rows = some rows' := by
  induction rows with
  | nil => simp [owedBy] at h
  | cons row tl ih =>
    simp only [List.map_cons, List.pairwise_cons] at hw
    rw [owedBy_cons] at h
    simp only [credit]
    by_cases hwid : row.wid = w
    · rw [if_pos hwid]
      by_cases ho : row.owes r = true
      · simp [ho]
      · exfalso
        simp only [ho, Bool.false_eq_true, if_false] at h
        have := hw.1 w (owedBy_sub tl r w h)
        omega
    · rw [if_neg hwid]
      have hm : w ∈ owedBy tl r := by
        split at h
        · simp only [List.mem_cons] at h
          rcases h with e | e
          · exact absurd e.symm hwid
          · exact e
        · exact h
      obtain ⟨t', ht⟩ := ih hm hw.2
      exact ⟨row :: t', by simp [ht]⟩

/-- `(*Writer).receive(a, r, l, w)` against `arrive s w r a`: the response is credited to the
row of write `w` on both sides; the model's extra test of the link generation agrees whenever
that row still has a slot of `r` (`hE`). -/
theorem sim_arrive {m : W} {s : S} (w l : Nat) (r : RId) (a : Ans)
    (hre : m.readers = s.linked) (hro : m.rows = s.rows.map SRow.cells) (hwr : m.writes = s.rows.map (·.wid))
    (hdo : m.done = s.done) (hll : m.links.length = m.readers.length) (hI : Core s)
    (hE : hasSlot s.rows w r → linkOf m r = some l) :
    (receive m a r l w).2 = (arrive s w r a).2 ∧
    (receive m a r l w).1 = { m with rows := (arrive s w r a).1.rows.map SRow.cells,
                                     writes := (arrive s w r a).1.rows.map (·.wid) } ∧
    Core (arrive s w r a).1 ∧
    (∀ r', r' ≠ r → owedBy (arrive s w r a).1.rows r' = owedBy s.rows r') ∧
    (∀ w' ∈ owedBy (arrive s w r a).1.rows r, w' ∈ owedBy s.rows r ∧ w' ≠ w) ∧
    (∀ w' r', hasSlot (arrive s w r a).1.rows w' r' → hasSlot s.rows w' r') := by
  have hnd := hI.nodup
  have hrows := hI.rows
  have hhead := hI.head
  have nothing : (receive m a r l w).2 = Out.mk (.ok false) [] [] → (receive m a r l w).1 = m →
      arrive s w r a = (s, Out.mk (.ok false) [] []) → w ∉ owedBy s.rows r →
      (receive m a r l w).2 = (arrive s w r a).2 ∧
      (receive m a r l w).1 = { m with rows := (arrive s w r a).1.rows.map SRow.cells,
                                       writes := (arrive s w r a).1.rows.map (·.wid) } ∧
      Core (arrive s w r a).1 ∧
      (∀ r', r' ≠ r → owedBy (arrive s w r a).1.rows r' = owedBy s.rows r') ∧
      (∀ w' ∈ owedBy (arrive s w r a).1.rows r, w' ∈ owedBy s.rows r ∧ w' ≠ w) ∧
      (∀ w' r', hasSlot (arrive s w r a).1.rows w' r' → hasSlot s.rows w' r') := by
    intro h1 h2 h3 h4
    rw [h1, h2, h3]
    exact ⟨rfl, (W_rows_self hro hwr).symm, hI, fun _ _ => rfl,
      fun w' hw' => ⟨hw', fun e => h4 (e ▸ hw')⟩, fun _ _ h => h⟩
  by_cases hd : s.done = true
  · have hmd : m.done = true := hdo.trans hd
    apply nothing
    · simp [receive, receiveWith, hmd]
    · simp [receive, receiveWith, hmd]
    · simp [arrive, hd]
    · rw [hI.finRows hd]; simp [owedBy]
  have hd' : s.done = false := by simpa using hd
  have hmd : m.done = false := hdo.trans hd'
  by_cases hm : r ∈ s.linked
  rotate_left
  · have hi : indexOf r m.readers = none := by rw [hre]; exact indexOf_none.2 hm
    apply nothing
    · simp [receive, receiveWith, hmd, hi]
    · simp [receive, receiveWith, hmd, hi]
    · simp [arrive, hd', hm]
    · rw [owedBy_not_linked hrows.pref hm]; simp
  obtain ⟨i, hi⟩ := indexOf_some_of_mem hm
  have hi' : indexOf r m.readers = some i := by rw [hre]; exact hi
  have hilt : i < m.links.length := by rw [hll, hre]; exact indexOf_lt hi
  obtain ⟨l', hlk⟩ : ∃ l', m.links[i]? = some l' := ⟨m.links[i], List.getElem?_eq_getElem hilt⟩
  have hlo : linkOf m r = some l' := by simp [linkOf, hi', hlk]
  have hwf := wfill_credit w (some a) hrows.pref hnd hi hrows.wids
  have hlen : m.writes.length = m.rows.length := by rw [hwr, hro]; simp
  cases hcr : credit w r (some a) s.rows with
  | none =>
    rw [hcr] at hwf
    have harr : arrive s w r a = (s, Out.mk (.ok false) [] []) := by simp [arrive, hd', hm, hcr]
    have hnot : w ∉ owedBy s.rows r := by
      intro hmem
      obtain ⟨rows', hc⟩ := credit_some_of_mem (some a) hmem hrows.wids
      rw [hc] at hcr; cases hcr
    by_cases hg : l' = l
    · subst hg
      have hlg : (l' != l') = false := by simp
      cases hih : indexOfWrite i w m.writes m.rows with
      | panic => exact absurd hih (indexOfWrite_ne_panic _ _ _ _ hlen)
      | notFound =>
        exact nothing (by simp [receive, receiveWith, hmd, hi', hlk, hlg, hih])
          (by simp [receive, receiveWith, hmd, hi', hlk, hlg, hih]) harr hnot
      | found h =>
        obtain ⟨mrows', _, hmf', _⟩ := indexOfWrite_found (some a) hih
        rw [hwr, hro, hwf] at hmf'; simp at hmf'
    · have hlg : (l' != l) = true := by simpa using hg
      exact nothing (by simp [receive, receiveWith, hmd, hi', hlk, hlg])
        (by simp [receive, receiveWith, hmd, hi', hlk, hlg]) harr hnot
  | some rows' =>
    rw [hcr] at hwf
    obtain ⟨e3, e4, row0, hrow0, hwid0, howes0⟩ := credit_shape hcr
    have hslot : hasSlot s.rows w r := by
      refine ⟨row0, hrow0, hwid0, ?_⟩
      rw [owes_def] at howes0
      simp only [owesS, List.any_eq_true] at howes0
      obtain ⟨p, hp, hpp⟩ := howes0
      simp only [SRow.readers, List.mem_map]
      simp only [Bool.and_eq_true, beq_iff_eq] at hpp
      exact ⟨p, hp, hpp.1⟩
    have hl : l' = l := by
      have := hE hslot
      rw [hlo] at this; injection this
    subst hl
    have hlg : (l' != l') = false := by simp
    have hrows' : RowsOK s.linked s.nextW rows' := hrows.of_map_eq e3 e4
    have hcore : Core (arrived s rows') :=
      ⟨hnd, hrows'.flush, flush_head rows', by simp [arrived, hd'], by simp [arrived, hd']⟩
    have harr : arrive s w r a = (arrived s rows', Out.mk (.ok true) (WriterSpec.flush rows').2.1 []) := by
      simp [arrive, arrived, hd', hm, hcr]
    rw [harr]
    obtain ⟨o1, o2⟩ := credit_owedBy hcr hrows.wids
    have hkeys := credit_keys hcr
    have hmodel : (receive m a r l' w).2 = Out.mk (.ok true) (WriterSpec.flush rows').2.1 [] ∧
        (receive m a r l' w).1 = { m with rows := (WriterSpec.flush rows').1.map SRow.cells,
                                          writes := (WriterSpec.flush rows').1.map (·.wid) } := by
      cases hih : indexOfWrite i w m.writes m.rows with
      | panic => exact absurd hih (indexOfWrite_ne_panic _ _ _ _ hlen)
      | notFound =>
        have := indexOfWrite_notFound (some a) hih
        rw [hwr, hro, hwf] at this; simp at this
      | found h =>
        obtain ⟨mrows', hset, hmf', hne0⟩ := indexOfWrite_found (some a) hih
        rw [hwr, hro, hwf] at hmf'
        simp only [Option.map_some, Option.some.injEq] at hmf'
        subst hmf'
        by_cases h0 : h = 0
        · have hfl := mflush_eq rows'
          have hdrop := flush_wids_drop rows'
          rw [e4, ← hwr] at hdrop
          subst h0
          simp [receive, receiveWith, hmd, hi', hlk, hlg, hih, hset, hfl, hdrop]
        · obtain ⟨row, rest, rest', hre1, hre'⟩ := hne0 h0
          rw [hro] at hre1
          have hflush : WriterSpec.flush rows' = (rows', [], []) := by
            cases hs : s.rows with
            | nil => simp [hs] at hre1
            | cons srow srest =>
              have hh := hhead srow srest hs
              simp only [hs, List.map_cons, List.cons.injEq] at hre1
              cases rows' with
              | nil => simp at hre'
              | cons srow' srest' =>
                simp only [List.map_cons, List.cons.injEq] at hre'
                apply flush_of_head
                rw [hre'.1, ← hre1.1]; exact hh
          have hw2 : List.map (fun x => x.wid) rows' = m.writes := e4.trans hwr.symm
          simp [receive, receiveWith, hmd, hi', hlk, hlg, hih, hset, h0, hflush, hw2]
    refine ⟨hmodel.1, hmodel.2, hcore, ?_, ?_, ?_⟩
    · intro r' hne
      show owedBy (WriterSpec.flush rows').1 r' = _
      rw [owedBy_flush, o1 r' hne]
    · intro w' hw'
      have hw'' : w' ∈ owedBy (WriterSpec.flush rows').1 r := hw'
      rw [owedBy_flush] at hw''
      exact o2 w' hw''
    · intro w' r' hs
      have hs' : hasSlot (WriterSpec.flush rows').1 w' r' := hs
      have := hasSlot_flush hs'
      rw [hasSlot_keys, hkeys, ← hasSlot_keys] at this
      exact this

/-! ### The individual steps -/

theorem hasSlot_linked {rows : List SRow} {linked : List RId} {w : Nat} {r : RId}
    (hp : ∀ p ∈ rows.map SRow.readers, p <+: linked) (h : hasSlot rows w r) : r ∈ linked := by
  obtain ⟨row, hm, _, hr⟩ := h
  exact (hp row.readers (List.mem_map_of_mem hm)).subset hr

def linkedM (m : W) (r : RId) : W :=
  { m with linked := m.linked + 1, readers := m.readers ++ [r], links := m.links ++ [m.linked + 1] }

theorem sim_link {m : W} {s : S} (hR : Rel m s) (r : RId) :
    (Writer.step m (.link r)).2 = (WriterSpec.step s (.link r)).2 ∧
      Rel (Writer.step m (.link r)).1 (WriterSpec.step s (.link r)).1 := by
  by_cases hd : s.done = true
  · have hmd : m.done = true := hR.done.trans hd
    have e1 : Writer.step m (.link r) = (m, Out.mk (.ok false) [] []) := by simp [Writer.step, stepWith, hmd]
    have e2 : WriterSpec.step s (.link r) = (s, Out.mk (.ok false) [] []) := by simp [WriterSpec.step, hd]
    rw [e1, e2]; exact ⟨rfl, hR⟩
  have hd' : s.done = false := by simpa using hd
  have hmd : m.done = false := hR.done.trans hd'
  by_cases hm : r ∈ s.linked
  · have hm' : r ∈ m.readers := hR.readers ▸ hm
    have e1 : Writer.step m (.link r) = (m, Out.mk (.ok false) [] []) := by simp [Writer.step, stepWith, hmd, hm']
    have e2 : WriterSpec.step s (.link r) = (s, Out.mk (.ok false) [] []) := by simp [WriterSpec.step, hd', hm]
    rw [e1, e2]; exact ⟨rfl, hR⟩
  have hm' : r ∉ m.readers := hR.readers ▸ hm
  have e1 : Writer.step m (.link r) = (linkedM m r, Out.mk (.ok true) [] []) := by
    simp [Writer.step, stepWith, hmd, hm', linkedM]
  have e2 : WriterSpec.step s (.link r) = ({ s with linked := s.linked ++ [r] }, Out.mk (.ok true) [] []) := by
    simp [WriterSpec.step, hd', hm]
  rw [e1, e2]
  refine ⟨rfl, ?_⟩
  have hI := hR.inv
  refine ⟨by simp [linkedM, hR.readers], hR.rows, hR.writes, hR.written, hR.done, hR.closed, by simp [linkedM, hR.linksLen],
    hR.pendClosed, hR.dropsOpen, hR.queue, hR.flight, ?_, ?_⟩
  · intro r' e he hs
    have he' : e ∈ entries m r' := he
    have hs' : hasSlot s.rows e.2 r' := hs
    have hl := hasSlot_linked hI.rows.pref hs'
    have hne : ¬ r = r' := fun h => hm (h ▸ hl)
    have hold := hR.ent r' e he' hs'
    have : linkOf (linkedM m r) r' = linkAt r' (m.readers ++ [r]) (m.links ++ [m.linked + 1]) := by
      rw [linkOf_eq]; rfl
    rw [this, linkAt_append _ hR.linksLen]
    rw [linkOf_eq] at hold
    rw [hold]
  · refine ⟨⟨?_, ⟨?_, hI.rows.chain, hI.rows.wids, hI.rows.widlt⟩, hI.head, by simp [hd'], hI.finRows⟩,
      hI.owedLt, hI.flightLt, hI.backed⟩
    · show (s.linked ++ [r]).Nodup
      rw [List.nodup_append]
      refine ⟨hI.nodup, by simp, ?_⟩
      intro a ha b hb
      simp only [List.mem_singleton] at hb
      subst hb
      exact fun e => hm (e ▸ ha)
    · intro p hp
      exact (hI.rows.pref p hp).trans (List.prefix_append _ _)

def unlinkedM (m : W) (i : Nat) : W :=
  { m with readers := m.readers.eraseIdx i, links := m.links.eraseIdx i,
           rows := (Writer.flush (eraseCol i m.rows)).1,
           writes := m.writes.drop (Writer.flush (eraseCol i m.rows)).2.length }

theorem hasSlot_drop {rows : List SRow} {r r' : RId} {w : Nat} (h : hasSlot (rows.map (·.drop r)) w r') :
    hasSlot rows w r' ∧ r' ≠ r := by
  obtain ⟨row', hm, h1, h2⟩ := h
  obtain ⟨row, hrow, rfl⟩ := List.mem_map.1 hm
  have : (row.drop r).readers = row.readers.filter (· ≠ r) := drop_readers row.slots r
  rw [this] at h2
  simp only [List.mem_filter, decide_eq_true_eq] at h2
  exact ⟨⟨row, hrow, h1, h2.1⟩, h2.2⟩

theorem sim_unlink {m : W} {s : S} (hR : Rel m s) (r : RId) :
    (Writer.step m (.unlink r)).2 = (WriterSpec.step s (.unlink r)).2 ∧
      Rel (Writer.step m (.unlink r)).1 (WriterSpec.step s (.unlink r)).1 := by
  have hI := hR.inv
  by_cases hd : s.done = true
  · have hmd : m.done = true := hR.done.trans hd
    have e1 : Writer.step m (.unlink r) = (m, Out.mk (.ok false) [] []) := by simp [Writer.step, stepWith, hmd]
    have e2 : WriterSpec.step s (.unlink r) = (s, Out.mk (.ok false) [] []) := by simp [WriterSpec.step, hd]
    rw [e1, e2]; exact ⟨rfl, hR⟩
  have hd' : s.done = false := by simpa using hd
  have hmd : m.done = false := hR.done.trans hd'
  by_cases hm : r ∈ s.linked
  rotate_left
  · have hi : indexOf r m.readers = none := by rw [hR.readers]; exact indexOf_none.2 hm
    have e1 : Writer.step m (.unlink r) = (m, Out.mk (.ok false) [] []) := by simp [Writer.step, stepWith, hmd, hi]
    have e2 : WriterSpec.step s (.unlink r) = (s, Out.mk (.ok false) [] []) := by simp [WriterSpec.step, hd', hm]
    rw [e1, e2]; exact ⟨rfl, hR⟩
  obtain ⟨i, hi⟩ := indexOf_some_of_mem hm
  have hi' : indexOf r m.readers = some i := by rw [hR.readers]; exact hi
  have hilt : i < s.linked.length := indexOf_lt hi
  have hill : ¬ m.links.length ≤ i := by rw [hR.linksLen, hR.readers]; omega
  have hcols : eraseCol i (s.rows.map SRow.cells) = (s.rows.map (·.drop r)).map SRow.cells := by
    simp only [eraseCol, List.map_map]
    apply List.map_congr_left
    intro row hrow
    simp only [Function.comp]
    exact (drop_cells_row (hI.rows.pref _ (List.mem_map_of_mem hrow)) hI.nodup hi).symm
  have hfl := mflush_eq (s.rows.map (·.drop r))
  have hrd := filter_ne_eq_eraseIdx hi hI.nodup
  have e1 : Writer.step m (.unlink r) =
      (unlinkedM m i, Out.mk (.ok true) (Writer.flush (eraseCol i m.rows)).2 []) := by
    simp [Writer.step, stepWith, hmd, hi', hill, unlinkedM]
  have e2 : WriterSpec.step s (.unlink r) =
      ({ s with linked := s.linked.filter (· ≠ r), rows := (WriterSpec.flush (s.rows.map (·.drop r))).1,
                emittedIds := s.emittedIds ++ (WriterSpec.flush (s.rows.map (·.drop r))).2.2 },
       Out.mk (.ok true) (WriterSpec.flush (s.rows.map (·.drop r))).2.1 []) := by
    simp [WriterSpec.step, hd', hm]
  have hmrows : Writer.flush (eraseCol i m.rows) =
      ((WriterSpec.flush (s.rows.map (·.drop r))).1.map SRow.cells, (WriterSpec.flush (s.rows.map (·.drop r))).2.1) := by
    rw [hR.rows, hcols, hfl]
  rw [e1, e2]
  refine ⟨by rw [hmrows], ?_⟩
  have hreaders : (s.rows.map (·.drop r)).map SRow.readers = (s.rows.map SRow.readers).map (·.filter (· ≠ r)) := by
    simp only [List.map_map]
    apply List.map_congr_left
    intro row _
    exact drop_readers row.slots r
  have hwid : (s.rows.map (·.drop r)).map (·.wid) = s.rows.map (·.wid) := by
    simp only [List.map_map]; rfl
  have hok : RowsOK (s.linked.filter (· ≠ r)) s.nextW (s.rows.map (·.drop r)) := by
    refine ⟨?_, ?_, hwid ▸ hI.rows.wids, hwid ▸ hI.rows.widlt⟩
    · rw [hreaders]
      intro p hp
      obtain ⟨q, hq, rfl⟩ := List.mem_map.1 hp
      exact (hI.rows.pref q hq).filter _
    · rw [hreaders, List.pairwise_map]
      exact hI.rows.chain.imp fun h => h.filter _
  have hnotin : r ∉ s.linked.filter (· ≠ r) := by simp
  refine ⟨?_, ?_, ?_, hR.written, hR.done, hR.closed, ?_, hR.pendClosed, hR.dropsOpen, hR.queue, hR.flight, ?_, ?_⟩
  · show m.readers.eraseIdx i = s.linked.filter (· ≠ r)
    rw [hrd, hR.readers]
  · show (Writer.flush (eraseCol i m.rows)).1 = _
    rw [hmrows]
  · show m.writes.drop (Writer.flush (eraseCol i m.rows)).2.length = _
    rw [hmrows, hR.writes, ← hwid]
    exact flush_wids_drop _
  · show (m.links.eraseIdx i).length = (m.readers.eraseIdx i).length
    rw [List.length_eraseIdx, List.length_eraseIdx, hR.linksLen]
  · intro r' e he hs
    have he' : e ∈ entries m r' := he
    have hs' : hasSlot (WriterSpec.flush (s.rows.map (·.drop r))).1 e.2 r' := hs
    obtain ⟨hs'', hne⟩ := hasSlot_drop (hasSlot_flush hs')
    have hold := hR.ent r' e he' hs''
    have : linkOf (unlinkedM m i) r' = linkAt r' (m.readers.eraseIdx i) (m.links.eraseIdx i) := by
      rw [linkOf_eq]; rfl
    rw [this, linkAt_eraseIdx _ hi' hne, ← linkOf_eq]
    exact hold
  · refine ⟨⟨hI.nodup.filter _, hok.flush, flush_head _, by simp [hd'], by simp [hd']⟩, hI.owedLt, hI.flightLt, ?_⟩
    intro r' w hw
    have hw' : w ∈ owedBy (WriterSpec.flush (s.rows.map (·.drop r))).1 r' := hw
    rw [owedBy_flush] at hw'
    by_cases e : r' = r
    · subst e
      rw [owedBy_not_linked hok.pref hnotin] at hw'
      cases hw'
    · rw [drop_owedBy _ e] at hw'
      exact hI.backed r' w hw'

theorem newRow_eq (s : S) : newRow s.closed s.linked = (newSRow s).cells := by
  simp [newSRow, SRow.cells, newRow]

theorem newSRow_owes (s : S) (r : RId) : (newSRow s).owes r = (decide (r ∈ s.linked) && !s.closed r) := by
  rw [owes_def]; exact newSlots_owes s.closed s.linked r

def wroteM (m : W) : W :=
  { m with pend := fun r => if r ∈ accepting m.closed m.readers then m.pend r ++ (linkOf m r).toList.map (·, m.written)
                            else m.pend r,
           rows := m.rows ++ [newRow m.closed m.readers], writes := m.writes ++ [m.written],
           written := m.written + 1 }

theorem entry_lt {m : W} {s : S} (hR : Rel m s) (r : RId) (e : Nat × Nat) (he : e ∈ entries m r) : e.2 < s.nextW := by
  simp only [entries, List.mem_append, List.mem_map] at he
  rcases he with he | ⟨x, hx, rfl⟩
  · apply hR.inv.owedLt r
    rw [← hR.queue r]
    exact List.mem_map_of_mem he
  · have := hR.inv.flightLt r (x.1, x.2.2) (by rw [← hR.flight r]; exact List.mem_map.2 ⟨x, hx, rfl⟩)
    exact this

theorem sim_write {m : W} {s : S} (hR : Rel m s) (v : Nat) :
    (Writer.step m (.write v)).2 = (WriterSpec.step s (.write v)).2 ∧
      Rel (Writer.step m (.write v)).1 (WriterSpec.step s (.write v)).1 := by
  have hI := hR.inv
  by_cases hd : s.done = true
  · have hmd : m.done = true := hR.done.trans hd
    have e1 : Writer.step m (.write v) = (m, Out.mk (.cnt 0) [] []) := by simp [Writer.step, stepWith, hmd]
    have e2 : WriterSpec.step s (.write v) = (s, Out.mk (.cnt 0) [] []) := by simp [WriterSpec.step, hd]
    rw [e1, e2]; exact ⟨rfl, hR⟩
  have hd' : s.done = false := by simpa using hd
  have hmd : m.done = false := hR.done.trans hd'
  have hpanic : ¬ m.links.length < m.readers.length := by rw [hR.linksLen]; omega
  by_cases hacc : (accepting s.closed s.linked).length > 0
  rotate_left
  · have hnil : accepting s.closed s.linked = [] := by
      cases h : accepting s.closed s.linked with
      | nil => rfl
      | cons a t => simp [h] at hacc
    have hnil' : accepting m.closed m.readers = [] := by rw [hR.closed, hR.readers]; exact hnil
    have e2 : WriterSpec.step s (.write v) = (s, Out.mk (.cnt 0) [] []) := by simp [WriterSpec.step, hd', hnil]
    have e1 : Writer.step m (.write v) = (m, Out.mk (.cnt 0) [] []) := by
      simp only [Writer.step, stepWith, hmd, hpanic, hnil', Bool.false_eq_true, if_false, List.length_nil,
        Nat.lt_irrefl, List.not_mem_nil]
      split
      · rfl
      · congr 1
        cases m
        simp only [W.mk.injEq]
        simp_all
    rw [e1, e2]; exact ⟨rfl, hR⟩
  have hacc' : (accepting m.closed m.readers).length > 0 := by rw [hR.closed, hR.readers]; exact hacc
  have hne : m.readers.isEmpty = false := by
    cases h : m.readers with
    | nil => simp [h, accepting] at hacc'
    | cons a t => rfl
  have e2 : WriterSpec.step s (.write v) =
      ({ s with rows := s.rows ++ [newSRow s],
                owed := fun r => if r ∈ accepting s.closed s.linked then s.owed r ++ [s.nextW] else s.owed r,
                nextW := s.nextW + 1 },
       Out.mk (.cnt (accepting s.closed s.linked).length) [] ((accepting s.closed s.linked).map fun r => (r, v))) := by
    simp [WriterSpec.step, hd', hacc, newSRow]
  have e1 : Writer.step m (.write v) =
      (wroteM m,
       Out.mk (.cnt (accepting m.closed m.readers).length) [] ((accepting m.closed m.readers).map fun r => (r, v))) := by
    simp [Writer.step, stepWith, hmd, hne, hpanic, hacc', wroteM]
  rw [e1, e2]
  refine ⟨by rw [hR.closed, hR.readers], ?_⟩
  have hreaders : (newSRow s).readers = s.linked := by
    simp [newSRow, SRow.readers, List.map_map, Function.comp_def]
  have hmemacc : ∀ r, r ∈ accepting m.closed m.readers ↔ r ∈ s.linked ∧ s.closed r = false := by
    intro r; rw [hR.closed, hR.readers]; exact mem_accepting
  have hfifo : ∀ r, fifo (wroteM m) r =
      if r ∈ accepting m.closed m.readers then fifo m r ++ (linkOf m r).toList.map (·, m.written) else fifo m r := by
    intro r
    by_cases hr : r ∈ accepting m.closed m.readers
    · have hc : m.closed r = false := by rw [hR.closed]; exact ((hmemacc r).1 hr).2
      simp [fifo, wroteM, hr, hc]
    · by_cases hc : m.closed r = true
      · simp [fifo, wroteM, hr, hc]
      · have hc' : m.closed r = false := by simpa using hc
        simp [fifo, wroteM, hr, hc']
  have hlink : ∀ r, r ∈ accepting m.closed m.readers → ∃ g, linkOf m r = some g := by
    intro r hr
    rw [linkOf_eq]; exact linkAt_some_of_mem (hR.readers ▸ ((hmemacc r).1 hr).1) hR.linksLen
  refine ⟨hR.readers, ?_, ?_, ?_, hR.done, hR.closed, hR.linksLen, ?_, hR.dropsOpen, ?_, hR.flight, ?_, ?_⟩
  · show m.rows ++ [newRow m.closed m.readers] = (s.rows ++ [newSRow s]).map SRow.cells
    rw [hR.rows, hR.closed, hR.readers, newRow_eq]; simp
  · show m.writes ++ [m.written] = (s.rows ++ [newSRow s]).map (·.wid)
    rw [hR.writes, hR.written]; simp [newSRow]
  · show m.written + 1 = s.nextW + 1
    rw [hR.written]
  · intro r hc0
    have hc : m.closed r = true := hc0
    have : r ∉ accepting m.closed m.readers := by
      intro h; have := (hmemacc r).1 h; rw [hR.closed] at hc; rw [hc] at this; exact absurd this.2 (by simp)
    show (if r ∈ accepting m.closed m.readers then m.pend r ++ (linkOf m r).toList.map (·, m.written) else m.pend r) = []
    rw [if_neg this]; exact hR.pendClosed r hc
  · intro r
    show (fifo (wroteM m) r).map Prod.snd = (if r ∈ accepting s.closed s.linked then s.owed r ++ [s.nextW] else s.owed r)
    rw [hfifo]
    by_cases hr : r ∈ accepting m.closed m.readers
    · have hr' : r ∈ accepting s.closed s.linked := mem_accepting.2 ((hmemacc r).1 hr)
      obtain ⟨g, hg⟩ := hlink r hr
      simp [hr, hr', hg, hR.queue r, hR.written]
    · have hr' : r ∉ accepting s.closed s.linked := fun h => hr ((hmemacc r).2 (mem_accepting.1 h))
      simp [hr, hr', hR.queue r]
  · intro r e he hs
    have hlo : linkOf (wroteM m) r = linkOf m r := rfl
    rw [hlo]
    have he' : e ∈ fifo (wroteM m) r ++ (m.flight r).map (·.2) := he
    have hs' : hasSlot (s.rows ++ [newSRow s]) e.2 r := hs
    rw [hfifo] at he'
    have hold : e ∈ entries m r → linkOf m r = some e.1 := by
      intro hmem
      have hlt := entry_lt hR r e hmem
      apply hR.ent r e hmem
      obtain ⟨row, hm, h1, h2⟩ := hs'
      simp only [List.mem_append, List.mem_singleton] at hm
      rcases hm with hm | hm
      · exact ⟨row, hm, h1, h2⟩
      · subst hm
        simp only [newSRow] at h1
        omega
    by_cases hr : r ∈ accepting m.closed m.readers
    · rw [if_pos hr] at he'
      obtain ⟨g, hg⟩ := hlink r hr
      simp only [hg, Option.toList_some, List.map_cons, List.map_nil, List.mem_append, List.mem_singleton] at he'
      rcases he' with (he' | he') | he'
      · exact hold (by simp [entries, he'])
      · rw [he', hg]
      · exact hold (by simp only [entries, List.mem_append]; exact Or.inr he')
    · rw [if_neg hr] at he'
      exact hold he'
  · refine ⟨⟨hI.nodup, ⟨?_, ?_, ?_, ?_⟩, ?_, by simp [hd'], by simp [hd']⟩, ?_, ?_, ?_⟩
    · intro p hp
      simp only [List.map_append, List.mem_append, List.map_cons, List.map_nil, List.mem_singleton] at hp
      rcases hp with hp | hp
      · exact hI.rows.pref p hp
      · rw [hp, hreaders]; exact List.prefix_refl _
    · simp only [List.map_append, List.map_cons, List.map_nil, List.pairwise_append, List.pairwise_cons,
        List.Pairwise.nil, List.mem_singleton]
      refine ⟨hI.rows.chain, ⟨by simp, trivial⟩, ?_⟩
      intro p hp q hq
      rw [hq, hreaders]; exact hI.rows.pref p hp
    · simp only [List.map_append, List.map_cons, List.map_nil, List.pairwise_append, List.pairwise_cons,
        List.Pairwise.nil, List.mem_singleton]
      refine ⟨hI.rows.wids, ⟨by simp, trivial⟩, ?_⟩
      intro w hw q hq
      rw [hq]; exact hI.rows.widlt w hw
    · intro w hw
      simp only [List.map_append, List.mem_append, List.map_cons, List.map_nil, List.mem_singleton] at hw
      rcases hw with hw | hw
      · exact Nat.lt_succ_of_lt (hI.rows.widlt w hw)
      · rw [hw]; exact Nat.lt_succ_self _
    · intro row rest he
      cases hs : s.rows with
      | nil =>
        simp only [hs, List.nil_append, List.cons.injEq] at he
        rw [← he.1]
        obtain ⟨a, ha⟩ : ∃ a, a ∈ accepting s.closed s.linked := by
          cases h : accepting s.closed s.linked with
          | nil => simp [h] at hacc
          | cons a t => exact ⟨a, by simp⟩
        have ha' := mem_accepting.1 ha
        simp only [hasNil, newSRow, SRow.cells, List.map_map, List.any_map, List.any_eq_true]
        exact ⟨a, ha'.1, by simp [ha'.2]⟩
      | cons r0 t0 =>
        simp only [hs, List.cons_append, List.cons.injEq] at he
        rw [← he.1]
        exact hI.head r0 t0 hs
    · intro r w hw
      have hw' : w ∈ (if r ∈ accepting s.closed s.linked then s.owed r ++ [s.nextW] else s.owed r) := hw
      split at hw'
      · simp only [List.mem_append, List.mem_singleton] at hw'
        rcases hw' with h | h
        · exact Nat.lt_succ_of_lt (hI.owedLt r w h)
        · rw [h]; exact Nat.lt_succ_self _
      · exact Nat.lt_succ_of_lt (hI.owedLt r w hw')
    · intro r e he
      exact Nat.lt_succ_of_lt (hI.flightLt r e he)
    · intro r w hw
      have hw' : w ∈ owedBy (s.rows ++ [newSRow s]) r := hw
      rw [owedBy_append, owedBy_cons, newSRow_owes] at hw'
      show w ∈ (if r ∈ accepting s.closed s.linked then s.owed r ++ [s.nextW] else s.owed r) ∨ ∃ a, (a, w) ∈ s.flight r
      have hnil : owedBy [] r = [] := rfl
      simp only [List.mem_append] at hw'
      rcases hw' with hw' | hw'
      · rcases hI.backed r w hw' with h | h
        · left; split <;> simp [h]
        · exact Or.inr h
      · by_cases hr : r ∈ s.linked ∧ s.closed r = false
        · have : r ∈ accepting s.closed s.linked := mem_accepting.2 hr
          simp only [hr.1, hr.2, decide_true, Bool.not_false, Bool.and_self, if_true, hnil, List.mem_singleton] at hw'
          left; rw [if_pos this, hw']; simp [newSRow]
        · have hno : (decide (r ∈ s.linked) && !s.closed r) = false := by
            by_cases hl : r ∈ s.linked
            · have : s.closed r = true := by
                cases hc : s.closed r with
                | true => rfl
                | false => exact absurd ⟨hl, hc⟩ hr
              simp [this]
            · simp [hl]
          simp [hno, hnil] at hw'

/-- The specification state with other queues / answers in flight. -/
def withQ (s : S) (o1 : RId → List Nat) (f1 : RId → List (Ans × Nat)) : S := { s with owed := o1, flight := f1 }

/-- A response `(a, l, w)` of reader `r` that was one of its entries reaches the writer; `m1`,
`withQ s o1 f1` are the states after the entry was taken out. -/
theorem sim_recv {m m1 : W} {s : S} (hR : Rel m s) (r : RId) (l w : Nat) (a : Ans)
    (o1 : RId → List Nat) (f1 : RId → List (Ans × Nat))
    (h1 : m1.readers = m.readers) (h2 : m1.links = m.links) (h4 : m1.rows = m.rows) (h4w : m1.writes = m.writes)
    (h4n : m1.written = m.written) (h5 : m1.done = m.done) (h6 : m1.closed = m.closed)
    (hq : ∀ x, (fifo m1 x).map Prod.snd = o1 x) (hf : ∀ x, (m1.flight x).map (fun e => (e.1, e.2.2)) = f1 x)
    (hsub : ∀ x e, e ∈ entries m1 x → e ∈ entries m x) (hmem : (l, w) ∈ entries m r)
    (h9 : ∀ x, m1.closed x = true → m1.pend x = []) (h10 : ∀ x, m1.closed x = false → m1.drops x = [])
    (holt : ∀ x, ∀ w' ∈ o1 x, w' < s.nextW) (hflt : ∀ x, ∀ e ∈ f1 x, e.2 < s.nextW)
    (hback : ∀ x, ∀ w' ∈ owedBy s.rows x, (x = r ∧ w' = w) ∨ w' ∈ o1 x ∨ ∃ a', (a', w') ∈ f1 x) :
    (receive m1 a r l w).2 = (arrive (withQ s o1 f1) w r a).2 ∧
      Rel (receive m1 a r l w).1 (arrive (withQ s o1 f1) w r a).1 := by
  have hI := hR.inv
  have hlo : ∀ x, linkOf m1 x = linkOf m x := by intro x; simp [linkOf, h1, h2]
  have hcore : Core (withQ s o1 f1) := ⟨hI.nodup, hI.rows, hI.head, hI.fin, hI.finRows⟩
  obtain ⟨p1, p2, p3, p4, p5, p6⟩ := sim_arrive (m := m1) (s := withQ s o1 f1) w l r a
    (by rw [h1]; exact hR.readers) (by rw [h4]; exact hR.rows) (by rw [h4w]; exact hR.writes)
    (by rw [h5]; exact hR.done) (by rw [h2, h1]; exact hR.linksLen) hcore
    (by intro hs; rw [hlo]; exact hR.ent r (l, w) hmem hs)
  obtain ⟨f1', f2', f3', f4', f5', f6'⟩ := arrive_fields (withQ s o1 f1) w r a
  refine ⟨p1, ?_⟩
  rw [p2]
  refine ⟨?_, rfl, rfl, ?_, ?_, ?_, ?_, h9, h10, ?_, ?_, ?_, ?_⟩
  · show m1.readers = _
    rw [f1', h1]; exact hR.readers
  · show m1.written = _
    rw [f5', h4n]; exact hR.written
  · show m1.done = _
    rw [f2', h5]; exact hR.done
  · show m1.closed = _
    rw [f3', h6]; exact hR.closed
  · show m1.links.length = m1.readers.length
    rw [h2, h1]; exact hR.linksLen
  · intro x
    show (fifo m1 x).map Prod.snd = (arrive (withQ s o1 f1) w r a).1.owed x
    rw [f4']; exact hq x
  · intro x
    show (m1.flight x).map (fun e => (e.1, e.2.2)) = (arrive (withQ s o1 f1) w r a).1.flight x
    rw [f6']; exact hf x
  · intro x e he hs
    have he' : e ∈ entries m1 x := he
    have hs' := p6 e.2 x hs
    show linkOf m1 x = some e.1
    rw [hlo]
    exact hR.ent x e (hsub x e he') hs'
  · refine ⟨p3, ?_, ?_, ?_⟩
    · intro x w' hw'
      rw [f4'] at hw'; rw [f5']; exact holt x w' hw'
    · intro x e he
      rw [f6'] at he; rw [f5']; exact hflt x e he
    · intro x w' hw'
      rw [f4', f6']
      by_cases hx : x = r
      · subst hx
        obtain ⟨hin, hne⟩ := p5 w' hw'
        rcases hback x w' hin with ⟨_, e⟩ | h
        · exact absurd e hne
        · exact h
      · rw [p4 x hx] at hw'
        rcases hback x w' hw' with ⟨e, _⟩ | h
        · exact absurd e hx
        · exact h

def popPend (m : W) (r : RId) (gs : List (Nat × Nat)) : W :=
  { m with pend := fun x => if x = r then gs else m.pend x }

def popDrops (m : W) (r : RId) (gs : List (Nat × Nat)) : W :=
  { m with drops := fun x => if x = r then gs else m.drops x }

def closeReader (m : W) (r : RId) : W :=
  { m with closed := fun x => if x = r then true else m.closed x,
           drops := fun x => if x = r then m.pend r else m.drops x,
           pend := fun x => if x = r then [] else m.pend x }

theorem fifo_popPend (m : W) (r : RId) (gs : List (Nat × Nat)) (hc : m.closed r = false) (x : RId) :
    fifo (popPend m r gs) x = if x = r then gs else fifo m x := by
  by_cases hx : x = r
  · subst hx; simp [fifo, popPend, hc]
  · simp [fifo, popPend, hx]

theorem fifo_popDrops (m : W) (r : RId) (gs : List (Nat × Nat)) (hc : m.closed r = true) (x : RId) :
    fifo (popDrops m r gs) x = if x = r then gs else fifo m x := by
  by_cases hx : x = r
  · subst hx; simp [fifo, popDrops, hc]
  · simp [fifo, popDrops, hx]

/-- Popping the head `(l, w)` of r's queue (`m1`: the model state after the pop, same flight)
and handing the response to the writer at once. -/
theorem sim_pop_recv {m m1 : W} {s : S} (hR : Rel m s) (r : RId) (l w : Nat) (gs : List (Nat × Nat)) (ws : List Nat) (a : Ans)
    (h1 : m1.readers = m.readers) (h2 : m1.links = m.links) (h4 : m1.rows = m.rows) (h4w : m1.writes = m.writes)
    (h4n : m1.written = m.written) (h5 : m1.done = m.done) (h6 : m1.closed = m.closed) (h7 : m1.flight = m.flight)
    (hfi : ∀ x, fifo m1 x = if x = r then gs else fifo m x)
    (h9 : ∀ x, m1.closed x = true → m1.pend x = []) (h10 : ∀ x, m1.closed x = false → m1.drops x = [])
    (hfm : fifo m r = (l, w) :: gs) (ho : s.owed r = w :: ws) :
    (receive m1 a r l w).2 = (arrive (withQ s (fun x => if x = r then ws else s.owed x) s.flight) w r a).2 ∧
      Rel (receive m1 a r l w).1 (arrive (withQ s (fun x => if x = r then ws else s.owed x) s.flight) w r a).1 := by
  have hI := hR.inv
  have hq0 := hR.queue r
  rw [hfm, ho] at hq0
  simp only [List.map_cons, List.cons.injEq] at hq0
  apply sim_recv hR r l w a _ _ h1 h2 h4 h4w h4n h5 h6
  · intro x
    rw [hfi]
    by_cases hx : x = r
    · subst hx; simp [hq0.2]
    · simp [hx, hR.queue x]
  · intro x; rw [h7]; exact hR.flight x
  · intro x e he
    simp only [entries, hfi, h7] at he ⊢
    by_cases hx : x = r
    · subst hx
      simp only [if_true, List.mem_append] at he
      rw [hfm]
      rcases he with he | he
      · simp [he]
      · simp only [List.mem_append]; exact Or.inr he
    · simpa [hx] using he
  · simp [entries, hfm]
  · exact h9
  · exact h10
  · intro x w' hw'
    by_cases hx : x = r
    · subst hx
      simp only [if_true] at hw'
      exact hI.owedLt x w' (by rw [ho]; simp [hw'])
    · simp only [hx, if_false] at hw'
      exact hI.owedLt x w' hw'
  · exact hI.flightLt
  · intro x w' hw'
    rcases hI.backed x w' hw' with h | h
    · by_cases hx : x = r
      · subst hx
        rw [ho] at h
        simp only [List.mem_cons] at h
        rcases h with e | e
        · exact Or.inl ⟨rfl, e⟩
        · right; left; simp [e]
      · right; left; simp [hx, h]
    · exact Or.inr (Or.inr h)

theorem queue_cons {m : W} {s : S} (hR : Rel m s) {r : RId} {g : Nat × Nat} {gs : List (Nat × Nat)}
    (h : fifo m r = g :: gs) : ∃ ws, s.owed r = g.2 :: ws := by
  have := hR.queue r
  rw [h] at this
  exact ⟨gs.map Prod.snd, by rw [← this]; rfl⟩

theorem queue_nil {m : W} {s : S} (hR : Rel m s) {r : RId} (h : fifo m r = []) : s.owed r = [] := by
  have := hR.queue r
  rw [h] at this; exact this.symm

theorem sim_answer {m : W} {s : S} (hR : Rel m s) (r : RId) (a : Ans) :
    (Writer.step m (.answer r a)).2 = (WriterSpec.step s (.answer r a)).2 ∧
      Rel (Writer.step m (.answer r a)).1 (WriterSpec.step s (.answer r a)).1 := by
  by_cases hc : s.closed r = true
  · have hmc : m.closed r = true := by rw [hR.closed]; exact hc
    have hp := hR.pendClosed r hmc
    have e1 : Writer.step m (.answer r a) = (m, Out.mk (.ok false) [] []) := by simp [Writer.step, stepWith, hp]
    have e2 : WriterSpec.step s (.answer r a) = (s, Out.mk (.ok false) [] []) := by simp [WriterSpec.step, hc]
    rw [e1, e2]; exact ⟨rfl, hR⟩
  have hc' : s.closed r = false := by simpa using hc
  have hmc : m.closed r = false := by rw [hR.closed]; exact hc'
  have hfm : fifo m r = m.pend r := by simp [fifo, hmc]
  cases hp : m.pend r with
  | nil =>
    have ho := queue_nil hR (hfm.trans hp)
    have e1 : Writer.step m (.answer r a) = (m, Out.mk (.ok false) [] []) := by simp [Writer.step, stepWith, hp]
    have e2 : WriterSpec.step s (.answer r a) = (s, Out.mk (.ok false) [] []) := by simp [WriterSpec.step, hc', ho]
    rw [e1, e2]; exact ⟨rfl, hR⟩
  | cons g gs =>
    obtain ⟨ws, ho⟩ := queue_cons hR (hfm.trans hp)
    have e1 : Writer.step m (.answer r a) = receive (popPend m r gs) a r g.1 g.2 := by
      simp [Writer.step, stepWith, hp, popPend]
    have e2 : WriterSpec.step s (.answer r a) =
        arrive (withQ s (fun x => if x = r then ws else s.owed x) s.flight) g.2 r a := by
      simp [WriterSpec.step, hc', ho, withQ]
    rw [e1, e2]
    apply sim_pop_recv (m1 := popPend m r gs) hR r g.1 g.2 gs ws a rfl rfl rfl rfl rfl rfl rfl rfl
      (fifo_popPend m r gs hmc)
    · intro x hcl0
      have hcl : m.closed x = true := hcl0
      show (if x = r then gs else m.pend x) = []
      have hne : x ≠ r := fun e => by rw [e, hmc] at hcl; cases hcl
      rw [if_neg hne]; exact hR.pendClosed x hcl
    · exact hR.dropsOpen
    · rw [hfm, hp]
    · exact ho

def poppedM (m : W) (r : RId) (a : Ans) (g : Nat × Nat) (gs : List (Nat × Nat)) : W :=
  { m with pend := fun x => if x = r then gs else m.pend x,
           flight := fun x => if x = r then m.flight r ++ [(a, g.1, g.2)] else m.flight x }

theorem sim_popStep {m : W} {s : S} (hR : Rel m s) (r : RId) (a : Ans) :
    (Writer.step m (.pop r a)).2 = (WriterSpec.step s (.pop r a)).2 ∧
      Rel (Writer.step m (.pop r a)).1 (WriterSpec.step s (.pop r a)).1 := by
  have hI := hR.inv
  by_cases hc : s.closed r = true
  · have hmc : m.closed r = true := by rw [hR.closed]; exact hc
    have hp := hR.pendClosed r hmc
    have e1 : Writer.step m (.pop r a) = (m, Out.mk (.ok false) [] []) := by simp [Writer.step, stepWith, hp]
    have e2 : WriterSpec.step s (.pop r a) = (s, Out.mk (.ok false) [] []) := by simp [WriterSpec.step, hc]
    rw [e1, e2]; exact ⟨rfl, hR⟩
  have hc' : s.closed r = false := by simpa using hc
  have hmc : m.closed r = false := by rw [hR.closed]; exact hc'
  have hfm : fifo m r = m.pend r := by simp [fifo, hmc]
  cases hp : m.pend r with
  | nil =>
    have ho := queue_nil hR (hfm.trans hp)
    have e1 : Writer.step m (.pop r a) = (m, Out.mk (.ok false) [] []) := by simp [Writer.step, stepWith, hp]
    have e2 : WriterSpec.step s (.pop r a) = (s, Out.mk (.ok false) [] []) := by simp [WriterSpec.step, hc', ho]
    rw [e1, e2]; exact ⟨rfl, hR⟩
  | cons g gs =>
    obtain ⟨ws, ho⟩ := queue_cons hR (hfm.trans hp)
    have hq0 := hR.queue r
    rw [hfm, hp, ho] at hq0
    simp only [List.map_cons, List.cons.injEq] at hq0
    have e1 : Writer.step m (.pop r a) = (poppedM m r a g gs, Out.mk (.ok true) [] []) := by
      simp [Writer.step, stepWith, hp, poppedM]
    have e2 : WriterSpec.step s (.pop r a) =
        (withQ s (fun x => if x = r then ws else s.owed x) (fun x => if x = r then s.flight r ++ [(a, g.2)] else s.flight x),
         Out.mk (.ok true) [] []) := by
      simp [WriterSpec.step, hc', ho, withQ]
    rw [e1, e2]
    refine ⟨rfl, ?_⟩
    have hfifo : ∀ x, fifo (poppedM m r a g gs) x = if x = r then gs else fifo m x := by
      intro x
      by_cases hx : x = r
      · subst hx; simp [fifo, poppedM, hmc]
      · simp [fifo, poppedM, hx]
    refine ⟨hR.readers, hR.rows, hR.writes, hR.written, hR.done, hR.closed, hR.linksLen, ?_, hR.dropsOpen, ?_, ?_, ?_, ?_⟩
    · intro x hcl0
      have hcl : m.closed x = true := hcl0
      show (if x = r then gs else m.pend x) = []
      have hne : x ≠ r := fun e => by rw [e, hmc] at hcl; cases hcl
      rw [if_neg hne]; exact hR.pendClosed x hcl
    · intro x
      show (fifo (poppedM m r a g gs) x).map Prod.snd = (if x = r then ws else s.owed x)
      rw [hfifo]
      by_cases hx : x = r
      · subst hx; simp [hq0.2]
      · simp [hx, hR.queue x]
    · intro x
      show ((if x = r then m.flight r ++ [(a, g.1, g.2)] else m.flight x)).map (fun e => (e.1, e.2.2)) =
        (if x = r then s.flight r ++ [(a, g.2)] else s.flight x)
      by_cases hx : x = r
      · subst hx; simp [hR.flight x]
      · simp [hx, hR.flight x]
    · intro x e he hs
      have hlo : linkOf (poppedM m r a g gs) x = linkOf m x := rfl
      rw [hlo]
      apply hR.ent x e _ hs
      have he' : e ∈ fifo (poppedM m r a g gs) x ++ ((if x = r then m.flight r ++ [(a, g.1, g.2)] else m.flight x)).map (·.2) := he
      rw [hfifo] at he'
      by_cases hx : x = r
      · subst hx
        simp only [if_true, List.map_append, List.map_cons, List.map_nil, List.mem_append, List.mem_singleton] at he'
        simp only [entries, hfm, hp, List.mem_append, List.mem_cons]
        rcases he' with he' | he' | he'
        · exact Or.inl (Or.inr he')
        · exact Or.inr he'
        · exact Or.inl (Or.inl he')
      · simpa [entries, hx] using he'
    · refine ⟨⟨hI.nodup, hI.rows, hI.head, hI.fin, hI.finRows⟩, ?_, ?_, ?_⟩
      · intro x w' hw'
        have hw'' : w' ∈ (if x = r then ws else s.owed x) := hw'
        by_cases hx : x = r
        · subst hx
          simp only [if_true] at hw''
          exact hI.owedLt x w' (by rw [ho]; simp [hw''])
        · simp only [hx, if_false] at hw''
          exact hI.owedLt x w' hw''
      · intro x e he
        have he' : e ∈ (if x = r then s.flight r ++ [(a, g.2)] else s.flight x) := he
        by_cases hx : x = r
        · subst hx
          simp only [if_true, List.mem_append, List.mem_singleton] at he'
          rcases he' with h | h
          · exact hI.flightLt x e h
          · rw [h]; exact hI.owedLt x g.2 (by rw [ho]; simp)
        · simp only [hx, if_false] at he'
          exact hI.flightLt x e he'
      · intro x w' hw'
        show w' ∈ (if x = r then ws else s.owed x) ∨ ∃ a', (a', w') ∈ (if x = r then s.flight r ++ [(a, g.2)] else s.flight x)
        rcases hI.backed x w' hw' with h | ⟨a', h⟩
        · by_cases hx : x = r
          · subst hx
            rw [ho] at h
            simp only [List.mem_cons] at h
            rcases h with e | e
            · right; exact ⟨a, by simp [e]⟩
            · left; simp [e]
          · left; simp [hx, h]
        · right
          by_cases hx : x = r
          · subst hx; exact ⟨a', by simp [h]⟩
          · exact ⟨a', by simp [hx, h]⟩

theorem map_eraseIdx {α β : Type} (f : α → β) (l : List α) (k : Nat) :
    (l.eraseIdx k).map f = (l.map f).eraseIdx k := by
  induction l generalizing k with
  | nil => rfl
  | cons a as ih => cases k <;> simp [ih]

def deliveredM (m : W) (r : RId) (k : Nat) : W :=
  { m with flight := fun x => if x = r then (m.flight r).eraseIdx k else m.flight x }

theorem sim_deliver {m : W} {s : S} (hR : Rel m s) (r : RId) (k : Nat) :
    (Writer.step m (.deliver r k)).2 = (WriterSpec.step s (.deliver r k)).2 ∧
      Rel (Writer.step m (.deliver r k)).1 (WriterSpec.step s (.deliver r k)).1 := by
  have hI := hR.inv
  have hfl := hR.flight r
  cases hk : (m.flight r)[k]? with
  | none =>
    have hk' : (s.flight r)[k]? = none := by rw [← hfl]; simp [hk]
    have e1 : Writer.step m (.deliver r k) = (m, Out.mk .skip [] []) := by simp [Writer.step, stepWith, hk]
    have e2 : WriterSpec.step s (.deliver r k) = (s, Out.mk .skip [] []) := by simp [WriterSpec.step, hk']
    rw [e1, e2]; exact ⟨rfl, hR⟩
  | some e =>
    have hk' : (s.flight r)[k]? = some (e.1, e.2.2) := by rw [← hfl]; simp [hk]
    have e1 : Writer.step m (.deliver r k) = receive (deliveredM m r k) e.1 r e.2.1 e.2.2 := by
      simp [Writer.step, stepWith, hk, deliveredM]
    have e2 : WriterSpec.step s (.deliver r k) =
        arrive (withQ s s.owed (fun x => if x = r then (s.flight r).eraseIdx k else s.flight x)) e.2.2 r e.1 := by
      simp [WriterSpec.step, hk', withQ]
    rw [e1, e2]
    have hmemk : e ∈ m.flight r := List.mem_of_getElem? hk
    apply sim_recv (m1 := deliveredM m r k) hR r e.2.1 e.2.2 e.1 _ _ rfl rfl rfl rfl rfl rfl rfl
    · intro x; exact hR.queue x
    · intro x
      show ((if x = r then (m.flight r).eraseIdx k else m.flight x)).map (fun e => (e.1, e.2.2)) =
        (if x = r then (s.flight r).eraseIdx k else s.flight x)
      by_cases hx : x = r
      · subst hx; simp only [if_true]; rw [← hfl, map_eraseIdx]
      · simp [hx, hR.flight x]
    · intro x y hy
      have hy' : y ∈ fifo m x ++ ((if x = r then (m.flight r).eraseIdx k else m.flight x)).map (·.2) := hy
      simp only [entries]
      by_cases hx : x = r
      · subst hx
        simp only [if_true, List.mem_append, List.mem_map] at hy' ⊢
        rcases hy' with h | ⟨z, hz, rfl⟩
        · exact Or.inl h
        · exact Or.inr ⟨z, List.mem_of_mem_eraseIdx hz, rfl⟩
      · simpa [hx] using hy'
    · simp only [entries, List.mem_append, List.mem_map]
      exact Or.inr ⟨e, hmemk, rfl⟩
    · exact hR.pendClosed
    · exact hR.dropsOpen
    · exact hI.owedLt
    · intro x y hy
      by_cases hx : x = r
      · subst hx
        simp only [if_true] at hy
        exact hI.flightLt x y (List.mem_of_mem_eraseIdx hy)
      · simp only [hx, if_false] at hy
        exact hI.flightLt x y hy
    · intro x w' hw'
      rcases hI.backed x w' hw' with h | ⟨a', h⟩
      · exact Or.inr (Or.inl h)
      · by_cases hx : x = r
        · subst hx
          by_cases hww : w' = e.2.2
          · exact Or.inl ⟨rfl, hww⟩
          · right; right
            refine ⟨a', ?_⟩
            simp only [if_true]
            -- (a', w') is an element of the flight other than the erased one
            obtain ⟨j, hj⟩ := List.getElem?_of_mem h
            have hjk : j ≠ k := by
              intro ejk; subst ejk
              rw [hk'] at hj
              injection hj with hj
              exact hww (congrArg Prod.snd hj).symm
            exact List.mem_eraseIdx_iff_getElem?.2 ⟨j, hjk, hj⟩
        · right; right; exact ⟨a', by simp [hx, h]⟩

theorem sim_closeR {m : W} {s : S} (hR : Rel m s) (r : RId) :
    (Writer.step m (.closeR r)).2 = (WriterSpec.step s (.closeR r)).2 ∧
      Rel (Writer.step m (.closeR r)).1 (WriterSpec.step s (.closeR r)).1 := by
  by_cases hc : s.closed r = true
  · have hmc : m.closed r = true := by rw [hR.closed]; exact hc
    have e1 : Writer.step m (.closeR r) = (m, Out.mk (.cnt 0) [] []) := by simp [Writer.step, stepWith, hmc]
    have e2 : WriterSpec.step s (.closeR r) = (s, Out.mk (.cnt 0) [] []) := by simp [WriterSpec.step, hc]
    rw [e1, e2]; exact ⟨rfl, hR⟩
  have hc' : s.closed r = false := by simpa using hc
  have hmc : m.closed r = false := by rw [hR.closed]; exact hc'
  have hfm : fifo m r = m.pend r := by simp [fifo, hmc]
  have hlen : (m.pend r).length = (s.owed r).length := by
    have := congrArg List.length (hR.queue r)
    rw [hfm] at this; simpa using this
  have e1 : Writer.step m (.closeR r) = (closeReader m r, Out.mk (.cnt (m.pend r).length) [] []) := by
    simp [Writer.step, stepWith, hmc, closeReader]
  have e2 : WriterSpec.step s (.closeR r) =
      ({ s with closed := fun x => if x = r then true else s.closed x }, Out.mk (.cnt (s.owed r).length) [] []) := by
    simp [WriterSpec.step, hc']
  rw [e1, e2]
  refine ⟨by rw [hlen], ?_⟩
  have hfifo : ∀ x, fifo (closeReader m r) x = fifo m x := by
    intro x
    by_cases hx : x = r
    · subst hx; simp [fifo, closeReader, hmc]
    · simp [fifo, closeReader, hx]
  refine ⟨hR.readers, hR.rows, hR.writes, hR.written, hR.done, ?_, hR.linksLen, ?_, ?_, ?_, hR.flight, ?_, ?_⟩
  · show (fun x => if x = r then true else m.closed x) = fun x => if x = r then true else s.closed x
    rw [hR.closed]
  · intro x hx0
    have hx : (if x = r then true else m.closed x) = true := hx0
    show (if x = r then [] else m.pend x) = []
    split
    · rfl
    · rename_i hne
      have : m.closed x = true := by simpa [hne] using hx
      exact hR.pendClosed x this
  · intro x hx0
    have hx : (if x = r then true else m.closed x) = false := hx0
    show (if x = r then m.pend r else m.drops x) = []
    have hne : ¬ x = r := fun e => by simp [e] at hx
    rw [if_neg hne]
    have : m.closed x = false := by simpa [hne] using hx
    exact hR.dropsOpen x this
  · intro x; rw [hfifo]; exact hR.queue x
  · intro x e he hs
    have hlo : linkOf (closeReader m r) x = linkOf m x := rfl
    rw [hlo]
    apply hR.ent x e _ hs
    have he' : e ∈ fifo (closeReader m r) x ++ (m.flight x).map (·.2) := he
    rw [hfifo] at he'
    exact he'
  · exact ⟨⟨hR.inv.nodup, hR.inv.rows, hR.inv.head, hR.inv.fin, hR.inv.finRows⟩, hR.inv.owedLt, hR.inv.flightLt, hR.inv.backed⟩

theorem arrive_ret' (s : S) (w : Nat) (r : RId) (a : Ans) : ∃ b, (arrive s w r a).2.ret = .ok b := by
  simp only [arrive]
  split
  · exact ⟨_, rfl⟩
  · split
    · exact ⟨_, rfl⟩
    · split <;> exact ⟨_, rfl⟩

theorem sim_drop {m : W} {s : S} (hR : Rel m s) (r : RId) :
    (Writer.step m (.deliverDrop r)).2 = (WriterSpec.step s (.deliverDrop r)).2 ∧
      Rel (Writer.step m (.deliverDrop r)).1 (WriterSpec.step s (.deliverDrop r)).1 := by
  by_cases hc : s.closed r = true
  rotate_left
  · have hc' : s.closed r = false := by simpa using hc
    have hmc : m.closed r = false := by rw [hR.closed]; exact hc'
    have hdz := hR.dropsOpen r hmc
    have e1 : Writer.step m (.deliverDrop r) = (m, Out.mk .skip [] []) := by simp [Writer.step, stepWith, hdz]
    have e2 : WriterSpec.step s (.deliverDrop r) = (s, Out.mk .skip [] []) := by simp [WriterSpec.step, hc']
    rw [e1, e2]; exact ⟨rfl, hR⟩
  have hmc : m.closed r = true := by rw [hR.closed]; exact hc
  have hfm : fifo m r = m.drops r := by simp [fifo, hmc]
  cases hp : m.drops r with
  | nil =>
    have ho := queue_nil hR (hfm.trans hp)
    have e1 : Writer.step m (.deliverDrop r) = (m, Out.mk .skip [] []) := by simp [Writer.step, stepWith, hp]
    have e2 : WriterSpec.step s (.deliverDrop r) = (s, Out.mk .skip [] []) := by simp [WriterSpec.step, hc, ho]
    rw [e1, e2]; exact ⟨rfl, hR⟩
  | cons g gs =>
    obtain ⟨ws, ho⟩ := queue_cons hR (hfm.trans hp)
    have hpop := sim_pop_recv (m1 := popDrops m r gs) hR r g.1 g.2 gs ws Ans.dropped rfl rfl rfl rfl rfl rfl rfl rfl
      (fifo_popDrops m r gs hmc)
      (by intro x hcl; exact hR.pendClosed x hcl)
      (by
        intro x hcl0
        have hcl : m.closed x = false := hcl0
        show (if x = r then gs else m.drops x) = []
        have hne : x ≠ r := fun e => by rw [e, hmc] at hcl; cases hcl
        rw [if_neg hne]; exact hR.dropsOpen x hcl)
      (by rw [hfm, hp]) ho
    obtain ⟨b, hb⟩ := arrive_ret' (withQ s (fun x => if x = r then ws else s.owed x) s.flight) g.2 r Ans.dropped
    have hret : (receiveWith true (popDrops m r gs) Ans.dropped r g.1 g.2).2.ret = .ok b := by
      have := hpop.1; simp only [receive] at this; rw [this]; exact hb
    have e1 : Writer.step m (.deliverDrop r) =
        ((receive (popDrops m r gs) Ans.dropped r g.1 g.2).1,
         { (receive (popDrops m r gs) Ans.dropped r g.1 g.2).2 with ret := .unit }) := by
      simp only [popDrops] at hret
      simp [Writer.step, stepWith, hp, popDrops, hret]
    have e2 : WriterSpec.step s (.deliverDrop r) =
        ((arrive (withQ s (fun x => if x = r then ws else s.owed x) s.flight) g.2 r Ans.dropped).1,
         { (arrive (withQ s (fun x => if x = r then ws else s.owed x) s.flight) g.2 r Ans.dropped).2 with ret := .unit }) := by
      simp [WriterSpec.step, hc, ho, withQ]
    rw [e1, e2]
    refine ⟨?_, hpop.2⟩
    rw [hpop.1]

theorem sim_closeW {m : W} {s : S} (hR : Rel m s) :
    (Writer.step m .closeW).2 = (WriterSpec.step s .closeW).2 ∧
      Rel (Writer.step m .closeW).1 (WriterSpec.step s .closeW).1 := by
  by_cases hd : s.done = true
  · have hmd : m.done = true := hR.done.trans hd
    have e1 : Writer.step m .closeW = (m, Out.mk .unit [] []) := by simp [Writer.step, stepWith, hmd]
    have e2 : WriterSpec.step s .closeW = (s, Out.mk .unit [] []) := by simp [WriterSpec.step, hd]
    rw [e1, e2]; exact ⟨rfl, hR⟩
  have hd' : s.done = false := by simpa using hd
  have hmd : m.done = false := hR.done.trans hd'
  have e1 : Writer.step m .closeW =
      ({ m with done := true, readers := [], links := [], rows := [], writes := [] },
       Out.mk .unit (m.rows.map fun _ => Resp.dropped) []) := by simp [Writer.step, stepWith, hmd]
  have e2 : WriterSpec.step s .closeW =
      ({ s with done := true, linked := [], rows := [], emittedIds := s.emittedIds ++ s.rows.map (·.wid) },
       Out.mk .unit (s.rows.map fun _ => Resp.dropped) []) := by simp [WriterSpec.step, hd']
  rw [e1, e2]
  refine ⟨by rw [hR.rows]; simp, ?_⟩
  refine ⟨rfl, rfl, rfl, hR.written, rfl, hR.closed, rfl, hR.pendClosed, hR.dropsOpen, hR.queue, hR.flight, ?_, ?_⟩
  · intro r e _ hs
    obtain ⟨row, hm, _⟩ := hs
    cases hm
  · exact ⟨⟨by simp, ⟨by simp, by simp, by simp, by simp⟩, by simp, by simp, by simp⟩,
      hR.inv.owedLt, hR.inv.flightLt, by simp [owedBy]⟩

/-- One step of the model is one step of the specification – every step, from every related
pair of states. -/
theorem sim_step {m : W} {s : S} (hR : Rel m s) (st : Step) :
    (Writer.step m st).2 = (WriterSpec.step s st).2 ∧ Rel (Writer.step m st).1 (WriterSpec.step s st).1 := by
  cases st with
  | link r => exact sim_link hR r
  | unlink r => exact sim_unlink hR r
  | write v => exact sim_write hR v
  | answer r a => exact sim_answer hR r a
  | pop r a => exact sim_popStep hR r a
  | deliver r k => exact sim_deliver hR r k
  | closeR r => exact sim_closeR hR r
  | deliverDrop r => exact sim_drop hR r
  | closeW => exact sim_closeW hR

theorem sim_run {m : W} {s : S} (hR : Rel m s) (h : List Step) :
    (Writer.runFrom m h).2 = (WriterSpec.runFrom s h).2 ∧
    Rel (Writer.runFrom m h).1 (WriterSpec.runFrom s h).1 := by
  induction h generalizing m s with
  | nil => exact ⟨rfl, hR⟩
  | cons st h ih =>
    obtain ⟨e, hR'⟩ := sim_step hR st
    obtain ⟨i1, i2⟩ := ih hR'
    simp only [Writer.runFrom, WriterSpec.runFrom, e, i1]
    exact ⟨trivial, i2⟩

/-! ### The window inside `Write`: readers closing between `accepting()` and `Reader.write` -/

theorem sim_closeAll {m : W} {s : S} (hR : Rel m s) (cs : List RId) :
    (Writer.closeAll m cs).2 = (WriterSpec.closeAll s cs).2 ∧
      Rel (Writer.closeAll m cs).1 (WriterSpec.closeAll s cs).1 := by
  induction cs generalizing m s with
  | nil => exact ⟨rfl, hR⟩
  | cons r rs ih =>
    obtain ⟨e, hR'⟩ := sim_step hR (.closeR r)
    obtain ⟨i1, i2⟩ := ih hR'
    simp only [Writer.closeAll, WriterSpec.closeAll, e, i1]
    exact ⟨trivial, i2⟩

theorem isRequest_eq {m : W} {s : S} (hR : Rel m s) : Writer.isRequest m = WriterSpec.isRequest s := by
  simp only [Writer.isRequest, WriterSpec.isRequest, hR.done, hR.readers, hR.closed]
  cases hl : s.linked with
  | nil => simp [accepting]
  | cons a t => simp

/-- One extended step (a base step, or a `Write` inside which readers close) of the model is one
extended step of the specification. -/
theorem sim_xstep {m : W} {s : S} (hR : Rel m s) (st : XStep) :
    (Writer.xstep m st).2 = (WriterSpec.xstep s st).2 ∧ Rel (Writer.xstep m st).1 (WriterSpec.xstep s st).1 := by
  have hq := isRequest_eq hR
  cases st with
  | base b =>
    obtain ⟨e, hR'⟩ := sim_step hR b
    simp only [Writer.xstep, WriterSpec.xstep, e, hq]
    exact ⟨trivial, hR'⟩
  | writeH v cs =>
    simp only [Writer.xstep, WriterSpec.xstep, hq]
    split
    · obtain ⟨c1, c2⟩ := sim_closeAll hR cs
      obtain ⟨e, hR'⟩ := sim_step c2 (.write v)
      simp only [e, c1]
      exact ⟨trivial, hR'⟩
    · exact ⟨rfl, hR⟩

theorem sim_xrun {m : W} {s : S} (hR : Rel m s) (h : List XStep) :
    (Writer.xrunFrom m h).2 = (WriterSpec.xrunFrom s h).2 ∧
    Rel (Writer.xrunFrom m h).1 (WriterSpec.xrunFrom s h).1 := by
  induction h generalizing m s with
  | nil => exact ⟨rfl, hR⟩
  | cons st h ih =>
    obtain ⟨e, hR'⟩ := sim_xstep hR st
    obtain ⟨i1, i2⟩ := ih hR'
    simp only [Writer.xrunFrom, WriterSpec.xrunFrom, e, i1]
    exact ⟨trivial, i2⟩

end Uniflow.WriterProofs
