/-
Drop notices of a closed reader commute (C03, used by `C03.drop_notices_commute`).

`Reader.Close` spawns one goroutine per request the reader still owes, each running
`(*Writer).receive(dropped, r, link, write)`.  They run in any order.  Since responses are matched
to their rows by WRITE NUMBER (fix b041313) the order does not matter: the rows they leave and the
responses they make the writer emit – all of them, in order – are the same.  Proved on C01's
specification (`arrive`: credit the slot of `r` in the row of write `w`, then flush the complete
rows at the head) and carried to the writer model by C01's `sim_arrive`.
-/
import Uniflow.Proofs.WriterSim

namespace Uniflow.DropCommute
open Uniflow Uniflow.Writer Uniflow.WriterSpec Uniflow.WriterProofs

/-- Crediting two different writes commutes. -/
theorem credit_comm {w1 w2 : Nat} (hne : w1 ≠ w2) (r : RId) (a b : Fill) :
    ∀ (X Y1 Y2 : List SRow), credit w1 r a X = some Y1 → credit w2 r b X = some Y2 →
      ∃ Z, credit w2 r b Y1 = some Z ∧ credit w1 r a Y2 = some Z := by
  intro X
  induction X with
  | nil => intro Y1 Y2 h1; simp [credit] at h1
  | cons row rest ih =>
    intro Y1 Y2 h1 h2
    by_cases e1 : row.wid = w1
    · have e2 : ¬ row.wid = w2 := fun h => hne (e1.symm.trans h)
      simp only [credit, e1, if_true] at h1
      simp only [credit, e2, if_false] at h2
      split at h1
      · rename_i ho
        injection h1 with h1; subst h1
        cases hc : credit w2 r b rest with
        | none => simp [hc] at h2
        | some Yr =>
          simp only [hc, Option.map_some, Option.some.injEq] at h2; subst h2
          refine ⟨row.fill r a :: Yr, ?_, ?_⟩
          · have : ¬ (row.fill r a).wid = w2 := e2
            simp only [credit, this, if_false, hc, Option.map_some]
          · simp only [credit, e1, if_true, ho]
      · simp at h1
    · by_cases e2 : row.wid = w2
      · simp only [credit, e1, if_false] at h1
        simp only [credit, e2, if_true] at h2
        split at h2
        · rename_i ho
          injection h2 with h2; subst h2
          cases hc : credit w1 r a rest with
          | none => simp [hc] at h1
          | some Yr =>
            simp only [hc, Option.map_some, Option.some.injEq] at h1; subst h1
            refine ⟨row.fill r b :: Yr, ?_, ?_⟩
            · simp only [credit, e2, if_true, ho]
            · have : ¬ (row.fill r b).wid = w1 := e1
              simp only [credit, this, if_false, hc, Option.map_some]
        · simp at h2
      · simp only [credit, e1, if_false] at h1
        simp only [credit, e2, if_false] at h2
        cases hc1 : credit w1 r a rest with
        | none => simp [hc1] at h1
        | some Y1r =>
          cases hc2 : credit w2 r b rest with
          | none => simp [hc2] at h2
          | some Y2r =>
            simp only [hc1, Option.map_some, Option.some.injEq] at h1; subst h1
            simp only [hc2, Option.map_some, Option.some.injEq] at h2; subst h2
            obtain ⟨Z, z1, z2⟩ := ih Y1r Y2r hc1 hc2
            exact ⟨row :: Z, by simp [credit, e2, z1], by simp [credit, e1, z2]⟩

/-- If one of the two writes has no slot to credit, crediting the other does not create one. -/
theorem credit_none_stable {w1 w2 : Nat} (hne : w1 ≠ w2) (r : RId) (a b : Fill) :
    ∀ (X Y1 : List SRow), credit w1 r a X = some Y1 → (credit w2 r b Y1 = none ↔ credit w2 r b X = none) := by
  intro X
  induction X with
  | nil => intro Y1 h1; simp [credit] at h1
  | cons row rest ih =>
    intro Y1 h1
    by_cases e1 : row.wid = w1
    · have e2 : ¬ row.wid = w2 := fun h => hne (e1.symm.trans h)
      simp only [credit, e1, if_true] at h1
      split at h1
      · injection h1 with h1; subst h1
        have : ¬ (row.fill r a).wid = w2 := e2
        simp only [credit, this, e2, if_false, Option.map_eq_none_iff]
      · simp at h1
    · simp only [credit, e1, if_false] at h1
      cases hc1 : credit w1 r a rest with
      | none => simp [hc1] at h1
      | some Y1r =>
        simp only [hc1, Option.map_some, Option.some.injEq] at h1; subst h1
        by_cases e2 : row.wid = w2
        · simp only [credit, e2, if_true]
          split <;> simp
        · simp only [credit, e2, if_false, Option.map_eq_none_iff]
          exact ih Y1r hc1

/-- Crediting a row that is still owed something and flushing commute: flushing first only takes
away complete rows in front of it. -/
theorem credit_flush (w : Nat) (r : RId) (b : Fill) :
    ∀ (X Y : List SRow), credit w r b X = some Y →
      ∃ Y', credit w r b (WriterSpec.flush X).1 = some Y' ∧ (WriterSpec.flush Y).1 = (WriterSpec.flush Y').1 ∧
        (WriterSpec.flush Y).2.1 = (WriterSpec.flush X).2.1 ++ (WriterSpec.flush Y').2.1 ∧
        (WriterSpec.flush Y).2.2 = (WriterSpec.flush X).2.2 ++ (WriterSpec.flush Y').2.2 := by
  intro X
  induction X with
  | nil => intro Y h; simp [credit] at h
  | cons row rest ih =>
    intro Y h
    by_cases hn : hasNil row.cells = true
    · exact ⟨Y, by simpa [WriterSpec.flush, hn] using h, rfl, by simp [WriterSpec.flush, hn], by simp [WriterSpec.flush, hn]⟩
    · have hn' : hasNil row.cells = false := by simpa using hn
      have hno : row.owes r = false := owes_false_of_complete hn' r
      by_cases e : row.wid = w
      · simp [credit, e, hno] at h
      · simp only [credit, e, if_false] at h
        cases hc : credit w r b rest with
        | none => simp [hc] at h
        | some Yr =>
          simp only [hc, Option.map_some, Option.some.injEq] at h; subst h
          obtain ⟨Y', i1, i2, i3, i4⟩ := ih Yr hc
          refine ⟨Y', by simpa [WriterSpec.flush, hn'] using i1, ?_, ?_, ?_⟩
          · simp only [WriterSpec.flush, hn', Bool.false_eq_true, if_false]; exact i2
          · simp only [WriterSpec.flush, hn', Bool.false_eq_true, if_false, List.cons_append, i3]
          · simp only [WriterSpec.flush, hn', Bool.false_eq_true, if_false, List.cons_append, i4]

theorem credit_none_of_not_mem (w : Nat) (r : RId) (b : Fill) :
    ∀ X : List SRow, w ∉ X.map (·.wid) → credit w r b X = none := by
  intro X
  induction X with
  | nil => intro _; rfl
  | cons row rest ih =>
    intro h
    simp only [List.map_cons, List.mem_cons, not_or] at h
    have e : ¬ row.wid = w := fun e => h.1 e.symm
    simp only [credit, e, if_false, Option.map_eq_none_iff]
    exact ih h.2

/-- flushing never creates a slot to credit (rows carry distinct write numbers) -/
theorem credit_flush_none (w : Nat) (r : RId) (b : Fill) :
    ∀ X : List SRow, (X.map (·.wid)).Pairwise (· < ·) → credit w r b X = none →
      credit w r b (WriterSpec.flush X).1 = none := by
  intro X
  induction X with
  | nil => intro _ _; rfl
  | cons row rest ih =>
    intro hp h
    simp only [List.map_cons, List.pairwise_cons] at hp
    by_cases hn : hasNil row.cells = true
    · simpa [WriterSpec.flush, hn] using h
    · have hn' : hasNil row.cells = false := by simpa using hn
      simp only [WriterSpec.flush, hn', Bool.false_eq_true, if_false]
      by_cases e : row.wid = w
      · -- the row with that number is complete and goes; no later row carries the same number
        have hnot : w ∉ rest.map (·.wid) := by
          intro hm
          have := hp.1 w hm
          omega
        exact ih hp.2 (credit_none_of_not_mem w r b rest hnot)
      · simp only [credit, e, if_false, Option.map_eq_none_iff] at h
        exact ih hp.2 h

theorem credit_wids (w : Nat) (r : RId) (b : Fill) :
    ∀ X Y : List SRow, credit w r b X = some Y → Y.map (·.wid) = X.map (·.wid) := by
  intro X
  induction X with
  | nil => intro Y h; simp [credit] at h
  | cons row rest ih =>
    intro Y h
    by_cases e : row.wid = w
    · simp only [credit, e, if_true] at h
      split at h
      · injection h with h; subst h; rfl
      · simp at h
    · simp only [credit, e, if_false] at h
      cases hc : credit w r b rest with
      | none => simp [hc] at h
      | some Yr =>
        simp only [hc, Option.map_some, Option.some.injEq] at h; subst h
        simp [ih Yr hc]

/-- Two arrivals (answers or drop notices) of one reader for two different writes commute: the
final specification state is the same, and so is everything emitted, in order. -/
theorem arrive_comm (s : S) (hw : (s.rows.map (·.wid)).Pairwise (· < ·)) {w1 w2 : Nat} (hne : w1 ≠ w2)
    (r : RId) (a b : Ans) :
    (arrive (arrive s w1 r a).1 w2 r b).1 = (arrive (arrive s w2 r b).1 w1 r a).1 ∧
    (arrive s w1 r a).2.emits ++ (arrive (arrive s w1 r a).1 w2 r b).2.emits =
      (arrive s w2 r b).2.emits ++ (arrive (arrive s w2 r b).1 w1 r a).2.emits := by
  by_cases hd : s.done = true
  · simp [arrive, hd]
  by_cases hl' : r ∉ s.linked
  · simp [arrive, hd, hl']
  have hl : r ∈ s.linked := by simpa using hl'
  have hd' : s.done = false := by simpa using hd
  cases c1 : credit w1 r (some a) s.rows with
  | none =>
    cases c2 : credit w2 r (some b) s.rows with
    | none => simp [arrive, hd', hl, c1, c2]
    | some Y2 =>
      have hn : credit w1 r (some a) (WriterSpec.flush Y2).1 = none := by
        apply credit_flush_none
        · rw [credit_wids _ _ _ _ _ c2]; exact hw
        · exact (credit_none_stable hne.symm r (some b) (some a) _ _ c2).2 c1
      simp [arrive, hd', hl, c1, c2, hn]
  | some Y1 =>
    cases c2 : credit w2 r (some b) s.rows with
    | none =>
      have hn : credit w2 r (some b) (WriterSpec.flush Y1).1 = none := by
        apply credit_flush_none
        · rw [credit_wids _ _ _ _ _ c1]; exact hw
        · exact (credit_none_stable hne r (some a) (some b) _ _ c1).2 c2
      simp [arrive, hd', hl, c1, c2, hn]
    | some Y2 =>
      obtain ⟨Z, z1, z2⟩ := credit_comm hne r (some a) (some b) _ _ _ c1 c2
      obtain ⟨Y1', p1, p2, p3, p4⟩ := credit_flush w2 r (some b) Y1 Z z1
      obtain ⟨Y2', q1, q2, q3, q4⟩ := credit_flush w1 r (some a) Y2 Z z2
      simp only [arrive, hd', hl, c1, c2, p1, q1, Bool.false_eq_true, if_false, not_true_eq_false]
      refine ⟨?_, ?_⟩
      · rw [← p2, ← q2, List.append_assoc, List.append_assoc, ← p4, ← q4]
      · rw [← p3, ← q3]

/-! ### carried to the writer model -/

/-- what ties a writer-model state to a specification state, as far as `receive` needs it -/
structure Tied (m : W) (s : S) : Prop where
  readers : m.readers = s.linked
  rows : m.rows = s.rows.map SRow.cells
  writes : m.writes = s.rows.map (·.wid)
  done : m.done = s.done
  linksLen : m.links.length = m.readers.length
  core : Core s

theorem linkOf_rows (m : W) (rows : List Row) (writes : List Nat) (r : RId) :
    linkOf { m with rows := rows, writes := writes } r = linkOf m r := rfl

/-- one delivery: the model follows the specification, and stays tied to it -/
theorem receive_tied {m : W} {s : S} (ht : Tied m s) (r : RId) (a : Ans) (l w : Nat)
    (hE : hasSlot s.rows w r → linkOf m r = some l) :
    (receive m a r l w).2.emits = (arrive s w r a).2.emits ∧
    (receive m a r l w).1 = { m with rows := (arrive s w r a).1.rows.map SRow.cells,
                                     writes := (arrive s w r a).1.rows.map (·.wid) } ∧
    Tied (receive m a r l w).1 (arrive s w r a).1 ∧
    (∀ w' r', hasSlot (arrive s w r a).1.rows w' r' → hasSlot s.rows w' r') := by
  obtain ⟨h1, h2, h3, _, _, h6⟩ := sim_arrive w l r a ht.readers ht.rows ht.writes ht.done ht.linksLen ht.core hE
  obtain ⟨f1, f2, _, _, _, _⟩ := arrive_fields s w r a
  refine ⟨by rw [h1], h2, ?_, h6⟩
  rw [h2]
  exact ⟨by rw [f1]; exact ht.readers, rfl, rfl, by rw [f2]; exact ht.done, ht.linksLen, h3⟩

/-- Two deliveries for two different writes commute on the writer model. -/
theorem receive_comm {m : W} {s : S} (ht : Tied m s) (r : RId) (a b : Ans) (n1 n2 : Nat × Nat) (hne : n1.2 ≠ n2.2)
    (h1 : hasSlot s.rows n1.2 r → linkOf m r = some n1.1) (h2 : hasSlot s.rows n2.2 r → linkOf m r = some n2.1) :
    (receive (receive m a r n1.1 n1.2).1 b r n2.1 n2.2).1 = (receive (receive m b r n2.1 n2.2).1 a r n1.1 n1.2).1 ∧
    (receive m a r n1.1 n1.2).2.emits ++ (receive (receive m a r n1.1 n1.2).1 b r n2.1 n2.2).2.emits =
      (receive m b r n2.1 n2.2).2.emits ++ (receive (receive m b r n2.1 n2.2).1 a r n1.1 n1.2).2.emits := by
  obtain ⟨a1, a2, a3, a4⟩ := receive_tied ht r a n1.1 n1.2 h1
  obtain ⟨b1, b2, b3, b4⟩ := receive_tied ht r b n2.1 n2.2 h2
  have h2' : hasSlot (arrive s n1.2 r a).1.rows n2.2 r → linkOf (receive m a r n1.1 n1.2).1 r = some n2.1 := by
    intro hs; rw [a2, linkOf_rows]; exact h2 (a4 _ _ hs)
  have h1' : hasSlot (arrive s n2.2 r b).1.rows n1.2 r → linkOf (receive m b r n2.1 n2.2).1 r = some n1.1 := by
    intro hs; rw [b2, linkOf_rows]; exact h1 (b4 _ _ hs)
  obtain ⟨c1, c2, _, _⟩ := receive_tied a3 r b n2.1 n2.2 h2'
  obtain ⟨d1, d2, _, _⟩ := receive_tied b3 r a n1.1 n1.2 h1'
  obtain ⟨e1, e2⟩ := arrive_comm s ht.core.rows.wids hne r a b
  refine ⟨?_, ?_⟩
  · rw [c2, d2, a2, b2, e1]
  · rw [a1, c1, b1, d1]; exact e2

/-- Deliver the notices `ns` (link generation, write number) of reader `r`, in that order: the
final state and everything emitted. -/
def dropAll (m : W) (r : RId) : List (Nat × Nat) → W × List Resp
  | [] => (m, [])
  | n :: ns => ((dropAll (receive m Ans.dropped r n.1 n.2).1 r ns).1,
                (receive m Ans.dropped r n.1 n.2).2.emits ++ (dropAll (receive m Ans.dropped r n.1 n.2).1 r ns).2)

/-- Every order of delivery of a set of drop notices with different write numbers leaves the same
writer state and makes the writer emit the same responses, in the same order. -/
theorem dropAll_perm {r : RId} {ns1 ns2 : List (Nat × Nat)} (hp : ns1.Perm ns2) :
    ∀ (m : W) (s : S), Tied m s → (ns1.map Prod.snd).Nodup →
      (∀ n ∈ ns1, hasSlot s.rows n.2 r → linkOf m r = some n.1) → dropAll m r ns1 = dropAll m r ns2 := by
  induction hp with
  | nil => intro m s _ _ _; rfl
  | cons x _ ih =>
    intro m s ht hnd hE
    simp only [List.map_cons, List.nodup_cons] at hnd
    obtain ⟨_, a2, a3, a4⟩ := receive_tied ht r Ans.dropped x.1 x.2 (hE x (by simp))
    have := ih _ _ a3 hnd.2 (fun n hn hs => by rw [a2, linkOf_rows]; exact hE n (by simp [hn]) (a4 _ _ hs))
    simp only [dropAll, this]
  | swap x y l =>
    intro m s ht hnd hE
    simp only [List.map_cons, List.nodup_cons, List.mem_cons, not_or] at hnd
    have hne : y.2 ≠ x.2 := hnd.1.1
    obtain ⟨c1, c2⟩ := receive_comm ht r Ans.dropped Ans.dropped y x hne (hE y (by simp)) (hE x (by simp))
    simp only [dropAll]
    rw [c1, ← List.append_assoc, ← List.append_assoc, c2]
  | trans p1 _ ih1 ih2 =>
    intro m s ht hnd hE
    rw [ih1 m s ht hnd hE]
    exact ih2 m s ht ((p1.map Prod.snd).nodup_iff.1 hnd) (fun n hn => hE n (p1.mem_iff.2 hn))

/-! ### the write numbers in a reader's queue are strictly increasing -/

structure QSorted (m : W) : Prop where
  pend : ∀ r, ((m.pend r).map Prod.snd).Pairwise (· < ·)
  pendLt : ∀ r, ∀ e ∈ m.pend r, e.2 < m.written
  drops : ∀ r, ((m.drops r).map Prod.snd).Pairwise (· < ·)

theorem receive_q (m : W) (a : Ans) (r : RId) (l w : Nat) :
    (receive m a r l w).1.pend = m.pend ∧ (receive m a r l w).1.drops = m.drops ∧ (receive m a r l w).1.written = m.written := by
  simp only [receive, receiveWith]
  repeat (first | exact ⟨rfl, rfl, rfl⟩ | split)

theorem qsorted_of_eq {m m' : W} (h : QSorted m) (h1 : m'.pend = m.pend) (h2 : m'.drops = m.drops) (h3 : m'.written = m.written) :
    QSorted m' :=
  ⟨by rw [h1]; exact h.pend, by rw [h1, h3]; exact h.pendLt, by rw [h2]; exact h.drops⟩

theorem pairwise_tail {l : List (Nat × Nat)} {g : Nat × Nat} {rest : List (Nat × Nat)} (he : l = g :: rest)
    (h : (l.map Prod.snd).Pairwise (· < ·)) : (rest.map Prod.snd).Pairwise (· < ·) := by
  rw [he] at h; simp only [List.map_cons, List.pairwise_cons] at h; exact h.2

theorem qsorted_step (m : W) (st : Writer.Step) (h : QSorted m) : QSorted (Writer.step m st).1 := by
  cases st with
  | link r => simp only [Writer.step, stepWith]; repeat (first | exact h | exact ⟨h.pend, h.pendLt, h.drops⟩ | split)
  | unlink r => simp only [Writer.step, stepWith]; repeat (first | exact h | exact ⟨h.pend, h.pendLt, h.drops⟩ | split)
  | closeW => simp only [Writer.step, stepWith]; repeat (first | exact h | exact ⟨h.pend, h.pendLt, h.drops⟩ | split)
  | write v =>
    simp only [Writer.step, stepWith]
    split
    · exact h
    split
    · exact h
    split
    · exact h
    have key : ∀ r, (((if r ∈ accepting m.closed m.readers then m.pend r ++ (linkOf m r).toList.map (·, m.written) else m.pend r).map Prod.snd).Pairwise (· < ·)) ∧
        ∀ e ∈ (if r ∈ accepting m.closed m.readers then m.pend r ++ (linkOf m r).toList.map (·, m.written) else m.pend r), e.2 < m.written + 1 := by
      intro r
      split
      · constructor
        · simp only [List.map_append, List.pairwise_append]
          refine ⟨h.pend r, ?_, ?_⟩
          · cases linkOf m r <;> simp
          · intro x hx y hy
            obtain ⟨e, he, rfl⟩ := List.mem_map.1 hx
            have := h.pendLt r e he
            cases hl : linkOf m r with
            | none => simp [hl] at hy
            | some g => simp [hl] at hy; omega
        · intro e he
          rcases List.mem_append.1 he with he | he
          · have := h.pendLt r e he; omega
          · cases hl : linkOf m r with
            | none => simp [hl] at he
            | some g => simp [hl] at he; subst he; simp
      · exact ⟨h.pend r, fun e he => by have := h.pendLt r e he; omega⟩
    split
    · exact ⟨fun r => (key r).1, fun r => (key r).2, h.drops⟩
    · rename_i hacc
      have hnil : accepting m.closed m.readers = [] := by
        cases hl : accepting m.closed m.readers with
        | nil => rfl
        | cons _ _ => rw [hl] at hacc; simp at hacc
      refine ⟨fun r => ?_, fun r e he => ?_, h.drops⟩
      · simp only [hnil, List.not_mem_nil, if_false]; exact h.pend r
      · simp only [hnil, List.not_mem_nil, if_false] at he; exact h.pendLt r e he
  | answer r a =>
    simp only [Writer.step, stepWith]
    split
    · exact h
    · rename_i g rest hp
      obtain ⟨q1, q2, q3⟩ := receive_q { m with pend := fun x => if x = r then rest else m.pend x } a r g.1 g.2
      refine qsorted_of_eq (m := { m with pend := fun x => if x = r then rest else m.pend x }) ⟨?_, ?_, h.drops⟩ q1 q2 q3
      · intro x; simp only; split
        · exact pairwise_tail hp (h.pend r)
        · exact h.pend x
      · intro x e he; simp only at he; split at he
        · exact h.pendLt r e (by rw [hp]; exact List.mem_cons_of_mem _ he)
        · exact h.pendLt x e he
  | pop r a =>
    simp only [Writer.step, stepWith]
    split
    · exact h
    · rename_i g rest hp
      refine ⟨?_, ?_, h.drops⟩
      · intro x; simp only; split
        · exact pairwise_tail hp (h.pend r)
        · exact h.pend x
      · intro x e he; simp only at he; split at he
        · exact h.pendLt r e (by rw [hp]; exact List.mem_cons_of_mem _ he)
        · exact h.pendLt x e he
  | deliver r k =>
    simp only [Writer.step, stepWith]
    split
    · exact h
    · rename_i e _
      obtain ⟨q1, q2, q3⟩ := receive_q { m with flight := fun x => if x = r then (m.flight r).eraseIdx k else m.flight x } e.1 r e.2.1 e.2.2
      exact qsorted_of_eq (m := { m with flight := fun x => if x = r then (m.flight r).eraseIdx k else m.flight x }) ⟨h.pend, h.pendLt, h.drops⟩ q1 q2 q3
  | closeR r =>
    simp only [Writer.step, stepWith]
    split
    · exact h
    · refine ⟨?_, ?_, ?_⟩
      · intro x; simp only; split
        · simp
        · exact h.pend x
      · intro x e he; simp only at he; split at he
        · cases he
        · exact h.pendLt x e he
      · intro x; simp only; split
        · exact h.pend r
        · exact h.drops x
  | deliverDrop r =>
    simp only [Writer.step, stepWith]
    split
    · exact h
    · rename_i g rest hp
      obtain ⟨q1, q2, q3⟩ := receive_q { m with drops := fun x => if x = r then rest else m.drops x } Ans.dropped r g.1 g.2
      refine qsorted_of_eq (m := { m with drops := fun x => if x = r then rest else m.drops x }) ⟨h.pend, h.pendLt, ?_⟩ q1 q2 q3
      intro x; simp only; split
      · exact pairwise_tail hp (h.drops r)
      · exact h.drops x

theorem qsorted_run (m : W) (h : List Writer.Step) (hq : QSorted m) : QSorted (Writer.runFrom m h).1 := by
  induction h generalizing m with
  | nil => exact hq
  | cons st rest ih => simp only [Writer.runFrom]; exact ih _ (qsorted_step m st hq)

theorem qsorted_init : QSorted W.init := ⟨by simp [W.init], by simp [W.init], by simp [W.init]⟩

end Uniflow.DropCommute
