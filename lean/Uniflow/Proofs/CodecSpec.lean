/-
Typed spec → `spec.Unstructured` (the same inline meta struct + an inline `map[string]any`): the generic document
keeps every entry (Props/C16.lean: spec_roundtrip). Core Lean only.
-/
import Uniflow.Proofs.CodecStruct

namespace Uniflow.Codec
open Uniflow.Value

theorem genDoc_of_find : ∀ (m : PList) (k : Bytes) (x : Val), genDocP m = true → mapFind m k = some x → genDoc x = true
  | .nil, _, _, _, hf => by simp [mapFind] at hf
  | .cons k0 v0 rest, k, x, h, hf => by
    simp only [genDocP, Bool.and_eq_true] at h
    cases k0 <;> simp only [mapFind] at hf
    case str k0' =>
      by_cases e : k = k0'
      · simp [e] at hf; subst hf; exact h.1
      · simp [e] at hf; exact genDoc_of_find rest k x h.2 hf
    all_goals exact genDoc_of_find rest k x h.2 hf

theorem rtx_any_of_genDoc {x : Val} (h : genDoc x = true) : RTx .any x :=
  ⟨generic x, dec_any x (by intro m e; rw [e] at h; simp [genDoc] at h), enc_generic x h⟩

/-- The unstructured view of a typed spec. `mf` are the meta fields (inline in both types), `rest` the typed
spec's own fields. -/
theorem spec_to_unstructured (mf rest : Fields) (mvs rvs : GoVals)
    (hT : (GoType.struct (.cons .inline [] (.struct mf) rest)).wf = true)
    (hv : hasType (.struct (.cons .inline [] (.struct mf) rest)) (.struct (.cons (.struct mvs) rvs)) = true) :
    ∃ mws kvs,
      decode (.struct (.cons .inline [] (.struct mf) (.cons .inline [] (.map .any) .nil)))
        (encode (.struct (.cons .inline [] (.struct mf) rest)) (.struct (.cons (.struct mvs) rvs)))
        = .ok (.struct (.cons (.struct mws) (.cons (.map kvs) .nil))) ∧
      Dec true mf mvs mws ∧
      (∀ k, lastKV .any kvs k =
        if k ∈ aliases mf then none
        else mapFind (encodeFields (.cons .inline [] (.struct mf) rest) (.cons (.struct mvs) rvs) .nil) k) ∧
      encode (.struct (.cons .inline [] (.struct mf) (.cons .inline [] (.map .any) .nil)))
        (.struct (.cons (.struct mws) (.cons (.map kvs) .nil)))
        = encode (.struct (.cons .inline [] (.struct mf) rest)) (.struct (.cons (.struct mvs) rvs)) := by
  simp only [GoType.wf, Fields.wf, Bool.and_eq_true, decide_eq_true_eq, aliases, List.nodup_append] at hT
  obtain ⟨⟨⟨⟨hmw, hm0⟩, hrw⟩, _⟩, hndm, hndr, hndx⟩ := hT
  simp only [hasType, hasTypeF, Bool.and_eq_true, List.all_eq_true, Bool.not_eq_true', List.contains_eq_mem,
    decide_eq_false_iff_not, inlineKeys, aliases, List.mem_append, not_or] at hv
  obtain ⟨⟨⟨htm, _⟩, htr⟩, hdj⟩ := hv
  have hik : inlineKeys mf mvs = [] := inlineKeys_nil mf mvs hm0
  -- the typed document
  have sp := fun k => encodeFields_spec k (.cons .inline [] (.struct mf) rest) (.cons (.struct mvs) rvs) .nil rfl
  have hdoc : ∀ k, mapFind (encodeFields (.cons .inline [] (.struct mf) rest) (.cons (.struct mvs) rvs) .nil) k
      = (lastF rest rvs k).or (lastF mf mvs k) := by
    intro k; rw [(sp k).2]; simp [lastF, mapFind]
  have hrest_none : ∀ a ∈ aliases mf, lastF rest rvs a = none := by
    intro a ha
    exact lastF_none a rest rvs hrw htr (fun hr => hndx a ha a hr rfl) (fun hk => (hdj a hk).1 ha)
  have hih := rt_allF mvs mf hmw htm
  obtain ⟨ws1, m1, hp1, hs1, hf1, hd1⟩ := phase1_ok mf mvs _ hmw htm (sp []).1 hndm (by rw [hik]; simp)
    (by intro a ha; rw [hdoc a, hrest_none a ha]; simp) hih
  have hd1t := dec_final_of_noinl mf mvs ws1 hm0 hd1
  -- the rest goes to Fields, as generic values
  have hgd : genDocP (encodeFields (.cons .inline [] (.struct mf) rest) (.cons (.struct mvs) rvs) .nil) = true :=
    gen_encF _ _ .nil rfl
  obtain ⟨kvs, hdk, hk⟩ := decodeP_sorted .any m1 hs1 (by
    intro k x hf
    rw [hf1 k] at hf
    by_cases e : k ∈ aliases mf
    · simp [e] at hf
    · simp only [e, if_false] at hf
      exact rtx_any_of_genDoc (genDoc_of_find _ k x hgd hf))
  refine ⟨ws1, kvs, ?_, hd1t, ?_, ?_⟩
  · have e : (decode .any) = (fun x => runLeaves leavesAny x) := by funext x; simp [decode]
    rw [e] at hdk
    simp [encode, decode, phase1, phase2, hp1, phase2_noinl mf ws1 m1 hm0, zero, hdk, Res.bind, Res.map]
  · intro k; rw [hk k, hf1 k]
  · simp only [encode, encodeFields]
    congr 1
    have s1 := fun k => encodeFields_spec k mf ws1 .nil rfl
    have s2 := fun k => encodeKV_spec .any k kvs _ (s1 []).1
    apply sorted_ext _ _ (s2 []).1 (sp []).1
    intro k
    rw [(s2 k).2, (s1 k).2, hk k, hf1 k, dec_lastF k mf mvs ws1 hmw htm hd1t hih, hdoc k]
    by_cases e : k ∈ aliases mf
    · simp [e, hrest_none k e, mapFind]
    · have : lastF mf mvs k = none := lastF_none k mf mvs hmw htm e (by rw [hik]; simp)
      simp [e, this, mapFind, hdoc k]

end Uniflow.Codec
