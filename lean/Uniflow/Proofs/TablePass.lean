/-
The lifecycle passes of the symbol-table model (`loadLoop` / `unloadLoop`, `exec`): what a pass
appends to the log and what it returns (`PassSpec`), and that a failing operation leaves the table
unchanged.  The property theorems `C08.*` (Props/C08.lean) restate the `Pass08.*` theorems below;
they live here because the C06 / C07 proofs use them.
-/
import Uniflow.Proofs.Table

namespace Uniflow.Table

/-! ### the log is the only part of the state the lifecycle loops change -/

theorem actLoop_log (o : Ord) (st : State) (lg : List Event) (f : Nat) (s : List Sym) (v : List Nat) :
    actLoop o { st with log := lg } f s v = actLoop o st f s v := by
  induction f generalizing s v with
  | zero => cases s <;> rfl
  | succ f ih =>
    cases s with
    | nil => rfl
    | cons c s =>
      simp only [actLoop]
      split
      · exact ih _ _
      · split
        · rfl
        · have : (List.foldl (pushRefs { st with log := lg } c) (some s)
                (List.flatMap (fun x => x.2) (o.ports (2000 + f) c.ports)))
              = (List.foldl (pushRefs st c) (some s)
                (List.flatMap (fun x => x.2) (o.ports (2000 + f) c.ports))) := rfl
          rw [this]
          split
          · rfl
          · exact ih _ _

theorem isActivated_log (o : Ord) (st : State) (lg : List Event) (x : Sym) :
    isActivated o { st with log := lg } x = isActivated o st x := by
  unfold isActivated
  rw [actLoop_log]; rfl

/-- The errors answered by the nodes that receive the lifecycle packet of phase `ph` of `x`. -/
def flowErrs (st : State) (x : Sym) (ph : Phase) : List Nat :=
  (execTargets st x ph).filterMap (respOf st)

/-- The event of one lifecycle flow. -/
def flowEv (st : State) (x : Sym) (ph : Phase) : Event :=
  .exec ph x.id ((execTargets st x ph).filter (seen st))

/-- The events of one complete activation: init flow, load hooks, begin flow. -/
def actBlock (st : State) (x : Sym) : List Event :=
  [flowEv st x .init, .load x.id, flowEv st x .begin]

/-- The events of one complete deactivation: term flow, unload hooks, final flow. -/
def deactBlock (st : State) (x : Sym) : List Event :=
  [flowEv st x .term, .unload x.id, flowEv st x .final]

theorem exec_eq (st : State) (x : Sym) (ph : Phase) :
    exec st x ph = ({ st with log := st.log ++ [flowEv st x ph] },
      if flowErrs st x ph = [] then .ok else .err (flowErrs st x ph)) := by
  unfold exec flowErrs flowEv
  cases h : (execTargets st x ph).filterMap (respOf st) <;> simp [h]

theorem flowEv_log (st : State) (lg : List Event) (x : Sym) (ph : Phase) :
    flowEv { st with log := lg } x ph = flowEv st x ph := rfl

theorem flowErrs_log (st : State) (lg : List Event) (x : Sym) (ph : Phase) :
    flowErrs { st with log := lg } x ph = flowErrs st x ph := rfl

/-- `true` for the phases of a deactivation. -/
def isUnl : Phase → Bool
  | .term => true
  | .final => true
  | _ => false

/-- How the (de)activation of `x` ends when it fails with the errors `es`: at the first flow; at a
refusing hook that runs before the observing hooks (nothing was recorded); at a refusing hook that
runs after them (the notification `mid` was recorded); at the second flow.  Nothing follows. -/
def AbortTail (st : State) (x : Sym) (p1 p2 : Phase) (mid : Nat → Event) (tail : List Event)
    (es : List Nat) : Prop :=
  (tail = [flowEv st x p1] ∧ flowErrs st x p1 = es ∧ es ≠ []) ∨
  (∃ r ∈ st.refusals, r.unload = isUnl p1 ∧ r.after = false ∧ r.sym = x.id ∧ es = [r.code] ∧
      tail = [flowEv st x p1, .refused (isUnl p1) false x.id] ∧ flowErrs st x p1 = []) ∨
  (∃ r ∈ st.refusals, r.unload = isUnl p1 ∧ r.after = true ∧ r.sym = x.id ∧ es = [r.code] ∧
      tail = [flowEv st x p1, mid x.id, .refused (isUnl p1) true x.id] ∧ flowErrs st x p1 = []) ∨
  (tail = [flowEv st x p1, mid x.id, flowEv st x p2] ∧ flowErrs st x p1 = [] ∧
      flowErrs st x p2 = es ∧ es ≠ [])

theorem abortTail_log (st : State) (lg : List Event) (x : Sym) (p1 p2 : Phase) (mid : Nat → Event)
    (tail : List Event) (es : List Nat) :
    AbortTail { st with log := lg } x p1 p2 mid tail es ↔ AbortTail st x p1 p2 mid tail es := Iff.rfl

theorem refusalOf_some {st : State} {u a : Bool} {id c : Nat} (h : refusalOf st u a id = some c) :
    ∃ r ∈ st.refusals, r.unload = u ∧ r.after = a ∧ r.sym = id ∧ r.code = c := by
  unfold refusalOf at h
  cases hf : st.refusals.find? (fun r => r.unload == u && r.after == a && r.sym == id &&
      (!r.once || !(st.log.contains (.refused u a id)))) with
  | none => rw [hf] at h; cases h
  | some r =>
    rw [hf] at h
    simp only [Option.some.injEq] at h
    have hm := List.mem_of_find?_eq_some hf
    have hp := List.find?_some hf
    simp only [Bool.and_eq_true, beq_iff_eq] at hp
    exact ⟨r, hm, hp.1.1.1, hp.1.1.2, hp.1.2, h⟩

/-- One (de)activation: only the log grows; nil ⇒ exactly the complete block was appended and both
flows succeeded; an error ⇒ an `AbortTail`; never `panic`. -/
theorem notify_spec (st : State) (x : Sym) (p1 p2 : Phase) (mid : Nat → Event) :
    ∃ evs, (notify st x (isUnl p1) p1 p2 mid).1 = { st with log := st.log ++ evs } ∧
      (((notify st x (isUnl p1) p1 p2 mid).2 = .ok ∧ evs = [flowEv st x p1, mid x.id, flowEv st x p2] ∧
          flowErrs st x p1 = [] ∧ flowErrs st x p2 = []) ∨
       (∃ es, (notify st x (isUnl p1) p1 p2 mid).2 = .err es ∧ AbortTail st x p1 p2 mid evs es)) := by
  unfold notify
  simp only [exec_eq]
  by_cases h1 : flowErrs st x p1 = []
  · simp only [h1, if_true]
    unfold hookRun
    cases hr1 : refusalOf { st with log := st.log ++ [flowEv st x p1] } (isUnl p1) false x.id with
    | some c =>
      obtain ⟨r, hm, e1, e2, e3, e4⟩ := refusalOf_some hr1
      refine ⟨[flowEv st x p1, .refused (isUnl p1) false x.id], by simp, Or.inr ⟨[c], rfl, ?_⟩⟩
      exact Or.inr (Or.inl ⟨r, hm, e1, e2, e3, by rw [e4], rfl, h1⟩)
    | none =>
      simp only
      cases hr2 : refusalOf { st with log := st.log ++ [flowEv st x p1] ++ [mid x.id] } (isUnl p1) true x.id with
      | some c =>
        obtain ⟨r, hm, e1, e2, e3, e4⟩ := refusalOf_some hr2
        refine ⟨[flowEv st x p1, mid x.id, .refused (isUnl p1) true x.id], by simp, Or.inr ⟨[c], rfl, ?_⟩⟩
        exact Or.inr (Or.inr (Or.inl ⟨r, hm, e1, e2, e3, by rw [e4], rfl, h1⟩))
      | none =>
        simp only [exec_eq, flowErrs_log, flowEv_log]
        by_cases h2 : flowErrs st x p2 = []
        · simp only [h2, if_true]
          refine ⟨[flowEv st x p1, mid x.id, flowEv st x p2], by simp, Or.inl ?_⟩
          simp [h1, h2]
        · simp only [h2, if_false]
          exact ⟨[flowEv st x p1, mid x.id, flowEv st x p2], by simp,
            Or.inr ⟨_, rfl, Or.inr (Or.inr (Or.inr ⟨rfl, h1, rfl, h2⟩))⟩⟩
  · simp only [h1, if_false]
    exact ⟨[flowEv st x p1], rfl, Or.inr ⟨_, rfl, Or.inl ⟨rfl, rfl, h1⟩⟩⟩

/-- What one pass of `load` / `unload` over a list of symbols does to the log, and what it returns.
`mid` is the hook event, `p1`/`p2` the flows before and after it. -/
structure PassSpec (o : Ord) (st : State) (p1 p2 : Phase) (mid : Nat → Event) (l : List Sym)
    (res : State × Ret) where
  done : List Sym
  tail : List Event
  /-- only the log changes: complete blocks of the symbols `done`, then `tail` -/
  state : res.1 = { st with log := st.log ++ done.flatMap (fun x => [flowEv st x p1, mid x.id, flowEv st x p2]) ++ tail }
  /-- the completed symbols are activated symbols of the list, in list order, whose flows all succeeded -/
  sub : done.Sublist l
  good : ∀ x ∈ done, isActivated o st x = some true ∧ flowErrs st x p1 = [] ∧ flowErrs st x p2 = []
  /-- nil error: every activated symbol of the list got its complete block, nothing else -/
  ok : res.2 = .ok → tail = [] ∧ done = l.filter (fun x => isActivated o st x = some true)
  /-- an error: it is the error of the last flow or hook run for an activated symbol of the list,
  and nothing was run after it (`AbortTail`) -/
  err : ∀ es, res.2 = .err es → es ≠ [] ∧ ∃ x ∈ l, isActivated o st x = some true ∧
      AbortTail st x p1 p2 mid tail es
  panic : res.2 = .panic → tail = []

theorem abortTail_ne_nil {st : State} {x : Sym} {p1 p2 : Phase} {mid : Nat → Event} {tail : List Event}
    {es : List Nat} (h : AbortTail st x p1 p2 mid tail es) : es ≠ [] := by
  rcases h with ⟨_, _, h⟩ | ⟨r, _, _, _, _, e, _⟩ | ⟨r, _, _, _, _, e, _⟩ | ⟨_, _, _, h⟩
  · exact h
  · rw [e]; simp
  · rw [e]; simp
  · exact h

end Uniflow.Table

open Uniflow.Table

/-- The loop of `load` meets `PassSpec`. -/
theorem Uniflow.Table.loadLoop_spec (o : Ord) (st : State) (l : List Sym) :
    Nonempty (PassSpec o st .init .begin Event.load l (loadLoop o st l)) := by
  induction l generalizing st with
  | nil =>
    exact ⟨{ done := [], tail := [], state := by simp [loadLoop], sub := List.Sublist.refl _,
             good := by simp, ok := by simp [loadLoop], err := by simp [loadLoop],
             panic := by simp }⟩
  | cons x xs ih =>
    unfold loadLoop
    cases ha : isActivated o st x with
    | none =>
      exact ⟨{ done := [], tail := [], state := by simp, sub := List.nil_sublist _, good := by simp,
               ok := by simp, err := by simp, panic := by simp }⟩
    | some b =>
      cases b with
      | false =>
        obtain ⟨s⟩ := ih st
        exact ⟨{ done := s.done, tail := s.tail, state := s.state, sub := s.sub.cons _, good := s.good,
                 ok := fun h => by
                   obtain ⟨h1, h2⟩ := s.ok h
                   exact ⟨h1, by rw [h2, List.filter_cons]; simp [ha]⟩,
                 err := fun es h => by
                   obtain ⟨h1, y, hy, h2⟩ := s.err es h
                   exact ⟨h1, y, List.mem_cons_of_mem _ hy, h2⟩,
                 panic := s.panic }⟩
      | true =>
        simp only
        obtain ⟨evs, hst, hres⟩ := notify_spec st x .init .begin Event.load
        have hu : isUnl Phase.init = false := rfl
        rw [hu] at hst hres
        cases hn : notify st x false .init .begin Event.load with
        | mk st1 r =>
          rw [hn] at hst hres
          simp only at hst hres
          rcases hres with ⟨hok, hevs, h1, h2⟩ | ⟨es, herr, hab⟩
          · subst hok; subst hst; subst hevs
            simp only
            obtain ⟨s⟩ := ih { st with log := st.log ++ [flowEv st x .init, Event.load x.id, flowEv st x .begin] }
            refine ⟨{ done := x :: s.done, tail := s.tail, state := ?_, sub := s.sub.cons_cons _, good := ?_,
                      ok := ?_, err := ?_, panic := s.panic }⟩
            · rw [s.state]; simp [flowEv_log]
            · intro y hy
              rcases List.mem_cons.mp hy with e | hy
              · subst e; exact ⟨ha, h1, h2⟩
              · have := s.good y hy
                simpa [isActivated_log, flowErrs_log] using this
            · intro h
              obtain ⟨t1, t2⟩ := s.ok h
              refine ⟨t1, ?_⟩
              rw [List.filter_cons]; simp only [ha, decide_true, if_true]
              rw [t2]; simp [isActivated_log]
            · intro es h
              obtain ⟨t1, y, hy, t2, t3⟩ := s.err es h
              refine ⟨t1, y, List.mem_cons_of_mem _ hy, by simpa [isActivated_log] using t2, ?_⟩
              exact (abortTail_log _ _ _ _ _ _ _ _).mp t3
          · subst herr; subst hst
            simp only
            refine ⟨{ done := [], tail := evs, state := by simp, sub := List.nil_sublist _, good := by simp,
                      ok := by simp, err := ?_, panic := by simp }⟩
            intro es' h
            simp only [Ret.err.injEq] at h
            subst h
            exact ⟨abortTail_ne_nil hab, x, by simp, ha, hab⟩

/-- The same for the loop of `unload`. -/
theorem Uniflow.Table.unloadLoop_spec (o : Ord) (st : State) (l : List Sym) :
    Nonempty (PassSpec o st .term .final Event.unload l (unloadLoop o st l)) := by
  induction l generalizing st with
  | nil =>
    exact ⟨{ done := [], tail := [], state := by simp [unloadLoop], sub := List.Sublist.refl _,
             good := by simp, ok := by simp [unloadLoop], err := by simp [unloadLoop],
             panic := by simp }⟩
  | cons x xs ih =>
    unfold unloadLoop
    cases ha : isActivated o st x with
    | none =>
      exact ⟨{ done := [], tail := [], state := by simp, sub := List.nil_sublist _, good := by simp,
               ok := by simp, err := by simp, panic := by simp }⟩
    | some b =>
      cases b with
      | false =>
        obtain ⟨s⟩ := ih st
        exact ⟨{ done := s.done, tail := s.tail, state := s.state, sub := s.sub.cons _, good := s.good,
                 ok := fun h => by
                   obtain ⟨h1, h2⟩ := s.ok h
                   exact ⟨h1, by rw [h2, List.filter_cons]; simp [ha]⟩,
                 err := fun es h => by
                   obtain ⟨h1, y, hy, h2⟩ := s.err es h
                   exact ⟨h1, y, List.mem_cons_of_mem _ hy, h2⟩,
                 panic := s.panic }⟩
      | true =>
        simp only
        obtain ⟨evs, hst, hres⟩ := notify_spec st x .term .final Event.unload
        have hu : isUnl Phase.term = true := rfl
        rw [hu] at hst hres
        cases hn : notify st x true .term .final Event.unload with
        | mk st1 r =>
          rw [hn] at hst hres
          simp only at hst hres
          rcases hres with ⟨hok, hevs, h1, h2⟩ | ⟨es, herr, hab⟩
          · subst hok; subst hst; subst hevs
            simp only
            obtain ⟨s⟩ := ih { st with log := st.log ++ [flowEv st x .term, Event.unload x.id, flowEv st x .final] }
            refine ⟨{ done := x :: s.done, tail := s.tail, state := ?_, sub := s.sub.cons_cons _, good := ?_,
                      ok := ?_, err := ?_, panic := s.panic }⟩
            · rw [s.state]; simp [flowEv_log]
            · intro y hy
              rcases List.mem_cons.mp hy with e | hy
              · subst e; exact ⟨ha, h1, h2⟩
              · have := s.good y hy
                simpa [isActivated_log, flowErrs_log] using this
            · intro h
              obtain ⟨t1, t2⟩ := s.ok h
              refine ⟨t1, ?_⟩
              rw [List.filter_cons]; simp only [ha, decide_true, if_true]
              rw [t2]; simp [isActivated_log]
            · intro es h
              obtain ⟨t1, y, hy, t2, t3⟩ := s.err es h
              refine ⟨t1, y, List.mem_cons_of_mem _ hy, by simpa [isActivated_log] using t2, ?_⟩
              exact (abortTail_log _ _ _ _ _ _ _ _).mp t3
          · subst herr; subst hst
            simp only
            refine ⟨{ done := [], tail := evs, state := by simp, sub := List.nil_sublist _, good := by simp,
                      ok := by simp, err := ?_, panic := by simp }⟩
            intro es' h
            simp only [Ret.err.injEq] at h
            subst h
            exact ⟨abortTail_ne_nil hab, x, by simp, ha, hab⟩

/-! ### property theorems -/

/-- **Lifecycle order (activation).** `Table.load(sb)` changes nothing but the log, and what it
appends is, for the activated symbols of `linked(sb)` taken in that order, one block
`init flow, load hooks, begin flow` each – every activated symbol exactly one block when the
result is nil (see `PassSpec`). -/
theorem Pass08.lifecycle_order_load (o : Ord) (st : State) (sb : Sym) (l : List Sym)
    (h : linked o st sb = some l) :
    Nonempty (PassSpec o st .init .begin Event.load l (load o st sb)) := by
  unfold load; rw [h]; exact loadLoop_spec o st l

/-- **Lifecycle order (deactivation).** `Table.unload(sb)` appends, for the activated symbols of
`linked(sb)` in *reverse* order, one block `term flow, unload hooks, final flow` each. -/
theorem Pass08.lifecycle_order_unload (o : Ord) (st : State) (sb : Sym) (l : List Sym)
    (h : linked o st sb = some l) :
    Nonempty (PassSpec o st .term .final Event.unload l.reverse (unload o st sb)) := by
  unfold unload; rw [h]; exact unloadLoop_spec o st l.reverse

/-- **Error aborts (within a pass).** If `load` returns an error then the log ends with the
(de)activation of an activated symbol cut short by exactly that error (`AbortTail`): the init flow
answered with it; or a load hook that runs before / after the observing hooks refused the symbol
with it; or the begin flow answered with it – and no hook and no flow ran after it. -/
theorem Pass08.error_aborts_load (o : Ord) (st : State) (sb : Sym) (es : List Nat)
    (h : (load o st sb).2 = .err es) :
    es ≠ [] ∧ ∃ x pre tail, isActivated o st x = some true ∧
      (load o st sb).1.log = st.log ++ pre ++ tail ∧ AbortTail st x .init .begin Event.load tail es := by
  cases hl : linked o st sb with
  | none => simp [load, hl] at h
  | some l =>
    obtain ⟨s⟩ := Pass08.lifecycle_order_load o st sb l hl
    obtain ⟨h1, x, _, hx, h2⟩ := s.err es h
    exact ⟨h1, x, _, s.tail, hx, by rw [s.state], h2⟩

theorem Pass08.error_aborts_unload (o : Ord) (st : State) (sb : Sym) (es : List Nat)
    (h : (unload o st sb).2 = .err es) :
    es ≠ [] ∧ ∃ x pre tail, isActivated o st x = some true ∧
      (unload o st sb).1.log = st.log ++ pre ++ tail ∧ AbortTail st x .term .final Event.unload tail es := by
  cases hl : linked o st sb with
  | none => simp [unload, hl] at h
  | some l =>
    obtain ⟨s⟩ := Pass08.lifecycle_order_unload o st sb l hl
    obtain ⟨h1, x, _, hx, h2⟩ := s.err es h
    exact ⟨h1, x, _, s.tail, hx, by rw [s.state], h2⟩

/-- `unload` changes nothing but the log. -/
theorem Uniflow.Table.unload_table (o : Ord) (st : State) (sb : Sym) :
    (unload o st sb).1 = { st with log := (unload o st sb).1.log } := by
  cases hl : linked o st sb with
  | none => simp [unload, hl]
  | some l =>
    obtain ⟨s⟩ := Pass08.lifecycle_order_unload o st sb l hl
    rw [s.state]

theorem Uniflow.Table.load_table (o : Ord) (st : State) (sb : Sym) :
    (load o st sb).1 = { st with log := (load o st sb).1.log } := by
  cases hl : linked o st sb with
  | none => simp [load, hl]
  | some l =>
    obtain ⟨s⟩ := Pass08.lifecycle_order_load o st sb l hl
    rw [s.state]

/-- **Error aborts (Free).** When `Free(id)` returns an error it is the error of the unload pass,
the symbol is *not* removed: symbols, name index, reverse references and port links are
unchanged, and the result flag is false. -/
theorem Pass08.error_aborts_free (o : Ord) (st : State) (id : Nat) (es : List Nat)
    (h : (free o st id).2.1 = .err es) :
    (∃ sb, aget id st.symbols = some sb ∧ (unload o st sb).2 = .err es ∧
      (free o st id).1 = (unload o st sb).1) ∧
    (free o st id).1.symbols = st.symbols ∧ (free o st id).1.namespaces = st.namespaces ∧
    (free o st id).1.references = st.references ∧ (free o st id).1.links = st.links ∧
    (free o st id).2.2 = false := by
  unfold free at h ⊢
  cases hs : aget id st.symbols with
  | none => simp [hs] at h
  | some sb =>
    simp only [hs] at h ⊢
    have ht := unload_table o st sb
    cases hu : unload o st sb with
    | mk st1 r =>
      rw [hu] at h ht
      cases r with
      | ok => simp at h
      | panic => simp at h
      | err es' =>
        simp only at h ht ⊢
        cases h
        refine ⟨⟨sb, rfl, by rw [hu], by rw [hu]⟩, ?_⟩
        rw [ht]; simp

/-- **Error aborts (Insert).** `Insert(sb)` first frees the old symbol; if that fails the error
is returned and nothing is inserted. Otherwise the result is the result of the load pass. -/
theorem Pass08.error_aborts_insert (o : Ord) (st : State) (sb : Sym) :
    (∀ es, (free o st sb.id).2.1 = .err es →
        step o st (.insert sb) = ((free o st sb.id).1, .err es, false) ∧
        (step o st (.insert sb)).1.symbols = st.symbols) ∧
    ((free o st sb.id).2.1 = .ok →
        (step o st (.insert sb)).2.1 = (insert o (free o st sb.id).1 sb).2) := by
  constructor
  · intro es h
    have h2 := (Pass08.error_aborts_free o st sb.id es h).2.1
    cases hf : free o st sb.id with
    | mk st1 rb =>
      obtain ⟨r, b⟩ := rb
      rw [hf] at h h2
      simp only at h h2
      subst h
      simp [step, hf, h2]
  · intro h
    cases hf : free o st sb.id with
    | mk st1 rb =>
      obtain ⟨r, b⟩ := rb
      rw [hf] at h
      simp only at h
      subst h
      simp [step, hf]

/-- **Error aborts (Close).** `Close` frees the symbols one after the other and stops at the first
`free` that returns an error, returning that error. -/
theorem Pass08.error_aborts_close (o : Ord) (st : State) (x : Sym) (xs : List Sym) (es : List Nat)
    (h : (free o st x.id).2.1 = .err es) :
    freeAll o st (x :: xs) = ((free o st x.id).1, .err es) := by
  cases hf : free o st x.id with
  | mk st1 rb =>
    obtain ⟨r, b⟩ := rb
    rw [hf] at h
    simp only at h
    subst h
    simp [freeAll, hf]

/-! ### non-vacuity: a concrete run with a failing begin flow -/

namespace Uniflow.Table.C08Ex
/-- responder 9 answers error 7; symbol 1 sends its begin flow to it, its init flow to responder 8. -/
def r8 : Sym := Sym.mk 8 0 0 true [5] [6, 9] none []
def r9 : Sym := Sym.mk 9 0 3 true [5] [6, 9] (some 7) []
def s1 : Sym := Sym.mk 1 0 0 true [5] [6, 9] none [(1, [Ref.mk 8 0 5]), (2, [Ref.mk 0 3 5])]
def st2 : State := run Ord.id {} [.insert r8, .insert r9]
end Uniflow.Table.C08Ex

open Uniflow.Table.C08Ex in
theorem Pass08.error_aborts_nonvacuous :
    (step Ord.id st2 (.insert s1)).2.1 = .err [7] ∧
    ((step Ord.id st2 (.insert s1)).1.log.drop st2.log.length
      = [.exec .init 1 [(8, 5)], .load 1, .exec .begin 1 [(9, 5)]]) := by
  decide +kernel
