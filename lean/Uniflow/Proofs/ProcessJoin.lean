/-
Third invariant of the process machine (`Uniflow.Process`): the CHILDREN COUNTER.
  children p = (threads between `p.children++` and the registration of the new child)
             + (children of p whose wait-done hook has not run yet)
so the counter (a Go `int`) never becomes negative, and a counter of 0 means every child's
wait-done hook – the first hook a child is born with, hence the last one to run – has run.
Together with the condition variable: a thread parked in `p.join.Wait()` always sees a positive
counter (no lost wake-up), so `Join` returns exactly when the counter is 0 at one of its checks.
-/
import Uniflow.Proofs.ProcessOrder

namespace Uniflow.Process

theorem sumTo_except {n : Nat} {f g : Nat → Nat} {i : Nat} (hi : i < n)
    (h : ∀ j, j < n → j ≠ i → g j = f j) : sumTo n g + f i = sumTo n f + g i := by
  induction n with
  | zero => omega
  | succ n ih =>
    simp only [sumTo]
    by_cases e : i = n
    · subst e
      have : sumTo i g = sumTo i f := sumTo_congr (fun j hj => h j (by omega) (by omega))
      omega
    · have := ih (by omega) (fun j hj hne => h j (by omega) hne)
      have := h n (by omega) (by omega)
      omega

/-- threads that did `p.children++` and have not yet created/registered the child -/
def pendForks (s : State) (p : Nat) : Nat :=
  sumTo s.nt (fun t => if (s.threads t).pc = .forkReg p then 1 else 0)

/-- 1 iff `c` is a child of `p` whose wait-done hook has not run -/
def unrun (s : State) (p c : Nat) : Nat :=
  if (s.procs c).parent = some p ∧ cntL (s.procs c).wtok s.log = 0 then 1 else 0

def unrunKids (s : State) (p : Nat) : Nat := sumTo s.np (fun c => unrun s p c)

structure JC (s : State) : Prop where
  acc : ∀ p, p < s.np → (s.procs p).children = (pendForks s p : Int) + (unrunKids s p : Int)
  parentLt : ∀ c p, c < s.np → (s.procs c).parent = some p → p < s.np
  wtokOK : ∀ c, c < s.np → (s.procs c).parent.isSome = true →
    (s.procs c).wtok < s.nextTok ∧ s.owner (s.procs c).wtok = c ∧ s.late (s.procs c).wtok = false
  wmin : ∀ c k, c < s.np → (s.procs c).parent.isSome = true → k < s.nextTok → s.owner k = c →
    (s.procs c).wtok ≤ k

/-- the static part of a process record and the wait counter -/
def StaticSame (s s' : State) : Prop :=
  ∀ c, (s'.procs c).parent = (s.procs c).parent ∧ (s'.procs c).wtok = (s.procs c).wtok ∧
    (s'.procs c).children = (s.procs c).children

theorem jc_init (nt : Nat) : JC (init nt) := by
  refine ⟨?_, ?_, ?_, ?_⟩ <;> simp [init, pendForks, unrunKids, sumTo]

theorem unrun_congr {s s' : State} (hlog : s'.log = s.log) (hst : StaticSame s s') (p c : Nat) :
    unrun s' p c = unrun s p c := by
  simp only [unrun, hlog, (hst c).1, (hst c).2.1]

theorem jc_congr {s s' : State} (j : JC s) (hnp : s'.np = s.np) (hnt : s'.nt = s.nt) (hlog : s'.log = s.log)
    (hpc : ∀ t, (s'.threads t).pc = (s.threads t).pc)
    (hst : StaticSame s s') (hnext : s'.nextTok = s.nextTok) (hown : s'.owner = s.owner)
    (hlate : s'.late = s.late) : JC s' := by
  refine ⟨?_, ?_, ?_, ?_⟩
  · intro p hp
    have h1 : pendForks s' p = pendForks s p := by
      simp only [pendForks, hnt]; exact sumTo_congr (fun t _ => by rw [hpc t])
    have h2 : unrunKids s' p = unrunKids s p := by
      simp only [unrunKids, hnp]; exact sumTo_congr (fun c _ => unrun_congr hlog hst p c)
    rw [h1, h2, (hst p).2.2]; exact j.acc p (by rw [← hnp]; exact hp)
  · intro c p hc hpar
    rw [hnp] at hc ⊢; rw [(hst c).1] at hpar; exact j.parentLt c p hc hpar
  · intro c hc hpar
    rw [hnp] at hc; rw [(hst c).1] at hpar
    rw [(hst c).2.1, hnext, hown, hlate]; exact j.wtokOK c hc hpar
  · intro c k hc hpar hk ho
    rw [hnp] at hc; rw [(hst c).1] at hpar; rw [hnext] at hk; rw [hown] at ho
    rw [(hst c).2.1]; exact j.wmin c k hc hpar hk ho

theorem jc_alloc {s : State} (j : JC s) (p : Nat) (_hp : p < s.np) (l : Bool) : JC (alloc s p l) := by
  refine ⟨j.acc, j.parentLt, ?_, ?_⟩
  · intro c hc hpar
    have := j.wtokOK c hc hpar
    have e : (s.procs c).wtok ≠ s.nextTok := by omega
    simp only [alloc_procs, alloc_nextTok, alloc_owner, alloc_late, upd_other _ _ e]
    exact ⟨by omega, this.2.1, this.2.2⟩
  · intro c k hc hpar hk ho
    by_cases e : k = s.nextTok
    · subst e
      simp at ho; subst ho
      have := (j.wtokOK p hc hpar).1
      simp only [alloc_procs]; omega
    · simp only [alloc_owner, upd_other _ _ e] at ho
      exact j.wmin c k hc hpar (by simp at hk; omega) ho

/-! ### static fields under the transformers -/

theorem static_refl (s : State) : StaticSame s s := fun _ => ⟨rfl, rfl, rfl⟩

theorem static_setProc (s : State) (p : Nat) (pr : Proc) (h1 : pr.parent = (s.procs p).parent)
    (h2 : pr.wtok = (s.procs p).wtok) (h3 : pr.children = (s.procs p).children) :
    StaticSame s (setProc s p pr) := by
  intro c
  by_cases e : c = p
  · subst e; simp [h1, h2, h3]
  · simp [upd_other _ _ e]

theorem static_exitFlip (s : State) (t p e : Nat) : StaticSame s (exitFlip s t p e) := by
  unfold exitFlip; dsimp only; split
  · exact static_refl s
  · exact static_setProc s p _ rfl rfl rfl

theorem exitFlip_pc (s : State) (t p e t' : Nat) : ((exitFlip s t p e).threads t').pc = (s.threads t').pc := by
  unfold exitFlip; dsimp only; split <;> exact pushFrame_pc _ t _ t'

theorem exitFlip_ghost (s : State) (t p e : Nat) :
    (exitFlip s t p e).log = s.log ∧
    (exitFlip s t p e).nextTok = s.nextTok ∧ (exitFlip s t p e).owner = s.owner ∧
    (exitFlip s t p e).late = s.late := by
  unfold exitFlip; dsimp only; split <;> exact ⟨rfl, rfl, rfl, rfl⟩

theorem jc_exitFlip {s : State} (j : JC s) (t p e : Nat) : JC (exitFlip s t p e) := by
  have h := exitFlip_ghost s t p e
  exact jc_congr j (by simp) (by simp) h.1 (exitFlip_pc s t p e) (static_exitFlip s t p e) h.2.1 h.2.2.1 h.2.2.2

theorem jc_addHook {s : State} (j : JC s) (t p : Nat) (k : HookKind) (hp : p < s.np) : JC (addHook s t p k) := by
  unfold addHook; dsimp only
  split
  · exact jc_congr (jc_alloc j p hp true) rfl rfl rfl (pushFrame_pc _ t _) (static_refl _) rfl rfl rfl
  · split
    · exact j
    · exact jc_alloc (jc_congr (s' := setProc s p { s.procs p with hooks := (s.procs p).hooks ++ [{ kind := k, tok := s.nextTok }] })
        j rfl rfl rfl (fun _ => rfl) (static_setProc s p _ rfl rfl rfl) rfl rfl rfl) p hp false

/-! ### program-counter changes -/

theorem pend_setThread (s : State) (t : Nat) (th : Thread) (p : Nat) (ht : t < s.nt) :
    pendForks (setThread s t th) p + (if (s.threads t).pc = .forkReg p then 1 else 0)
      = pendForks s p + (if th.pc = .forkReg p then 1 else 0) := by
  have := sumTo_upd s.threads (fun th => if th.pc = Pc.forkReg p then 1 else 0) t s.nt th ht
  simp only [pendForks, setThread_nt, setThread_threads]
  exact this

/-- a pc change between two values that are not `forkReg` (Join begins / returns) -/
theorem jc_setPc_nonfork {s : State} (j : JC s) (t : Nat) (pc : Pc) (ht : t < s.nt)
    (hold : ∀ p, (s.threads t).pc ≠ .forkReg p) (hnew : ∀ p, pc ≠ .forkReg p) :
    JC (setThread s t { s.threads t with pc := pc }) := by
  refine ⟨?_, j.parentLt, j.wtokOK, j.wmin⟩
  intro p hp
  have h1 := pend_setThread s t { s.threads t with pc := pc } p ht
  simp only [hold p, hnew p, if_false] at h1
  have h2 : unrunKids (setThread s t { s.threads t with pc := pc }) p = unrunKids s p := rfl
  rw [h2]
  have := j.acc p hp
  simp only [setThread_procs]; omega

/-- `forkAdd`: `p.children++` and the thread enters `forkReg p` -/
theorem jc_forkStart {s : State} (j : JC s) (t p : Nat) (ht : t < s.nt) (hp : p < s.np)
    (hidle : (s.threads t).pc = .idle) :
    JC (setThread (setProc s p { s.procs p with children := (s.procs p).children + 1 }) t
      { s.threads t with pc := .forkReg p }) := by
  refine ⟨?_, ?_, ?_, ?_⟩
  · intro q hq
    have h1 := pend_setThread (setProc s p { s.procs p with children := (s.procs p).children + 1 }) t
      { s.threads t with pc := .forkReg p } q ht
    have h0 : pendForks (setProc s p { s.procs p with children := (s.procs p).children + 1 }) q = pendForks s q := rfl
    simp only [setProc_threads, hidle] at h1
    have h2 : unrunKids (setThread (setProc s p { s.procs p with children := (s.procs p).children + 1 }) t
        { s.threads t with pc := .forkReg p }) q = unrunKids s q := by
      simp only [unrunKids, setThread_np, setProc_np]
      apply sumTo_congr
      intro c _
      simp only [unrun, setThread_procs, setProc_procs, setThread_log, setProc_log]
      by_cases e : c = p
      · subst e; simp
      · simp [upd_other _ _ e]
    have h3 := j.acc q hq
    rw [h2, h0] at *
    by_cases e : q = p
    · subst e; simp at h1 ⊢; omega
    · have e' : ¬ (Pc.forkReg p = Pc.forkReg q) := by intro x; cases x; exact e rfl
      simp [upd_other _ _ e, e'] at h1 ⊢; omega
  · intro c q hc hpar
    by_cases e : c = p
    · subst e; simp at hpar; exact j.parentLt c q hc hpar
    · simp [upd_other _ _ e] at hpar; exact j.parentLt c q hc hpar
  · intro c hc hpar
    by_cases e : c = p
    · subst e; simp at hpar ⊢; exact j.wtokOK c hc hpar
    · simp [upd_other _ _ e] at hpar ⊢; exact j.wtokOK c hc hpar
  · intro c k hc hpar hk ho
    by_cases e : c = p
    · subst e; simp at hpar ⊢; exact j.wmin c k hc hpar hk ho
    · simp [upd_other _ _ e] at hpar ⊢; exact j.wmin c k hc hpar hk ho

theorem pend_zero_beyond {s : State} (g : Good s) (q : Nat) (hq : s.np ≤ q) : pendForks s q = 0 := by
  apply sumTo_eq_zero
  intro t _
  by_cases e : (s.threads t).pc = .forkReg q
  · have := g.pcOK t q e; omega
  · simp [e]

theorem jc_new {s : State} (g : Good s) (j : JC s) : JC { setProc s s.np {} with np := s.np + 1 } := by
  have hkids : ∀ q, unrunKids { setProc s s.np {} with np := s.np + 1 } q = unrunKids s q := by
    intro q
    have h0 : unrun { setProc s s.np {} with np := s.np + 1 } q s.np = 0 := by simp [unrun]
    have h1 : sumTo s.np (fun c => unrun { setProc s s.np {} with np := s.np + 1 } q c) = sumTo s.np (fun c => unrun s q c) := by
      apply sumTo_congr
      intro c hc
      have e : c ≠ s.np := by omega
      simp [unrun, upd_other _ _ e]
    have h2 : unrunKids { setProc s s.np {} with np := s.np + 1 } q
        = sumTo s.np (fun c => unrun { setProc s s.np {} with np := s.np + 1 } q c)
          + unrun { setProc s s.np {} with np := s.np + 1 } q s.np := rfl
    rw [h2, h1, h0]; rfl
  refine ⟨?_, ?_, ?_, ?_⟩
  · intro q hq
    rw [hkids q]
    have hp : pendForks { setProc s s.np {} with np := s.np + 1 } q = pendForks s q := rfl
    rw [hp]
    by_cases e : q = s.np
    · subst e
      have h2 : unrunKids s s.np = 0 := by
        apply sumTo_eq_zero
        intro c hc
        by_cases e2 : (s.procs c).parent = some s.np
        · have := j.parentLt c _ hc e2; omega
        · simp [unrun, e2]
      simp [pend_zero_beyond g s.np (Nat.le_refl _), h2]
    · simp [upd_other _ _ e]; exact j.acc q (by simp at hq; omega)
  · intro c q hc hpar
    by_cases e : c = s.np
    · subst e; simp at hpar
    · simp [upd_other _ _ e] at hpar
      have := j.parentLt c q (by simp at hc; omega) hpar
      simp; omega
  · intro c hc hpar
    by_cases e : c = s.np
    · subst e; simp at hpar
    · simp [upd_other _ _ e] at hpar ⊢; exact j.wtokOK c (by simp at hc; omega) hpar
  · intro c k hc hpar hk ho
    by_cases e : c = s.np
    · subst e; simp at hpar
    · simp [upd_other _ _ e] at hpar ⊢; exact j.wmin c k (by simp at hc; omega) hpar hk ho

/-- second half of `Fork` up to the creation of the child: the thread leaves `forkReg p`, the
child is born with an un-run wait-done hook -/
theorem jc_forkReg_mk {s : State} (g : Good s) (o : Ord s) (j : JC s) (t p : Nat) (ht : t < s.nt) (hp : p < s.np)
    (hpc : (s.threads t).pc = .forkReg p) :
    JC (mkChild (setThread s t { s.threads t with pc := .idle }) p) := by
  have hlog0 : cntL s.nextTok s.log = 0 := by
    by_cases h0 : 0 < cntL s.nextTok s.log
    · obtain ⟨e, he, hek⟩ := cntL_pos h0
      have := g.log_lt he; omega
    · omega
  have hpend : ∀ q, pendForks (mkChild (setThread s t { s.threads t with pc := .idle }) p) q
      + (if p = q then 1 else 0) = pendForks s q := by
    intro q
    have h1 := pend_setThread s t { s.threads t with pc := .idle } q ht
    have h0 : pendForks (mkChild (setThread s t { s.threads t with pc := .idle }) p) q
        = pendForks (setThread s t { s.threads t with pc := .idle }) q := rfl
    rw [h0]
    simp only [hpc] at h1
    by_cases e : p = q
    · subst e; simp at h1 ⊢; omega
    · have e' : ¬ (Pc.forkReg p = Pc.forkReg q) := by intro x; cases x; exact e rfl
      simp [e, e'] at h1 ⊢; omega
  have hkids : ∀ q, unrunKids (mkChild (setThread s t { s.threads t with pc := .idle }) p) q
      = unrunKids s q + (if p = q then 1 else 0) := by
    intro q
    have h0 : unrun (mkChild (setThread s t { s.threads t with pc := .idle }) p) q s.np = (if p = q then 1 else 0) := by
      simp [unrun, mkChild, hlog0]
    have h1 : sumTo s.np (fun c => unrun (mkChild (setThread s t { s.threads t with pc := .idle }) p) q c)
        = sumTo s.np (fun c => unrun s q c) := by
      apply sumTo_congr
      intro c hc
      have e : c ≠ s.np := by omega
      simp [unrun, mkChild, upd_other _ _ e]
    have h2 : unrunKids (mkChild (setThread s t { s.threads t with pc := .idle }) p) q
        = sumTo s.np (fun c => unrun (mkChild (setThread s t { s.threads t with pc := .idle }) p) q c)
          + unrun (mkChild (setThread s t { s.threads t with pc := .idle }) p) q s.np := rfl
    rw [h2, h1, h0]; rfl
  refine ⟨?_, ?_, ?_, ?_⟩
  · intro q hq
    have h1 := hpend q; have h2 := hkids q
    by_cases e : q = s.np
    · subst e
      have h3 : unrunKids s s.np = 0 := by
        apply sumTo_eq_zero
        intro c hc
        by_cases e2 : (s.procs c).parent = some s.np
        · have := j.parentLt c _ hc e2; omega
        · simp [unrun, e2]
      have h4 := pend_zero_beyond g s.np (Nat.le_refl _)
      have e' : p ≠ s.np := by omega
      rw [if_neg e'] at h1 h2
      have h5 : ((mkChild (setThread s t { s.threads t with pc := .idle }) p).procs s.np).children = 0 := by
        simp [mkChild]
      rw [h5]; omega
    · have hq' : q < s.np := by simp [mkChild] at hq; omega
      have h3 := j.acc q hq'
      have h5 : ((mkChild (setThread s t { s.threads t with pc := .idle }) p).procs q).children = (s.procs q).children := by
        simp [mkChild, upd_other _ _ e]
      rw [h5]
      by_cases e2 : p = q
      · subst e2; rw [if_pos rfl] at h1 h2; omega
      · rw [if_neg e2] at h1 h2; omega
  · intro c q hc hpar
    by_cases e : c = s.np
    · subst e; simp [mkChild] at hpar ⊢; omega
    · simp [mkChild, upd_other _ _ e] at hpar ⊢
      have := j.parentLt c q (by simp [mkChild] at hc; omega) hpar; omega
  · intro c hc hpar
    by_cases e : c = s.np
    · subst e; simp [mkChild]
    · simp [mkChild, upd_other _ _ e] at hpar ⊢
      have := j.wtokOK c (by simp [mkChild] at hc; omega) hpar
      have e2 : (s.procs c).wtok ≠ s.nextTok := by omega
      simp [upd_other _ _ e2]
      exact ⟨by omega, this.2.1, this.2.2⟩
  · intro c k hc hpar hk ho
    by_cases ek : k = s.nextTok
    · subst ek
      simp [mkChild] at ho; subst ho
      simp [mkChild]
    · have hk' : k < s.nextTok := by simp [mkChild] at hk; omega
      simp [mkChild, upd_other _ _ ek] at ho
      have hlt := o.ownLt k hk'
      by_cases e : c = s.np
      · omega
      · simp [mkChild, upd_other _ _ e] at hpar ⊢
        exact j.wmin c k (by omega) hpar hk' ho

/-! ### which hooks are `wait.Done` hooks -/

/-- hook `h` registered on process `c`: it is a `wait.Done` hook iff it carries `c`'s `wtok`,
and then it is the `wait.Done` of `c`'s parent -/
def wdOK (s : State) (c : Nat) (h : Hook) : Prop :=
  (∀ q, h.kind = .waitDone q → (s.procs c).parent = some q ∧ (s.procs c).wtok = h.tok) ∧
  ((s.procs c).parent.isSome = true → h.tok = (s.procs c).wtok → ∃ q, h.kind = .waitDone q)

theorem wdOK_congr {s s' : State} {c : Nat} {h : Hook} (h1 : (s'.procs c).parent = (s.procs c).parent)
    (h2 : (s'.procs c).wtok = (s.procs c).wtok) (w : wdOK s c h) : wdOK s' c h := by
  unfold wdOK at *; rw [h1, h2]; exact w

structure JW (s : State) : Prop where
  wdH : ∀ c h, c < s.np → h ∈ (s.procs c).hooks → wdOK s c h
  wdF : ∀ t f h, t < s.nt → f ∈ (s.threads t).stack → h ∈ f.rem → wdOK s f.proc h

theorem jw_init (nt : Nat) : JW (init nt) := by
  refine ⟨?_, ?_⟩ <;> simp [init]

theorem jw_pushEmpty {s : State} (w : JW s) (t p e : Nat) : JW (pushFrame s t { proc := p, rem := [], err := e }) := by
  refine ⟨w.wdH, ?_⟩
  intro t' f h ht' hf hh
  rcases (mem_stack_pushFrame s t t' _ f).mp hf with ⟨_, rfl⟩ | h'
  · simp at hh
  · exact w.wdF t' f h ht' h' hh

theorem jw_exitFlip {s : State} (g : Good s) (w : JW s) (t p e : Nat) (hp : p < s.np) : JW (exitFlip s t p e) := by
  unfold exitFlip
  by_cases hterm : (s.procs p).terminated = true
  · simp only [hterm, if_true, g.hooksRun p hp hterm, List.reverse_nil]
    exact jw_pushEmpty w t p e
  · simp only [hterm, if_false, Bool.false_eq_true]
    have st := static_setProc s p { s.procs p with done := true, data := [], terminated := true, err := e, hooks := [] } rfl rfl rfl
    refine ⟨?_, ?_⟩
    · intro c h hc hh
      by_cases e1 : c = p
      · subst e1; simp at hh
      · simp [upd_other _ _ e1] at hh
        exact wdOK_congr (st c).1 (st c).2.1 (w.wdH c h hc hh)
    · intro t' f h ht' hf hh
      rcases (mem_stack_pushFrame _ t t' _ f).mp hf with ⟨_, rfl⟩ | h'
      · exact wdOK_congr (st p).1 (st p).2.1 (w.wdH p h hp (by simpa using hh))
      · exact wdOK_congr (st f.proc).1 (st f.proc).2.1 (w.wdF t' f h ht' h' hh)

theorem jw_addHook {s : State} (j : JC s) (w : JW s) (t p : Nat) (k : HookKind) (hp : p < s.np)
    (hk : ∀ q, k ≠ .waitDone q) : JW (addHook s t p k) := by
  have hnew : wdOK s p { kind := k, tok := s.nextTok } := by
    refine ⟨fun q hq => absurd hq (hk q), ?_⟩
    intro hpar htok
    have := (j.wtokOK p hp hpar).1
    simp at htok; omega
  unfold addHook; dsimp only
  split
  · refine ⟨w.wdH, ?_⟩
    intro t' f h ht' hf hh
    rcases (mem_stack_pushFrame _ t t' _ f).mp hf with ⟨_, rfl⟩ | h'
    · simp at hh; subst hh; exact hnew
    · exact w.wdF t' f h ht' h' hh
  · split
    · exact w
    · have st := static_setProc s p { s.procs p with hooks := (s.procs p).hooks ++ [{ kind := k, tok := s.nextTok }] } rfl rfl rfl
      refine ⟨?_, ?_⟩
      · intro c h hc hh
        by_cases e1 : c = p
        · subst e1
          simp at hh
          rcases hh with hh | hh
          · exact wdOK_congr (st c).1 (st c).2.1 (w.wdH c h hc hh)
          · subst hh; exact wdOK_congr (st c).1 (st c).2.1 hnew
        · simp [upd_other _ _ e1] at hh
          exact wdOK_congr (st c).1 (st c).2.1 (w.wdH c h hc hh)
      · intro t' f h ht' hf hh
        exact wdOK_congr (st f.proc).1 (st f.proc).2.1 (w.wdF t' f h ht' hf hh)

theorem jw_new {s : State} (g : Good s) (w : JW s) : JW { setProc s s.np {} with np := s.np + 1 } := by
  refine ⟨?_, ?_⟩
  · intro c h hc hh
    by_cases e1 : c = s.np
    · subst e1; simp at hh
    · simp [upd_other _ _ e1] at hh
      have := w.wdH c h (by simp at hc; omega) hh
      unfold wdOK at *; simpa [upd_other _ _ e1] using this
  · intro t' f h ht' hf hh
    have hlt := (g.frameOK t' f ht' hf).1
    have e1 : f.proc ≠ s.np := by omega
    have := w.wdF t' f h ht' hf hh
    unfold wdOK at *; simpa [upd_other _ _ e1] using this

theorem jw_mkChild {s : State} (g : Good s) (w : JW s) (p : Nat) : JW (mkChild s p) := by
  refine ⟨?_, ?_⟩
  · intro c h hc hh
    by_cases e1 : c = s.np
    · subst e1
      simp [mkChild] at hh; subst hh
      simp [wdOK, mkChild]
    · simp [mkChild, upd_other _ _ e1] at hh
      have := w.wdH c h (by simp [mkChild] at hc; omega) hh
      unfold wdOK at *; simpa [mkChild, upd_other _ _ e1] using this
  · intro t' f h ht' hf hh
    have hlt := (g.frameOK t' f ht' hf).1
    have e1 : f.proc ≠ s.np := by omega
    have := w.wdF t' f h ht' hf hh
    unfold wdOK at *; simpa [mkChild, upd_other _ _ e1] using this

/-- hooks, stacks and the static fields are unchanged -/
theorem jw_same {s s' : State} (w : JW s) (hnp : s'.np = s.np) (hnt : s'.nt = s.nt)
    (hh : ∀ c, (s'.procs c).hooks = (s.procs c).hooks) (hs : ∀ t, (s'.threads t).stack = (s.threads t).stack)
    (st : ∀ c, (s'.procs c).parent = (s.procs c).parent ∧ (s'.procs c).wtok = (s.procs c).wtok) : JW s' := by
  refine ⟨?_, ?_⟩
  · intro c h hc hm
    exact wdOK_congr (st c).1 (st c).2 (w.wdH c h (by rw [← hnp]; exact hc) (by rw [← hh c]; exact hm))
  · intro t f h ht hf hm
    exact wdOK_congr (st f.proc).1 (st f.proc).2 (w.wdF t f h (by rw [← hnt]; exact ht) (by rw [← hs t]; exact hf) hm)

theorem jw_pop {s : State} (w : JW s) (t : Nat) (f : Frame) (rest : List Frame)
    (hst : (s.threads t).stack = f :: rest) : JW (setThread s t { s.threads t with stack := rest }) := by
  refine ⟨w.wdH, ?_⟩
  intro t' f' h ht' hf' hh
  rcases (mem_stack_setThread s t t' _ f').mp hf' with ⟨e, h'⟩ | ⟨_, h'⟩
  · subst e; exact w.wdF t' f' h ht' (by rw [hst]; simp at h'; simp [h']) hh
  · exact w.wdF t' f' h ht' h' hh

theorem jw_logMove {s : State} (w : JW s) (t : Nat) (f : Frame) (h : Hook) (hs : List Hook) (rest : List Frame)
    (ht : t < s.nt) (hst : (s.threads t).stack = f :: rest) (hf : f.rem = h :: hs) :
    JW (logMove s t f h hs rest) := by
  refine ⟨w.wdH, ?_⟩
  intro t' f' x ht' hf' hx
  rcases (mem_stack_logMove s t t' f h hs rest f').mp hf' with ⟨e, h' | h'⟩ | ⟨_, h'⟩
  · subst h'
    exact w.wdF t f x ht (by rw [hst]; simp) (by rw [hf]; simp at hx; simp [hx])
  · subst e; exact w.wdF t' f' x ht' (by rw [hst]; simp [h']) hx
  · exact w.wdF t' f' x ht' h' hx

/-! ### running a hook -/

theorem pend_logMove (s : State) (t : Nat) (f : Frame) (h : Hook) (hs : List Hook) (rest : List Frame) (p : Nat)
    (ht : t < s.nt) : pendForks (logMove s t f h hs rest) p = pendForks s p := by
  have h0 : pendForks (logMove s t f h hs rest) p
      = pendForks (setThread s t { s.threads t with stack := { f with rem := hs } :: rest }) p := rfl
  have h1 := pend_setThread s t { s.threads t with stack := { f with rem := hs } :: rest } p ht
  have e : ({ s.threads t with stack := { f with rem := hs } :: rest } : Thread).pc = (s.threads t).pc := rfl
  rw [h0]; rw [e] at h1; omega

theorem unrun_logMove_other (s : State) (t : Nat) (f : Frame) (h : Hook) (hs : List Hook) (rest : List Frame)
    (p c : Nat) (hne : ¬ ((s.procs c).parent.isSome = true ∧ (s.procs c).wtok = h.tok)) :
    unrun (logMove s t f h hs rest) p c = unrun s p c := by
  simp only [unrun, logMove_procs, logMove_log, cntL_cons]
  by_cases e : (s.procs c).parent = some p
  · have : h.tok ≠ (s.procs c).wtok := by
      intro e2; exact hne ⟨by rw [e]; rfl, e2.symm⟩
    simp [e, this]
  · simp [e]

/-- the process whose `wtok` is the token being logged is the frame's process -/
theorem wtok_owner {s : State} (g : Good s) (j : JC s) {t : Nat} {f : Frame} {h : Hook} (ht : t < s.nt)
    (hfm : f ∈ (s.threads t).stack) (hh : h ∈ f.rem) {c : Nat} (hc : c < s.np)
    (hpar : (s.procs c).parent.isSome = true) (hw : (s.procs c).wtok = h.tok) : c = f.proc := by
  have h1 := (j.wtokOK c hc hpar).2.1
  have h2 := ((g.frameOK t f ht hfm).2 h hh).2.2.1
  rw [hw] at h1; omega

theorem jc_logMove_nonwd {s : State} (g : Good s) (j : JC s) (w : JW s) (t : Nat) (f : Frame) (h : Hook)
    (hs : List Hook) (rest : List Frame) (ht : t < s.nt) (hst : (s.threads t).stack = f :: rest)
    (hf : f.rem = h :: hs) (hk : ∀ q, h.kind ≠ .waitDone q) : JC (logMove s t f h hs rest) := by
  have hfm : f ∈ (s.threads t).stack := by rw [hst]; simp
  have hhm : h ∈ f.rem := by rw [hf]; simp
  refine ⟨?_, j.parentLt, j.wtokOK, j.wmin⟩
  intro p hp
  rw [pend_logMove s t f h hs rest p ht]
  have h2 : unrunKids (logMove s t f h hs rest) p = unrunKids s p := by
    apply sumTo_congr
    intro c hc
    apply unrun_logMove_other
    intro ⟨hpar, hw⟩
    have e := wtok_owner g j ht hfm hhm hc hpar hw
    subst e
    obtain ⟨q, hq⟩ := (w.wdF t f h ht hfm hhm).2 hpar hw.symm
    exact hk q hq
  rw [h2]; exact j.acc p hp

theorem pend_broadcast (s : State) (q p : Nat) : pendForks (broadcast s q) p = pendForks s p := by
  simp only [pendForks]
  have hnt : (broadcast s q).nt = s.nt := rfl
  rw [hnt]
  apply sumTo_congr
  intro t _
  by_cases e : (s.threads t).pc = .forkReg p
  · simp [e, (broadcast_forkReg s q t p).mpr e]
  · have := mt (broadcast_forkReg s q t p).mp e
    simp [e, this]

theorem pend_waitDone (s : State) (q p : Nat) : pendForks (waitDone s q) p = pendForks s p := by
  unfold waitDone; dsimp only; split
  · rw [pend_broadcast]; rfl
  · rfl

/-- the wait-done hook of a child of `q` runs: the counter of `q` goes down by one, and so does
the number of its children with an un-run wait-done hook -/
theorem jc_logMove_wd {s : State} (g : Good s) (j : JC s) (w : JW s) (t : Nat) (f : Frame) (h : Hook)
    (hs : List Hook) (rest : List Frame) (ht : t < s.nt) (hst : (s.threads t).stack = f :: rest)
    (hf : f.rem = h :: hs) (q : Nat) (hk : h.kind = .waitDone q) :
    JC (waitDone (logMove s t f h hs rest) q) := by
  have hfm : f ∈ (s.threads t).stack := by rw [hst]; simp
  have hhm : h ∈ f.rem := by rw [hf]; simp
  have hfo := g.frameOK t f ht hfm
  obtain ⟨hpar0, hw0⟩ := (w.wdF t f h ht hfm hhm).1 q hk
  have hlog0 : cntL h.tok s.log = 0 := by
    have hc := (g.cons h.tok).1 (g.frame_lt ht hfm hhm)
    have h1 := cntS_mem_pos hfm hhm rfl
    have h2 := sumTo_ge (f := fun t => cntS h.tok (s.threads t).stack) ht
    simp only [total, framesCount] at hc
    omega
  have st := waitDone_fields (logMove s t f h hs rest) q
  have gh := waitDone_ghost (logMove s t f h hs rest) q
  refine ⟨?_, ?_, ?_, ?_⟩
  · intro p hp
    have hp' : p < s.np := by rw [gh.1] at hp; exact hp
    have hpend : pendForks (waitDone (logMove s t f h hs rest) q) p = pendForks s p := by
      rw [pend_waitDone, pend_logMove s t f h hs rest p ht]
    have hkids : unrunKids (waitDone (logMove s t f h hs rest) q) p + (if p = q then 1 else 0) = unrunKids s p := by
      have hx := sumTo_except (n := s.np) (f := fun c => unrun s p c)
        (g := fun c => unrun (waitDone (logMove s t f h hs rest) q) p c) hfo.1 ?_
      · have h1 : unrun (waitDone (logMove s t f h hs rest) q) p f.proc = 0 := by
          simp only [unrun, (st f.proc).1, (st f.proc).2.1, gh.2.2.1, logMove_procs, logMove_log, cntL_cons, hw0]
          simp
        have h2 : unrun s p f.proc = (if p = q then 1 else 0) := by
          simp only [unrun, hpar0, hw0, hlog0]
          by_cases e : p = q
          · subst e; simp
          · have : ¬ (some q = some p) := by intro x; cases x; exact e rfl
            simp [e, this]
        have e1 : unrunKids (waitDone (logMove s t f h hs rest) q) p
            = sumTo s.np (fun c => unrun (waitDone (logMove s t f h hs rest) q) p c) := by
          simp only [unrunKids, gh.1, logMove_np]
        rw [e1]
        simp only [h1, h2] at hx
        simp only [unrunKids]
        omega
      · intro c hc hne
        have e1 : unrun (waitDone (logMove s t f h hs rest) q) p c = unrun (logMove s t f h hs rest) p c := by
          simp only [unrun, gh.2.2.1, (st c).1, (st c).2.1]
        show unrun (waitDone (logMove s t f h hs rest) q) p c = unrun s p c
        rw [e1]
        apply unrun_logMove_other
        intro ⟨hpar, hw⟩
        exact hne (wtok_owner g j ht hfm hhm hc hpar hw)
    rw [hpend, (st p).2.2.2.2]
    have hacc := j.acc p hp'
    by_cases e : p = q
    · subst e
      rw [if_pos rfl] at hkids ⊢
      simp only [logMove_procs]
      omega
    · rw [if_neg e] at hkids ⊢
      simp only [logMove_procs]
      omega
  · intro c p hc hpar
    rw [gh.1] at hc ⊢
    rw [(st c).1] at hpar; exact j.parentLt c p hc hpar
  · intro c hc hpar
    rw [gh.1] at hc
    rw [(st c).1] at hpar; rw [(st c).2.1, gh.2.2.2.1, gh.2.2.2.2.1, gh.2.2.2.2.2]; exact j.wtokOK c hc hpar
  · intro c k hc hpar hk' ho
    rw [gh.1] at hc; rw [gh.2.2.2.1] at hk'; rw [gh.2.2.2.2.1] at ho
    rw [(st c).1] at hpar; rw [(st c).2.1]; exact j.wmin c k hc hpar hk' ho

/-! ### assembling the step -/

theorem setProc_pw (s : State) (p : Nat) (pr : Proc) (h1 : pr.parent = (s.procs p).parent)
    (h2 : pr.wtok = (s.procs p).wtok) (c : Nat) :
    ((setProc s p pr).procs c).parent = (s.procs c).parent ∧ ((setProc s p pr).procs c).wtok = (s.procs c).wtok := by
  by_cases e : c = p
  · subst e; simp [h1, h2]
  · simp [upd_other _ _ e]

theorem setProc_hooks_same (s : State) (p : Nat) (pr : Proc) (h1 : pr.hooks = (s.procs p).hooks) (c : Nat) :
    ((setProc s p pr).procs c).hooks = (s.procs c).hooks := by
  by_cases e : c = p
  · subst e; simp [h1]
  · simp [upd_other _ _ e]

theorem setPc_stack (s : State) (t : Nat) (pc : Pc) (t' : Nat) :
    ((setThread s t { s.threads t with pc := pc }).threads t').stack = (s.threads t').stack := by
  by_cases e : t' = t
  · subst e; simp
  · simp [upd_other _ _ e]

theorem free_idle {s : State} {t : Nat} (h : free s t = true) : (s.threads t).pc = .idle := by
  unfold free at h
  split at h
  · assumption
  · cases h

theorem j_waitDone_jw {s : State} (g : Good s) (w : JW s) (q : Nat) : JW (waitDone s q) := by
  have gh := waitDone_ghost s q
  exact jw_same w gh.1 gh.2.1 (fun c => (waitDone_fields s q c).2.2.2.1) (inert_waitDone s g q).stacks
    (fun c => ⟨(waitDone_fields s q c).1, (waitDone_fields s q c).2.1⟩)

theorem j_startOp {s : State} (g : Good s) (j : JC s) (w : JW s) (t : Nat) (ht : t < s.nt)
    (hidle : (s.threads t).pc = .idle) (op : Op) : JC (startOp s t op) ∧ JW (startOp s t op) := by
  cases op with
  | new => exact ⟨jc_new g j, jw_new g w⟩
  | exit p e =>
    simp only [startOp]; split
    · rename_i hp; exact ⟨jc_exitFlip j t p e, jw_exitFlip g w t p e hp⟩
    · exact ⟨j, w⟩
  | add p h =>
    simp only [startOp]; split
    · rename_i hp
      exact ⟨jc_addHook j t p _ hp, jw_addHook j w t p _ hp (by intro q hq; cases hq)⟩
    · exact ⟨j, w⟩
  | fork p =>
    simp only [startOp]; split
    · rename_i hp
      refine ⟨jc_forkStart j t p ht hp hidle, ?_⟩
      have w1 : JW (setProc s p { s.procs p with children := (s.procs p).children + 1 }) :=
        jw_same w rfl rfl (setProc_hooks_same s p _ rfl) (fun _ => rfl) (setProc_pw s p _ rfl rfl)
      exact jw_same w1 rfl rfl (fun _ => rfl) (setPc_stack _ t _) (fun _ => ⟨rfl, rfl⟩)
    · exact ⟨j, w⟩
  | join p =>
    simp only [startOp]; split
    · refine ⟨jc_setPc_nonfork j t (.joining p) ht (by intro q; rw [hidle]; intro x; cases x) (by intro q x; cases x), ?_⟩
      exact jw_same w rfl rfl (fun _ => rfl) (setPc_stack _ t _) (fun _ => ⟨rfl, rfl⟩)
    · exact ⟨j, w⟩
  | setv p k v =>
    simp only [startOp]; split
    · refine ⟨jc_congr (s' := setProc s p { s.procs p with data := setData (s.procs p).data k v }) j rfl rfl rfl
        (fun _ => rfl) (static_setProc s p _ rfl rfl rfl) rfl rfl rfl, ?_⟩
      exact jw_same w rfl rfl (setProc_hooks_same s p _ rfl) (fun _ => rfl) (setProc_pw s p _ rfl rfl)
    · exact ⟨j, w⟩
  | delv p k =>
    simp only [startOp]; split
    · have hf := removeValue_fields s.np s.procs p k
      refine ⟨jc_congr (s' := { s with procs := (removeValue s.np s.procs p k).1 }) j rfl rfl rfl (fun _ => rfl)
        (fun c => ⟨(hf c).2.2.2.2.2.1, (hf c).2.2.2.2.2.2.2, (hf c).2.2.2.2.1⟩) rfl rfl rfl, ?_⟩
      exact jw_same (s' := { s with procs := (removeValue s.np s.procs p k).1 }) w rfl rfl (fun c => (hf c).1) (fun _ => rfl)
        (fun c => ⟨(hf c).2.2.2.2.2.1, (hf c).2.2.2.2.2.2.2⟩)
    · exact ⟨j, w⟩

theorem j_forkReg {s : State} (g : Good s) (o : Ord s) (j : JC s) (w : JW s) (t p : Nat) (ht : t < s.nt)
    (hp : p < s.np) (hpc : (s.threads t).pc = .forkReg p) : JC (forkReg s t p) ∧ JW (forkReg s t p) := by
  unfold forkReg
  have i1 := inert_setPc s g t .idle (by intro q hq; cases hq)
  have g1 := good_inert g i1
  have j2 := jc_forkReg_mk g o j t p ht hp hpc
  have w1 : JW (setThread s t { s.threads t with pc := .idle }) :=
    jw_same w rfl rfl (fun _ => rfl) (setPc_stack _ t _) (fun _ => ⟨rfl, rfl⟩)
  have w2 := jw_mkChild g1 w1 p
  have hp2 : p < (mkChild (setThread s t { s.threads t with pc := .idle }) p).np := by simp [mkChild]; omega
  exact ⟨jc_addHook j2 t p _ hp2, jw_addHook j2 w2 t p _ hp2 (by intro q hq; cases hq)⟩

theorem j_runHook {s : State} (g : Good s) (j : JC s) (w : JW s) (t : Nat) (f : Frame) (h : Hook)
    (hs : List Hook) (rest : List Frame) (ht : t < s.nt) (hst : (s.threads t).stack = f :: rest)
    (hf : f.rem = h :: hs) : JC (runHook s t f h hs rest) ∧ JW (runHook s t f h hs rest) := by
  have g1 := good_logMove g t f h hs rest ht hst hf
  have w1 := jw_logMove w t f h hs rest ht hst hf
  unfold runHook
  dsimp only
  split
  · rename_i n hk
    exact ⟨jc_logMove_nonwd g j w t f h hs rest ht hst hf (by intro q; rw [hk]; intro x; cases x), w1⟩
  · rename_i q hk
    exact ⟨jc_logMove_wd g j w t f h hs rest ht hst hf q hk, j_waitDone_jw g1 w1 q⟩
  · rename_i c hk
    have j1 := jc_logMove_nonwd g j w t f h hs rest ht hst hf (by intro q; rw [hk]; intro x; cases x)
    have hc := ((g.frameOK t f ht (by rw [hst]; simp)).2 h (by rw [hf]; simp)).2.2.2 c hk
    exact ⟨jc_exitFlip j1 t c f.err, jw_exitFlip g1 w1 t c f.err hc⟩

theorem j_contStep {s : State} (g : Good s) (o : Ord s) (j : JC s) (w : JW s) (t : Nat) (ht : t < s.nt) :
    JC (contStep s t) ∧ JW (contStep s t) := by
  unfold contStep
  dsimp only
  split
  · rename_i p hpc
    exact j_forkReg g o j w t p ht (g.pcOK t p hpc) hpc
  · rename_i p hpc
    split
    · refine ⟨jc_setPc_nonfork j t (.waiting p) ht (by intro q; rw [hpc]; intro x; cases x) (by intro q x; cases x), ?_⟩
      exact jw_same w rfl rfl (fun _ => rfl) (setPc_stack _ t _) (fun _ => ⟨rfl, rfl⟩)
    · refine ⟨jc_setPc_nonfork j t .idle ht (by intro q; rw [hpc]; intro x; cases x) (by intro q x; cases x), ?_⟩
      exact jw_same w rfl rfl (fun _ => rfl) (setPc_stack _ t _) (fun _ => ⟨rfl, rfl⟩)
  · exact ⟨j, w⟩
  · split
    · exact ⟨j, w⟩
    · rename_i f rest hst
      split
      · refine ⟨jc_congr (s' := setThread s t { s.threads t with stack := rest }) j rfl rfl rfl
          (setThread_pc_same s t _ rfl) (static_refl s) rfl rfl rfl, jw_pop w t f rest hst⟩
      · rename_i h hs hf
        exact j_runHook g j w t f h hs rest ht hst hf

theorem j_step {s : State} (g : Good s) (o : Ord s) (j : JC s) (w : JW s) (t : Nat) (a : Action) :
    JC (step s t a) ∧ JW (step s t a) := by
  unfold step
  split
  · rename_i ht
    cases a with
    | start op => simp only []; split
                  · rename_i hfree; exact j_startOp g j w t ht (free_idle hfree) op
                  · exact ⟨j, w⟩
    | cont => exact j_contStep g o j w t ht
  · exact ⟨j, w⟩

theorem j_run {s : State} (g : Good s) (o : Ord s) (j : JC s) (w : JW s) (sched : List (Nat × Action)) :
    JC (run s sched) ∧ JW (run s sched) := by
  induction sched generalizing s with
  | nil => exact ⟨j, w⟩
  | cons x xs ih =>
    obtain ⟨t, a⟩ := x
    have := j_step g o j w t a
    exact ih (good_step g t a) (ord_step g o t a) this.1 this.2

/-! ### the condition variable: no lost wake-up -/

/-- a thread parked in `p.join.Wait()` sees a positive counter; threads inside `Join(p)` name an
existing process -/
structure JP (s : State) : Prop where
  pcLt : ∀ t p, (s.threads t).pc = .joining p ∨ (s.threads t).pc = .waiting p → p < s.np
  pos : ∀ t p, (s.threads t).pc = .waiting p → 0 < (s.procs p).children

theorem jp_init (nt : Nat) : JP (init nt) := by
  refine ⟨?_, ?_⟩ <;> simp [init]

theorem jp_mono {s s' : State} (j : JP s) (hj : ∀ t p, (s'.threads t).pc = .joining p → (s.threads t).pc = .joining p)
    (hw : ∀ t p, (s'.threads t).pc = .waiting p → (s.threads t).pc = .waiting p) (hnp : s.np ≤ s'.np)
    (hch : ∀ p, p < s.np → (s.procs p).children ≤ (s'.procs p).children) : JP s' := by
  refine ⟨?_, ?_⟩
  · intro t p h
    have : p < s.np := j.pcLt t p (h.elim (fun x => Or.inl (hj t p x)) (fun x => Or.inr (hw t p x)))
    omega
  · intro t p h
    have h1 := hw t p h
    have := j.pos t p h1
    have := hch p (j.pcLt t p (Or.inr h1))
    omega

theorem jp_same {s s' : State} (j : JP s) (hpc : ∀ t, (s'.threads t).pc = (s.threads t).pc) (hnp : s.np ≤ s'.np)
    (hch : ∀ p, p < s.np → (s.procs p).children ≤ (s'.procs p).children) : JP s' :=
  jp_mono j (fun t p h => by rw [← hpc t]; exact h) (fun t p h => by rw [← hpc t]; exact h) hnp hch

/-- setting the pc of `t` to something outside `Join` -/
theorem jp_setPc_out {s : State} (j : JP s) (t : Nat) (pc : Pc) (h1 : ∀ p, pc ≠ .joining p) (h2 : ∀ p, pc ≠ .waiting p) :
    JP (setThread s t { s.threads t with pc := pc }) := by
  refine jp_mono j ?_ ?_ (Nat.le_refl _) (fun _ _ => Int.le_refl _)
  · intro t' p h
    by_cases e : t' = t
    · subst e; simp at h; exact absurd h (h1 p)
    · simpa [upd_other _ _ e] using h
  · intro t' p h
    by_cases e : t' = t
    · subst e; simp at h; exact absurd h (h2 p)
    · simpa [upd_other _ _ e] using h

theorem jp_joinStart {s : State} (j : JP s) (t p : Nat) (hp : p < s.np) :
    JP (setThread s t { s.threads t with pc := .joining p }) := by
  refine ⟨?_, ?_⟩
  · intro t' q h
    by_cases e : t' = t
    · subst e; simp at h; cases h; exact hp
    · simp [upd_other _ _ e] at h; exact j.pcLt t' q h
  · intro t' q h
    by_cases e : t' = t
    · subst e; simp at h
    · simp [upd_other _ _ e] at h; exact j.pos t' q h

theorem jp_wait {s : State} (j : JP s) (t p : Nat) (hpc : (s.threads t).pc = .joining p)
    (hpos : 0 < (s.procs p).children) : JP (setThread s t { s.threads t with pc := .waiting p }) := by
  have hp := j.pcLt t p (Or.inl hpc)
  refine ⟨?_, ?_⟩
  · intro t' q h
    by_cases e : t' = t
    · subst e; simp at h; cases h; exact hp
    · simp [upd_other _ _ e] at h; exact j.pcLt t' q h
  · intro t' q h
    by_cases e : t' = t
    · subst e; simp at h; cases h; exact hpos
    · simp [upd_other _ _ e] at h; exact j.pos t' q h

/-- the wait-done hook: a decrement to 0 wakes every thread parked on this process -/
theorem jp_waitDone {s : State} (j : JP s) (q : Nat) (hnn : 0 ≤ (s.procs q).children - 1) : JP (waitDone s q) := by
  have fl := waitDone_fields s q
  have gh := waitDone_ghost s q
  have hthreads : (waitDone s q).threads =
      if (s.procs q).children - 1 = 0 then (broadcast s q).threads else s.threads := by
    unfold waitDone; dsimp only; split <;> rfl
  refine ⟨?_, ?_⟩
  · intro t p h
    rw [gh.1]
    rw [hthreads] at h
    by_cases e : (s.procs q).children - 1 = 0
    · simp only [e, if_true, broadcast] at h
      by_cases e2 : (s.threads t).pc = .waiting q
      · simp [e2] at h; subst h; exact j.pcLt t q (Or.inr e2)
      · simp [e2] at h; exact j.pcLt t p h
    · simp only [e, if_false] at h; exact j.pcLt t p h
  · intro t p h
    rw [hthreads] at h
    rw [(fl p).2.2.2.2]
    by_cases e : (s.procs q).children - 1 = 0
    · simp only [e, if_true, broadcast] at h
      by_cases e2 : (s.threads t).pc = .waiting q
      · simp [e2] at h
      · simp [e2] at h
        have hne : p ≠ q := by intro x; subst x; exact e2 h
        rw [if_neg hne]; exact j.pos t p h
    · simp only [e, if_false] at h
      by_cases e3 : p = q
      · subst e3; rw [if_pos rfl]; omega
      · rw [if_neg e3]; exact j.pos t p h

theorem addHook_pc (s : State) (t p : Nat) (k : HookKind) (t' : Nat) :
    ((addHook s t p k).threads t').pc = (s.threads t').pc := by
  unfold addHook; dsimp only; split
  · exact pushFrame_pc _ t _ t'
  · split <;> rfl

theorem addHook_children (s : State) (t p : Nat) (k : HookKind) (c : Nat) :
    ((addHook s t p k).procs c).children = (s.procs c).children := by
  unfold addHook; dsimp only; split
  · rfl
  · split
    · rfl
    · by_cases e : c = p
      · subst e; simp
      · simp [upd_other _ _ e]

theorem jp_exitFlip {s : State} (j : JP s) (t p e : Nat) : JP (exitFlip s t p e) :=
  jp_same j (exitFlip_pc s t p e) (by simp) (fun c _ => by rw [(static_exitFlip s t p e c).2.2]; exact Int.le_refl _)

theorem jp_addHook {s : State} (j : JP s) (t p : Nat) (k : HookKind) : JP (addHook s t p k) :=
  jp_same j (addHook_pc s t p k) (by simp) (fun c _ => by rw [addHook_children]; exact Int.le_refl _)

theorem jp_startOp {s : State} (j : JP s) (t : Nat) (op : Op) : JP (startOp s t op) := by
  cases op with
  | new =>
    refine jp_same j (fun _ => rfl) (Nat.le_succ _) ?_
    intro p hp
    have e : p ≠ s.np := by omega
    simp [startOp, upd_other _ _ e]
  | exit p e => simp only [startOp]; split
                · exact jp_exitFlip j t p e
                · exact j
  | add p h => simp only [startOp]; split
               · exact jp_addHook j t p _
               · exact j
  | fork p =>
    simp only [startOp]; split
    · have j1 : JP (setProc s p { s.procs p with children := (s.procs p).children + 1 }) := by
        refine jp_same j (fun _ => rfl) (Nat.le_refl _) ?_
        intro c _
        by_cases e : c = p
        · subst e; simp; omega
        · simp [upd_other _ _ e]
      exact jp_setPc_out j1 t (.forkReg p) (by intro q x; cases x) (by intro q x; cases x)
    · exact j
  | join p =>
    simp only [startOp]; split
    · rename_i hp; exact jp_joinStart j t p hp
    · exact j
  | setv p k v =>
    simp only [startOp]; split
    · refine jp_same j (fun _ => rfl) (Nat.le_refl _) ?_
      intro c _
      by_cases e : c = p
      · subst e; simp
      · simp [upd_other _ _ e]
    · exact j
  | delv p k =>
    simp only [startOp]; split
    · refine jp_same (s' := { s with procs := (removeValue s.np s.procs p k).1 }) j (fun _ => rfl) (Nat.le_refl _) ?_
      intro c _
      rw [(removeValue_fields s.np s.procs p k c).2.2.2.2.1]; exact Int.le_refl _
    · exact j

theorem jp_forkReg {s : State} (j : JP s) (t p : Nat) : JP (forkReg s t p) := by
  unfold forkReg
  have j1 := jp_setPc_out j t .idle (by intro q x; cases x) (by intro q x; cases x)
  refine jp_addHook (s := mkChild (setThread s t { s.threads t with pc := .idle }) p) ?_ t p _
  refine jp_same j1 (fun _ => rfl) (by simp [mkChild]) ?_
  intro c hc
  have e : c ≠ s.np := by simp at hc; omega
  simp [mkChild, upd_other _ _ e]

theorem jp_runHook {s : State} (g : Good s) (jc : JC s) (w : JW s) (j : JP s) (t : Nat) (f : Frame) (h : Hook)
    (hs : List Hook) (rest : List Frame) (ht : t < s.nt) (hst : (s.threads t).stack = f :: rest)
    (hf : f.rem = h :: hs) : JP (runHook s t f h hs rest) := by
  have j1 : JP (logMove s t f h hs rest) :=
    jp_same j (setThread_pc_same s t { s.threads t with stack := { f with rem := hs } :: rest } rfl)
      (Nat.le_refl _) (fun _ _ => Int.le_refl _)
  unfold runHook
  dsimp only
  split
  · exact j1
  · rename_i q hk
    -- the counter stays non-negative: accounting in the state after the hook
    have jc' := jc_logMove_wd g jc w t f h hs rest ht hst hf q hk
    have hfm : f ∈ (s.threads t).stack := by rw [hst]; simp
    have hhm : h ∈ f.rem := by rw [hf]; simp
    have hq : q < s.np := jc.parentLt f.proc q (g.frameOK t f ht hfm).1 ((w.wdF t f h ht hfm hhm).1 q hk).1
    have hacc := jc'.acc q (by rw [(waitDone_ghost _ q).1]; exact hq)
    rw [(waitDone_fields _ q q).2.2.2.2, if_pos rfl] at hacc
    exact jp_waitDone j1 q (by omega)
  · exact jp_exitFlip j1 t _ _

theorem jp_contStep {s : State} (g : Good s) (jc : JC s) (w : JW s) (j : JP s) (t : Nat) (ht : t < s.nt) :
    JP (contStep s t) := by
  unfold contStep
  dsimp only
  split
  · exact jp_forkReg j t _
  · rename_i p hpc
    split
    · rename_i hpos; exact jp_wait j t p hpc hpos
    · exact jp_setPc_out j t .idle (by intro q x; cases x) (by intro q x; cases x)
  · exact j
  · split
    · exact j
    · rename_i f rest hst
      split
      · exact jp_same j (setThread_pc_same s t { s.threads t with stack := rest } rfl) (Nat.le_refl _)
          (fun _ _ => Int.le_refl _)
      · rename_i h hs hf
        exact jp_runHook g jc w j t f h hs rest ht hst hf

theorem jp_step {s : State} (g : Good s) (jc : JC s) (w : JW s) (j : JP s) (t : Nat) (a : Action) :
    JP (step s t a) := by
  unfold step
  split
  · rename_i ht
    cases a with
    | start op => simp only []; split
                  · exact jp_startOp j t op
                  · exact j
    | cont => exact jp_contStep g jc w j t ht
  · exact j

theorem jp_run {s : State} (g : Good s) (o : Ord s) (jc : JC s) (w : JW s) (j : JP s) (sched : List (Nat × Action)) :
    JP (run s sched) := by
  induction sched generalizing s with
  | nil => exact j
  | cons x xs ih =>
    obtain ⟨t, a⟩ := x
    have h := j_step g o jc w t a
    exact ih (good_step g t a) (ord_step g o t a) h.1 h.2 (jp_step g jc w j t a)

end Uniflow.Process
