/-
Helper lemmas about `Uniflow.Value.{cmp, equal, hash}` (Model/Value.lean) used by Props/C14.lean.
Core Lean only.
-/
import Uniflow.Model.Value

namespace Uniflow.Value
open Uniflow.Generated

/-! ### three-way results -/

/-- the shape of "≤ is transitive and strictness propagates" on three comparison results -/
def T3 (x y z : Int) : Prop :=
  (x ≤ 0 → y ≤ 0 → z ≤ 0) ∧ (x < 0 → y ≤ 0 → z < 0) ∧ (x ≤ 0 → y < 0 → z < 0)

theorem cmpNat_antisymm (a b : Nat) : cmpNat a b = -cmpNat b a := by
  unfold cmpNat; split <;> split <;> (try split) <;> omega

theorem cmpInt_antisymm (a b : Int) : cmpInt a b = -cmpInt b a := by
  unfold cmpInt; split <;> split <;> (try split) <;> omega

theorem cmpNat_zero {a b : Nat} : cmpNat a b = 0 ↔ a = b := by
  unfold cmpNat; split <;> (try split) <;> omega

theorem cmpInt_zero {a b : Int} : cmpInt a b = 0 ↔ a = b := by
  unfold cmpInt; split <;> (try split) <;> omega

theorem cmpNat_lt {a b : Nat} (h : a < b) : cmpNat a b = -1 := by
  unfold cmpNat; simp [h]

theorem cmpNat_range (a b : Nat) : cmpNat a b = -1 ∨ cmpNat a b = 0 ∨ cmpNat a b = 1 := by
  unfold cmpNat; split <;> (try split) <;> simp

theorem cmpInt_range (a b : Int) : cmpInt a b = -1 ∨ cmpInt a b = 0 ∨ cmpInt a b = 1 := by
  unfold cmpInt; split <;> (try split) <;> simp

theorem cmpNat_T3 (a b c : Nat) : T3 (cmpNat a b) (cmpNat b c) (cmpNat a c) := by
  unfold T3 cmpNat; (repeat' split) <;> omega

theorem cmpInt_T3 (a b c : Int) : T3 (cmpInt a b) (cmpInt b c) (cmpInt a c) := by
  unfold T3 cmpInt; (repeat' split) <;> omega

theorem lexStep_neg (x r : Int) : lexStep (-x) (-r) = -lexStep x r := by
  unfold lexStep; split <;> split <;> omega

theorem lexStep_zero {x r : Int} : lexStep x r = 0 ↔ x = 0 ∧ r = 0 := by
  unfold lexStep; split <;> omega

theorem lexStep_range {x r : Int} (hx : x = -1 ∨ x = 0 ∨ x = 1) (hr : r = -1 ∨ r = 0 ∨ r = 1) :
    lexStep x r = -1 ∨ lexStep x r = 0 ∨ lexStep x r = 1 := by
  unfold lexStep; split <;> omega

theorem T3_lex {x y z r s t : Int} (h : T3 x y z) (h' : T3 r s t) :
    T3 (lexStep x r) (lexStep y s) (lexStep z t) := by
  unfold T3 lexStep at *
  (repeat' split) <;> omega

/-! ### byte strings -/

theorem cmpBytes_antisymm : ∀ a b : Bytes, cmpBytes a b = -cmpBytes b a
  | [], [] => by simp [cmpBytes]
  | [], _ :: _ => by simp [cmpBytes]
  | _ :: _, [] => by simp [cmpBytes]
  | a :: as, b :: bs => by
    simp only [cmpBytes]
    rw [cmpNat_antisymm a b, cmpBytes_antisymm as bs]
    exact lexStep_neg _ _

theorem cmpBytes_zero : ∀ {a b : Bytes}, cmpBytes a b = 0 ↔ a = b
  | [], [] => by simp [cmpBytes]
  | [], _ :: _ => by simp [cmpBytes]
  | _ :: _, [] => by simp [cmpBytes]
  | a :: as, b :: bs => by
    simp only [cmpBytes, lexStep_zero, cmpNat_zero, cmpBytes_zero (a := as) (b := bs)]
    simp

theorem cmpBytes_range : ∀ a b : Bytes, cmpBytes a b = -1 ∨ cmpBytes a b = 0 ∨ cmpBytes a b = 1
  | [], [] => by simp [cmpBytes]
  | [], _ :: _ => by simp [cmpBytes]
  | _ :: _, [] => by simp [cmpBytes]
  | a :: as, b :: bs => by
    simp only [cmpBytes]
    exact lexStep_range (cmpNat_range a b) (cmpBytes_range as bs)

theorem cmpBytes_T3 : ∀ a b c : Bytes, T3 (cmpBytes a b) (cmpBytes b c) (cmpBytes a c)
  | [], [], [] => by simp [cmpBytes, T3]
  | [], [], _ :: _ => by simp [cmpBytes, T3]
  | [], _ :: _, [] => by simp [cmpBytes, T3]
  | [], _ :: _, _ :: _ => by simp [cmpBytes, T3]
  | _ :: _, [], [] => by simp [cmpBytes, T3]
  | _ :: _, [], _ :: _ => by simp [cmpBytes, T3]
  | _ :: _, _ :: _, [] => by simp [cmpBytes, T3]
  | a :: as, b :: bs, c :: cs => by
    simp only [cmpBytes]
    exact T3_lex (cmpNat_T3 a b c) (cmpBytes_T3 as bs cs)

/-! ### floats: equal keys have equal canonical patterns -/

theorem fcanon32_of_fkey32 {a b : Nat} (h : fkey32 a = fkey32 b) : fcanon32 a = fcanon32 b := by
  unfold fkey32 fkey at h
  unfold fcanon32 fcanon
  (repeat' split at h) <;> (repeat' split) <;> omega

theorem fcanon64_of_fkey64 {a b : Nat} (h : fkey64 a = fkey64 b) : fcanon64 a = fcanon64 b := by
  unfold fkey64 fkey at h
  unfold fcanon64 fcanon
  (repeat' split at h) <;> (repeat' split) <;> omega

/-! ### kinds -/

theorem intRank_inj {w w' : Width} (h : intRank w = intRank w') : w = w' := by
  cases w <;> cases w' <;> simp [intRank] at h <;> rfl

theorem uintRank_inj {w w' : Width} (h : uintRank w = uintRank w') : w = w' := by
  cases w <;> cases w' <;> simp [uintRank] at h <;> rfl

theorem int_uint_rank (w w' : Width) : intRank w ≠ uintRank w' := by
  cases w <;> cases w' <;> simp [intRank, uintRank]

theorem cmp_cross {a b : Val} (h : a.rank ≠ b.rank) : cmp a b = cmpNat a.rank b.rank := by
  cases a <;> cases b <;> simp [Val.rank] at h <;> simp [cmp, Val.rank]
  all_goals (intro h'; subst h'; simp at h)

theorem equal_cross {a b : Val} (h : a.rank ≠ b.rank) : equal a b = false := by
  cases a <;> cases b <;> simp [Val.rank] at h <;> simp [equal]
  all_goals (intro h'; subst h'; simp at h)

theorem intRank_bounds (w : Width) : 5 ≤ intRank w ∧ intRank w ≤ 9 := by cases w <;> simp [intRank]
theorem uintRank_bounds (w : Width) : 10 ≤ uintRank w ∧ uintRank w ≤ 14 := by cases w <;> simp [uintRank]

/-- closes `b.rank = <kind literal>` goals by inversion -/
macro "rank_inv" b:ident h:ident : tactic =>
  `(tactic| (cases $b:ident <;> simp only [Val.rank, Kinds.unknown, Kinds.binary, Kinds.boolean, Kinds.error, Kinds.float32,
      Kinds.float64, Kinds.string, Kinds.slice, Kinds.map] at $h:ident <;>
      first
      | exact ⟨_, rfl⟩
      | rfl
      | (exfalso; omega)
      | (exfalso; have := intRank_bounds ‹Width›; have := uintRank_bounds ‹Width›; omega)))

theorem rank_nil {b : Val} (h : b.rank = Kinds.unknown) : b = .nil := by rank_inv b h
theorem rank_bin {b : Val} (h : b.rank = Kinds.binary) : ∃ y, b = .bin y := by rank_inv b h
theorem rank_bool {b : Val} (h : b.rank = Kinds.boolean) : ∃ y, b = .bool y := by rank_inv b h
theorem rank_err {b : Val} (h : b.rank = Kinds.error) : ∃ y, b = .err y := by rank_inv b h
theorem rank_f32 {b : Val} (h : b.rank = Kinds.float32) : ∃ y, b = .f32 y := by rank_inv b h
theorem rank_f64 {b : Val} (h : b.rank = Kinds.float64) : ∃ y, b = .f64 y := by rank_inv b h
theorem rank_str {b : Val} (h : b.rank = Kinds.string) : ∃ y, b = .str y := by rank_inv b h
theorem rank_slice {b : Val} (h : b.rank = Kinds.slice) : ∃ y, b = .slice y := by rank_inv b h
theorem rank_map {b : Val} (h : b.rank = Kinds.map) : ∃ y, b = .map y := by rank_inv b h

theorem rank_int {b : Val} {w : Width} (h : b.rank = intRank w) : ∃ y, b = .int w y := by
  have hw := intRank_bounds w
  cases b <;> simp only [Val.rank, Kinds.unknown, Kinds.binary, Kinds.boolean, Kinds.error, Kinds.float32,
      Kinds.float64, Kinds.string, Kinds.slice, Kinds.map] at h
  case int w' y => exact ⟨y, by rw [intRank_inj h]⟩
  case uint w' y => have := uintRank_bounds w'; omega
  all_goals omega

theorem rank_uint {b : Val} {w : Width} (h : b.rank = uintRank w) : ∃ y, b = .uint w y := by
  have hw := uintRank_bounds w
  cases b <;> simp only [Val.rank, Kinds.unknown, Kinds.binary, Kinds.boolean, Kinds.error, Kinds.float32,
      Kinds.float64, Kinds.string, Kinds.slice, Kinds.map] at h
  case uint w' y => exact ⟨y, by rw [uintRank_inj h]⟩
  case int w' y => have := intRank_bounds w'; omega
  all_goals omega

/-! ### Compare: antisymmetry, transitivity, range -/

mutual
  theorem cmp_antisymm : ∀ a b : Val, cmp a b = -cmp b a
    | a, b => by
      by_cases h : a.rank = b.rank
      · cases a with
        | nil => obtain rfl := rank_nil h.symm; simp [cmp]
        | bin x => obtain ⟨y, rfl⟩ := rank_bin h.symm; simp only [cmp]; exact cmpBytes_antisymm x y
        | bool x => obtain ⟨y, rfl⟩ := rank_bool h.symm; simp only [cmp]; exact cmpNat_antisymm _ _
        | err x => obtain ⟨y, rfl⟩ := rank_err h.symm; simp only [cmp]; exact cmpBytes_antisymm x y
        | int w x => obtain ⟨y, rfl⟩ := rank_int h.symm; simp only [cmp, ite_true]; exact cmpInt_antisymm _ _
        | uint w x => obtain ⟨y, rfl⟩ := rank_uint h.symm; simp only [cmp, ite_true]; exact cmpNat_antisymm _ _
        | f32 x => obtain ⟨y, rfl⟩ := rank_f32 h.symm; simp only [cmp]; exact cmpInt_antisymm _ _
        | f64 x => obtain ⟨y, rfl⟩ := rank_f64 h.symm; simp only [cmp]; exact cmpInt_antisymm _ _
        | str x => obtain ⟨y, rfl⟩ := rank_str h.symm; simp only [cmp]; exact cmpBytes_antisymm x y
        | slice xs => obtain ⟨ys, rfl⟩ := rank_slice h.symm; simp only [cmp]; exact cmpL_antisymm xs ys
        | map ps => obtain ⟨qs, rfl⟩ := rank_map h.symm; simp only [cmp]; exact cmpP_antisymm ps qs
      · rw [cmp_cross h, cmp_cross (Ne.symm h)]; exact cmpNat_antisymm _ _
  theorem cmpL_antisymm : ∀ xs ys : VList, cmpL xs ys = -cmpL ys xs
    | .nil, .nil => by simp [cmpL]
    | .nil, .cons _ _ => by simp [cmpL]
    | .cons _ _, .nil => by simp [cmpL]
    | .cons x xs, .cons y ys => by
      simp only [cmpL]
      rw [cmp_antisymm x y, cmpL_antisymm xs ys]
      exact lexStep_neg _ _
  theorem cmpP_antisymm : ∀ ps qs : PList, cmpP ps qs = -cmpP qs ps
    | .nil, .nil => by simp [cmpP]
    | .nil, .cons _ _ _ => by simp [cmpP]
    | .cons _ _ _, .nil => by simp [cmpP]
    | .cons k v ps, .cons k' v' qs => by
      simp only [cmpP]
      rw [cmp_antisymm k k', cmp_antisymm v v', cmpP_antisymm ps qs, cmpNat_antisymm (hash k).toNat]
      simp only [lexStep_neg]
end


theorem T3_cross_right {x y : Int} (hy : y ≠ 0) : T3 x y y := by unfold T3; omega
theorem T3_cross_left {x y : Int} (hx : x ≠ 0) : T3 x y x := by unfold T3; omega

theorem cmpNat_ne_zero {a b : Nat} (h : a ≠ b) : cmpNat a b ≠ 0 := fun h' => h (cmpNat_zero.mp h')

mutual
  theorem cmp_T3 : ∀ a b c : Val, T3 (cmp a b) (cmp b c) (cmp a c)
    | a, b, c => by
      by_cases hab : a.rank = b.rank
      · by_cases hbc : b.rank = c.rank
        · cases a with
          | nil => obtain rfl := rank_nil hab.symm; obtain rfl := rank_nil hbc.symm; simp [cmp, T3]
          | bin x =>
            obtain ⟨y, rfl⟩ := rank_bin hab.symm; obtain ⟨z, rfl⟩ := rank_bin hbc.symm
            simp only [cmp]; exact cmpBytes_T3 x y z
          | bool x =>
            obtain ⟨y, rfl⟩ := rank_bool hab.symm; obtain ⟨z, rfl⟩ := rank_bool hbc.symm
            simp only [cmp]; exact cmpNat_T3 _ _ _
          | err x =>
            obtain ⟨y, rfl⟩ := rank_err hab.symm; obtain ⟨z, rfl⟩ := rank_err hbc.symm
            simp only [cmp]; exact cmpBytes_T3 x y z
          | int w x =>
            obtain ⟨y, rfl⟩ := rank_int hab.symm; obtain ⟨z, rfl⟩ := rank_int hbc.symm
            simp only [cmp, ite_true]; exact cmpInt_T3 _ _ _
          | uint w x =>
            obtain ⟨y, rfl⟩ := rank_uint hab.symm; obtain ⟨z, rfl⟩ := rank_uint hbc.symm
            simp only [cmp, ite_true]; exact cmpNat_T3 _ _ _
          | f32 x =>
            obtain ⟨y, rfl⟩ := rank_f32 hab.symm; obtain ⟨z, rfl⟩ := rank_f32 hbc.symm
            simp only [cmp]; exact cmpInt_T3 _ _ _
          | f64 x =>
            obtain ⟨y, rfl⟩ := rank_f64 hab.symm; obtain ⟨z, rfl⟩ := rank_f64 hbc.symm
            simp only [cmp]; exact cmpInt_T3 _ _ _
          | str x =>
            obtain ⟨y, rfl⟩ := rank_str hab.symm; obtain ⟨z, rfl⟩ := rank_str hbc.symm
            simp only [cmp]; exact cmpBytes_T3 x y z
          | slice xs =>
            obtain ⟨ys, rfl⟩ := rank_slice hab.symm; obtain ⟨zs, rfl⟩ := rank_slice hbc.symm
            simp only [cmp]; exact cmpL_T3 xs ys zs
          | map ps =>
            obtain ⟨qs, rfl⟩ := rank_map hab.symm; obtain ⟨rs, rfl⟩ := rank_map hbc.symm
            simp only [cmp]; exact cmpP_T3 ps qs rs
        · have hac : a.rank ≠ c.rank := hab ▸ hbc
          rw [cmp_cross hbc, cmp_cross hac, hab]
          exact T3_cross_right (cmpNat_ne_zero hbc)
      · by_cases hbc : b.rank = c.rank
        · have hac : a.rank ≠ c.rank := hbc ▸ hab
          rw [cmp_cross hab, cmp_cross hac, hbc]
          exact T3_cross_left (cmpNat_ne_zero (hbc ▸ hab))
        · rw [cmp_cross hab, cmp_cross hbc]
          by_cases hac : a.rank = c.rank
          · unfold T3 cmpNat; rw [hac]; (repeat' split) <;> omega
          · rw [cmp_cross hac]; exact cmpNat_T3 _ _ _
  theorem cmpL_T3 : ∀ xs ys zs : VList, T3 (cmpL xs ys) (cmpL ys zs) (cmpL xs zs)
    | .nil, .nil, .nil => by simp [cmpL, T3]
    | .nil, .nil, .cons _ _ => by simp [cmpL, T3]
    | .nil, .cons _ _, .nil => by simp [cmpL, T3]
    | .nil, .cons _ _, .cons _ _ => by simp [cmpL, T3]
    | .cons _ _, .nil, .nil => by simp [cmpL, T3]
    | .cons _ _, .nil, .cons _ _ => by simp [cmpL, T3]
    | .cons _ _, .cons _ _, .nil => by simp [cmpL, T3]
    | .cons x xs, .cons y ys, .cons z zs => by
      simp only [cmpL]
      exact T3_lex (cmp_T3 x y z) (cmpL_T3 xs ys zs)
  theorem cmpP_T3 : ∀ ps qs rs : PList, T3 (cmpP ps qs) (cmpP qs rs) (cmpP ps rs)
    | .nil, .nil, .nil => by simp [cmpP, T3]
    | .nil, .nil, .cons _ _ _ => by simp [cmpP, T3]
    | .nil, .cons _ _ _, .nil => by simp [cmpP, T3]
    | .nil, .cons _ _ _, .cons _ _ _ => by simp [cmpP, T3]
    | .cons _ _ _, .nil, .nil => by simp [cmpP, T3]
    | .cons _ _ _, .nil, .cons _ _ _ => by simp [cmpP, T3]
    | .cons _ _ _, .cons _ _ _, .nil => by simp [cmpP, T3]
    | .cons k v ps, .cons k' v' qs, .cons k'' v'' rs => by
      simp only [cmpP]
      exact T3_lex (cmpNat_T3 _ _ _) (T3_lex (cmp_T3 k k' k'') (T3_lex (cmp_T3 v v' v'') (cmpP_T3 ps qs rs)))
end

mutual
  theorem cmp_range : ∀ a b : Val, cmp a b = -1 ∨ cmp a b = 0 ∨ cmp a b = 1
    | a, b => by
      by_cases h : a.rank = b.rank
      · cases a with
        | nil => obtain rfl := rank_nil h.symm; simp [cmp]
        | bin x => obtain ⟨y, rfl⟩ := rank_bin h.symm; simp only [cmp]; exact cmpBytes_range x y
        | bool x => obtain ⟨y, rfl⟩ := rank_bool h.symm; simp only [cmp]; exact cmpNat_range _ _
        | err x => obtain ⟨y, rfl⟩ := rank_err h.symm; simp only [cmp]; exact cmpBytes_range x y
        | int w x => obtain ⟨y, rfl⟩ := rank_int h.symm; simp only [cmp, ite_true]; exact cmpInt_range _ _
        | uint w x => obtain ⟨y, rfl⟩ := rank_uint h.symm; simp only [cmp, ite_true]; exact cmpNat_range _ _
        | f32 x => obtain ⟨y, rfl⟩ := rank_f32 h.symm; simp only [cmp]; exact cmpInt_range _ _
        | f64 x => obtain ⟨y, rfl⟩ := rank_f64 h.symm; simp only [cmp]; exact cmpInt_range _ _
        | str x => obtain ⟨y, rfl⟩ := rank_str h.symm; simp only [cmp]; exact cmpBytes_range x y
        | slice xs => obtain ⟨ys, rfl⟩ := rank_slice h.symm; simp only [cmp]; exact cmpL_range xs ys
        | map ps => obtain ⟨qs, rfl⟩ := rank_map h.symm; simp only [cmp]; exact cmpP_range ps qs
      · rw [cmp_cross h]; exact cmpNat_range _ _
  theorem cmpL_range : ∀ xs ys : VList, cmpL xs ys = -1 ∨ cmpL xs ys = 0 ∨ cmpL xs ys = 1
    | .nil, .nil => by simp [cmpL]
    | .nil, .cons _ _ => by simp [cmpL]
    | .cons _ _, .nil => by simp [cmpL]
    | .cons x xs, .cons y ys => by
      simp only [cmpL]
      exact lexStep_range (cmp_range x y) (cmpL_range xs ys)
  theorem cmpP_range : ∀ ps qs : PList, cmpP ps qs = -1 ∨ cmpP ps qs = 0 ∨ cmpP ps qs = 1
    | .nil, .nil => by simp [cmpP]
    | .nil, .cons _ _ _ => by simp [cmpP]
    | .cons _ _ _, .nil => by simp [cmpP]
    | .cons k v ps, .cons k' v' qs => by
      simp only [cmpP]
      exact lexStep_range (cmpNat_range _ _) (lexStep_range (cmp_range k k') (lexStep_range (cmp_range v v') (cmpP_range ps qs)))
end
/-! ### Equal implies equal hashes -/

mutual
  theorem equal_hash : ∀ a b : Val, equal a b = true → hash a = hash b
    | a, b, h => by
      by_cases hr : a.rank = b.rank
      · cases a with
        | nil => obtain rfl := rank_nil hr.symm; rfl
        | bin x => obtain ⟨y, rfl⟩ := rank_bin hr.symm; simp [equal] at h; simp [hash, h.2]
        | bool x => obtain ⟨y, rfl⟩ := rank_bool hr.symm; simp [equal] at h; simp [h]
        | err x => obtain ⟨y, rfl⟩ := rank_err hr.symm; simp [equal] at h; simp [h]
        | int w x => obtain ⟨y, rfl⟩ := rank_int hr.symm; simp [equal] at h; simp [h]
        | uint w x => obtain ⟨y, rfl⟩ := rank_uint hr.symm; simp [equal] at h; simp [h]
        | f32 x =>
          obtain ⟨y, rfl⟩ := rank_f32 hr.symm; simp [equal] at h
          simp only [hash]; rw [fcanon32_of_fkey32 h]
        | f64 x =>
          obtain ⟨y, rfl⟩ := rank_f64 hr.symm; simp [equal] at h
          simp only [hash]; rw [fcanon64_of_fkey64 h]
        | str x => obtain ⟨y, rfl⟩ := rank_str hr.symm; simp [equal] at h; simp [h]
        | slice xs =>
          obtain ⟨ys, rfl⟩ := rank_slice hr.symm; simp [equal] at h
          simp only [hash]; exact equalL_hash xs ys h.2 _
        | map ps =>
          obtain ⟨qs, rfl⟩ := rank_map hr.symm; simp [equal] at h
          simp only [hash]; exact equalP_hash ps qs h.2 _
      · rw [equal_cross hr] at h; cases h
  theorem equalL_hash : ∀ xs ys : VList, equalL xs ys = true → ∀ h0 : UInt64, hashL h0 xs = hashL h0 ys
    | .nil, .nil, _, _ => rfl
    | .nil, .cons _ _, h, _ => by simp [equalL] at h
    | .cons _ _, .nil, h, _ => by simp [equalL] at h
    | .cons x xs, .cons y ys, h, h0 => by
      simp [equalL] at h
      simp only [hashL]
      rw [equal_hash x y h.1]
      exact equalL_hash xs ys h.2 _
  theorem equalP_hash : ∀ ps qs : PList, equalP ps qs = true → ∀ h0 : UInt64, hashP h0 ps = hashP h0 qs
    | .nil, .nil, _, _ => rfl
    | .nil, .cons _ _ _, h, _ => by simp [equalP] at h
    | .cons _ _ _, .nil, h, _ => by simp [equalP] at h
    | .cons k v ps, .cons k' v' qs, h, h0 => by
      simp [equalP] at h
      simp only [hashP]
      rw [equal_hash k k' h.1.1, equal_hash v v' h.1.2]
      exact equalP_hash ps qs h.2 _
end

/-! ### Compare = 0 exactly when Equal -/

theorem bool_cmp_zero {x y : Bool} : cmpNat x.toNat y.toNat = 0 ↔ x = y := by
  cases x <;> cases y <;> simp [cmpNat]

mutual
  theorem cmp_zero_iff_equal : ∀ a b : Val, cmp a b = 0 ↔ equal a b = true
    | a, b => by
      by_cases hr : a.rank = b.rank
      · cases a with
        | nil => obtain rfl := rank_nil hr.symm; simp [cmp, equal]
        | bin x => obtain ⟨y, rfl⟩ := rank_bin hr.symm; simp only [cmp, equal, cmpBytes_zero]; simp; intro h; rw [h]
        | bool x => obtain ⟨y, rfl⟩ := rank_bool hr.symm; simp only [cmp, equal, bool_cmp_zero]; simp
        | err x => obtain ⟨y, rfl⟩ := rank_err hr.symm; simp only [cmp, equal, cmpBytes_zero]; simp
        | int w x => obtain ⟨y, rfl⟩ := rank_int hr.symm; simp only [cmp, equal, ite_true, cmpInt_zero]; simp
        | uint w x => obtain ⟨y, rfl⟩ := rank_uint hr.symm; simp only [cmp, equal, ite_true, cmpNat_zero]; simp
        | f32 x => obtain ⟨y, rfl⟩ := rank_f32 hr.symm; simp only [cmp, equal, cmpInt_zero]; simp
        | f64 x => obtain ⟨y, rfl⟩ := rank_f64 hr.symm; simp only [cmp, equal, cmpInt_zero]; simp
        | str x => obtain ⟨y, rfl⟩ := rank_str hr.symm; simp only [cmp, equal, cmpBytes_zero]; simp
        | slice xs =>
          obtain ⟨ys, rfl⟩ := rank_slice hr.symm
          simp only [cmp, equal, cmpL_zero_iff xs ys, Bool.and_eq_true, beq_iff_eq]
          exact ⟨fun h => ⟨equalL_hash xs ys h _, h⟩, fun h => h.2⟩
        | map ps =>
          obtain ⟨qs, rfl⟩ := rank_map hr.symm
          simp only [cmp, equal, cmpP_zero_iff ps qs, Bool.and_eq_true, beq_iff_eq]
          exact ⟨fun h => ⟨equalP_hash ps qs h _, h⟩, fun h => h.2⟩
      · rw [cmp_cross hr, equal_cross hr]
        simp [cmpNat_zero, hr]
  theorem cmpL_zero_iff : ∀ xs ys : VList, cmpL xs ys = 0 ↔ equalL xs ys = true
    | .nil, .nil => by simp [cmpL, equalL]
    | .nil, .cons _ _ => by simp [cmpL, equalL]
    | .cons _ _, .nil => by simp [cmpL, equalL]
    | .cons x xs, .cons y ys => by
      simp only [cmpL, equalL, lexStep_zero, cmp_zero_iff_equal x y, cmpL_zero_iff xs ys, Bool.and_eq_true]
  theorem cmpP_zero_iff : ∀ ps qs : PList, cmpP ps qs = 0 ↔ equalP ps qs = true
    | .nil, .nil => by simp [cmpP, equalP]
    | .nil, .cons _ _ _ => by simp [cmpP, equalP]
    | .cons _ _ _, .nil => by simp [cmpP, equalP]
    | .cons k v ps, .cons k' v' qs => by
      simp only [cmpP, equalP, lexStep_zero, cmp_zero_iff_equal k k', cmp_zero_iff_equal v v',
        cmpP_zero_iff ps qs, Bool.and_eq_true, cmpNat_zero]
      constructor
      · intro h; exact ⟨⟨h.2.1, h.2.2.1⟩, h.2.2.2⟩
      · intro h; exact ⟨by rw [equal_hash k k' h.1.1], h.1.1, h.1.2, h.2⟩
end

end Uniflow.Value
