/-
C02, joint model, general links (fan-out and fan-in), part 1: ghost rows of a writer – one cell per linked
reader, `(copy, answer?)` – and how `fillCol` (`Writer.receive`) acts on them.
-/
import Uniflow.Proofs.FlowInv16

namespace Uniflow.FlowG
open Uniflow.Tracer Uniflow.Node Uniflow.Flow Uniflow.FlowInv

/-- a pending row of a writer: the written packet and, per linked reader, the copy it was handed and
the answer that reader has given so far -/
structure PRow where
  q : Pid
  cells : List (Pid × Option Ans)

def rowOf (r : PRow) : List (Option Ans) := r.cells.map (·.2)

def cellPend : Option (Pid × Option Ans) → Option Pid
  | some (c, none) => some c
  | _ => none

/-- the copies reader number `i` still holds, oldest first -/
def colPend (i : Nat) (prs : List PRow) : List Pid := prs.filterMap (fun r => cellPend r.cells[i]?)

def setG : List (Pid × Option Ans) → Nat → Ans → List (Pid × Option Ans)
  | [], _, _ => []
  | (c, _) :: cs, 0, a => (c, some a) :: cs
  | x :: cs, i + 1, a => x :: setG cs i a

theorem setCell_map : ∀ (cs : List (Pid × Option Ans)) (i : Nat) (a : Ans),
    setCell (cs.map (·.2)) i a = (setG cs i a).map (·.2)
  | [], _, _ => rfl
  | (c, _) :: cs, 0, a => rfl
  | x :: cs, i + 1, a => by simp only [List.map_cons, setCell, setG, setCell_map cs i a]

theorem cellFree_map : ∀ (cs : List (Pid × Option Ans)) (i : Nat),
    cellFree (cs.map (·.2)) i = (cellPend cs[i]?).isSome
  | [], _ => by simp [cellFree, cellPend]
  | (c, none) :: cs, 0 => by simp [cellFree, cellPend]
  | (c, some _) :: cs, 0 => by simp [cellFree, cellPend]
  | x :: cs, i + 1 => by simp only [List.map_cons, cellFree, List.getElem?_cons_succ]; exact cellFree_map cs i

theorem setG_fst : ∀ (cs : List (Pid × Option Ans)) (i : Nat) (a : Ans), (setG cs i a).map (·.1) = cs.map (·.1)
  | [], _, _ => rfl
  | (c, _) :: cs, 0, a => rfl
  | x :: cs, i + 1, a => by simp only [setG, List.map_cons, setG_fst cs i a]

theorem setG_length : ∀ (cs : List (Pid × Option Ans)) (i : Nat) (a : Ans), (setG cs i a).length = cs.length
  | [], _, _ => rfl
  | (c, _) :: cs, 0, a => rfl
  | x :: cs, i + 1, a => by simp only [setG, List.length_cons, setG_length cs i a]

theorem setG_same : ∀ (cs : List (Pid × Option Ans)) (i : Nat) (a : Ans), cellPend (setG cs i a)[i]? = none
  | [], _, _ => by simp [setG, cellPend]
  | (c, _) :: cs, 0, a => by simp [setG, cellPend]
  | x :: cs, i + 1, a => by simp only [setG, List.getElem?_cons_succ]; exact setG_same cs i a

theorem setG_other : ∀ (cs : List (Pid × Option Ans)) (i i' : Nat) (a : Ans), i' ≠ i →
    (setG cs i a)[i']? = cs[i']?
  | [], _, _, _, _ => rfl
  | (c, _) :: cs, 0, 0, a, h => absurd rfl h
  | (c, _) :: cs, 0, i' + 1, a, _ => by simp [setG]
  | x :: cs, i + 1, 0, a, _ => by simp [setG]
  | x :: cs, i + 1, i' + 1, a, h => by
    simp only [setG, List.getElem?_cons_succ]; exact setG_other cs i i' a (fun e => h (by rw [e]))

theorem setG_mem : ∀ (cs : List (Pid × Option Ans)) (i : Nat) (a : Ans) (c : Pid), cellPend cs[i]? = some c →
    ∀ c' a', (c', some a') ∈ setG cs i a → (c', some a') ∈ cs ∨ (c' = c ∧ a' = a)
  | [], _, _, _, h => by simp [cellPend] at h
  | (c0, none) :: cs, 0, a, c, h => by
    simp only [List.getElem?_cons_zero, cellPend, Option.some.injEq] at h
    subst h
    intro c' a' hm
    simp only [setG, List.mem_cons, Prod.mk.injEq, Option.some.injEq] at hm
    rcases hm with ⟨e1, e2⟩ | hm
    · right; exact ⟨e1, e2⟩
    · left; exact List.mem_cons_of_mem _ hm
  | (c0, some _) :: cs, 0, a, c, h => by simp [cellPend] at h
  | x :: cs, i + 1, a, c, h => by
    simp only [List.getElem?_cons_succ] at h
    intro c' a' hm
    simp only [setG, List.mem_cons] at hm
    rcases hm with e | hm
    · left; rw [e]; exact List.mem_cons_self
    · rcases setG_mem cs i a c h c' a' hm with h1 | h1
      · left; exact List.mem_cons_of_mem _ h1
      · right; exact h1

/-- `fillCol` on ghost rows -/
def fillG (i : Nat) (a : Ans) : List PRow → Bool → Option (List PRow × Bool)
  | [], _ => none
  | r :: rs, first =>
    if (cellPend r.cells[i]?).isSome then some ({ r with cells := setG r.cells i a } :: rs, first)
    else match fillG i a rs false with
      | some (rs', f) => some (r :: rs', f)
      | none => none

theorem fillCol_map (i : Nat) (a : Ans) : ∀ (prs : List PRow) (b : Bool),
    fillCol i a (prs.map rowOf) b = (fillG i a prs b).map (fun x => (x.1.map rowOf, x.2))
  | [], _ => rfl
  | r :: rs, b => by
    simp only [List.map_cons, fillCol, fillG, rowOf, cellFree_map]
    by_cases h : (cellPend r.cells[i]?).isSome = true
    · simp only [h, if_true, Option.map_some, List.map_cons, setCell_map, rowOf]
    · simp only [h, Bool.false_eq_true, if_false]
      have ih := fillCol_map i a rs false
      rw [ih]
      cases fillG i a rs false with
      | none => rfl
      | some x => obtain ⟨rs', f⟩ := x; simp [rowOf]

theorem fillG_spec (i : Nat) (a : Ans) (c : Pid) (rest : List Pid) : ∀ (prs : List PRow) (b : Bool),
    colPend i prs = c :: rest →
    ∃ prs' fl, fillG i a prs b = some (prs', fl) ∧ colPend i prs' = rest ∧
      (∀ i', i' ≠ i → colPend i' prs' = colPend i' prs) ∧ prs'.map (·.q) = prs.map (·.q) ∧
      (∀ r' ∈ prs', r' ∈ prs ∨ ∃ r ∈ prs, cellPend r.cells[i]? = some c ∧ r' = { r with cells := setG r.cells i a }) ∧
      (fl = true → b = true ∧ ∃ r tl, prs = r :: tl ∧ cellPend r.cells[i]? = some c ∧
        prs' = { r with cells := setG r.cells i a } :: tl) ∧
      (fl = false → ∃ r tl tl', prs = r :: tl ∧ prs' = r :: tl' ∨ b = false)
  | [], _, h => by simp [colPend] at h
  | r :: rs, b, h => by
    simp only [fillG]
    cases hc : cellPend r.cells[i]? with
    | some c0 =>
      simp only [colPend, List.filterMap_cons, hc, List.cons.injEq] at h
      obtain ⟨e1, e2⟩ := h
      subst e1
      simp only [Option.isSome_some, if_true]
      refine ⟨_, b, rfl, ?_, ?_, rfl, ?_, ?_, ?_⟩
      · simp only [colPend, List.filterMap_cons, setG_same]; exact e2
      · intro i' hi'; simp only [colPend, List.filterMap_cons, setG_other _ i i' a hi']
      · intro r' hr'
        simp only [List.mem_cons] at hr'
        rcases hr' with e | hr'
        · right; exact ⟨r, List.mem_cons_self, hc, e⟩
        · left; exact List.mem_cons_of_mem _ hr'
      · intro hb; exact ⟨hb, r, rs, rfl, hc, rfl⟩
      · intro hb; exact ⟨r, rs, rs, Or.inr hb⟩
    | none =>
      simp only [colPend, List.filterMap_cons, hc] at h
      simp only [Option.isSome_none, Bool.false_eq_true, if_false]
      obtain ⟨prs', fl, h1, h2, h3, h4, h5, h6, _⟩ := fillG_spec i a c rest rs false h
      rw [h1]
      refine ⟨r :: prs', fl, rfl, ?_, ?_, ?_, ?_, ?_, ?_⟩
      · simp only [colPend, List.filterMap_cons, hc]; exact h2
      · intro i' hi'; simp only [colPend, List.filterMap_cons]; rw [← colPend, ← colPend, h3 i' hi']
      · simp only [List.map_cons, h4]
      · intro r' hr'
        simp only [List.mem_cons] at hr'
        rcases hr' with e | hr'
        · left; rw [e]; exact List.mem_cons_self
        · rcases h5 r' hr' with h | ⟨r0, hr0, e1, e2⟩
          · left; exact List.mem_cons_of_mem _ h
          · right; exact ⟨r0, List.mem_cons_of_mem _ hr0, e1, e2⟩
      · intro hfl; exact absurd (h6 hfl).1 (by simp)
      · intro _; exact ⟨r, rs, prs', Or.inl ⟨rfl, rfl⟩⟩

/-- the shape of a fill: the rows before the one that is filled have column `i` answered already -/
theorem fillG_shape (i : Nat) (a : Ans) (c : Pid) (rest : List Pid) : ∀ (prs : List PRow) (b : Bool),
    colPend i prs = c :: rest →
    ∃ pre r post, prs = pre ++ r :: post ∧ (∀ r0 ∈ pre, cellPend r0.cells[i]? = none) ∧
      cellPend r.cells[i]? = some c ∧
      fillG i a prs b = some (pre ++ { r with cells := setG r.cells i a } :: post, b && pre.isEmpty)
  | [], _, h => by simp [colPend] at h
  | r :: rs, b, h => by
    simp only [fillG]
    cases hc : cellPend r.cells[i]? with
    | some c0 =>
      simp only [colPend, List.filterMap_cons, hc, List.cons.injEq] at h
      obtain ⟨e1, _⟩ := h
      subst e1
      exact ⟨[], r, rs, rfl, by simp, hc, by simp⟩
    | none =>
      simp only [colPend, List.filterMap_cons, hc] at h
      obtain ⟨pre, r1, post, e1, e2, e3, e4⟩ := fillG_shape i a c rest rs false h
      refine ⟨r :: pre, r1, post, by rw [e1]; rfl, ?_, e3, ?_⟩
      · intro r0 hr0
        simp only [List.mem_cons] at hr0
        rcases hr0 with e | hr0
        · rw [e]; exact hc
        · exact e2 r0 hr0
      · simp only [Option.isSome_none, Bool.false_eq_true, if_false, e4]
        simp

theorem hasNil_of_pend : ∀ (cs : List (Pid × Option Ans)) (x : Nat) (c : Pid), cellPend cs[x]? = some c →
    hasNil (cs.map (·.2)) = true
  | [], _, _, h => by simp [cellPend] at h
  | (c0, none) :: cs, _, _, _ => by simp [hasNil]
  | (c0, some _) :: cs, 0, _, h => by simp [cellPend] at h
  | (c0, some _) :: cs, x + 1, c, h => by
    simp only [List.getElem?_cons_succ] at h
    simp only [List.map_cons, hasNil]; exact hasNil_of_pend cs x c h

theorem pend_of_hasNil : ∀ (cs : List (Pid × Option Ans)), hasNil (cs.map (·.2)) = true →
    ∃ (x : Nat) (c : Pid), cellPend cs[x]? = some c
  | [], h => by simp [hasNil] at h
  | (c0, none) :: cs, _ => ⟨0, c0, by simp [cellPend]⟩
  | (c0, some _) :: cs, h => by
    simp only [List.map_cons, hasNil] at h
    obtain ⟨x, c, hx⟩ := pend_of_hasNil cs h
    exact ⟨x + 1, c, by simpa using hx⟩

end Uniflow.FlowG
