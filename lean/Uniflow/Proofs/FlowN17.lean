/-
C02, joint model, all node kinds, part 17: the programs of the class (links, then writes), and the action running
in thread `i` of a node returns its derived packets.
-/
import Uniflow.Proofs.FlowN16

namespace Uniflow.FlowN
open Uniflow.Tracer Uniflow.Node Uniflow.Flow Uniflow.FlowInv Uniflow.FlowG Uniflow.ATracer Uniflow.FlowH Uniflow.FlowM
open Uniflow.ATracer (getL_setOrDel getL_aset)

theorem introS_finish0 (i : Rid) (o : Outcome) : introS (.finish 0 o) = introS (.finish i o) := by
  cases o <;> rfl

/-- a program of the class with at least one derived packet: links of all, then writes of all -/
theorem program_mk (kind : Kind) (p : Pkt) (o : Outcome) (ops : List Op) (hk : KindOK kind)
    (hp : program kind p o = some ops) (hne : linkTargets ops ≠ [])
    (hfresh : ∀ x ∈ introS (.finish 0 o), x ≠ p.id) :
    ∃ lk wr, ops = mkOps p.id lk wr ∧ wr.map (·.2.id) = lk ∧ (∀ x ∈ wr, x.1 < maxW) ∧ p.id ∉ lk := by
  cases o with
  | err q =>
    simp only [program, Option.some.injEq] at hp; subst hp
    exact ⟨[q.id], [(errW, q)], rfl, rfl, by simp [errW, maxW],
      by simpa using fun e => hfresh q.id (by simp [introS]) e.symm⟩
  | outs qs =>
    cases kind with
    | manyToOne _ =>
      simp only [program] at hp
      match qs, hp with
      | [some q], hp =>
        simp only [Option.some.injEq] at hp; subst hp
        exact ⟨[q.id], [(outW 0, q)], rfl, rfl, by simp [outW, maxW],
          by simpa using fun e => hfresh q.id (by simp [introS, cellsOf]) e.symm⟩
      | [], hp => simp only [Option.some.injEq] at hp; subst hp; simp [linkTargets] at hne
      | [none], hp => simp only [Option.some.injEq] at hp; subst hp; simp [linkTargets] at hne
      | _ :: _ :: _, hp => simp only [Option.some.injEq] at hp; subst hp; simp [linkTargets] at hne
    | oneToOne =>
      simp only [program] at hp
      match qs, hp with
      | [some q], hp =>
        simp only [Option.some.injEq] at hp; subst hp
        exact ⟨[q.id], [(outW 0, q)], rfl, rfl, by simp [outW, maxW],
          by simpa using fun e => hfresh q.id (by simp [introS, cellsOf]) e.symm⟩
      | [], hp => simp only [Option.some.injEq] at hp; subst hp; simp [linkTargets] at hne
      | [none], hp => simp only [Option.some.injEq] at hp; subst hp; simp [linkTargets] at hne
      | _ :: _ :: _, hp => simp only [Option.some.injEq] at hp; subst hp; simp [linkTargets] at hne
    | oneToMany n =>
      simp only [program] at hp
      cases hv : validOuts n 0 qs with
      | nil =>
        simp only [hv, Option.some.injEq] at hp; subst hp
        simp [linkTargets] at hne
      | cons v vs =>
        simp only [hv, Option.some.injEq] at hp
        refine ⟨(v :: vs).map (·.2.id), (v :: vs).map (fun iq => (outW iq.1, iq.2)), ?_, ?_, ?_, ?_⟩
        · rw [← hp]; simp [mkOps, List.map_map, Function.comp_def]
        · simp [List.map_map, Function.comp_def]
        rotate_left
        · intro hm
          have hsub := validOuts_sub n 0 qs
          rw [hv] at hsub
          exact hfresh p.id (by simpa [introS] using hsub.subset hm) rfl
        · intro x hx
          simp only [List.mem_map] at hx
          obtain ⟨iq, hiq, e⟩ := hx
          have := validOuts_lt n 0 qs iq (by rw [hv]; exact hiq)
          simp only [KindOK] at hk
          rw [← e]; show iq.1 + 1 < maxW; omega

theorem HI_finish (kinds : List Kind) (links : List (Nat × List Tgt)) (hwf : GraphWF5 kinds links) (aa : Nat → A) (g : G)
    (h : HI kinds links aa D0 g) (n : Nat) (nd : Node) (i : Rid) (p : Pkt) (grp inbox : List Pkt)
    (hn : getNode g.nodes n = some nd) (hg : getThread nd.threads i = some { inbox := inbox, pc := .action p grp })
    (o : Outcome) (nx : Nat) (ops : List Op) (hp : program nd.kind p o = some ops) (hne : linkTargets ops ≠ [])
    (hnd : (introS (.finish i o)).Nodup) (hfr : ∀ k ∈ introS (.finish i o), g.next ≤ k ∧ k < nx) (hle : g.next ≤ nx) :
    ∃ nd', Node.step nd (.finish i o) = some (nd', []) ∧ (writeIds ops).filter (fun q => q != p.id) = linkTargets ops ∧
      HI kinds links aa D0
        { g with nodes := setNode g.nodes n nd', next := nx,
                 log := { g.log with acts := aset g.log.acts p.id (linkTargets ops),
                                     owner := (linkTargets ops).foldl (fun m q => aset m q (qTag n)) g.log.owner } } := by
  have hjb := h.jb n nd hn
  have hnl := h.nl n nd hn i _ hg
  have hi63 : i < 63 :=
    Nat.lt_of_lt_of_le (getThread_lt _ _ _ hg) (by rw [h.thr n nd hn]; exact nIn_le _ (h.kindOK n nd hn))
  have hX : (⟨p.id, i, .cells []⟩ : Req) ∈ (aa n).reqs := by have := hjb.j.th i _ hg; simpa [ThOK] using this
  have hpi : p.id ∈ ids (aa n).reqs := mem_ids_of_mem hX (by simp [idsR])
  have hplt : p.id < g.next := hjb.bnd p.id (List.mem_append_left _ hpi)
  have hfresh : ∀ x ∈ introS (.finish i o), x ≠ p.id :=
    fun x hx e => by rw [e] at hx; exact Nat.lt_irrefl _ (Nat.lt_of_lt_of_le hplt (hfr _ hx).1)
  obtain ⟨lk, wr, hops, hwr, hwb, hplk⟩ := program_mk nd.kind p o ops (h.kindOK n nd hn) hp hne
    (by rw [introS_finish0 i o]; exact hfresh)
  have hlt : linkTargets ops = lk := by rw [hops, linkTargets_mkOps _ _ _ hplk]
  obtain ⟨_, hsub, _⟩ := program_ok nd.kind p o ops i i (aa n).reqs hp hX (Or.inl hfresh)
  obtain ⟨hst, hjb'⟩ := jbm_finish nd (aa n) g.next nx hjb i p grp inbox hg o ops hp hnd hfr hle
  have hlkb : ∀ t ∈ linkTargets ops, g.next ≤ t ∧ t < nx := fun t ht' => hfr t (hsub.subset ht')
  have hdis := jbm_disj nd (aa n) g.next hjb i _ hg p.id hpi
  have hpU : Unlogged g.log p.id := req_unlogged g.log n i _ (aa n) p.id hnl hX rfl
  let lg' : Log := { g.log with acts := aset g.log.acts p.id (linkTargets ops),
                                owner := (linkTargets ops).foldl (fun m q => aset m q (qTag n)) g.log.owner }
  have hx : LogExt g.log lg' p.id := by
    refine ⟨hpU, fun x hxne => ⟨?_, rfl, rfl, rfl⟩⟩
    show aget (aset g.log.acts p.id _) x = _
    rw [aget_aset]; simp [hxne]
  have hownO : ∀ id, id < g.next → aget lg'.owner id = aget g.log.owner id := by
    intro id hid
    show aget ((linkTargets ops).foldl _ _) id = _
    apply foldl_owner_other
    intro hm
    exact Nat.lt_irrefl _ (Nat.lt_of_lt_of_le hid (hlkb id hm).1)
  have hfilt : (writeIds ops).filter (fun q => q != p.id) = linkTargets ops := by
    rw [hlt, hops, writeIds_mkOps, hwr]
    apply List.filter_eq_self.mpr
    intro q hq
    rw [← hlt] at hq
    have := (hlkb q hq).1
    simp only [bne_iff_ne, ne_eq]
    intro e; rw [e] at this; exact Nat.lt_irrefl _ (Nat.lt_of_lt_of_le hplt this)
  obtain ⟨hr1, hr2⟩ := remOps_mkOps p.id lk wr hplk
  have hlt' := nlIdsT_lt nd (aa n) g.next hjb i _ hg
  refine ⟨_, hst, hfilt, ?_⟩
  have key := HI_thread_step kinds links hwf aa g h n nd
    { nd with threads := setThread nd.threads i { inbox := inbox, pc := .emit ops } } i _
    { inbox := inbox, pc := .emit ops } (aa n) lg' nx p.id hn hg rfl (hths_of_set nd.threads i _ _ hg) hjb'
    (by
      apply nlt_finish g.log lg' n i (aa n) p grp inbox ops hnl hjb.j.inv.nodup hX
      · intro q hq e
        exact hdis (by simp only [tids, List.mem_append, List.mem_map]; left; exact ⟨q, hq, e⟩)
      · rw [hops, hr1, linkTargets_mkOps _ _ _ hplk]
      · intro p' hp'; rw [hops]; exact hr2 p' hp'
      · exact hne
      · rw [hops]; exact wOK_mkOps p.id lk wr hwb
      · exact hx
      · show aget (aset g.log.acts p.id _) p.id = _
        rw [aget_aset]; simp [optl, hne]
      · exact hpU.2.2.1
      · exact hpU.2.2.2
      · exact hpU.2.1
      · intro t ht'
        have hb := hlkb t ht'
        refine ⟨unlogged_ext g.log lg' p.id hx t (fun e => by rw [e] at hb; exact Nat.lt_irrefl _ (Nat.lt_of_lt_of_le hplt hb.1))
          (h.logBound t hb.1), ?_⟩
        show aget ((linkTargets ops).foldl _ _) t = _
        exact foldl_owner_mem _ _ _ t ht'
      · intro id hid
        exact hownO id (hlt' id hid))
    (fun y hy _ => hy) (h.rdr n nd hn) hle
    (by
      rw [heldN_of _ (aa n) i { inbox := inbox, pc := .emit ops } (by
          show getThread (setThread nd.threads i _) i = _
          rw [hths_of_set nd.threads i _ _ hg]; simp),
        heldN_of nd (aa n) i _ hg])
    (fun _ _ => rfl) (fun _ => rfl) hx hownO
    (by
      intro id hid
      exact unlogged_ext g.log lg' p.id hx id
        (fun e => by rw [e] at hid; exact Nat.lt_irrefl _ (Nat.lt_of_lt_of_le hplt (Nat.le_trans hle hid)))
        (h.logBound id (Nat.le_trans hle hid)))
    (Or.inr (Or.inr ⟨_, hX, rfl, by simp [idsR]⟩))
    (Or.inr ⟨n * 64 + i, hnl.own _ hX rfl, tag_reader n i hi63⟩)
    (by
      refine ⟨fun cs hcs => ?_, fun qs hqs => ?_⟩
      · have : aget lg'.dels p.id = none := hpU.2.1
        rw [this] at hcs; cases hcs
      · have : aget lg'.acts p.id = some (linkTargets ops) := by
          show aget (aset g.log.acts p.id _) p.id = _; rw [aget_aset]; simp
        rw [this] at hqs
        simp only [Option.some.injEq] at hqs
        subst hqs
        intro q hq
        exact ⟨Nat.lt_of_lt_of_le hplt (hlkb q hq).1, (hlkb q hq).2⟩)
  rw [updA_self] at key
  exact HI_congr kinds links _ D0 _ _ key rfl rfl rfl rfl rfl rfl rfl rfl rfl

end Uniflow.FlowN
