/-
C02, joint model, all node kinds, part 12: a `Write` nobody accepts (the packet is its own answer) – `Write(nil, in)`
of a request that derived nothing (also: a many-to-one read that did not complete a group), and a refused write of
a derived packet.
-/
import Uniflow.Proofs.FlowN11

namespace Uniflow.FlowN
open Uniflow.Tracer Uniflow.Node Uniflow.Flow Uniflow.FlowInv Uniflow.FlowG Uniflow.ATracer Uniflow.FlowH Uniflow.FlowM
open Uniflow.ATracer (getL_setOrDel getL_aset)

/-- `Write(nil, in)`: the request that derived nothing is answered with itself -/
theorem HI_echo_self (kinds : List Kind) (links : List (Nat × List Tgt)) (hwf : GraphWF5 kinds links) (aa : Nat → A) (g : G)
    (h : HI kinds links aa D0 g) (n : Nat) (nd : Node) (i : Rid) (inbox : List Pkt) (w : Option Wid) (q : Pkt)
    (hn : getNode g.nodes n = some nd) (hg : getThread nd.threads i = some { inbox := inbox, pc := .emit [.write w q] })
    (hX : (⟨q.id, i, .cells []⟩ : Req) ∈ (aa n).reqs) :
    ∃ nd' ev, Node.step nd (.op i false) = some (nd', ev) ∧
      HI kinds links (updA aa n (awrite (aa n) w q.id (.pay q.pay) false).1) D0
        (putNode (logEcho g q) n nd' ev) := by
  have hjb := h.jb n nd hn
  have hnl := h.nl n nd hn i _ hg
  have hi63 : i < 63 :=
    Nat.lt_of_lt_of_le (getThread_lt _ _ _ hg) (by rw [h.thr n nd hn]; exact nIn_le _ (h.kindOK n nd hn))
  obtain ⟨hst, hjb', _⟩ := jbm_op nd (aa n) g.next hjb i inbox (.write w q) [] hg false
  have hwe : awrite (aa n) w q.id (.pay q.pay) false = afill (aa n) q.id (.pay q.pay) := by cases w <;> rfl
  have hac : acall (aa n) (opCall false (.write w q)) = afill (aa n) q.id (.pay q.pay) := hwe
  rw [hac] at hst hjb'
  have hqi : q.id ∈ ids (aa n).reqs := mem_ids_of_mem hX (by simp [idsR])
  have hqlt : q.id < g.next := hjb.bnd q.id (List.mem_append_left _ hqi)
  have hdis := jbm_disj nd (aa n) g.next hjb i _ hg q.id hqi
  have hqU : Unlogged g.log q.id := req_unlogged g.log n i _ (aa n) q.id hnl hX (by simp [remFor, remOps])
  let lg' : Log := { g.log with echo := aset g.log.echo q.id q.pay }
  have hx : LogExt g.log lg' q.id := by
    refine ⟨hqU, fun x hxne => ⟨rfl, rfl, ?_, rfl⟩⟩
    show aget (aset g.log.echo q.id q.pay) x = _
    rw [aget_aset]; simp [hxne]
  obtain ⟨ds, d1, d2, d3, d4, d5, d6, d7⟩ := nlt_echo_self g.log lg' n i inbox (aa n) w q hnl hjb.j.inv.nodup hX hx
    (by show aget (aset g.log.echo q.id q.pay) q.id = _; rw [aget_aset]; simp)
    (fun x hx' e => hdis (by simp only [tids, List.mem_append, List.mem_map]; left; exact ⟨x, hx', e⟩))
    (fun _ _ => rfl)
  refine ⟨_, _, hst, ?_⟩
  rw [d2, hwe]
  exact HI_thread_debt kinds links hwf aa g h n nd
    { nd with tr := (tcall nd.tr (opCall false (.write w q))).1,
              threads := setThread nd.threads i { inbox := inbox, pc := nextPc [] } } i _
    { inbox := inbox, pc := nextPc [] }
    (afill (aa n) q.id (.pay q.pay)).1 lg' q.id g.writers ds hn hg rfl (hths_of_set nd.threads i _ _ hg) hjb' d1 d5
    (by
      have := rdr_acall (aa n) (opCall false (.write w q)) (fun r => r < nd.threads.length) (h.rdr n nd hn)
        (fun r hr => by simp [opCall, newReads] at hr)
      rw [hac] at this; exact this)
    rfl d4 d6 hx rfl
    (by
      intro id hid
      exact unlogged_ext g.log lg' q.id hx id
        (fun e => by rw [e] at hid; exact Nat.lt_irrefl _ (Nat.lt_of_lt_of_le hqlt hid)) (h.logBound id hid))
    (Or.inr (Or.inr ⟨_, hX, rfl, by simp [idsR]⟩))
    (Or.inr ⟨n * 64 + i, hnl.own _ hX rfl, tag_reader n i hi63⟩) d3 h.srcq h.wq0
    (by
      intro key hl'
      rw [pendH_upd aa n _ _ _ _ (fun w' => by rw [d7])]
      exact wkg_ext g.log lg' q.id hx _ _ _ _ (h.wk key hl'))
    (ordAt_none lg' q.id g.next hqU.2.1 hqU.1)

theorem HI_write_rej (kinds : List Kind) (links : List (Nat × List Tgt)) (hwf : GraphWF5 kinds links) (aa : Nat → A) (g : G)
    (h : HI kinds links aa D0 g) (n : Nat) (nd : Node) (i : Rid) (inbox : List Pkt) (w : Option Wid) (q : Pkt)
    (ops : List Op) (hn : getNode g.nodes n = some nd)
    (hg : getThread nd.threads i = some { inbox := inbox, pc := .emit (.write w q :: ops) }) :
    ∃ nd' ev, Node.step nd (.op i false) = some (nd', ev) ∧
      HI kinds links (updA aa n (awrite (aa n) w q.id (.pay q.pay) false).1) D0
        (putNode (logEcho g q) n nd' ev) := by
  have hjb := h.jb n nd hn
  have hnl := h.nl n nd hn i _ hg
  rcases write_shape g.log n nd (aa n) g.next hjb i inbox w q ops hg hnl with ⟨e1, e2⟩ |
    ⟨p, cs, rest, hX, hl, hrem0, hqU, hqo, hqlt, hki, hkr⟩
  · subst e1
    exact HI_echo_self kinds links hwf aa g h n nd i inbox w q hn hg e2
  obtain ⟨hst, hjb', _⟩ := jbm_op nd (aa n) g.next hjb i inbox (.write w q) ops hg false
  let lg' : Log := { g.log with echo := aset g.log.echo q.id q.pay }
  have hx : LogExt g.log lg' q.id := by
    refine ⟨hqU, fun x hxne => ⟨rfl, rfl, ?_, rfl⟩⟩
    show aget (aset g.log.echo q.id q.pay) x = _
    rw [aget_aset]; simp [hxne]
  obtain ⟨ds, d1, d2, d3, d4, d5, d6, d7⟩ := nlt_write_rej g.log lg' n i (aa n) inbox w q ops hnl hjb.j.inv.nodup p cs rest hX
    hl hrem0 hx (by show aget (aset g.log.echo q.id q.pay) q.id = _; rw [aget_aset]; simp) hki hkr (fun _ _ => rfl)
  refine ⟨_, _, hst, ?_⟩
  have hev : (acall (aa n) (opCall false (.write w q))).2 = ds.map (fun d => Ev.reply i d.2) := d2
  rw [hev]
  have hql : q.id ∈ linkedIds cs := by rw [hl]; simp
  exact HI_thread_debt kinds links hwf aa g h n nd
    { nd with tr := (tcall nd.tr (opCall false (.write w q))).1,
              threads := setThread nd.threads i { inbox := inbox, pc := nextPc ops } } i _
    { inbox := inbox, pc := nextPc ops }
    (awrite (aa n) w q.id (.pay q.pay) false).1 lg' q.id g.writers ds hn hg rfl (hths_of_set nd.threads i _ _ hg) hjb' d1 d5
    (rdr_acall (aa n) (opCall false (.write w q)) (fun r => r < nd.threads.length) (h.rdr n nd hn)
      (fun r hr => by simp [opCall, newReads] at hr))
    rfl d4 d6 hx rfl
    (by
      intro id hid
      exact unlogged_ext g.log lg' q.id hx id
        (fun e => by rw [e] at hid; exact Nat.lt_irrefl _ (Nat.lt_of_lt_of_le hqlt hid)) (h.logBound id hid))
    (Or.inr (Or.inr ⟨_, hX, rfl, linked_in_idsR _ cs rfl q.id hql⟩))
    (Or.inr ⟨qTag n, hqo, tag_q n⟩) d3 h.srcq h.wq0
    (by
      intro key hl'
      rw [pendH_upd aa n _ _ _ _ (fun w' => by rw [d7])]
      exact wkg_ext g.log lg' q.id hx _ _ _ _ (h.wk key hl'))
    (ordAt_none lg' q.id g.next hqU.2.1 hqU.1)

end Uniflow.FlowN
