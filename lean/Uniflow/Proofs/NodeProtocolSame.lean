/-
C02, node level: the node programs follow the tracer's call protocol also when an action returns its INPUT packet
(`return inPck, nil`, `return nil, inPck`, `[inPck]`): such a `finish` step introduces no new packet id – the node
calls `Link(in, in)` (ignored) and `Write(w, in)` –, so the freshness hypothesis of `node_protocol` is only needed
for the packets that ARE new.
-/
import Uniflow.Proofs.NodeProtocol

namespace Uniflow.ATracer
open Uniflow.Tracer Uniflow.Node

/-- the packet ids a step introduces in node state `n`: as `introS`, but a `finish` whose result is exactly the
packet the thread's action is running on introduces nothing -/
def introD (n : Node) : Step → List Pid
  | .finish i o =>
    match getThread n.threads i with
    | some { inbox := _, pc := .action p _ } => if introS (.finish i o) = [p.id] then [] else introS (.finish i o)
    | _ => introS (.finish i o)
  | st => introS st

/-- the ids introduced along a run (steps that are not enabled are skipped by `Node.run`, their ids still count) -/
def introRun : Node → List Step → List Pid
  | _, [] => []
  | n, st :: sts =>
    introD n st ++ introRun (match Node.step n st with | some (n', _) => n' | none => n) sts

theorem protocol_runD : ∀ (sched : List Step) (n : Node) (a : A),
    J n a (introRun n sched) → Protocol a (callsOf n sched) := by
  intro sched
  induction sched with
  | nil => intro n a _; trivial
  | cons st sts ih =>
    intro n a hJ
    simp only [callsOf]
    cases h : Node.step n st with
    | none =>
      simp only [introRun, h] at hJ
      exact ih n a (J_skip n a _ _ hJ)
    | some x =>
      obtain ⟨n', ev⟩ := x
      simp only [introRun, h] at hJ
      simp only
      cases st with
      | deliver i p =>
        simp only [Node.step] at h
        split at h
        · simp at h
        · rename_i th hg
          simp only [Option.some.injEq, Prod.mk.injEq] at h
          obtain ⟨rfl, _⟩ := h
          simp only [stepCalls, List.nil_append]
          exact ih _ a (J_deliver n a _ i p th hJ hg)
      | read i =>
        simp only [Node.step] at h
        split at h
        · rename_i p rest hg
          have hJ' : J n a (introRun n' sts) := by simpa [introD, introS] using hJ
          have hsc : stepCalls n (.read i) = [.read i p.id] := by simp only [stepCalls, hg]
          rw [hsc]
          cases hk : n.kind with
          | manyToOne k =>
            simp only [hk] at h
            cases hr : rgRead k i p n.rows with
            | mk rows' grp =>
              simp only [hr, Option.some.injEq, Prod.mk.injEq] at h
              obtain ⟨rfl, _⟩ := h
              have hpc : (∃ g, (match grp with | some g => PC.action p g | none => PC.emit [.write none p]) = .action p g) ∨
                  (match grp with | some g => PC.action p g | none => PC.emit [.write none p]) = .emit [.write none p] := by
                cases grp with
                | some g => exact Or.inl ⟨g, rfl⟩
                | none => exact Or.inr rfl
              obtain ⟨hp, hJn⟩ := J_read n a _ i p rest _ rows' hJ' hg hpc
              simp only [hk] at hJn
              exact proto_single a _ _ hp (ih _ _ hJn)
          | oneToOne =>
            simp only [hk, Option.some.injEq, Prod.mk.injEq] at h
            obtain ⟨rfl, _⟩ := h
            obtain ⟨hp, hJn⟩ := J_read n a _ i p rest (.action p [p]) n.rows hJ' hg (Or.inl ⟨_, rfl⟩)
            simp only [hk] at hJn
            exact proto_single a _ _ hp (ih _ _ hJn)
          | oneToMany k =>
            simp only [hk, Option.some.injEq, Prod.mk.injEq] at h
            obtain ⟨rfl, _⟩ := h
            obtain ⟨hp, hJn⟩ := J_read n a _ i p rest (.action p [p]) n.rows hJ' hg (Or.inl ⟨_, rfl⟩)
            simp only [hk] at hJn
            exact proto_single a _ _ hp (ih _ _ hJn)
        · simp at h
      | finish i o =>
        simp only [Node.step] at h
        split at h
        · rename_i inbox p g hg
          have hfin : (∀ ops, program n.kind p o = some ops →
                J { n with threads := setThread n.threads i { inbox := inbox, pc := .emit ops } } a (introRun n' sts)) ∧
              J { n with panic := true, threads := setThread n.threads i { inbox := inbox, pc := .idle } } a
                (introRun n' sts) := by
            simp only [introD, hg] at hJ
            by_cases hsame : introS (.finish i o) = [p.id]
            · rw [if_pos hsame] at hJ
              exact J_finish_same n a _ i o p g inbox (by simpa using hJ) hg hsame
            · rw [if_neg hsame] at hJ
              exact J_finish n a _ i o p g inbox hJ hg
          obtain ⟨h1, h2⟩ := hfin
          simp only [stepCalls, List.nil_append]
          cases hp : program n.kind p o with
          | some ops =>
            simp only [hp, Option.some.injEq, Prod.mk.injEq] at h
            obtain ⟨rfl, _⟩ := h
            exact ih _ a (h1 ops hp)
          | none =>
            simp only [hp, Option.some.injEq, Prod.mk.injEq] at h
            obtain ⟨rfl, _⟩ := h
            exact ih _ a h2
        · simp at h
      | op i acc =>
        simp only [Node.step] at h
        split at h
        · rename_i inbox o ops hg
          have hJ' : J n a (introRun n' sts) := by simpa [introD, introS] using hJ
          obtain ⟨hp, hJn⟩ := J_op n a _ i acc inbox o ops hJ' hg
          have hsc : stepCalls n (.op i acc) = [opCall acc o] := by
            simp only [stepCalls, hg]; cases o <;> rfl
          rw [hsc]
          have hn' : n' = { n with tr := (tcall n.tr (opCall acc o)).1,
                                   threads := setThread n.threads i { inbox := inbox, pc := nextPc ops } } := by
            cases o with
            | link s t =>
              simp only [Option.some.injEq, Prod.mk.injEq] at h
              obtain ⟨rfl, _⟩ := h
              cases ops <;> rfl
            | write w q =>
              simp only [Option.some.injEq, Prod.mk.injEq] at h
              obtain ⟨rfl, _⟩ := h
              simp only [opCall, tcall, hJ.strict]
              cases ops <;> rfl
          subst hn'
          exact proto_single a _ _ hp (ih _ _ hJn)
        · simp at h
      | answer w ans =>
        simp only [Node.step] at h
        split at h
        · simp at h
        · rename_i x xs hg
          have hJ' : J n a (introRun n' sts) := by simpa [introD, introS] using hJ
          simp only [Option.some.injEq, Prod.mk.injEq] at h
          obtain ⟨rfl, _⟩ := h
          have hsc : stepCalls n (.answer w ans) = [.answer w ans] := by simp only [stepCalls, hg]
          rw [hsc]
          exact proto_single a _ _ trivial (ih _ _ (J_answer n a _ w ans hJ'))

/-- node programs follow the call protocol under every schedule whose NEW packet ids are fresh; actions may return
their input packet -/
theorem node_protocol_same (k : Kind) (sched : List Step) (hnd : (introRun (Node.mk k) sched).Nodup) :
    Protocol {} (callsOf (Node.mk k) sched) :=
  protocol_runD sched (Node.mk k) {} (J_init k _ hnd)

end Uniflow.ATracer
