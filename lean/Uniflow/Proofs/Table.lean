/-
Helper lemmas for the symbol-table model (`Uniflow.Model.Table`): Go maps as association lists.
-/
import Uniflow.Model.Table

namespace Uniflow.Table

section AList
variable {κ β : Type} [DecidableEq κ]

theorem aget_aset (k k' : κ) (v : β) (l : List (κ × β)) :
    aget k' (aset k v l) = if k' = k then some v else aget k' l := by
  induction l with
  | nil =>
    by_cases h : k' = k
    · subst h; simp [aset, aget]
    · have : ¬ k = k' := fun e => h e.symm
      simp [aset, aget, h, this]
  | cons p l ih =>
    obtain ⟨a, b⟩ := p
    by_cases h1 : a = k
    · subst h1
      by_cases h2 : k' = a
      · subst h2; simp [aset, aget]
      · have : ¬ a = k' := fun e => h2 e.symm
        simp [aset, aget, h2, this]
    · by_cases h2 : k' = k
      · subst h2; simp [aset, aget, h1, ih]
      · simp only [aset, h1, if_false, aget, ih, h2]

theorem aget_aset_self (k : κ) (v : β) (l : List (κ × β)) : aget k (aset k v l) = some v := by
  simp [aget_aset]

theorem aget_aset_ne {k k' : κ} (h : k' ≠ k) (v : β) (l : List (κ × β)) :
    aget k' (aset k v l) = aget k' l := by
  simp [aget_aset, h]

theorem aget_adel (k k' : κ) (l : List (κ × β)) :
    aget k' (adel k l) = if k' = k then none else aget k' l := by
  induction l with
  | nil => simp [adel, aget]
  | cons p l ih =>
    obtain ⟨a, b⟩ := p
    by_cases h1 : a = k
    · subst h1
      by_cases h2 : k' = a
      · subst h2; simp [adel, ih]
      · have : ¬ a = k' := fun e => h2 e.symm
        simp [adel, aget, ih, h2, this]
    · by_cases h2 : k' = k
      · subst h2; simp [adel, aget, h1, ih]
      · simp only [adel, h1, if_false, aget, ih, h2]

theorem aget_adel_self (k : κ) (l : List (κ × β)) : aget k (adel k l) = none := by
  simp [aget_adel]

theorem aget_adel_ne {k k' : κ} (h : k' ≠ k) (l : List (κ × β)) : aget k' (adel k l) = aget k' l := by
  simp [aget_adel, h]

/-- Keys of a Go map. -/
def keys (l : List (κ × β)) : List κ := l.map Prod.fst

theorem aget_none_of_not_mem {k : κ} {l : List (κ × β)} (h : k ∉ keys l) : aget k l = none := by
  induction l with
  | nil => rfl
  | cons p l ih =>
    obtain ⟨a, b⟩ := p
    simp only [keys, List.map_cons, List.mem_cons, not_or] at h
    have h1 : ¬ a = k := fun e => h.1 e.symm
    simp only [aget, h1, if_false]
    exact ih h.2

theorem mem_keys_of_aget {k : κ} {v : β} {l : List (κ × β)} (h : aget k l = some v) : k ∈ keys l := by
  by_cases hm : k ∈ keys l
  · exact hm
  · rw [aget_none_of_not_mem hm] at h; cases h

theorem mem_of_aget {k : κ} {v : β} {l : List (κ × β)} (h : aget k l = some v) : (k, v) ∈ l := by
  induction l with
  | nil => cases h
  | cons p l ih =>
    obtain ⟨a, b⟩ := p
    by_cases h1 : a = k
    · subst h1; simp [aget] at h; subst h; simp
    · simp only [aget, h1, if_false] at h
      exact List.mem_cons_of_mem _ (ih h)

theorem aget_of_mem {k : κ} {v : β} {l : List (κ × β)} (hn : (keys l).Nodup) (h : (k, v) ∈ l) :
    aget k l = some v := by
  induction l with
  | nil => cases h
  | cons p l ih =>
    obtain ⟨a, b⟩ := p
    simp only [keys, List.map_cons, List.nodup_cons] at hn
    rcases List.mem_cons.mp h with e | hin
    · cases e; simp [aget]
    · have hk : k ∈ keys l := List.mem_map.mpr ⟨(k, v), hin, rfl⟩
      have h1 : ¬ a = k := fun e => hn.1 (e ▸ hk)
      simp only [aget, h1, if_false]
      exact ih hn.2 hin

theorem keys_aset (k : κ) (v : β) (l : List (κ × β)) :
    keys (aset k v l) = if k ∈ keys l then keys l else keys l ++ [k] := by
  induction l with
  | nil => simp [aset, keys]
  | cons p l ih =>
    obtain ⟨a, b⟩ := p
    by_cases h1 : a = k
    · subst h1; simp [aset, keys]
    · have h2 : ¬ k = a := fun e => h1 e.symm
      simp only [aset, h1, if_false, keys, List.map_cons, List.mem_cons, h2, false_or] at ih ⊢
      rw [ih]; split <;> simp_all

theorem nodup_keys_aset {l : List (κ × β)} (k : κ) (v : β) (h : (keys l).Nodup) :
    (keys (aset k v l)).Nodup := by
  rw [keys_aset]
  split
  · exact h
  · rename_i hk
    exact List.nodup_append.mpr ⟨h, by simp, by
      intro a ha b hb; simp at hb; subst hb; intro e; subst e; exact hk ha⟩

theorem keys_adel (k : κ) (l : List (κ × β)) : keys (adel k l) = (keys l).filter (· ≠ k) := by
  induction l with
  | nil => rfl
  | cons p l ih =>
    obtain ⟨a, b⟩ := p
    by_cases h1 : a = k
    · subst h1; simp [adel, keys] at ih ⊢; exact ih
    · simp [adel, keys, h1] at ih ⊢; exact ih

theorem nodup_keys_adel {l : List (κ × β)} (k : κ) (h : (keys l).Nodup) :
    (keys (adel k l)).Nodup := by
  rw [keys_adel]; exact h.filter _

theorem mem_keys_aset (k k' : κ) (v : β) (l : List (κ × β)) :
    k' ∈ keys (aset k v l) ↔ k' = k ∨ k' ∈ keys l := by
  rw [keys_aset]; split
  · rename_i h; constructor
    · exact Or.inr
    · rintro (e | h'); exact e ▸ h; exact h'
  · simp [or_comm]

end AList

end Uniflow.Table

namespace Uniflow.Table

section AList2
variable {κ β : Type} [DecidableEq κ]

theorem mem_aset {k : κ} {v : β} {l : List (κ × β)} {p : κ × β} (h : p ∈ aset k v l) :
    p = (k, v) ∨ p ∈ l := by
  induction l with
  | nil => simp [aset] at h; exact Or.inl h
  | cons q l ih =>
    obtain ⟨a, b⟩ := q
    by_cases h1 : a = k
    · simp only [aset, h1, if_true, List.mem_cons] at h
      rcases h with e | h
      · exact Or.inl e
      · exact Or.inr (List.mem_cons_of_mem _ h)
    · simp only [aset, h1, if_false, List.mem_cons] at h
      rcases h with e | h
      · exact Or.inr (by simp [e])
      · rcases ih h with e | h
        · exact Or.inl e
        · exact Or.inr (List.mem_cons_of_mem _ h)

theorem keys_subset_aset (k : κ) (v : β) (l : List (κ × β)) : ∀ x ∈ keys l, x ∈ keys (aset k v l) :=
  fun x hx => (mem_keys_aset k x v l).mpr (Or.inr hx)

theorem mem_adel {k : κ} {l : List (κ × β)} {p : κ × β} : p ∈ adel k l ↔ p ∈ l ∧ p.1 ≠ k := by
  induction l with
  | nil => simp [adel]
  | cons q l ih =>
    obtain ⟨a, b⟩ := q
    by_cases h1 : a = k
    · subst h1
      simp only [adel, if_true, ih, List.mem_cons]
      constructor
      · rintro ⟨h, hn⟩; exact ⟨Or.inr h, hn⟩
      · rintro ⟨e | h, hn⟩
        · subst e; exact absurd rfl hn
        · exact ⟨h, hn⟩
    · simp only [adel, h1, if_false, List.mem_cons, ih]
      constructor
      · rintro (e | ⟨h, hn⟩)
        · subst e; exact ⟨Or.inl rfl, h1⟩
        · exact ⟨Or.inr h, hn⟩
      · rintro ⟨e | h, hn⟩
        · exact Or.inl e
        · exact Or.inr ⟨h, hn⟩

end AList2

/-! ### the Kahn queue loop lists every key whose degree reaches 0 -/

/-- Every degree entry with count 0 is listed already or waits in the queue. -/
def Cover (deg : Deg) (out q : List Sym) : Prop :=
  ∀ p ∈ deg, p.2.2 = 0 → (∃ s ∈ out, s.id = p.1) ∨ (∃ s ∈ q, s.id = p.1)

structure KInv (deg : Deg) (out q : List Sym) : Prop where
  cover : Cover deg out q
  ids : ∀ p ∈ deg, p.2.1.id = p.1

theorem dget_dadd_self (d : Deg) (s : Sym) (k : Int) : dget (dadd d s k) s.id = dget d s.id + k := by
  simp [dget, dadd, aget_aset_self]

theorem kahnStep_inv (out : List Sym) (acc : Deg × List Sym) (n : Sym) (h : KInv acc.1 out acc.2) :
    KInv (kahnStep acc n).1 out (kahnStep acc n).2 ∧
    (∀ x ∈ keys acc.1, x ∈ keys (kahnStep acc n).1) ∧
    (∀ x ∈ acc.2, x ∈ (kahnStep acc n).2) := by
  have hq : ∀ x ∈ acc.2, x ∈ (kahnStep acc n).2 := by
    intro x hx; unfold kahnStep; simp only; split
    · exact List.mem_append_left _ hx
    · exact hx
  have hd : (kahnStep acc n).1 = dadd acc.1 n (-1) := by
    unfold kahnStep; simp only; split <;> rfl
  refine ⟨⟨?_, ?_⟩, ?_, hq⟩
  · intro p hp h0
    rw [hd] at hp
    rcases mem_aset hp with e | hold
    · right
      refine ⟨n, ?_, by rw [e]⟩
      unfold kahnStep; simp only
      have : dget (dadd acc.1 n (-1)) n.id = 0 := by
        rw [dget_dadd_self]; rw [e] at h0; simpa using h0
      simp [this]
    · rcases h.cover p hold h0 with ho | ⟨s, hs, e⟩
      · exact Or.inl ho
      · exact Or.inr ⟨s, hq s hs, e⟩
  · intro p hp
    rw [hd] at hp
    rcases mem_aset hp with e | hold
    · rw [e]
    · exact h.ids p hold
  · intro x hx; rw [hd]; exact keys_subset_aset _ _ _ x hx

theorem kahnStep_fold (out : List Sym) (ns : List Sym) (acc : Deg × List Sym)
    (h : KInv acc.1 out acc.2) :
    KInv (ns.foldl kahnStep acc).1 out (ns.foldl kahnStep acc).2 ∧
    (∀ x ∈ keys acc.1, x ∈ keys (ns.foldl kahnStep acc).1) ∧
    (∀ x ∈ acc.2, x ∈ (ns.foldl kahnStep acc).2) := by
  induction ns generalizing acc with
  | nil => exact ⟨h, fun _ h => h, fun _ h => h⟩
  | cons n ns ih =>
    obtain ⟨h1, h2, h3⟩ := kahnStep_inv out acc n h
    obtain ⟨i1, i2, i3⟩ := ih (kahnStep acc n) h1
    exact ⟨i1, fun x hx => i2 x (h2 x hx), fun x hx => i3 x (h3 x hx)⟩

/-- Result of the queue loop: every key of the degree map with final count 0 is in the output. -/
theorem kahn_cover (succ : Nat → Sym → List Sym) (f : Nat) (q out : List Sym) (deg : Deg)
    (res : List Sym × Deg) (hr : kahn succ f q out deg = some res) (h : KInv deg out q) :
    KInv res.2 res.1 [] ∧ (∀ x ∈ keys deg, x ∈ keys res.2) ∧ (∀ x ∈ out, x ∈ res.1) := by
  induction f generalizing q out deg with
  | zero =>
    cases q with
    | nil =>
      simp [kahn] at hr; subst hr
      exact ⟨h, fun _ h => h, fun _ h => h⟩
    | cons c q => simp [kahn] at hr
  | succ f ih =>
    cases q with
    | nil =>
      simp [kahn] at hr; subst hr
      exact ⟨h, fun _ h => h, fun _ h => h⟩
    | cons c q =>
      simp only [kahn] at hr
      split at hr
      · rename_i hany
        -- already listed: drop it from the queue
        have hany' : ∃ s ∈ out, s.id = c.id := by simpa using hany
        refine ih q out deg hr ⟨?_, h.ids⟩
        intro p hp h0
        rcases h.cover p hp h0 with ho | ⟨s, hs, e⟩
        · exact Or.inl ho
        · rcases List.mem_cons.mp hs with e' | hs'
          · subst e'
            obtain ⟨s', hs', e'⟩ := hany'
            exact Or.inl ⟨s', hs', e'.trans e⟩
          · exact Or.inr ⟨s, hs', e⟩
      · -- list it, decrement its successors
        have h0 : KInv (deg, q).1 (out ++ [c]) (deg, q).2 := by
          refine ⟨?_, h.ids⟩
          intro p hp h0
          rcases h.cover p hp h0 with ⟨s, hs, e⟩ | ⟨s, hs, e⟩
          · exact Or.inl ⟨s, List.mem_append_left _ hs, e⟩
          · rcases List.mem_cons.mp hs with e' | hs'
            · subst e'; exact Or.inl ⟨s, by simp, e⟩
            · exact Or.inr ⟨s, hs', e⟩
        obtain ⟨k1, k2, _⟩ := kahnStep_fold (out ++ [c]) (succ f c) (deg, q) h0
        obtain ⟨r1, r2, r3⟩ := ih _ _ _ hr k1
        exact ⟨r1, fun x hx => r2 x (k2 x hx), fun x hx => r3 x (List.mem_append_left _ hx)⟩

end Uniflow.Table
