/-
C03 – a node whose out-writer `wo` is closed, under an arbitrary scheduler.

`node_release` (Proofs/Teardown.lean) exhibits one schedule of the node's own goroutines after
which nothing the node had taken from its in-reader `(wi, r)` is left waiting.  Here: *no step of
anybody* undoes that progress.  The measure

  `nu = buffered responses of wo + [wo's pump goroutine still running] + [some taken request still
        waits for its answer]`

is not increased by any step of any thread on any writer, reader, node or sink, nor by further
teardown actions; the two fair steps of the node (an iteration of its backward loop that receives
something – a packet, or the closed channel while a request still waits –, and the pump goroutine
of the closed writer returning) strictly decrease it while they are enabled, and while a taken
request waits one of them is enabled.  `nu ≤ buffered + 2`.
-/
import Uniflow.Proofs.TeardownMono

namespace Uniflow.TeardownProofs
open Uniflow Uniflow.Writer Uniflow.Teardown Uniflow.WriterProofs

/-- The taken requests whose answer is not known yet (`Tracer.reads` entries without a response). -/
def waiting : List (Nat × Option Ans) → Nat
  | [] => 0
  | (_, none) :: rest => waiting rest + 1
  | (_, some _) :: rest => waiting rest

/-- Every answer that could be passed up has been: the list is empty or its head still waits. -/
def Flushed (l : List (Nat × Option Ans)) : Prop := ∀ e rest, l = e :: rest → e.2 = none

theorem waiting_fillFirst (a : Ans) (l : List (Nat × Option Ans)) : waiting (fillFirst a l) ≤ waiting l := by
  induction l with
  | nil => exact Nat.le_refl _
  | cons x rest ih =>
    obtain ⟨v, oa⟩ := x
    cases oa with
    | none => simp only [fillFirst, waiting]; omega
    | some b => simp only [fillFirst, waiting]; exact ih

theorem waiting_fillAll (a : Ans) (l : List (Nat × Option Ans)) : waiting (fillAll a l) = 0 := by
  induction l with
  | nil => rfl
  | cons x rest ih =>
    obtain ⟨v, oa⟩ := x
    cases oa with
    | none => simp only [fillAll, waiting]; exact ih
    | some b => simp only [fillAll, waiting]; exact ih

theorem waiting_append_some (l : List (Nat × Option Ans)) (v : Nat) (a : Ans) :
    waiting (l ++ [(v, some a)]) = waiting l := by
  induction l with
  | nil => rfl
  | cons x rest ih =>
    obtain ⟨u, oa⟩ := x
    cases oa with
    | none => simp only [List.cons_append, waiting, ih]
    | some b => simp only [List.cons_append, waiting, ih]

theorem flush_waiting (t : Topo) (w : WId) (r : RId) (s : Sys) (l : List (Nat × Option Ans)) :
    waiting (flushReads .discard t w r s l).2 = waiting l ∧ Flushed (flushReads .discard t w r s l).2 := by
  induction l generalizing s with
  | nil => exact ⟨rfl, fun e rest h => by cases h⟩
  | cons x rest ih =>
    obtain ⟨v, oa⟩ := x
    cases oa with
    | none =>
      refine ⟨rfl, ?_⟩
      intro e rest' h
      have h' : (v, (none : Option Ans)) :: rest = e :: rest' := h
      cases h'; rfl
    | some a => simp only [flushReads, waiting]; exact ih _

theorem flushed_nil (l : List (Nat × Option Ans)) (hf : Flushed l) (hw : waiting l = 0) : l = [] := by
  cases l with
  | nil => rfl
  | cons e rest =>
    obtain ⟨v, oa⟩ := e
    have := hf _ _ rfl
    simp only at this
    subst this
    simp [waiting] at hw

/-! ### The closed out-writer's component -/

def nuC (c : Comp) : Nat := c.p.buf.length + (if c.p.exited then 0 else 1)

theorem nuC_step (c : Comp) (x : CStep) (hi : CInv c) (hd : c.w.done = true) (hs : x ≠ .steal) :
    nuC (applyC .discard c x).1 ≤ nuC c := by
  cases x with
  | steal => exact absurd rfl hs
  | recv =>
    simp only [applyC]
    split
    · cases hb' : c.p.buf with
      | cons a rest =>
        have hr : Pump.recv c.p = .got a := by simp [Pump.recv, hb']
        simp only [hr, nuC, Pump.stepR, hb', List.length_cons]; omega
      | nil =>
        cases he : c.p.exited with
        | false =>
          have hr : Pump.recv c.p = .blocked := by simp [Pump.recv, hb', he]
          simp only [hr]; exact Nat.le_refl _
        | true =>
          have hr : Pump.recv c.p = .closed := by simp [Pump.recv, hb', he]
          simp only [hr, nuC]; exact Nat.le_refl _
    · exact Nat.le_refl _
  | pumpExit =>
    simp only [applyC, Pump.stepR]
    split
    · simp only [nuC, List.length_nil, if_true]; omega
    · exact Nat.le_refl _
  | w st =>
    obtain ⟨q1, _, _⟩ := done_quiet c.w st hd (hi.doneRows hd)
    have hbuf : (if isClose st then Pump.stepR .discard (enqAll .discard c.p (Writer.step c.w st).2.emits) .closeIn
        else enqAll .discard c.p (Writer.step c.w st).2.emits).buf = c.p.buf ∧
        (if isClose st then Pump.stepR .discard (enqAll .discard c.p (Writer.step c.w st).2.emits) .closeIn
        else enqAll .discard c.p (Writer.step c.w st).2.emits).exited = c.p.exited := by
      rw [q1, enqAll_nil]
      split <;> simp [Pump.stepR]
    simp only [applyC, nuC, hbuf.1, hbuf.2]
    exact Nat.le_refl _

theorem nuC_run (cs : List CStep) : ∀ c : Comp, CInv c → c.w.done = true → NoSteal cs →
    nuC (runC .discard c cs) ≤ nuC c ∧ CInv (runC .discard c cs) ∧ (runC .discard c cs).w.done = true := by
  induction cs with
  | nil => intro c hi hd _; exact ⟨Nat.le_refl _, hi, hd⟩
  | cons x rest ih =>
    intro c hi hd hs
    have hx : x ≠ .steal := hs x (List.mem_cons_self ..)
    obtain ⟨h1, h2, h3⟩ := ih _ (cinv_step c x hi hx) (applyC_done c x hi hd) (fun y hy => hs y (List.mem_cons_of_mem _ hy))
    exact ⟨Nat.le_trans h1 (nuC_step c x hi hd hx), h2, h3⟩

/-! ### What the node still holds, under any step -/

theorem applyPrim_write_done (t : Topo) (s : Sys) (wo : WId) (v : Nat) (hd : (s.comp wo).w.done = true) :
    (applyPrim .discard t s wo (.w (.write v))).2 = .w { ret := .cnt 0 } := by
  have : (applyC .discard (s.comp wo) (.w (.write v))).2 = .w { ret := .cnt 0 } := by
    simp [applyC, Writer.step, stepWith, hd]
  simp only [applyPrim, this]

/-- Every step leaves every node's `reads` flushed; and once the out-writer `wo` of the node
listening on `(wi, r)` is closed no step adds a waiting request to its `reads` (the forward loop's
write is refused: the request is recorded with itself as its answer). -/
theorem reads_step (t : Topo) (wo wi : WId) (r : RId) (s : Sys) (st : Teardown.Step)
    (hf : Flushed (s.reads wi r)) :
    Flushed ((Teardown.step .discard t s st).1.reads wi r) ∧
    ((s.comp wo).w.done = true → t.listener wi r = .node wo →
      waiting ((Teardown.step .discard t s st).1.reads wi r) ≤ waiting (s.reads wi r)) := by
  have same : Flushed (s.reads wi r) ∧ ((s.comp wo).w.done = true → t.listener wi r = .node wo →
      waiting (s.reads wi r) ≤ waiting (s.reads wi r)) := ⟨hf, fun _ _ => Nat.le_refl _⟩
  cases st with
  | prim w' c => simp only [Teardown.step]; rw [applyPrim_reads]; exact same
  | fwd w' r' =>
    simp only [Teardown.step]
    cases hl' : t.listener w' r' with
    | sink k => exact same
    | node wo' =>
      cases hi : s.inbox w' r' with
      | nil => exact same
      | cons v rest =>
        simp only
        by_cases hsame : wi = w' ∧ r = r'
        · obtain ⟨rfl, rfl⟩ := hsame
          simp only [setReads, and_self, if_true]
          refine ⟨(flush_waiting _ _ _ _ _).2, ?_⟩
          intro hd hl
          rw [hl] at hl'
          cases hl'
          have hd1 : (({ s with inbox := fun x y => if x = wi ∧ y = r then rest else s.inbox x y } : Sys).comp wo).w.done = true := hd
          rw [(flush_waiting _ _ _ _ _).1, applyPrim_write_done t _ wo v hd1]
          simp only
          rw [waiting_append_some]
          exact Nat.le_refl _
        · simp only [setReads, hsame, if_false]
          rw [flushReads_reads, applyPrim_reads]; exact same
  | bwdLate wo' =>
    simp only [Teardown.step]
    split
    · exact same
    · split
      · exact same
      · exact same
  | bwd wo' =>
    simp only [Teardown.step]
    split
    · exact same
    cases hc' : t.consumer wo' with
    | requester => exact same
    | node wi' r' =>
      simp only
      cases hrv : Pump.recv (s.comp wo').p with
      | got a =>
        simp only
        by_cases hsame : wi = wi' ∧ r = r'
        · obtain ⟨rfl, rfl⟩ := hsame
          simp only [setReads, and_self, if_true]
          refine ⟨(flush_waiting _ _ _ _ _).2, fun _ _ => ?_⟩
          rw [(flush_waiting _ _ _ _ _).1]
          exact waiting_fillFirst _ _
        · simp only [setReads, hsame, if_false]
          rw [flushReads_reads, applyPrim_reads]; exact same
      | closed =>
        simp only
        by_cases hsame : wi = wi' ∧ r = r'
        · obtain ⟨rfl, rfl⟩ := hsame
          simp only [setReads, and_self, if_true]
          refine ⟨(flush_waiting _ _ _ _ _).2, fun _ _ => ?_⟩
          rw [(flush_waiting _ _ _ _ _).1, waiting_fillAll]
          exact Nat.zero_le _
        · simp only [setReads, hsame, if_false]
          rw [flushReads_reads]; exact same
      | blocked => exact same
  | fwdEnd w' r' =>
    simp only [Teardown.step]
    cases hl' : t.listener w' r' with
    | sink k => exact same
    | node wo' =>
      simp only
      split
      · by_cases hsame : wi = w' ∧ r = r'
        · obtain ⟨rfl, rfl⟩ := hsame
          simp only [setReads, and_self, if_true]
          refine ⟨(flush_waiting _ _ _ _ _).2, fun _ _ => ?_⟩
          rw [(flush_waiting _ _ _ _ _).1, waiting_fillAll]
          exact Nat.zero_le _
        · simp only [setReads, hsame, if_false]
          rw [flushReads_reads]; exact same
      · exact same
  | sinkAnswer k a =>
    simp only [Teardown.step]
    cases hq : s.queue k with
    | nil => exact same
    | cons e rest =>
      obtain ⟨w', r'⟩ := e
      simp only
      rw [applyPrim_reads]; exact same
  | down td =>
    simp only [Teardown.step]
    rw [applyCloses_reads]; exact same

theorem flushed_run (t : Topo) (wi : WId) (r : RId) (h : List Teardown.Step) : ∀ s : Sys,
    Flushed (s.reads wi r) → Flushed ((Teardown.run .discard t s h).reads wi r) := by
  induction h with
  | nil => intro s hf; exact hf
  | cons st rest ih => intro s hf; exact ih _ (reads_step t 0 wi r s st hf).1

/-! ### The measure and the system steps -/

def ind (n : Nat) : Nat := if n = 0 then 0 else 1

theorem ind_mono {a b : Nat} (h : a ≤ b) : ind a ≤ ind b := by
  unfold ind; split <;> split <;> omega

def nu (s : Sys) (wo wi : WId) (r : RId) : Nat := nuC (s.comp wo) + ind (waiting (s.reads wi r))

theorem nu_le (s : Sys) (wo wi : WId) (r : RId) : nu s wo wi r ≤ (s.comp wo).p.buf.length + 2 := by
  unfold nu nuC ind; split <;> split <;> omega

structure UpInv (s : Sys) (wo wi : WId) (r : RId) : Prop where
  inv : CInv (s.comp wo)
  done : (s.comp wo).w.done = true
  det : s.detached wo = false
  flushed : Flushed (s.reads wi r)

/-- `st` is one of the two fair steps of the node whose out-writer is `wo`, and it is enabled: an
iteration of its backward loop that receives a buffered response, or finds the channel closed
while a request it took still waits; the pump goroutine of the closed `wo` returning. -/
def fairUp (wo wi : WId) (r : RId) (s : Sys) : Teardown.Step → Bool
  | .bwd x => decide (x = wo) && (!(s.comp wo).p.buf.isEmpty || ((s.comp wo).p.exited && decide (waiting (s.reads wi r) > 0)))
  | .prim x .pumpExit => decide (x = wo) && (s.comp wo).p.inClosed && !(s.comp wo).p.exited
  | _ => false

theorem up_done {s : Sys} {wo wi : WId} {r : RId} (hg : UpInv s wo wi r) (h : nu s wo wi r = 0) : s.reads wi r = [] := by
  apply flushed_nil _ hg.flushed
  unfold nu ind at h
  split at h
  · assumption
  · omega

/-- **Progress**: while a request the node took still waits, one of its two fair steps is enabled. -/
theorem up_progress {s : Sys} {wo wi : WId} {r : RId} (hg : UpInv s wo wi r) (hw : waiting (s.reads wi r) > 0) :
    fairUp wo wi r s (.bwd wo) = true ∨ fairUp wo wi r s (.prim wo .pumpExit) = true := by
  cases hb : (s.comp wo).p.buf with
  | cons a rest => exact Or.inl (by simp [fairUp, hb])
  | nil =>
    cases he : (s.comp wo).p.exited with
    | true => exact Or.inl (by simp [fairUp, hb, he, hw])
    | false =>
      have hic : (s.comp wo).p.inClosed = true := by rw [hg.inv.closed]; exact hg.done
      exact Or.inr (by simp [fairUp, hic, he])

/-- **One step of anybody**: `nu` does not increase; an enabled fair step of the node strictly
decreases it. -/
theorem up_step_le (t : Topo) (ho : t.handOver = true) (wo wi : WId) (r : RId)
    (hc : t.consumer wo = .node wi r) (hl : t.listener wi r = .node wo) (hne : wo ≠ wi)
    (s : Sys) (st : Teardown.Step) (hg : UpInv s wo wi r) (hs : StepNoSteal st) :
    (if fairUp wo wi r s st then 1 else 0) + nu (Teardown.step .discard t s st).1 wo wi r ≤ nu s wo wi r ∧
    UpInv (Teardown.step .discard t s st).1 wo wi r := by
  obtain ⟨cs, hn, e⟩ := (step_evolves .discard t s st hs).1 wo
  obtain ⟨hC, hI, hD⟩ := nuC_run cs _ hg.inv hg.done hn
  rw [← e] at hC hI hD
  obtain ⟨hF, hW⟩ := reads_step t wo wi r s st hg.flushed
  have hW := hW hg.done hl
  have hdet : (Teardown.step .discard t s st).1.detached wo = false := by
    rw [step_detached _ _ _ _ ho]; exact hg.det
  refine ⟨?_, hI, hD, hdet, hF⟩
  have hIm := ind_mono hW
  cases hf : fairUp wo wi r s st with
  | false => simp only [nu, Bool.false_eq_true, if_false]; omega
  | true =>
    simp only [if_true, nu]
    cases st with
    | bwd x =>
      simp only [fairUp, Bool.and_eq_true, decide_eq_true_eq] at hf
      obtain ⟨hx, hf⟩ := hf
      subst hx
      cases hb : (s.comp x).p.buf with
      | cons a rest =>
        have hi := hg.inv
        have hex : (s.comp x).p.exited = false := by
          cases he : (s.comp x).p.exited with
          | false => rfl
          | true => have := (hi.exit he).1; rw [hb] at this; cases this
        have hout := hi.outstanding hex
        have hpos : (s.comp x).got.length < (s.comp x).accepted := by
          rw [hb] at hout; unfold Comp.outstanding at hout; simp only [List.length_cons] at hout; omega
        have hrecv : Pump.recv (s.comp x).p = .got a := by simp [Pump.recv, hb]
        have hcomp : ((Teardown.step .discard t s (.bwd x)).1.comp x) = (applyC .discard (s.comp x) .recv).1 := by
          simp only [Teardown.step, hg.det, Bool.false_eq_true, if_false, hc, hrecv, setReads_comp]
          rw [(flushReads_evolves .discard t wi r _ _).2 x (by simp [hne]), applyPrim_comp]
          simp
        have hn2 : nuC (applyC .discard (s.comp x) .recv).1 + 1 = nuC (s.comp x) := by
          simp only [applyC, hpos, if_true, hrecv, Pump.stepR, hb, nuC, List.length_cons]
          omega
        rw [hcomp]
        omega
      | nil =>
        simp only [hb, List.isEmpty_nil, Bool.not_true, Bool.false_or, Bool.and_eq_true, decide_eq_true_eq] at hf
        obtain ⟨he, hw⟩ := hf
        have hclr := bwd_closed_clears t s x wi r hc hg.det hb he
        rw [hclr]
        have h1 : ind (waiting ([] : List (Nat × Option Ans))) = 0 := rfl
        have h2 : ind (waiting (s.reads wi r)) = 1 := by unfold ind; split <;> omega
        omega
    | prim x c =>
      cases c with
      | pumpExit =>
        simp only [fairUp, Bool.and_eq_true, decide_eq_true_eq, Bool.not_eq_true'] at hf
        obtain ⟨⟨hx, hic⟩, hex⟩ := hf
        subst hx
        have hcomp : (Teardown.step .discard t s (.prim x .pumpExit)).1.comp x = (applyC .discard (s.comp x) .pumpExit).1 := by
          show (applyPrim .discard t s x .pumpExit).1.comp x = _
          rw [applyPrim_comp]; simp
        have hn2 : nuC (applyC .discard (s.comp x) .pumpExit).1 = 0 := by
          simp [applyC, Pump.stepR, hic, nuC]
        have hn3 : nuC (s.comp x) ≥ 1 := by
          simp only [nuC, hex]; simp
        rw [hcomp]
        omega
      | w st' => simp [fairUp] at hf
      | recv => simp [fairUp] at hf
      | steal => simp [fairUp] at hf
    | fwd _ _ => simp [fairUp] at hf
    | fwdEnd _ _ => simp [fairUp] at hf
    | sinkAnswer _ _ => simp [fairUp] at hf
    | bwdLate _ => simp [fairUp] at hf
    | down _ => simp [fairUp] at hf

/-- The number of enabled fair steps of the node a history takes from `s`. -/
def upTaken (t : Topo) (wo wi : WId) (r : RId) : Sys → List Teardown.Step → Nat
  | _, [] => 0
  | s, st :: rest => (if fairUp wo wi r s st then 1 else 0) + upTaken t wo wi r (Teardown.step .discard t s st).1 rest

/-- **Any continuation**: the enabled fair steps of the node that are taken plus `nu` at the end
are bounded by `nu` at the start. -/
theorem up_run_le (t : Topo) (ho : t.handOver = true) (wo wi : WId) (r : RId)
    (hc : t.consumer wo = .node wi r) (hl : t.listener wi r = .node wo) (hne : wo ≠ wi)
    (h' : List Teardown.Step) : ∀ s : Sys, UpInv s wo wi r → RunNoSteal h' →
    upTaken t wo wi r s h' + nu (Teardown.run .discard t s h') wo wi r ≤ nu s wo wi r ∧
    UpInv (Teardown.run .discard t s h') wo wi r := by
  induction h' with
  | nil => intro s hg _; exact ⟨by simp [upTaken, Teardown.run], hg⟩
  | cons st rest ih =>
    intro s hg hq
    obtain ⟨h1, h2⟩ := up_step_le t ho wo wi r hc hl hne s st hg (hq st (List.mem_cons_self ..))
    obtain ⟨h3, h4⟩ := ih _ h2 (fun y hy => hq y (List.mem_cons_of_mem _ hy))
    refine ⟨?_, h4⟩
    simp only [upTaken, Teardown.run]
    omega

/-! ### The action returns after the node was closed

A request can be inside a node's action when the node is closed (`Node.Close`: in-port, out-port,
`Tracer.Close`).  When the action returns, the forward loop goes on with its remaining tracer calls
– `Link`, `Write` – for that request.  In the model that is a `fwd` step after the closes: the write
on the closed out-writer is refused, the request is recorded with itself as its answer and passed up
to the closed in-reader, which ignores it.  Nothing changes for anybody: what the requester was
owed it got from the drop notices of the closed in-reader. -/

theorem applyC_write_done (c : Comp) (v : Nat) (hd : c.w.done = true) : (applyC .discard c (.w (.write v))).1 = c := by
  have e : Writer.step c.w (.write v) = (c.w, { ret := .cnt 0 }) := by simp [Writer.step, stepWith, hd]
  simp only [applyC, e, enqAll_nil, isClose, accepts, Bool.false_eq_true, if_false]
  rfl

theorem applyC_answer_noop (c : Comp) (r : RId) (a : Ans) (hp : c.w.pend r = []) :
    (applyC .discard c (.w (.answer r a))).1 = c := by
  have e : Writer.step c.w (.answer r a) = (c.w, { ret := .ok false }) := by simp [Writer.step, stepWith, hp]
  simp only [applyC, e, enqAll_nil, isClose, accepts, Bool.false_eq_true, if_false]
  rfl

theorem flush_noop_comp (t : Topo) (w : WId) (r : RId) (l : List (Nat × Option Ans)) : ∀ s : Sys,
    (s.comp w).w.pend r = [] → ∀ x, (flushReads .discard t w r s l).1.comp x = s.comp x := by
  induction l with
  | nil => intro s _ x; rfl
  | cons e rest ih =>
    intro s hp x
    obtain ⟨v, oa⟩ := e
    cases oa with
    | none => rfl
    | some a =>
      simp only [flushReads]
      have hc : ∀ y, (applyPrim .discard t s w (.w (.answer r a))).1.comp y = s.comp y := by
        intro y
        rw [applyPrim_comp]
        split
        · rename_i hy; subst hy; exact applyC_answer_noop _ r a hp
        · rfl
      rw [ih _ (by rw [hc w]; exact hp) x, hc x]

/-- **The action returns after the node was closed**: a `fwd` step on a closed in-reader `(w, r)`
whose node's out-writer `wo` is closed leaves every component – writer machine, pump, what every
requester has received and is owed – exactly as it was, adds no waiting request to the node's
`reads`, and does not panic. -/
theorem fwd_after_close (t : Topo) (s : Sys) (w : WId) (r : RId) (wo : WId) (hl : t.listener w r = .node wo)
    (hp : (s.comp w).w.pend r = []) (hd : (s.comp wo).w.done = true) :
    (∀ x, (Teardown.step .discard t s (.fwd w r)).1.comp x = s.comp x) ∧
    waiting ((Teardown.step .discard t s (.fwd w r)).1.reads w r) = waiting (s.reads w r) ∧
    ((Teardown.step .discard t s (.fwd w r)).2 = .skip ∨
     (Teardown.step .discard t s (.fwd w r)).2 = .c (.w { ret := .cnt 0 })) := by
  simp only [Teardown.step, hl]
  cases hi : s.inbox w r with
  | nil => exact ⟨fun _ => rfl, rfl, Or.inl rfl⟩
  | cons v rest =>
    simp only
    have hd1 : (({ s with inbox := fun x y => if x = w ∧ y = r then rest else s.inbox x y } : Sys).comp wo).w.done = true := hd
    have hc : ∀ y, (applyPrim .discard t { s with inbox := fun x y => if x = w ∧ y = r then rest else s.inbox x y } wo (.w (.write v))).1.comp y = s.comp y := by
      intro y
      rw [applyPrim_comp]
      split
      · rename_i hy; subst hy; exact applyC_write_done _ v hd
      · rfl
    refine ⟨?_, ?_, Or.inr ?_⟩
    · intro x
      rw [setReads_comp, flush_noop_comp t w r _ _ (by rw [hc w]; exact hp) x, hc x]
    · simp only [setReads, and_self, if_true]
      rw [(flush_waiting _ _ _ _ _).1, applyPrim_write_done t _ wo v hd1]
      simp only
      rw [waiting_append_some]
    · rw [applyPrim_write_done t _ wo v hd1]

end Uniflow.TeardownProofs
