/-
Transport of `linked_pairwise` (dependencies first) to the event log of one table operation.
-/
import Uniflow.Proofs.TableKahn

namespace Uniflow.Table

/-- The present symbol stored under `a` references the present symbol stored under `b`. -/
def RefsTo (st : State) (a b : Nat) : Prop :=
  ∃ S T, aget a st.symbols = some S ∧ aget b st.symbols = some T ∧ Edge st S T

/-- A `load a` that comes before a `load b`: `a` does not reference `b`
(so when `s` references `t` and both are loaded, `load t` comes first). -/
def LoadOrd (st : State) (seg : List Event) : Prop :=
  seg.Pairwise (fun e1 e2 => ∀ a b, e1 = .load a → e2 = .load b → ¬ RefsTo st a b)

/-- An `unload a` that comes before an `unload b`: `b` does not reference `a`
(so when `s` references `t` and both are unloaded, `unload s` comes first). -/
def UnloadOrd (st : State) (seg : List Event) : Prop :=
  seg.Pairwise (fun e1 e2 => ∀ a b, e1 = .unload a → e2 = .unload b → ¬ RefsTo st b a)

theorem refsTo_edge {st : State} {x y : Sym} (hx : Live st x) (hy : Live st y) (h : RefsTo st x.id y.id) :
    Edge st x y := by
  obtain ⟨S, T, h1, h2, he⟩ := h
  unfold Live at hx hy
  rw [hx] at h1; rw [hy] at h2; cases h1; cases h2; exact he

theorem refsTo_log (st : State) (lg : List Event) (a b : Nat) : RefsTo { st with log := lg } a b ↔ RefsTo st a b := by
  unfold RefsTo
  constructor
  · rintro ⟨S, T, h1, h2, he⟩
    exact ⟨S, T, h1, h2, (edge_congr (st := st) (st' := { st with log := lg }) rfl rfl S T).mp he⟩
  · rintro ⟨S, T, h1, h2, he⟩
    exact ⟨S, T, h1, h2, (edge_congr (st := st) (st' := { st with log := lg }) rfl rfl S T).mpr he⟩

theorem ranked_log (st : State) (lg : List Event) (rank : Nat → Nat) (h : Ranked { st with log := lg } rank) :
    Ranked st rank := by
  intro x y hx hy he
  exact h x y hx hy ((edge_congr (st := st) (st' := { st with log := lg }) rfl rfl y x).mpr he)

theorem loadBlocks_ord (st stR : State) (done : List Sym) (hlive : ∀ x ∈ done, Live stR x)
    (hp : done.Pairwise (fun a b => ¬ Edge stR a b)) :
    LoadOrd stR (done.flatMap (fun x => [flowEv st x .init, Event.load x.id, flowEv st x .begin])) := by
  unfold LoadOrd
  rw [List.pairwise_flatMap]
  constructor
  · intro x _
    simp [flowEv]
  · refine List.Pairwise.imp_of_mem ?_ hp
    intro x y hx hy hne e1 h1 e2 h2 a b ea eb
    simp only [List.mem_cons, List.not_mem_nil, or_false] at h1 h2
    have hx1 : e1 = Event.load x.id := by
      rcases h1 with h | h | h
      · rw [h, flowEv] at ea; cases ea
      · exact h
      · rw [h, flowEv] at ea; cases ea
    have hy1 : e2 = Event.load y.id := by
      rcases h2 with h | h | h
      · rw [h, flowEv] at eb; cases eb
      · exact h
      · rw [h, flowEv] at eb; cases eb
    rw [hx1] at ea; rw [hy1] at eb
    cases ea; cases eb
    intro hr
    exact hne (refsTo_edge (hlive x hx) (hlive y hy) hr)

theorem unloadBlocks_ord (st stR : State) (done : List Sym) (hlive : ∀ x ∈ done, Live stR x)
    (hp : done.Pairwise (fun a b => ¬ Edge stR b a)) :
    UnloadOrd stR (done.flatMap (fun x => [flowEv st x .term, Event.unload x.id, flowEv st x .final])) := by
  unfold UnloadOrd
  rw [List.pairwise_flatMap]
  constructor
  · intro x _
    simp [flowEv]
  · refine List.Pairwise.imp_of_mem ?_ hp
    intro x y hx hy hne e1 h1 e2 h2 a b ea eb
    simp only [List.mem_cons, List.not_mem_nil, or_false] at h1 h2
    have hx1 : e1 = Event.unload x.id := by
      rcases h1 with h | h | h
      · rw [h, flowEv] at ea; cases ea
      · exact h
      · rw [h, flowEv] at ea; cases ea
    have hy1 : e2 = Event.unload y.id := by
      rcases h2 with h | h | h
      · rw [h, flowEv] at eb; cases eb
      · exact h
      · rw [h, flowEv] at eb; cases eb
    rw [hx1] at ea; rw [hy1] at eb
    cases ea; cases eb
    intro hr
    exact hne (refsTo_edge (hlive y hy) (hlive x hx) hr)

theorem loadBlocks_noUnload (st : State) (done : List Sym) :
    ∀ e ∈ done.flatMap (fun x => [flowEv st x .init, Event.load x.id, flowEv st x .begin]),
      ∀ a, e ≠ Event.unload a := by
  intro e he a
  obtain ⟨x, _, hx⟩ := List.mem_flatMap.mp he
  simp only [List.mem_cons, List.not_mem_nil, or_false] at hx
  rcases hx with h | h | h <;> rw [h] <;> simp [flowEv]

theorem unloadBlocks_noLoad (st : State) (done : List Sym) :
    ∀ e ∈ done.flatMap (fun x => [flowEv st x .term, Event.unload x.id, flowEv st x .final]),
      ∀ a, e ≠ Event.load a := by
  intro e he a
  obtain ⟨x, _, hx⟩ := List.mem_flatMap.mp he
  simp only [List.mem_cons, List.not_mem_nil, or_false] at hx
  rcases hx with h | h | h <;> rw [h] <;> simp [flowEv]


theorem free_seg (o : Ord) (ho : o.Valid) (st : State) (id : Nat) (hR : RInv st)
    (hok : (free o st id).2.1 = .ok) :
    ∃ seg, (free o st id).1.log = st.log ++ seg ∧ (∀ rank, Ranked st rank → UnloadOrd st seg) ∧
      (∀ e ∈ seg, ∀ a, e ≠ Event.load a) ∧
      (∀ a, Event.unload a ∈ seg → ∃ A sb, aget id st.symbols = some sb ∧ Live st A ∧ A.id = a ∧
        Reach st A sb ∧ ClosureOK st A) := by
  rw [free_eq] at hok ⊢
  cases hs : aget id st.symbols with
  | none => exact ⟨[], by simp, fun _ _ => List.Pairwise.nil, by simp, by simp⟩
  | some sb =>
    rw [hs] at hok
    simp only at hok ⊢
    have hid : sb.id = id := hR.keyId _ _ hs
    have hsbL : Live st sb := by unfold Live; rw [hid]; exact hs
    by_cases hu : (unload o st sb).2 = .ok
    · rw [if_pos hu]
      simp only
      have hln := linked_ne_none o ho st sb
      cases hl : linked o st sb with
      | none => exact absurd hl hln
      | some l =>
        obtain ⟨s⟩ := Pass08.lifecycle_order_unload o st sb l hl
        obtain ⟨ht, hdone⟩ := s.ok hu
        have hstate := s.state
        rw [ht, List.append_nil] at hstate
        have hspec := linked_spec o ho st hR sb hsbL l hl
        have hlive : ∀ x ∈ s.done, Live st x := by
          intro x hx
          rw [hdone] at hx
          exact ((hspec x).mp (List.mem_reverse.mp (List.mem_filter.mp hx).1)).1
        refine ⟨s.done.flatMap (fun x => [flowEv st x .term, Event.unload x.id, flowEv st x .final]) ++
          (if sb.hasNode then [Event.close sb.id] else []), ?_, ?_, ?_, ?_⟩
        rotate_left 3
        · intro a ha
          have hain : Event.unload a ∈ s.done.flatMap
              (fun x => [flowEv st x .term, Event.unload x.id, flowEv st x .final]) := by
            rcases List.mem_append.mp ha with h' | h'
            · exact h'
            · cases hn : sb.hasNode with
              | true => rw [hn] at h'; simp at h'
              | false => rw [hn] at h'; simp at h'
          obtain ⟨x, hx, hx'⟩ := List.mem_flatMap.mp hain
          have hxa : x.id = a := by
            simp only [List.mem_cons, List.not_mem_nil, or_false, flowEv] at hx'
            rcases hx' with h' | h' | h'
            · cases h'
            · cases h'; rfl
            · cases h'
          have hxd := hx
          rw [hdone] at hxd
          obtain ⟨hxl, hxact⟩ := List.mem_filter.mp hxd
          obtain ⟨hl1, hl2⟩ := (hspec x).mp (List.mem_reverse.mp hxl)
          exact ⟨x, sb, rfl, hl1, hxa, hl2,
            (activated_iff o ho st hR.keyId x hl1).mp (by simpa using hxact)⟩
        · rw [freeRest_log, hstate]; simp
        · intro rank hrank
          have hpw := linked_pairwise o ho st hR sb hsbL rank hrank l hl
          have hpr : l.reverse.Pairwise (fun a b => ¬ Edge st b a) := List.pairwise_reverse.mpr hpw
          have hdp : s.done.Pairwise (fun a b => ¬ Edge st b a) := by rw [hdone]; exact hpr.filter _
          unfold UnloadOrd
          rw [List.pairwise_append]
          refine ⟨unloadBlocks_ord st st s.done hlive hdp, ?_, ?_⟩
          · cases sb.hasNode <;> simp
          · intro e1 _ e2 h2 a b _ eb
            cases hn : sb.hasNode with
            | true => rw [hn] at h2; simp at h2; rw [h2] at eb; cases eb
            | false => rw [hn] at h2; simp at h2
        · intro e he a
          rcases List.mem_append.mp he with h | h
          · exact unloadBlocks_noLoad st s.done e h a
          · cases hn : sb.hasNode with
            | true => rw [hn] at h; simp at h; rw [h]; simp
            | false => rw [hn] at h; simp at h
    · rw [if_neg hu] at hok
      exact absurd hok hu

theorem insert_seg (o : Ord) (ho : o.Valid) (st : State) (sb : Sym) (h : RInv st)
    (hfresh : aget sb.id st.symbols = none) (hwf : sb.wf) (hnf : NameFree st sb)
    (hok : (insert o st sb).2 = .ok) :
    ∃ seg, (insert o st sb).1.log = st.log ++ seg ∧
      (∀ rank, Ranked (insert o st sb).1 rank → LoadOrd (insert o st sb).1 seg) ∧
      (∀ e ∈ seg, ∀ a, e ≠ Event.unload a) := by
  have hRf := rinv_insert o ho st sb h hfresh hwf hnf
  rw [insert_eq] at hRf hok ⊢
  have hlt := load_table o (links o (stored st sb) sb) sb
  have hRb : RInv (links o (stored st sb) sb) := by
    rw [hlt] at hRf
    exact rinv_congr hRf rfl rfl rfl rfl
  obtain ⟨hsym, _, _⟩ := stored_fields st sb
  have hbsym : (links o (stored st sb) sb).symbols = aset sb.id sb st.symbols := by
    rw [(links_symbols _ _ _).1, hsym]
  have hblog : (links o (stored st sb) sb).log = st.log := by
    rw [(links_symbols _ _ _).2.2]; unfold stored; simp only; split <;> rfl
  have hsbL : Live (links o (stored st sb) sb) sb := by
    unfold Live; rw [hbsym]; simp [aget_aset]
  have hln := linked_ne_none o ho (links o (stored st sb) sb) sb
  cases hl : linked o (links o (stored st sb) sb) sb with
  | none => exact absurd hl hln
  | some l =>
    obtain ⟨s⟩ := Pass08.lifecycle_order_load o _ sb l hl
    obtain ⟨ht, hdone⟩ := s.ok hok
    have hstate := s.state
    rw [ht, List.append_nil, hblog] at hstate
    rw [hstate]
    have hspec := linked_spec o ho _ hRb sb hsbL l hl
    have hlive : ∀ x ∈ s.done, Live (links o (stored st sb) sb) x := by
      intro x hx
      rw [hdone] at hx
      exact ((hspec x).mp (List.mem_filter.mp hx).1).1
    refine ⟨_, rfl, ?_, loadBlocks_noUnload _ s.done⟩
    intro rank hrank
    have hrank' := ranked_log _ _ rank hrank
    have hpw := linked_pairwise o ho _ hRb sb hsbL rank hrank' l hl
    have hdp : s.done.Pairwise (fun a b => ¬ Edge (links o (stored st sb) sb) a b) := by
      rw [hdone]; exact hpw.filter _
    have := loadBlocks_ord (links o (stored st sb) sb) (links o (stored st sb) sb) s.done hlive hdp
    unfold LoadOrd at this ⊢
    refine List.Pairwise.imp ?_ this
    intro e1 e2 hr a b ea eb hrefs
    exact hr a b ea eb ((refsTo_log _ _ a b).mp hrefs)

/-- After a successful `Free` of a present symbol the new state is the old one without it. -/
theorem free_frame (o : Ord) (ho : o.Valid) (st : State) (id : Nat) (sb : Sym) (hR : RInv st)
    (hs : aget id st.symbols = some sb) (hok : (free o st id).2.1 = .ok) :
    Frame (free o st id).1 st sb := by
  have hid : sb.id = id := hR.keyId _ _ hs
  refine ⟨(rinv_free o ho st id hR).toTBase, hR.toTBase, ?_, by rw [hid]; exact hs⟩
  intro k
  have := free_symbols o st id k
  rw [this, hid]
  simp [hok]

theorem ranked_small {small big : State} {sb : Sym} (F : Frame small big sb) (rank : Nat → Nat)
    (h : Ranked big rank) : Ranked small rank := by
  intro x y hx hy he
  have lift : ∀ z, Live small z → Live big z := by
    intro z hz
    unfold Live at hz ⊢
    rw [F.f1] at hz
    split at hz
    · cases hz
    · exact hz
  exact h x y (lift x hx) (lift y hy) ((F.edge y x).mp he).1

theorem cl_small {small big : State} {sb : Sym} (F : Frame small big sb) (k : Nat) (h : Cl small k) :
    Cl big k ∧ ∀ S, aget k big.symbols = some S → ¬ Reach big S sb := by
  obtain ⟨S, h1, h2⟩ := h
  rw [F.f1] at h1
  split at h1
  · cases h1
  · rename_i hne
    have hsne : S ≠ sb := by
      intro e; subst e; exact hne (F.bg.keyId _ _ h1).symm
    obtain ⟨c1, c2⟩ := (F.closure S hsne).mp h2
    refine ⟨⟨S, h1, c1⟩, ?_⟩
    intro S' hS'
    rw [h1] at hS'; cases hS'; exact c2

theorem freeAll_cons (o : Ord) (st : State) (x : Sym) (xs : List Sym) :
    freeAll o st (x :: xs) =
      if (free o st x.id).2.1 = .ok then freeAll o (free o st x.id).1 xs
      else ((free o st x.id).1, (free o st x.id).2.1) := by
  simp only [freeAll]
  cases free o st x.id with
  | mk st1 rb =>
    obtain ⟨r, b⟩ := rb
    cases r <;> simp

/-- `Close`: the events of the successive `Free`s, in dependency order across all of them. -/
theorem freeAll_seg (o : Ord) (ho : o.Valid) (L : List Sym) : ∀ (st : State), RInv st →
    (freeAll o st L).2 = .ok →
    ∃ seg, (freeAll o st L).1.log = st.log ++ seg ∧ (∀ e ∈ seg, ∀ a, e ≠ Event.load a) ∧
      (∀ rank, Ranked st rank → UnloadOrd st seg) ∧ (∀ a, Event.unload a ∈ seg → Cl st a) := by
  induction L with
  | nil => intro st _ _; exact ⟨[], by simp [freeAll], by simp, fun _ _ => List.Pairwise.nil, by simp⟩
  | cons x xs ih =>
    intro st hR hok
    rw [freeAll_cons] at hok ⊢
    have hfo : (free o st x.id).2.1 = .ok := by
      by_cases hfo : (free o st x.id).2.1 = .ok
      · exact hfo
      · rw [if_neg hfo] at hok; exact absurd hok hfo
    rw [if_pos hfo] at hok ⊢
    obtain ⟨seg0, f1, f2, f3, f4⟩ := free_seg o ho st x.id hR hfo
    have hR1 := rinv_free o ho st x.id hR
    obtain ⟨seg1, g1, g2, g3, g4⟩ := ih _ hR1 hok
    cases hs : aget x.id st.symbols with
    | none =>
      -- nothing was freed: the state (and the log) did not change
      have hst : (free o st x.id).1 = st := by rw [free_eq, hs]
      rw [hst] at g1 g3 g4
      have h0 : seg0 = [] := by
        have := f1; rw [hst] at this
        exact (List.append_right_eq_self.mp this.symm)
      refine ⟨seg1, by rw [hst]; exact g1, g2, g3, g4⟩
    | some sb =>
      have F := free_frame o ho st x.id sb hR hs hfo
      refine ⟨seg0 ++ seg1, by rw [g1, f1, List.append_assoc], ?_, ?_, ?_⟩
      · intro e he a
        rcases List.mem_append.mp he with h' | h'
        · exact f3 e h' a
        · exact g2 e h' a
      · intro rank hrank
        unfold UnloadOrd
        rw [List.pairwise_append]
        refine ⟨f2 rank hrank, ?_, ?_⟩
        · -- inside the rest: both symbols are still present after this `Free`
          have hp := g3 rank (ranked_small F rank hrank)
          unfold UnloadOrd at hp
          refine List.Pairwise.imp_of_mem ?_ hp
          intro e1 e2 he1 he2 hr a b ea eb hrefs
          apply hr a b ea eb
          obtain ⟨B, A, hb, ha, hedge⟩ := hrefs
          obtain ⟨A', ha', _⟩ := g4 a (ea ▸ he1)
          obtain ⟨B', hb', _⟩ := g4 b (eb ▸ he2)
          have hane : a ≠ sb.id := by
            intro e; rw [F.f1, e] at ha'; simp at ha'
          have hbne : b ≠ sb.id := by
            intro e; rw [F.f1, e] at hb'; simp at hb'
          have ha'' : aget a (free o st x.id).1.symbols = some A := by rw [F.f1]; simp [hane, ha]
          have hb'' : aget b (free o st x.id).1.symbols = some B := by rw [F.f1]; simp [hbne, hb]
          refine ⟨B, A, hb'', ha'', (F.edge B A).mpr ⟨hedge, ?_⟩⟩
          rw [F.bg.keyId _ _ ha]; exact hane
        · -- across: what this `Free` unloads reaches the freed symbol, what is unloaded later does not
          intro e1 he1 e2 he2 a b ea eb hrefs
          obtain ⟨B, A, hb, ha, hedge⟩ := hrefs
          obtain ⟨A', sb', hs', hA'l, hA'id, hA'r, _⟩ := f4 a (ea ▸ he1)
          rw [hs] at hs'; cases hs'
          have : A' = A := by
            unfold Live at hA'l; rw [hA'id, ha] at hA'l; exact (Option.some.inj hA'l).symm
          subst this
          obtain ⟨_, hnr⟩ := cl_small F b (g4 b (eb ▸ he2))
          exact hnr B hb (reach_head hedge hA'r)
      · intro a ha
        rcases List.mem_append.mp ha with h' | h'
        · obtain ⟨A, _, _, hl, hid, _, hc⟩ := f4 a h'
          exact ⟨A, by rw [← hid]; exact hl, hc⟩
        · exact (cl_small F a (g4 a h')).1

/-- The events one `Insert` / `Free` / `Close` appends to the log, in dependency order. -/
theorem step_seg (o : Ord) (ho : o.Valid) (st : State) (op : Op) (h : RInv st) (hw : WfOp st op)
    (hok : (step o st op).2.1 = .ok) :
    ∃ seg, (step o st op).1.log = st.log ++ seg ∧
      (∀ rank, Ranked (step o st op).1 rank → LoadOrd (step o st op).1 seg) ∧
      (∀ rank, Ranked st rank → UnloadOrd st seg) := by
  cases op with
  | close =>
    rw [step_close_eq] at hok ⊢
    cases hc : closeOrder o st with
    | none => rw [hc] at hok; simp at hok
    | some L =>
      rw [hc] at hok
      simp only at hok ⊢
      obtain ⟨seg, h1, h2, h3, _⟩ := freeAll_seg o ho L st h hok
      refine ⟨seg, h1, ?_, h3⟩
      intro _ _
      exact List.pairwise_of_forall_mem_list (fun e1 he1 e2 _ a b ea _ => absurd ea (h2 e1 he1 a))
  | free id =>
    simp only [step] at hok ⊢
    obtain ⟨seg, h1, h2, h3, _⟩ := free_seg o ho st id h hok
    refine ⟨seg, h1, ?_, h2⟩
    intro _ _
    exact List.pairwise_of_forall_mem_list (fun e1 he1 e2 _ a b ea _ => absurd ea (h3 e1 he1 a))
  | insert sb =>
    rw [step_insert_eq] at hok ⊢
    by_cases hfo : (free o st sb.id).2.1 = .ok
    · rw [if_pos hfo] at hok ⊢
      simp only at hok ⊢
      obtain ⟨segF, f1, f2, f3, _⟩ := free_seg o ho st sb.id h hfo
      have h1 := rinv_free o ho st sb.id h
      have hfs := fun k => free_symbols o st sb.id k
      simp only [hfo, true_and] at hfs
      have hnf : NameFree (free o st sb.id).1 sb := by
        intro hn k t hk h2 h3
        rw [hfs] at hk
        split at hk
        · cases hk
        · exact hw.2 hn k t hk h2 h3
      obtain ⟨segI, i1, i2, i3⟩ := insert_seg o ho _ sb h1 (by rw [hfs]; simp) hw.1 hnf hok
      refine ⟨segF ++ segI, by rw [i1, f1, List.append_assoc], ?_, ?_⟩
      · intro rank hrank
        unfold LoadOrd
        rw [List.pairwise_append]
        refine ⟨?_, i2 rank hrank, ?_⟩
        · exact List.pairwise_of_forall_mem_list (fun e1 he1 e2 _ a b ea _ => absurd ea (f3 e1 he1 a))
        · intro e1 he1 e2 _ a b ea _
          exact absurd ea (f3 e1 he1 a)
      · intro rank hrank
        unfold UnloadOrd
        rw [List.pairwise_append]
        refine ⟨f2 rank hrank, ?_, ?_⟩
        · exact List.pairwise_of_forall_mem_list (fun e1 he1 e2 _ a b ea _ => absurd ea (i3 e1 he1 a))
        · intro e1 _ e2 he2 a b _ eb
          exact absurd eb (i3 e2 he2 b)
    · rw [if_neg hfo] at hok
      exact absurd hok hfo

end Uniflow.Table
