/-
C02, joint model, one-in-port node kinds, part 26: `release`, schedules, safety.
-/
import Uniflow.Proofs.FlowH25

namespace Uniflow.FlowH
open Uniflow.Tracer Uniflow.Node Uniflow.Flow Uniflow.FlowInv Uniflow.FlowG Uniflow.ATracer
open Uniflow.ATracer (getL_setOrDel getL_aset)

/-- the tail of `release` once the action's outcome `o` and the next free id `nx` are fixed -/
def relTail (g : G) (n : Nat) (nd : Node) (p : Pkt) (o : Outcome) (nx : Pid) : Option G :=
  match Node.step nd (.finish 0 o) with
  | none => none
  | some (nd', ev) =>
    let outs := match program nd.kind p o with
      | some ops => (writeIds ops).filter (fun q => q != p.id)
      | none => []
    let lg := match outs with
      | [] => g.log
      | _ :: _ => { g.log with acts := aset g.log.acts p.id outs,
                               owner := outs.foldl (fun m q => aset m q (qTag n)) g.log.owner }
    some (settle settleFuel (putNode { g with next := nx, log := lg } n nd' ev))

theorem HIe_relTail (kinds : List Kind) (links : List (Nat × List Tgt)) (hwf : GraphWF3 kinds links) (g g' : G)
    (h : HIe kinds links g) (n : Nat) (nd : Node) (p : Pkt) (grp inbox : List Pkt)
    (hn : getNode g.nodes n = some nd) (ht : nd.threads = [{ inbox := inbox, pc := .action p grp }])
    (o : Outcome) (nx : Pid) (hpo : ProgOK nd.kind p o g.next nx) (hs : relTail g n nd p o nx = some g') :
    HIe kinds links g' := by
  obtain ⟨aa, h⟩ := h
  obtain ⟨ops, hp, hne, hnd, hfr, hle⟩ := hpo
  obtain ⟨nd', hst, hfilt, key⟩ := HI_finish kinds links hwf aa g h n nd p grp inbox hn ht o nx ops hp hne hnd hfr hle
  simp only [relTail, hst, hp, hfilt] at hs
  cases hlt : linkTargets ops with
  | nil => exact absurd hlt hne
  | cons c cs =>
    rw [hlt] at hs
    simp only [Option.some.injEq] at hs
    subst hs
    apply HIe_settle kinds links hwf
    rw [hlt] at key
    exact ⟨aa, HI_congr kinds links _ D0 _ _ key rfl rfl rfl rfl rfl rfl rfl rfl rfl⟩

theorem HIe_release (kinds : List Kind) (links : List (Nat × List Tgt)) (hwf : GraphWF3 kinds links) (g g' : G) (n : Nat)
    (r : Flow.Rel) (hr : ExtT3 kinds (.release n r)) (h : HIe kinds links g) (hs : release g n r = some g') :
    HIe kinds links g' := by
  obtain ⟨aa, h⟩ := h
  have h0 : HI kinds links aa D0 (clearObs g) := HI_congr kinds links aa D0 g _ h rfl rfl rfl rfl rfl rfl rfl rfl rfl
  simp only [release] at hs
  cases hn : getNode (clearObs g).nodes n with
  | none => simp [hn] at hs
  | some nd =>
    simp only [hn] at hs
    have hjb := h0.jb n nd hn
    obtain ⟨th, hth⟩ := threads_one nd hjb.one
    cases hat : actionThread nd.threads 0 with
    | none => simp [hat] at hs
    | some ip =>
      obtain ⟨i, p⟩ := ip
      rw [hth] at hat
      obtain ⟨ei, grp, hthe⟩ := action_single th i p hat
      subst ei
      rw [hthe] at hth
      have hat' : actionThread nd.threads 0 = some (0, p) := by rw [hth]; rfl
      simp only [hat'] at hs
      have hk := h0.kindEq n nd hn
      cases r with
      | same => exact hr.elim
      | drop => exact hr.elim
      | sames _ => exact hr.elim
      | err v =>
        exact HIe_relTail kinds links hwf (clearObs g) g' ⟨aa, h0⟩ n nd p grp th.inbox hn hth _ _
          (prog_err nd.kind p _ v) hs
      | out v =>
        simp only [ExtT3] at hr
        rw [hk] at hr
        simp only [Option.some.injEq] at hr
        exact HIe_relTail kinds links hwf (clearObs g) g' ⟨aa, h0⟩ n nd p grp th.inbox hn hth _ _
          (prog_out nd.kind p _ v (by
            rcases hr with e | e | ⟨k, e⟩
            · cases e
            · exact Or.inl e
            · exact Or.inr ⟨k, e⟩)) hs
      | many vs =>
        simp only [ExtT3] at hr
        obtain ⟨k, e, j, v, hj, hv⟩ := hr
        rw [hk] at e
        simp only [Option.some.injEq] at e
        have hpo := prog_many k p (clearObs g).next vs j v hj hv
        rw [← e] at hpo
        exact HIe_relTail kinds links hwf (clearObs g) g' ⟨aa, h0⟩ n nd p grp th.inbox hn hth _ _ hpo hs

theorem HIe_ext (kinds : List Kind) (links : List (Nat × List Tgt)) (hwf : GraphWF3 kinds links) (g : G) (e : Ext)
    (he : ExtT3 kinds e) (h : HIe kinds links g) : HIe kinds links (ext g e) := by
  cases e with
  | send v => exact HIe_send kinds links hwf g v h
  | sinkAnswer k a =>
    simp only [ext]
    cases hs : sinkAnswer g k a with
    | none => exact h
    | some g' => exact HIe_sinkAnswer kinds links hwf g g' k a h hs
  | release n r =>
    simp only [ext]
    cases hs : release g n r with
    | none => exact h
    | some g' => exact HIe_release kinds links hwf g g' n r he h hs

theorem HIe_runExt (kinds : List Kind) (links : List (Nat × List Tgt)) (hwf : GraphWF3 kinds links) (es : List Ext) :
    ∀ (g : G), (∀ e ∈ es, ExtT3 kinds e) → HIe kinds links g → HIe kinds links (runExt g es) := by
  induction es with
  | nil => intro g _ h; exact h
  | cons e es ih =>
    intro g he h
    simp only [runExt]
    exact ih _ (fun e' he' => he e' (List.mem_cons_of_mem _ he'))
      (HIe_ext kinds links hwf g e (he e (by simp)) h)

theorem HIe_init (kinds : List Kind) (links : List (Nat × List Tgt)) (hwf : GraphWF3 kinds links) :
    HIe kinds links (initG kinds links) := ⟨_, HI_init kinds links hwf⟩

/-- safety: the i-th response the source has received is the reference answer of its i-th request -/
theorem HIe_safety (kinds : List Kind) (links : List (Nat × List Tgt)) (g : G) (h : HIe kinds links g) :
    ∀ (i : Nat) (a : Ans), g.resp[i]? = some a → ∃ p, g.roots[i]? = some p ∧ ∃ f, refAns g.log f p = some a := by
  obtain ⟨aa, h⟩ := h
  intro i a hi
  obtain ⟨p, hp, hra⟩ := FlowInv.all2_index _ _ _ h.respOK.2 i a hi
  rw [List.getElem?_take] at hp
  split at hp
  · exact ⟨p, hp, hra⟩
  · cases hp

end Uniflow.FlowH
