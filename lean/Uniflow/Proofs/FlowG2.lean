/-
C02, joint model, general links, part 2: the per-writer alignment `WKG` (queue, pending rows with one cell
per linked reader) and its behaviour under a new write, an answer of a reader, a consumed answer, a log
extension.
-/
import Uniflow.Proofs.FlowG1

namespace Uniflow.FlowG
open Uniflow.Tracer Uniflow.Node Uniflow.Flow Uniflow.FlowInv

def RowOK (lg : Log) (k : Nat) (r : PRow) : Prop :=
  aget lg.echo r.q = none ∧ aget lg.sinkAns r.q = none ∧ aget lg.dels r.q = some (r.cells.map (·.1)) ∧
  r.cells.length = k ∧ ∀ c a, (c, some a) ∈ r.cells → RA lg c a

/-- no pending row is complete (a complete head row leaves at once) -/
def NC (prs : List PRow) : Prop := ∀ r ∈ prs, hasNil (rowOf r) = true

/-- per column the answered cells form a prefix of the rows (a reader answers in FIFO order) -/
def CM (prs : List PRow) : Prop :=
  prs.Pairwise (fun r r' => ∀ (i : Nat), cellPend r'.cells[i]? = none → cellPend r.cells[i]? = none)

/-- writer with linked readers `tgts`: its unanswered packets `pend` are the queued answers followed by the
pending rows; `hb t` = the copies reader `t` holds for this writer -/
def WKG (lg : Log) (wr : Flow.Writer) (tgts : List Tgt) (pend : List Pid) (hb : Tgt → List Pid) : Prop :=
  ∃ qs prs, pend = qs ++ prs.map (·.q) ∧ All2 (RA lg) qs wr.queue ∧ wr.rows = prs.map rowOf ∧
    (∀ r ∈ prs, RowOK lg tgts.length r) ∧ (∀ (i : Nat) t, tgts[i]? = some t → hb t = colPend i prs) ∧
    NC prs ∧ CM prs

theorem rowOK_ext (lg lg' : Log) (k : Pid) (hx : LogExt lg lg' k) (n : Nat) (r : PRow) (h : RowOK lg n r) :
    RowOK lg' n r := by
  obtain ⟨h1, h2, h3, h4, h5⟩ := h
  have hne : r.q ≠ k := by intro e; have := hx.1.2.1; rw [← e, h3] at this; cases this
  obtain ⟨_, s2, s3, s4⟩ := hx.2 r.q hne
  exact ⟨by rw [s3]; exact h1, by rw [s4]; exact h2, by rw [s2]; exact h3, h4,
    fun c a hm => ra_ext lg lg' k hx c a (h5 c a hm)⟩

theorem wkg_ext (lg lg' : Log) (k : Pid) (hx : LogExt lg lg' k) (wr : Flow.Writer) (tgts : List Tgt)
    (pend : List Pid) (hb : Tgt → List Pid) (h : WKG lg wr tgts pend hb) : WKG lg' wr tgts pend hb := by
  obtain ⟨qs, prs, h1, h2, h3, h4, h5, h6⟩ := h
  exact ⟨qs, prs, h1, all2_mono _ _ (fun p a => ra_ext lg lg' k hx p a) _ _ h2, h3,
    fun r hr => rowOK_ext lg lg' k hx _ r (h4 r hr), h5, h6⟩

theorem wkg_congr (lg : Log) (wr : Flow.Writer) (tgts : List Tgt) (pend : List Pid) (hb hb' : Tgt → List Pid)
    (h : WKG lg wr tgts pend hb) (he : ∀ (i : Nat) t, tgts[i]? = some t → hb' t = hb t) : WKG lg wr tgts pend hb' := by
  obtain ⟨qs, prs, h1, h2, h3, h4, h5, h6⟩ := h
  exact ⟨qs, prs, h1, h2, h3, h4, fun i t ht => by rw [he i t ht]; exact h5 i t ht, h6⟩

theorem map_none_replicate : ∀ (cs : List Pid),
    (cs.map (fun c => ((c, none) : Pid × Option Ans))).map (·.2) = List.replicate cs.length none
  | [] => rfl
  | c :: cs => by simp only [List.map_cons, List.length_cons, List.replicate_succ, map_none_replicate cs]

theorem colPend_append (i : Nat) (prs : List PRow) (r : PRow) :
    colPend i (prs ++ [r]) = colPend i prs ++ (match cellPend r.cells[i]? with | some c => [c] | none => []) := by
  simp only [colPend, List.filterMap_append, List.filterMap_cons, List.filterMap_nil]
  cases cellPend r.cells[i]? <;> rfl

/-- an accepted write: a new row, every linked reader gets its copy -/
theorem wkg_push (lg : Log) (wr : Flow.Writer) (tgts : List Tgt) (pend : List Pid) (hb hb' : Tgt → List Pid)
    (q : Pid) (cs : List Pid) (h : WKG lg wr tgts pend hb) (hlen : cs.length = tgts.length) (htne : tgts ≠ [])
    (h1 : aget lg.echo q = none) (h2 : aget lg.sinkAns q = none) (h3 : aget lg.dels q = some cs)
    (hhb : ∀ (i : Nat) t c, tgts[i]? = some t → cs[i]? = some c → hb' t = hb t ++ [c]) :
    WKG lg ⟨wr.rows ++ [List.replicate tgts.length none], wr.queue⟩ tgts (pend ++ [q]) hb' := by
  obtain ⟨qs, prs, e1, e2, e3, e4, e5, e6, e7⟩ := h
  have hcne : cs ≠ [] := by intro e; rw [e] at hlen; exact htne (List.length_eq_zero_iff.mp hlen.symm)
  refine ⟨qs, prs ++ [⟨q, cs.map (fun c => (c, none))⟩], ?_, e2, ?_, ?_, ?_, ?_, ?_⟩
  · rw [e1]; simp
  · simp only [List.map_append, List.map_cons, List.map_nil, rowOf, map_none_replicate, hlen]
    rw [e3]
  · intro r hr
    rw [List.mem_append] at hr
    rcases hr with hr | hr
    · exact e4 r hr
    · simp only [List.mem_singleton] at hr
      subst hr
      refine ⟨h1, h2, ?_, by simp [hlen], ?_⟩
      · have : ∀ (l : List Pid), (l.map (fun c => ((c, none) : Pid × Option Ans))).map (·.1) = l := by
          intro l; induction l with
          | nil => rfl
          | cons c l ih => simp only [List.map_cons, ih]
        rw [this]; exact h3
      · intro c a hm; simp at hm
  · intro i t ht
    rw [colPend_append]
    have hi : i < tgts.length := by
      rcases Nat.lt_or_ge i tgts.length with h | h
      · exact h
      · rw [List.getElem?_eq_none h] at ht; cases ht
    have hci : i < cs.length := by rw [hlen]; exact hi
    have hc : cs[i]? = some cs[i] := List.getElem?_eq_getElem hci
    rw [hhb i t cs[i] ht hc, e5 i t ht]
    simp [List.getElem?_map, hc, cellPend]
  · intro r hr
    rw [List.mem_append] at hr
    rcases hr with hr | hr
    · exact e6 r hr
    · simp only [List.mem_singleton] at hr
      subst hr
      cases cs with
      | nil => exact absurd rfl hcne
      | cons c cs => simp [rowOf, hasNil]
  · simp only [CM] at e7 ⊢
    rw [List.pairwise_append]
    refine ⟨e7, List.pairwise_singleton _ _, ?_⟩
    intro r hr r' hr' i hi
    simp only [List.mem_singleton] at hr'
    subst hr'
    have hlr : r.cells.length = tgts.length := (e4 r hr).2.2.2.1
    rcases Nat.lt_or_ge i cs.length with hlt | hge
    · simp [List.getElem?_map, List.getElem?_eq_getElem hlt, cellPend] at hi
    · have : r.cells[i]? = none := List.getElem?_eq_none (by rw [hlr, ← hlen]; exact hge)
      rw [this]; rfl

/-- the node takes the oldest queued answer -/
theorem wkg_consume (lg : Log) (wr : Flow.Writer) (tgts : List Tgt) (pend : List Pid) (hb : Tgt → List Pid) (a : Ans)
    (rest : List Ans) (h : WKG lg wr tgts pend hb) (hq : wr.queue = a :: rest) :
    ∃ q pend', pend = q :: pend' ∧ RA lg q a ∧ WKG lg { wr with queue := rest } tgts pend' hb := by
  obtain ⟨qs, prs, h1, h2, h3, h4, h5, h6⟩ := h
  rw [hq] at h2
  obtain ⟨q, qs', e1, e2, e3⟩ := all2_snoc_inv _ _ _ _ h2
  subst e1
  exact ⟨q, qs' ++ prs.map (·.q), by rw [h1]; rfl, e2, qs', prs, rfl, e3, h3, h4, h5, h6⟩

/-- the reference answers of the copies of a complete row -/
theorem ra_row (lg : Log) : ∀ (cs : List (Pid × Option Ans)), hasNil (cs.map (·.2)) = false →
    (∀ c a, (c, some a) ∈ cs → RA lg c a) →
    ∃ f, allSome ((cs.map (·.1)).map (refAns lg f)) = some (cellsOf (cs.map (·.2)))
  | [], _, _ => ⟨0, rfl⟩
  | (c, none) :: cs, h, _ => by simp [hasNil] at h
  | (c, some a) :: cs, h, hra => by
    simp only [List.map_cons, hasNil] at h
    obtain ⟨f2, h2⟩ := ra_row lg cs h (fun c' a' hm => hra c' a' (List.mem_cons_of_mem _ hm))
    obtain ⟨f1, h1⟩ := hra c a List.mem_cons_self
    refine ⟨f1 + f2, ?_⟩
    have e1 : refAns lg (f1 + f2) c = some a := refAns_fuel_le lg c a f1 h1 f2
    have e2 := allSome_congr (refAns lg f2) (refAns lg (f1 + f2)) (cs.map (·.1)) _
      (fun c' _ b hb => refAns_fuel_ge lg c' b f2 (f1 + f2) hb (Nat.le_add_left _ _)) h2
    simp only [List.map_cons, allSome, e1, e2, cellsOf]

theorem ra_of_row (lg : Log) (k : Nat) (r : PRow) (h : RowOK lg k r) (hn : hasNil (rowOf r) = false) :
    RA lg r.q (joinCells (rowOf r)) := by
  obtain ⟨h1, h2, h3, _, h5⟩ := h
  obtain ⟨f, hf⟩ := ra_row lg r.cells hn h5
  exact ⟨f + 1, by simp only [refAns, h1, h2, h3, hf, joinCells, rowOf]⟩

theorem cellPend_none_of_complete : ∀ (cs : List (Pid × Option Ans)) (i : Nat), hasNil (cs.map (·.2)) = false →
    cellPend cs[i]? = none
  | [], _, _ => by simp [cellPend]
  | (c, none) :: cs, _, h => by simp [hasNil] at h
  | (c, some a) :: cs, 0, _ => by simp [cellPend]
  | (c, some a) :: cs, i + 1, h => by
    simp only [List.map_cons, hasNil] at h
    simp only [List.getElem?_cons_succ]; exact cellPend_none_of_complete cs i h

/-- reader number `i` (which holds copy `c` as its oldest for this writer) answers `a` -/
theorem wkg_fill (lg : Log) (wr : Flow.Writer) (tgts : List Tgt) (pend : List Pid) (hb : Tgt → List Pid)
    (h : WKG lg wr tgts pend hb) (i : Nat) (t : Tgt) (ht : tgts[i]? = some t) (c : Pid) (rest : List Pid) (a : Ans)
    (hhb : hb t = c :: rest) (hra : RA lg c a) :
    ∃ qs prs prs' fl, pend = qs ++ prs.map (·.q) ∧ All2 (RA lg) qs wr.queue ∧
      fillCol i a wr.rows true = some (prs'.map rowOf, fl) ∧ prs'.map (·.q) = prs.map (·.q) ∧
      (∀ r ∈ prs', RowOK lg tgts.length r) ∧ colPend i prs' = rest ∧
      (∀ i', i' ≠ i → colPend i' prs' = colPend i' prs) ∧
      (∀ (i' : Nat) t', tgts[i']? = some t' → hb t' = colPend i' prs) ∧
      (fl = false → ∃ r0 tl tl', prs = r0 :: tl ∧ prs' = r0 :: tl') ∧ prs' ≠ [] ∧
      CM prs' ∧ (∀ x ∈ prs'.tail, hasNil (rowOf x) = true) ∧
      (fl = false → ∀ x ∈ prs'.head?, hasNil (rowOf x) = true) := by
  obtain ⟨qs, prs, h1, h2, h3, h4, h5, h6, h7⟩ := h
  have hcp : colPend i prs = c :: rest := by rw [← h5 i t ht]; exact hhb
  obtain ⟨prs', fl, f1, f2, f3, f4, f5, f6, f7⟩ := fillG_spec i a c rest prs true hcp
  obtain ⟨pre, r, post, s1, s2, s3, s4⟩ := fillG_shape i a c rest prs true hcp
  rw [f1] at s4
  simp only [Option.some.injEq, Prod.mk.injEq, Bool.true_and] at s4
  obtain ⟨s4, s5⟩ := s4
  have hcm' : CM prs' := by
    rw [s4]
    have h7' : CM (pre ++ r :: post) := by rw [← s1]; exact h7
    simp only [CM] at h7' ⊢
    rw [List.pairwise_append, List.pairwise_cons] at h7' ⊢
    obtain ⟨p1, ⟨p2, p3⟩, p4⟩ := h7'
    refine ⟨p1, ⟨?_, p3⟩, ?_⟩
    · intro x hx j hj
      by_cases ej : j = i
      · subst ej; exact setG_same r.cells j a
      · have := p2 x hx j hj
        show cellPend (setG r.cells i a)[j]? = none
        rw [setG_other r.cells i j a ej]; exact this
    · intro x hx y hy
      simp only [List.mem_cons] at hy
      rcases hy with hy | hy
      · subst hy
        intro j hj
        by_cases ej : j = i
        · subst ej; exact s2 x hx
        · have hj' : cellPend (setG r.cells i a)[j]? = none := hj
          rw [setG_other r.cells i j a ej] at hj'
          exact p4 x hx r List.mem_cons_self j hj'
      · exact p4 x hx y (List.mem_cons_of_mem _ hy)
  have hnc_r' : pre ≠ [] → hasNil (rowOf { r with cells := setG r.cells i a }) = true := by
    intro hpre
    cases pre with
    | nil => exact absurd rfl hpre
    | cons p0 pre' =>
      have hp0 : p0 ∈ prs := by rw [s1]; simp
      obtain ⟨x, cx, hx⟩ := pend_of_hasNil p0.cells (h6 p0 hp0)
      have hxi : x ≠ i := by intro e; subst e; rw [s2 p0 List.mem_cons_self] at hx; cases hx
      have h7' : CM ((p0 :: pre') ++ r :: post) := by rw [← s1]; exact h7
      simp only [CM] at h7'
      rw [List.pairwise_append] at h7'
      have hpr := h7'.2.2 p0 List.mem_cons_self r List.mem_cons_self x
      cases hrx : cellPend r.cells[x]? with
      | none => rw [hpr hrx] at hx; cases hx
      | some cr =>
        apply hasNil_of_pend _ x cr
        show cellPend (setG r.cells i a)[x]? = some cr
        rw [setG_other r.cells i x a hxi]; exact hrx
  refine ⟨qs, prs, prs', fl, h1, h2, ?_, f4, ?_, f2, f3, h5, ?_, ?_, hcm', ?_, ?_⟩
  · rw [h3, fillCol_map, f1]; rfl
  · intro r' hr'
    rcases f5 r' hr' with h | ⟨r, hr, e1, e2⟩
    · exact h4 r' h
    · obtain ⟨a1, a2, a3, a4, a5⟩ := h4 r hr
      subst e2
      refine ⟨a1, a2, by simp only [setG_fst]; exact a3, by simp only [setG_length]; exact a4, ?_⟩
      intro c' a' hm
      rcases setG_mem r.cells i a c e1 c' a' hm with h | ⟨rfl, rfl⟩
      · exact a5 c' a' h
      · exact hra
  · intro hfl
    obtain ⟨r, tl, tl', h | h⟩ := f7 hfl
    · exact ⟨r, tl, tl', h⟩
    · cases h
  · intro e
    rw [e] at f4
    cases prs with
    | nil => simp [colPend] at hcp
    | cons _ _ => simp at f4
  · intro x hx
    rw [s4] at hx
    cases pre with
    | nil =>
      simp only [List.nil_append, List.tail_cons] at hx
      exact h6 x (by rw [s1]; simp [hx])
    | cons p0 pre' =>
      simp only [List.cons_append, List.tail_cons, List.mem_append, List.mem_cons] at hx
      rcases hx with hx | hx | hx
      · exact h6 x (by rw [s1]; simp [hx])
      · rw [hx]; exact hnc_r' (by simp)
      · exact h6 x (by rw [s1]; simp [hx])
  · intro hfl x hx
    rw [s4] at hx
    cases pre with
    | nil => rw [s5] at hfl; simp at hfl
    | cons p0 pre' =>
      simp only [List.cons_append, List.head?_cons, Option.mem_def, Option.some.injEq] at hx
      rw [← hx]; exact h6 p0 (by rw [s1]; simp)

end Uniflow.FlowG
