/-
Consistency of the segment is an invariant of every store operation (used by Props/C12.lean, Props/C11.lean):
the primary tree is strictly ascending (`Asc`), every document is stored under its own id (`StoredM`), and every leaf of
every index names a stored document under that document's key tuple (`EntriesExact`). Core Lean only.
-/
import Uniflow.Proofs.Segment

namespace Uniflow.Index
open Uniflow.Value Uniflow.Store Uniflow.Plan Uniflow.Query

/-! ### primary tree: membership and lookup -/

theorem getDoc_mem : ∀ {docs : List (Val × PList)} {id : Val} {d : PList}, getDoc docs id = some d →
    ∃ i, (i, d) ∈ docs ∧ cmp i id = 0
  | [], _, _, h => by simp [getDoc] at h
  | (i, e) :: rest, id, d, h => by
    simp only [getDoc] at h
    split at h
    · next hc => simp only [Option.some.injEq] at h; subst h; exact ⟨i, by simp, hc⟩
    · obtain ⟨j, hj, hc⟩ := getDoc_mem h
      exact ⟨j, by simp [hj], hc⟩

theorem mem_getDoc : ∀ {docs : List (Val × PList)} {i : Val} {d : PList}, Asc docs → (i, d) ∈ docs →
    getDoc docs i = some d
  | [], _, _, _, h => by simp at h
  | (j, e) :: rest, i, d, ha, h => by
    rw [Asc_cons] at ha
    rcases List.mem_cons.mp h with heq | hm
    · simp only [Prod.mk.injEq] at heq
      obtain ⟨rfl, rfl⟩ := heq
      simp [getDoc, C14.cmp_refl]
    · have := ha.1 _ hm
      have hne : ¬ cmp j i = 0 := by simp only at this; omega
      simp [getDoc, hne, mem_getDoc ha.2 hm]

theorem mem_putDoc {id : Val} {d : PList} : ∀ {docs : List (Val × PList)} {p : Val × PList},
    p ∈ putDoc docs id d → p = (id, d) ∨ p ∈ docs
  | [], p, h => by simp [putDoc] at h; exact Or.inl h
  | (i, e) :: rest, p, h => by
    simp only [putDoc] at h
    split at h
    · rcases List.mem_cons.mp h with h | h
      · exact Or.inl h
      · exact Or.inr (by simp [h])
    · split at h
      · rcases List.mem_cons.mp h with h | h
        · exact Or.inl h
        · exact Or.inr h
      · rcases List.mem_cons.mp h with h | h
        · exact Or.inr (by simp [h])
        · rcases mem_putDoc h with h | h
          · exact Or.inl h
          · exact Or.inr (by simp [h])

theorem getDoc_delDoc_other {id x : Val} (hx : cmp id x ≠ 0) :
    ∀ docs : List (Val × PList), getDoc (delDoc docs id) x = getDoc docs x
  | [] => rfl
  | (i, e) :: rest => by
    simp only [delDoc]
    split
    · next h1 =>
      have hix : cmp i x ≠ 0 := fun h' => hx (cmp_zero_trans (cmp_zero_symm h1) h')
      simp [getDoc, hix]
    · simp only [getDoc]
      split
      · rfl
      · exact getDoc_delDoc_other hx rest

/-! ### the invariant -/

/-- every document is stored under its own, non-nil id -/
def StoredM (docs : List (Val × PList)) : Prop :=
  ∀ p ∈ docs, isNil (mget p.2 keyId) = false ∧ cmp (mget p.2 keyId) p.1 = 0

theorem StoredM_ids {s : State} (h : StoredM s.docs) : StoredIds s := by
  intro id d hg
  obtain ⟨i, hi, hc⟩ := getDoc_mem hg
  have := h _ hi
  exact ⟨this.1, cmp_zero_trans this.2 hc⟩

/-- the consistency invariant of a store state -/
structure Cons (s : State) : Prop where
  asc : Asc s.docs
  stored : StoredM s.docs
  exact : EntriesExact s

theorem tupCmp_refl : ∀ t : List Val, tupCmp t t = 0
  | [] => by simp [tupCmp]
  | a :: as => by simp only [tupCmp]; rw [lexStep_zero]; exact ⟨C14.cmp_refl a, tupCmp_refl as⟩

theorem mem_putEnt {x : List Val × Val} : ∀ {xs : List (List Val × Val)} {e : List Val × Val},
    e ∈ putEnt xs x → e = x ∨ e ∈ xs
  | [], e, h => by simp [putEnt] at h; exact Or.inl h
  | y :: ys, e, h => by
    simp only [putEnt] at h
    split at h
    · rcases List.mem_cons.mp h with h | h
      · exact Or.inl h
      · exact Or.inr (by simp [h])
    · split at h
      · rcases List.mem_cons.mp h with h | h
        · exact Or.inl h
        · exact Or.inr h
      · rcases List.mem_cons.mp h with h | h
        · exact Or.inr (by simp [h])
        · rcases mem_putEnt h with h | h
          · exact Or.inl h
          · exact Or.inr (by simp [h])

/-- the entries of an index after `index(idx, doc)` succeeded: the old ones and possibly the document's leaf -/
theorem index_ok_entries {idx idx' : Index} {doc : PList} (h : index idx doc = .ok idx') :
    idx'.keys = idx.keys ∧ ∀ e ∈ idx'.entries, e ∈ idx.entries ∨ e = (idx.tuple doc, mget doc keyId) := by
  unfold index at h
  simp only at h
  split at h
  · simp at h
  · split at h
    · simp only [Res.ok.injEq] at h; subst h; exact ⟨rfl, fun e he => Or.inl he⟩
    · split at h
      · simp only [Res.ok.injEq] at h; subst h; exact ⟨rfl, fun e he => Or.inl he⟩
      · split at h
        · simp at h
        · simp only [Res.ok.injEq] at h
          subst h
          exact ⟨rfl, fun e he => (mem_putEnt he).symm⟩

theorem mapIdx_ok {f : Index → Res Index} : ∀ {idxs r : List Index}, mapIdx f idxs = (r, none) →
    ∀ idx' ∈ r, ∃ idx ∈ idxs, f idx = .ok idx'
  | [], r, h => by simp [mapIdx] at h; subst h; simp
  | i :: rest, r, h => by
    simp only [mapIdx] at h
    split at h
    · next i' hf =>
      cases hm : mapIdx f rest with
      | mk r' e' =>
        rw [hm] at h
        simp only [Prod.mk.injEq] at h
        obtain ⟨rfl, rfl⟩ := h
        intro idx' hi'
        rcases List.mem_cons.mp hi' with rfl | hi'
        · exact ⟨i, by simp, hf⟩
        · obtain ⟨idx, hi, hok⟩ := mapIdx_ok hm idx' hi'
          exact ⟨idx, by simp [hi], hok⟩
    · simp at h
    · simp at h

/-! ### `segment.Store` -/

theorem Cons_segStore {s : State} (d : PList) (hc : Cons s) : Cons (segStore s d).1 := by
  cases hres : segStore s d with
  | mk s' r =>
    cases r with
    | some r => rw [segStore_reject hc.exact hres]; exact hc
    | none =>
      simp only
      have hasc : Asc s'.docs := by have := Asc_segStore d hc.asc; rw [hres] at this; exact this
      unfold segStore at hres
      simp only at hres
      split at hres
      · simp [failE] at hres
      · next hid =>
        split at hres
        · simp [failE] at hres
        · next hhas =>
          split at hres
          · simp [failE] at hres
          · cases hm : mapIdx (fun idx => index idx d) s.indexes with
            | mk idxs e =>
              rw [hm] at hres
              simp only [Prod.mk.injEq] at hres
              obtain ⟨rfl, rfl⟩ := hres
              have hfresh : getDoc s.docs (mget d keyId) = none := by
                cases hg : getDoc s.docs (mget d keyId) <;> simp [hg] at hhas ⊢
              refine ⟨hasc, ?_, ?_⟩
              · intro p hp
                rcases mem_putDoc hp with rfl | hp
                · exact ⟨by simpa using hid, C14.cmp_refl _⟩
                · exact hc.stored p hp
              · intro idx' hi' e he
                obtain ⟨idx, hi, hok⟩ := mapIdx_ok hm idx' hi'
                obtain ⟨_, hents⟩ := index_ok_entries hok
                rcases hents e he with he | rfl
                · obtain ⟨d', hd', ht⟩ := hc.exact idx hi e he
                  have hne : cmp (mget d keyId) e.2 ≠ 0 := fun h0 => by
                    rw [← getDoc_congr h0, hfresh] at hd'; simp at hd'
                  refine ⟨d', by simp only; rw [getDoc_putDoc_other d hne]; exact hd', ?_⟩
                  simpa [Index.tuple, (index_ok_entries hok).1] using ht
                · refine ⟨d, getDoc_putDoc_same _ _ (C14.cmp_refl _) _, ?_⟩
                  simp only [Index.tuple, (index_ok_entries hok).1]
                  exact tupCmp_refl _

/-! ### `segment.Swap`, `segment.Delete` -/

/-- an old leaf that survives the removal of `old`'s leaf does not belong to `old`'s id -/
theorem dropLeaf_other {s : State} (hc : Cons s) {idx : Index} (hi : idx ∈ s.indexes) {old : PList} {id : Val}
    (hold : getDoc s.docs id = some old) {e : List Val × Val} (he : e ∈ (dropLeaf idx old).entries) :
    e ∈ idx.entries ∧ cmp id e.2 ≠ 0 := by
  simp only [dropLeaf, List.mem_filter, Bool.not_eq_true', Bool.and_eq_false_iff, decide_eq_false_iff_not] at he
  refine ⟨he.1, fun h0 => ?_⟩
  obtain ⟨d', hd', ht⟩ := hc.exact idx hi e he.1
  rw [← getDoc_congr h0, hold] at hd'
  obtain rfl := Option.some.inj hd'
  have hoid := (StoredM_ids hc.stored _ _ hold).2
  rcases he.2 with h1 | h2
  · exact h1 ht
  · exact h2 (cmp_zero_trans (cmp_zero_symm h0) (cmp_zero_symm hoid))

theorem Cons_segSwap {s : State} (d : PList) (hc : Cons s) : Cons (segSwap s d).1 := by
  cases hres : segSwap s d with
  | mk s' r =>
    cases r with
    | some r => rw [segSwap_reject hc.exact (StoredM_ids hc.stored) hres]; exact hc
    | none =>
      simp only
      have hasc : Asc s'.docs := by have := Asc_segSwap d hc.asc; rw [hres] at this; exact this
      unfold segSwap at hres
      simp only at hres
      split at hres
      · simp [failE] at hres
      · next hid =>
        split at hres
        · simp [failE] at hres
        · next old hold =>
          split at hres
          · simp [failE] at hres
          · cases hm : mapIdx (fun idx => (unindex idx old).bind fun idx' => index idx' d) s.indexes with
            | mk idxs e =>
              rw [hm] at hres
              simp only [Prod.mk.injEq] at hres
              obtain ⟨rfl, rfl⟩ := hres
              have hon := (StoredM_ids hc.stored _ _ hold).1
              refine ⟨hasc, ?_, ?_⟩
              · intro p hp
                rcases mem_putDoc hp with rfl | hp
                · exact ⟨by simpa using hid, C14.cmp_refl _⟩
                · exact hc.stored p hp
              · intro idx' hi' e he
                obtain ⟨idx, hi, hok⟩ := mapIdx_ok hm idx' hi'
                rw [unindex_ok hon] at hok
                simp only [Res.bind] at hok
                obtain ⟨hk, hents⟩ := index_ok_entries hok
                have hk' : idx'.keys = idx.keys := by rw [hk]; rfl
                rcases hents e he with he | rfl
                · obtain ⟨hm', hne⟩ := dropLeaf_other hc hi hold he
                  obtain ⟨d', hd', ht⟩ := hc.exact idx hi e hm'
                  refine ⟨d', by simp only; rw [getDoc_putDoc_other d hne]; exact hd', ?_⟩
                  simpa [Index.tuple, hk'] using ht
                · refine ⟨d, getDoc_putDoc_same _ _ (C14.cmp_refl _) _, ?_⟩
                  simp only [Index.tuple, hk', dropLeaf]
                  exact tupCmp_refl _

/-- `segment.Delete`: in a consistent state the only rejection is an unknown id, which changes nothing -/
theorem segDelete_reject {s s' : State} {id : Val} {r : Res Unit} (hs : StoredIds s)
    (h : segDelete s id = (s', some r)) : s' = s := by
  unfold segDelete at h
  split at h
  · simp only [failE, Prod.mk.injEq] at h; exact h.1.symm
  · next old hold =>
    exfalso
    cases hm : mapIdx (fun idx => unindex idx old) s.indexes with
    | mk idxs e =>
      rw [hm] at h
      simp only [Prod.mk.injEq] at h
      obtain ⟨idx, _, hn⟩ := mapIdx_fail (hm.trans (by rw [h.2]))
      exact hn _ (unindex_ok (hs _ _ hold).1)

theorem Cons_segDelete {s : State} (id : Val) (hc : Cons s) : Cons (segDelete s id).1 := by
  cases hres : segDelete s id with
  | mk s' r =>
    cases r with
    | some r => rw [segDelete_reject (StoredM_ids hc.stored) hres]; exact hc
    | none =>
      simp only
      have hasc : Asc s'.docs := by have := Asc_segDelete id hc.asc; rw [hres] at this; exact this
      unfold segDelete at hres
      split at hres
      · simp [failE] at hres
      · next old hold =>
        cases hm : mapIdx (fun idx => unindex idx old) s.indexes with
        | mk idxs e =>
          rw [hm] at hres
          simp only [Prod.mk.injEq] at hres
          obtain ⟨rfl, rfl⟩ := hres
          have hon := (StoredM_ids hc.stored _ _ hold).1
          refine ⟨hasc, fun p hp => hc.stored p (mem_delDoc hp), ?_⟩
          intro idx' hi' e he
          obtain ⟨idx, hi, hok⟩ := mapIdx_ok hm idx' hi'
          rw [unindex_ok hon] at hok
          simp only [Res.ok.injEq] at hok
          subst hok
          obtain ⟨hm', hne⟩ := dropLeaf_other hc hi hold he
          obtain ⟨d', hd', ht⟩ := hc.exact idx hi e hm'
          refine ⟨d', by simp only; rw [getDoc_delDoc_other hne]; exact hd', ?_⟩
          simpa [Index.tuple, dropLeaf] using ht

/-! ### the store operations -/

theorem Cons_storeInsert : ∀ (ds : List PList) {s : State}, Cons s → Cons (storeInsert s ds).1
  | [], _, h => h
  | d :: ds, s, h => by
    have h1 := Cons_segStore d h
    simp only [storeInsert]
    split
    · next s' heq => rw [heq] at h1; exact Cons_storeInsert ds h1
    · exact h1

theorem Cons_swapAll : ∀ (ds : List PList) {s : State}, Cons s → Cons (swapAll s ds).1
  | [], _, h => h
  | d :: ds, s, h => by
    have h1 := Cons_segSwap d h
    simp only [swapAll]
    split
    · next s' heq => rw [heq] at h1; exact Cons_swapAll ds h1
    · exact h1

theorem Cons_deleteAll : ∀ (ds : List PList) {s : State}, Cons s → Cons (deleteAll s ds).1
  | [], _, h => h
  | d :: ds, s, h => by
    have h1 := Cons_segDelete (mget d keyId) h
    simp only [deleteAll]
    split
    · next s' heq => rw [heq] at h1; exact Cons_deleteAll ds h1
    · exact h1

theorem Cons_storeUpdate {s : State} (f : Option Val) (u : PList) (up : Bool) (h : Cons s) :
    Cons (storeUpdate s f u up).1 := by
  unfold storeUpdate
  repeat' split
  all_goals first
    | exact h
    | (rw [liftN_state]; first | exact Cons_segStore _ h | exact Cons_swapAll _ h)

theorem Cons_storeDelete {s : State} (f : Option Val) (h : Cons s) : Cons (storeDelete s f).1 := by
  unfold storeDelete
  split
  · exact h
  · exact h
  · rw [liftN_state]; exact Cons_deleteAll _ h

/-- the leaves a build adds are the leaves of stored documents -/
theorem build_entries : ∀ (docs : List (Val × PList)) {idx idx' : Index}, build idx docs = .ok idx' →
    idx'.keys = idx.keys ∧
      ∀ e ∈ idx'.entries, e ∈ idx.entries ∨ ∃ p ∈ docs, e = (idx.tuple p.2, mget p.2 keyId)
  | [], idx, idx', h => by
    simp only [build, Res.ok.injEq] at h; subst h; exact ⟨rfl, fun e he => Or.inl he⟩
  | (i, d) :: rest, idx, idx', h => by
    simp only [build] at h
    cases hi : index idx d with
    | ok idx1 =>
      rw [hi] at h
      simp only [Res.bind] at h
      obtain ⟨hk1, he1⟩ := index_ok_entries hi
      obtain ⟨hk2, he2⟩ := build_entries rest h
      refine ⟨hk2.trans hk1, fun e he => ?_⟩
      rcases he2 e he with he | ⟨p, hp, rfl⟩
      · rcases he1 e he with he | rfl
        · exact Or.inl he
        · exact Or.inr ⟨(i, d), by simp, rfl⟩
      · exact Or.inr ⟨p, by simp [hp], by simp [Index.tuple, hk1]⟩
    | err e => rw [hi] at h; simp [Res.bind] at h
    | panic => rw [hi] at h; simp [Res.bind] at h

theorem Cons_storeIndex {s : State} (keys : List Val) (unique : Bool) (filter : Option Val) (h : Cons s) :
    Cons (storeIndex s keys unique filter).1 := by
  unfold storeIndex
  split
  · next idx hb =>
    refine ⟨h.asc, h.stored, ?_⟩
    intro idx' hi' e he
    simp only [List.mem_append, List.mem_filter, List.mem_singleton] at hi'
    rcases hi' with hi' | rfl
    · exact h.exact idx' hi'.1 e he
    · obtain ⟨hk, hents⟩ := build_entries s.docs hb
      rcases hents e he with he | ⟨p, hp, rfl⟩
      · simp at he
      · have hst := h.stored p hp
        refine ⟨p.2, ?_, ?_⟩
        · simp only
          rw [getDoc_congr hst.2]
          exact mem_getDoc h.asc hp
        · simp only [Index.tuple, hk]
          exact tupCmp_refl _
  · exact h
  · exact h

theorem Cons_storeUnindex {s : State} (keys : List Val) (h : Cons s) : Cons (storeUnindex s keys).1 := by
  refine ⟨h.asc, h.stored, ?_⟩
  intro idx hi e he
  simp only [storeUnindex, List.mem_filter] at hi
  exact h.exact idx hi.1 e he

theorem Cons_step {s : State} (op : Op) (h : Cons s) : Cons (step s op).1 := by
  cases op with
  | insert ds => exact Cons_storeInsert ds h
  | update f u up => exact Cons_storeUpdate f u up h
  | delete f => exact Cons_storeDelete f h
  | find f sort skip limit => simp only [step]; split <;> exact h
  | index keys unique f => exact Cons_storeIndex keys unique f h
  | unindex keys => exact Cons_storeUnindex keys h

theorem Cons_run : ∀ (ops : List Op) {s : State}, Cons s → Cons (run s ops)
  | [], _, h => h
  | op :: ops, _, h => Cons_run ops (Cons_step op h)

theorem Cons_init : Cons init := by
  refine ⟨by simp [init, Asc], fun p hp => by simp [init] at hp, ?_⟩
  intro idx hi e he
  simp [init] at hi
  subst hi
  simp at he

/-! ### a rejected batch stops exactly after its accepted prefix -/

theorem storeInsert_reject : ∀ (ds : List PList) {s s' : State} {r : Res Unit}, Cons s →
    storeInsert s ds = (s', some r) →
    ∃ pre d post, ds = pre ++ d :: post ∧ storeInsert s pre = (s', none) ∧ ∃ r', segStore s' d = (s', some r')
  | [], _, _, _, _, h => by simp [storeInsert] at h
  | d :: ds, s, s', r, hc, h => by
    simp only [storeInsert] at h
    cases hs : segStore s d with
    | mk s1 r1 =>
      cases r1 with
      | none =>
        rw [hs] at h
        simp only at h
        have hc1 : Cons s1 := by have := Cons_segStore d hc; rw [hs] at this; exact this
        obtain ⟨pre, x, post, rfl, hpre, hx⟩ := storeInsert_reject ds hc1 h
        exact ⟨d :: pre, x, post, rfl, by simp [storeInsert, hs, hpre], hx⟩
      | some r1 =>
        rw [hs] at h
        simp only [Prod.mk.injEq] at h
        obtain ⟨rfl, _⟩ := h
        obtain rfl := segStore_reject hc.exact hs
        exact ⟨[], d, ds, rfl, rfl, ⟨_, hs⟩⟩

theorem swapAll_reject : ∀ (ds : List PList) {s s' : State} {r : Res Unit}, Cons s →
    swapAll s ds = (s', some r) →
    ∃ pre d post, ds = pre ++ d :: post ∧ swapAll s pre = (s', none) ∧ ∃ r', segSwap s' d = (s', some r')
  | [], _, _, _, _, h => by simp [swapAll] at h
  | d :: ds, s, s', r, hc, h => by
    simp only [swapAll] at h
    cases hs : segSwap s d with
    | mk s1 r1 =>
      cases r1 with
      | none =>
        rw [hs] at h
        simp only at h
        have hc1 : Cons s1 := by have := Cons_segSwap d hc; rw [hs] at this; exact this
        obtain ⟨pre, x, post, rfl, hpre, hx⟩ := swapAll_reject ds hc1 h
        exact ⟨d :: pre, x, post, rfl, by simp [swapAll, hs, hpre], hx⟩
      | some r1 =>
        rw [hs] at h
        simp only [Prod.mk.injEq] at h
        obtain ⟨rfl, _⟩ := h
        obtain rfl := segSwap_reject hc.exact (StoredM_ids hc.stored) hs
        exact ⟨[], d, ds, rfl, rfl, ⟨_, hs⟩⟩

end Uniflow.Index
