/-
C02, joint model, one-in-port node kinds, part 18: a `Write` nobody accepts (the packet is its own answer).
-/
import Uniflow.Proofs.FlowH17

namespace Uniflow.FlowH
open Uniflow.Tracer Uniflow.Node Uniflow.Flow Uniflow.FlowInv Uniflow.FlowG Uniflow.ATracer
open Uniflow.ATracer (getL_setOrDel getL_aset)

/-- the shape of the program at a `Write`: either the request echoes itself (`Write(nil, in)`, nothing derived),
or the packet is the oldest linked and unwritten one of the request -/
theorem write_shape (lg : Log) (n : Nat) (nd : Node) (a : A) (nx : Nat) (hjb : JB nd a nx) (inbox : List Pkt)
    (w : Option Wid) (q : Pkt) (ops : List Op) (ht : nd.threads = [{ inbox := inbox, pc := .emit (.write w q :: ops) }])
    (hnl : NL lg n { inbox := inbox, pc := .emit (.write w q :: ops) } a) :
    (w = none ∧ ops = [] ∧ (⟨q.id, 0, .cells []⟩ : Req) ∈ a.reqs) ∨
    ∃ p cs rest, (⟨p, 0, .cells cs⟩ : Req) ∈ a.reqs ∧ linkedIds cs = q.id :: rest ∧
      remFor (.emit (.write w q :: ops)) p = [] ∧ Unlogged lg q.id ∧ aget lg.owner q.id = some (qTag n) ∧
      q.id < nx ∧ (∀ x ∈ inbox, x.id ≠ q.id) ∧ (∀ y ∈ a.reqs, q.id ∉ remFor (.emit (.write w q :: ops)) y.p) := by
  have hg : getThread nd.threads 0 = some { inbox := inbox, pc := .emit (.write w q :: ops) } := by rw [ht]; rfl
  obtain ⟨p, cs, hX, hsh⟩ := ops_head_write a.reqs w q ops (by have := hjb.j.th 0 _ hg; simpa [ThOK] using this)
  rcases hsh with ⟨e0, e1, e2⟩ | ⟨rest, hl, hrem0⟩
  · left
    subst e0; subst e2
    rcases hnl.nz _ hX rfl with e | ⟨pk, grp, e, _⟩ | ⟨q', e, _⟩
    · simp [remFor, remOps] at e
    · cases e
    · simp only [PC.emit.injEq, List.cons.injEq, Op.write.injEq, and_true] at e
      refine ⟨e.1, rfl, ?_⟩
      rw [e1]; exact hX
  · right
    have hr : ReqA lg n (.emit (.write w q :: ops)) ⟨p, 0, .cells cs⟩ := by
      rcases hnl.req _ hX with hr | ⟨v, e1, _, _⟩
      · exact hr
      · simp only [RSt.cells.injEq] at e1; rw [e1] at hl; simp [linkedIds] at hl
    simp only [ReqA] at hr
    obtain ⟨qs, a1, _⟩ := hr
    have hql : q.id ∈ linkedIds cs := by rw [hl]; simp
    obtain ⟨hu, ho⟩ := all2_linked lg n qs cs a1 q.id hql
    have hqi : q.id ∈ ids a.reqs := mem_ids_of_mem hX (linked_in_idsR _ cs rfl q.id hql)
    have hdis := jb_disj nd a nx hjb _ ht q.id hqi
    refine ⟨p, cs, rest, hX, hl, hrem0, hu, ho, hjb.bnd q.id (List.mem_append_left _ hqi), ?_, ?_⟩
    · intro x hx e
      exact hdis (by simp only [tids, List.mem_append, List.mem_map]; left; exact ⟨x, hx, e⟩)
    · intro y _ hm
      exact hdis (by simp only [tids, List.mem_append]; right; exact remFor_sub _ y.p q.id hm)

/-- `Write(nil, in)`: the request that derived nothing is answered with itself -/
theorem HI_echo_self (kinds : List Kind) (links : List (Nat × List Tgt)) (hwf : GraphWF3 kinds links) (aa : Nat → A) (g : G)
    (h : HI kinds links aa D0 g) (n : Nat) (nd : Node) (inbox : List Pkt) (q : Pkt)
    (hn : getNode g.nodes n = some nd) (ht : nd.threads = [{ inbox := inbox, pc := .emit [.write none q] }])
    (hX : (⟨q.id, 0, .cells []⟩ : Req) ∈ (aa n).reqs) :
    ∃ nd' ev, Node.step nd (.op 0 false) = some (nd', ev) ∧
      HI kinds links (updA aa n (awrite (aa n) none q.id (.pay q.pay) false).1) D0
        (putNode (logEcho g q) n nd' ev) := by
  have hjb := h.jb n nd hn
  have hnl := h.nl n nd _ hn ht
  have hnN : n < kinds.length := (h.nodesLen n).mp (by rw [hn]; rfl)
  obtain ⟨hst, hjb', _⟩ := jb_op nd (aa n) g.next hjb inbox (.write none q) [] ht false
  have hqi : q.id ∈ ids (aa n).reqs := mem_ids_of_mem hX (by simp [idsR])
  have hqlt : q.id < g.next := hjb.bnd q.id (List.mem_append_left _ hqi)
  have hdis := jb_disj nd (aa n) g.next hjb _ ht q.id hqi
  have hqU : Unlogged g.log q.id := by
    have hr : ReqA g.log n (.emit [.write none q]) ⟨q.id, 0, .cells []⟩ :=
      reqB_A _ _ _ _ (hnl.req _ hX) (by intro v e; cases e)
    simp only [ReqA, remFor, remOps] at hr
    obtain ⟨qs, a1, a2, a3, a4, a5, _, _⟩ := hr
    have : qs = [] := by cases qs with | nil => rfl | cons _ _ => simp [All2] at a1
    subst this
    exact ⟨by simpa [optl] using a2, a5, a3, a4⟩
  let lg' : Log := { g.log with echo := aset g.log.echo q.id q.pay }
  have hx : LogExt g.log lg' q.id := by
    refine ⟨hqU, fun x hxne => ⟨rfl, rfl, ?_, rfl⟩⟩
    show aget (aset g.log.echo q.id q.pay) x = _
    rw [aget_aset]; simp [hxne]
  obtain ⟨ds, d1, d2, d3, d4, d5⟩ := nl_echo_self g.log lg' n inbox (aa n) q hnl hjb.j.inv.nodup hjb.r0 hX hx
    (by show aget (aset g.log.echo q.id q.pay) q.id = _; rw [aget_aset]; simp)
    (fun x hx' e => hdis (by simp only [tids, List.mem_append, List.mem_map]; left; exact ⟨x, hx', e⟩))
    (fun _ _ => rfl)
  refine ⟨_, _, hst, ?_⟩
  have hev : (acall (aa n) (opCall false (.write none q))).2 = ds.map (fun d => Ev.reply 0 d.2) := d2
  rw [hev]
  have hwe : awrite (aa n) none q.id (.pay q.pay) false = afill (aa n) q.id (.pay q.pay) := rfl
  rw [hwe]
  have hts := tag_sep n (Nat.lt_of_lt_of_le hnN hwf.small)
  exact HI_debt_route kinds links hwf aa g h n nd
    { nd with tr := (tcall nd.tr (opCall false (.write none q))).1, threads := [{ inbox := inbox, pc := nextPc [] }] }
    (afill (aa n) q.id (.pay q.pay)).1 lg' q.id g.writers ds hn rfl hjb'
    (by
      intro th hth
      simp only [List.cons.injEq, and_true] at hth
      subst hth
      exact d1)
    (by
      rw [heldN_of nd (aa n) _ ht, heldN_of _ _ { inbox := inbox, pc := nextPc [] } rfl, d4]
      simp [List.append_assoc])
    hx rfl
    (by
      intro id hid
      exact unlogged_ext g.log lg' q.id hx id
        (fun e => by rw [e] at hid; exact Nat.lt_irrefl _ (Nat.lt_of_lt_of_le hqlt hid)) (h.logBound id hid))
    (Or.inr ⟨n * 64, hnl.own _ hX, hts.2.2.1, hts.2.2.2⟩) d3 h.srcq h.wq0
    (by
      intro key hl'
      rw [pendH_upd aa n _ _ _ _ (fun w' => by rw [d5])]
      exact wkg_ext g.log lg' q.id hx _ _ _ _ (h.wk key hl'))
    (ordAt_none lg' q.id g.next hqU.2.1 hqU.1)

theorem HI_write_rej (kinds : List Kind) (links : List (Nat × List Tgt)) (hwf : GraphWF3 kinds links) (aa : Nat → A) (g : G)
    (h : HI kinds links aa D0 g) (n : Nat) (nd : Node) (inbox : List Pkt) (w : Option Wid) (q : Pkt)
    (ops : List Op) (hn : getNode g.nodes n = some nd)
    (ht : nd.threads = [{ inbox := inbox, pc := .emit (.write w q :: ops) }]) :
    ∃ nd' ev, Node.step nd (.op 0 false) = some (nd', ev) ∧
      HI kinds links (updA aa n (awrite (aa n) w q.id (.pay q.pay) false).1) D0
        (putNode (logEcho g q) n nd' ev) := by
  have hjb := h.jb n nd hn
  have hnl := h.nl n nd _ hn ht
  have hnN : n < kinds.length := (h.nodesLen n).mp (by rw [hn]; rfl)
  rcases write_shape g.log n nd (aa n) g.next hjb inbox w q ops ht hnl with ⟨e1, e2, hXe⟩ |
    ⟨p, cs, rest, hX, hl, hrem0, hqU, hqo, hqlt, hki, hkr⟩
  · subst e1; subst e2
    exact HI_echo_self kinds links hwf aa g h n nd inbox q hn ht hXe
  obtain ⟨hst, hjb', _⟩ := jb_op nd (aa n) g.next hjb inbox (.write w q) ops ht false
  let lg' : Log := { g.log with echo := aset g.log.echo q.id q.pay }
  have hx : LogExt g.log lg' q.id := by
    refine ⟨hqU, fun x hxne => ⟨rfl, rfl, ?_, rfl⟩⟩
    show aget (aset g.log.echo q.id q.pay) x = _
    rw [aget_aset]; simp [hxne]
  obtain ⟨ds, d1, d2, d3, d4, d5⟩ := nl_write_rej g.log lg' n (aa n) inbox w q ops hnl hjb.j.inv.nodup hjb.r0 p cs rest hX
    hl hrem0 hx (by show aget (aset g.log.echo q.id q.pay) q.id = _; rw [aget_aset]; simp) hki hkr (fun _ _ => rfl)
  refine ⟨_, _, hst, ?_⟩
  have hev : (acall (aa n) (opCall false (.write w q))).2 = ds.map (fun d => Ev.reply 0 d.2) := d2
  rw [hev]
  have hts := tag_sep n (Nat.lt_of_lt_of_le hnN hwf.small)
  have key := HI_debt_route kinds links hwf aa g h n nd
    { nd with tr := (tcall nd.tr (opCall false (.write w q))).1, threads := [{ inbox := inbox, pc := nextPc ops }] }
    (awrite (aa n) w q.id (.pay q.pay) false).1 lg' q.id g.writers ds hn rfl hjb'
    (by
      intro th hth
      simp only [List.cons.injEq, and_true] at hth
      subst hth
      exact d1)
    (by
      rw [heldN_of nd (aa n) _ ht, heldN_of _ _ { inbox := inbox, pc := nextPc ops } rfl, d4]
      simp [List.append_assoc])
    hx rfl
    (by
      intro id hid
      exact unlogged_ext g.log lg' q.id hx id
        (fun e => by rw [e] at hid; exact Nat.lt_irrefl _ (Nat.lt_of_lt_of_le hqlt hid)) (h.logBound id hid))
    (Or.inr ⟨qTag n, hqo, hts.1, hts.2.1⟩) d3 h.srcq h.wq0
    (by
      intro key hl'
      rw [pendH_upd aa n _ _ _ _ (fun w' => by rw [d5])]
      exact wkg_ext g.log lg' q.id hx _ _ _ _ (h.wk key hl'))
    (ordAt_none lg' q.id g.next hqU.2.1 hqU.1)
  exact key

end Uniflow.FlowH
