/-
C02, joint model, general links, part 5: routing all replies of a node; one node changes while the log is
extended at one key; the steps read / link / action-returns (ported from the forest case – they do not
touch the links).
-/
import Uniflow.Proofs.FlowG4

namespace Uniflow.FlowG
open Uniflow.Tracer Uniflow.Node Uniflow.Flow Uniflow.FlowInv
open Uniflow.NodeSpec (S EReq ESt Cur Rel curRead writesOf allIds)
open Uniflow.ATracer (getL_setOrDel getL_aset)

theorem pendK_upd_same (ss : Nat → S) (n0 : Nat) (s' : S) (roots : List Pid) (nr key : Nat)
    (hw : ∀ w, writesOf s'.reqs w = writesOf (ss n0).reqs w) :
    pendK (upd ss n0 s') roots nr key = pendK ss roots nr key := by
  simp only [pendK]
  split
  · rfl
  · simp only [upd]; split
    · rename_i e; rw [hw, e]
    · rfl

/-- routing all replies a node has just emitted -/
theorem GI_route (N : Nat) (links : List (Nat × List Tgt)) (hwf : GraphWF N links) (ss : Nat → S) (n : Nat)
    (hn1000 : n < 1000) :
    ∀ (ds : List (Pid × Ans)) (D : Nat → List (Pid × Ans)) (g : G),
      GI N links ss D g → D (rkeyOf (.node n 0)) = ds →
      GI N links ss (updD D (rkeyOf (.node n 0)) []) (route g n (ds.map (fun x => Ev.reply 0 x.2))) := by
  intro ds
  induction ds with
  | nil =>
    intro D g h hD
    simp only [List.map_nil, route]
    rw [← hD, updD_self]; exact h
  | cons d ds ih =>
    intro D g h hD
    obtain ⟨c, a⟩ := d
    simp only [List.map_cons, route]
    have h1 := GI_gReply N links hwf ss D g (.node n 0) c a ds h ⟨rfl, hn1000⟩ hD
    have h2 := ih (updD D (rkeyOf (.node n 0)) ds) _ h1 (by simp [updD])
    rw [updD_updD] at h2
    exact h2

/-- one node changes (same held requests, same outstanding writes), the log is extended at `k` -/
theorem GI_node_log (N : Nat) (links : List (Nat × List Tgt)) (ss : Nat → S) (D : Nat → List (Pid × Ans)) (g : G)
    (h : GI N links ss D g) (n0 : Nat) (nd0 nd' : Node) (s' : S) (lg' : Log) (nx' : Nat) (k : Pid)
    (hn0 : getNode g.nodes n0 = some nd0) (hr : Rel s' nd' nx') (hle : g.next ≤ nx')
    (hheld : heldOf s' = heldOf (ss n0)) (hw : ∀ w, writesOf s'.reqs w = writesOf (ss n0).reqs w)
    (hx : LogExt g.log lg' k) (hown : ∀ id, id < g.next → aget lg'.owner id = aget g.log.owner id)
    (hlb : ∀ id, nx' ≤ id → Unlogged lg' id)
    (hsepN : ∀ m, m ≠ n0 → k ∉ unlIds (ss m)) (hsepS : ∀ j, k ∉ (getL g.sinks j).map (·.1))
    (hreq : ∀ r ∈ s'.reqs, ReqOK lg' r) (hcur : CurOK lg' n0 s'.cur) (hinb : ∀ p ∈ s'.inbox, Unlogged lg' p.id)
    (hordk : OrdAt lg' k nx') :
    GI N links (upd ss n0 s') D { g with nodes := setNode g.nodes n0 nd', log := lg', next := nx' } := by
  have hn0N : n0 < N := (h.nodesLen n0).mp (by rw [hn0]; rfl)
  have hbound : ∀ m nd, getNode g.nodes m = some nd → ∀ x ∈ allIds (ss m), x < g.next :=
    fun m nd hm => (h.rel m nd hm).bound
  have hbm : ∀ m, ∀ x ∈ allIds (ss m), x < g.next := by
    intro m x hx'
    by_cases hm : m < N
    · cases hg : getNode g.nodes m with
      | none => have := (h.nodesLen m).mpr hm; rw [hg] at this; cases this
      | some nd => exact hbound m nd hg x hx'
    · rw [h.dflt m (Nat.le_of_not_lt hm)] at hx'; simp [allIds, NodeSpec.idsL, NodeSpec.idsC] at hx'
  have hheldD : ∀ t, heldD D (upd ss n0 s') g.sinks t = heldD D ss g.sinks t :=
    fun t => heldD_upd_same D ss g.sinks n0 s' hheld t
  refine { glinks := h.glinks, nodesLen := nodesLen_set g N n0 nd0 nd' hn0 h.nodesLen,
           rel := rel_upd g ss n0 nd0 nd' s' nx' h.rel hn0 hr hle, dflt := ?_, reqsOK := ?_, curOK := ?_,
           inboxOK := ?_, ownNode := ?_, sinkOK := ?_, debtOK := ?_, wk := ?_, srcq := h.srcq, fifoLen := ?_,
           fifoKeys := h.fifoKeys, respOK := ?_, logBound := hlb, rootsB := fun r hr' => Nat.lt_of_lt_of_le (h.rootsB r hr') hle,
           wq0 := h.wq0, logOrd := logOrd_ext g.log lg' k g.next nx' h.logOrd hx hle hordk }
  · intro n hn
    have : n ≠ n0 := by omega
    simp only [upd, this, if_false]; exact h.dflt n hn
  · intro n r hr'
    by_cases e : n = n0
    · simp only [upd, e, if_true] at hr'; exact hreq r hr'
    · simp only [upd, e, if_false] at hr'; exact reqOK_ext g.log lg' k hx r (h.reqsOK n r hr')
  · intro n
    by_cases e : n = n0
    · simp only [upd, e, if_true]; exact e ▸ hcur
    · simp only [upd, e, if_false]
      apply curOK_ext g.log lg' k hx n _ _ _ (h.curOK n)
      · intro id hid
        exact hown id (hbm n id (unlIds_sub_allIds _ id (by simp [unlIds, hid])))
      · intro hk; exact hsepN n e (by simp [unlIds, hk])
  · intro n p hp
    by_cases e : n = n0
    · simp only [upd, e, if_true] at hp; exact hinb p hp
    · simp only [upd, e, if_false] at hp
      exact unlogged_ext g.log lg' k hx p.id
        (fun e2 => hsepN n e (by simp only [unlIds, List.mem_append, List.mem_map]; right; exact ⟨p, hp, e2⟩))
        (h.inboxOK n p hp)
  · intro n id hid
    have hid' : id ∈ heldAt ss g.sinks (.node n 0) := by
      rw [heldAt_upd] at hid
      by_cases e : n = n0
      · simp only [e, if_true] at hid; rw [hheld] at hid; rw [e]; exact hid
      · simp only [e, if_false] at hid; exact hid
    have hlt : id < g.next := hbm n id (heldOf_sub_allIds _ id hid')
    simp only; rw [hown id hlt]; exact h.ownNode n id hid'
  · intro j
    obtain ⟨h1, h2⟩ := h.sinkOK j
    refine ⟨h1, ?_⟩
    intro c hc
    obtain ⟨u1, u2, u3⟩ := h2 c hc
    exact ⟨unlogged_ext g.log lg' k hx c (fun e => hsepS j (e ▸ hc)) u1, Nat.lt_of_lt_of_le u2 hle,
      by simp only; rw [hown c u2]; exact u3⟩
  · intro rk x hx'; exact ra_ext g.log lg' k hx x.1 x.2 (h.debtOK rk x hx')
  · intro key hl
    have e1 : hbOf D (upd ss n0 s') g.sinks g.fifo key = hbOf D ss g.sinks g.fifo key := by
      funext t; simp only [hbOf, hheldD]
    show WKG lg' (gw g.writers key) _ (pendK (upd ss n0 s') g.roots g.resp.length key)
      (hbOf D (upd ss n0 s') g.sinks g.fifo key)
    rw [e1, pendK_upd_same ss n0 s' _ _ _ hw]
    exact wkg_ext g.log lg' k hx _ _ _ _ (h.wk key hl)
  · intro t htok; simp only [hheldD]; exact h.fifoLen t htok
  · exact ⟨h.respOK.1, all2_mono _ _ (fun p a => ra_ext g.log lg' k hx p a) _ _ h.respOK.2⟩

/-- `FI` reads only these fields of the state -/
theorem GI_congr (N : Nat) (links : List (Nat × List Tgt)) (ss : Nat → S) (D : Nat → List (Pid × Ans)) (g g' : G)
    (h : GI N links ss D g) (e1 : g'.links = g.links) (e2 : g'.nodes = g.nodes) (e3 : g'.next = g.next)
    (e4 : g'.log = g.log) (e5 : g'.sinks = g.sinks) (e6 : g'.writers = g.writers) (e7 : g'.fifo = g.fifo)
    (e8 : g'.roots = g.roots) (e9 : g'.resp = g.resp) : GI N links ss D g' := by
  obtain ⟨a1, a2, a3, a4, a5, a6, a7, a8, a9, a10, a11, a12, a13, a14, a15, a16, a17, a18, a19⟩ := h
  constructor
  · rw [e1]; exact a1
  · rw [e2]; exact a2
  · rw [e2, e3]; exact a3
  · exact a4
  · rw [e4]; exact a5
  · rw [e4]; exact a6
  · rw [e4]; exact a7
  · rw [e4, e5]; exact a8
  · rw [e4, e5, e3]; exact a9
  · rw [e4]; exact a10
  · rw [e4, e5, e6, e7, e8, e9]; exact a11
  · rw [e6]; exact a12
  · rw [e5, e7]; exact a13
  · rw [e7]; exact a14
  · rw [e4, e8, e9]; exact a15
  · rw [e4, e3]; exact a16
  · rw [e3, e8]; exact a17
  · rw [e6]; exact a18
  · rw [e4, e3]; exact a19

theorem live_lt (N : Nat) (links : List (Nat × List Tgt)) (ss : Nat → S) (D : Nat → List (Pid × Ans)) (g : G)
    (h : GI N links ss D g) (m : Nat) : ∀ x ∈ allIds (ss m), x < g.next := by
  intro x hx
  by_cases hm : m < N
  · cases hg : getNode g.nodes m with
    | none => have := (h.nodesLen m).mpr hm; rw [hg] at this; cases this
    | some nd => exact (h.rel m nd hg).bound x hx
  · rw [h.dflt m (Nat.le_of_not_lt hm)] at hx; simp [allIds, NodeSpec.idsL, NodeSpec.idsC] at hx

/-- the owner tag of an id that must stay unlogged in node `m` -/
theorem unl_tag (N : Nat) (links : List (Nat × List Tgt)) (ss : Nat → S) (D : Nat → List (Pid × Ans)) (g : G)
    (h : GI N links ss D g) (m : Nat) (x : Pid) (hx : x ∈ unlIds (ss m)) :
    aget g.log.owner x = some (m * 64) ∨ aget g.log.owner x = some (m * 64 + 63) := by
  simp only [unlIds, List.mem_append, List.mem_map] at hx
  have hrk : rkeyOf (.node m 0) = m * 64 := by simp [rkeyOf]
  rcases hx with hx | ⟨p, hp, e⟩
  · have hc := h.curOK m
    cases hcur : (ss m).cur with
    | idle => rw [hcur] at hx; simp [curUnl] at hx
    | inAction p =>
      rw [hcur] at hx; simp only [curUnl, List.mem_singleton] at hx
      left; rw [← hrk]
      exact h.ownNode m x (by simp [heldAt, hcur, curRead, hx])
    | toLink p q w =>
      rw [hcur] at hx hc; simp only [curUnl, List.mem_singleton] at hx
      right; rw [hx]; simpa [CurOK, qTag] using hc.2.2.2
    | linked p q w =>
      rw [hcur] at hx hc; simp only [curUnl, List.mem_singleton] at hx
      right; rw [hx]; simpa [CurOK, qTag] using hc.2.2.2
  · left; rw [← hrk]
    exact h.ownNode m x (by simp only [heldAt, List.mem_append, List.mem_map]; right; exact ⟨p, hp, e⟩)

/-- an id with a different owner tag is not among the unlogged ids of node `m` -/
theorem sep_node (N : Nat) (links : List (Nat × List Tgt)) (ss : Nat → S) (D : Nat → List (Pid × Ans)) (g : G)
    (h : GI N links ss D g) (k : Pid) (τ : Nat) (hk : aget g.log.owner k = some τ) (m : Nat)
    (h1 : τ ≠ m * 64) (h2 : τ ≠ m * 64 + 63) : k ∉ unlIds (ss m) := by
  intro hm
  rcases unl_tag N links ss D g h m k hm with e | e
  · rw [hk] at e; exact h1 (Option.some.inj e)
  · rw [hk] at e; exact h2 (Option.some.inj e)

theorem sep_sink (N : Nat) (links : List (Nat × List Tgt)) (ss : Nat → S) (D : Nat → List (Pid × Ans)) (g : G)
    (h : GI N links ss D g) (k : Pid) (τ : Nat) (hk : aget g.log.owner k = some τ) (j : Nat)
    (h1 : τ ≠ (2000 + j) * 64) : k ∉ (getL g.sinks j).map (·.1) := by
  intro hm
  have := ((h.sinkOK j).2 k hm).2.2
  rw [hk] at this
  exact h1 (by simpa [rkeyOf] using Option.some.inj this)

theorem sep_fresh_node (N : Nat) (links : List (Nat × List Tgt)) (ss : Nat → S) (D : Nat → List (Pid × Ans)) (g : G)
    (h : GI N links ss D g) (k : Pid) (hk : g.next ≤ k) (m : Nat) : k ∉ unlIds (ss m) := by
  intro hm
  exact absurd (Nat.lt_of_lt_of_le (live_lt N links ss D g h m k (unlIds_sub_allIds _ k hm)) hk) (Nat.lt_irrefl _)

theorem sep_fresh_sink (N : Nat) (links : List (Nat × List Tgt)) (ss : Nat → S) (D : Nat → List (Pid × Ans)) (g : G)
    (h : GI N links ss D g) (k : Pid) (hk : g.next ≤ k) (j : Nat) : k ∉ (getL g.sinks j).map (·.1) := by
  intro hm
  exact absurd (Nat.lt_of_lt_of_le ((h.sinkOK j).2 k hm).2.1 hk) (Nat.lt_irrefl _)

/-- a forward thread takes the next request from its inbox and enters the action -/
theorem GI_read (N : Nat) (links : List (Nat × List Tgt)) (ss : Nat → S) (g : G)
    (h : GI N links ss D0 g) (n : Nat) (nd nd' : Node) (p : Pkt) (rest : List Pkt)
    (hn : getNode g.nodes n = some nd) (hc : (ss n).cur = .idle) (hi : (ss n).inbox = p :: rest)
    (hst : Node.step nd (.read 0) = some (nd', [])) (hr' : Rel { (ss n) with inbox := rest, cur := .inAction p } nd' g.next) :
    GI N links (upd ss n { (ss n) with inbox := rest, cur := .inAction p }) D0
      { g with nodes := setNode g.nodes n nd' } := by
  have hub : Unlogged g.log g.next := h.logBound g.next (Nat.le_refl _)
  have key := GI_node_log N links ss D0 g h n nd nd' { (ss n) with inbox := rest, cur := .inAction p } g.log g.next g.next
    hn hr' (Nat.le_refl _)
    (by simp [heldOf, hc, hi, curRead]) (fun w => rfl) (logExt_refl g.log g.next hub) (fun _ _ => rfl) h.logBound
    (fun m _ => sep_fresh_node N links ss D0 g h g.next (Nat.le_refl _) m)
    (fun j => sep_fresh_sink N links ss D0 g h g.next (Nat.le_refl _) j)
    (fun r hr => h.reqsOK n r hr)
    (by simp only [CurOK]; exact h.inboxOK n p (by rw [hi]; simp))
    (fun q hq => h.inboxOK n q (by rw [hi]; simp [hq]))
    (ordAt_none g.log g.next g.next hub.2.1 hub.1)
  exact GI_congr N links _ D0 _ _ key rfl rfl rfl rfl rfl rfl rfl rfl rfl

/-- the `Link` call of a forward thread -/
theorem GI_link (N : Nat) (links : List (Nat × List Tgt)) (ss : Nat → S) (g : G)
    (h : GI N links ss D0 g) (n : Nat) (nd nd' : Node) (p q : Pkt) (w : Wid)
    (hn : getNode g.nodes n = some nd) (hc : (ss n).cur = .toLink p q w)
    (hr' : Rel { (ss n) with cur := .linked p q w } nd' g.next) :
    GI N links (upd ss n { (ss n) with cur := .linked p q w }) D0 { g with nodes := setNode g.nodes n nd' } := by
  have hub : Unlogged g.log g.next := h.logBound g.next (Nat.le_refl _)
  have hcur := h.curOK n
  rw [hc] at hcur
  have key := GI_node_log N links ss D0 g h n nd nd' { (ss n) with cur := .linked p q w } g.log g.next g.next
    hn hr' (Nat.le_refl _)
    (by simp [heldOf, hc, curRead]) (fun w => rfl) (logExt_refl g.log g.next hub) (fun _ _ => rfl) h.logBound
    (fun m _ => sep_fresh_node N links ss D0 g h g.next (Nat.le_refl _) m)
    (fun j => sep_fresh_sink N links ss D0 g h g.next (Nat.le_refl _) j)
    (fun r hr => h.reqsOK n r hr)
    (by simpa [CurOK] using hcur)
    (fun q hq => h.inboxOK n q hq)
    (ordAt_none g.log g.next g.next hub.2.1 hub.1)
  exact GI_congr N links _ D0 _ _ key rfl rfl rfl rfl rfl rfl rfl rfl rfl

/-- the action of node `n` returns the fresh packet `q` (for writer `w`) -/
theorem GI_release (N : Nat) (links : List (Nat × List Tgt)) (hwf : GraphWF N links) (ss : Nat → S) (g : G)
    (h : GI N links ss D0 g) (n : Nat) (nd nd' : Node) (p : Pkt) (v : Val) (w : Wid) (hw : w < 2)
    (hn : getNode g.nodes n = some nd) (hc : (ss n).cur = .inAction p)
    (hr' : Rel { (ss n) with cur := .toLink p ⟨g.next, v⟩ w } nd' (g.next + 1)) :
    GI N links (upd ss n { (ss n) with cur := .toLink p ⟨g.next, v⟩ w }) D0
      { g with nodes := setNode g.nodes n nd', next := g.next + 1,
               log := { g.log with acts := aset g.log.acts p.id [g.next],
                                   owner := aset g.log.owner g.next (qTag n) } } := by
  have hnN : n < N := (h.nodesLen n).mp (by rw [hn]; rfl)
  have hcur := h.curOK n
  rw [hc] at hcur
  have hup : Unlogged g.log p.id := hcur
  have hrel := h.rel n nd hn
  have hplt : p.id < g.next := hrel.bound p.id (by simp [allIds, hc, NodeSpec.idsC])
  have hpne : p.id ≠ g.next := Nat.ne_of_lt hplt
  have hown_p : aget g.log.owner p.id = some (n * 64) := by
    have := h.ownNode n p.id (by simp [heldAt, hc, curRead])
    simpa [rkeyOf] using this
  let lg' : Log := { g.log with acts := aset g.log.acts p.id [g.next], owner := aset g.log.owner g.next (qTag n) }
  have hx : LogExt g.log lg' p.id := by
    refine ⟨hup, ?_⟩
    intro x hxne
    refine ⟨?_, rfl, rfl, rfl⟩
    simp only [lg', aget_aset, hxne, if_false]
  have hunext : Unlogged lg' g.next :=
    unlogged_ext g.log lg' p.id hx g.next (fun e => hpne e.symm) (h.logBound g.next (Nat.le_refl _))
  have key := GI_node_log N links ss D0 g h n nd nd' { (ss n) with cur := .toLink p ⟨g.next, v⟩ w } lg' (g.next + 1) p.id
    hn hr' (Nat.le_succ _)
    (by simp [heldOf, hc, curRead]) (fun w => rfl) hx
    (by intro id hid; simp only [lg', aget_aset]; have : id ≠ g.next := Nat.ne_of_lt hid; simp [this])
    (by
      intro id hid
      exact unlogged_ext g.log lg' p.id hx id
        (fun e => by rw [e] at hid; exact absurd (Nat.lt_of_lt_of_le (Nat.lt_succ_self _) hid) (Nat.lt_asymm hplt))
        (h.logBound id (Nat.le_of_succ_le hid)))
    (by
      intro m hm
      apply sep_node N links ss D0 g h p.id (n * 64) hown_p m <;> omega)
    (by
      intro j
      apply sep_sink N links ss D0 g h p.id (n * 64) hown_p j
      have := hwf.small; omega)
    (fun r hr => reqOK_ext g.log lg' p.id hx r (h.reqsOK n r hr))
    (by
      simp only [CurOK]
      refine ⟨⟨?_, ?_, ?_, ?_⟩, hunext, hw, ?_⟩
      · show aget g.log.echo p.id = none; exact hup.2.2.1
      · show aget g.log.sinkAns p.id = none; exact hup.2.2.2
      · show aget g.log.dels p.id = none; exact hup.2.1
      · simp [lg', aget_aset]
      · simp [lg', aget_aset])
    (by
      intro x hxi
      have hne : x.id ≠ p.id := fun e =>
        rel_nodup_ne _ nd g.next hrel p.id x.id (by simp [hc, NodeSpec.idsC]) (List.mem_map_of_mem hxi) e.symm
      exact unlogged_ext g.log lg' p.id hx x.id hne (h.inboxOK n x hxi))
    (by
      refine ⟨fun cs hcs => ?_, fun qs hqs => ?_⟩
      · have : aget lg'.dels p.id = none := hup.2.1
        rw [this] at hcs; cases hcs
      · have : aget lg'.acts p.id = some [g.next] := by simp [lg', aget_aset]
        rw [this] at hqs
        simp only [Option.some.injEq] at hqs
        subst hqs
        intro q hq
        simp only [List.mem_singleton] at hq
        subst hq
        exact ⟨hplt, Nat.lt_succ_self _⟩)
  exact GI_congr N links _ D0 _ _ key rfl rfl rfl rfl rfl rfl rfl rfl rfl

end Uniflow.FlowG
