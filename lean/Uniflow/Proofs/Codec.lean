/-
Helper lemmas for Props/C16.lean: the Range order on string keys, sorted documents as dictionaries,
what `encodeKV` / `encodeFields` write, the leaf-decoder lists on the source kinds the encoders produce.
Core Lean only.
-/
import Uniflow.Model.Codec
import Uniflow.Proofs.Value

namespace Uniflow.Codec
open Uniflow.Value

/-! ## Range order of string keys -/

def H (a : Bytes) : Nat := (hash (.str a)).toNat

theorem klt_iff {a b : Bytes} : klt a b = true ↔ (H a < H b ∨ (H a = H b ∧ cmpBytes a b < 0)) := by
  simp [klt, H]

theorem klt_irrefl (a : Bytes) : klt a a = false := by
  cases h : klt a a with
  | false => rfl
  | true =>
    rcases klt_iff.mp h with h1 | ⟨_, h2⟩
    · omega
    · have := (cmpBytes_zero (a := a) (b := a)).mpr rfl; omega

theorem klt_trans {a b c : Bytes} (h1 : klt a b = true) (h2 : klt b c = true) : klt a c = true := by
  rw [klt_iff] at *
  rcases h1 with h1 | ⟨e1, c1⟩ <;> rcases h2 with h2 | ⟨e2, c2⟩
  · left; omega
  · left; omega
  · left; omega
  · right; refine ⟨by omega, ?_⟩
    exact (cmpBytes_T3 a b c).2.1 c1 (by omega)

theorem klt_total {a b : Bytes} (h1 : klt a b = false) (h2 : klt b a = false) : a = b := by
  have n1 : ¬ (H a < H b ∨ (H a = H b ∧ cmpBytes a b < 0)) := fun h => by simp [klt_iff.mpr h] at h1
  have n2 : ¬ (H b < H a ∨ (H b = H a ∧ cmpBytes b a < 0)) := fun h => by simp [klt_iff.mpr h] at h2
  have e : H a = H b := by omega
  have anti := cmpBytes_antisymm a b
  have : cmpBytes a b = 0 := by
    have r := cmpBytes_range a b
    rcases r with r | r | r
    · exact absurd (Or.inr ⟨e, by omega⟩) n1
    · exact r
    · exact absurd (Or.inr ⟨e.symm, by omega⟩) n2
  exact cmpBytes_zero.mp this

theorem klt_ne {a b : Bytes} (h : klt a b = true) : a ≠ b := by
  intro e; subst e; simp [klt_irrefl] at h

/-! ## Sorted documents -/

/-- `k` is before every key of the list (all of which are strings) -/
def keyLtAll (k : Bytes) : PList → Bool
  | .nil => true
  | .cons (.str k') _ rest => klt k k' && keyLtAll k rest
  | .cons _ _ _ => false

/-- string keys in strictly ascending Range order -/
def sortedP : PList → Bool
  | .nil => true
  | .cons (.str k) _ rest => keyLtAll k rest && sortedP rest
  | .cons _ _ _ => false

theorem ltAll_trans {a b : Bytes} (h : klt a b = true) : ∀ m : PList, keyLtAll b m = true → keyLtAll a m = true
  | .nil, _ => rfl
  | .cons (.str k') _ rest, hm => by
    simp only [keyLtAll, Bool.and_eq_true] at hm ⊢
    exact ⟨klt_trans h hm.1, ltAll_trans h rest hm.2⟩
  | .cons .nil _ _, hm | .cons (.bin _) _ _, hm | .cons (.bool _) _ _, hm | .cons (.err _) _ _, hm
  | .cons (.int _ _) _ _, hm | .cons (.uint _ _) _ _, hm | .cons (.f32 _) _ _, hm | .cons (.f64 _) _ _, hm
  | .cons (.slice _) _ _, hm | .cons (.map _) _ _, hm => by simp [keyLtAll] at hm

theorem find_none_of_ltAll {k : Bytes} : ∀ m : PList, keyLtAll k m = true → mapFind m k = none
  | .nil, _ => rfl
  | .cons (.str k') _ rest, hm => by
    simp only [keyLtAll, Bool.and_eq_true] at hm
    simp only [mapFind, klt_ne hm.1, if_false]
    exact find_none_of_ltAll rest hm.2
  | .cons .nil _ _, hm | .cons (.bin _) _ _, hm | .cons (.bool _) _ _, hm | .cons (.err _) _ _, hm
  | .cons (.int _ _) _ _, hm | .cons (.uint _ _) _ _, hm | .cons (.f32 _) _ _, hm | .cons (.f64 _) _ _, hm
  | .cons (.slice _) _ _, hm | .cons (.map _) _ _, hm => by simp [keyLtAll] at hm


/-- a sorted list starts with a string key -/
theorem sorted_cons {k : Val} {v : Val} {rest : PList} (h : sortedP (.cons k v rest) = true) :
    ∃ k', k = .str k' ∧ keyLtAll k' rest = true ∧ sortedP rest = true := by
  cases k <;> simp [sortedP] at h
  exact ⟨_, rfl, h.1, h.2⟩

theorem ltAll_cons {a : Bytes} {k : Val} {v : Val} {rest : PList} (h : keyLtAll a (.cons k v rest) = true) :
    ∃ k', k = .str k' ∧ klt a k' = true ∧ keyLtAll a rest = true := by
  cases k <;> simp [keyLtAll] at h
  exact ⟨_, rfl, h.1, h.2⟩

/-- `Get` after `Set` -/
theorem find_set (k : Bytes) (v : Val) (k' : Bytes) : ∀ m : PList, sortedP m = true →
    mapFind (mapSet m k v) k' = if k' = k then some v else mapFind m k'
  | .nil, _ => by simp [mapSet, mapFind]
  | .cons k0 v0 rest, hs => by
    obtain ⟨k0', rfl, _, hr⟩ := sorted_cons hs
    simp only [mapSet]
    by_cases e : k = k0'
    · subst e; simp only [if_true, mapFind]; split <;> rfl
    · simp only [e, if_false]
      by_cases l : klt k k0' = true
      · simp only [l, if_true, mapFind]
      · have l' : klt k k0' = false := by simpa using l
        simp only [l', Bool.false_eq_true, if_false, mapFind]
        rw [find_set k v k' rest hr]
        by_cases e2 : k' = k0'
        · subst e2; simp [Ne.symm e]
        · simp [e2]

theorem ltAll_set {a k : Bytes} (v : Val) (hak : klt a k = true) : ∀ m : PList, keyLtAll a m = true →
    keyLtAll a (mapSet m k v) = true
  | .nil, _ => by simp [mapSet, keyLtAll, hak]
  | .cons k0 v0 rest, hm => by
    obtain ⟨k0', rfl, h1, h2⟩ := ltAll_cons hm
    simp only [mapSet]
    split
    · simp [keyLtAll, h1, h2]
    · split
      · simp [keyLtAll, hak, h1, h2]
      · simp [keyLtAll, h1, ltAll_set v hak rest h2]

theorem sorted_set (k : Bytes) (v : Val) : ∀ m : PList, sortedP m = true → sortedP (mapSet m k v) = true
  | .nil, _ => by simp [mapSet, sortedP, keyLtAll]
  | .cons k0 v0 rest, hs => by
    obtain ⟨k0', rfl, hl, hr⟩ := sorted_cons hs
    simp only [mapSet]
    by_cases e : k = k0'
    · subst e; simp [sortedP, hl, hr]
    · simp only [e, if_false]
      by_cases l : klt k k0' = true
      · simp only [l, if_true]
        simp [sortedP, keyLtAll, l, ltAll_trans l rest hl, hl, hr]
      · have lf : klt k k0' = false := by simpa using l
        simp only [lf, Bool.false_eq_true, if_false]
        have l' : klt k0' k = true := by
          cases h : klt k0' k with
          | true => rfl
          | false => exact absurd (klt_total lf h) e
        simp [sortedP, ltAll_set v l' rest hl, sorted_set k v rest hr]

theorem ltAll_del {a : Bytes} (k : Bytes) : ∀ m : PList, keyLtAll a m = true → keyLtAll a (mapDel m k) = true
  | .nil, _ => by simp [mapDel, keyLtAll]
  | .cons k0 v0 rest, hm => by
    obtain ⟨k0', rfl, h1, h2⟩ := ltAll_cons hm
    simp only [mapDel]
    split
    · exact h2
    · simp [keyLtAll, h1, ltAll_del k rest h2]

theorem sorted_del (k : Bytes) : ∀ m : PList, sortedP m = true → sortedP (mapDel m k) = true
  | .nil, _ => by simp [mapDel, sortedP]
  | .cons k0 v0 rest, hs => by
    obtain ⟨k0', rfl, hl, hr⟩ := sorted_cons hs
    simp only [mapDel]
    split
    · exact hr
    · simp [sortedP, ltAll_del k rest hl, sorted_del k rest hr]

/-- `Get` after `Delete` -/
theorem find_del (k k' : Bytes) : ∀ m : PList, sortedP m = true →
    mapFind (mapDel m k) k' = if k' = k then none else mapFind m k'
  | .nil, _ => by simp [mapDel, mapFind]
  | .cons k0 v0 rest, hs => by
    obtain ⟨k0', rfl, hl, hr⟩ := sorted_cons hs
    simp only [mapDel]
    by_cases e : k = k0'
    · subst e
      simp only [if_true, mapFind]
      by_cases e2 : k' = k
      · subst e2; simp [find_none_of_ltAll rest hl]
      · simp [e2]
    · simp only [e, if_false, mapFind]
      rw [find_del k k' rest hr]
      by_cases e2 : k' = k0'
      · subst e2; simp [Ne.symm e]
      · simp [e2]

/-- two sorted documents with the same entries are the same document -/
theorem sorted_ext : ∀ a b : PList, sortedP a = true → sortedP b = true →
    (∀ k, mapFind a k = mapFind b k) → a = b
  | .nil, .nil, _, _, _ => rfl
  | .nil, .cons kb vb rb, _, hb, h => by
    obtain ⟨kb', rfl, _, _⟩ := sorted_cons hb
    have := h kb'; simp [mapFind] at this
  | .cons ka va ra, .nil, ha, _, h => by
    obtain ⟨ka', rfl, _, _⟩ := sorted_cons ha
    have := h ka'; simp [mapFind] at this
  | .cons ka va ra, .cons kb vb rb, ha, hb, h => by
    obtain ⟨ka', rfl, hla, hra⟩ := sorted_cons ha
    obtain ⟨kb', rfl, hlb, hrb⟩ := sorted_cons hb
    have hk : ka' = kb' := by
      apply klt_total
      · cases l : klt ka' kb' with
        | false => rfl
        | true =>
          have h1 := h ka'
          have : keyLtAll ka' (.cons (.str kb') vb rb) = true := by simp [keyLtAll, l, ltAll_trans l rb hlb]
          rw [find_none_of_ltAll _ this] at h1
          simp [mapFind] at h1
      · cases l : klt kb' ka' with
        | false => rfl
        | true =>
          have h1 := h kb'
          have : keyLtAll kb' (.cons (.str ka') va ra) = true := by simp [keyLtAll, l, ltAll_trans l ra hla]
          rw [find_none_of_ltAll _ this] at h1
          simp [mapFind] at h1
    subst hk
    have hv : va = vb := by have := h ka'; simpa [mapFind] using this
    subst hv
    have : ra = rb := by
      apply sorted_ext ra rb hra hrb
      intro k
      by_cases e : k = ka'
      · subst e; rw [find_none_of_ltAll ra hla, find_none_of_ltAll rb hlb]
      · have := h k; simpa [mapFind, e] using this
    subst this; rfl


/-! ## What the encoders write -/

/-- the entry the map encoder leaves under key `k` (the last writer wins) -/
def lastKV (t : GoType) : GoKVs → Bytes → Option Val
  | .nil, _ => none
  | .cons k' v kvs, k => (lastKV t kvs k).or (if k = k' then some (encode t v) else none)

theorem encodeKV_spec (t : GoType) (k : Bytes) : ∀ (kvs : GoKVs) (acc : PList), sortedP acc = true →
    sortedP (encodeKV t kvs acc) = true ∧
    mapFind (encodeKV t kvs acc) k = (lastKV t kvs k).or (mapFind acc k)
  | .nil, acc, h => by simp [encodeKV, lastKV, h]
  | .cons k' v kvs, acc, h => by
    have ih := encodeKV_spec t k kvs (mapSet acc k' (encode t v)) (sorted_set _ _ acc h)
    simp only [encodeKV, lastKV]
    refine ⟨ih.1, ?_⟩
    rw [ih.2, find_set _ _ _ acc h]
    by_cases e : k = k' <;> simp [e, Option.or_assoc]

theorem lastKV_none_of_not_mem (t : GoType) (k : Bytes) : ∀ kvs : GoKVs, k ∉ keysOf kvs → lastKV t kvs k = none
  | .nil, _ => rfl
  | .cons k' v kvs, h => by
    simp only [keysOf, List.mem_cons, not_or] at h
    simp [lastKV, lastKV_none_of_not_mem t k kvs h.2, h.1]

/-- the entry the struct encoder leaves under key `k` -/
def lastF : Fields → GoVals → Bytes → Option Val
  | .cons .named a t rest, .cons v vs, k => (lastF rest vs k).or (if k = a then some (encode t v) else none)
  | .cons .omit a t rest, .cons v vs, k =>
    if equal (encode t v) (zeroDoc t) then lastF rest vs k else (lastF rest vs k).or (if k = a then some (encode t v) else none)
  | .cons .ignored _ _ rest, .cons _ vs, k => lastF rest vs k
  | .cons .inline _ (.struct fs') rest, .cons (.struct vs') vs, k => (lastF rest vs k).or (lastF fs' vs' k)
  | .cons .inline _ (.map t) rest, .cons (.map kvs) vs, k => (lastF rest vs k).or (lastKV t kvs k)
  | .cons .inline _ _ rest, .cons _ vs, k => lastF rest vs k
  | _, _, _ => none

theorem or_or_find (a b c : Option Val) : (a.or b).or c = a.or (b.or c) := Option.or_assoc

theorem encodeFields_spec (k : Bytes) : ∀ (fs : Fields) (vs : GoVals) (acc : PList), sortedP acc = true →
    sortedP (encodeFields fs vs acc) = true ∧
    mapFind (encodeFields fs vs acc) k = (lastF fs vs k).or (mapFind acc k)
  | .nil, vs, acc, h => by simp [encodeFields, lastF, h]
  | .cons m a t rest, .nil, acc, h => by cases m <;> simp [encodeFields, lastF, h]
  | .cons .named a t rest, .cons v vs, acc, h => by
    have ih := encodeFields_spec k rest vs (mapSet acc a (encode t v)) (sorted_set _ _ acc h)
    simp only [encodeFields, lastF]
    refine ⟨ih.1, ?_⟩
    rw [ih.2, find_set _ _ _ acc h]
    by_cases e : k = a <;> simp [e, Option.or_assoc]
  | .cons .omit a t rest, .cons v vs, acc, h => by
    simp only [encodeFields, lastF]
    by_cases z : equal (encode t v) (zeroDoc t) = true
    · simp only [z, if_true]; exact encodeFields_spec k rest vs acc h
    · have z' : equal (encode t v) (zeroDoc t) = false := by simpa using z
      simp only [z', Bool.false_eq_true, if_false]
      have ih := encodeFields_spec k rest vs (mapSet acc a (encode t v)) (sorted_set _ _ acc h)
      refine ⟨ih.1, ?_⟩
      rw [ih.2, find_set _ _ _ acc h]
      by_cases e : k = a <;> simp [e, Option.or_assoc]
  | .cons .ignored a t rest, .cons v vs, acc, h => by
    simp only [encodeFields, lastF]; exact encodeFields_spec k rest vs acc h
  | .cons .inline a t rest, .cons v vs, acc, h => by
    cases t with
    | struct fs' =>
      cases v with
      | struct vs' =>
        have i1 := encodeFields_spec k fs' vs' acc h
        have i2 := encodeFields_spec k rest vs _ i1.1
        simp only [encodeFields, lastF]
        refine ⟨i2.1, ?_⟩
        rw [i2.2, i1.2, Option.or_assoc]
      | _ => simp only [encodeFields, lastF]; exact encodeFields_spec k rest vs acc h
    | map t' =>
      cases v with
      | map kvs =>
        have i1 := encodeKV_spec t' k kvs acc h
        have i2 := encodeFields_spec k rest vs _ i1.1
        simp only [encodeFields, lastF]
        refine ⟨i2.1, ?_⟩
        rw [i2.2, i1.2, Option.or_assoc]
      | _ => simp only [encodeFields, lastF]; exact encodeFields_spec k rest vs acc h
    | _ => simp only [encodeFields, lastF]; exact encodeFields_spec k rest vs acc h


/-! ## The leaf decoders on the source kinds the encoders produce -/

open Uniflow.Group in
theorem wrapInt_id (w : Width) (v : Int) (h : inInt w v = true) : wrapInt w v = v := by
  simp only [inInt, Bool.and_eq_true] at h
  have h1 := of_decide_eq_true h.1
  have h2 := of_decide_eq_true h.2
  cases w <;> simp [Width.bits] at h1 h2 <;> simp [wrapInt, Width.bits] <;> omega

theorem dec_int (w : Width) (v : Int) (h : inInt w v = true) : decode (.int w) (.int w v) = .ok (.int v) := by
  simp [decode, runLeaves, leavesInt, Group.decode, Group.lookup, Group.loop, List.zipIdx, fromR, wrapInt_id w v h]

theorem dec_uint (w : Width) (v : Nat) (h : v < 2 ^ w.bits) : decode (.uint w) (.uint w v) = .ok (.uint v) := by
  have : wrapUint w v = v := by
    cases w <;> simp [Width.bits] at h <;> simp [wrapUint, Width.bits] <;> omega
  simp [decode, runLeaves, leavesUint, Group.decode, Group.lookup, Group.loop, List.zipIdx, fromR, this]

theorem dec_f32 (b : Nat) (h : quiet32 b = b) : decode .f32 (.f32 b) = .ok (.f32 b) := by
  simp [decode, runLeaves, leavesF32, Group.decode, Group.lookup, Group.loop, List.zipIdx, fromR, h]

theorem dec_f64 (b : Nat) : decode .f64 (.f64 b) = .ok (.f64 b) := by
  simp [decode, runLeaves, leavesF64, Group.decode, Group.lookup, Group.loop, List.zipIdx, fromR]

theorem dec_str (s : Bytes) : decode .str (.str s) = .ok (.str s) := by
  simp [decode, runLeaves, leavesStr, Group.decode, Group.lookup, Group.loop, List.zipIdx, fromR]

theorem dec_bool (b : Bool) : decode .bool (.bool b) = .ok (.bool b) := by
  simp [decode, runLeaves, leavesBool, Group.decode, Group.lookup, Group.loop, List.zipIdx, fromR]

theorem dec_bytes (bs : Bytes) : decode .bytes (.bin bs) = .ok (.bytes bs) := by
  simp [decode, runLeaves, leavesBytes, Group.decode, Group.lookup, Group.loop, List.zipIdx, fromR]

theorem dec_barr (n : Nat) (bs : Bytes) (h : bs.length = n) : decode (.barr n) (.bin bs) = .ok (.barr bs) := by
  have : ¬ bs.length < n := by omega
  simp [decode, runLeaves, leavesBarr, Group.decode, Group.lookup, Group.loop, List.zipIdx, fromR, this, ← h]

theorem dec_time (ms : Int) : decode .time (.int .w64 ms) = .ok (.time ms 0) := by
  simp [decode, runLeaves, leavesTime, Group.decode, Group.lookup, Group.loop, List.zipIdx, fromR]

theorem dec_dur (ms : Int) : decode .dur (.int .w64 ms) = .ok (.dur (durOfMs ms)) := by
  simp [decode, runLeaves, leavesDur, Group.decode, Group.lookup, Group.loop, List.zipIdx, fromR]

theorem durMs_mul (q : Int) : durMs (q * 1000000) = q := by
  unfold durMs; split <;> omega

theorem durMs_back (ns : Int) (h : inInt .w64 ns = true) : durMs (durOfMs (durMs ns)) = durMs ns := by
  have hh := h
  simp only [inInt, Bool.and_eq_true] at h
  have h1 := of_decide_eq_true h.1
  have h2 := of_decide_eq_true h.2
  simp [Width.bits] at h1 h2
  have hb : inInt .w64 (durMs ns * 1000000) = true := by
    have : -9223372036854775808 ≤ durMs ns * 1000000 ∧ durMs ns * 1000000 < 9223372036854775808 := by
      unfold durMs; split <;> omega
    simp [inInt, Width.bits, this.1, this.2]
  unfold durOfMs
  rw [wrapInt_id .w64 _ hb, durMs_mul]

theorem dec_any (x : Val) (h : ∀ m, x ≠ .err m) : decode .any x = .ok (generic x) := by
  cases x <;>
    simp [decode, runLeaves, leavesAny, Group.decode, Group.lookup, Group.loop, List.zipIdx, fromR, generic]
  all_goals exact absurd rfl (h _)


/-! ## uuid text -/

theorem nib_ok : ∀ n, n < 16 → unhexNib (hexNib n) = some n := by decide

theorem byte_ok (b : Nat) (h : b < 256) : unhexNib (hexNib (b / 16)) = some (b / 16) ∧ unhexNib (hexNib (b % 16)) = some (b % 16) :=
  ⟨nib_ok _ (by omega), nib_ok _ (by omega)⟩

theorem unhex_hex : ∀ bs : Bytes, bytesOk bs = true → unhexBytes (hexBytes bs) = some bs
  | [], _ => rfl
  | b :: bs, h => by
    simp only [bytesOk, List.all_cons, Bool.and_eq_true, decide_eq_true_eq] at h
    have := byte_ok b h.1
    have ih := unhex_hex bs (by simpa [bytesOk] using h.2)
    simp only [hexBytes, unhexBytes, this.1, this.2, ih]
    congr 2; omega

theorem hexBytes_length : ∀ bs : Bytes, (hexBytes bs).length = 2 * bs.length
  | [] => rfl
  | _ :: bs => by simp [hexBytes, hexBytes_length bs]; omega

theorem uuid_rt (bs : Bytes) (hl : bs.length = 16) (hb : bytesOk bs = true) : uuidParse (uuidText bs) = some bs := by
  match bs, hl with
  | [b0,b1,b2,b3,b4,b5,b6,b7,b8,b9,b10,b11,b12,b13,b14,b15], _ =>
    simp only [bytesOk, List.all_cons, List.all_nil, Bool.and_eq_true, decide_eq_true_eq, Bool.and_true] at hb
    obtain ⟨h0,h1,h2,h3,h4,h5,h6,h7,h8,h9,h10,h11,h12,h13,h14,h15⟩ := hb
    have e : ∀ b, b < 256 → b / 16 * 16 + b % 16 = b := by intro b _; omega
    simp [uuidText, uuidParse, hexBytes, unhexBytes, byte_ok, *]

theorem dec_uuid (bs : Bytes) (hl : bs.length = 16) (hb : bytesOk bs = true) :
    decode .uuid (.str (uuidText bs)) = .ok (.uuid bs) := by
  simp [decode, runLeaves, leavesUuid, Group.decode, Group.lookup, Group.loop, List.zipIdx, fromR, uuid_rt bs hl hb]

/-! ## The generic view re-encodes to the document -/

mutual
  /-- documents the generic view is claimed for: no error values; maps sorted with string keys -/
  def genDoc : Val → Bool
    | .err _ => false
    | .slice xs => genDocL xs
    | .map ps => sortedP ps && genDocP ps
    | _ => true
  def genDocL : VList → Bool
    | .nil => true
    | .cons x xs => genDoc x && genDocL xs
  def genDocP : PList → Bool
    | .nil => true
    | .cons _ v ps => genDoc v && genDocP ps
end

theorem kindTy_rank {x y : Val} {T : GoType} (hr : y.rank = x.rank) (hT : kindTy x = some T) : kindTy y = some T := by
  cases x <;> simp [kindTy] at hT <;> subst hT
  · obtain ⟨b, rfl⟩ := rank_bin (b := y) (by simpa [Val.rank] using hr); rfl
  · obtain ⟨b, rfl⟩ := rank_bool (b := y) (by simpa [Val.rank] using hr); rfl
  · obtain ⟨b, rfl⟩ := rank_int (b := y) (by simpa [Val.rank] using hr); rfl
  · obtain ⟨b, rfl⟩ := rank_uint (b := y) (by simpa [Val.rank] using hr); rfl
  · obtain ⟨b, rfl⟩ := rank_f32 (b := y) (by simpa [Val.rank] using hr); rfl
  · obtain ⟨b, rfl⟩ := rank_f64 (b := y) (by simpa [Val.rank] using hr); rfl
  · obtain ⟨b, rfl⟩ := rank_str (b := y) (by simpa [Val.rank] using hr); rfl

theorem enc_genV {x : Val} {T : GoType} (hT : kindTy x = some T) : encode T (genV x) = x := by
  cases x <;> simp [kindTy] at hT <;> subst hT <;> simp [genV, encode]

theorem enc_genRawL (T : GoType) (r : Nat) : ∀ xs : VList, allRank r xs = true →
    (∀ y : Val, y.rank = r → kindTy y = some T) → encodeL T (genRawL xs) = xs
  | .nil, _, _ => by simp [genRawL, encodeL]
  | .cons x xs, h, hk => by
    simp only [allRank, Bool.and_eq_true, beq_iff_eq] at h
    simp only [genRawL, encodeL, enc_genV (hk x h.1), enc_genRawL T r xs h.2 hk]

theorem elemTy_spec {xs : VList} {T : GoType} (h : elemTy xs = some T) :
    ∃ r, allRank r xs = true ∧ ∀ y : Val, y.rank = r → kindTy y = some T := by
  cases xs with
  | nil => simp [elemTy] at h
  | cons x xs =>
    simp only [elemTy] at h
    cases hk : kindTy x with
    | none => simp [hk] at h
    | some t =>
      rw [hk] at h
      have key : (if allRank x.rank xs = true then some t else none) = some T ∨ True := Or.inr trivial
      by_cases ha : allRank x.rank xs = true
      · have hT : t = T := by
          cases t <;> simp_all
          all_goals (rename_i w; cases w <;> simp_all)
        subst hT
        exact ⟨x.rank, by simp [allRank, ha], fun y hy => kindTy_rank hy hk⟩
      · cases t <;> simp_all
        all_goals (rename_i w; cases w <;> simp_all)

theorem valTy_spec {k v : Val} {ps : PList} {T : GoType} (h : valTy (.cons k v ps) = some T) :
    kindTy v = some T ∧ allRankP v.rank ps = true := by
  simp only [valTy] at h
  cases hk : kindTy v with
  | none => simp [hk] at h
  | some t =>
    rw [hk] at h
    by_cases ha : allRankP v.rank ps = true
    · simp [ha] at h; exact ⟨by rw [h], ha⟩
    · simp [ha] at h


theorem rank_of_find {r : Nat} : ∀ {ps : PList} {k : Bytes} {v : Val}, allRankP r ps = true → mapFind ps k = some v → v.rank = r
  | .nil, _, _, _, hf => by simp [mapFind] at hf
  | .cons k0 v0 rest, k, v, ha, hf => by
    simp only [allRankP, Bool.and_eq_true, beq_iff_eq] at ha
    cases k0 <;> simp only [mapFind] at hf
    case str k0' =>
      by_cases e : k = k0'
      · simp [e] at hf; subst hf; exact ha.1
      · simp [e] at hf; exact rank_of_find ha.2 hf
    all_goals exact rank_of_find ha.2 hf

theorem keysOf_genRawP : ∀ ps : PList, keysOf (genRawP ps) = keysOf (genAnyP ps)
  | .nil => rfl
  | .cons k v ps => by simp [genRawP, genAnyP, keysOf, keysOf_genRawP ps]

/-- rebuilding a sorted document from its pairs gives the document back -/
theorem lastKV_rebuild (T : GoType) (g : Val → GoVal) (mk : PList → GoKVs)
    (hmk : ∀ k v ps, mk (.cons k v ps) = .cons (keyBytes k) (g v) (mk ps)) (hnil : mk .nil = .nil) :
    ∀ ps : PList, sortedP ps = true → (∀ k v, mapFind ps k = some v → encode T (g v) = v) →
      ∀ k, lastKV T (mk ps) k = mapFind ps k
  | .nil, _, _, k => by simp [hnil, lastKV, mapFind]
  | .cons k0 v0 rest, hs, hv, k => by
    obtain ⟨k0', rfl, hl, hr⟩ := sorted_cons hs
    have hv0 : encode T (g v0) = v0 := hv k0' v0 (by simp [mapFind])
    have hrest : ∀ k v, mapFind rest k = some v → encode T (g v) = v := by
      intro k v hf
      apply hv k v
      have : k ≠ k0' := by
        intro e; subst e; rw [find_none_of_ltAll rest hl] at hf; cases hf
      simp [mapFind, this, hf]
    have ih := lastKV_rebuild T g mk hmk hnil rest hr hrest k
    rw [hmk]
    simp only [lastKV, keyBytes, mapFind, ih, hv0]
    by_cases e : k = k0'
    · subst e; simp [find_none_of_ltAll rest hl]
    · simp [e]

theorem rebuild_eq (T : GoType) (kvs : GoKVs) (ps : PList) (hs : sortedP ps = true)
    (h : ∀ k, lastKV T kvs k = mapFind ps k) : encodeKV T kvs .nil = ps := by
  have sp := fun k => encodeKV_spec T k kvs .nil (by rfl)
  apply sorted_ext _ _ (sp []).1 hs
  intro k
  rw [(sp k).2, h k]; simp [mapFind]

mutual
  theorem enc_generic : (x : Val) → genDoc x = true → encode .any (generic x) = x
    | .nil, _ => by simp [generic, encode]
    | .bin _, _ => by simp [generic, encode]
    | .bool _, _ => by simp [generic, encode]
    | .err _, h => by simp [genDoc] at h
    | .int _ _, _ => by simp [generic, encode]
    | .uint _ _, _ => by simp [generic, encode]
    | .f32 _, _ => by simp [generic, encode]
    | .f64 _, _ => by simp [generic, encode]
    | .str _, _ => by simp [generic, encode]
    | .slice xs, h => by
      simp only [genDoc] at h
      simp only [generic]
      cases he : elemTy xs with
      | some T =>
        obtain ⟨r, hr, hk⟩ := elemTy_spec he
        simp [encode, enc_genRawL T r xs hr hk]
      | none => simp [encode, enc_genAnyL xs h]
    | .map ps, h => by
      simp only [genDoc, Bool.and_eq_true] at h
      simp only [generic]
      cases hv : valTy ps with
      | some T =>
        cases ps with
        | nil => simp [valTy] at hv
        | cons k0 v0 rest =>
          obtain ⟨hk0, hall⟩ := valTy_spec hv
          have hall' : allRankP v0.rank (.cons k0 v0 rest) = true := by simp [allRankP, hall]
          simp only [encode]
          congr 1
          apply rebuild_eq T _ _ h.1
          apply lastKV_rebuild T genV genRawP (by intros; rfl) rfl _ h.1
          intro k v hf
          exact enc_genV (kindTy_rank (rank_of_find hall' hf) hk0)
      | none =>
        simp only [encode]
        congr 1
        apply rebuild_eq .any _ _ h.1
        apply lastKV_rebuild .any generic genAnyP (by intros; rfl) rfl _ h.1
        exact enc_genAnyP ps h.2
  theorem enc_genAnyL : (xs : VList) → genDocL xs = true → encodeL .any (genAnyL xs) = xs
    | .nil, _ => by simp [genAnyL, encodeL]
    | .cons x xs, h => by
      simp only [genDocL, Bool.and_eq_true] at h
      simp only [genAnyL, encodeL, enc_generic x h.1, enc_genAnyL xs h.2]
  theorem enc_genAnyP : (ps : PList) → genDocP ps = true → ∀ k v, mapFind ps k = some v → encode .any (generic v) = v
    | .nil, _, k, v, hf => by simp [mapFind] at hf
    | .cons k0 v0 rest, h, k, v, hf => by
      simp only [genDocP, Bool.and_eq_true] at h
      cases k0 <;> simp only [mapFind] at hf
      case str k0' =>
        by_cases e : k = k0'
        · simp [e] at hf; subst hf; exact enc_generic v0 h.1
        · simp [e] at hf; exact enc_genAnyP rest h.2 k v hf
      all_goals exact enc_genAnyP rest h.2 k v hf
end


/-! ## Every encoding is a document of the generic view's domain -/

theorem genDocP_set (k : Bytes) (x : Val) (hx : genDoc x = true) : ∀ m : PList, genDocP m = true → genDocP (mapSet m k x) = true
  | .nil, _ => by simp [mapSet, genDocP, hx]
  | .cons k0 v0 rest, h => by
    simp only [genDocP, Bool.and_eq_true] at h
    cases k0 <;> simp only [mapSet]
    case str k0' =>
      split
      · simp [genDocP, hx, h.2]
      · split
        · simp [genDocP, hx, h.1, h.2]
        · simp [genDocP, h.1, genDocP_set k x hx rest h.2]
    all_goals simp [genDocP, h.1, genDocP_set k x hx rest h.2]

mutual
  theorem gen_enc : (v : GoVal) → ∀ t : GoType, genDoc (encode t v) = true
    | .int _, t | .uint _, t | .f32 _, t | .f64 _, t | .str _, t | .bool _, t | .bytesNil, t | .bytes _, t
    | .barr _, t | .time _ _, t | .dur _, t | .uuid _, t | .ptrNil, t | .sliceNil, t | .mapNil, t | .anyNil, t => by
      cases t <;> simp [encode, genDoc, genDocL, genDocP, sortedP]
    | .ptr v, t => by
      cases t <;> simp [encode, genDoc]
      exact gen_enc v _
    | .any t' v, t => by
      cases t <;> simp [encode, genDoc]
      exact gen_enc v _
    | .slice xs, t => by
      cases t <;> simp [encode, genDoc]
      exact gen_encL xs _
    | .arr xs, t => by
      cases t <;> simp [encode, genDoc]
      exact gen_encL xs _
    | .map kvs, t => by
      cases t <;> simp [encode, genDoc]
      rename_i t'
      exact ⟨(encodeKV_spec t' [] kvs .nil rfl).1, gen_encKV kvs t' .nil rfl⟩
    | .struct vs, t => by
      cases t <;> simp [encode, genDoc]
      rename_i fs
      exact ⟨(encodeFields_spec [] fs vs .nil rfl).1, gen_encF vs fs .nil rfl⟩
  theorem gen_encL : (xs : GoVals) → ∀ t : GoType, genDocL (encodeL t xs) = true
    | .nil, _ => by simp [encodeL, genDocL]
    | .cons v vs, t => by simp [encodeL, genDocL, gen_enc v t, gen_encL vs t]
  theorem gen_encKV : (kvs : GoKVs) → ∀ (t : GoType) (acc : PList), genDocP acc = true → genDocP (encodeKV t kvs acc) = true
    | .nil, _, _, h => by simpa [encodeKV] using h
    | .cons k v kvs, t, acc, h => by
      simp only [encodeKV]
      exact gen_encKV kvs t _ (genDocP_set k _ (gen_enc v t) acc h)
  theorem gen_encF : (vs : GoVals) → ∀ (fs : Fields) (acc : PList), genDocP acc = true → genDocP (encodeFields fs vs acc) = true
    | .nil, fs, acc, h => by cases fs <;> simpa [encodeFields] using h
    | .cons v vs, .nil, acc, h => by simpa [encodeFields] using h
    | .cons v vs, .cons .named a t rest, acc, h => by
      simp only [encodeFields]; exact gen_encF vs rest _ (genDocP_set a _ (gen_enc v t) acc h)
    | .cons v vs, .cons .omit a t rest, acc, h => by
      simp only [encodeFields]
      split
      · exact gen_encF vs rest _ h
      · exact gen_encF vs rest _ (genDocP_set a _ (gen_enc v t) acc h)
    | .cons v vs, .cons .ignored a t rest, acc, h => by
      simp only [encodeFields]; exact gen_encF vs rest _ h
    | .cons (.struct vs') vs, .cons .inline a (.struct fs') rest, acc, h => by
      simp only [encodeFields]; exact gen_encF vs rest _ (gen_encF vs' fs' acc h)
    | .cons (.map kvs) vs, .cons .inline a (.map t') rest, acc, h => by
      simp only [encodeFields]; exact gen_encF vs rest _ (gen_encKV kvs t' acc h)
    | .cons v vs, .cons .inline a t rest, acc, h => by
      cases t <;> cases v <;> simp only [encodeFields] <;>
        first
        | exact gen_encF vs rest _ h
        | exact gen_encF vs rest _ (gen_encF _ _ acc h)
        | exact gen_encF vs rest _ (gen_encKV _ _ acc h)
end


/-! ## Round trip -/

/-- decoding a sorted document pair by pair -/
theorem decodeP_sorted (t : GoType) : ∀ ps : PList, sortedP ps = true →
    (∀ k x, mapFind ps k = some x → ∃ v', decode t x = .ok v' ∧ encode t v' = x) →
    ∃ kvs', decodeP (decode t) ps = .ok kvs' ∧ ∀ k, lastKV t kvs' k = mapFind ps k
  | .nil, _, _ => ⟨.nil, by simp [decodeP], by simp [lastKV, mapFind]⟩
  | .cons k0 x0 rest, hs, hv => by
    obtain ⟨k0', rfl, hl, hr⟩ := sorted_cons hs
    obtain ⟨v0, hd0, he0⟩ := hv k0' x0 (by simp [mapFind])
    have hrest : ∀ k x, mapFind rest k = some x → ∃ v', decode t x = .ok v' ∧ encode t v' = x := by
      intro k x hf
      apply hv k x
      have : k ≠ k0' := by intro e; subst e; rw [find_none_of_ltAll rest hl] at hf; cases hf
      simp [mapFind, this, hf]
    obtain ⟨kvs, hd, hk⟩ := decodeP_sorted t rest hr hrest
    refine ⟨.cons k0' v0 kvs, by simp [decodeP, hd0, hd, Res.bind, Res.map], ?_⟩
    intro k
    simp only [lastKV, mapFind, hk k, he0]
    by_cases e : k = k0'
    · subst e; simp [find_none_of_ltAll rest hl]
    · simp [e]

theorem encodeL_length (t : GoType) : ∀ xs : GoVals, (encodeL t xs).length = xs.length
  | .nil => rfl
  | .cons _ xs => by simp [encodeL, VList.length, GoVals.length, encodeL_length t xs]

theorem padTo_full (z : GoVal) : ∀ (n : Nat) (vs : GoVals), vs.length = n → padTo n z vs = vs
  | n, .nil, h => by simp [GoVals.length] at h; subst h; simp [padTo, GoVals.replicate]
  | n, .cons v vs, h => by
    simp only [GoVals.length] at h
    simp only [padTo]; rw [padTo_full z (n - 1) vs (by omega)]

mutual
  def noStruct : GoType → Bool
    | .ptr t => noStruct t | .slice t => noStruct t | .arr _ t => noStruct t | .map t => noStruct t
    | .struct _ => false
    | _ => true
end

def RTx (t : GoType) (x : Val) : Prop := ∃ v', decode t x = .ok v' ∧ encode t v' = x


end Uniflow.Codec
