/-
The JSON path: decoding the JSON form of an encoding (Props/C16.lean: roundtrip_json_*). Core Lean only.
-/
import Uniflow.Proofs.CodecCanon
import Uniflow.Proofs.CodecNum
import Uniflow.Model.CodecJSON

namespace Uniflow.Codec
open Uniflow.Value

def in53 (v : Int) : Bool := decide (-9007199254740992 ≤ v) && decide (v ≤ 9007199254740992)

mutual
  /-- the guards of the JSON statement, on a value: integers (and millisecond counts) within ±2^53, finite float64,
  no float32 (its JSON text is not modelled), valid UTF-8 in strings, map keys and struct aliases -/
  def jsonOK : GoType → GoVal → Bool
    | .int _, .int v => in53 v
    | .uint _, .uint v => decide (v ≤ 9007199254740992)
    | .f32, _ => false
    | .f64, .f64 b => finite64 b
    | .str, .str s => validUTF8 s
    | .time, .time ms _ => in53 ms
    | .dur, .dur ns => in53 (durMs ns)
    | .ptr t, .ptr v => jsonOK t v
    | .slice t, .slice xs => jsonOKL t xs
    | .arr _ t, .arr xs => jsonOKL t xs
    | .map t, .map kvs => jsonOKKV t kvs
    | .struct fs, .struct vs => jsonOKF fs vs
    | .any, .any t v => jsonOK t v
    | _, _ => true
  def jsonOKL (t : GoType) : GoVals → Bool
    | .nil => true
    | .cons v vs => jsonOK t v && jsonOKL t vs
  def jsonOKKV (t : GoType) : GoKVs → Bool
    | .nil => true
    | .cons k v kvs => validUTF8 k && jsonOK t v && jsonOKKV t kvs
  def jsonOKF : Fields → GoVals → Bool
    | .cons .ignored _ _ rest, .cons _ vs => jsonOKF rest vs
    | .cons .inline _ t rest, .cons v vs => jsonOK t v && jsonOKF rest vs
    | .cons _ a t rest, .cons v vs => validUTF8 a && jsonOK t v && jsonOKF rest vs
    | _, _ => true
end

/-! ## leaves on JSON documents -/

theorem in53_iff {v : Int} : in53 v = true ↔ (-9007199254740992 ≤ v ∧ v ≤ 9007199254740992) := by
  simp [in53]

theorem inInt64_of_53 {v : Int} (h : in53 v = true) : inInt64 v = true := by
  have := in53_iff.mp h
  simp [inInt64]; omega

theorem dj_int (w : Width) (v : Int) (h : inInt w v = true) (g : in53 v = true) :
    ∃ b, jsonForm (.int w v) = some (.f64 b) ∧ decode (.int w) (.f64 b) = .ok (.int v) := by
  obtain ⟨b, hb, hi, _⟩ := f64_int_rt v (in53_iff.mp g).1 (in53_iff.mp g).2
  refine ⟨b, by simp [jsonForm, hb], ?_⟩
  simp [decode, runLeaves, leavesInt, Uniflow.Group.decode, Uniflow.Group.lookup, Uniflow.Group.loop, List.zipIdx,
    fromR, hi, inInt64_of_53 g, wrapInt_id w v h]

theorem dj_uint (w : Width) (v : Nat) (h : v < 2 ^ w.bits) (g : v ≤ 9007199254740992) :
    ∃ b, jsonForm (.uint w v) = some (.f64 b) ∧ decode (.uint w) (.f64 b) = .ok (.uint v) := by
  obtain ⟨b, hb, hm, hs, _⟩ := f64_nat_rt v g
  have hi : intOfF64 b = some (v : Int) := by
    have : b / 9223372036854775808 % 2 = 0 := by omega
    simp [intOfF64, hm, this]
  have hw : wrapUint w (v : Int) = v := by
    cases w <;> simp [Width.bits] at h <;> simp [wrapUint, Width.bits] <;> omega
  have h64 : inInt64 (v : Int) = true := by simp [inInt64]; omega
  refine ⟨b, by simp [jsonForm, hb], ?_⟩
  simp [decode, runLeaves, leavesUint, Uniflow.Group.decode, Uniflow.Group.lookup, Uniflow.Group.loop, List.zipIdx,
    fromR, hi, h64, hw]

theorem dj_time (ms : Int) (g : in53 ms = true) :
    ∃ b, jsonForm (.int .w64 ms) = some (.f64 b) ∧ decode .time (.f64 b) = .ok (.time ms 0) := by
  obtain ⟨b, hb, hi, _⟩ := f64_int_rt ms (in53_iff.mp g).1 (in53_iff.mp g).2
  refine ⟨b, by simp [jsonForm, hb], ?_⟩
  simp [decode, runLeaves, leavesTime, Uniflow.Group.decode, Uniflow.Group.lookup, Uniflow.Group.loop, List.zipIdx,
    fromR, hi, inInt64_of_53 g]

theorem dj_dur (ms : Int) (g : in53 ms = true) :
    ∃ b, jsonForm (.int .w64 ms) = some (.f64 b) ∧ decode .dur (.f64 b) = .ok (.dur (durOfMs ms)) := by
  obtain ⟨b, hb, hi, _⟩ := f64_int_rt ms (in53_iff.mp g).1 (in53_iff.mp g).2
  refine ⟨b, by simp [jsonForm, hb], ?_⟩
  simp [decode, runLeaves, leavesDur, Uniflow.Group.decode, Uniflow.Group.lookup, Uniflow.Group.loop, List.zipIdx,
    fromR, hi, inInt64_of_53 g]

theorem bytesOk_lt {bs : Bytes} (h : bytesOk bs = true) : ∀ b ∈ bs, b < 256 := by
  intro b hb; simp [bytesOk] at h; exact h b hb

theorem dj_bytes (bs : Bytes) (h : bytesOk bs = true) :
    jsonForm (.bin bs) = some (.str (b64enc bs)) ∧ decode .bytes (.str (b64enc bs)) = .ok (.bytes bs) := by
  refine ⟨by simp [jsonForm], ?_⟩
  simp [decode, runLeaves, leavesBytes, Uniflow.Group.decode, Uniflow.Group.lookup, Uniflow.Group.loop, List.zipIdx,
    fromR, b64_rt bs (bytesOk_lt h)]

theorem dj_barr (n : Nat) (bs : Bytes) (hl : bs.length = n) (h : bytesOk bs = true) :
    decode (.barr n) (.str (b64enc bs)) = .ok (.barr bs) := by
  have : (bs ++ List.replicate n 0).take n = bs := by
    rw [← hl, List.take_left']; rfl
  simp [decode, runLeaves, leavesBarr, Uniflow.Group.decode, Uniflow.Group.lookup, Uniflow.Group.loop, List.zipIdx,
    fromR, b64_rt bs (bytesOk_lt h), this]

def AllLt (l : Bytes) : Prop := ∀ c ∈ l, c < 128

theorem allLt_append {a b : Bytes} (ha : AllLt a) (hb : AllLt b) : AllLt (a ++ b) := by
  intro c hc; rcases List.mem_append.mp hc with h | h
  · exact ha c h
  · exact hb c h

theorem allLt_cons {x : Nat} {l : Bytes} (hx : x < 128) (hl : AllLt l) : AllLt (x :: l) := by
  intro c hc; rcases List.mem_cons.mp hc with h | h
  · omega
  · exact hl c h

theorem hexBytes_ascii : ∀ bs : Bytes, (∀ b ∈ bs, b < 256) → AllLt (hexBytes bs)
  | [], _ => by intro c hc; simp [hexBytes] at hc
  | b :: bs, h => by
    have hb : b < 256 := h b (by simp)
    simp only [hexBytes]
    refine allLt_cons ?_ (allLt_cons ?_ (hexBytes_ascii bs (fun x hx => h x (by simp [hx]))))
    · unfold hexNib; split <;> omega
    · unfold hexNib; split <;> omega

theorem uuidText_valid (bs : Bytes) (h : bytesOk bs = true) : validUTF8 (uuidText bs) = true := by
  apply validUTF8_ascii
  have hb := bytesOk_lt h
  have t := fun n => hexBytes_ascii (bs.take n) (fun x hx => hb x (List.mem_of_mem_take hx))
  have d := fun n => hexBytes_ascii (bs.drop n) (fun x hx => hb x (List.mem_of_mem_drop hx))
  have td := fun n m => hexBytes_ascii ((bs.drop n).take m)
    (fun x hx => hb x (List.mem_of_mem_drop (List.mem_of_mem_take hx)))
  exact allLt_append (allLt_append (allLt_append (allLt_append (t 4) (allLt_cons (by omega) (td 4 2)))
    (allLt_cons (by omega) (td 6 2))) (allLt_cons (by omega) (td 8 2))) (allLt_cons (by omega) (d 10))


/-! ## the JSON form of documents -/

theorem jsonForm_nil {x : Val} (h : jsonForm x = some .nil) : x = .nil := by
  cases x <;> simp [jsonForm] at h <;> try rfl
  all_goals (first | (split at h <;> simp at h) | skip)

theorem jsonFormL_length : ∀ (xs js : VList), jsonFormL xs = some js → js.length = xs.length
  | .nil, js, h => by simp [jsonFormL] at h; subst h; rfl
  | .cons x xs, js, h => by
    simp only [jsonFormL] at h
    cases hx : jsonForm x <;> cases hxs : jsonFormL xs <;> simp [hx, hxs] at h
    subst h; simp [VList.length, jsonFormL_length xs _ hxs]

theorem jsonFormP_set (k : Bytes) (x y : Val) (hk : validUTF8 k = true) (hx : jsonForm x = some y) :
    ∀ (m q : PList), jsonFormP m = some q → jsonFormP (mapSet m k x) = some (mapSet q k y)
  | .nil, q, h => by
    simp [jsonFormP] at h; subst h
    simp [mapSet, jsonFormP, hk, hx]
  | .cons k0 v0 rest, q, h => by
    cases k0 <;> simp only [jsonFormP] at h <;> try (cases h; done)
    rename_i k0'
    by_cases hv : validUTF8 k0' = true
    · simp only [hv, if_true] at h
      cases h0 : jsonForm v0 <;> cases hr : jsonFormP rest <;> simp [h0, hr] at h
      rename_i y0 qr
      subst h
      simp only [mapSet]
      by_cases e : k = k0'
      · simp [e, jsonFormP, hv, hx, hr]
      · simp only [e, if_false]
        by_cases l : klt k k0' = true
        · simp [l, jsonFormP, hk, hx, hv, h0, hr]
        · have l' : klt k k0' = false := by simpa using l
          simp [l', jsonFormP, hv, h0, jsonFormP_set k x y hk hx rest qr hr]
    · simp [hv] at h

/-! ## closed types without a struct in a statically typed position, through JSON -/

mutual
  theorem cj : (v : GoVal) → ∀ t : GoType, closed t = true → noStruct t = true → t.wf = true → hasType t v = true →
      jsonOK t v = true → ∃ j, jsonForm (encode t v) = some j ∧ decode t j = .ok (canon t v)
    | .int v, t, _, _, _, h, g => by
      cases t <;> simp [hasType] at h
      simp only [jsonOK] at g
      obtain ⟨b, hj, hd⟩ := dj_int _ v h g
      exact ⟨_, by simpa [encode] using hj, by simpa [canon] using hd⟩
    | .uint v, t, _, _, _, h, g => by
      cases t <;> simp [hasType] at h
      simp only [jsonOK, decide_eq_true_eq] at g
      obtain ⟨b, hj, hd⟩ := dj_uint _ v h g
      exact ⟨_, by simpa [encode] using hj, by simpa [canon] using hd⟩
    | .f32 b, t, _, _, _, h, g => by
      cases t <;> simp [hasType] at h
      simp [jsonOK] at g
    | .f64 b, t, _, _, _, h, g => by
      cases t <;> simp [hasType] at h
      simp only [jsonOK] at g
      exact ⟨.f64 b, by simp [encode, jsonForm, g], by simp [canon, dec_f64]⟩
    | .str s, t, _, _, _, h, g => by
      cases t <;> simp [hasType] at h
      simp only [jsonOK] at g
      exact ⟨.str s, by simp [encode, jsonForm, g], by simp [canon, dec_str]⟩
    | .bool b, t, _, _, _, h, _ => by
      cases t <;> simp [hasType] at h
      exact ⟨.bool b, by simp [encode, jsonForm], by simp [canon, dec_bool]⟩
    | .bytesNil, t, _, _, _, h, _ => by
      cases t <;> simp [hasType] at h
      have := dj_bytes [] (by simp [bytesOk])
      exact ⟨_, by simpa [encode] using this.1, by simpa [canon] using this.2⟩
    | .bytes bs, t, _, _, _, h, _ => by
      cases t <;> simp [hasType] at h
      have := dj_bytes bs h
      exact ⟨_, by simpa [encode] using this.1, by simpa [canon] using this.2⟩
    | .barr bs, t, _, _, _, h, _ => by
      cases t <;> simp [hasType] at h
      exact ⟨.str (b64enc bs), by simp [encode, jsonForm], by simpa [canon] using dj_barr _ bs h.1 h.2⟩
    | .time ms lost, t, _, _, _, h, g => by
      cases t <;> simp [hasType] at h
      simp only [jsonOK] at g
      obtain ⟨b, hj, hd⟩ := dj_time ms g
      exact ⟨_, by simpa [encode] using hj, by simpa [canon] using hd⟩
    | .dur ns, t, _, _, _, h, g => by
      cases t <;> simp [hasType] at h
      simp only [jsonOK] at g
      obtain ⟨b, hj, hd⟩ := dj_dur (durMs ns) g
      exact ⟨_, by simpa [encode] using hj, by simpa [canon] using hd⟩
    | .uuid bs, t, _, _, _, h, _ => by
      cases t <;> simp [hasType] at h
      exact ⟨.str (uuidText bs), by simp [encode, jsonForm, uuidText_valid bs h.2], by simp [canon, dec_uuid _ h.1 h.2]⟩
    | .ptrNil, t, _, _, _, h, _ => by
      cases t <;> simp [hasType] at h
      exact ⟨.nil, by simp [encode, jsonForm], by simp [canon, decode]⟩
    | .ptr v, t, hc, hs, hn, h, g => by
      cases t <;> simp [hasType] at h
      rename_i t'
      simp only [closed] at hc
      simp only [noStruct] at hs
      simp only [GoType.wf, Bool.and_eq_true] at hn
      simp only [jsonOK] at g
      obtain ⟨j, hj, hd⟩ := cj v t' hc hs hn.2 h g
      refine ⟨j, by simpa [encode] using hj, ?_⟩
      simp only [canon]
      by_cases hx : encode t' v = .nil
      · rw [hx] at hj; simp [jsonForm] at hj; subst hj
        simp [decode, hx, isNilDoc]
      · have hjn : j ≠ .nil := by
          intro e; subst e; exact hx (jsonForm_nil hj)
        have hin : isNilDoc (encode t' v) = false := by
          cases hh : isNilDoc (encode t' v) with
          | false => rfl
          | true => exact absurd (isNilDoc_iff.mp hh) hx
        cases j <;> first | exact absurd rfl hjn | simp [decode, hd, Res.map, hin]
    | .sliceNil, t, _, _, _, h, _ => by
      cases t <;> simp [hasType] at h
      exact ⟨.slice .nil, by simp [encode, jsonForm, jsonFormL], by simp [canon, decode, decodeL, Res.map]⟩
    | .slice xs, t, hc, hs, hn, h, g => by
      cases t <;> simp [hasType] at h
      rename_i t'
      simp only [closed] at hc
      simp only [noStruct] at hs
      simp only [GoType.wf, Bool.and_eq_true] at hn
      simp only [jsonOK] at g
      obtain ⟨js, hj, hd⟩ := cjL xs t' hc hs hn.2 h g
      exact ⟨.slice js, by simp [encode, jsonForm, hj], by simp [canon, decode, hd, Res.map]⟩
    | .arr xs, t, hc, hs, hn, h, g => by
      cases t <;> simp [hasType] at h
      rename_i n t'
      simp only [closed] at hc
      simp only [noStruct] at hs
      simp only [GoType.wf, Bool.and_eq_true] at hn
      simp only [jsonOK] at g
      obtain ⟨js, hj, hd⟩ := cjL xs t' hc hs hn.2 h.2 g
      have hlen : ¬ js.length > n := by rw [jsonFormL_length _ _ hj, encodeL_length]; omega
      exact ⟨.slice js, by simp [encode, jsonForm, hj],
        by simp [canon, decode, hlen, hd, Res.map, padTo_full _ n (canonL t' xs) (by rw [canonL_length]; omega)]⟩
    | .mapNil, t, _, _, _, h, _ => by
      cases t <;> simp [hasType] at h
      exact ⟨.map .nil, by simp [encode, jsonForm, jsonFormP], by simp [canon, decode, decodeP, Res.map]⟩
    | .map kvs, t, hc, hs, hn, h, g => by
      cases t <;> simp [hasType] at h
      rename_i t'
      simp only [closed] at hc
      simp only [noStruct] at hs
      simp only [GoType.wf] at hn
      simp only [jsonOK] at g
      obtain ⟨qs, hj, hd⟩ := cjKV kvs t' hc hs hn h.1 g .nil .nil .nil (by simp [jsonFormP]) (by simp [decodeP])
      exact ⟨.map qs, by simp [encode, jsonForm, hj], by simp [canon, decode, hd, Res.map]⟩
    | .struct vs, t, _, hs, _, h, _ => by
      cases t <;> simp [hasType] at h
      simp [noStruct] at hs
    | .anyNil, t, hc, _, _, h, _ => by
      cases t <;> simp [hasType] at h; simp [closed] at hc
    | .any t' v, t, hc, _, _, h, _ => by
      cases t <;> simp [hasType] at h; simp [closed] at hc
  theorem cjL : (xs : GoVals) → ∀ t : GoType, closed t = true → noStruct t = true → t.wf = true →
      hasTypeL t xs = true → jsonOKL t xs = true →
      ∃ js, jsonFormL (encodeL t xs) = some js ∧ decodeL (decode t) js = .ok (canonL t xs)
    | .nil, _, _, _, _, _, _ => ⟨.nil, by simp [encodeL, jsonFormL], by simp [decodeL, canonL]⟩
    | .cons v vs, t, hc, hs, hn, h, g => by
      simp only [hasTypeL, Bool.and_eq_true] at h
      simp only [jsonOKL, Bool.and_eq_true] at g
      obtain ⟨j, hj, hd⟩ := cj v t hc hs hn h.1 g.1
      obtain ⟨js, hjs, hds⟩ := cjL vs t hc hs hn h.2 g.2
      exact ⟨.cons j js, by simp [encodeL, jsonFormL, hj, hjs], by simp [decodeL, canonL, hd, hds, Res.bind, Res.map]⟩
  theorem cjKV : (kvs : GoKVs) → ∀ t : GoType, closed t = true → noStruct t = true → t.wf = true →
      hasTypeKV t kvs = true → jsonOKKV t kvs = true →
      ∀ (acc qacc : PList) (akv : GoKVs), jsonFormP acc = some qacc → decodeP (decode t) qacc = .ok akv →
      ∃ qs, jsonFormP (encodeKV t kvs acc) = some qs ∧ decodeP (decode t) qs = .ok (canonKV t kvs akv)
    | .nil, _, _, _, _, _, _, acc, qacc, akv, hq, hd => ⟨qacc, by simpa [encodeKV] using hq, by simpa [canonKV] using hd⟩
    | .cons k v kvs, t, hc, hs, hn, h, g, acc, qacc, akv, hq, hd => by
      simp only [hasTypeKV, Bool.and_eq_true] at h
      simp only [jsonOKKV, Bool.and_eq_true] at g
      obtain ⟨j, hj, hdj⟩ := cj v t hc hs hn h.1.2 g.1.2
      simp only [encodeKV, canonKV]
      exact cjKV kvs t hc hs hn h.2 g.2 _ _ _ (jsonFormP_set k _ j g.1.1 hj acc qacc hq)
        (decodeP_set (decode t) k j _ hdj qacc akv hd)
end

end Uniflow.Codec
