/-
Helper lemmas for C02: association lists, the tracer's `resolve` on a derivation chain of depth 1,
and the simulation relation between `Uniflow.Node` (one-to-one) and `Uniflow.NodeSpec`.
-/
import Uniflow.Model.Node
import Uniflow.Spec.Node

namespace Uniflow.Tracer

variable {β : Type}

@[simp] theorem aget_nil (k : Nat) : aget ([] : List (Nat × β)) k = none := rfl

theorem aget_aset (m : List (Nat × β)) (k k' : Nat) (v : β) :
    aget (aset m k v) k' = if k' = k then some v else aget m k' := by
  induction m with
  | nil => simp [aset, aget]
  | cons e m ih =>
    obtain ⟨k0, v0⟩ := e
    by_cases h : k = k0
    · subst h; simp [aset, aget]; split <;> simp_all
    · simp only [aset, h, if_false, aget, ih]
      by_cases h2 : k' = k0
      · subst h2; have : ¬ k' = k := fun e => h e.symm
        simp [this]
      · simp [h2]

theorem aget_adel (m : List (Nat × β)) (k k' : Nat) :
    aget (adel m k) k' = if k' = k then none else aget m k' := by
  induction m with
  | nil => simp [adel, aget]
  | cons e m ih =>
    obtain ⟨k0, v0⟩ := e
    by_cases h : k = k0
    · subst h; simp only [adel, if_true, ih, aget]
      by_cases h2 : k' = k <;> simp [h2]
    · simp only [adel, h, if_false, aget, ih]
      by_cases h2 : k' = k0
      · subst h2; have : ¬ k' = k := fun e => h e.symm
        simp [this]
      · simp [h2]

theorem eq_nil_of_aget (m : List (Nat × β)) (h : ∀ k, aget m k = none) : m = [] := by
  cases m with
  | nil => rfl
  | cons e m => obtain ⟨k0, v0⟩ := e; have := h k0; simp [aget] at this

theorem getL_eq (m : List (Nat × List β)) (k : Nat) :
    getL m k = match aget m k with | some l => l | none => [] := rfl

theorem aget_setOrDel (m : List (Nat × List β)) (k k' : Nat) (l : List β) :
    aget (setOrDel m k l) k' = if k' = k then (if l = [] then none else some l) else aget m k' := by
  cases l with
  | nil => simp [setOrDel, aget_adel]
  | cons a l => simp [setOrDel, aget_aset]

end Uniflow.Tracer

namespace Uniflow.NodeSpec
open Uniflow.Tracer Uniflow.Node

/-- what the tracer's four packet-keyed maps hold for one packet id -/
structure PInfo where
  recv : Option (List (Option Ans)) := none
  src : Option (List Pid) := none
  tgt : Option (List Pid) := none
  rdr : Option Rid := none

def infoE (r : EReq) (k : Pid) : Option PInfo :=
  match r.st with
  | .written q _ =>
    if k = r.p then some ⟨some [none], none, some [q], some 0⟩
    else if k = q then some ⟨some [none], some [r.p], none, none⟩ else none
  | .done a => if k = r.p then some ⟨some [some a], none, none, some 0⟩ else none

def infoL : List EReq → Pid → Option PInfo
  | [], _ => none
  | r :: rs, k =>
    match infoE r k with
    | some i => some i
    | none => infoL rs k

def infoC : Cur → Pid → Option PInfo
  | .idle, _ => none
  | .inAction p, k => if k = p.id then some ⟨none, none, none, some 0⟩ else none
  | .toLink p _ _, k => if k = p.id then some ⟨none, none, none, some 0⟩ else none
  | .linked p q _, k =>
    if k = p.id then some ⟨some [none], none, some [q.id], some 0⟩
    else if k = q.id then some ⟨none, some [p.id], none, none⟩ else none

def info (s : S) (k : Pid) : PInfo :=
  match infoL s.reqs k with
  | some i => i
  | none =>
    match infoC s.cur k with
    | some i => i
    | none => {}

def writesOf : List EReq → Wid → List Pid
  | [], _ => []
  | ⟨_, .written q w'⟩ :: rs, w => if w' = w then q :: writesOf rs w else writesOf rs w
  | ⟨_, .done _⟩ :: rs, w => writesOf rs w

def idsE : EReq → List Pid
  | ⟨p, .written q _⟩ => [p, q]
  | ⟨p, .done _⟩ => [p]

def idsL (rs : List EReq) : List Pid := rs.flatMap idsE

def idsC : Cur → List Pid
  | .idle => []
  | .inAction p => [p.id]
  | .toLink p q _ => [p.id, q.id]
  | .linked p q _ => [p.id, q.id]

def curRead : Cur → List Pid
  | .idle => []
  | .inAction p => [p.id]
  | .toLink p _ _ => [p.id]
  | .linked p _ _ => [p.id]

def readsOf (s : S) : List Pid := s.reqs.map (·.p) ++ curRead s.cur

def allIds (s : S) : List Pid := idsL s.reqs ++ idsC s.cur ++ s.inbox.map (·.id)

def optL {α : Type} (l : List α) : Option (List α) := if l = [] then none else some l

/-- the tracer holds exactly what the specification state says -/
structure TRel (s : S) (t : T) : Prop where
  panic : t.panic = false
  hooks : t.hooks = []
  recv : ∀ k, aget t.receives k = (info s k).recv
  src : ∀ k, aget t.sources k = (info s k).src
  tgt : ∀ k, aget t.targets k = (info s k).tgt
  rdr : ∀ k, aget t.reader k = (info s k).rdr
  reads : ∀ r, aget t.reads r = if r = 0 then optL (readsOf s) else none
  writes : ∀ w, aget t.writes w = optL (writesOf s.reqs w)

theorem infoE_none (r : EReq) (k : Pid) (h : k ∉ idsE r) : infoE r k = none := by
  obtain ⟨p, st⟩ := r
  cases st <;> simp [idsE] at h <;> simp [infoE, h]

theorem infoL_none (rs : List EReq) (k : Pid) (h : k ∉ idsL rs) : infoL rs k = none := by
  induction rs with
  | nil => rfl
  | cons r rs ih =>
    simp [idsL, List.flatMap_cons] at h
    have h1 : infoE r k = none := infoE_none r k h.1
    simp only [infoL, h1]
    exact ih (by simpa [idsL] using h.2)

theorem infoL_append (rs : List EReq) (r : EReq) (k : Pid) :
    infoL (rs ++ [r]) k = match infoL rs k with | some i => some i | none => infoE r k := by
  induction rs with
  | nil => simp [infoL]; cases infoE r k <;> rfl
  | cons r0 rs ih =>
    simp only [List.cons_append, infoL]
    cases infoE r0 k with
    | some i => rfl
    | none => simpa using ih

theorem writesOf_append (rs : List EReq) (r : EReq) (w : Wid) :
    writesOf (rs ++ [r]) w = writesOf rs w ++ writesOf [r] w := by
  induction rs with
  | nil => simp [writesOf]
  | cons r0 rs ih =>
    obtain ⟨p, st⟩ := r0
    cases st with
    | written q w' => simp only [List.cons_append, writesOf]; split <;> simp [ih]
    | done a => simpa [writesOf] using ih

theorem trel_read (s : S) (t : T) (p : Pkt) (rest : List Pkt) (h : TRel s t)
    (hc : s.cur = .idle) (hf : p.id ∉ idsL s.reqs) :
    TRel { s with inbox := rest, cur := .inAction p } (Tracer.read t 0 p.id) := by
  have hn := infoL_none _ _ hf
  constructor
  · exact h.panic
  · exact h.hooks
  · intro k; simp only [Tracer.read]; rw [h.recv k]; simp only [info, hc, infoC]
    by_cases hk : k = p.id
    · subst hk; simp [hn]
    · simp [hk]
  · intro k; simp only [Tracer.read]; rw [h.src k]; simp only [info, hc, infoC]
    by_cases hk : k = p.id
    · subst hk; simp [hn]
    · simp [hk]
  · intro k; simp only [Tracer.read]; rw [h.tgt k]; simp only [info, hc, infoC]
    by_cases hk : k = p.id
    · subst hk; simp [hn]
    · simp [hk]
  · intro k; simp only [Tracer.read, aget_aset]; rw [h.rdr k]; simp only [info, hc, infoC]
    by_cases hk : k = p.id
    · subst hk; simp [hn]
    · simp [hk]
  · intro r; simp only [Tracer.read, aget_aset, getL_eq]; rw [h.reads 0]
    by_cases hr : r = 0
    · subst hr; simp [readsOf, hc, curRead, optL]; split <;> simp_all
    · simp [hr]; rw [h.reads r]; simp [hr]
  · intro w; simp only [Tracer.read]; exact h.writes w

theorem trel_link (s : S) (t : T) (p q : Pkt) (w : Wid) (h : TRel s t)
    (hc : s.cur = .toLink p q w) (hpq : p.id ≠ q.id)
    (hfp : p.id ∉ idsL s.reqs) (hfq : q.id ∉ idsL s.reqs) :
    TRel { s with cur := .linked p q w } (link t p.id q.id) := by
  have hnp := infoL_none _ _ hfp
  have hnq := infoL_none _ _ hfq
  have hqp : ¬ q.id = p.id := fun e => hpq e.symm
  have e1 : getL t.sources q.id = [] := by
    simp [getL_eq, h.src q.id, info, hnq, hc, infoC, hqp]
  have e2 : getL t.targets p.id = [] := by
    simp [getL_eq, h.tgt p.id, info, hnp, hc, infoC]
  have e3 : getL t.receives p.id = [] := by
    simp [getL_eq, h.recv p.id, info, hnp, hc, infoC]
  simp only [link, hpq, if_false, e1, e2, e3, List.nil_append]
  constructor
  · exact h.panic
  · exact h.hooks
  · intro k; simp only [aget_aset]; rw [h.recv k]; simp only [info, hc, infoC]
    by_cases hk : k = p.id
    · subst hk; simp [hnp]
    · by_cases hk2 : k = q.id
      · subst hk2; simp [hnq, hk]
      · simp [hk, hk2]
  · intro k; simp only [aget_aset]; rw [h.src k]; simp only [info, hc, infoC]
    by_cases hk : k = p.id
    · subst hk; simp [hnp, hpq]
    · by_cases hk2 : k = q.id
      · subst hk2; simp [hnq, hk]
      · simp [hk, hk2]
  · intro k; simp only [aget_aset]; rw [h.tgt k]; simp only [info, hc, infoC]
    by_cases hk : k = p.id
    · subst hk; simp [hnp]
    · by_cases hk2 : k = q.id
      · subst hk2; simp [hnq, hk]
      · simp [hk, hk2]
  · intro k; rw [h.rdr k]; simp only [info, hc, infoC]
    by_cases hk : k = p.id
    · subst hk; simp [hnp]
    · by_cases hk2 : k = q.id
      · subst hk2; simp [hnq, hk]
      · simp [hk, hk2]
  · intro r; rw [h.reads r]; simp [readsOf, hc, curRead]
  · intro w'; exact h.writes w'

theorem trel_write_acc (s : S) (t : T) (p q : Pkt) (w : Wid) (a : Ans) (h : TRel s t)
    (hc : s.cur = .linked p q w) (hpq : p.id ≠ q.id)
    (hfp : p.id ∉ idsL s.reqs) (hfq : q.id ∉ idsL s.reqs) :
    TRel { s with reqs := s.reqs ++ [⟨p.id, .written q.id w⟩], cur := .idle }
      (write true t (some w) q.id a true).1 ∧ (write true t (some w) q.id a true).2 = [] := by
  have hnp := infoL_none _ _ hfp
  have hnq := infoL_none _ _ hfq
  have hqp : ¬ q.id = p.id := fun e => hpq e.symm
  have e3 : getL t.receives q.id = [] := by
    simp [getL_eq, h.recv q.id, info, hnq, hc, infoC, hqp]
  refine ⟨?_, rfl⟩
  simp only [write, e3, List.nil_append]
  constructor
  · exact h.panic
  · exact h.hooks
  · intro k; simp only [aget_aset]; rw [h.recv k]; simp only [info, hc, infoC, infoL_append, infoE]
    by_cases hk : k = p.id
    · subst hk; simp [hnp, hpq]
    · by_cases hk2 : k = q.id
      · subst hk2; simp [hnq, hk]
      · simp [hk, hk2]; cases infoL s.reqs k <;> rfl
  · intro k; rw [h.src k]; simp only [info, hc, infoC, infoL_append, infoE]
    by_cases hk : k = p.id
    · subst hk; simp [hnp]
    · by_cases hk2 : k = q.id
      · subst hk2; simp [hnq, hk]
      · simp [hk, hk2]; cases infoL s.reqs k <;> rfl
  · intro k; rw [h.tgt k]; simp only [info, hc, infoC, infoL_append, infoE]
    by_cases hk : k = p.id
    · subst hk; simp [hnp]
    · by_cases hk2 : k = q.id
      · subst hk2; simp [hnq, hk]
      · simp [hk, hk2]; cases infoL s.reqs k <;> rfl
  · intro k; rw [h.rdr k]; simp only [info, hc, infoC, infoL_append, infoE]
    by_cases hk : k = p.id
    · subst hk; simp [hnp]
    · by_cases hk2 : k = q.id
      · subst hk2; simp [hnq, hk]
      · simp [hk, hk2]; cases infoL s.reqs k <;> rfl
  · intro r; rw [h.reads r]; simp [readsOf, hc, curRead]
  · intro w'; simp only [aget_aset, getL_eq]; rw [h.writes w, h.writes w', writesOf_append]
    by_cases hw : w' = w
    · subst hw; simp [writesOf, optL]; split <;> simp_all
    · have : ¬ w = w' := fun e => hw e.symm
      simp [hw, writesOf, this]

theorem resolve_chain (f : Nat) (t : T) (p q : Pid) (a : Ans)
    (hh : t.hooks = []) (hpq : p ≠ q)
    (hrq : aget t.receives q = some [some a]) (hsq : aget t.sources q = some [p])
    (hdq : aget t.reader q = none)
    (hrp : aget t.receives p = some [none]) (htp : aget t.targets p = some [q])
    (hsp : aget t.sources p = none) (hdp : aget t.reader p = some 0)
    (L' : List Pid) (t2 : T) (ev : List Ev)
    (hfl : flush true 0
      (getL t.reads 0)
      { t with sources := adel t.sources q, receives := aset t.receives p [some a], targets := adel t.targets p } = (L', t2, ev))
    (hq2 : aget t2.reader q = none) :
    resolve true (f + 2) t q =
      ({ t2 with reads := setOrDel t2.reads 0 L', receives := adel t2.receives q }, ev) := by
  have hqp : q ≠ p := fun e => hpq e.symm
  have hhq : aget t.hooks q = none := by rw [hh]; rfl
  have hhp : aget t.hooks p = none := by rw [hh]; rfl
  simp only [getL_eq] at hfl
  simp only [resolve, getL_eq, hrq, hasNil, hhq, hhp, hsq, List.foldl_cons, List.foldl_nil,
    fillSource, joinCells, cellsOf, join, hrp, htp, slot, if_true, setOrDel, aget_aset, aget_adel, hsp, hdp, hdq,
    if_false, hqp, hpq, hfl, hq2, Bool.false_eq_true, List.nil_append, List.append_nil]

def cellsE : ESt → List (Option Ans)
  | .written _ _ => [none]
  | .done a => [some a]

def popped : List EReq → List Pid
  | ⟨p, .done _⟩ :: rs => p :: popped rs
  | _ => []

theorem flush_spec (rs : List EReq) (rest : List Pid) (t : T)
    (hr : ∀ r ∈ rs, aget t.receives r.p = some (cellsE r.st))
    (hrest : ∀ k rest', rest = k :: rest' → aget t.receives k = none ∨ aget t.receives k = some [none])
    (hnd : (rs.map (·.p) ++ rest).Nodup) :
    ∃ t', flush true 0 (rs.map (·.p) ++ rest) t = ((flushS rs).1.map (·.p) ++ rest, t', (flushS rs).2)
      ∧ t'.hooks = t.hooks ∧ t'.sources = t.sources ∧ t'.targets = t.targets ∧ t'.reads = t.reads
      ∧ t'.writes = t.writes ∧ t'.panic = t.panic
      ∧ (∀ k, aget t'.receives k = if k ∈ popped rs then none else aget t.receives k)
      ∧ (∀ k, aget t'.reader k = if k ∈ popped rs then none else aget t.reader k) := by
  induction rs generalizing t with
  | nil =>
    refine ⟨t, ?_, rfl, rfl, rfl, rfl, rfl, rfl, ?_, ?_⟩
    · cases rest with
      | nil => simp [flush, flushS]
      | cons k rest' =>
        rcases hrest k rest' rfl with h | h
        · simp [flush, flushS, h]
        · simp [flush, flushS, h, hasNil]
    · intro k; simp [popped]
    · intro k; simp [popped]
  | cons r rs ih =>
    obtain ⟨p, st⟩ := r
    have hp := hr ⟨p, st⟩ (by simp)
    cases st with
    | written q w =>
      refine ⟨t, ?_, rfl, rfl, rfl, rfl, rfl, rfl, ?_, ?_⟩
      · simp [flush, flushS, hp, cellsE, hasNil]
      · intro k; simp [popped]
      · intro k; simp [popped]
    | done a =>
      simp only [List.map_cons, List.cons_append, List.nodup_cons] at hnd
      have hne : ∀ k ∈ rs.map (·.p) ++ rest, k ≠ p := fun k hk e => hnd.1 (e ▸ hk)
      let t1 : T := { t with reader := adel t.reader p, receives := adel t.receives p }
      have hr1 : ∀ r ∈ rs, aget t1.receives r.p = some (cellsE r.st) := by
        intro r hrm
        have : r.p ≠ p := hne _ (by simp; left; exact ⟨r, hrm, rfl⟩)
        simp [t1, aget_adel, this]; exact hr r (by simp [hrm])
      have hrest1 : ∀ k rest', rest = k :: rest' → aget t1.receives k = none ∨ aget t1.receives k = some [none] := by
        intro k rest' e
        have : k ≠ p := hne _ (by simp [e])
        simp [t1, aget_adel, this]; exact hrest k rest' e
      obtain ⟨t', hfl, h1, h2, h3, h4, h5, h6, h7, h8⟩ := ih t1 hr1 hrest1 hnd.2
      refine ⟨t', ?_, h1, h2, h3, h4, h5, h6, ?_, ?_⟩
      · simp only [List.map_cons, List.cons_append, flush, hp, cellsE, hasNil, flushS]
        simp only [t1] at hfl
        simp [hfl, joinCells, cellsOf, join]
      · intro k; rw [h7 k]; simp only [popped, List.mem_cons, t1, aget_adel]
        by_cases hk : k = p <;> simp [hk]
      · intro k; rw [h8 k]; simp only [popped, List.mem_cons, t1, aget_adel]
        by_cases hk : k = p <;> simp [hk]

theorem p_mem_idsE (r : EReq) : r.p ∈ idsE r := by
  obtain ⟨p, st⟩ := r; cases st <;> simp [idsE]

theorem infoE_self (r : EReq) : infoE r r.p = some ⟨some (cellsE r.st), none,
    (match r.st with | .written q _ => some [q] | .done _ => none), some 0⟩ := by
  obtain ⟨p, st⟩ := r; cases st <;> simp [infoE, cellsE]

theorem infoL_self (rs : List EReq) (r : EReq) (hnd : (idsL rs).Nodup) (hm : r ∈ rs) :
    infoL rs r.p = infoE r r.p := by
  induction rs with
  | nil => simp at hm
  | cons r0 rs ih =>
    simp only [idsL, List.flatMap_cons] at hnd
    rw [List.nodup_append] at hnd
    rcases List.mem_cons.mp hm with e | hm'
    · subst e; simp [infoL, infoE_self]
    · have hin : r.p ∈ idsL rs := by
        simp only [idsL, List.mem_flatMap]; exact ⟨r, hm', p_mem_idsE r⟩
      have hnot : r.p ∉ idsE r0 := fun h => hnd.2.2 _ h _ hin rfl
      simp only [infoL, infoE_none r0 _ hnot]
      exact ih hnd.2.1 hm'

theorem popped_sub (rs : List EReq) : ∀ k ∈ popped rs, k ∈ idsL rs := by
  induction rs with
  | nil => simp [popped]
  | cons r rs ih =>
    obtain ⟨p, st⟩ := r
    cases st with
    | written q w => simp [popped]
    | done a =>
      intro k hk
      simp only [popped, List.mem_cons] at hk
      simp only [idsL, List.flatMap_cons, idsE, List.mem_append, List.mem_singleton]
      rcases hk with e | hk
      · left; simp [e]
      · right; exact ih k hk

theorem infoL_flush (rs : List EReq) (k : Pid) (hnd : (idsL rs).Nodup) :
    infoL (flushS rs).1 k = if k ∈ popped rs then none else infoL rs k := by
  induction rs with
  | nil => simp [flushS, popped]
  | cons r rs ih =>
    obtain ⟨p, st⟩ := r
    cases st with
    | written q w => simp [flushS, popped]
    | done a =>
      simp only [idsL, List.flatMap_cons, idsE] at hnd
      rw [List.nodup_append] at hnd
      have ih' := ih hnd.2.1
      simp only [flushS, popped, List.mem_cons]
      rw [ih']
      by_cases hk : k = p
      · subst hk
        have : k ∉ popped rs := fun h => hnd.2.2 k (by simp) k (popped_sub rs k h) rfl
        have hn : infoL rs k = none := infoL_none rs k (fun h => hnd.2.2 k (by simp) k h rfl)
        simp [this, hn]
      · simp [hk, infoL, infoE]

theorem writesOf_flush (rs : List EReq) (w : Wid) : writesOf (flushS rs).1 w = writesOf rs w := by
  induction rs with
  | nil => simp [flushS]
  | cons r rs ih =>
    obtain ⟨p, st⟩ := r
    cases st with
    | written q w' => simp [flushS]
    | done a => simpa [flushS, writesOf] using ih

theorem flush_sublist (rs : List EReq) : (flushS rs).1.Sublist rs := by
  induction rs with
  | nil => simp [flushS]
  | cons r rs ih =>
    obtain ⟨p, st⟩ := r
    cases st with
    | written q w => simp [flushS]
    | done a => simp only [flushS]; exact List.Sublist.cons _ ih

theorem idsL_sublist {rs rs' : List EReq} (h : rs'.Sublist rs) : (idsL rs').Sublist (idsL rs) := by
  induction h with
  | slnil => simp [idsL]
  | cons a h ih =>
    simp only [idsL, List.flatMap_cons] at ih ⊢
    exact List.Sublist.trans ih (List.sublist_append_right _ _)
  | cons_cons a h ih =>
    simp only [idsL, List.flatMap_cons] at ih ⊢
    exact List.Sublist.append (List.Sublist.refl _) ih

theorem infoC_none (c : Cur) (k : Pid) (h : k ∉ idsC c) : infoC c k = none := by
  cases c <;> simp [idsC] at h <;> simp [infoC, h]

theorem map_p_sublist (rs : List EReq) : (rs.map (·.p)).Sublist (idsL rs) := by
  induction rs with
  | nil => simp [idsL]
  | cons r rs ih =>
    obtain ⟨p, st⟩ := r
    simp only [idsL, List.flatMap_cons, List.map_cons] at ih ⊢
    cases st with
    | written q w => simp only [idsE]; exact List.Sublist.cons_cons p (List.Sublist.cons q ih)
    | done a => simp only [idsE]; exact List.Sublist.cons_cons p ih

theorem curRead_sublist (c : Cur) : (curRead c).Sublist (idsC c) := by
  cases c <;> simp [curRead, idsC]

theorem popped_info (rs : List EReq) (k : Pid) (hnd : (idsL rs).Nodup) (hk : k ∈ popped rs) :
    ∃ a, infoL rs k = some ⟨some [some a], none, none, some 0⟩ := by
  induction rs with
  | nil => simp [popped] at hk
  | cons r rs ih =>
    obtain ⟨p, st⟩ := r
    cases st with
    | written q w => simp [popped] at hk
    | done a =>
      simp only [idsL, List.flatMap_cons, idsE] at hnd
      rw [List.nodup_append] at hnd
      simp only [popped, List.mem_cons] at hk
      by_cases e : k = p
      · subst e; exact ⟨a, by simp [infoL, infoE]⟩
      · rcases hk with hk | hk
        · exact absurd hk e
        · obtain ⟨b, hb⟩ := ih hnd.2.1 hk
          exact ⟨b, by simp [infoL, infoE, e, hb]⟩

theorem info_flush (inbox : List Pkt) (rs : List EReq) (cur : Cur) (k : Pid)
    (hnd : (idsL rs ++ idsC cur).Nodup) :
    info ⟨inbox, (flushS rs).1, cur⟩ k = if k ∈ popped rs then {} else info ⟨inbox, rs, cur⟩ k := by
  rw [List.nodup_append] at hnd
  simp only [info, infoL_flush rs k hnd.1]
  by_cases hk : k ∈ popped rs
  · have hc : infoC cur k = none :=
      infoC_none cur k (fun h => hnd.2.2 k (popped_sub rs k hk) k h rfl)
    simp [hk, hc]
  · simp [hk]

theorem resolve_mid (f : Nat) (inbox : List Pkt) (rs : List EReq) (cur : Cur) (t : T) (p q : Pid) (a : Ans)
    (hpanic : t.panic = false) (hh : t.hooks = []) (hpq : p ≠ q)
    (hmem : (⟨p, .done a⟩ : EReq) ∈ rs)
    (hq : q ∉ idsL rs ++ idsC cur)
    (hnd : (idsL rs ++ idsC cur).Nodup)
    (hrecv : ∀ k, aget t.receives k = if k = p then some [none] else if k = q then some [some a]
      else (info ⟨inbox, rs, cur⟩ k).recv)
    (hsrc : ∀ k, aget t.sources k = if k = q then some [p] else (info ⟨inbox, rs, cur⟩ k).src)
    (htgt : ∀ k, aget t.targets k = if k = p then some [q] else (info ⟨inbox, rs, cur⟩ k).tgt)
    (hrdr : ∀ k, aget t.reader k = (info ⟨inbox, rs, cur⟩ k).rdr)
    (hreads : ∀ r, aget t.reads r = if r = 0 then optL (readsOf ⟨inbox, rs, cur⟩) else none)
    (hwrites : ∀ w, aget t.writes w = optL (writesOf rs w)) :
    ∃ t', resolve true (f + 2) t q = (t', (flushS rs).2) ∧ TRel ⟨inbox, (flushS rs).1, cur⟩ t' := by
  have hnd0 := hnd
  rw [List.nodup_append] at hnd
  obtain ⟨hndL, hndC, hdisj⟩ := hnd
  have hqL : q ∉ idsL rs := fun h => hq (List.mem_append_left _ h)
  have hqC : q ∉ idsC cur := fun h => hq (List.mem_append_right _ h)
  have hpL : p ∈ idsL rs := by
    simp only [idsL, List.mem_flatMap]; exact ⟨_, hmem, by simp [idsE]⟩
  have hqp : q ≠ p := fun e => hpq e.symm
  -- info at p and q
  have hinfo_p : info ⟨inbox, rs, cur⟩ p = ⟨some [some a], none, none, some 0⟩ := by
    have := infoL_self rs _ hndL hmem
    simp only [infoE, if_true] at this
    simp [info, this]
  have hinfo_q : info ⟨inbox, rs, cur⟩ q = {} := by
    simp [info, infoL_none rs q hqL, infoC_none cur q hqC]
  let t1 : T := { t with sources := adel t.sources q, receives := aset t.receives p [some a],
                         targets := adel t.targets p }
  have hreadsL : getL t.reads 0 = rs.map (·.p) ++ curRead cur := by
    simp only [getL_eq, hreads 0, if_true, optL, readsOf]
    split <;> simp_all
  -- flush
  have hr1 : ∀ r ∈ rs, aget t1.receives r.p = some (cellsE r.st) := by
    intro r hrm
    have hself := infoL_self rs r hndL hrm
    simp only [t1, aget_aset]
    by_cases e : r.p = p
    · have h2 := infoL_self rs _ hndL hmem
      simp only [e] at hself
      rw [hself] at h2
      have : cellsE r.st = [some a] := by
        obtain ⟨rp, rst⟩ := r
        simp only at e; subst e
        cases rst with
        | written q' w' => simp [infoE] at h2
        | done b => simp [infoE] at h2; simp [cellsE, h2]
      simp [e, this]
    · have hrq : r.p ≠ q := fun e2 => hqL (e2 ▸ (by
        simp only [idsL, List.mem_flatMap]; exact ⟨r, hrm, p_mem_idsE r⟩))
      simp only [e, if_false]
      rw [hrecv r.p]
      simp only [e, hrq, if_false, info, hself, infoE_self]
  have hrest1 : ∀ k rest', curRead cur = k :: rest' →
      aget t1.receives k = none ∨ aget t1.receives k = some [none] := by
    intro k rest' e
    have hkC : k ∈ idsC cur := (curRead_sublist cur).subset (by simp [e])
    have hkp : k ≠ p := fun e2 => hdisj p hpL k hkC e2.symm
    have hkq : k ≠ q := fun e2 => hqC (e2 ▸ hkC)
    have hkL : infoL rs k = none := infoL_none rs k (fun h => hdisj k h k hkC rfl)
    simp only [t1, aget_aset, hkp, if_false]
    rw [hrecv k]
    simp only [hkp, hkq, if_false, info, hkL]
    cases cur with
    | idle => simp [curRead] at e
    | inAction p0 => simp only [curRead, List.cons.injEq] at e; simp [infoC, ← e.1]
    | toLink p0 q0 w0 => simp only [curRead, List.cons.injEq] at e; simp [infoC, ← e.1]
    | linked p0 q0 w0 => simp only [curRead, List.cons.injEq] at e; simp [infoC, ← e.1]
  have hnd1 : (rs.map (·.p) ++ curRead cur).Nodup :=
    List.Nodup.sublist (List.Sublist.append (map_p_sublist rs) (curRead_sublist cur)) hnd0
  obtain ⟨t', hfl, h1, h2, h3, h4, h5, h6, h7, h8⟩ := flush_spec rs (curRead cur) t1 hr1 hrest1 hnd1
  have hq2 : aget t'.reader q = none := by
    rw [h8 q]; split
    · rfl
    · simp only [t1]; rw [hrdr q, hinfo_q]
  have hres := resolve_chain f t p q a hh hpq
    (by rw [hrecv q]; simp [hqp]) (by rw [hsrc q]; simp)
    (by rw [hrdr q, hinfo_q]) (by rw [hrecv p]; simp) (by rw [htgt p]; simp)
    (by rw [hsrc p, hinfo_p]; simp [hpq]) (by rw [hrdr p, hinfo_p])
    ((flushS rs).1.map (·.p) ++ curRead cur) t' (flushS rs).2
    (by rw [hreadsL]; exact hfl) hq2
  refine ⟨_, hres, ?_⟩
  constructor
  · simp only [h6, t1, hpanic]
  · simp only [h1, t1, hh]
  · intro k
    simp only [aget_adel, h7 k, t1, aget_aset]
    rw [info_flush inbox rs cur k hnd0]
    by_cases hkq : k = q
    · subst hkq
      have : k ∉ popped rs := fun h => hqL (popped_sub rs k h)
      simp [this, hinfo_q]
    · by_cases hkp : k ∈ popped rs
      · simp [hkq, hkp]
      · by_cases hkp2 : k = p
        · subst hkp2; simp [hkq, hkp, hinfo_p]
        · simp only [hkq, hkp, hkp2, if_false]; rw [hrecv k]; simp [hkq, hkp2]
  · intro k
    simp only [h2, t1, aget_adel]
    rw [info_flush inbox rs cur k hnd0]
    by_cases hkq : k = q
    · subst hkq
      have : k ∉ popped rs := fun h => hqL (popped_sub rs k h)
      simp [this, hinfo_q]
    · simp only [hkq, if_false]; rw [hsrc k]; simp only [hkq, if_false]
      by_cases hkp : k ∈ popped rs
      · obtain ⟨b, hb⟩ := popped_info rs k hndL hkp
        simp [hkp, info, hb]
      · simp [hkp]
  · intro k
    simp only [h3, t1, aget_adel]
    rw [info_flush inbox rs cur k hnd0]
    by_cases hkp2 : k = p
    · subst hkp2; simp [hinfo_p]; split <;> rfl
    · simp only [hkp2, if_false]; rw [htgt k]; simp only [hkp2, if_false]
      by_cases hkp : k ∈ popped rs
      · obtain ⟨b, hb⟩ := popped_info rs k hndL hkp
        simp [hkp, info, hb]
      · simp [hkp]
  · intro k
    rw [h8 k, info_flush inbox rs cur k hnd0]
    by_cases hkp : k ∈ popped rs
    · simp [hkp]
    · simp only [hkp, if_false, t1]; exact hrdr k
  · intro r
    simp only [aget_setOrDel, h4, t1]
    by_cases hr : r = 0
    · subst hr; simp [readsOf, optL]
    · simp only [hr, if_false]; rw [hreads r]; simp [hr]
  · intro w
    simp only [h5, t1]
    rw [hwrites w, writesOf_flush]

theorem idsL_append (rs : List EReq) (r : EReq) : idsL (rs ++ [r]) = idsL rs ++ idsE r := by
  simp [idsL]

theorem trel_write_rej (s : S) (t : T) (p q : Pkt) (w : Wid) (a : Ans) (h : TRel s t)
    (hc : s.cur = .linked p q w)
    (hnd : (idsL s.reqs ++ idsC s.cur).Nodup) :
    ∃ t', write true t (some w) q.id a false = (t', (flushS (s.reqs ++ [⟨p.id, .done a⟩])).2) ∧
      TRel { s with reqs := (flushS (s.reqs ++ [⟨p.id, .done a⟩])).1, cur := .idle } t' := by
  rw [hc] at hnd
  have hnd' := hnd
  simp only [idsC] at hnd'
  rw [List.nodup_append] at hnd'
  obtain ⟨hndL, hndC, hdisj⟩ := hnd'
  have hpq : p.id ≠ q.id := by simp at hndC; exact hndC
  have hqp : q.id ≠ p.id := fun e => hpq e.symm
  have hfp : p.id ∉ idsL s.reqs := fun h => hdisj _ h _ (by simp) rfl
  have hfq : q.id ∉ idsL s.reqs := fun h => hdisj _ h _ (by simp) rfl
  have hnp := infoL_none _ _ hfp
  have hnq := infoL_none _ _ hfq
  have e3 : getL t.receives q.id = [] := by
    simp [getL_eq, h.recv q.id, info, hnq, hc, infoC, hqp]
  have hres := resolve_mid 6 s.inbox (s.reqs ++ [⟨p.id, .done a⟩]) .idle (receive t q.id a) p.id q.id a
    h.panic h.hooks hpq (by simp)
    (by simp [idsL_append, idsE, idsC, hfq, hqp])
    (by
      simp only [idsL_append, idsE, idsC, List.append_nil]
      rw [List.nodup_append]
      refine ⟨hndL, by simp, ?_⟩
      intro x hx y hy; simp at hy; subst hy; exact fun e => hfp (e ▸ hx))
    (by
      intro k; simp only [receive, e3, fillFirst, aget_aset]; rw [h.recv k]
      simp only [info, hc, infoC, infoL_append, infoE]
      by_cases hk : k = p.id
      · subst hk; simp [hnp, hpq]
      · by_cases hk2 : k = q.id
        · subst hk2; simp [hk]
        · simp [hk, hk2]; cases infoL s.reqs k <;> rfl)
    (by
      intro k; simp only [receive]; rw [h.src k]
      simp only [info, hc, infoC, infoL_append, infoE]
      by_cases hk : k = p.id
      · subst hk; simp [hnp, hpq]
      · by_cases hk2 : k = q.id
        · subst hk2; simp [hk, hnq]
        · simp [hk, hk2]; cases infoL s.reqs k <;> rfl)
    (by
      intro k; simp only [receive]; rw [h.tgt k]
      simp only [info, hc, infoC, infoL_append, infoE]
      by_cases hk : k = p.id
      · subst hk; simp [hnp]
      · by_cases hk2 : k = q.id
        · subst hk2; simp [hk, hnq]
        · simp [hk, hk2]; cases infoL s.reqs k <;> rfl)
    (by
      intro k; simp only [receive]; rw [h.rdr k]
      simp only [info, hc, infoC, infoL_append, infoE]
      by_cases hk : k = p.id
      · subst hk; simp [hnp]
      · by_cases hk2 : k = q.id
        · subst hk2; simp [hk, hnq]
        · simp [hk, hk2]; cases infoL s.reqs k <;> rfl)
    (by intro r; simp only [receive]; rw [h.reads r]; simp [readsOf, hc, curRead])
    (by intro w'; simp only [receive]; rw [h.writes w', writesOf_append]; simp [writesOf])
  obtain ⟨t', h1, h2⟩ := hres
  exact ⟨t', by simp only [write, defaultFuel]; exact h1, h2⟩

theorem markDone_none (w : Wid) (a : Ans) (rs : List EReq) (h : markDone w a rs = none) :
    writesOf rs w = [] := by
  induction rs with
  | nil => rfl
  | cons r rs ih =>
    obtain ⟨p0, st⟩ := r
    cases st with
    | written q0 w0 =>
      simp only [markDone] at h
      by_cases hw : w0 = w
      · simp [hw] at h
      · simp only [hw, if_false] at h
        cases hm : markDone w a rs with
        | none => simp [writesOf, hw, ih hm]
        | some x => simp [hm] at h
    | done b =>
      simp only [markDone] at h
      cases hm : markDone w a rs with
      | none => simp [writesOf, ih hm]
      | some x => simp [hm] at h

structure MD (w : Wid) (a : Ans) (rs rs' : List EReq) (p q : Pid) : Prop where
  mem : (⟨p, .written q w⟩ : EReq) ∈ rs
  mem' : (⟨p, .done a⟩ : EReq) ∈ rs'
  wr : writesOf rs w = q :: writesOf rs' w
  wr' : ∀ w', w' ≠ w → writesOf rs' w' = writesOf rs w'
  mp : rs'.map (·.p) = rs.map (·.p)
  sub : (idsL rs').Sublist (idsL rs)
  qn : q ∉ idsL rs'
  inf : ∀ k, k ≠ p → k ≠ q → infoL rs' k = infoL rs k

theorem markDone_spec (w : Wid) (a : Ans) (rs rs' : List EReq) (hnd : (idsL rs).Nodup)
    (h : markDone w a rs = some rs') : ∃ p q, MD w a rs rs' p q := by
  induction rs generalizing rs' with
  | nil => simp [markDone] at h
  | cons r rs ih =>
    obtain ⟨p0, st⟩ := r
    simp only [idsL, List.flatMap_cons] at hnd
    rw [List.nodup_append] at hnd
    obtain ⟨hnd0, hndL, hdisj⟩ := hnd
    cases st with
    | written q0 w0 =>
      simp only [markDone] at h
      by_cases hw : w0 = w
      · subst hw
        simp only [if_true, Option.some.injEq] at h
        subst h
        have hpq : p0 ≠ q0 := by simpa [idsE] using hnd0
        refine ⟨p0, q0, ?_⟩
        constructor
        · simp
        · simp
        · simp [writesOf]
        · intro w' hw'; have : ¬ w0 = w' := fun e => hw' e.symm
          simp [writesOf, this]
        · simp
        · simp only [idsL, List.flatMap_cons, idsE]
          exact List.Sublist.append (by simp) (List.Sublist.refl _)
        · simp only [idsL, List.flatMap_cons, idsE, List.mem_append, List.mem_singleton, not_or]
          exact ⟨fun e => hpq e.symm, fun hq => hdisj q0 (by simp [idsE]) q0 hq rfl⟩
        · intro k hk1 hk2; simp [infoL, infoE, hk1, hk2]
      · simp only [hw, if_false] at h
        cases hm : markDone w a rs with
        | none => simp [hm] at h
        | some x =>
          simp only [hm, Option.some.injEq] at h
          subst h
          obtain ⟨p, q, md⟩ := ih x hndL hm
          have hpin : p ∈ idsL rs := by
            simp only [idsL, List.mem_flatMap]; exact ⟨_, md.mem, by simp [idsE]⟩
          have hqin : q ∈ idsL rs := by
            simp only [idsL, List.mem_flatMap]; exact ⟨_, md.mem, by simp [idsE]⟩
          refine ⟨p, q, ?_⟩
          constructor
          · simp [md.mem]
          · simp [md.mem']
          · simp [writesOf, hw, md.wr]
          · intro w' hw'; simp only [writesOf]; rw [md.wr' w' hw']
          · simp [md.mp]
          · simp only [idsL, List.flatMap_cons]
            exact List.Sublist.append (List.Sublist.refl _) md.sub
          · simp only [idsL, List.flatMap_cons, List.mem_append, not_or]
            exact ⟨fun hq => hdisj q hq q hqin rfl, md.qn⟩
          · intro k hk1 hk2; simp only [infoL]; rw [md.inf k hk1 hk2]
    | done b =>
      simp only [markDone] at h
      cases hm : markDone w a rs with
      | none => simp [hm] at h
      | some x =>
        simp only [hm, Option.some.injEq] at h
        subst h
        obtain ⟨p, q, md⟩ := ih x hndL hm
        have hqin : q ∈ idsL rs := by
          simp only [idsL, List.mem_flatMap]; exact ⟨_, md.mem, by simp [idsE]⟩
        refine ⟨p, q, ?_⟩
        constructor
        · simp [md.mem]
        · simp [md.mem']
        · simp [writesOf, md.wr]
        · intro w' hw'; simp only [writesOf]; rw [md.wr' w' hw']
        · simp [md.mp]
        · simp only [idsL, List.flatMap_cons]
          exact List.Sublist.append (List.Sublist.refl _) md.sub
        · simp only [idsL, List.flatMap_cons, List.mem_append, not_or]
          exact ⟨fun hq => hdisj q hq q hqin rfl, md.qn⟩
        · intro k hk1 hk2; simp only [infoL]; rw [md.inf k hk1 hk2]

theorem infoL_q (rs : List EReq) (p q : Pid) (w : Wid) (hnd : (idsL rs).Nodup)
    (hm : (⟨p, .written q w⟩ : EReq) ∈ rs) :
    infoL rs q = some ⟨some [none], some [p], none, none⟩ := by
  induction rs with
  | nil => simp at hm
  | cons r0 rs ih =>
    simp only [idsL, List.flatMap_cons] at hnd
    rw [List.nodup_append] at hnd
    rcases List.mem_cons.mp hm with e | hm'
    · subst e
      have hpq : p ≠ q := by simpa [idsE] using hnd.1
      have hqp : ¬ q = p := fun e => hpq e.symm
      simp [infoL, infoE, hqp]
    · have hin : q ∈ idsL rs := by
        simp only [idsL, List.mem_flatMap]; exact ⟨_, hm', by simp [idsE]⟩
      have hnot : q ∉ idsE r0 := fun h => hnd.2.2 _ h _ hin rfl
      simp only [infoL, infoE_none r0 _ hnot]
      exact ih hnd.2.1 hm'

theorem trel_answer (s : S) (t : T) (w : Wid) (a : Ans) (rs : List EReq) (h : TRel s t)
    (hnd : (idsL s.reqs ++ idsC s.cur).Nodup)
    (hm : markDone w a s.reqs = some rs) :
    ∃ t', receiveW true t w (some a) = (t', (flushS rs).2) ∧ getL t.writes w ≠ [] ∧
      TRel { s with reqs := (flushS rs).1 } t' ∧ (idsL rs).Sublist (idsL s.reqs) := by
  have hnd' := hnd
  rw [List.nodup_append] at hnd'
  obtain ⟨hndL, hndC, hdisj⟩ := hnd'
  obtain ⟨p, q, md⟩ := markDone_spec w a s.reqs rs hndL hm
  have hpin : p ∈ idsL s.reqs := by
    simp only [idsL, List.mem_flatMap]; exact ⟨_, md.mem, by simp [idsE]⟩
  have hqin : q ∈ idsL s.reqs := by
    simp only [idsL, List.mem_flatMap]; exact ⟨_, md.mem, by simp [idsE]⟩
  have hqC : q ∉ idsC s.cur := fun hq => hdisj q hqin q hq rfl
  have hpC : p ∉ idsC s.cur := fun hq => hdisj p hpin p hq rfl
  have hndL' : (idsL rs).Nodup := List.Nodup.sublist md.sub hndL
  have hip : infoL s.reqs p = some ⟨some [none], none, some [q], some 0⟩ := by
    have := infoL_self s.reqs _ hndL md.mem
    simpa [infoE] using this
  have hiq := infoL_q s.reqs p q w hndL md.mem
  have hpq : p ≠ q := by
    intro e; rw [e, hiq] at hip; simp at hip
  have hqp : q ≠ p := fun e => hpq e.symm
  have hip' : infoL rs p = some ⟨some [some a], none, none, some 0⟩ := by
    have := infoL_self rs _ hndL' md.mem'
    simpa [infoE] using this
  have hiq' : infoL rs q = none := infoL_none rs q md.qn
  have hwl : getL t.writes w = q :: writesOf rs w := by
    simp only [getL_eq, h.writes w, md.wr, optL]; simp
  have e3 : getL t.receives q = [none] := by
    simp [getL_eq, h.recv q, info, hiq]
  have hres := resolve_mid 6 s.inbox rs s.cur
    (receive { t with writes := setOrDel t.writes w (writesOf rs w) } q a) p q a
    h.panic h.hooks hpq md.mem'
    (by simp only [List.mem_append, not_or]; exact ⟨md.qn, hqC⟩)
    (List.Nodup.sublist (List.Sublist.append md.sub (List.Sublist.refl _)) hnd)
    (by
      intro k; simp only [receive, e3, fillFirst, aget_aset]; rw [h.recv k]
      by_cases hk : k = p
      · subst hk; simp [info, hip, hpq]
      · by_cases hk2 : k = q
        · subst hk2; simp [hk]
        · simp [hk, hk2, info, md.inf k hk hk2])
    (by
      intro k; simp only [receive]; rw [h.src k]
      by_cases hk : k = p
      · subst hk; simp [info, hip, hip', hpq]
      · by_cases hk2 : k = q
        · subst hk2; simp [info, hiq]
        · simp [hk, hk2, info, md.inf k hk hk2])
    (by
      intro k; simp only [receive]; rw [h.tgt k]
      by_cases hk : k = p
      · subst hk; simp [info, hip]
      · by_cases hk2 : k = q
        · subst hk2; simp [info, hiq, hiq', hk, infoC_none _ _ hqC]
        · simp [hk, hk2, info, md.inf k hk hk2])
    (by
      intro k; simp only [receive]; rw [h.rdr k]
      by_cases hk : k = p
      · subst hk; simp [info, hip, hip']
      · by_cases hk2 : k = q
        · subst hk2; simp [info, hiq, hiq', infoC_none _ _ hqC]
        · simp [hk, hk2, info, md.inf k hk hk2])
    (by intro r; simp only [receive]; rw [h.reads r]; simp [readsOf, md.mp])
    (by
      intro w'; simp only [receive, aget_setOrDel]
      by_cases hw : w' = w
      · subst hw; simp [optL]
      · simp only [hw, if_false]; rw [h.writes w', md.wr' w' hw])
  obtain ⟨t', h1, h2⟩ := hres
  refine ⟨t', ?_, by simp [hwl], h2, md.sub⟩
  simp only [receiveW, hwl, defaultFuel]
  exact h1

def pcOf : Cur → PC
  | .idle => .idle
  | .inAction p => .action p [p]
  | .toLink p q w => .emit [.link p.id q.id, .write (some w) q]
  | .linked _ q w => .emit [.write (some w) q]

structure Rel (s : S) (n : Node) (nx : Nat) : Prop where
  kind : n.kind = .oneToOne
  strict : n.strict = true
  npanic : n.panic = false
  threads : n.threads = [{ inbox := s.inbox, pc := pcOf s.cur }]
  trel : TRel s n.tr
  nodup : (allIds s).Nodup
  bound : ∀ k ∈ allIds s, k < nx

theorem trel_congr (s s' : S) (t : T) (h : TRel s t) (hr : s'.reqs = s.reqs)
    (hi : ∀ k, infoC s'.cur k = infoC s.cur k) (hc : curRead s'.cur = curRead s.cur) : TRel s' t := by
  have hinfo : ∀ k, info s' k = info s k := by intro k; simp [info, hr, hi]
  have hreads : readsOf s' = readsOf s := by simp [readsOf, hr, hc]
  exact ⟨h.panic, h.hooks, fun k => by rw [hinfo]; exact h.recv k, fun k => by rw [hinfo]; exact h.src k,
    fun k => by rw [hinfo]; exact h.tgt k, fun k => by rw [hinfo]; exact h.rdr k,
    fun r => by rw [hreads]; exact h.reads r, fun w => by rw [hr]; exact h.writes w⟩

/-- the initial states are related -/
theorem rel_init : Rel {} (Node.mk .oneToOne) 0 := by
  refine ⟨rfl, rfl, rfl, rfl, ?_, by simp [allIds, idsL, idsC], by simp [allIds, idsL, idsC]⟩
  constructor <;> first | rfl | (intro k; simp [info, infoL, infoC, readsOf, curRead, writesOf, optL, Node.mk])


def SimStep (s : S) (n : Node) (st : Step) (nx' : Nat) : Prop :=
  (Node.step n st = none ∧ NodeSpec.step s st = none) ∨
  ∃ n' s' ev, Node.step n st = some (n', ev) ∧ NodeSpec.step s st = some (s', ev) ∧ Rel s' n' nx'

theorem sim_deliver (s : S) (n : Node) (nx : Nat) (v : Val) (h : Rel s n nx) :
    SimStep s n (.deliver 0 ⟨nx, v⟩) (nx + 1) := by
  right
  refine ⟨{ n with threads := [{ inbox := s.inbox ++ [⟨nx, v⟩], pc := pcOf s.cur }] },
    { s with inbox := s.inbox ++ [⟨nx, v⟩] }, [], ?_, rfl, ?_⟩
  · simp [Node.step, h.threads, getThread, setThread]
  · refine ⟨h.kind, h.strict, h.npanic, rfl, trel_congr s _ _ h.trel rfl (fun _ => rfl) rfl, ?_, ?_⟩
    · have hnd := h.nodup
      have hb := h.bound
      simp only [allIds, List.map_append, List.map_cons, List.map_nil] at hnd hb ⊢
      rw [← List.append_assoc, List.nodup_append]
      refine ⟨hnd, by simp, ?_⟩
      intro x hx y hy
      simp at hy; subst hy
      exact Nat.ne_of_lt (hb x hx)
    · intro k hk
      simp only [allIds, List.map_append, List.map_cons, List.map_nil, ← List.append_assoc,
        List.mem_append, List.mem_singleton] at hk
      rcases hk with hk | hk
      · exact Nat.lt_succ_of_lt (h.bound k (by simp only [allIds, List.mem_append]; exact hk))
      · rw [hk]; exact Nat.lt_succ_self _

theorem sim_read (s : S) (n : Node) (nx : Nat) (h : Rel s n nx) : SimStep s n (.read 0) nx := by
  cases hc : s.cur with
  | idle =>
    cases hi : s.inbox with
    | nil => left; simp [Node.step, NodeSpec.step, h.threads, getThread, hc, hi, pcOf]
    | cons p rest =>
      right
      refine ⟨{ n with tr := Tracer.read n.tr 0 p.id, threads := [{ inbox := rest, pc := .action p [p] }] },
        { s with inbox := rest, cur := .inAction p }, [], ?_, ?_, ?_⟩
      · simp [Node.step, h.threads, getThread, setThread, hc, hi, pcOf, h.kind]
      · simp [NodeSpec.step, hc, hi]
      · have hnd := h.nodup
        simp only [allIds, hc, hi, idsC, List.append_nil, List.map_cons] at hnd
        have hfresh : p.id ∉ idsL s.reqs := by
          rw [List.nodup_append] at hnd
          exact fun hx => hnd.2.2 _ hx _ (by simp) rfl
        refine ⟨h.kind, h.strict, h.npanic, rfl, trel_read s n.tr p rest h.trel hc hfresh, ?_, ?_⟩
        · simpa [allIds, idsC] using hnd
        · intro k hk
          apply h.bound k
          simp only [allIds, hc, hi, idsC, List.append_nil, List.map_cons]
          simpa [allIds, idsC] using hk
  | inAction p => left; simp [Node.step, NodeSpec.step, h.threads, getThread, hc, pcOf]
  | toLink p q w => left; simp [Node.step, NodeSpec.step, h.threads, getThread, hc, pcOf]
  | linked p q w => left; simp [Node.step, NodeSpec.step, h.threads, getThread, hc, pcOf]

theorem nodup_insert (l1 l2 : List Nat) (p x : Nat) (h : (l1 ++ [p] ++ l2).Nodup)
    (hx : x ∉ l1 ++ [p] ++ l2) : (l1 ++ [p, x] ++ l2).Nodup := by
  simp only [List.nodup_append, List.mem_append, List.mem_singleton, List.mem_cons, List.nodup_cons,
    List.not_mem_nil, List.nodup_nil] at h hx ⊢
  grind

theorem sim_finish (s : S) (n : Node) (nx : Nat) (v : Val) (o : Outcome) (w : Wid) (h : Rel s n nx)
    (ho : (o = .outs [some ⟨nx, v⟩] ∧ w = outW 0) ∨ (o = .err ⟨nx, v⟩ ∧ w = errW)) :
    SimStep s n (.finish 0 o) (nx + 1) := by
  cases hc : s.cur with
  | inAction p =>
    right
    refine ⟨{ n with threads := [{ inbox := s.inbox, pc := .emit [.link p.id nx, .write (some w) ⟨nx, v⟩] }] },
      { s with cur := .toLink p ⟨nx, v⟩ w }, [], ?_, ?_, ?_⟩
    · rcases ho with ⟨rfl, rfl⟩ | ⟨rfl, rfl⟩ <;>
        simp [Node.step, h.threads, getThread, setThread, hc, pcOf, h.kind, program]
    · rcases ho with ⟨rfl, rfl⟩ | ⟨rfl, rfl⟩ <;> simp [NodeSpec.step, hc]
    · have hnd := h.nodup
      have hb := h.bound
      simp only [allIds, hc, idsC] at hnd hb
      refine ⟨h.kind, h.strict, h.npanic, rfl,
        trel_congr s _ _ h.trel rfl (fun k => by simp [hc, infoC]) (by simp [hc, curRead]), ?_, ?_⟩
      · simp only [allIds, idsC]
        exact nodup_insert _ _ _ _ hnd (fun hx => Nat.lt_irrefl _ (hb nx hx))
      · intro k hk
        simp only [allIds, idsC, List.mem_append, List.mem_cons, List.not_mem_nil, or_false] at hk hb
        rcases hk with (hk | hk | hk) | hk
        · exact Nat.lt_succ_of_lt (hb k (by simp [hk]))
        · exact Nat.lt_succ_of_lt (hb k (by simp [hk]))
        · rw [hk]; exact Nat.lt_succ_self _
        · exact Nat.lt_succ_of_lt (hb k (by simp [hk]))
  | idle => left; rcases ho with ⟨rfl, rfl⟩ | ⟨rfl, rfl⟩ <;> simp [Node.step, NodeSpec.step, h.threads, getThread, hc, pcOf]
  | toLink p q w => left; rcases ho with ⟨rfl, rfl⟩ | ⟨rfl, rfl⟩ <;> simp [Node.step, NodeSpec.step, h.threads, getThread, hc, pcOf]
  | linked p q w => left; rcases ho with ⟨rfl, rfl⟩ | ⟨rfl, rfl⟩ <;> simp [Node.step, NodeSpec.step, h.threads, getThread, hc, pcOf]

theorem sim_op (s : S) (n : Node) (nx : Nat) (acc : Bool) (h : Rel s n nx) :
    SimStep s n (.op 0 acc) nx := by
  have hnd := h.nodup
  have hb := h.bound
  cases hc : s.cur with
  | idle => left; simp [Node.step, NodeSpec.step, h.threads, getThread, hc, pcOf]
  | inAction p => left; simp [Node.step, NodeSpec.step, h.threads, getThread, hc, pcOf]
  | toLink p q w =>
    right
    simp only [allIds, hc, idsC] at hnd hb
    have hndLC : (idsL s.reqs ++ [p.id, q.id]).Nodup := (List.nodup_append.mp hnd).1
    have hd := (List.nodup_append.mp hndLC)
    have hpq : p.id ≠ q.id := by have := hd.2.1; simp at this; exact this
    have hfp : p.id ∉ idsL s.reqs := fun hx => hd.2.2 _ hx _ (by simp) rfl
    have hfq : q.id ∉ idsL s.reqs := fun hx => hd.2.2 _ hx _ (by simp) rfl
    refine ⟨{ n with tr := link n.tr p.id q.id, threads := [{ inbox := s.inbox, pc := .emit [.write (some w) q] }] },
      { s with cur := .linked p q w }, [], ?_, ?_, ?_⟩
    · simp [Node.step, h.threads, getThread, setThread, hc, pcOf]
    · simp [NodeSpec.step, hc]
    · refine ⟨h.kind, h.strict, h.npanic, rfl, trel_link s n.tr p q w h.trel hc hpq hfp hfq, ?_, ?_⟩
      · simpa [allIds, idsC] using hnd
      · intro k hk; exact hb k (by simpa [allIds, idsC] using hk)
  | linked p q w =>
    right
    have hnd0 := hnd
    simp only [allIds, hc, idsC] at hnd hb
    have hndLC : (idsL s.reqs ++ [p.id, q.id]).Nodup := (List.nodup_append.mp hnd).1
    have hd := (List.nodup_append.mp hndLC)
    have hpq : p.id ≠ q.id := by have := hd.2.1; simp at this; exact this
    have hfp : p.id ∉ idsL s.reqs := fun hx => hd.2.2 _ hx _ (by simp) rfl
    have hfq : q.id ∉ idsL s.reqs := fun hx => hd.2.2 _ hx _ (by simp) rfl
    cases acc with
    | true =>
      obtain ⟨ht, hev⟩ := trel_write_acc s n.tr p q w (.pay q.pay) h.trel hc hpq hfp hfq
      refine ⟨{ n with tr := (write true n.tr (some w) q.id (.pay q.pay) true).1,
                       threads := [{ inbox := s.inbox, pc := .idle }] },
        { s with reqs := s.reqs ++ [⟨p.id, .written q.id w⟩], cur := .idle }, [], ?_, ?_, ?_⟩
      · simp [Node.step, h.threads, getThread, setThread, hc, pcOf, h.strict, ← hev]
      · simp [NodeSpec.step, hc]
      · refine ⟨h.kind, h.strict, h.npanic, rfl, ht, ?_, ?_⟩
        · simpa [allIds, idsC, idsL_append, idsE] using hnd
        · intro k hk; exact hb k (by simpa [allIds, idsC, idsL_append, idsE] using hk)
    | false =>
      have hndLC' : (idsL s.reqs ++ idsC s.cur).Nodup := by rw [hc]; exact hndLC
      obtain ⟨t', hw, ht⟩ := trel_write_rej s n.tr p q w (.pay q.pay) h.trel hc hndLC'
      refine ⟨{ n with tr := t', threads := [{ inbox := s.inbox, pc := .idle }] },
        { s with reqs := (flushS (s.reqs ++ [⟨p.id, .done (.pay q.pay)⟩])).1, cur := .idle },
        (flushS (s.reqs ++ [⟨p.id, .done (.pay q.pay)⟩])).2, ?_, ?_, ?_⟩
      · simp [Node.step, h.threads, getThread, setThread, hc, pcOf, h.strict, hw]
      · simp [NodeSpec.step, hc]
      · have hsub : (idsL (flushS (s.reqs ++ [⟨p.id, .done (.pay q.pay)⟩])).1).Sublist (idsL s.reqs ++ [p.id, q.id]) := by
          refine List.Sublist.trans (idsL_sublist (flush_sublist _)) ?_
          simp only [idsL_append, idsE]
          exact List.Sublist.append (List.Sublist.refl _) (by simp)
        have hsub2 : (allIds { s with reqs := (flushS (s.reqs ++ [⟨p.id, .done (.pay q.pay)⟩])).1, cur := .idle }).Sublist
            (idsL s.reqs ++ [p.id, q.id] ++ List.map (fun x => x.id) s.inbox) := by
          simp only [allIds, idsC, List.append_nil]
          exact List.Sublist.append hsub (List.Sublist.refl _)
        refine ⟨h.kind, h.strict, h.npanic, rfl, ht, List.Nodup.sublist hsub2 hnd, ?_⟩
        intro k hk; exact hb k (hsub2.subset hk)

theorem sim_answer (s : S) (n : Node) (nx : Nat) (w : Wid) (a : Ans) (h : Rel s n nx) :
    SimStep s n (.answer w a) nx := by
  have hnd := h.nodup
  have hb := h.bound
  have hndLC : (idsL s.reqs ++ idsC s.cur).Nodup := by
    simp only [allIds] at hnd; exact (List.nodup_append.mp hnd).1
  cases hm : markDone w a s.reqs with
  | none =>
    left
    have hw := markDone_none w a s.reqs hm
    have : getL n.tr.writes w = [] := by simp [getL_eq, h.trel.writes w, hw, optL]
    simp [Node.step, NodeSpec.step, this, hm]
  | some rs =>
    right
    obtain ⟨t', hr, hne, ht, hsub⟩ := trel_answer s n.tr w a rs h.trel hndLC hm
    refine ⟨{ n with tr := t' }, { s with reqs := (flushS rs).1 }, (flushS rs).2, ?_, ?_, ?_⟩
    · cases hg : getL n.tr.writes w with
      | nil => exact absurd hg hne
      | cons x xs => simp [Node.step, hg, h.strict, hr]
    · simp [NodeSpec.step, hm]
    · have hsub2 : (allIds { s with reqs := (flushS rs).1 }).Sublist (allIds s) := by
        simp only [allIds]
        exact List.Sublist.append (List.Sublist.append
          (List.Sublist.trans (idsL_sublist (flush_sublist _)) hsub) (List.Sublist.refl _)) (List.Sublist.refl _)
      refine ⟨h.kind, h.strict, h.npanic, h.threads, ht, List.Nodup.sublist hsub2 hnd, ?_⟩
      intro k hk; exact hb k (hsub2.subset hk)

theorem rel_mono (s : S) (n : Node) (nx nx' : Nat) (h : Rel s n nx) (hle : nx ≤ nx') : Rel s n nx' :=
  ⟨h.kind, h.strict, h.npanic, h.threads, h.trel, h.nodup, fun k hk => Nat.lt_of_lt_of_le (h.bound k hk) hle⟩

theorem sim_cons (s : S) (n : Node) (st : Step) (rest : List Step) (nx nx' : Nat)
    (h : Rel s n nx) (hle : nx ≤ nx') (hs : SimStep s n st nx')
    (ih : ∀ s' n', Rel s' n' nx' →
      (Node.run n' rest).2 = (run s' rest).2 ∧ ∃ nx'', Rel (run s' rest).1 (Node.run n' rest).1 nx'') :
    (Node.run n (st :: rest)).2 = (run s (st :: rest)).2 ∧
      ∃ nx'', Rel (run s (st :: rest)).1 (Node.run n (st :: rest)).1 nx'' := by
  rcases hs with ⟨h1, h2⟩ | ⟨n', s', ev, h1, h2, hr⟩
  · simp only [Node.run, run, h1, h2]
    exact ih s n (rel_mono s n nx nx' h hle)
  · simp only [Node.run, run, h1, h2]
    obtain ⟨e, nx'', r⟩ := ih s' n' hr
    exact ⟨by rw [e], nx'', r⟩

theorem sim_run : ∀ (as : List AStep) (s : S) (n : Node) (nx : Nat), Rel s n nx →
    (Node.run n (concr nx as)).2 = (run s (concr nx as)).2 ∧
      ∃ nx', Rel (run s (concr nx as)).1 (Node.run n (concr nx as)).1 nx' := by
  intro as
  induction as with
  | nil => intro s n nx h; exact ⟨rfl, nx, h⟩
  | cons x as ih =>
    intro s n nx h
    cases x with
    | deliver v =>
      exact sim_cons s n _ _ nx (nx + 1) h (Nat.le_succ _) (sim_deliver s n nx v h) (fun s' n' r => ih s' n' _ r)
    | read =>
      exact sim_cons s n _ _ nx nx h (Nat.le_refl _) (sim_read s n nx h) (fun s' n' r => ih s' n' _ r)
    | finishOut v =>
      exact sim_cons s n _ _ nx (nx + 1) h (Nat.le_succ _)
        (sim_finish s n nx v _ (outW 0) h (Or.inl ⟨rfl, rfl⟩)) (fun s' n' r => ih s' n' _ r)
    | finishErr v =>
      exact sim_cons s n _ _ nx (nx + 1) h (Nat.le_succ _)
        (sim_finish s n nx v _ errW h (Or.inr ⟨rfl, rfl⟩)) (fun s' n' r => ih s' n' _ r)
    | op acc =>
      exact sim_cons s n _ _ nx nx h (Nat.le_refl _) (sim_op s n nx acc h) (fun s' n' r => ih s' n' _ r)
    | answer w a =>
      exact sim_cons s n _ _ nx nx h (Nat.le_refl _) (sim_answer s n nx w a h) (fun s' n' r => ih s' n' _ r)

theorem quiescent_empty (s : S) (n : Node) (nx : Nat) (h : Rel s n nx) (hq : quiescent s) :
    isEmpty n.tr = true := by
  obtain ⟨hr, hc⟩ := hq
  have ht := h.trel
  have hinfo : ∀ k, info s k = {} := by intro k; simp [info, hr, hc, infoL, infoC]
  have e1 : n.tr.receives = [] := eq_nil_of_aget _ (fun k => by rw [ht.recv k, hinfo])
  have e2 : n.tr.sources = [] := eq_nil_of_aget _ (fun k => by rw [ht.src k, hinfo])
  have e3 : n.tr.targets = [] := eq_nil_of_aget _ (fun k => by rw [ht.tgt k, hinfo])
  have e4 : n.tr.reader = [] := eq_nil_of_aget _ (fun k => by rw [ht.rdr k, hinfo])
  have e5 : n.tr.reads = [] := eq_nil_of_aget _ (fun r => by
    rw [ht.reads r]; simp [readsOf, hr, hc, curRead, optL])
  have e6 : n.tr.writes = [] := eq_nil_of_aget _ (fun w => by
    rw [ht.writes w]; simp [hr, writesOf, optL])
  simp [isEmpty, e1, e2, e3, e4, e5, e6, ht.hooks]

/-! ### replies tagged with the request they answer (ghost version of the specification) -/

def flushT : List EReq → List EReq × List (Pid × Ans)
  | ⟨p, .done a⟩ :: rs =>
    let (rs', ev) := flushT rs
    (rs', (p, a) :: ev)
  | rs => (rs, [])

def untag (l : List (Pid × Ans)) : List Ev := l.map (fun x => Ev.reply 0 x.2)

theorem flushT_erase (rs : List EReq) : (flushT rs).1 = (flushS rs).1 ∧ untag (flushT rs).2 = (flushS rs).2 := by
  induction rs with
  | nil => simp [flushT, flushS, untag]
  | cons r rs ih =>
    obtain ⟨p, st⟩ := r
    cases st with
    | written q w => simp [flushT, flushS, untag]
    | done a => simp only [flushT, flushS, untag, List.map_cons] at ih ⊢; exact ⟨ih.1, by rw [ih.2]⟩

/-- the answered requests (in the order answered) followed by the ones left are the original list -/
theorem flushT_order (rs : List EReq) :
    (flushT rs).2.map (·.1) ++ (flushT rs).1.map (·.p) = rs.map (·.p) := by
  induction rs with
  | nil => simp [flushT]
  | cons r rs ih =>
    obtain ⟨p, st⟩ := r
    cases st with
    | written q w => simp [flushT]
    | done a => simp only [flushT, List.map_cons, List.cons_append]; rw [ih]

/-- every tagged reply carries the answer its request was completed with -/
theorem flushT_content (rs : List EReq) : ∀ x ∈ (flushT rs).2, (⟨x.1, .done x.2⟩ : EReq) ∈ rs := by
  induction rs with
  | nil => simp [flushT]
  | cons r rs ih =>
    obtain ⟨p, st⟩ := r
    cases st with
    | written q w => simp [flushT]
    | done a =>
      intro x hx
      simp only [flushT, List.mem_cons] at hx
      rcases hx with e | hx
      · subst e; simp
      · exact List.mem_cons_of_mem _ (ih x hx)

theorem markDone_map (w : Wid) (a : Ans) (rs rs' : List EReq) (h : markDone w a rs = some rs') :
    rs'.map (·.p) = rs.map (·.p) := by
  induction rs generalizing rs' with
  | nil => simp [markDone] at h
  | cons r rs ih =>
    obtain ⟨p0, st⟩ := r
    cases st with
    | written q0 w0 =>
      simp only [markDone] at h
      by_cases hw : w0 = w
      · simp only [hw, if_true, Option.some.injEq] at h; subst h; simp
      · simp only [hw, if_false] at h
        cases hm : markDone w a rs with
        | none => simp [hm] at h
        | some x => simp only [hm, Option.some.injEq] at h; subst h; simp [ih x hm]
    | done b =>
      simp only [markDone] at h
      cases hm : markDone w a rs with
      | none => simp [hm] at h
      | some x => simp only [hm, Option.some.injEq] at h; subst h; simp [ih x hm]

/-- `step` with tagged replies -/
def stepT (s : S) (st : Step) : Option (S × List (Pid × Ans)) :=
  match st with
  | .op 0 false =>
    match s.cur with
    | .linked p q _ =>
      let r := flushT (s.reqs ++ [⟨p.id, .done (.pay q.pay)⟩])
      some ({ s with reqs := r.1, cur := .idle }, r.2)
    | _ => (step s st).map (fun x => (x.1, []))
  | .answer w a =>
    match markDone w a s.reqs with
    | some rs => let r := flushT rs; some ({ s with reqs := r.1 }, r.2)
    | none => none
  | _ => (step s st).map (fun x => (x.1, []))

theorem stepT_erase (s : S) (st : Step) :
    (stepT s st).map (fun x => (x.1, untag x.2)) = step s st := by
  cases st with
  | deliver i p => cases i <;> simp [stepT, step, untag]
  | read i =>
    cases i with
    | zero => simp only [stepT, step]; split <;> simp [untag]
    | succ i => simp [stepT, step]
  | finish i o =>
    simp only [stepT]
    cases h : step s (.finish i o) with
    | none => simp
    | some x =>
      obtain ⟨s', ev⟩ := x
      have : ev = [] := by
        cases i with
        | succ i => simp [step] at h
        | zero =>
          cases o with
          | err q => simp only [step] at h; split at h <;> simp at h <;> first | exact h.2 | exact h.2.symm
          | outs qs =>
            match qs, h with
            | [some q], h => simp only [step] at h; split at h <;> simp at h <;> first | exact h.2 | exact h.2.symm
            | [], h => simp [step] at h
            | none :: _, h => simp [step] at h
            | some _ :: _ :: _, h => simp [step] at h
      simp [this, untag]
  | op i acc =>
    cases i with
    | succ i => cases acc <;> simp [stepT, step]
    | zero =>
      cases acc with
      | true => simp only [stepT, step]; split <;> simp [untag]
      | false =>
        simp only [stepT, step]
        split
        · rename_i p q w hc
          have := flushT_erase (s.reqs ++ [⟨p.id, .done (.pay q.pay)⟩])
          simp [hc, this.1, this.2]
        · rename_i hc
          cases hcur : s.cur with
          | linked p q w => exact absurd hcur (hc p q w)
          | idle => simp
          | inAction p => simp
          | toLink p q w => simp [untag]
  | answer w a =>
    simp only [stepT, step]
    cases markDone w a s.reqs with
    | none => simp
    | some rs => have := flushT_erase rs; simp [this.1, this.2]
/-- the request a `read` step takes from the inbox (ghost) -/
def newRead (s : S) : Step → List Pid
  | .read 0 =>
    match s.cur, s.inbox with
    | .idle, p :: _ => [p.id]
    | _, _ => []
  | _ => []

theorem stepT_order (s s' : S) (st : Step) (ev : List (Pid × Ans)) (h : stepT s st = some (s', ev)) :
    ev.map (·.1) ++ readsOf s' = readsOf s ++ newRead s st := by
  cases st with
  | deliver i p =>
    cases i with
    | zero => simp [stepT, step] at h; obtain ⟨rfl, rfl⟩ := h; simp [readsOf, newRead]
    | succ i => simp [stepT, step] at h
  | read i =>
    cases i with
    | succ i => simp [stepT, step] at h
    | zero =>
      simp only [stepT, step] at h
      split at h
      · rename_i p rest hc hi
        simp at h; obtain ⟨rfl, rfl⟩ := h
        simp [readsOf, newRead, hc, hi, curRead]
      · simp at h
  | finish i o =>
    simp only [stepT] at h
    cases hs : step s (.finish i o) with
    | none => simp [hs] at h
    | some x =>
      simp [hs] at h; obtain ⟨rfl, rfl⟩ := h
      cases i with
      | succ i => simp [step] at hs
      | zero =>
        cases o with
        | err q =>
          simp only [step] at hs; split at hs
          · rename_i p hc; simp at hs; rw [← hs]; simp [readsOf, newRead, hc, curRead]
          · simp at hs
        | outs qs =>
          match qs, hs with
          | [some q], hs =>
            simp only [step] at hs; split at hs
            · rename_i p hc; simp at hs; rw [← hs]; simp [readsOf, newRead, hc, curRead]
            · simp at hs
          | [], hs => simp [step] at hs
          | none :: _, hs => simp [step] at hs
          | some _ :: _ :: _, hs => simp [step] at hs
  | op i acc =>
    cases i with
    | succ i => cases acc <;> simp [stepT, step] at h
    | zero =>
      cases hc : s.cur with
      | idle => cases acc <;> simp [stepT, step, hc] at h
      | inAction p => cases acc <;> simp [stepT, step, hc] at h
      | toLink p q w =>
        cases acc <;> (simp [stepT, step, hc] at h; obtain ⟨rfl, rfl⟩ := h; simp [readsOf, newRead, hc, curRead])
      | linked p q w =>
        cases acc with
        | true =>
          simp [stepT, step, hc] at h; obtain ⟨rfl, rfl⟩ := h
          simp [readsOf, newRead, hc, curRead]
        | false =>
          simp [stepT, hc] at h; obtain ⟨rfl, rfl⟩ := h
          have := flushT_order (s.reqs ++ [⟨p.id, .done (.pay q.pay)⟩])
          simp only [readsOf, newRead, hc, curRead, List.append_nil]
          rw [this]; simp
  | answer w a =>
    simp only [stepT] at h
    cases hm : markDone w a s.reqs with
    | none => simp [hm] at h
    | some rs =>
      simp [hm] at h; obtain ⟨rfl, rfl⟩ := h
      have h1 := flushT_order rs
      have h2 := markDone_map w a s.reqs rs hm
      simp only [readsOf, newRead, List.append_nil]
      rw [← List.append_assoc, h1, h2]

def runT : S → List Step → S × List (Pid × Ans)
  | s, [] => (s, [])
  | s, st :: sts =>
    match stepT s st with
    | none => runT s sts
    | some (s', ev) =>
      let (s'', ev') := runT s' sts
      (s'', ev ++ ev')

/-- the requests read during a run, in the order read (ghost) -/
def readLog : S → List Step → List Pid
  | _, [] => []
  | s, st :: sts =>
    match stepT s st with
    | none => readLog s sts
    | some (s', _) => newRead s st ++ readLog s' sts

theorem runT_order (sched : List Step) : ∀ s : S,
    (runT s sched).2.map (·.1) ++ readsOf (runT s sched).1 = readsOf s ++ readLog s sched := by
  induction sched with
  | nil => intro s; simp [runT, readLog]
  | cons st sts ih =>
    intro s
    simp only [runT, readLog]
    cases h : stepT s st with
    | none => simpa using ih s
    | some x =>
      obtain ⟨s', ev⟩ := x
      have h1 := stepT_order s s' st ev h
      have h2 := ih s'
      simp only [List.map_append, List.append_assoc]
      rw [h2, ← List.append_assoc, h1, List.append_assoc]

theorem runT_erase (sched : List Step) : ∀ s : S,
    (runT s sched).1 = (run s sched).1 ∧ untag (runT s sched).2 = (run s sched).2 := by
  induction sched with
  | nil => intro s; simp [runT, run, untag]
  | cons st sts ih =>
    intro s
    have he := stepT_erase s st
    simp only [runT, run]
    cases h : stepT s st with
    | none => rw [h] at he; simp at he; rw [← he]; exact ih s
    | some x =>
      obtain ⟨s', ev⟩ := x
      rw [h] at he; simp at he; rw [← he]
      have := ih s'
      simp only [untag, List.map_append] at this ⊢
      exact ⟨this.1, by rw [this.2]⟩
end Uniflow.NodeSpec
