/-
C02, joint model, nodes with several in-ports, part 2: thread `i` – the action's return (with or without derived
packets) and `Link`.
-/
import Uniflow.Proofs.FlowM1

namespace Uniflow.FlowM
open Uniflow.Tracer Uniflow.Node Uniflow.Flow Uniflow.FlowInv Uniflow.FlowG Uniflow.ATracer Uniflow.FlowH

theorem nlT_inb (i : Rid) (th : Thread) (a : A) : ∀ p ∈ th.inbox, p.id ∈ nlIdsT i th a := fun p hp => by
  simp only [nlIdsT, List.mem_append]; left; left; left; exact List.mem_map_of_mem hp

theorem nlT_req (i : Rid) (th : Thread) (a : A) : ∀ x ∈ a.reqs, x.r = i → x.p ∈ nlIdsT i th a := fun x hx hr => by
  simp only [nlIdsT, List.mem_append]; left; left; right
  exact List.mem_map_of_mem (List.mem_filter.mpr ⟨hx, by simp [hr]⟩)

theorem nlT_linked (i : Rid) (th : Thread) (a : A) :
    ∀ x ∈ a.reqs, x.r = i → ∀ q ∈ linkedIds (cellsOfSt x.st), q ∈ nlIdsT i th a := fun x hx hr q hq => by
  simp only [nlIdsT, List.mem_append]; left; right
  exact List.mem_flatMap.mpr ⟨x, List.mem_filter.mpr ⟨hx, by simp [hr]⟩, hq⟩

theorem nlT_rem (i : Rid) (th : Thread) (a : A) :
    ∀ x ∈ a.reqs, x.r = i → ∀ q ∈ remFor th.pc x.p, q ∈ nlIdsT i th a := fun x hx hr q hq => by
  simp only [nlIdsT, List.mem_append]; right
  exact List.mem_flatMap.mpr ⟨x, List.mem_filter.mpr ⟨hx, by simp [hr]⟩, hq⟩

/-- the action returns: the derived packets are recorded (`acts`), none is registered yet -/
theorem nlt_finish (lg lg' : Log) (n : Nat) (i : Rid) (a : A) (p : Pkt) (grp inbox : List Pkt) (ops : List Op)
    (h : NLt lg n i { inbox := inbox, pc := .action p grp } a) (hnd : (ids a.reqs).Nodup)
    (hX : (⟨p.id, i, .cells []⟩ : Req) ∈ a.reqs) (hpi : ∀ q ∈ inbox, q.id ≠ p.id)
    (hsrc1 : remOps p.id ops = linkTargets ops) (hsrc2 : ∀ p', p' ≠ p.id → remOps p' ops = [])
    (hlt : linkTargets ops ≠ []) (hwb : wOK (.emit ops))
    (hx : LogExt lg lg' p.id) (hacts : aget lg'.acts p.id = optl (linkTargets ops))
    (he : aget lg'.echo p.id = none) (hs : aget lg'.sinkAns p.id = none) (hd : aget lg'.dels p.id = none)
    (hrem : ∀ t ∈ linkTargets ops, Unlogged lg' t ∧ aget lg'.owner t = some (qTag n))
    (ho : ∀ id ∈ nlIdsT i { inbox := inbox, pc := .action p grp } a, aget lg'.owner id = aget lg.owner id) :
    NLt lg' n i { inbox := inbox, pc := .emit ops } a := by
  refine ⟨?_, ?_, ?_, ?_, hwb⟩
  rotate_left 3
  · intro x hx' hxr hst
    rcases h.nz x hx' hxr hst with e | ⟨pk, grp, e, e2⟩ | ⟨w, q, e | e, _⟩
    · simp [remFor] at e
    · simp only [PC.action.injEq] at e
      left
      simp only [remFor]
      rw [← e2, ← e.1, hsrc1]; exact hlt
    · cases e
    · cases e
  · intro q hq
    obtain ⟨u, o⟩ := h.inb q hq
    exact ⟨unlogged_ext lg lg' p.id hx q.id (hpi q hq) u, by rw [ho _ (nlT_inb i _ a q hq)]; exact o⟩
  · intro x hx' hxr; rw [ho _ (nlT_req i _ a x hx' hxr)]; exact h.own x hx' hxr
  · intro x hx' hxr
    by_cases e : x.p = p.id
    · have : x = ⟨p.id, i, .cells []⟩ := mem_unique a.reqs x _ p.id hnd hx' hX (by simp [idsR, e]) (by simp [idsR])
      subst this
      left
      simp only [ReqA, remFor, hsrc1]
      exact ⟨[], trivial, by simpa using hacts, he, hs, hd, Or.inr rfl, hrem⟩
    · obtain ⟨s1, s2, s3, s4⟩ := hx.2 x.p e
      rcases h.req x hx' hxr with hr | ⟨v, e1, e2, _⟩
      rotate_left
      · exact Or.inr ⟨v, e1, ra_ext lg lg' p.id hx x.p v e2, by simp only [remFor]; exact hsrc2 x.p e⟩
      left
      simp only [ReqA, remFor] at hr ⊢
      rw [hsrc2 x.p e]
      cases hst : x.st with
      | direct w => trivial
      | cells cs =>
        rw [hst] at hr
        obtain ⟨qs, a1, a2, a3, a4, a5, a6, a7⟩ := hr
        refine ⟨qs, ?_, by rw [s1]; exact a2, by rw [s3]; exact a3, by rw [s4]; exact a4, by rw [s2]; exact a5,
          Or.inl rfl, by simp⟩
        apply all2_cellA_ext lg lg' p.id hx n qs cs _ a1
        intro q' hq'
        refine ⟨fun e2 => ?_, ho q' (nlT_linked i _ a x hx' hxr q' (by rw [hst]; exact hq'))⟩
        have := mem_unique a.reqs x _ p.id hnd hx' hX (e2 ▸ linked_in_idsR x cs hst q' hq') (by simp [idsR])
        rw [this] at e; exact e rfl

/-- the action returned nothing: the program is the single `Write(nil, in)` -/
theorem nlt_finish_echo (lg : Log) (n : Nat) (i : Rid) (a : A) (p : Pkt) (grp inbox : List Pkt)
    (h : NLt lg n i { inbox := inbox, pc := .action p grp } a) :
    NLt lg n i { inbox := inbox, pc := .emit [.write none p] } a := by
  refine ⟨h.inb, h.own, ?_, ?_, ?_⟩
  · intro x hx hxr
    rcases h.req x hx hxr with hr | ⟨v, e1, e2, _⟩
    · left; simpa [ReqA, remFor, remOps] using hr
    · exact Or.inr ⟨v, e1, e2, rfl⟩
  · intro x hx hxr hst
    rcases h.nz x hx hxr hst with e | ⟨pk, grp', e, e2⟩ | ⟨w, q, e | e, _⟩
    · simp [remFor] at e
    · simp only [PC.action.injEq] at e
      exact Or.inr (Or.inr ⟨none, p, Or.inl rfl, by rw [e.1]; exact e2⟩)
    · cases e
    · cases e
  · intro w q hm; simp at hm

/-- `Link(p, t)`: the next derived packet is registered -/
theorem nlt_link (lg : Log) (n : Nat) (i : Rid) (a : A) (inbox : List Pkt) (p t : Pid) (ops : List Op)
    (h : NLt lg n i { inbox := inbox, pc := .emit (.link p t :: ops) } a) (hnd : (ids a.reqs).Nodup)
    (cs : List Cell) (hX : (⟨p, i, .cells cs⟩ : Req) ∈ a.reqs) (hpt : p ≠ t) :
    NLt lg n i { inbox := inbox, pc := nextPc ops } (alink a p t) := by
  have hf := findReq_of_mem a.reqs _ hnd hX
  have hreqs : (alink a p t).reqs =
      updReq p (fun st => match st with | .cells cs => .cells (cs ++ [.linked t]) | s => s) a.reqs := by
    simp only [alink, hpt, if_false, hf]
    rfl
  have hcases := mem_updReq_cases p (fun st => match st with | .cells cs => .cells (cs ++ [.linked t]) | s => s)
    a.reqs
  refine ⟨h.inb, ?_, ?_, ?_, wOK_next _ ops h.wb⟩
  rotate_left 2
  · intro y hy hyr hst
    rw [hreqs] at hy
    rcases hcases y (nodup_p _ hnd) hy with ⟨h1, h2⟩ | ⟨x, h1, h2, h3⟩
    · rcases h.nz y h1 hyr hst with e | ⟨pk, grp, e, _⟩ | ⟨w, q, e | e, _⟩
      · left
        rw [remFor_next] at e
        simpa [Ne.symm h2] using e
      · cases e
      · simp at e
      · simp only [PC.emit.injEq, List.cons.injEq, Op.link.injEq] at e
        exact absurd (e.1.1.trans e.1.2.symm) hpt
    · have hxe : x = ⟨p, i, .cells cs⟩ := mem_unique a.reqs x _ p hnd h1 hX (by simp [idsR, h2]) (by simp [idsR])
      subst hxe
      rw [h3] at hst
      simp at hst
  · intro y hy hyr
    rw [hreqs] at hy
    rcases hcases y (nodup_p _ hnd) hy with ⟨h1, _⟩ | ⟨x, h1, _, h3⟩
    · exact h.own y h1 hyr
    · rw [h3] at hyr ⊢; exact h.own x h1 hyr
  · intro y hy hyr
    rw [hreqs] at hy
    rcases hcases y (nodup_p _ hnd) hy with ⟨h1, h2⟩ | ⟨x, h1, h2, h3⟩
    · have hrf : remFor (nextPc ops) y.p = remFor (.emit (.link p t :: ops)) y.p := by
        rw [remFor_next]; simp [Ne.symm h2]
      rcases h.req y h1 hyr with hr | ⟨v, e1, e2, e3⟩
      · left
        simp only [ReqA] at hr ⊢
        rw [hrf]; exact hr
      · exact Or.inr ⟨v, e1, e2, by rw [hrf]; exact e3⟩
    · have hxe : x = ⟨p, i, .cells cs⟩ := mem_unique a.reqs x _ p hnd h1 hX (by simp [idsR, h2]) (by simp [idsR])
      subst hxe
      subst h3
      rcases h.req _ h1 rfl with hr | ⟨v, _, _, e3⟩
      rotate_left
      · simp [remFor, remOps, hpt] at e3
      left
      simp only [ReqA] at hr ⊢
      rw [remFor_next] at hr
      simp only [if_true, hpt, if_false] at hr
      obtain ⟨qs, a1, a2, a3, a4, a5, a6', a7⟩ := hr
      have ht := a7 t (by simp)
      refine ⟨qs ++ [t], all2_append _ _ _ _ _ a1 ⟨rfl, ht.1, ht.2⟩, ?_, a3, a4, a5, Or.inr ?_, ?_⟩
      · rw [a2]; simp
      · rcases a6' with e | e
        · simp at e
        · rw [allLinked_append, e]; rfl
      · intro t' ht'; exact a7 t' (by simp [ht'])

/-- `Link(p, p)` – the action returned its input packet –: the tracer ignores the call, nothing is registered -/
theorem nlt_link_self (lg : Log) (n : Nat) (i : Rid) (a : A) (inbox : List Pkt) (p : Pid) (w : Option Wid) (q : Pkt)
    (h : NLt lg n i { inbox := inbox, pc := .emit [.link p p, .write w q] } a) :
    NLt lg n i { inbox := inbox, pc := .emit [.write w q] } a := by
  have hrem : ∀ p', remFor (.emit [.write w q]) p' = remFor (.emit [.link p p, .write w q]) p' := by
    intro p'; simp only [remFor, remOps]; split <;> simp
  refine ⟨h.inb, h.own, ?_, ?_, ?_⟩
  · intro x hx hxr
    rcases h.req x hx hxr with hr | ⟨v, e1, e2, e3⟩
    · left; simp only [ReqA] at hr ⊢; rw [hrem]; exact hr
    · exact Or.inr ⟨v, e1, e2, by rw [hrem]; exact e3⟩
  · intro x hx hxr hst
    rcases h.nz x hx hxr hst with e | ⟨pk, grp, e, _⟩ | ⟨w', q', e | e, e2⟩
    · left; rw [hrem]; exact e
    · cases e
    · simp at e
    · simp only [PC.emit.injEq, List.cons.injEq, Op.write.injEq, and_true] at e
      exact Or.inr (Or.inr ⟨w, q, Or.inl rfl, by rw [e.2.2]; exact e2⟩)
  · intro w' q' hm
    exact h.wb w' q' (List.mem_cons_of_mem _ hm)

/-- the action returned its input packet: the program is `Link(p, p); Write(w, p)` -/
theorem nlt_finish_same (lg : Log) (n : Nat) (i : Rid) (a : A) (p : Pkt) (grp inbox : List Pkt) (w : Wid) (q : Pkt)
    (hq : q.id = p.id) (hw : w < maxW)
    (h : NLt lg n i { inbox := inbox, pc := .action p grp } a) :
    NLt lg n i { inbox := inbox, pc := .emit [.link p.id q.id, .write (some w) q] } a := by
  have hrem : ∀ p', remFor (.emit [.link p.id q.id, .write (some w) q]) p' = [] := by
    intro p'; simp only [remFor, remOps, hq]; split <;> simp
  refine ⟨h.inb, h.own, ?_, ?_, ?_⟩
  · intro x hx hxr
    rcases h.req x hx hxr with hr | ⟨v, e1, e2, _⟩
    · left; simp only [ReqA] at hr ⊢; rw [hrem]; simpa [remFor] using hr
    · exact Or.inr ⟨v, e1, e2, hrem _⟩
  · intro x hx hxr hst
    rcases h.nz x hx hxr hst with e | ⟨pk, grp', e, e2⟩ | ⟨w', q', e | e, _⟩
    · simp [remFor] at e
    · simp only [PC.action.injEq] at e
      refine Or.inr (Or.inr ⟨some w, q, Or.inr ?_, by rw [hq, e.1]; exact e2⟩)
      rw [hq, ← e2, ← e.1]
    · cases e
    · cases e
  · intro w' q' hm
    simp only [List.mem_cons, Op.write.injEq, Option.some.injEq, List.mem_nil_iff, or_false, reduceCtorEq, false_or] at hm
    rw [hm.1]; exact hw

end Uniflow.FlowM
