/-
Helper lemmas for C03 (`Uniflow.Teardown`): the per-component invariant, its preservation by
every component step, and the lifting of component facts to the system (every system step acts
on each component as a list of component steps).
-/
import Uniflow.Model.Teardown
import Uniflow.Props.C01

namespace Uniflow.TeardownProofs
open Uniflow Uniflow.Writer Uniflow.Teardown Uniflow.WriterProofs

/-! ### Facts about the writer machine that C01 did not need -/

theorem accepts_eq (st : Writer.Step) (o : Writer.Out) : accepts st o = isAccepted st o := by
  cases st <;> rfl

theorem receive_done (m : W) (a : Ans) (r : RId) (g w : Nat) : (receive m a r g w).1.done = m.done := by
  simp only [receive, receiveWith]
  repeat (first | rfl | split)

/-- Only `closeW` changes `done`. -/
theorem step_done (m : W) (st : Writer.Step) (h : isClose st = false) : (Writer.step m st).1.done = m.done := by
  cases st with
  | link r => simp only [Writer.step, stepWith]; repeat (first | rfl | split)
  | unlink r => simp only [Writer.step, stepWith]; repeat (first | rfl | split)
  | write v => simp only [Writer.step, stepWith]; repeat (first | rfl | split)
  | answer r a =>
    simp only [Writer.step, stepWith]; split
    · rfl
    · rw [receive_done]
  | pop r a => simp only [Writer.step, stepWith]; repeat (first | rfl | split)
  | deliver r k =>
    simp only [Writer.step, stepWith]; split
    · rfl
    · rw [receive_done]
  | closeR r => simp only [Writer.step, stepWith]; repeat (first | rfl | split)
  | deliverDrop r =>
    simp only [Writer.step, stepWith]; split
    · rfl
    · simp only; rw [receive_done]
  | closeW => simp [isClose] at h

theorem closeW_done (m : W) : (Writer.step m .closeW).1.done = true := by
  simp only [Writer.step, stepWith]; split
  · assumption
  · rfl

theorem closeW_rows (m : W) (h : m.done = true → m.rows = []) : (Writer.step m .closeW).1.rows = [] := by
  simp only [Writer.step, stepWith]; split
  · rename_i hd; exact h hd
  · rfl

/-- A closed writer emits nothing and keeps no rows. -/
theorem done_quiet (m : W) (st : Writer.Step) (hd : m.done = true) (hr : m.rows = []) :
    (Writer.step m st).2.emits = [] ∧ (Writer.step m st).1.rows = [] ∧ (Writer.step m st).1.done = true := by
  cases st with
  | link r => simp [Writer.step, stepWith, hd, hr]
  | unlink r => simp [Writer.step, stepWith, hd, hr]
  | write v => simp [Writer.step, stepWith, hd, hr]
  | answer r a =>
    simp only [Writer.step, stepWith]; split
    · exact ⟨rfl, hr, hd⟩
    · simp [receive, receiveWith, hd, hr]
  | pop r a => simp only [Writer.step, stepWith]; split <;> exact ⟨rfl, hr, hd⟩
  | deliver r k =>
    simp only [Writer.step, stepWith]; split
    · exact ⟨rfl, hr, hd⟩
    · simp [receive, receiveWith, hd, hr]
  | closeR r => simp only [Writer.step, stepWith]; split <;> exact ⟨rfl, hr, hd⟩
  | deliverDrop r =>
    simp only [Writer.step, stepWith]; split
    · exact ⟨rfl, hr, hd⟩
    · simp [receive, receiveWith, hd, hr]
  | closeW => simp [Writer.step, stepWith, hd, hr]

/-! ### The pump under `enqAll` -/

theorem enqAll_open (rule : Pump.Rule) (p : Pump.P Resp) (es : List Resp) (h : p.inClosed = false) :
    (enqAll rule p es).buf = p.buf ++ es ∧ (enqAll rule p es).pushed = p.pushed ++ es ∧
    (enqAll rule p es).delivered = p.delivered ∧ (enqAll rule p es).inClosed = false ∧
    (enqAll rule p es).exited = p.exited := by
  induction es generalizing p with
  | nil => simp [enqAll, h]
  | cons a rest ih =>
    simp only [enqAll]
    have hs : Pump.stepR rule p (.enq a) = { p with buf := p.buf ++ [a], pushed := p.pushed ++ [a] } := by
      simp [Pump.stepR, h]
    rw [hs]
    obtain ⟨h1, h2, h3, h4, h5⟩ := ih { p with buf := p.buf ++ [a], pushed := p.pushed ++ [a] } h
    exact ⟨by simp [h1], by simp [h2], h3, h4, h5⟩

theorem enqAll_nil (rule : Pump.Rule) (p : Pump.P Resp) : enqAll rule p [] = p := rfl

/-! ### The component invariant (exit rule `discard`: the code) -/

structure CInv (c : Comp) : Prop where
  noLoss : c.p.exited = false → c.p.delivered ++ c.p.buf = c.p.pushed
  pre : c.p.delivered <+: c.p.pushed
  exit : c.p.exited = true → c.p.buf = [] ∧ c.p.inClosed = true
  count : c.p.pushed.length + c.w.rows.length = c.accepted
  closed : c.p.inClosed = c.w.done
  doneRows : c.w.done = true → c.w.rows = []
  head : HeadOpen c.w
  /-- What the consumer has received: the delivered packets, in order, then – only once the pump
  goroutine has returned – the closed channel, once per receive that was still owed. -/
  got : ∃ k, c.got = c.p.delivered.map Pump.Recv.got ++ List.replicate k Pump.Recv.closed ∧ (0 < k → c.p.exited = true)
  bound : c.got.length ≤ c.accepted

theorem cinv_init : CInv {} :=
  ⟨fun _ => rfl, by simp, by simp, rfl, rfl, by simp, by simp [HeadOpen], ⟨0, rfl, by simp⟩, by simp⟩

/-- While the pump goroutine runs: responses owed and not received = pending rows + buffered. -/
theorem CInv.outstanding {c : Comp} (h : CInv c) (he : c.p.exited = false) :
    c.outstanding = c.w.rows.length + c.p.buf.length := by
  have h1 := congrArg List.length (h.noLoss he)
  obtain ⟨k, hg, hk⟩ := h.got
  have hk0 : k = 0 := by
    cases k with
    | zero => rfl
    | succ n => have := hk (by omega); rw [he] at this; cases this
  subst hk0
  have h2 := congrArg List.length hg
  have h3 := h.count
  simp only [List.length_append, List.length_map, List.replicate_zero, List.length_nil, Nat.add_zero] at h1 h2
  unfold Comp.outstanding
  omega

theorem cinv_w (c : Comp) (st : Writer.Step) (h : CInv c) : CInv (applyC .discard c (.w st)).1 := by
  obtain ⟨f1, f2, f3⟩ := step_facts c.w st h.head
  rw [← accepts_eq] at f3
  by_cases hd : c.w.done = true
  · -- closed writer: nothing moves
    obtain ⟨q1, q2, q3⟩ := done_quiet c.w st hd (h.doneRows hd)
    have hic : c.p.inClosed = true := by rw [h.closed]; exact hd
    have hacc : accepts st (Writer.step c.w st).2 = false := by
      cases hacc : accepts st (Writer.step c.w st).2 with
      | false => rfl
      | true =>
        rw [hacc, q1, q2, h.doneRows hd] at f3
        simp at f3
    simp only [applyC, q1, enqAll_nil, hacc]
    have hp2 : (if isClose st then Pump.stepR .discard c.p .closeIn else c.p) = c.p := by
      split
      · cases hp : c.p; simp only [Pump.stepR]; rw [hp] at hic; simp only at hic; rw [hic]
      · rfl
    rw [hp2]
    exact ⟨h.noLoss, h.pre, h.exit, by simp only [q2]; have := h.count; rw [h.doneRows hd] at this; simpa using this,
      by rw [hic, q3], fun _ => q2, f2, h.got, by simpa using h.bound⟩
  · have hd' : c.w.done = false := by simpa using hd
    have hic : c.p.inClosed = false := by rw [h.closed]; exact hd'
    have hex : c.p.exited = false := by
      cases he : c.p.exited with
      | false => rfl
      | true => have := (h.exit he).2; rw [hic] at this; cases this
    obtain ⟨e1, e2, e3, e4, e5⟩ := enqAll_open .discard c.p (Writer.step c.w st).2.emits hic
    have hbound : c.got.length ≤ c.accepted + (if accepts st (Writer.step c.w st).2 then 1 else 0) := by
      have := h.bound; omega
    simp only [applyC]
    cases hcl : isClose st with
    | false =>
      simp only [Bool.false_eq_true, if_false]
      have hdn := step_done c.w st hcl
      refine ⟨fun _ => by rw [e1, e2, e3, ← List.append_assoc, h.noLoss hex], by rw [e2, e3]; exact h.pre.trans (List.prefix_append _ _),
        ?_, ?_, by rw [e4, hdn, hd'], ?_, f2, by rw [e3, e5]; exact h.got, hbound⟩
      · intro he; rw [e5, hex] at he; cases he
      · rw [e2]; simp only [List.length_append]; have := h.count; split at f3 <;> simp_all <;> omega
      · intro hdone; rw [hdn, hd'] at hdone; cases hdone
    | true =>
      simp only [if_true]
      have hst : st = .closeW := by cases st <;> simp [isClose] at hcl; rfl
      subst hst
      have hrows := closeW_rows c.w h.doneRows
      have hdone := closeW_done c.w
      have hna : accepts .closeW (Writer.step c.w .closeW).2 = false := rfl
      simp only [hna, Bool.false_eq_true, if_false, Nat.add_zero] at f3 hbound ⊢
      refine ⟨fun _ => by simp only [Pump.stepR]; rw [e1, e2, e3, ← List.append_assoc, h.noLoss hex],
        by simp only [Pump.stepR]; rw [e2, e3]; exact h.pre.trans (List.prefix_append _ _), ?_, ?_, by simp [Pump.stepR, hdone], fun _ => hrows, f2,
        by simp only [Pump.stepR]; rw [e3, e5]; exact h.got, hbound⟩
      · intro he; simp only [Pump.stepR] at he; rw [e5, hex] at he; cases he
      · simp only [Pump.stepR]; rw [e2, hrows]; simp only [List.length_append, List.length_nil, Nat.add_zero]
        have := h.count; rw [hrows] at f3; simp only [List.length_nil, Nat.add_zero] at f3; omega

theorem cinv_recv (c : Comp) (h : CInv c) : CInv (applyC .discard c .recv).1 := by
  simp only [applyC]
  split
  · rename_i hg
    cases hb : c.p.buf with
    | cons a rest =>
      have hr : Pump.recv c.p = .got a := by simp [Pump.recv, hb]
      simp only [hr]
      have hdq : Pump.stepR .discard c.p .deq = { c.p with buf := rest, delivered := c.p.delivered ++ [a] } := by
        simp [Pump.stepR, hb]
      rw [hdq]
      have hex : c.p.exited = false := by
        cases he : c.p.exited with
        | false => rfl
        | true => have := (h.exit he).1; rw [hb] at this; cases this
      have hnl := h.noLoss hex
      rw [hb] at hnl
      obtain ⟨k, hgot, hk⟩ := h.got
      have hk0 : k = 0 := by
        cases k with
        | zero => rfl
        | succ n => have := hk (by omega); rw [hex] at this; cases this
      subst hk0
      refine ⟨fun _ => by simpa using hnl, ⟨rest, by simpa using hnl⟩, ?_, h.count, h.closed, h.doneRows, h.head, ⟨0, ?_, by simp⟩, ?_⟩
      · intro he; simp only at he; rw [hex] at he; cases he
      · simp only [List.map_append, List.map_cons, List.map_nil, List.replicate_zero, List.append_nil]
        rw [hgot]; simp
      · simp only [List.length_append, List.length_cons, List.length_nil]; omega
    | nil =>
      cases he : c.p.exited with
      | false =>
        have hr : Pump.recv c.p = .blocked := by simp [Pump.recv, hb, he]
        simp only [hr]
        exact h
      | true =>
        have hr : Pump.recv c.p = .closed := by simp [Pump.recv, hb, he]
        simp only [hr]
        obtain ⟨k, hgot, _⟩ := h.got
        refine ⟨h.noLoss, h.pre, h.exit, h.count, h.closed, h.doneRows, h.head, ⟨k + 1, ?_, fun _ => he⟩, ?_⟩
        · rw [hgot, List.replicate_succ', List.append_assoc]
        · simp only [List.length_append, List.length_cons, List.length_nil]; omega
  · exact h

theorem cinv_exit (c : Comp) (h : CInv c) : CInv (applyC .discard c .pumpExit).1 := by
  simp only [applyC, Pump.stepR]
  split
  · rename_i hc
    obtain ⟨k, hgot, _⟩ := h.got
    exact ⟨fun he => by simp at he, h.pre, fun _ => ⟨rfl, hc⟩, h.count, h.closed, h.doneRows, h.head, ⟨k, hgot, fun _ => rfl⟩, h.bound⟩
  · exact h

/-- Histories in which the requester is the only consumer of `Receive()`. -/
def NoSteal (cs : List CStep) : Prop := ∀ x ∈ cs, x ≠ CStep.steal

theorem cinv_step (c : Comp) (st : CStep) (h : CInv c) (hs : st ≠ .steal) : CInv (applyC .discard c st).1 := by
  cases st with
  | w s => exact cinv_w c s h
  | recv => exact cinv_recv c h
  | steal => exact absurd rfl hs
  | pumpExit => exact cinv_exit c h

theorem cinv_run (c : Comp) (cs : List CStep) (h : CInv c) (hs : NoSteal cs) : CInv (runC .discard c cs) := by
  induction cs generalizing c with
  | nil => exact h
  | cons st rest ih =>
    simp only [runC]
    exact ih _ (cinv_step c st h (hs st (by simp))) (fun x hx => hs x (by simp [hx]))

theorem runC_append (rule : Pump.Rule) (c : Comp) (a b : List CStep) :
    runC rule c (a ++ b) = runC rule (runC rule c a) b := by
  induction a generalizing c with
  | nil => rfl
  | cons st rest ih => simp only [List.cons_append, runC]; exact ih _

/-! ### Lifting: every system step acts on each component as a list of component steps -/

/-- `c'` is reached from `c` by component steps, none of them a `steal`. -/
def Evolves (rule : Pump.Rule) (c c' : Comp) : Prop := ∃ cs, NoSteal cs ∧ c' = runC rule c cs

theorem Evolves.refl (rule : Pump.Rule) (c : Comp) : Evolves rule c c := ⟨[], by simp [NoSteal], rfl⟩

theorem Evolves.trans {rule : Pump.Rule} {a b c : Comp} (h1 : Evolves rule a b) (h2 : Evolves rule b c) : Evolves rule a c := by
  obtain ⟨cs1, n1, e1⟩ := h1
  obtain ⟨cs2, n2, e2⟩ := h2
  refine ⟨cs1 ++ cs2, ?_, by rw [runC_append, ← e1, e2]⟩
  intro x hx
  rcases List.mem_append.1 hx with hx | hx
  · exact n1 x hx
  · exact n2 x hx

theorem applyPrim_comp (rule : Pump.Rule) (t : Topo) (s : Sys) (w : WId) (c : CStep) (x : WId) :
    (applyPrim rule t s w c).1.comp x = if x = w then (applyC rule (s.comp w) c).1 else s.comp x := by
  simp only [applyPrim]
  split <;> simp [setComp]

/-- System-level evolution: every component evolves, and the ones outside `fp` are untouched. -/
def SysEvolves (rule : Pump.Rule) (fp : List WId) (s s' : Sys) : Prop :=
  (∀ x, Evolves rule (s.comp x) (s'.comp x)) ∧ (∀ x, x ∉ fp → s'.comp x = s.comp x)

theorem SysEvolves.refl (rule : Pump.Rule) (fp : List WId) (s : Sys) : SysEvolves rule fp s s :=
  ⟨fun x => Evolves.refl rule _, fun _ _ => rfl⟩

theorem SysEvolves.trans {rule : Pump.Rule} {fp : List WId} {a b c : Sys}
    (h1 : SysEvolves rule fp a b) (h2 : SysEvolves rule fp b c) : SysEvolves rule fp a c :=
  ⟨fun x => (h1.1 x).trans (h2.1 x), fun x hx => by rw [h2.2 x hx, h1.2 x hx]⟩

theorem SysEvolves.mono {rule : Pump.Rule} {fp fp' : List WId} {a b : Sys}
    (h : SysEvolves rule fp a b) (hsub : ∀ x ∈ fp, x ∈ fp') : SysEvolves rule fp' a b :=
  ⟨h.1, fun x hx => h.2 x (fun hin => hx (hsub x hin))⟩

theorem prim_evolves (rule : Pump.Rule) (t : Topo) (s : Sys) (w : WId) (c : CStep) (hc : c ≠ .steal) :
    SysEvolves rule [w] s (applyPrim rule t s w c).1 := by
  constructor
  · intro x
    rw [applyPrim_comp]
    split
    · rename_i hx; subst hx
      exact ⟨[c], by simp [NoSteal, hc], rfl⟩
    · exact Evolves.refl rule _
  · intro x hx
    rw [applyPrim_comp]
    simp only [List.mem_singleton] at hx
    simp [hx]

theorem setReads_comp (s : Sys) (w : WId) (r : RId) (l : List (Nat × Option Ans)) : (setReads s w r l).comp = s.comp := rfl

theorem flushReads_evolves (rule : Pump.Rule) (t : Topo) (w : WId) (r : RId) (s : Sys) (l : List (Nat × Option Ans)) :
    SysEvolves rule [w] s (flushReads rule t w r s l).1 := by
  induction l generalizing s with
  | nil => simp only [flushReads]; exact SysEvolves.refl rule _ s
  | cons e rest ih =>
    obtain ⟨v, oa⟩ := e
    cases oa with
    | none => simp only [flushReads]; exact SysEvolves.refl rule _ s
    | some a =>
      simp only [flushReads]
      exact (prim_evolves rule t s w (.w (.answer r a)) (by simp)).trans (ih _)

theorem closes_evolves (rule : Pump.Rule) (t : Topo) (s : Sys) (cl : List Close) :
    SysEvolves rule (cl.map closeTarget) s (applyCloses rule t s cl) := by
  induction cl generalizing s with
  | nil => exact SysEvolves.refl rule _ s
  | cons c rest ih =>
    simp only [applyCloses, List.map_cons]
    have h1 : SysEvolves rule [closeTarget c] s (applyClose rule t s c) := by
      cases c with
      | reader w r => exact prim_evolves rule t s w _ (by simp)
      | writer w => exact prim_evolves rule t s w _ (by simp)
    exact (h1.mono (by simp)).trans ((ih _).mono (by intro x hx; simp [hx]))

/-- A system step that is not a `steal`. -/
def StepNoSteal : Teardown.Step → Prop
  | .prim _ c => c ≠ .steal
  | _ => True

theorem step_evolves (rule : Pump.Rule) (t : Topo) (s : Sys) (st : Teardown.Step) (hs : StepNoSteal st) :
    SysEvolves rule (footprint t s st) s (Teardown.step rule t s st).1 := by
  cases st with
  | prim w c => exact prim_evolves rule t s w c hs
  | fwd w r =>
    simp only [Teardown.step, footprint]
    cases hl : t.listener w r with
    | sink k => simp only; exact SysEvolves.refl rule _ s
    | node wo =>
      cases hi : s.inbox w r with
      | nil => simp only; exact SysEvolves.refl rule _ s
      | cons v rest =>
        simp only
        refine ⟨?_, ?_⟩ <;> simp only [setReads_comp]
        · exact (((prim_evolves rule t _ wo (.w (.write v)) (by simp)).mono (fp' := [w, wo]) (by simp)).trans
            ((flushReads_evolves rule t w r _ _).mono (by simp))).1
        · exact (((prim_evolves rule t _ wo (.w (.write v)) (by simp)).mono (fp' := [w, wo]) (by simp)).trans
            ((flushReads_evolves rule t w r _ _).mono (by simp))).2
  | bwd wo =>
    simp only [Teardown.step, footprint]
    by_cases hdet : s.detached wo = true
    · simp only [hdet, if_true]; exact SysEvolves.refl rule _ s
    have hdet' : s.detached wo = false := by simpa using hdet
    simp only [hdet', Bool.false_eq_true, if_false]
    cases hc : t.consumer wo with
    | requester => simp only; exact SysEvolves.refl rule _ s
    | node wi r =>
      simp only
      cases hr : Pump.recv (s.comp wo).p with
      | got a =>
        simp only
        refine ⟨?_, ?_⟩ <;> simp only [setReads_comp]
        · exact (((prim_evolves rule t s wo .recv (by simp)).mono (fp' := [wo, wi]) (by simp)).trans
            ((flushReads_evolves rule t wi r _ _).mono (by simp))).1
        · exact (((prim_evolves rule t s wo .recv (by simp)).mono (fp' := [wo, wi]) (by simp)).trans
            ((flushReads_evolves rule t wi r _ _).mono (by simp))).2
      | closed =>
        simp only
        refine ⟨?_, ?_⟩ <;> simp only [setReads_comp]
        · exact ((flushReads_evolves rule t wi r s _).mono (fp' := [wo, wi]) (by simp)).1
        · exact ((flushReads_evolves rule t wi r s _).mono (fp' := [wo, wi]) (by simp)).2
      | blocked => simp only; exact SysEvolves.refl rule _ s
  | fwdEnd w r =>
    simp only [Teardown.step, footprint]
    cases hl : t.listener w r with
    | sink k => simp only; exact SysEvolves.refl rule _ s
    | node wo =>
      simp only
      split
      · refine ⟨?_, ?_⟩ <;> simp only [setReads_comp]
        · exact (flushReads_evolves rule t w r _ _).1
        · exact (flushReads_evolves rule t w r _ _).2
      · exact SysEvolves.refl rule _ s
  | sinkAnswer k a =>
    simp only [Teardown.step, footprint]
    cases hq : s.queue k with
    | nil => simp only; exact SysEvolves.refl rule _ s
    | cons e rest =>
      obtain ⟨w, r⟩ := e
      simp only
      exact prim_evolves rule t { s with queue := fun x => if x = k then rest else s.queue x } w (.w (.answer r a)) (by simp)
  | bwdLate wo =>
    simp only [Teardown.step, footprint]
    split
    · exact SysEvolves.refl rule _ s
    · split
      · exact ⟨fun x => Evolves.refl rule _, fun _ _ => rfl⟩
      · exact SysEvolves.refl rule _ s
  | down td => exact closes_evolves rule t s (closes t td)

def RunNoSteal (h : List Teardown.Step) : Prop := ∀ st ∈ h, StepNoSteal st

theorem run_evolves (rule : Pump.Rule) (t : Topo) (s : Sys) (h : List Teardown.Step) (hs : RunNoSteal h) :
    ∀ x, Evolves rule (s.comp x) ((Teardown.run rule t s h).comp x) := by
  induction h generalizing s with
  | nil => intro x; exact Evolves.refl rule _
  | cons st rest ih =>
    intro x
    simp only [Teardown.run]
    exact ((step_evolves rule t s st (hs st (by simp))).1 x).trans (ih _ (fun y hy => hs y (by simp [hy])) x)

end Uniflow.TeardownProofs

/-! ### Liveness: the measure, what backs a pending row, and the fair steps -/

namespace Uniflow.TeardownProofs
open Uniflow Uniflow.Writer Uniflow.Teardown Uniflow.WriterProofs Uniflow.WriterSpec

/-- Held-back drop notices of the linked readers (goroutines `Reader.Close` spawned that have
not run yet). -/
def dropSum (m : W) : Nat := (m.readers.map fun r => (m.drops r).length).sum

/-- Answers of the linked readers that are in flight: popped from the reader's queue by
`Reader.Receive`, `(*Writer).receive` not yet entered. -/
def flightSum (m : W) : Nat := (m.readers.map fun r => (m.flight r).length).sum

/-- The measure: pending rows (twice: completing a row moves it into the pump) + buffered
packets + held-back drop notices + answers in flight + responses still owed to the consumer + 1
while the pump goroutine has not returned. -/
def mu (c : Comp) : Nat :=
  2 * c.w.rows.length + c.p.buf.length + dropSum c.w + flightSum c.w + c.outstanding + (if c.p.exited then 0 else 1)

/-- The writer has been torn down: closed itself, or every reader linked to it is closed. -/
def TornDown (c : Comp) : Prop := c.w.done = true ∨ ∀ r ∈ c.w.readers, c.w.closed r = true

/-- The writer machine is related (C01's simulation relation) to a specification state. -/
def Backed (c : Comp) : Prop := ∃ s : S, Rel c.w s

theorem backed_init : Backed {} := ⟨S.init, rel_init⟩

theorem backed_applyC (rule : Pump.Rule) (c : Comp) (x : CStep) (hb : Backed c) : Backed (applyC rule c x).1 := by
  cases x with
  | w st =>
    obtain ⟨s, hR⟩ := hb
    obtain ⟨_, hR'⟩ := sim_step hR st
    exact ⟨(WriterSpec.step s st).1, by simpa only [applyC] using hR'⟩
  | recv =>
    simp only [applyC]
    split
    · split <;> exact hb
    · exact hb
  | steal => exact hb
  | pumpExit => exact hb

/-- While a torn-down writer's consumer is owed anything, a fair step is enabled: a packet is
buffered or the channel is closed (the receive returns), or a pending row waits for a held-back
drop notice. -/
theorem enabled (c : Comp) (hi : CInv c) (hb : Backed c) (ht : TornDown c)
    (ho : c.outstanding > 0) :
    c.p.buf ≠ [] ∨ c.p.exited = true ∨
      (c.w.done = false ∧ ∃ r ∈ c.w.readers, (c.w.drops r).length > 0 ∨ (c.w.flight r).length > 0) := by
  by_cases hbuf : c.p.buf = []
  · cases hex : c.p.exited with
    | true => exact Or.inr (Or.inl rfl)
    | false =>
    right; right
    have hout := hi.outstanding hex
    rw [hbuf] at hout
    simp only [List.length_nil, Nat.add_zero] at hout
    have hrows : c.w.rows ≠ [] := by
      intro h0; rw [h0] at hout; simp at hout; omega
    have hnd : c.w.done = false := by
      cases hd : c.w.done with
      | false => rfl
      | true => exact absurd (hi.doneRows hd) hrows
    refine ⟨hnd, ?_⟩
    have hclosed : ∀ r ∈ c.w.readers, c.w.closed r = true := by
      rcases ht with h | h
      · rw [hnd] at h; cases h
      · exact h
    obtain ⟨s, hR⟩ := hb
    have hI := hR.inv
    rw [hR.rows] at hrows
    rw [hR.readers]
    rw [hR.readers, hR.closed] at hclosed
    cases hsr : s.rows with
    | nil => simp [hsr] at hrows
    | cons row rest =>
      have hnil := hI.head row rest hsr
      simp only [hasNil, SRow.cells, List.any_map, List.any_eq_true] at hnil
      obtain ⟨p, hp, hpn⟩ := hnil
      have howes : row.owes p.1 = true := by
        simp only [SRow.owes, List.any_eq_true]
        exact ⟨p, hp, by simpa using hpn⟩
      have hmem : p.1 ∈ row.readers := by
        simp only [SRow.readers, List.mem_map]; exact ⟨p, hp, rfl⟩
      have hpre := hI.rows.pref row.readers (by rw [hsr]; simp)
      have hlinked : p.1 ∈ s.linked := hpre.subset hmem
      have hcl := hclosed p.1 hlinked
      refine ⟨p.1, hlinked, ?_⟩
      have hob : row.wid ∈ owedBy s.rows p.1 := by
        rw [hsr, owedBy_cons, howes]; simp
      have hmc : c.w.closed p.1 = true := by rw [hR.closed]; exact hcl
      rcases hI.backed p.1 row.wid hob with hq | ⟨a, hf⟩
      · have hqq := hR.queue p.1
        simp only [WriterProofs.fifo, hmc, if_true] at hqq
        rw [← hqq] at hq
        left
        cases hdr : c.w.drops p.1 with
        | nil => simp [hdr] at hq
        | cons _ _ => simp
      · -- the answer the row waits for is in flight: its delivery is enabled
        right
        have hff := hR.flight p.1
        rw [← hff] at hf
        cases hfl : c.w.flight p.1 with
        | nil => simp [hfl] at hf
        | cons _ _ => simp
  · exact Or.inl hbuf

/-- A receive that returns (a packet, or the closed channel) strictly decreases the measure and
leaves the writer machine alone. -/
theorem recv_decreases (c : Comp) (hi : CInv c) (ho : c.outstanding > 0)
    (hen : c.p.buf ≠ [] ∨ c.p.exited = true) :
    mu (applyC .discard c .recv).1 < mu c ∧ (applyC .discard c .recv).1.w = c.w := by
  have hpos : c.got.length < c.accepted := by unfold Comp.outstanding at ho; omega
  cases hb : c.p.buf with
  | cons a rest =>
    have hr : Pump.recv c.p = .got a := by simp [Pump.recv, hb]
    simp only [applyC, hpos, if_true, hr, mu, dropSum, Pump.stepR, hb, List.length_cons, Comp.outstanding, List.length_append, List.length_nil]
    exact ⟨by omega, trivial⟩
  | nil =>
    have hex : c.p.exited = true := by
      rcases hen with h | h
      · exact absurd hb h
      · exact h
    have hr : Pump.recv c.p = .closed := by simp [Pump.recv, hb, hex]
    simp only [applyC, hpos, if_true, hr, mu, dropSum, hb, Comp.outstanding, List.length_append, List.length_cons, List.length_nil]
    exact ⟨by omega, trivial⟩

/-- The pump goroutine returning (possible once the writer is closed) strictly decreases the
measure – whatever it still buffered is discarded – and leaves the writer machine alone. -/
theorem exit_decreases (c : Comp) (hd : c.p.inClosed = true) (hex : c.p.exited = false) :
    mu (applyC .discard c .pumpExit).1 < mu c ∧ (applyC .discard c .pumpExit).1.w = c.w := by
  simp only [applyC, Pump.stepR, hd, if_true, mu, dropSum, Comp.outstanding, hex, List.length_nil]
  exact ⟨by simp; omega, trivial⟩

theorem receive_rd (m : W) (a : Ans) (r : RId) (g w : Nat) :
    (receive m a r g w).1.readers = m.readers ∧ (receive m a r g w).1.drops = m.drops ∧
    (receive m a r g w).1.closed = m.closed ∧ (receive m a r g w).1.flight = m.flight := by
  simp only [receive, receiveWith]
  repeat (first | exact ⟨rfl, rfl, rfl, rfl⟩ | split)

theorem sum_dec (l : List RId) (f : RId → Nat) (r : RId) (hnd : l.Nodup) (hr : r ∈ l) (hf : f r > 0) :
    (l.map fun x => if x = r then f r - 1 else f x).sum + 1 = (l.map f).sum := by
  induction l with
  | nil => cases hr
  | cons y rest ih =>
    simp only [List.nodup_cons] at hnd
    simp only [List.map_cons, List.sum_cons]
    by_cases hy : y = r
    · subst hy
      have hnot : ∀ x ∈ rest, x ≠ y := fun x hx hxy => hnd.1 (hxy ▸ hx)
      have : (rest.map fun x => if x = y then f y - 1 else f x) = rest.map f := by
        apply List.map_congr_left
        intro x hx; simp [hnot x hx]
      rw [this]; simp only [if_true]; omega
    · have hr' : r ∈ rest := by
        simp only [List.mem_cons] at hr
        rcases hr with h | h
        · exact absurd h.symm hy
        · exact h
      have := ih hnd.2 hr'
      simp only [hy, if_false]; omega

theorem drop_decreases (c : Comp) (hi : CInv c) (hb : Backed c) (r : RId) (hr : r ∈ c.w.readers)
    (hnd : c.w.done = false) (hd : (c.w.drops r).length > 0) :
    mu (applyC .discard c (.w (.deliverDrop r))).1 < mu c ∧
    (applyC .discard c (.w (.deliverDrop r))).1.w.done = false ∧
    (applyC .discard c (.w (.deliverDrop r))).1.w.readers = c.w.readers ∧
    (applyC .discard c (.w (.deliverDrop r))).1.w.closed = c.w.closed ∧
    (applyC .discard c (.w (.deliverDrop r))).1.w.flight = c.w.flight := by
  have hnodup : c.w.readers.Nodup := by
    obtain ⟨s, hR⟩ := hb
    rw [hR.readers]; exact hR.inv.nodup
  have hic : c.p.inClosed = false := by rw [hi.closed]; exact hnd
  obtain ⟨g, rest, hgr⟩ : ∃ g rest, c.w.drops r = g :: rest := by
    cases hdr : c.w.drops r with
    | nil => simp [hdr] at hd
    | cons g rest => exact ⟨g, rest, rfl⟩
  let m' : W := { c.w with drops := fun x => if x = r then rest else c.w.drops x }
  have hst : Writer.step c.w (.deliverDrop r) =
      ((receive m' Ans.dropped r g.1 g.2).1,
       { (receive m' Ans.dropped r g.1 g.2).2 with ret := match (receive m' Ans.dropped r g.1 g.2).2.ret with | .panic s => .panic s | _ => .unit }) := by
    simp only [Writer.step, stepWith, hgr]; rfl
  obtain ⟨_, _, hlen, _⟩ := receive_facts m' Ans.dropped r g.1 g.2 hi.head
  obtain ⟨hrd, hdr, hcl, hfl⟩ := receive_rd m' Ans.dropped r g.1 g.2
  obtain ⟨e1, _, _, _, e5⟩ := enqAll_open .discard c.p (receive m' Ans.dropped r g.1 g.2).2.emits hic
  have hdone : (receive m' Ans.dropped r g.1 g.2).1.done = false := by rw [receive_done]; exact hnd
  have hna : accepts (.deliverDrop r) (Writer.step c.w (.deliverDrop r)).2 = false := rfl
  simp only [applyC, hna, hst, isClose, Bool.false_eq_true, if_false]
  refine ⟨?_, hdone, hrd, hcl, hfl⟩
  simp only [mu, dropSum, e1, e5, hrd, hdr, List.length_append, Comp.outstanding, Nat.add_zero]
  have hs := sum_dec c.w.readers (fun x => (c.w.drops x).length) r hnodup hr hd
  have hmap : (c.w.readers.map fun x => (m'.drops x).length) =
      (c.w.readers.map fun x => if x = r then (c.w.drops r).length - 1 else (c.w.drops x).length) := by
    apply List.map_congr_left
    intro x _
    show (if x = r then rest else c.w.drops x).length = _
    split
    · rw [hgr]; simp
    · rfl
  have hfs : flightSum (receive m' Ans.dropped r g.1 g.2).1 = flightSum c.w := by
    simp only [flightSum, hrd, hfl]; rfl
  rw [hfs]
  show 2 * (receive m' Ans.dropped r g.1 g.2).1.rows.length + (c.p.buf.length + (receive m' Ans.dropped r g.1 g.2).2.emits.length) +
      (c.w.readers.map fun x => (m'.drops x).length).sum + flightSum c.w + (c.accepted - c.got.length) +
      (if c.p.exited = true then 0 else 1) < _
  rw [hmap]
  have hl : (receive m' Ans.dropped r g.1 g.2).2.emits.length + (receive m' Ans.dropped r g.1 g.2).1.rows.length = c.w.rows.length := hlen
  omega

/-- An answer in flight reaching `(*Writer).receive` – whether it is credited to its row or ignored
(its reader closed or unlinked and linked again in the meantime: stale link generation; its row
gone: no such write number) – strictly decreases the measure. -/
theorem deliver_decreases (c : Comp) (hi : CInv c) (hb : Backed c) (r : RId) (hr : r ∈ c.w.readers)
    (hnd : c.w.done = false) (hd : (c.w.flight r).length > 0) :
    mu (applyC .discard c (.w (.deliver r 0))).1 < mu c ∧
    (applyC .discard c (.w (.deliver r 0))).1.w.done = false ∧
    (applyC .discard c (.w (.deliver r 0))).1.w.readers = c.w.readers ∧
    (applyC .discard c (.w (.deliver r 0))).1.w.closed = c.w.closed := by
  have hnodup : c.w.readers.Nodup := by
    obtain ⟨s, hR⟩ := hb
    rw [hR.readers]; exact hR.inv.nodup
  have hic : c.p.inClosed = false := by rw [hi.closed]; exact hnd
  obtain ⟨e, rest, hgr⟩ : ∃ e rest, c.w.flight r = e :: rest := by
    cases hdr : c.w.flight r with
    | nil => simp [hdr] at hd
    | cons e rest => exact ⟨e, rest, rfl⟩
  let m' : W := { c.w with flight := fun x => if x = r then rest else c.w.flight x }
  have hst : Writer.step c.w (.deliver r 0) = receive m' e.1 r e.2.1 e.2.2 := by
    simp only [Writer.step, stepWith, hgr, List.getElem?_cons_zero, List.eraseIdx_cons_zero]; rfl
  obtain ⟨_, _, hlen, _⟩ := receive_facts m' e.1 r e.2.1 e.2.2 hi.head
  obtain ⟨hrd, hdr, hcl, hfl⟩ := receive_rd m' e.1 r e.2.1 e.2.2
  obtain ⟨e1, _, _, _, e5⟩ := enqAll_open .discard c.p (receive m' e.1 r e.2.1 e.2.2).2.emits hic
  have hdone : (receive m' e.1 r e.2.1 e.2.2).1.done = false := by rw [receive_done]; exact hnd
  have hna : accepts (.deliver r 0) (Writer.step c.w (.deliver r 0)).2 = false := rfl
  simp only [applyC, hna, hst, isClose, Bool.false_eq_true, if_false]
  refine ⟨?_, hdone, hrd, hcl⟩
  have hds : dropSum (receive m' e.1 r e.2.1 e.2.2).1 = dropSum c.w := by
    simp only [dropSum, hrd, hdr]; rfl
  simp only [mu, hds, flightSum, e1, e5, hrd, hfl, List.length_append, Comp.outstanding, Nat.add_zero]
  have hs := sum_dec c.w.readers (fun x => (c.w.flight x).length) r hnodup hr hd
  have hmap : (c.w.readers.map fun x => (m'.flight x).length) =
      (c.w.readers.map fun x => if x = r then (c.w.flight r).length - 1 else (c.w.flight x).length) := by
    apply List.map_congr_left
    intro x _
    show (if x = r then rest else c.w.flight x).length = _
    split
    · rw [hgr]; simp
    · rfl
  show 2 * (receive m' e.1 r e.2.1 e.2.2).1.rows.length + (c.p.buf.length + (receive m' e.1 r e.2.1 e.2.2).2.emits.length) +
      dropSum c.w + (c.w.readers.map fun x => (m'.flight x).length).sum + (c.accepted - c.got.length) +
      (if c.p.exited = true then 0 else 1) < _
  rw [hmap]
  have hl : (receive m' e.1 r e.2.1 e.2.2).2.emits.length + (receive m' e.1 r e.2.1 e.2.2).1.rows.length = c.w.rows.length := hlen
  omega

/-- A torn-down writer accepts no write: no new response becomes owed. -/
theorem torn_no_accept (c : Comp) (ht : TornDown c) (v : Nat) :
    (applyC .discard c (.w (.write v))).1.accepted = c.accepted := by
  have : accepts (.write v) (Writer.step c.w (.write v)).2 = false := by
    simp only [Writer.step, stepWith]
    rcases ht with hd | hc
    · simp [hd, accepts]
    · split
      · simp [accepts]
      · split
        · simp [accepts]
        · have hacc : accepting c.w.closed c.w.readers = [] := by
            simp only [accepting, List.filter_eq_nil_iff]
            intro r hr; simp [hc r hr]
          split <;> simp [hacc, accepts]
  simp only [applyC, this, Bool.false_eq_true, if_false, Nat.add_zero]

/-- A fair step of a torn-down writer: the consumer's receive, a held-back drop notice, an answer
in flight reaching the writer (the goroutine inside `Reader.Receive` going on into
`(*Writer).receive`), or the pump goroutine returning. -/
def IsFair (x : CStep) : Prop := x = .recv ∨ x = .pumpExit ∨ (∃ r, x = .w (.deliverDrop r)) ∨ ∃ r, x = .w (.deliver r 0)

/-- From a torn-down state, at most `μ` fair steps release everything that is owed. -/
theorem release (n : Nat) : ∀ c : Comp, mu c ≤ n → CInv c → Backed c → TornDown c →
    ∃ cs, (∀ x ∈ cs, IsFair x) ∧ cs.length ≤ n ∧ (runC .discard c cs).outstanding = 0 ∧ CInv (runC .discard c cs) := by
  induction n with
  | zero =>
    intro c hmu hi hb ht
    refine ⟨[], by simp, by simp, ?_, hi⟩
    simp only [mu] at hmu
    simp only [runC]; omega
  | succ n ih =>
    intro c hmu hi hb ht
    by_cases ho : c.outstanding = 0
    · exact ⟨[], by simp, by simp, ho, hi⟩
    · have hop : c.outstanding > 0 := by omega
      rcases enabled c hi hb ht hop with hbuf | hex | ⟨hnd, r, hr, hd | hd⟩
      · obtain ⟨hlt, hw⟩ := recv_decreases c hi hop (Or.inl hbuf)
        have hi' := cinv_recv c hi
        have hb' : Backed (applyC .discard c .recv).1 := backed_applyC .discard c .recv hb
        have ht' : TornDown (applyC .discard c .recv).1 := by unfold TornDown; rw [hw]; exact ht
        obtain ⟨cs, f, l, o, i⟩ := ih _ (by omega) hi' hb' ht'
        refine ⟨.recv :: cs, ?_, by simp; omega, by simpa [runC] using o, by simpa [runC] using i⟩
        intro x hx
        simp only [List.mem_cons] at hx
        rcases hx with rfl | hx
        · exact Or.inl rfl
        · exact f x hx
      · obtain ⟨hlt, hw⟩ := recv_decreases c hi hop (Or.inr hex)
        have hi' := cinv_recv c hi
        have hb' : Backed (applyC .discard c .recv).1 := backed_applyC .discard c .recv hb
        have ht' : TornDown (applyC .discard c .recv).1 := by unfold TornDown; rw [hw]; exact ht
        obtain ⟨cs, f, l, o, i⟩ := ih _ (by omega) hi' hb' ht'
        refine ⟨.recv :: cs, ?_, by simp; omega, by simpa [runC] using o, by simpa [runC] using i⟩
        intro x hx
        simp only [List.mem_cons] at hx
        rcases hx with rfl | hx
        · exact Or.inl rfl
        · exact f x hx
      · obtain ⟨hlt, hd', hrd, hcl, hfl⟩ := drop_decreases c hi hb r hr hnd hd
        have hi' := cinv_w c (.deliverDrop r) hi
        have hb' : Backed (applyC .discard c (.w (.deliverDrop r))).1 :=
          backed_applyC .discard c _ hb
        have ht' : TornDown (applyC .discard c (.w (.deliverDrop r))).1 := by
          unfold TornDown; rw [hrd, hcl]
          rcases ht with h | h
          · rw [hnd] at h; cases h
          · exact Or.inr h
        obtain ⟨cs, f, l, o, i⟩ := ih _ (by omega) hi' hb' ht'
        refine ⟨.w (.deliverDrop r) :: cs, ?_, by simp; omega, by simpa [runC] using o, by simpa [runC] using i⟩
        intro x hx
        simp only [List.mem_cons] at hx
        rcases hx with rfl | hx
        · exact Or.inr (Or.inr (Or.inl ⟨r, rfl⟩))
        · exact f x hx
      · obtain ⟨hlt, hd', hrd, hcl⟩ := deliver_decreases c hi hb r hr hnd hd
        have hi' := cinv_w c (.deliver r 0) hi
        have hb' : Backed (applyC .discard c (.w (.deliver r 0))).1 :=
          backed_applyC .discard c _ hb
        have ht' : TornDown (applyC .discard c (.w (.deliver r 0))).1 := by
          unfold TornDown; rw [hrd, hcl]
          rcases ht with h | h
          · rw [hnd] at h; cases h
          · exact Or.inr h
        obtain ⟨cs, f, l, o, i⟩ := ih _ (by omega) hi' hb' ht'
        refine ⟨.w (.deliver r 0) :: cs, ?_, by simp; omega, by simpa [runC] using o, by simpa [runC] using i⟩
        intro x hx
        simp only [List.mem_cons] at hx
        rcases hx with rfl | hx
        · exact Or.inr (Or.inr (Or.inr ⟨r, rfl⟩))
        · exact f x hx

/-! ### `Backed` along every system history

Every critical section of the writer machine is one step of C01's specification from every related
pair of states (`sim_step`, unconditional since the link generations), so `Backed` is an invariant
of every history. -/

def AllBacked (s : Sys) : Prop := ∀ x, Backed (s.comp x)

theorem backed_prim (rule : Pump.Rule) (t : Topo) (s : Sys) (w : WId) (c : CStep) (hb : AllBacked s) :
    AllBacked (applyPrim rule t s w c).1 := by
  intro x
  rw [applyPrim_comp]
  split
  · exact backed_applyC rule _ c (hb w)
  · exact hb x

theorem backed_flush (rule : Pump.Rule) (t : Topo) (w : WId) (r : RId) (s : Sys) (l : List (Nat × Option Ans))
    (hb : AllBacked s) : AllBacked (flushReads rule t w r s l).1 := by
  induction l generalizing s with
  | nil => simpa [flushReads] using hb
  | cons e rest ih =>
    obtain ⟨v, oa⟩ := e
    cases oa with
    | none => simpa [flushReads] using hb
    | some a =>
      simp only [flushReads]
      exact ih _ (backed_prim rule t s w _ hb)

theorem backed_closes (rule : Pump.Rule) (t : Topo) (s : Sys) (cl : List Close) (hb : AllBacked s) :
    AllBacked (applyCloses rule t s cl) := by
  induction cl generalizing s with
  | nil => exact hb
  | cons c rest ih =>
    simp only [applyCloses]
    apply ih
    cases c with
    | reader w r => exact backed_prim rule t s w _ hb
    | writer w => exact backed_prim rule t s w _ hb

theorem backed_step (rule : Pump.Rule) (t : Topo) (s : Sys) (st : Teardown.Step) (hb : AllBacked s) :
    AllBacked (Teardown.step rule t s st).1 := by
  cases st with
  | prim w c => exact backed_prim rule t s w c hb
  | fwd w r =>
    simp only [Teardown.step]
    cases hl : t.listener w r with
    | sink k => exact hb
    | node wo =>
      cases hi : s.inbox w r with
      | nil => exact hb
      | cons v rest =>
        simp only
        intro x; rw [setReads_comp]
        refine backed_flush rule t w r _ _ ?_ x
        exact backed_prim rule t _ wo _ (fun y => hb y)
  | bwd wo =>
    simp only [Teardown.step]
    by_cases hdet : s.detached wo = true
    · simp only [hdet, if_true]; exact hb
    have hdet' : s.detached wo = false := by simpa using hdet
    simp only [hdet', Bool.false_eq_true, if_false]
    cases hc : t.consumer wo with
    | requester => exact hb
    | node wi r =>
      simp only
      cases hr : Pump.recv (s.comp wo).p with
      | got a =>
        simp only
        intro x; rw [setReads_comp]
        refine backed_flush rule t wi r _ _ ?_ x
        exact backed_prim rule t s wo _ hb
      | closed =>
        simp only
        intro x; rw [setReads_comp]
        exact backed_flush rule t wi r _ _ hb x
      | blocked => exact hb
  | fwdEnd w r =>
    simp only [Teardown.step]
    cases hl : t.listener w r with
    | sink k => exact hb
    | node wo =>
      simp only
      split
      · intro x; rw [setReads_comp]
        exact backed_flush rule t w r { s with inbox := fun x y => if x = w ∧ y = r then [] else s.inbox x y } _ (fun y => hb y) x
      · exact hb
  | sinkAnswer k a =>
    simp only [Teardown.step]
    cases hq : s.queue k with
    | nil => exact hb
    | cons e rest =>
      obtain ⟨w, r⟩ := e
      simp only
      exact backed_prim rule t { s with queue := fun x => if x = k then rest else s.queue x } w _ (fun y => hb y)
  | bwdLate wo =>
    simp only [Teardown.step]
    split
    · exact hb
    · split
      · exact fun x => hb x
      · exact hb
  | down td => exact backed_closes rule t s _ hb

theorem backed_run (rule : Pump.Rule) (t : Topo) (s : Sys) (h : List Teardown.Step) (hb : AllBacked s) :
    AllBacked (Teardown.run rule t s h) := by
  induction h generalizing s with
  | nil => exact hb
  | cons st rest ih =>
    simp only [Teardown.run]
    exact ih _ (backed_step rule t s st hb)

end Uniflow.TeardownProofs

/-! ### A node whose out-writer is closed: `Tracer.Drop` at the end of the backward loop -/

namespace Uniflow.TeardownProofs
open Uniflow Uniflow.Writer Uniflow.Teardown Uniflow.WriterProofs

theorem fillAll_all_some (a : Ans) (l : List (Nat × Option Ans)) : ∀ e ∈ fillAll a l, e.2.isSome = true := by
  induction l with
  | nil => intro e he; cases he
  | cons x rest ih =>
    obtain ⟨v, oa⟩ := x
    cases oa with
    | none =>
      intro e he
      simp only [fillAll, List.mem_cons] at he
      rcases he with rfl | he
      · rfl
      · exact ih e he
    | some b =>
      intro e he
      simp only [fillAll, List.mem_cons] at he
      rcases he with rfl | he
      · rfl
      · exact ih e he

/-- When every request has its answer, `flushReads` passes all of them up and nothing is left. -/
theorem flushReads_all_some (rule : Pump.Rule) (t : Topo) (w : WId) (r : RId) (s : Sys) (l : List (Nat × Option Ans))
    (h : ∀ e ∈ l, e.2.isSome = true) : (flushReads rule t w r s l).2 = [] := by
  induction l generalizing s with
  | nil => rfl
  | cons x rest ih =>
    obtain ⟨v, oa⟩ := x
    cases oa with
    | none => have := h (v, none) (by simp); simp at this
    | some a =>
      simp only [flushReads]
      exact ih _ (fun e he => h e (by simp [he]))

theorem applyPrim_reads (rule : Pump.Rule) (t : Topo) (s : Sys) (w : WId) (c : CStep) :
    (applyPrim rule t s w c).1.reads = s.reads := by
  simp only [applyPrim]
  split <;> rfl

theorem run_append (rule : Pump.Rule) (t : Topo) (s : Sys) (a b : List Teardown.Step) :
    Teardown.run rule t s (a ++ b) = Teardown.run rule t (Teardown.run rule t s a) b := by
  induction a generalizing s with
  | nil => rfl
  | cons st rest ih => simp only [List.cons_append, Teardown.run]; exact ih _

/-! #### with `handOver` no backward loop ever watches the wrong writer -/

theorem applyPrim_detached (rule : Pump.Rule) (t : Topo) (s : Sys) (w : WId) (c : CStep) :
    (applyPrim rule t s w c).1.detached = s.detached := by
  simp only [applyPrim]
  split <;> rfl

theorem flushReads_detached (rule : Pump.Rule) (t : Topo) (w : WId) (r : RId) (s : Sys) (l : List (Nat × Option Ans)) :
    (flushReads rule t w r s l).1.detached = s.detached := by
  induction l generalizing s with
  | nil => rfl
  | cons e rest ih =>
    obtain ⟨v, oa⟩ := e
    cases oa with
    | none => rfl
    | some a => simp only [flushReads]; rw [ih, applyPrim_detached]

theorem applyCloses_detached (rule : Pump.Rule) (t : Topo) (s : Sys) (cl : List Close) :
    (applyCloses rule t s cl).detached = s.detached := by
  induction cl generalizing s with
  | nil => rfl
  | cons c rest ih =>
    simp only [applyCloses]
    rw [ih]
    cases c <;> exact applyPrim_detached _ _ _ _ _

theorem step_detached (rule : Pump.Rule) (t : Topo) (s : Sys) (st : Teardown.Step) (ho : t.handOver = true) :
    (Teardown.step rule t s st).1.detached = s.detached := by
  cases st with
  | prim w c => exact applyPrim_detached rule t s w c
  | fwd w r =>
    simp only [Teardown.step]
    cases t.listener w r with
    | sink k => rfl
    | node wo =>
      cases s.inbox w r with
      | nil => rfl
      | cons v rest =>
        simp only [setReads]
        rw [flushReads_detached, applyPrim_detached]
  | bwd wo =>
    simp only [Teardown.step]
    split
    · rfl
    · cases t.consumer wo with
      | requester => rfl
      | node wi r =>
        simp only
        cases Pump.recv (s.comp wo).p with
        | got a => simp only [setReads]; rw [flushReads_detached, applyPrim_detached]
        | closed => simp only [setReads]; rw [flushReads_detached]
        | blocked => rfl
  | fwdEnd w r =>
    simp only [Teardown.step]
    cases t.listener w r with
    | sink k => rfl
    | node wo =>
      simp only
      split
      · simp only [setReads]; rw [flushReads_detached]
      · rfl
  | sinkAnswer k a =>
    simp only [Teardown.step]
    cases s.queue k with
    | nil => rfl
    | cons e rest =>
      obtain ⟨w, r⟩ := e
      simp only
      rw [applyPrim_detached]
  | bwdLate wo => simp only [Teardown.step, ho, if_true]
  | down td => exact applyCloses_detached rule t s _

theorem run_detached (rule : Pump.Rule) (t : Topo) (s : Sys) (h : List Teardown.Step) (ho : t.handOver = true) :
    (Teardown.run rule t s h).detached = s.detached := by
  induction h generalizing s with
  | nil => rfl
  | cons st rest ih => simp only [Teardown.run]; rw [ih, step_detached rule t s st ho]

/-- States reachable by histories in which every requester is the sole consumer of its writer. -/
def Reach (t : Topo) (s : Sys) : Prop := ∃ h, RunNoSteal h ∧ s = Teardown.run .discard t {} h

theorem reach_step {t : Topo} {s : Sys} (hr : Reach t s) (st : Teardown.Step) (hs : StepNoSteal st) :
    Reach t (Teardown.step .discard t s st).1 := by
  obtain ⟨h, hn, e⟩ := hr
  refine ⟨h ++ [st], ?_, ?_⟩
  · intro x hx
    rcases List.mem_append.1 hx with hx | hx
    · exact hn x hx
    · simp only [List.mem_singleton] at hx; subst hx; exact hs
  · rw [run_append, ← e]; rfl

theorem reach_cinv {t : Topo} {s : Sys} (hr : Reach t s) (w : WId) : CInv (s.comp w) := by
  obtain ⟨h, hn, e⟩ := hr
  obtain ⟨cs, n, e2⟩ := run_evolves .discard t {} h hn w
  rw [e, e2]
  exact cinv_run _ cs cinv_init n

theorem reach_detached {t : Topo} {s : Sys} (ho : t.handOver = true) (hr : Reach t s) (w : WId) : s.detached w = false := by
  obtain ⟨h, _, e⟩ := hr
  rw [e, run_detached _ _ _ _ ho]

/-- The backward loop's last act on the closed channel: nothing the node had taken is left waiting. -/
theorem bwd_closed_clears (t : Topo) (s : Sys) (wo wi : WId) (r : RId) (hc : t.consumer wo = .node wi r)
    (hdet : s.detached wo = false)
    (hb : (s.comp wo).p.buf = []) (he : (s.comp wo).p.exited = true) :
    (Teardown.step .discard t s (.bwd wo)).1.reads wi r = [] := by
  have hr : Pump.recv (s.comp wo).p = .closed := by simp [Pump.recv, hb, he]
  simp only [Teardown.step, hdet, Bool.false_eq_true, if_false, hc, hr, setReads, and_self, if_true]
  exact flushReads_all_some _ _ _ _ _ _ (fillAll_all_some _ _)

/-- Once a node's out-writer `wo` is closed, at most `buffered + 2` steps of its own goroutines
(backward-loop iterations and the writer pump returning) leave nothing the node had taken from
its in-reader `(wi, r)` waiting: every such request has been answered upstream, in read order –
with the response that was still delivered, or with `dropped`. -/
theorem node_release (t : Topo) (ho : t.handOver = true) (wo wi : WId) (r : RId) (hc : t.consumer wo = .node wi r) (hne : wo ≠ wi) :
    ∀ (n : Nat) (s : Sys), Reach t s → (s.comp wo).w.done = true → (s.comp wo).p.buf.length ≤ n →
      ∃ sched : List Teardown.Step, (∀ st ∈ sched, st = .bwd wo ∨ st = .prim wo .pumpExit) ∧
        sched.length ≤ n + 2 ∧ (Teardown.run .discard t s sched).reads wi r = [] := by
  intro n
  induction n with
  | zero =>
    intro s hr hd hn
    have hb : (s.comp wo).p.buf = [] := List.length_eq_zero_iff.1 (Nat.le_zero.1 hn)
    have hi := reach_cinv hr wo
    cases he : (s.comp wo).p.exited with
    | true =>
      exact ⟨[.bwd wo], by simp, by simp, by simpa [Teardown.run] using bwd_closed_clears t s wo wi r hc (reach_detached ho hr wo) hb he⟩
    | false =>
      have hic : (s.comp wo).p.inClosed = true := by rw [hi.closed]; exact hd
      refine ⟨[.prim wo .pumpExit, .bwd wo], by simp, by simp, ?_⟩
      simp only [Teardown.run]
      apply bwd_closed_clears t _ wo wi r hc
      · exact reach_detached ho (reach_step hr (.prim wo .pumpExit) (by simp [StepNoSteal])) wo
      · simp [Teardown.step, applyPrim_comp, applyC, Pump.stepR, hic]
      · simp [Teardown.step, applyPrim_comp, applyC, Pump.stepR, hic]
  | succ n ih =>
    intro s hr hd hn
    cases hb : (s.comp wo).p.buf with
    | nil => exact
        (let ⟨sched, h1, h2, h3⟩ := ih s hr hd (by rw [hb]; simp); ⟨sched, h1, by omega, h3⟩)
    | cons a rest =>
      have hi := reach_cinv hr wo
      have hex : (s.comp wo).p.exited = false := by
        cases he : (s.comp wo).p.exited with
        | false => rfl
        | true => have := (hi.exit he).1; rw [hb] at this; cases this
      have hout := hi.outstanding hex
      have hpos : (s.comp wo).got.length < (s.comp wo).accepted := by
        rw [hb] at hout; unfold Comp.outstanding at hout; simp only [List.length_cons] at hout; omega
      have hrecv : Pump.recv (s.comp wo).p = .got a := by simp [Pump.recv, hb]
      -- one backward-loop iteration
      have hs' := reach_step hr (.bwd wo) trivial
      have hcomp : ((Teardown.step .discard t s (.bwd wo)).1.comp wo) = (applyC .discard (s.comp wo) .recv).1 := by
        simp only [Teardown.step, reach_detached ho hr wo, Bool.false_eq_true, if_false, hc, hrecv, setReads_comp]
        rw [(flushReads_evolves .discard t wi r _ _).2 wo (by simp [hne]), applyPrim_comp]
        simp
      have hc2 : (applyC .discard (s.comp wo) .recv).1.w = (s.comp wo).w ∧
          (applyC .discard (s.comp wo) .recv).1.p.buf = rest := by
        simp only [applyC, hpos, if_true, hrecv, Pump.stepR, hb]
        exact ⟨trivial, trivial⟩
      obtain ⟨sched, h1, h2, h3⟩ := ih _ hs' (by rw [hcomp, hc2.1]; exact hd)
        (by rw [hcomp, hc2.2]; rw [hb] at hn; simp only [List.length_cons] at hn; omega)
      refine ⟨.bwd wo :: sched, ?_, by simp; omega, by simpa [Teardown.run] using h3⟩
      intro st hst
      simp only [List.mem_cons] at hst
      rcases hst with rfl | hst
      · exact Or.inl rfl
      · exact h1 st hst

end Uniflow.TeardownProofs

/-! ### The same lifting for an arbitrary predicate on the component steps

`Internal` are the component steps the node loops, the sinks and the teardown actions perform on
their own (a write, an answer, a close, the consumer's receive); a system step that is a bare
component step (`prim`) performs that step.  For every `Q` that holds of the internal steps: if
every `prim` step of a history satisfies `Q`, every component evolves by `Q`-steps only. -/

namespace Uniflow.TeardownProofs
open Uniflow Uniflow.Writer Uniflow.Teardown Uniflow.WriterProofs

def Internal : CStep → Prop
  | .recv => True
  | .w (.write _) => True
  | .w (.answer _ _) => True
  | .w (.closeR _) => True
  | .w .closeW => True
  | _ => False

def StepQ (Q : WId → CStep → Prop) : Teardown.Step → Prop
  | .prim w c => Q w c
  | _ => True

def RunQ (Q : WId → CStep → Prop) (h : List Teardown.Step) : Prop := ∀ st ∈ h, StepQ Q st

/-- `c'` is reached from `c` by component steps that all satisfy `Q`. -/
def EvolvesQ (rule : Pump.Rule) (Q : CStep → Prop) (c c' : Comp) : Prop := ∃ cs, (∀ x ∈ cs, Q x) ∧ c' = runC rule c cs

theorem EvolvesQ.refl (rule : Pump.Rule) (Q : CStep → Prop) (c : Comp) : EvolvesQ rule Q c c := ⟨[], by simp, rfl⟩

theorem EvolvesQ.trans {rule : Pump.Rule} {Q : CStep → Prop} {a b c : Comp} (h1 : EvolvesQ rule Q a b) (h2 : EvolvesQ rule Q b c) : EvolvesQ rule Q a c := by
  obtain ⟨cs1, n1, e1⟩ := h1
  obtain ⟨cs2, n2, e2⟩ := h2
  refine ⟨cs1 ++ cs2, ?_, by rw [runC_append, ← e1, e2]⟩
  intro x hx
  rcases List.mem_append.1 hx with hx | hx
  · exact n1 x hx
  · exact n2 x hx

/-- System-level evolution: every component evolves, and the ones outside `fp` are untouched. -/
def SysEvolvesQ (rule : Pump.Rule) (Q : WId → CStep → Prop) (fp : List WId) (s s' : Sys) : Prop :=
  (∀ x, EvolvesQ rule (Q x) (s.comp x) (s'.comp x)) ∧ (∀ x, x ∉ fp → s'.comp x = s.comp x)

theorem SysEvolvesQ.refl (rule : Pump.Rule) (Q : WId → CStep → Prop) (fp : List WId) (s : Sys) : SysEvolvesQ rule Q fp s s :=
  ⟨fun x => EvolvesQ.refl rule _ _, fun _ _ => rfl⟩

theorem SysEvolvesQ.trans {rule : Pump.Rule} {Q : WId → CStep → Prop} {fp : List WId} {a b c : Sys}
    (h1 : SysEvolvesQ rule Q fp a b) (h2 : SysEvolvesQ rule Q fp b c) : SysEvolvesQ rule Q fp a c :=
  ⟨fun x => (h1.1 x).trans (h2.1 x), fun x hx => by rw [h2.2 x hx, h1.2 x hx]⟩

theorem SysEvolvesQ.mono {rule : Pump.Rule} {Q : WId → CStep → Prop} {fp fp' : List WId} {a b : Sys}
    (h : SysEvolvesQ rule Q fp a b) (hsub : ∀ x ∈ fp, x ∈ fp') : SysEvolvesQ rule Q fp' a b :=
  ⟨h.1, fun x hx => h.2 x (fun hin => hx (hsub x hin))⟩

theorem prim_evolvesQ (rule : Pump.Rule) (Q : WId → CStep → Prop) (hQ : ∀ w x, Internal x → Q w x) (t : Topo) (s : Sys) (w : WId) (c : CStep) (hc : Q w c) :
    SysEvolvesQ rule Q [w] s (applyPrim rule t s w c).1 := by
  constructor
  · intro x
    rw [applyPrim_comp]
    split
    · rename_i hx; subst hx
      exact ⟨[c], by intro y hy; simp only [List.mem_singleton] at hy; subst hy; exact hc, rfl⟩
    · exact EvolvesQ.refl rule _ _
  · intro x hx
    rw [applyPrim_comp]
    simp only [List.mem_singleton] at hx
    simp [hx]

theorem flushReads_evolvesQ (rule : Pump.Rule) (Q : WId → CStep → Prop) (hQ : ∀ w x, Internal x → Q w x) (t : Topo) (w : WId) (r : RId) (s : Sys) (l : List (Nat × Option Ans)) :
    SysEvolvesQ rule Q [w] s (flushReads rule t w r s l).1 := by
  induction l generalizing s with
  | nil => simp only [flushReads]; exact SysEvolvesQ.refl rule _ _ s
  | cons e rest ih =>
    obtain ⟨v, oa⟩ := e
    cases oa with
    | none => simp only [flushReads]; exact SysEvolvesQ.refl rule _ _ s
    | some a =>
      simp only [flushReads]
      exact (prim_evolvesQ rule Q hQ t s w (.w (.answer r a)) (hQ _ _ trivial)).trans (ih _)

theorem closes_evolvesQ (rule : Pump.Rule) (Q : WId → CStep → Prop) (hQ : ∀ w x, Internal x → Q w x) (t : Topo) (s : Sys) (cl : List Close) :
    SysEvolvesQ rule Q (cl.map closeTarget) s (applyCloses rule t s cl) := by
  induction cl generalizing s with
  | nil => exact SysEvolvesQ.refl rule _ _ s
  | cons c rest ih =>
    simp only [applyCloses, List.map_cons]
    have h1 : SysEvolvesQ rule Q [closeTarget c] s (applyClose rule t s c) := by
      cases c with
      | reader w r => exact prim_evolvesQ rule Q hQ t s w _ (hQ _ _ trivial)
      | writer w => exact prim_evolvesQ rule Q hQ t s w _ (hQ _ _ trivial)
    exact (h1.mono (by simp)).trans ((ih _).mono (by intro x hx; simp [hx]))

theorem step_evolvesQ (rule : Pump.Rule) (Q : WId → CStep → Prop) (hQ : ∀ w x, Internal x → Q w x) (t : Topo) (s : Sys) (st : Teardown.Step) (hs : StepQ Q st) :
    SysEvolvesQ rule Q (footprint t s st) s (Teardown.step rule t s st).1 := by
  cases st with
  | prim w c => exact prim_evolvesQ rule Q hQ t s w c hs
  | fwd w r =>
    simp only [Teardown.step, footprint]
    cases hl : t.listener w r with
    | sink k => simp only; exact SysEvolvesQ.refl rule _ _ s
    | node wo =>
      cases hi : s.inbox w r with
      | nil => simp only; exact SysEvolvesQ.refl rule _ _ s
      | cons v rest =>
        simp only
        refine ⟨?_, ?_⟩ <;> simp only [setReads_comp]
        · exact (((prim_evolvesQ rule Q hQ t _ wo (.w (.write v)) (hQ _ _ trivial)).mono (fp' := [w, wo]) (by simp)).trans
            ((flushReads_evolvesQ rule Q hQ t w r _ _).mono (by simp))).1
        · exact (((prim_evolvesQ rule Q hQ t _ wo (.w (.write v)) (hQ _ _ trivial)).mono (fp' := [w, wo]) (by simp)).trans
            ((flushReads_evolvesQ rule Q hQ t w r _ _).mono (by simp))).2
  | bwd wo =>
    simp only [Teardown.step, footprint]
    by_cases hdet : s.detached wo = true
    · simp only [hdet, if_true]; exact SysEvolvesQ.refl rule _ _ s
    have hdet' : s.detached wo = false := by simpa using hdet
    simp only [hdet', Bool.false_eq_true, if_false]
    cases hc : t.consumer wo with
    | requester => simp only; exact SysEvolvesQ.refl rule _ _ s
    | node wi r =>
      simp only
      cases hr : Pump.recv (s.comp wo).p with
      | got a =>
        simp only
        refine ⟨?_, ?_⟩ <;> simp only [setReads_comp]
        · exact (((prim_evolvesQ rule Q hQ t s wo .recv (hQ _ _ trivial)).mono (fp' := [wo, wi]) (by simp)).trans
            ((flushReads_evolvesQ rule Q hQ t wi r _ _).mono (by simp))).1
        · exact (((prim_evolvesQ rule Q hQ t s wo .recv (hQ _ _ trivial)).mono (fp' := [wo, wi]) (by simp)).trans
            ((flushReads_evolvesQ rule Q hQ t wi r _ _).mono (by simp))).2
      | closed =>
        simp only
        refine ⟨?_, ?_⟩ <;> simp only [setReads_comp]
        · exact ((flushReads_evolvesQ rule Q hQ t wi r s _).mono (fp' := [wo, wi]) (by simp)).1
        · exact ((flushReads_evolvesQ rule Q hQ t wi r s _).mono (fp' := [wo, wi]) (by simp)).2
      | blocked => simp only; exact SysEvolvesQ.refl rule _ _ s
  | fwdEnd w r =>
    simp only [Teardown.step, footprint]
    cases hl : t.listener w r with
    | sink k => simp only; exact SysEvolvesQ.refl rule _ _ s
    | node wo =>
      simp only
      split
      · refine ⟨?_, ?_⟩ <;> simp only [setReads_comp]
        · exact (flushReads_evolvesQ rule Q hQ t w r _ _).1
        · exact (flushReads_evolvesQ rule Q hQ t w r _ _).2
      · exact SysEvolvesQ.refl rule _ _ s
  | sinkAnswer k a =>
    simp only [Teardown.step, footprint]
    cases hq : s.queue k with
    | nil => simp only; exact SysEvolvesQ.refl rule _ _ s
    | cons e rest =>
      obtain ⟨w, r⟩ := e
      simp only
      exact prim_evolvesQ rule Q hQ t { s with queue := fun x => if x = k then rest else s.queue x } w (.w (.answer r a)) (hQ _ _ trivial)
  | bwdLate wo =>
    simp only [Teardown.step, footprint]
    split
    · exact SysEvolvesQ.refl rule _ _ s
    · split
      · exact ⟨fun x => EvolvesQ.refl rule _ _, fun _ _ => rfl⟩
      · exact SysEvolvesQ.refl rule _ _ s
  | down td => exact closes_evolvesQ rule Q hQ t s (closes t td)

theorem run_evolvesQ (rule : Pump.Rule) (Q : WId → CStep → Prop) (hQ : ∀ w x, Internal x → Q w x) (t : Topo) (s : Sys) (h : List Teardown.Step) (hs : RunQ Q h) :
    ∀ x, EvolvesQ rule (Q x) (s.comp x) ((Teardown.run rule t s h).comp x) := by
  induction h generalizing s with
  | nil => intro x; exact EvolvesQ.refl rule _ _
  | cons st rest ih =>
    intro x
    simp only [Teardown.run]
    exact ((step_evolvesQ rule Q hQ t s st (hs st (by simp))).1 x).trans (ih _ (fun y hy => hs y (by simp [hy])) x)


end Uniflow.TeardownProofs
