/-
C02, joint model, general links, part 13: the external steps and schedules; the safety theorem.
-/
import Uniflow.Proofs.FlowG12

namespace Uniflow.FlowG
open Uniflow.Tracer Uniflow.Node Uniflow.Flow Uniflow.FlowInv
open Uniflow.NodeSpec (S EReq ESt Cur Rel curRead writesOf allIds flushS flushT markDone)
open Uniflow.ATracer (getL_setOrDel getL_aset)

theorem GIe_send (N : Nat) (links : List (Nat × List Tgt)) (hwf : GraphWF N links) (g : G) (v : Val)
    (h : GIe N links g) : GIe N links (send g v) := by
  obtain ⟨ss, h⟩ := h
  have hgl : g.links = links := h.glinks
  let g1 : G := { g with srcOut := [], entered := [], arrived := [], next := g.next + 1, roots := g.roots ++ [g.next] }
  show GIe N links (settle settleFuel (gWrite g1 srcKey g.next v).1)
  apply GIe_settle N links hwf
  have hlne : getL links srcKey ≠ [] := hwf.src
  have hgl' : getL g1.links srcKey = getL links srcKey := by show getL g.links srcKey = _; rw [hgl]
  have hni : NI N ss g1.nodes g1.next :=
    ⟨h.nodesLen, fun n nd hn => NodeSpec.rel_mono _ _ _ _ (h.rel n nd hn) (Nat.le_succ _)⟩
  have hrU : Unlogged g.log g.next := h.logBound g.next (Nat.le_refl _)
  obtain ⟨heq, hni1⟩ := gWrite_eqG N ss g1 srcKey g.next v hni (by rw [hgl']; exact hlne)
    (by rw [hgl']; exact tok_of_mem N links hwf _) hrU.2.1
  rw [hgl'] at heq hni1
  rw [heq]
  have key := GI_pushed N links hwf ss g h srcKey v hlne (rowPush g1 srcKey) rfl rfl rfl rfl rfl rfl
    (by simp only [rowPush, newRow, hgl']; rfl) (Nat.le_succ _)
    (by
      intro r hr
      have : r ∈ g.roots ++ [g.next] := hr
      rw [List.mem_append] at this
      rcases this with h1 | h1
      · exact Nat.lt_succ_of_lt (h.rootsB r h1)
      · simp only [List.mem_singleton] at h1; rw [h1]; exact Nat.lt_succ_self _)
    g.next hrU (Nat.lt_succ_self _)
    (fun _ => False) (pushAllS v (getL links srcKey) ss (g.next + 1))
    (pushAllG srcKey v (getL links srcKey) (rowPush g1 srcKey)).nodes
    hni1.len hni1.rel (fun _ _ => rfl) (fun _ hf => hf.elim) (fun _ hf => hf.elim) (fun _ hf => hf.elim)
    (fun _ hf => hf.elim) (fun _ hf => hf.elim) (fun _ hf => hf.elim)
    (fun m _ => sep_fresh_node N links ss D0 g h g.next (Nat.le_refl _) m)
    (fun j => sep_fresh_sink N links ss D0 g h g.next (Nat.le_refl _) j)
    (by
      intro key'
      show pendK (pushAllS v (getL links srcKey) ss (g.next + 1)) (g.roots ++ [g.next]) g.resp.length key' = _
      simp only [pendK]
      by_cases e1 : key' = srcKey
      · simp only [e1, if_true]
        exact List.drop_append_of_le_length h.respOK.1
      · simp only [e1, if_false]
        rw [pushAllS_reqs N hwf.small v _ ss _ _ (tok_of_mem N links hwf _)])
    ⟨by show g.resp.length ≤ (g.roots ++ [g.next]).length; have := h.respOK.1; simp only [List.length_append]; omega,
     by show (g.roots ++ [g.next]).take g.resp.length = _; exact List.take_append_of_le_length h.respOK.1⟩
  exact ⟨_, GI_congr N links _ D0 _ _ key rfl rfl rfl rfl rfl rfl rfl rfl rfl⟩

theorem GIe_sinkAnswer (N : Nat) (links : List (Nat × List Tgt)) (hwf : GraphWF N links) (g g' : G) (k : Nat)
    (a : Option Ans) (h : GIe N links g) (hs : sinkAnswer g k a = some g') : GIe N links g' := by
  obtain ⟨ss, h⟩ := h
  have h0 : GI N links ss D0 (clearObs g) := GI_congr N links ss D0 g _ h rfl rfl rfl rfl rfl rfl rfl rfl rfl
  simp only [sinkAnswer] at hs
  cases hk : getL (clearObs g).sinks k with
  | nil => simp [hk] at hs
  | cons x rest =>
    obtain ⟨c, v⟩ := x
    simp only [hk, Option.some.injEq] at hs
    subst hs
    apply GIe_settle N links hwf
    exact ⟨ss, GI_sinkAns N links hwf ss (clearObs g) h0 k c v rest _ hk⟩

theorem action_cur (s : S) (nd : Node) (nx : Nat) (hrel : Rel s nd nx) (i : Nat) (p : Pkt)
    (hat : actionThread nd.threads 0 = some (i, p)) : i = 0 ∧ s.cur = .inAction p := by
  rw [hrel.threads] at hat
  cases hc : s.cur with
  | idle => rw [hc] at hat; simp [actionThread, NodeSpec.pcOf] at hat
  | inAction p' =>
    rw [hc] at hat
    simp only [actionThread, NodeSpec.pcOf, Option.some.injEq, Prod.mk.injEq] at hat
    rw [hat.2]; exact ⟨hat.1.symm, rfl⟩
  | toLink _ _ _ => rw [hc] at hat; simp [actionThread, NodeSpec.pcOf] at hat
  | linked _ _ _ => rw [hc] at hat; simp [actionThread, NodeSpec.pcOf] at hat

theorem GIe_release_core (N : Nat) (links : List (Nat × List Tgt)) (hwf : GraphWF N links) (ss : Nat → S) (g : G)
    (h : GI N links ss D0 g) (n : Nat) (nd nd' : Node) (p : Pkt) (v : Val) (o : Outcome) (w : Wid) (ev : List Ev)
    (hn : getNode g.nodes n = some nd) (hc : (ss n).cur = .inAction p)
    (ho : (o = .outs [some ⟨g.next, v⟩] ∧ w = outW 0) ∨ (o = .err ⟨g.next, v⟩ ∧ w = errW))
    (hst : Node.step nd (.finish 0 o) = some (nd', ev)) :
    GIe N links (putNode { g with next := g.next + 1,
                                  log := { g.log with acts := aset g.log.acts p.id [g.next],
                                                      owner := aset g.log.owner g.next (qTag n) } } n nd' ev) := by
  have hrel := h.rel n nd hn
  have hw2 : w < 2 := by rcases ho with ⟨_, e⟩ | ⟨_, e⟩ <;> simp [e, outW, errW]
  obtain ⟨s', hs1, hs2⟩ := sim_some (ss n) nd nd' (.finish 0 o) (g.next + 1) ev
    (NodeSpec.sim_finish (ss n) nd g.next v o w hrel ho) hst
  have : s' = { (ss n) with cur := .toLink p ⟨g.next, v⟩ w } ∧ ev = [] := by
    rcases ho with ⟨e1, e2⟩ | ⟨e1, e2⟩
    · subst e1; subst e2
      simp only [NodeSpec.step, hc, Option.some.injEq, Prod.mk.injEq] at hs1
      exact ⟨hs1.1.symm, hs1.2.symm⟩
    · subst e1; subst e2
      simp only [NodeSpec.step, hc, Option.some.injEq, Prod.mk.injEq] at hs1
      exact ⟨hs1.1.symm, hs1.2.symm⟩
  obtain ⟨e1, e2⟩ := this
  subst e1; subst e2
  have key := GI_release N links hwf ss g h n nd nd' p v w hw2 hn hc hs2
  simp only [putNode, route]
  exact ⟨_, GI_congr N links _ D0 _ _ key rfl rfl rfl rfl rfl rfl rfl rfl rfl⟩

theorem GIe_release (N : Nat) (links : List (Nat × List Tgt)) (hwf : GraphWF N links) (g g' : G) (n : Nat) (r : Flow.Rel)
    (v : Val) (hr : r = .out v ∨ r = .err v) (h : GIe N links g) (hs : release g n r = some g') :
    GIe N links g' := by
  obtain ⟨ss, h⟩ := h
  have h0 : GI N links ss D0 (clearObs g) := GI_congr N links ss D0 g _ h rfl rfl rfl rfl rfl rfl rfl rfl rfl
  simp only [release] at hs
  cases hn : getNode (clearObs g).nodes n with
  | none => simp [hn] at hs
  | some nd =>
    simp only [hn] at hs
    have hrel := h0.rel n nd hn
    cases hat : actionThread nd.threads 0 with
    | none => simp [hat] at hs
    | some ip =>
      obtain ⟨i, p⟩ := ip
      obtain ⟨ei, hc⟩ := action_cur (ss n) nd _ hrel i p hat
      subst ei
      have hplt : p.id < (clearObs g).next := hrel.bound p.id (by simp [allIds, hc, NodeSpec.idsC])
      have hne : ((clearObs g).next != p.id) = true := by
        rw [bne_iff_ne]; exact Ne.symm (Nat.ne_of_lt hplt)
      simp only [hat] at hs
      rcases hr with e | e
      · subst e
        simp only [] at hs
        cases hst : Node.step nd (.finish 0 (.outs [some ⟨(clearObs g).next, v⟩])) with
        | none => simp [hst] at hs
        | some r =>
          obtain ⟨nd', ev⟩ := r
          simp only [hst, hrel.kind, program, writeIds, List.filter, hne, Option.some.injEq] at hs
          subst hs
          apply GIe_settle N links hwf
          exact GIe_release_core N links hwf ss (clearObs g) h0 n nd nd' p v _ (outW 0) ev hn hc (Or.inl ⟨rfl, rfl⟩) hst
      · subst e
        simp only [] at hs
        cases hst : Node.step nd (.finish 0 (.err ⟨(clearObs g).next, v⟩)) with
        | none => simp [hst] at hs
        | some r =>
          obtain ⟨nd', ev⟩ := r
          simp only [hst, hrel.kind, program, writeIds, List.filter, hne, Option.some.injEq] at hs
          subst hs
          apply GIe_settle N links hwf
          exact GIe_release_core N links hwf ss (clearObs g) h0 n nd nd' p v _ errW ev hn hc (Or.inr ⟨rfl, rfl⟩) hst

theorem GIe_ext (N : Nat) (links : List (Nat × List Tgt)) (hwf : GraphWF N links) (g : G) (e : Ext) (he : ExtT1 e)
    (h : GIe N links g) : GIe N links (ext g e) := by
  cases e with
  | send v => exact GIe_send N links hwf g v h
  | sinkAnswer k a =>
    simp only [ext]
    cases hs : sinkAnswer g k a with
    | none => exact h
    | some g' => exact GIe_sinkAnswer N links hwf g g' k a h hs
  | release n r =>
    simp only [ext]
    cases hs : release g n r with
    | none => exact h
    | some g' =>
      cases r with
      | out v => exact GIe_release N links hwf g g' n _ v (Or.inl rfl) h hs
      | err v => exact GIe_release N links hwf g g' n _ v (Or.inr rfl) h hs
      | same => exact he.elim
      | many _ => exact he.elim
      | drop => exact he.elim
      | sames _ => exact he.elim
      | mixed _ => exact he.elim

theorem GIe_runExt (N : Nat) (links : List (Nat × List Tgt)) (hwf : GraphWF N links) (es : List Ext) :
    ∀ (g : G), (∀ e ∈ es, ExtT1 e) → GIe N links g → GIe N links (runExt g es) := by
  induction es with
  | nil => intro g _ h; exact h
  | cons e es ih =>
    intro g he h
    simp only [runExt]
    exact ih _ (fun e' he' => he e' (List.mem_cons_of_mem _ he'))
      (GIe_ext N links hwf g e (he e (by simp)) h)

theorem GIe_init (N : Nat) (links : List (Nat × List Tgt)) (hwf : GraphWF N links) :
    GIe N links (initG (List.replicate N .oneToOne) links) := ⟨_, GI_init N links⟩

theorem all2_index {α β : Type} (P : α → β → Prop) : ∀ (l1 : List α) (l2 : List β), All2 P l1 l2 →
    ∀ (i : Nat) (b : β), l2[i]? = some b → ∃ a, l1[i]? = some a ∧ P a b
  | [], [], _, i, b, hb => by simp at hb
  | x :: xs, y :: ys, h, 0, b, hb => by
    simp only [List.getElem?_cons_zero, Option.some.injEq] at hb
    subst hb; exact ⟨x, rfl, h.1⟩
  | x :: xs, y :: ys, h, i + 1, b, hb => by
    simp only [List.getElem?_cons_succ] at hb ⊢
    exact all2_index P xs ys h.2 i b hb
  | [], _ :: _, h, _, _, _ => absurd h (by simp [All2])
  | _ :: _, [], h, _, _, _ => absurd h (by simp [All2])

/-- safety: in every state satisfying the invariant, the i-th response the source has received is the
reference answer of its i-th request (in particular the whole derivation tree of that request is
answered) -/
theorem GIe_safety (N : Nat) (links : List (Nat × List Tgt)) (g : G) (h : GIe N links g) :
    ∀ (i : Nat) (a : Ans), g.resp[i]? = some a → ∃ p, g.roots[i]? = some p ∧ ∃ f, refAns g.log f p = some a := by
  obtain ⟨ss, h⟩ := h
  intro i a hi
  obtain ⟨p, hp, hra⟩ := all2_index _ _ _ h.respOK.2 i a hi
  rw [List.getElem?_take] at hp
  split at hp
  · exact ⟨p, hp, hra⟩
  · cases hp

end Uniflow.FlowG
