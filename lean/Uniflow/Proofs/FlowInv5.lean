/-
C02, joint model, part 5 of the invariant proof: a uniform view of the writer clauses and the effect
of handing a new copy to a linked reader (used by `send` and by an accepted `Write`).
-/
import Uniflow.Proofs.FlowInv4

namespace Uniflow.FlowInv
open Uniflow.Tracer Uniflow.Node Uniflow.Flow
open Uniflow.NodeSpec (S EReq ESt Cur Rel curRead writesOf allIds)
open Uniflow.ATracer (getL_setOrDel getL_aset)

/-- the packets written to writer `key` whose answer its owner has not consumed yet -/
def pendK (ss : Nat → S) (roots : List Pid) (nresp : Nat) (key : Nat) : List Pid :=
  if key = srcKey then roots.drop nresp else writesOf (ss (key / 64)).reqs (key % 64)

theorem pendK_wkey (ss : Nat → S) (roots : List Pid) (nresp N n w : Nat) (hN : N ≤ 1000) (hn : n < N) (hw : w < 2) :
    pendK ss roots nresp (wkey n w) = writesOf (ss n).reqs w := by
  have h1 : wkey n w ≠ srcKey := wkey_ne_src N n w hN hn hw
  have h2 : wkey n w / 64 = n := by simp only [wkey]; omega
  have h3 : wkey n w % 64 = w := by simp only [wkey]; omega
  simp only [pendK, h1, if_false, h2, h3]

theorem pendK_src (ss : Nat → S) (roots : List Pid) (nresp : Nat) : pendK ss roots nresp srcKey = roots.drop nresp := by
  simp [pendK]

/-- the writer clauses of `FI`, uniformly over all linked writers -/
def WKall (links : List (Nat × List Tgt)) (ss : Nat → S) (D : Nat → List (Pid × Ans)) (g : G) : Prop :=
  ∀ key t, getL links key = [t] →
    WK g.log (gw g.writers key) (getL g.fifo (rkeyOf t)) key (pendK ss g.roots g.resp.length key) (heldD D ss g.sinks t)

theorem wkAll_of_FI (N : Nat) (links : List (Nat × List Tgt)) (hwf : TreeWF N links) (ss : Nat → S)
    (D : Nat → List (Pid × Ans)) (g : G) (h : FI N links ss D g) : WKall links ss D g := by
  intro key t hl
  rcases hwf.keys key (by rw [hl]; simp) with e | ⟨n, w, hn, hw, e⟩
  · subst e; rw [pendK_src]; exact (h.wkS t hl).1
  · subst e; rw [pendK_wkey ss g.roots g.resp.length N n w hwf.small hn hw]; exact h.wkN n w t hn hw hl

theorem wkN_of_all (N : Nat) (links : List (Nat × List Tgt)) (hwf : TreeWF N links) (ss : Nat → S)
    (D : Nat → List (Pid × Ans)) (g : G) (h : WKall links ss D g) :
    ∀ n w t, n < N → w < 2 → getL links (wkey n w) = [t] →
      WK g.log (gw g.writers (wkey n w)) (getL g.fifo (rkeyOf t)) (wkey n w) (writesOf (ss n).reqs w) (heldD D ss g.sinks t) := by
  intro n w t hn hw hl
  have := h (wkey n w) t hl
  rwa [pendK_wkey ss g.roots g.resp.length N n w hwf.small hn hw] at this

/-- a new packet `qid` is written to writer `K` and its copy `c` handed to the linked reader `t` -/
theorem wk_push_all (N : Nat) (links : List (Nat × List Tgt)) (hwf : TreeWF N links) (ss ss' : Nat → S) (g g' : G)
    (hall : WKall links ss D0 g) (K : Nat) (t : Tgt) (hl : getL links K = [t]) (qid c : Pid)
    (hlog : LogExt g.log g'.log qid) (hWL : WLogged g'.log qid c)
    (hW : ∀ key, gw g'.writers key =
      if key = K then { rows := (gw g.writers K).rows ++ [[none]], queue := (gw g.writers K).queue } else gw g.writers key)
    (hF : ∀ rk, getL g'.fifo rk = if rk = rkeyOf t then getL g.fifo rk ++ [K] else getL g.fifo rk)
    (hH : ∀ key t', getL links key = [t'] → heldD D0 ss' g'.sinks t' =
      if rkeyOf t' = rkeyOf t then heldD D0 ss g.sinks t' ++ [c] else heldD D0 ss g.sinks t')
    (hP : ∀ key, pendK ss' g'.roots g'.resp.length key =
      if key = K then pendK ss g.roots g.resp.length key ++ [qid] else pendK ss g.roots g.resp.length key) :
    WKall links ss' D0 g' := by
  intro key t' hl'
  have hold := hall key t' hl'
  by_cases e : key = K
  · subst e
    have ett : t' = t := by rw [hl] at hl'; simp at hl'; exact hl'.symm
    subst ett
    rw [hW, hF, hH key t' hl', hP]
    simp only [if_true]
    exact wk_push g'.log (gw g.writers key) _ key _ _ qid c (wk_ext g.log g'.log qid hlog _ _ _ _ _ hold) hWL
  · have hrk : rkeyOf t' ≠ rkeyOf t := by
      intro e2
      exact e (hwf.feeder key K t' t (by rw [hl']; simp) (by rw [hl]; simp) e2)
    rw [hW, hF, hH key t' hl', hP]
    simp only [e, hrk, if_false]
    exact wk_ext g.log g'.log qid hlog _ _ _ _ _ hold

/-- Building `FI` for a successor state: the clauses of the nodes that did not change (`¬ ch n`) follow
from the old invariant; everything else is supplied. -/
theorem FI_build (N : Nat) (links : List (Nat × List Tgt)) (hwf : TreeWF N links) (ss ss' : Nat → S)
    (D D' : Nat → List (Pid × Ans)) (g g' : G) (h : FI N links ss D g) (k : Pid) (ch : Nat → Prop)
    (e1 : g'.links = g.links)
    (hlen : ∀ n, (getNode g'.nodes n).isSome = true ↔ n < N)
    (hrel : ∀ n nd, getNode g'.nodes n = some nd → Rel (ss' n) nd g'.next)
    (hsame : ∀ n, ¬ ch n → ss' n = ss n)
    (hchN : ∀ n, ch n → n < N)
    (hx : LogExt g.log g'.log k) (hown : ∀ id, id < g.next → aget g'.log.owner id = aget g.log.owner id)
    (hle : g.next ≤ g'.next) (hlb : ∀ id, g'.next ≤ id → Unlogged g'.log id)
    (hsepN : ∀ m, ¬ ch m → k ∉ unlIds (ss m))
    (hreq : ∀ n, ch n → ∀ r ∈ (ss' n).reqs, ReqOK g'.log r)
    (hcur : ∀ n, ch n → CurOK g'.log n (ss' n).cur)
    (hinb : ∀ n, ch n → ∀ p ∈ (ss' n).inbox, Unlogged g'.log p.id)
    (hownN : ∀ n, ch n → ∀ id ∈ heldAt ss' g'.sinks (.node n 0), aget g'.log.owner id = some (rkeyOf (.node n 0)))
    (hsink : ∀ j, ((getL g'.sinks j).map (·.1)).Nodup ∧ ∀ c ∈ (getL g'.sinks j).map (·.1),
      Unlogged g'.log c ∧ c < g'.next ∧ aget g'.log.owner c = some (rkeyOf (.sink j)))
    (hroots : ∀ r ∈ g'.roots, r < g'.next)
    (hdebt : ∀ rk, ∀ x ∈ D' rk, RA g'.log x.1 x.2)
    (hwk : WKall links ss' D' g') (hsrcq : (gw g'.writers srcKey).queue = [])
    (hresp : g'.resp.length ≤ g'.roots.length ∧ All2 (RA g'.log) (g'.roots.take g'.resp.length) g'.resp)
    (hnofeed : ∀ t, TgtOK t → (∀ key, t ∉ getL links key) → heldD D' ss' g'.sinks t = [])
    (hwq0 : ∀ key, getL links key = [] → (gw g'.writers key).queue = [])
    (hordk : OrdAt g'.log k g'.next) :
    FI N links ss' D' g' := by
  refine { glinks := by rw [e1]; exact h.glinks, nodesLen := hlen, rel := hrel, dflt := ?_, reqsOK := ?_, curOK := ?_,
           inboxOK := ?_, ownNode := ?_, sinkOK := hsink, debtOK := hdebt,
           wkN := wkN_of_all N links hwf ss' D' g' hwk, wkS := fun t hl => ⟨by have := hwk srcKey t hl; rwa [pendK_src] at this, hsrcq⟩,
           respOK := hresp, nofeed := hnofeed, logBound := hlb, rootsB := hroots, wq0 := hwq0,
           logOrd := logOrd_ext g.log g'.log k g.next g'.next h.logOrd hx hle hordk }
  · intro n hn
    have : ¬ ch n := fun hc => by have := hchN n hc; omega
    rw [hsame n this]; exact h.dflt n hn
  · intro n r hr
    by_cases hc : ch n
    · exact hreq n hc r hr
    · rw [hsame n hc] at hr; exact reqOK_ext g.log g'.log k hx r (h.reqsOK n r hr)
  · intro n
    by_cases hc : ch n
    · exact hcur n hc
    · rw [hsame n hc]
      apply curOK_ext g.log g'.log k hx n _ _ _ (h.curOK n)
      · intro id hid
        exact hown id (live_lt N links ss D g h n id (unlIds_sub_allIds _ id (by simp [unlIds, hid])))
      · intro hk; exact hsepN n hc (by simp [unlIds, hk])
  · intro n p hp
    by_cases hc : ch n
    · exact hinb n hc p hp
    · rw [hsame n hc] at hp
      exact unlogged_ext g.log g'.log k hx p.id
        (fun e2 => hsepN n hc (by simp only [unlIds, List.mem_append, List.mem_map]; right; exact ⟨p, hp, e2⟩))
        (h.inboxOK n p hp)
  · intro n id hid
    by_cases hc : ch n
    · exact hownN n hc id hid
    · have hid' : id ∈ heldAt ss g.sinks (.node n 0) := by
        simp only [heldAt] at hid ⊢; rw [hsame n hc] at hid; exact hid
      have hlt : id < g.next := live_lt N links ss D g h n id (heldOf_sub_allIds _ id hid')
      rw [hown id hlt]; exact h.ownNode n id hid'

end Uniflow.FlowInv
