/-
C02, joint model over the abstract tracer (`ATracer.A` under `J`, `NodeProtocol.lean`), part 1: the node's part of the
ghost-log invariant per request – the derived packets in link order (`acts`) match its cells: a linked cell's packet
is unlogged, a filled cell holds the reference answer of its packet – and helper facts.
(The one-thread node relation `JB`/`NL` and the invariant `FlowH.HI` of classes T3/T4 were subsumed by `FlowM`/`FlowN`
– class T5 – and removed; classes T3 and T4 are now corollaries of T5.)
-/
import Uniflow.Proofs.NodeProtocol
import Uniflow.Proofs.FlowG15

namespace Uniflow.FlowH
open Uniflow.Tracer Uniflow.Node Uniflow.Flow Uniflow.FlowInv Uniflow.FlowG Uniflow.ATracer
open Uniflow.ATracer (getL_setOrDel getL_aset)

theorem pend_nextPc_sub (o : Op) (ops : List Op) : ∀ k ∈ pendIds (nextPc ops), k ∈ pendIds (.emit (o :: ops)) := by
  intro k hk
  cases ops with
  | nil => simp [nextPc, pendIds] at hk
  | cons o' ops' =>
    simp only [nextPc, pendIds] at hk ⊢
    cases o with
    | link s t => simp only [linkTargets]; split <;> simp [hk]
    | write w q => simp [linkTargets, hk]

def optl (l : List Pid) : Option (List Pid) := if l = [] then none else some l

/-- the link targets still to come in the thread's program whose source is request `p` (`Link(p, p)` – the action
returned its input packet – registers nothing) -/
def remOps (p : Pid) : List Op → List Pid
  | [] => []
  | .link s t :: ops => if s = p then (if s = t then remOps p ops else t :: remOps p ops) else remOps p ops
  | .write _ _ :: ops => remOps p ops

def remFor (pc : PC) (p : Pid) : List Pid :=
  match pc with
  | .emit ops => remOps p ops
  | _ => []

def CellA (lg : Log) (n : Nat) (q : Pid) : Cell → Prop
  | .linked q' => q' = q ∧ Unlogged lg q ∧ aget lg.owner q = some (qTag n)
  | .written q' _ => q' = q
  | .filled a => RA lg q a

def ReqA (lg : Log) (n : Nat) (pc : PC) (x : Req) : Prop :=
  match x.st with
  | .direct _ => remFor pc x.p = []     -- written itself (the action returned its input packet); awaits the answer
  | .cells cs => ∃ qs, All2 (CellA lg n) qs cs ∧ aget lg.acts x.p = optl (qs ++ remFor pc x.p) ∧
      aget lg.echo x.p = none ∧ aget lg.sinkAns x.p = none ∧ aget lg.dels x.p = none ∧
      (remFor pc x.p = [] ∨ allLinked cs = true) ∧
      (∀ t ∈ remFor pc x.p, Unlogged lg t ∧ aget lg.owner t = some (qTag n))

/-- a request that derived no packet and has its answer – itself (`Write(nil, in)`, a refused write of the request)
or the answer to the write of the request packet itself –, not yet flushed -/
def ReqE (lg : Log) (pc : PC) (x : Req) : Prop :=
  ∃ ans, x.st = .cells [.filled ans] ∧ RA lg x.p ans ∧ remFor pc x.p = []

def ReqB (lg : Log) (n : Nat) (pc : PC) (x : Req) : Prop := ReqA lg n pc x ∨ ReqE lg pc x

theorem reqB_A (lg : Log) (n : Nat) (pc : PC) (x : Req) (h : ReqB lg n pc x)
    (hne : ∀ v, x.st ≠ .cells [.filled v]) : ReqA lg n pc x := by
  rcases h with h | ⟨v, e, _⟩
  · exact h
  · exact absurd e (hne v)

/-- the out-writers the remaining program writes to exist in the pump -/
def wOK : PC → Prop
  | .emit ops => ∀ w q, Op.write (some w) q ∈ ops → w < maxW
  | _ => True

theorem cellA_ext (lg lg' : Log) (k : Pid) (hx : LogExt lg lg' k) (n : Nat) (q : Pid) (c : Cell)
    (hk : ∀ q', c = .linked q' → q' ≠ k) (ho : ∀ q', c = .linked q' → aget lg'.owner q' = aget lg.owner q')
    (h : CellA lg n q c) : CellA lg' n q c := by
  cases c with
  | linked q' =>
    obtain ⟨e, hu, hw⟩ := h
    subst e
    exact ⟨rfl, unlogged_ext lg lg' k hx q' (hk q' rfl) hu, by rw [ho q' rfl]; exact hw⟩
  | written q' w => exact h
  | filled a => exact ra_ext lg lg' k hx q a h

theorem all2_cellA_ext (lg lg' : Log) (k : Pid) (hx : LogExt lg lg' k) (n : Nat) : ∀ (qs : List Pid) (cs : List Cell),
    (∀ q' ∈ linkedIds cs, q' ≠ k ∧ aget lg'.owner q' = aget lg.owner q') →
    All2 (CellA lg n) qs cs → All2 (CellA lg' n) qs cs
  | [], [], _, _ => trivial
  | q :: qs, c :: cs, hk, h => by
    refine ⟨cellA_ext lg lg' k hx n q c ?_ ?_ h.1, all2_cellA_ext lg lg' k hx n qs cs ?_ h.2⟩
    · intro q' e; subst e; exact (hk q' (by simp [linkedIds])).1
    · intro q' e; subst e; exact (hk q' (by simp [linkedIds])).2
    · intro q' hq'
      apply hk q'
      cases c <;> simp [linkedIds, hq']
  | [], _ :: _, _, h => absurd h (by simp [All2])
  | _ :: _, [], _, h => absurd h (by simp [All2])

theorem all2_linked (lg : Log) (n : Nat) : ∀ (qs : List Pid) (cs : List Cell), All2 (CellA lg n) qs cs →
    ∀ q ∈ linkedIds cs, Unlogged lg q ∧ aget lg.owner q = some (qTag n)
  | [], [], _, q, hq => by simp [linkedIds] at hq
  | q0 :: qs, c :: cs, h, q, hq => by
    cases c with
    | linked q' =>
      simp only [linkedIds, List.mem_cons] at hq
      rcases hq with e | hq
      · obtain ⟨e1, u, o⟩ := h.1; rw [e, e1]; exact ⟨u, o⟩
      · exact all2_linked lg n qs cs h.2 q hq
    | written q' w => exact all2_linked lg n qs cs h.2 q (by simpa [linkedIds] using hq)
    | filled b => exact all2_linked lg n qs cs h.2 q (by simpa [linkedIds] using hq)
  | [], _ :: _, h, _, _ => absurd h (by simp [All2])
  | _ :: _, [], h, _, _ => absurd h (by simp [All2])

theorem mem_updReq_cases (p : Pid) (f : RSt → RSt) : ∀ (rs : List Req) (y : Req), (rs.map (·.p)).Nodup →
    y ∈ updReq p f rs → (y ∈ rs ∧ y.p ≠ p) ∨ ∃ x ∈ rs, x.p = p ∧ y = { x with st := f x.st }
  | [], y, _, h => by simp [updReq] at h
  | z :: zs, y, hnd, h => by
    simp only [List.map_cons, List.nodup_cons] at hnd
    simp only [updReq] at h
    by_cases e : z.p = p
    · rw [if_pos e] at h
      simp only [List.mem_cons] at h
      rcases h with h | h
      · right; exact ⟨z, List.mem_cons_self, e, h⟩
      · left
        refine ⟨List.mem_cons_of_mem _ h, fun e2 => hnd.1 ?_⟩
        rw [e, ← e2]; exact List.mem_map_of_mem h
    · rw [if_neg e] at h
      simp only [List.mem_cons] at h
      rcases h with h | h
      · left; rw [h]; exact ⟨List.mem_cons_self, e⟩
      · rcases mem_updReq_cases p f zs y hnd.2 h with ⟨h1, h2⟩ | ⟨x, h1, h2, h3⟩
        · left; exact ⟨List.mem_cons_of_mem _ h1, h2⟩
        · right; exact ⟨x, List.mem_cons_of_mem _ h1, h2, h3⟩

theorem nodup_p (rs : List Req) (h : (ids rs).Nodup) : (rs.map (·.p)).Nodup :=
  (map_p_sublist rs).nodup h

theorem optl_nil : optl [] = none := rfl

theorem linked_in_idsR (x : Req) (cs : List Cell) (hst : x.st = .cells cs) (q : Pid) (hq : q ∈ linkedIds cs) :
    q ∈ idsR x := by
  simp only [idsR, hst, cellsOfSt, List.mem_cons]; right; exact linkedIds_sub_open cs q hq

theorem wOK_next (o : Op) (ops : List Op) (h : wOK (.emit (o :: ops))) : wOK (nextPc ops) := by
  cases ops with
  | nil => trivial
  | cons o' ops' => exact fun w q hm => h w q (List.mem_cons_of_mem _ hm)

theorem remFor_next (p : Pid) (o : Op) (ops : List Op) :
    remFor (.emit (o :: ops)) p =
      (match o with | .link s t => if s = p then (if s = t then [] else [t]) else [] | .write _ _ => []) ++
        remFor (nextPc ops) p := by
  cases ops with
  | nil =>
    cases o with
    | link s t => simp only [remFor, remOps, nextPc]; split <;> (try split) <;> simp
    | write w q => simp [remFor, remOps, nextPc]
  | cons o' ops' =>
    cases o with
    | link s t => simp only [remFor, remOps, nextPc]; split <;> (try split) <;> simp
    | write w q => simp [remFor, remOps, nextPc]

end Uniflow.FlowH
