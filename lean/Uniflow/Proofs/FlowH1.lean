/-
C02, joint model, all node kinds with one in-port (one-to-one, one-to-many), part 1: the node ghost is the
abstract tracer state `ATracer.A` under the invariant `J` (`NodeProtocol.lean`); `JB` adds the id bound of the
joint model (every id the node knows is below `next`), and the steps of the node model are restated for it.
-/
import Uniflow.Proofs.NodeProtocol
import Uniflow.Proofs.FlowG15

namespace Uniflow.FlowH
open Uniflow.Tracer Uniflow.Node Uniflow.Flow Uniflow.FlowInv Uniflow.FlowG Uniflow.ATracer

/-- node `nd` (one forward thread) refines the abstract tracer state `a`; every id it knows is `< nx` -/
structure JB (nd : Node) (a : A) (nx : Nat) : Prop where
  j : J nd a []
  one : nd.threads.length = 1
  bnd : ∀ k ∈ ids a.reqs ++ nd.threads.flatMap tids, k < nx
  np : nd.panic = false
  r0 : ∀ x ∈ a.reqs, x.r = 0

theorem threads_one (nd : Node) (h : nd.threads.length = 1) : ∃ th, nd.threads = [th] := by
  cases hl : nd.threads with
  | nil => rw [hl] at h; simp at h
  | cons t ts =>
    cases ts with
    | nil => exact ⟨t, rfl⟩
    | cons _ _ => rw [hl] at h; simp at h

theorem jb_mono (nd : Node) (a : A) (nx nx' : Nat) (h : JB nd a nx) (hle : nx ≤ nx') : JB nd a nx' :=
  ⟨h.j, h.one, fun k hk => Nat.lt_of_lt_of_le (h.bnd k hk) hle, h.np, h.r0⟩

/-- ids not yet used may be announced as the ids the next steps introduce -/
theorem jb_fut (nd : Node) (a : A) (nx : Nat) (h : JB nd a nx) (fut : List Pid) (hnd : fut.Nodup)
    (hf : ∀ k ∈ fut, nx ≤ k) : J nd a fut := by
  refine ⟨h.j.strict, h.j.trel, h.j.inv, ?_, h.j.th⟩
  intro k
  have h0 := h.j.cnt k
  simp only [List.count_nil, Nat.add_zero] at h0
  by_cases hk : k ∈ fut
  · have h1 : (ids a.reqs).count k = 0 := List.count_eq_zero.mpr (fun hm =>
      Nat.lt_irrefl _ (Nat.lt_of_lt_of_le (h.bnd k (List.mem_append_left _ hm)) (hf k hk)))
    have h2 : (nd.threads.flatMap tids).count k = 0 := List.count_eq_zero.mpr (fun hm =>
      Nat.lt_irrefl _ (Nat.lt_of_lt_of_le (h.bnd k (List.mem_append_right _ hm)) (hf k hk)))
    have h3 : fut.count k ≤ 1 := by rw [List.Nodup.count hnd]; split <;> omega
    omega
  · rw [List.count_eq_zero.mpr hk]; omega

theorem jb_of_j (nd : Node) (a : A) (fut : List Pid) (nx : Nat) (hj : J nd a fut) : J nd a [] := by
  refine ⟨hj.strict, hj.trel, hj.inv, ?_, hj.th⟩
  intro k; have := hj.cnt k; simp only [List.count_nil]; omega

/-- every request of a one-reader node is on reader 0 -/
theorem r0_of_answers (rs rs' : List Req) (ev : List Ev) (nr : Rid → List Pid) (h : Answers rs rs' ev nr)
    (h0 : ∀ x ∈ rs, x.r = 0) (hn : ∀ r, r ≠ 0 → nr r = []) : ∀ x ∈ rs', x.r = 0 := by
  intro x hx
  apply Classical.byContradiction
  intro hne
  obtain ⟨popped, _, _, h3⟩ := h
  have := h3 x.r
  have e1 : rs.filter (fun y => y.r = x.r) = [] := by
    apply List.filter_eq_nil_iff.mpr
    intro y hy; simp only [decide_eq_true_eq]; rw [h0 y hy]; exact fun e => hne e.symm
  rw [e1, hn x.r hne] at this
  simp only [List.map_nil, List.append_nil] at this
  have hm : x ∈ rs'.filter (fun y => y.r = x.r) := List.mem_filter.mpr ⟨hx, by simp⟩
  have : (List.map (fun x => x.p) (List.filter (fun y => decide (y.r = x.r)) rs')) = [] := by
    have h4 := congrArg List.length this
    simp only [List.length_nil, List.length_append, List.length_map] at h4
    apply List.eq_nil_of_length_eq_zero
    simp only [List.length_map]; omega
  rw [List.map_eq_nil_iff] at this
  rw [this] at hm; simp at hm

end Uniflow.FlowH
