/-
Soundness of the partial-index applicability rule of `explain` (Model/Plan.lean `implied`, `pinned`, `fieldsOf`; repository
commit 70b5313): if the index filter examines only top-level fields, all of them are pinned by the query to one value,
and the index filter holds of the pinned document, then every document matching the query satisfies the index filter.
Core Lean only.
-/
import Uniflow.Proofs.Plan
import Uniflow.Proofs.Store
import Uniflow.Proofs.Maps

namespace Uniflow.Plan
open Uniflow.Value Uniflow.Store Uniflow.Query

/-! ### two possibly absent values that the filter language cannot tell apart -/

/-- both absent, or both present and `equal` -/
def OptEq : Option Val → Option Val → Prop
  | none, none => True
  | some x, some y => equal x y = true
  | _, _ => False

theorem OptEq.isSome {a b : Option Val} (h : OptEq a b) : a.isSome = b.isSome := by
  cases a <;> cases b <;> simp_all [OptEq]

theorem OptEq.val_eq {a b : Option Val} (h : OptEq a b) : equal (Query.valOf a) (Query.valOf b) = true := by
  cases a with
  | none =>
    cases b with
    | none => exact C14.equal_refl _
    | some y => simp [OptEq] at h
  | some x =>
    cases b with
    | none => simp [OptEq] at h
    | some y => simpa [OptEq, Query.valOf] using h

theorem cmp_left_congr {a b : Val} (h : equal a b = true) (x : Val) : cmp a x = cmp b x := by
  have h0 := (C14.equal_iff_cmp_zero a b).mp h
  have t1 := C14.cmp_trans a b x; have t2 := C14.cmp_trans b a x
  have t3 := C14.cmp_trans x a b; have t4 := C14.cmp_trans x b a
  have s1 := C14.cmp_trans_strict a b x; have s2 := C14.cmp_trans_strict b a x
  have := C14.cmp_antisymm a b; have := C14.cmp_antisymm a x; have := C14.cmp_antisymm b x
  have := C14.cmp_range a x; have := C14.cmp_range b x
  omega

theorem cmpOp_left_congr {a b : Val} (h : equal a b = true) (key : Bytes) (v : Val) : cmpOp key a v = cmpOp key b v := by
  unfold cmpOp
  rw [equal_left_congr h v, cmp_left_congr h v]

theorem equal_map_inv {ps : PList} {y : Val} (h : equal (.map ps) y = true) : ∃ qs, y = .map qs ∧ equalP ps qs = true := by
  cases y <;> simp [equal] at h
  exact ⟨_, rfl, h.2⟩

theorem equal_nonmap {x y : Val} (h : equal x y = true) (hx : ∀ ps, x ≠ .map ps) : ∀ qs, y ≠ .map qs := by
  intro qs hy
  subst hy
  cases x <;> simp [equal] at h
  exact hx _ rfl

theorem equalP_mfind : ∀ {ps qs : PList}, equalP ps qs = true → ∀ k, OptEq (mfind ps k) (mfind qs k)
  | .nil, .nil, _, k => by simp [mfind, OptEq]
  | .nil, .cons _ _ _, h, _ => by simp [equalP] at h
  | .cons _ _ _, .nil, h, _ => by simp [equalP] at h
  | .cons k1 v1 ps, .cons k2 v2 qs, h, k => by
    simp only [equalP, Bool.and_eq_true] at h
    simp only [mfind, equal_left_congr h.1.1 k]
    split
    · exact h.1.2
    · exact equalP_mfind h.2 k

theorem field_congr {a b : Option Val} (h : OptEq a b) (k : Val) : OptEq (field a k) (field b k) := by
  cases a with
  | none => cases b <;> simp_all [OptEq, field]
  | some x =>
    cases b with
    | none => simp [OptEq] at h
    | some y =>
      simp only [OptEq] at h
      cases x with
      | map ps =>
        obtain ⟨qs, rfl, hp⟩ := equal_map_inv h
        simpa [field] using equalP_mfind hp k
      | _ =>
        have := equal_nonmap h (by intro ps; simp)
        cases y with
        | map qs => exact absurd rfl (this qs)
        | _ => simp [field, OptEq]

mutual
  theorem refMatch_congr : ∀ (c : Val) {a b : Option Val}, OptEq a b → refMatch a c = refMatch b c
    | .map ps, a, b, h => by rw [refMatch_map, refMatch_map]; exact refP_congr ps h
    | .nil, a, b, h => by rw [refMatch_nonmap _ (by intro ps; simp), refMatch_nonmap _ (by intro ps; simp), equal_left_congr h.val_eq]
    | .bin _, a, b, h => by rw [refMatch_nonmap _ (by intro ps; simp), refMatch_nonmap _ (by intro ps; simp), equal_left_congr h.val_eq]
    | .bool _, a, b, h => by rw [refMatch_nonmap _ (by intro ps; simp), refMatch_nonmap _ (by intro ps; simp), equal_left_congr h.val_eq]
    | .err _, a, b, h => by rw [refMatch_nonmap _ (by intro ps; simp), refMatch_nonmap _ (by intro ps; simp), equal_left_congr h.val_eq]
    | .int _ _, a, b, h => by rw [refMatch_nonmap _ (by intro ps; simp), refMatch_nonmap _ (by intro ps; simp), equal_left_congr h.val_eq]
    | .uint _ _, a, b, h => by rw [refMatch_nonmap _ (by intro ps; simp), refMatch_nonmap _ (by intro ps; simp), equal_left_congr h.val_eq]
    | .f32 _, a, b, h => by rw [refMatch_nonmap _ (by intro ps; simp), refMatch_nonmap _ (by intro ps; simp), equal_left_congr h.val_eq]
    | .f64 _, a, b, h => by rw [refMatch_nonmap _ (by intro ps; simp), refMatch_nonmap _ (by intro ps; simp), equal_left_congr h.val_eq]
    | .str _, a, b, h => by rw [refMatch_nonmap _ (by intro ps; simp), refMatch_nonmap _ (by intro ps; simp), equal_left_congr h.val_eq]
    | .slice _, a, b, h => by rw [refMatch_nonmap _ (by intro ps; simp), refMatch_nonmap _ (by intro ps; simp), equal_left_congr h.val_eq]
  theorem refP_congr : ∀ (ps : PList) {a b : Option Val}, OptEq a b → refP a ps = refP b ps
    | .nil, a, b, _ => by rw [refP_nil, refP_nil]
    | .cons k v rest, a, b, h => by
      rw [refP_cons, refP_cons, refP_congr rest h]
      congr 1
      unfold entry
      cases k with
      | str key =>
        simp only
        split
        · exact refMatch_congr v (field_congr h _)
        · split
          · rw [h.isSome]
          · split
            · cases v with
              | slice xs => exact refAllL_congr xs h
              | _ => rfl
            · split
              · cases v with
                | slice xs => exact refAnyL_congr xs h
                | _ => rfl
              · rw [cmpOp_left_congr h.val_eq]
      | _ => rfl
  theorem refAllL_congr : ∀ (xs : VList) {a b : Option Val}, OptEq a b → refAllL a xs = refAllL b xs
    | .nil, a, b, _ => by rw [refAllL_nil, refAllL_nil]
    | .cons f fs, a, b, h => by rw [refAllL_cons, refAllL_cons, refMatch_congr f h, refAllL_congr fs h]
  theorem refAnyL_congr : ∀ (xs : VList) {a b : Option Val}, OptEq a b → refAnyL a xs = refAnyL b xs
    | .nil, a, b, _ => by rw [refAnyL_nil, refAnyL_nil]
    | .cons f fs, a, b, h => by rw [refAnyL_cons, refAnyL_cons, refMatch_congr f h, refAnyL_congr fs h]
end

/-! ### an analysable filter looks only at its fields -/

theorem fieldsOf_map (ps : PList) : fieldsOf (.map ps) = fieldsP ps := by
  conv => lhs; unfold fieldsOf

theorem fieldsOf_nonmap {f : Val} (h : ∀ ps, f ≠ .map ps) : fieldsOf f = none := by
  cases f with
  | map ps => exact absurd rfl (h ps)
  | _ => conv => lhs; unfold fieldsOf

/-- one step of `fields` over an entry with a string key -/
def fieldsStep (k : Val) (key : Bytes) (value : Val) (rest : Option (List Val)) : Option (List Val) :=
  if !dollar key then rest.map (k :: ·)
  else if key = opAnd || key = opOr then
    match value with
    | .slice xs =>
      match fieldsL xs, rest with
      | some a, some b => some (a ++ b)
      | _, _ => none
    | _ => none
  else none

theorem fieldsP_nil : fieldsP .nil = some [] := by
  conv => lhs; unfold fieldsP

theorem fieldsP_cons_str (key : Bytes) (value : Val) (rest : PList) :
    fieldsP (.cons (.str key) value rest) = fieldsStep (.str key) key value (fieldsP rest) := by
  conv => lhs; unfold fieldsP
  rfl

theorem fieldsP_cons_nonstr {k : Val} (value : Val) (rest : PList) (h : ∀ key, k ≠ .str key) :
    fieldsP (.cons k value rest) = none := by
  cases k with
  | str key => exact absurd rfl (h key)
  | _ => conv => lhs; unfold fieldsP

theorem fieldsL_nil : fieldsL .nil = some [] := by
  conv => lhs; unfold fieldsL

theorem fieldsL_cons (f : Val) (fs : VList) :
    fieldsL (.cons f fs) = (match fieldsOf f, fieldsL fs with | some a, some b => some (a ++ b) | _, _ => none) := by
  conv => lhs; unfold fieldsL
  rfl

variable {d e : PList}

/-- the two documents agree on the fields `ks` -/
def Agree (d e : PList) (ks : List Val) : Prop := ∀ k ∈ ks, OptEq (mfind d k) (mfind e k)

mutual
  theorem fields_V : ∀ (φ : Val) (ks : List Val), fieldsOf φ = some ks → Agree d e ks →
      refMatch (some (.map d)) φ = refMatch (some (.map e)) φ
    | .map ps, ks, h, ha => by
      rw [fieldsOf_map] at h
      rw [refMatch_map, refMatch_map]
      exact fields_P ps ks h ha
    | .nil, _, h, _ => by rw [fieldsOf_nonmap (by intro ps; simp)] at h; simp at h
    | .bin _, _, h, _ => by rw [fieldsOf_nonmap (by intro ps; simp)] at h; simp at h
    | .bool _, _, h, _ => by rw [fieldsOf_nonmap (by intro ps; simp)] at h; simp at h
    | .err _, _, h, _ => by rw [fieldsOf_nonmap (by intro ps; simp)] at h; simp at h
    | .int _ _, _, h, _ => by rw [fieldsOf_nonmap (by intro ps; simp)] at h; simp at h
    | .uint _ _, _, h, _ => by rw [fieldsOf_nonmap (by intro ps; simp)] at h; simp at h
    | .f32 _, _, h, _ => by rw [fieldsOf_nonmap (by intro ps; simp)] at h; simp at h
    | .f64 _, _, h, _ => by rw [fieldsOf_nonmap (by intro ps; simp)] at h; simp at h
    | .str _, _, h, _ => by rw [fieldsOf_nonmap (by intro ps; simp)] at h; simp at h
    | .slice _, _, h, _ => by rw [fieldsOf_nonmap (by intro ps; simp)] at h; simp at h
  theorem fields_P : ∀ (ps : PList) (ks : List Val), fieldsP ps = some ks → Agree d e ks →
      refP (some (.map d)) ps = refP (some (.map e)) ps
    | .nil, _, _, _ => by rw [refP_nil, refP_nil]
    | .cons k v rest, ks, h, ha => by
      rw [refP_cons, refP_cons]
      cases k with
      | str key =>
        rw [fieldsP_cons_str] at h
        unfold fieldsStep at h
        unfold entry
        simp only
        split at h
        · next hd =>
          cases hr : fieldsP rest with
          | none => rw [hr] at h; simp at h
          | some ks' =>
            rw [hr] at h
            simp only [Option.map_some, Option.some.injEq] at h
            subst h
            rw [fields_P rest ks' hr (fun k hk => ha k (by simp [hk]))]
            congr 1
            simp only [hd, if_true]
            exact refMatch_congr v (by simpa [field] using ha (.str key) (by simp))
        · next hd =>
          simp only [Bool.not_eq_true, Bool.not_eq_false'] at hd
          split at h
          · next hao =>
            cases v with
            | slice xs =>
              simp only at h
              cases hx : fieldsL xs with
              | none => rw [hx] at h; simp at h
              | some a =>
                cases hr : fieldsP rest with
                | none => rw [hx, hr] at h; simp at h
                | some b =>
                  rw [hx, hr] at h
                  simp only [Option.some.injEq] at h
                  subst h
                  have hl := fields_L xs a hx (fun k hk => ha k (by simp [hk]))
                  rw [fields_P rest b hr (fun k hk => ha k (by simp [hk]))]
                  congr 1
                  simp only [hd, Bool.not_true, Bool.false_eq_true, if_false]
                  split
                  · rfl
                  · split
                    · exact hl.1
                    · split
                      · exact hl.2
                      · simp only [Bool.or_eq_true, decide_eq_true_eq] at hao
                        rcases hao with h1 | h1 <;> simp_all
            | _ => simp at h
          · simp at h
      | _ => rw [fieldsP_cons_nonstr _ _ (by intro key; simp)] at h; simp at h
  theorem fields_L : ∀ (xs : VList) (ks : List Val), fieldsL xs = some ks → Agree d e ks →
      refAllL (some (.map d)) xs = refAllL (some (.map e)) xs ∧ refAnyL (some (.map d)) xs = refAnyL (some (.map e)) xs
    | .nil, _, _, _ => by rw [refAllL_nil, refAllL_nil, refAnyL_nil, refAnyL_nil]; exact ⟨rfl, rfl⟩
    | .cons f fs, ks, h, ha => by
      rw [fieldsL_cons] at h
      cases hf : fieldsOf f with
      | none => rw [hf] at h; simp at h
      | some a =>
        cases hr : fieldsL fs with
        | none => rw [hf, hr] at h; simp at h
        | some b =>
          rw [hf, hr] at h
          simp only [Option.some.injEq] at h
          subst h
          have h1 := fields_V f a hf (fun k hk => ha k (by simp [hk]))
          have h2 := fields_L fs b hr (fun k hk => ha k (by simp [hk]))
          rw [refAllL_cons, refAllL_cons, refAnyL_cons, refAnyL_cons, h1, h2.1, h2.2]
          exact ⟨rfl, rfl⟩
end

/-! ### `pinned`: every matching document holds the pinned fields with `equal` values -/

theorem pinnedV_map (doc ps : PList) : pinnedV doc (.map ps) = pinnedP doc ps := by
  conv => lhs; unfold pinnedV

theorem pinnedV_nonmap (doc : PList) {f : Val} (h : ∀ ps, f ≠ .map ps) : pinnedV doc f = doc := by
  cases f with
  | map ps => exact absurd rfl (h ps)
  | _ => conv => lhs; unfold pinnedV

/-- the value an entry pins its field to (`nil` = none) -/
def pinVal : Val → Val
  | .map cond => mget cond (.str opEq)
  | v => v

theorem pinnedP_nil (doc : PList) : pinnedP doc .nil = doc := by
  conv => lhs; unfold pinnedP

theorem pinnedP_cons_str (doc : PList) (key : Bytes) (value : Val) (rest : PList) :
    pinnedP doc (.cons (.str key) value rest) =
      if !dollar key then pinnedP (if isNil (pinVal value) then doc else mset doc (.str key) (pinVal value)) rest
      else if key = opAnd then
        (match value with
         | .slice xs => pinnedP (pinnedL doc xs) rest
         | _ => pinnedP doc rest)
      else pinnedP doc rest := by
  conv => lhs; unfold pinnedP
  cases value <;> rfl

theorem pinnedP_cons_nonstr (doc : PList) {k : Val} (value : Val) (rest : PList) (h : ∀ key, k ≠ .str key) :
    pinnedP doc (.cons k value rest) = pinnedP doc rest := by
  cases k with
  | str key => exact absurd rfl (h key)
  | _ => conv => lhs; unfold pinnedP

theorem pinnedL_nil (doc : PList) : pinnedL doc .nil = doc := by
  conv => lhs; unfold pinnedL

theorem pinnedL_cons (doc : PList) (f : Val) (fs : VList) : pinnedL doc (.cons f fs) = pinnedL (pinnedV doc f) fs := by
  conv => lhs; unfold pinnedL

/-- every field of `acc` is held by `d` with an `equal` value -/
def PinOk (d acc : PList) : Prop := ∀ k v, mfind acc k = some v → ∃ w, mfind d k = some w ∧ equal w v = true

theorem equal_nil_left {v : Val} (h : equal .nil v = true) : v = .nil := by
  cases v <;> simp [equal] at h
  rfl

/-- a satisfied entry on a field key pins the field of the document -/
theorem pin_entry {d : PList} {key : Bytes} {value : Val} (_hk : dollar key = false)
    (h : refMatch (mfind d (.str key)) value = true) (hn : isNil (pinVal value) = false) :
    ∃ w, mfind d (.str key) = some w ∧ equal w (pinVal value) = true := by
  have heq : equal (valOf (mfind d (.str key))) (pinVal value) = true := by
    cases value with
    | map cond =>
      rw [refMatch_map] at h
      simp only [pinVal] at hn ⊢
      have := refP_cmp (key := opEq) (by decide) (by decide) (by decide) (by decide) h (mget_ne_nil hn)
      simpa [cmpOp_eq] using this
    | _ => rw [refMatch_nonmap _ (by intro ps; simp)] at h; simpa [pinVal] using h
  cases hm : mfind d (.str key) with
  | none =>
    rw [hm] at heq
    have := equal_nil_left (by simpa [valOf] using heq)
    rw [this] at hn; simp [isNil] at hn
  | some w => exact ⟨w, rfl, by simpa [hm, valOf] using heq⟩

theorem PinOk_mset {d acc : PList} {k v : Val} (h : PinOk d acc) (hk : ∃ w, mfind d k = some w ∧ equal w v = true) :
    PinOk d (mset acc k v) := by
  intro x u hx
  rw [mfind_mset] at hx
  split at hx
  · next he =>
    obtain rfl := Option.some.inj hx
    rw [← mfind_congr_key he]; exact hk
  · exact h x u hx

mutual
  theorem pinnedV_ok {d : PList} : ∀ (f : Val) (acc : PList), refMatch (some (.map d)) f = true → PinOk d acc →
      PinOk d (pinnedV acc f)
    | .map ps, acc, h, ha => by
      rw [refMatch_map] at h
      rw [pinnedV_map]
      exact pinnedP_ok ps acc h ha
    | .nil, acc, _, ha => by rw [pinnedV_nonmap _ (by intro ps; simp)]; exact ha
    | .bin _, acc, _, ha => by rw [pinnedV_nonmap _ (by intro ps; simp)]; exact ha
    | .bool _, acc, _, ha => by rw [pinnedV_nonmap _ (by intro ps; simp)]; exact ha
    | .err _, acc, _, ha => by rw [pinnedV_nonmap _ (by intro ps; simp)]; exact ha
    | .int _ _, acc, _, ha => by rw [pinnedV_nonmap _ (by intro ps; simp)]; exact ha
    | .uint _ _, acc, _, ha => by rw [pinnedV_nonmap _ (by intro ps; simp)]; exact ha
    | .f32 _, acc, _, ha => by rw [pinnedV_nonmap _ (by intro ps; simp)]; exact ha
    | .f64 _, acc, _, ha => by rw [pinnedV_nonmap _ (by intro ps; simp)]; exact ha
    | .str _, acc, _, ha => by rw [pinnedV_nonmap _ (by intro ps; simp)]; exact ha
    | .slice _, acc, _, ha => by rw [pinnedV_nonmap _ (by intro ps; simp)]; exact ha
  theorem pinnedP_ok {d : PList} : ∀ (ps : PList) (acc : PList), refP (some (.map d)) ps = true → PinOk d acc →
      PinOk d (pinnedP acc ps)
    | .nil, acc, _, ha => by rw [pinnedP_nil]; exact ha
    | .cons k v rest, acc, h, ha => by
      rw [refP_cons] at h
      simp only [Bool.and_eq_true] at h
      cases k with
      | str key =>
        rw [pinnedP_cons_str]
        have he := h.1
        unfold entry at he
        simp only at he
        split
        · next hd =>
          simp only [hd, if_true] at he
          refine pinnedP_ok rest _ h.2 ?_
          split
          · exact ha
          · next hn =>
            exact PinOk_mset ha (pin_entry (by simpa using hd) (by simpa [field] using he) (by simpa using hn))
        · next hd =>
          split
          · next hand =>
            subst hand
            cases v with
            | slice xs =>
              simp only
              have hall : refAllL (some (.map d)) xs = true := by simpa [dollar, opAnd, opExists] using he
              exact pinnedP_ok rest _ h.2 (pinnedL_ok xs acc hall ha)
            | _ => exact pinnedP_ok rest _ h.2 ha
          · exact pinnedP_ok rest _ h.2 ha
      | _ => simp [entry] at h
  theorem pinnedL_ok {d : PList} : ∀ (xs : VList) (acc : PList), refAllL (some (.map d)) xs = true → PinOk d acc →
      PinOk d (pinnedL acc xs)
    | .nil, acc, _, ha => by rw [pinnedL_nil]; exact ha
    | .cons f fs, acc, h, ha => by
      rw [refAllL_cons] at h
      simp only [Bool.and_eq_true] at h
      rw [pinnedL_cons]
      exact pinnedL_ok fs _ h.2 (pinnedV_ok f acc h.1 ha)
end

/-- **the applicability rule is sound** -/
theorem implied_sound {φ f : Val} {d : PList} (hw : wf φ = true) (hi : implied φ (pinned f) = true)
    (hm : refMatch (some (.map d)) f = true) : refMatch (some (.map d)) φ = true := by
  unfold implied at hi
  cases hf : fieldsOf φ with
  | none => rw [hf] at hi; simp at hi
  | some ks =>
    rw [hf] at hi
    simp only [Bool.and_eq_true, List.all_eq_true] at hi
    have hpin : PinOk d (pinned f) := pinnedV_ok f .nil hm (fun k v h => by simp [mfind] at h)
    have hag : Agree d (pinned f) ks := by
      intro k hk
      have hh := hi.1 k hk
      unfold mhas at hh
      cases hp : mfind (pinned f) k with
      | none => rw [hp] at hh; simp at hh
      | some v =>
        obtain ⟨w, hw', he⟩ := hpin k v hp
        rw [hw']; exact he
    rw [fields_V φ ks hf hag]
    have hholds := hi.2
    unfold holds at hholds
    have := matchV_ref φ hw (some (.map (pinned f)))
    simp only [valOf, Option.getD_some, Option.isSome_some] at this
    rw [this] at hholds
    simpa using hholds

end Uniflow.Plan
