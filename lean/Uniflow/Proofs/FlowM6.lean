/-
C02, joint model, nodes with several in-ports, part 6: a downstream answer on writer `w` – it belongs to a request of
SOME reader `r`; the thread of reader `r` keeps its invariant, the complete prefix of reader `r` is answered.
-/
import Uniflow.Proofs.FlowM5

namespace Uniflow.FlowM
open Uniflow.Tracer Uniflow.Node Uniflow.Flow Uniflow.FlowInv Uniflow.FlowG Uniflow.ATracer Uniflow.FlowH

theorem nlt_wq (lg : Log) (n : Nat) (i : Rid) (th : Thread) (a : A) (wq : List (Wid × List Pid)) (h : NLt lg n i th a) :
    NLt lg n i th { a with wq := wq } := ⟨h.inb, h.own, h.req, h.nz, h.wb⟩

/-- the oldest packet owed on writer `w` is a `written` cell of a request of some reader `r`, or that request itself
(written directly: the action returned its input packet); with thread `r`'s invariant the answer fills it -/
theorem nlt_answer (lg : Log) (n : Nat) (a : A) (w : Wid) (ans : Ans) (k : Pid) (rest : List Pid)
    (hinv : Inv a) (hq : getL a.wq w = k :: rest) (hra : RA lg k ans)
    (hall : ∀ x ∈ a.reqs, ∃ th, NLt lg n x.r th a) :
    ∃ x, x ∈ a.reqs ∧ k ∈ idsR x ∧
      ∀ inbox pc, NLt lg n x.r { inbox := inbox, pc := pc } a → (∀ y ∈ inbox, y.id ≠ k) →
        (∀ y ∈ a.reqs, y.r = x.r → y.p ≠ x.p → k ∉ remFor pc y.p) →
        ∃ ds : List (Pid × Ans), NLt lg n x.r { inbox := inbox, pc := pc } (aanswer a w ans).1 ∧
          (aanswer a w ans).2 = ds.map (fun d => Ev.reply x.r d.2) ∧ (∀ d ∈ ds, RA lg d.1 d.2) ∧
          (a.reqs.filter (fun y => y.r = x.r)).map (·.p) =
            ds.map (·.1) ++ ((aanswer a w ans).1.reqs.filter (fun y => y.r = x.r)).map (·.p) ∧
          (∀ y ∈ (aanswer a w ans).1.reqs, y.r ≠ x.r → y ∈ a.reqs) ∧
          (∀ j, j ≠ x.r → ((aanswer a w ans).1.reqs.filter (fun y => y.r = j)).map (·.p) =
            (a.reqs.filter (fun y => y.r = j)).map (·.p)) ∧
          (aanswer a w ans).1.wq = setOrDel a.wq w rest := by
  obtain ⟨x, hx, hcase⟩ := hinv.owed w k (by rw [hq]; simp)
  have he : aanswer a w ans = afill { a with wq := setOrDel a.wq w rest } k ans := by
    simp only [aanswer, hq]
  rcases hcase with ⟨hxp, hst⟩ | ⟨cs, hst, hm⟩
  · -- the request itself was written
    refine ⟨x, hx, by simp [idsR, hxp], ?_⟩
    intro inbox pc h hki hkr
    have hxe : x = ⟨k, x.r, .direct w⟩ := by
      cases x with
      | mk xp xr xst => simp only at hst hxp; subst hst; subst hxp; rfl
    have hX : (⟨k, x.r, .direct w⟩ : Req) ∈ a.reqs := by rw [← hxe]; exact hx
    have hrem0 : remFor pc k = [] := by
      rcases h.req x hx rfl with hrq | ⟨v, e1, _, _⟩
      · simp only [ReqA, hst] at hrq; rw [← hxp]; exact hrq
      · rw [hst] at e1; cases e1
    have hN := nlt_wq lg n x.r _ a (setOrDel a.wq w rest) h
    obtain ⟨ds, d1, d2, d3, d4, d5, d6, d7⟩ := nlt_self_fill lg lg n x.r inbox pc pc { a with wq := setOrDel a.wq w rest } k
      (.direct w) ans hN hinv.nodup hX (Or.inr ⟨w, rfl⟩) (tr_refl lg k) hra (fun _ => rfl) hrem0 (fun _ _ e => e)
      (fun _ _ _ => Or.inl rfl) h.wb hki (fun y hy hyr hne => hkr y hy hyr (by rw [hxp]; exact hne)) (fun _ _ => rfl)
    rw [he]
    exact ⟨ds, d1, d2, d3, d4, d5, d6, d7⟩
  · refine ⟨x, hx, by simp only [idsR, hst, cellsOfSt, List.mem_cons]; right; exact written_mem_open cs k w hm, ?_⟩
    intro inbox pc h hki hkr
    have hxe : x = ⟨x.p, x.r, .cells cs⟩ := by
      cases x with
      | mk xp xr xst => simp only at hst; subst hst; rfl
    have hX : (⟨x.p, x.r, .cells cs⟩ : Req) ∈ a.reqs := by rw [← hxe]; exact hx
    have hrq : ReqA lg n pc x := reqB_A lg n pc x (h.req x hx rfl) (by
      intro v e; rw [hst] at e; simp only [RSt.cells.injEq] at e; rw [e] at hm; simp at hm)
    have hrem0 : remFor pc x.p = [] := by
      simp only [ReqA, hst] at hrq
      obtain ⟨_, _, _, _, _, _, a6, _⟩ := hrq
      rcases a6 with e | e
      · exact e
      · exact absurd hm (allLinked_no_written cs k w e)
    have hN := nlt_wq lg n x.r _ a (setOrDel a.wq w rest) h
    obtain ⟨ds, d1, d2, d3, d4, d5, d6, d7⟩ := nlt_fill lg lg n x.r inbox pc pc { a with wq := setOrDel a.wq w rest } k ans hN
      (fun _ => rfl) (fun _ _ e => e) (fun _ _ _ => Or.inl rfl) h.wb hinv.nodup x.p cs hX (written_mem_open cs k w hm)
      hrem0 (tr_refl lg k) hki hkr (fun _ _ => rfl) hra
    rw [he]
    exact ⟨ds, d1, d2, d3, d4, d5, d6, d7⟩

end Uniflow.FlowM
