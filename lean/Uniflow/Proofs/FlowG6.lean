/-
C02, joint model, general links, part 6: the generic constructor of the invariant for a successor state.
-/
import Uniflow.Proofs.FlowG5

namespace Uniflow.FlowG
open Uniflow.Tracer Uniflow.Node Uniflow.Flow Uniflow.FlowInv
open Uniflow.NodeSpec (S EReq ESt Cur Rel curRead writesOf allIds)
open Uniflow.ATracer (getL_setOrDel getL_aset)

/-- Building `GI` for a successor state: the clauses of the nodes that did not change (`¬ ch n`) follow
from the old invariant; everything else is supplied. -/
theorem GI_build (N : Nat) (links : List (Nat × List Tgt)) (hwf : GraphWF N links) (ss ss' : Nat → S)
    (D D' : Nat → List (Pid × Ans)) (g g' : G) (h : GI N links ss D g) (k : Pid) (ch : Nat → Prop)
    (e1 : g'.links = g.links)
    (hlen : ∀ n, (getNode g'.nodes n).isSome = true ↔ n < N)
    (hrel : ∀ n nd, getNode g'.nodes n = some nd → Rel (ss' n) nd g'.next)
    (hsame : ∀ n, ¬ ch n → ss' n = ss n)
    (hchN : ∀ n, ch n → n < N)
    (hx : LogExt g.log g'.log k) (hown : ∀ id, id < g.next → aget g'.log.owner id = aget g.log.owner id)
    (hle : g.next ≤ g'.next) (hlb : ∀ id, g'.next ≤ id → Unlogged g'.log id)
    (hsepN : ∀ m, ¬ ch m → k ∉ unlIds (ss m))
    (hreq : ∀ n, ch n → ∀ r ∈ (ss' n).reqs, ReqOK g'.log r)
    (hcur : ∀ n, ch n → CurOK g'.log n (ss' n).cur)
    (hinb : ∀ n, ch n → ∀ p ∈ (ss' n).inbox, Unlogged g'.log p.id)
    (hownN : ∀ n, ch n → ∀ id ∈ heldAt ss' g'.sinks (.node n 0), aget g'.log.owner id = some (rkeyOf (.node n 0)))
    (hsink : ∀ j, ((getL g'.sinks j).map (·.1)).Nodup ∧ ∀ c ∈ (getL g'.sinks j).map (·.1),
      Unlogged g'.log c ∧ c < g'.next ∧ aget g'.log.owner c = some (rkeyOf (.sink j)))
    (hroots : ∀ r ∈ g'.roots, r < g'.next)
    (hdebt : ∀ rk, ∀ x ∈ D' rk, RA g'.log x.1 x.2)
    (hwk : ∀ key, getL links key ≠ [] → WKG g'.log (gw g'.writers key) (getL links key)
      (pendK ss' g'.roots g'.resp.length key) (hbOf D' ss' g'.sinks g'.fifo key))
    (hsrcq : (gw g'.writers srcKey).queue = [])
    (hfifoLen : ∀ t, TgtOK t → (getL g'.fifo (rkeyOf t)).length = (heldD D' ss' g'.sinks t).length)
    (hfifoKeys : ∀ t, TgtOK t → ∀ key ∈ getL g'.fifo (rkeyOf t), t ∈ getL links key)
    (hresp : g'.resp.length ≤ g'.roots.length ∧ All2 (RA g'.log) (g'.roots.take g'.resp.length) g'.resp)
    (hwq0 : ∀ key, getL links key = [] → (gw g'.writers key).queue = [])
    (hordk : OrdAt g'.log k g'.next) :
    GI N links ss' D' g' := by
  refine { glinks := by rw [e1]; exact h.glinks, nodesLen := hlen, rel := hrel, dflt := ?_, reqsOK := ?_, curOK := ?_,
           inboxOK := ?_, ownNode := ?_, sinkOK := hsink, debtOK := hdebt,
           wk := hwk, srcq := hsrcq, fifoLen := hfifoLen, fifoKeys := hfifoKeys,
           respOK := hresp, logBound := hlb, rootsB := hroots, wq0 := hwq0,
           logOrd := logOrd_ext g.log g'.log k g.next g'.next h.logOrd hx hle hordk }
  · intro n hn
    have : ¬ ch n := fun hc => by have := hchN n hc; omega
    rw [hsame n this]; exact h.dflt n hn
  · intro n r hr
    by_cases hc : ch n
    · exact hreq n hc r hr
    · rw [hsame n hc] at hr; exact reqOK_ext g.log g'.log k hx r (h.reqsOK n r hr)
  · intro n
    by_cases hc : ch n
    · exact hcur n hc
    · rw [hsame n hc]
      apply curOK_ext g.log g'.log k hx n _ _ _ (h.curOK n)
      · intro id hid
        exact hown id (live_lt N links ss D g h n id (unlIds_sub_allIds _ id (by simp [unlIds, hid])))
      · intro hk; exact hsepN n hc (by simp [unlIds, hk])
  · intro n p hp
    by_cases hc : ch n
    · exact hinb n hc p hp
    · rw [hsame n hc] at hp
      exact unlogged_ext g.log g'.log k hx p.id
        (fun e2 => hsepN n hc (by simp only [unlIds, List.mem_append, List.mem_map]; right; exact ⟨p, hp, e2⟩))
        (h.inboxOK n p hp)
  · intro n id hid
    by_cases hc : ch n
    · exact hownN n hc id hid
    · have hid' : id ∈ heldAt ss g.sinks (.node n 0) := by
        simp only [heldAt] at hid ⊢; rw [hsame n hc] at hid; exact hid
      have hlt : id < g.next := live_lt N links ss D g h n id (heldOf_sub_allIds _ id hid')
      rw [hown id hlt]; exact h.ownNode n id hid'

end Uniflow.FlowG
