/-
C02, joint model, part 8 of the invariant proof: a node completes requests (a refused `Write` or a
downstream answer), emits the replies of the complete prefix – these become a debt to be routed.
-/
import Uniflow.Proofs.FlowInv7

namespace Uniflow.FlowInv
open Uniflow.Tracer Uniflow.Node Uniflow.Flow
open Uniflow.NodeSpec (S EReq ESt Cur Rel curRead writesOf allIds flushS flushT)
open Uniflow.ATracer (getL_setOrDel getL_aset)

theorem FI_debt_node (N : Nat) (links : List (Nat × List Tgt)) (hwf : TreeWF N links) (ss : Nat → S) (g : G)
    (h : FI N links ss D0 g) (n : Nat) (nd0 nd' : Node) (rs1 : List EReq) (cur' : Cur) (lg' : Log) (k : Pid)
    (ws' : List (Nat × Flow.Writer))
    (hn : getNode g.nodes n = some nd0)
    (hr' : Rel ⟨(ss n).inbox, (flushS rs1).1, cur'⟩ nd' g.next)
    (hheld : rs1.map (·.p) ++ curRead cur' ++ (ss n).inbox.map (·.id) = heldOf (ss n))
    (hx : LogExt g.log lg' k) (ho : lg'.owner = g.log.owner)
    (hlb : ∀ id, g.next ≤ id → Unlogged lg' id)
    (hsepN : ∀ m, m ≠ n → k ∉ unlIds (ss m)) (hsepS : ∀ j, k ∉ (getL g.sinks j).map (·.1))
    (hreq : ∀ r ∈ rs1, ReqOK lg' r) (hcur : CurOK lg' n cur') (hinb : ∀ p ∈ (ss n).inbox, Unlogged lg' p.id)
    (hsq : (gw ws' srcKey).queue = []) (hwq0 : ∀ key, getL links key = [] → (gw ws' key).queue = [])
    (hwk : ∀ key t, getL links key = [t] → WK lg' (gw ws' key) (getL g.fifo (rkeyOf t)) key
      (if key = srcKey then g.roots.drop g.resp.length
       else if key / 64 = n then writesOf rs1 (key % 64) else writesOf (ss (key / 64)).reqs (key % 64))
      (heldD D0 ss g.sinks t))
    (hordk : OrdAt lg' k g.next) :
    FI N links (upd ss n ⟨(ss n).inbox, (flushS rs1).1, cur'⟩)
      (updD D0 (rkeyOf (.node n 0)) (flushT rs1).2)
      { g with nodes := setNode g.nodes n nd', log := lg', writers := ws' } := by
  have hnN : n < N := (h.nodesLen n).mp (by rw [hn]; rfl)
  let s' : S := ⟨(ss n).inbox, (flushS rs1).1, cur'⟩
  let D' := updD D0 (rkeyOf (.node n 0)) (flushT rs1).2
  let g' : G := { g with nodes := setNode g.nodes n nd', log := lg', writers := ws' }
  show FI N links (upd ss n s') D' g'
  have herase := NodeSpec.flushT_erase rs1
  have horder := NodeSpec.flushT_order rs1
  -- held lists
  have hheldn : (D' (rkeyOf (.node n 0))).map (·.1) ++ heldOf s' = heldOf (ss n) := by
    have e1 : heldOf s' = (flushS rs1).1.map (·.p) ++ curRead cur' ++ (ss n).inbox.map (·.id) := rfl
    rw [e1, ← hheld, ← horder, herase.1]
    simp [D', updD, List.append_assoc]
  have hheldD : ∀ key t, getL links key = [t] → heldD D' (upd ss n s') g'.sinks t = heldD D0 ss g.sinks t := by
    intro key t hl
    cases t with
    | sink j =>
      have : rkeyOf (.sink j) ≠ rkeyOf (.node n 0) := by simp only [rkeyOf]; have := hwf.small; omega
      simp [heldD, heldAt, D', updD, this, D0, g']
    | node m port =>
      have hp0 := (hwf.tnode key m port (by rw [hl]; simp)).2
      subst hp0
      by_cases e : m = n
      · subst e
        simp only [heldD, heldAt_upd, if_true]
        rw [hheldn]; simp [heldAt, heldOf, D0]
      · have : rkeyOf (.node m 0) ≠ rkeyOf (.node n 0) := by simp only [rkeyOf]; omega
        simp [heldD, heldAt, D', updD, this, D0, upd, e]
  apply FI_build N links hwf ss (upd ss n s') D0 D' g g' h k (fun m => m = n) rfl
    (nodesLen_set g N n nd0 nd' hn h.nodesLen) (rel_upd g ss n nd0 nd' s' g.next h.rel hn hr' (Nat.le_refl _))
  · intro m hm; simp only [upd, hm, if_false]
  · intro m hm; rw [hm]; exact hnN
  · exact hx
  · intro id _; show aget lg'.owner id = _; rw [ho]
  · exact Nat.le_refl _
  · exact hlb
  · intro m hm; exact hsepN m hm
  · intro m hm r hr
    subst hm
    simp only [upd, if_true, s'] at hr
    exact hreq r ((NodeSpec.flush_sublist rs1).subset hr)
  · intro m hm; subst hm; simp only [upd, if_true, s']; exact hcur
  · intro m hm x hxi; subst hm; simp only [upd, if_true, s'] at hxi; exact hinb x hxi
  · intro m hm id hid
    subst hm
    have hid' : id ∈ heldOf (ss m) := by
      rw [← hheldn]
      simp only [heldAt_upd, if_true] at hid
      exact List.mem_append_right _ hid
    show aget lg'.owner id = _
    rw [ho]; exact h.ownNode m id (by simpa [heldAt, heldOf] using hid')
  · intro j
    obtain ⟨h1, h2⟩ := h.sinkOK j
    refine ⟨h1, fun c hc => ?_⟩
    obtain ⟨u1, u2, u3⟩ := h2 c hc
    exact ⟨unlogged_ext g.log lg' k hx c (fun e => hsepS j (e ▸ hc)) u1, u2, by show aget lg'.owner c = _; rw [ho]; exact u3⟩
  · exact h.rootsB
  · intro rk x hx'
    simp only [D', updD] at hx'
    split at hx'
    · have := NodeSpec.flushT_content rs1 x hx'
      exact hreq _ this
    · simp [D0] at hx'
  · intro key t hl
    have hk := hwk key t hl
    rw [hheldD key t hl]
    have hp : pendK (upd ss n s') g'.roots g'.resp.length key =
        (if key = srcKey then g.roots.drop g.resp.length
         else if key / 64 = n then writesOf rs1 (key % 64) else writesOf (ss (key / 64)).reqs (key % 64)) := by
      simp only [pendK, g']
      by_cases e : key = srcKey
      · simp [e]
      · simp only [e, if_false]
        by_cases e2 : key / 64 = n
        · simp only [e2, if_true, upd, s', NodeSpec.writesOf_flush]
        · simp only [e2, if_false, upd]
    rw [hp]; exact hk
  · exact hsq
  · exact ⟨h.respOK.1, all2_mono _ _ (fun p a => ra_ext g.log lg' k hx p a) _ _ h.respOK.2⟩
  · intro t htok hno
    have hold := h.nofeed t htok hno
    cases t with
    | sink j =>
      have : rkeyOf (.sink j) ≠ rkeyOf (.node n 0) := by simp only [rkeyOf]; have := hwf.small; omega
      simpa [heldD, heldAt, D', updD, this, D0, g'] using hold
    | node m port =>
      simp only [TgtOK] at htok; obtain ⟨htok, _⟩ := htok; subst htok
      by_cases e : m = n
      · subst e
        simp only [heldD, heldAt_upd, if_true]
        rw [hheldn]; simpa [heldD, heldAt, heldOf, D0] using hold
      · have : rkeyOf (.node m 0) ≠ rkeyOf (.node n 0) := by simp only [rkeyOf]; omega
        simpa [heldD, heldAt, D', updD, this, D0, upd, e] using hold
  · exact hwq0
  · exact hordk

end Uniflow.FlowInv
