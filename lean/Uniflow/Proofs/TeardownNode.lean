/-
C03, a requester upstream of a node: the bookkeeping invariant that ties what the upstream
writer still awaits from the node's in-reader (`pend r` = `len(reader.writers)`, the reader's FIFO
of unanswered requests) to what the node holds: requests its reader was handed and the forward
loop has not taken yet (`inbox`) plus requests taken and not yet answered (`reads`).
-/
import Uniflow.Proofs.Teardown

namespace Uniflow.TeardownProofs
open Uniflow Uniflow.Writer Uniflow.Teardown Uniflow.WriterProofs

/-- while reader `r` of writer `wi` is open, the writer awaits from it `inbox + n` answers -/
def OwedEq (s : Sys) (wi : WId) (r : RId) (n : Nat) : Prop :=
  (s.comp wi).w.closed r = false → ((s.comp wi).w.pend r).length = (s.inbox wi r).length + n

/-! ### `deliver` -/

theorem deliver_other (t : Topo) (w : WId) (inbox : WId → RId → List Nat) (dl : List (RId × Nat)) (x : WId) (y : RId)
    (hx : x ≠ w) : deliver t w inbox dl x y = inbox x y := by
  induction dl generalizing inbox with
  | nil => rfl
  | cons d rest ih =>
    obtain ⟨r, v⟩ := d
    simp only [deliver]
    cases t.listener w r with
    | node _ => simp only; rw [ih]; simp [hx]
    | sink _ => exact ih _

theorem deliver_count (t : Topo) (w : WId) (inbox : WId → RId → List Nat) (dl : List (RId × Nat)) (y : RId) (wo : WId)
    (hl : t.listener w y = .node wo) :
    (deliver t w inbox dl w y).length = (inbox w y).length + (dl.filter (fun d => d.1 = y)).length := by
  induction dl generalizing inbox with
  | nil => simp [deliver]
  | cons d rest ih =>
    obtain ⟨r, v⟩ := d
    simp only [deliver]
    by_cases hr : r = y
    · subst hr
      rw [hl]
      simp only
      rw [ih]
      simp; omega
    · cases t.listener w r with
      | node _ => simp only; rw [ih]; simp [hr, Ne.symm hr]
      | sink _ => simp only; rw [ih]; simp [hr]

/-! ### one critical section of the writer machine, seen from reader `r` -/

theorem receive_pend (m : W) (a : Ans) (r : RId) (g : Nat) : (receive m a r g).1.pend = m.pend ∧
    (receive m a r g).1.closed = m.closed ∧ (receive m a r g).2.deliv = [] := by
  simp only [receive, receiveWith]
  repeat (first | exact ⟨rfl, rfl, rfl⟩ | split)

theorem filter_acc (closed : RId → Bool) (readers : List RId) (r : RId) (v : Nat) (hnd : readers.Nodup) :
    (((accepting closed readers).map fun x => (x, v)).filter (fun d => d.1 = r)).length =
      if r ∈ accepting closed readers then 1 else 0 := by
  have hnd' : (accepting closed readers).Nodup := hnd.sublist List.filter_sublist
  generalize accepting closed readers = l at hnd' ⊢
  induction l with
  | nil => simp
  | cons x rest ih =>
    simp only [List.nodup_cons] at hnd'
    simp only [List.map_cons, List.filter_cons]
    by_cases hx : x = r
    · subst hx
      have : (List.filter (fun d : RId × Nat => decide (d.1 = x)) (List.map (fun x => (x, v)) rest)).length = 0 := by
        rw [ih hnd'.2]; simp [hnd'.1]
      simp [this]
    · have := ih hnd'.2
      simp only [hx, decide_false, Bool.false_eq_true, if_false, List.mem_cons]
      rw [this]
      simp [Ne.symm hx]

/-- a linked reader has a link generation (`w.links[i]` is in range) -/
theorem linkOf_some (m : W) (r : RId) (hr : r ∈ m.readers) (hl : m.readers.length ≤ m.links.length) :
    ∃ g, linkOf m r = some g := by
  obtain ⟨i, hi⟩ := indexOf_some_of_mem hr
  have hlt := indexOf_lt hi
  simp only [linkOf, hi]
  have : i < m.links.length := by omega
  exact ⟨m.links[i], by simp [this]⟩

/-- Any critical section other than an answer of `r` itself: if `r` is open afterwards it was open
before, and the writer awaits from it as many more answers as requests the step handed to it. -/
theorem wstep_owed (m : W) (st : Writer.Step) (r : RId) (hf : ∀ a, st ≠ .answer r a)
    (hnd : (∃ v, st = .write v) → m.readers.Nodup) :
    (Writer.step m st).1.closed r = false →
      m.closed r = false ∧
      ((Writer.step m st).1.pend r).length = (m.pend r).length + ((Writer.step m st).2.deliv.filter (fun d => d.1 = r)).length := by
  cases st with
  | link x => simp only [Writer.step, stepWith]; repeat (first | exact fun h => ⟨h, by simp⟩ | split)
  | unlink x => simp only [Writer.step, stepWith]; repeat (first | exact fun h => ⟨h, by simp⟩ | split)
  | write v =>
    have hn := hnd ⟨v, rfl⟩
    simp only [Writer.step, stepWith]
    split
    · exact fun h => ⟨h, by simp⟩
    · split
      · exact fun h => ⟨h, by simp⟩
      · split
        · exact fun h => ⟨h, by simp⟩
        · rename_i hlen
          split
          · intro h
            refine ⟨h, ?_⟩
            show (if r ∈ accepting m.closed m.readers then m.pend r ++ (linkOf m r).toList else m.pend r).length =
              (m.pend r).length + (((accepting m.closed m.readers).map fun x => (x, v)).filter (fun d => d.1 = r)).length
            rw [filter_acc m.closed m.readers r v hn]
            split
            · rename_i hacc
              have hr : r ∈ m.readers := (List.mem_filter.1 hacc).1
              obtain ⟨g, hg⟩ := linkOf_some m r hr (by omega)
              simp [hg]
            · simp
          · rename_i hacc
            intro h
            refine ⟨h, ?_⟩
            have : accepting m.closed m.readers = [] := by
              cases hl : accepting m.closed m.readers with
              | nil => rfl
              | cons _ _ => rw [hl] at hacc; simp at hacc
            simp [this]
  | answer x a =>
    have hx : x ≠ r := fun h => hf a (by rw [h])
    simp only [Writer.step, stepWith]
    split
    · exact fun h => ⟨h, by simp⟩
    · rename_i g rest _
      obtain ⟨h1, h2, h3⟩ := receive_pend { m with pend := fun y => if y = x then rest else m.pend y } a x g
      show (receive { m with pend := fun y => if y = x then rest else m.pend y } a x g).1.closed r = false → _
      rw [h1, h2, h3]
      intro h
      exact ⟨h, by simp [Ne.symm hx]⟩
  | closeR x =>
    simp only [Writer.step, stepWith]
    split
    · exact fun h => ⟨h, by simp⟩
    · by_cases hx : r = x
      · subst hx; simp
      · simp [hx]
  | deliverDrop x =>
    simp only [Writer.step, stepWith]
    split
    · exact fun h => ⟨h, by simp⟩
    · rename_i g rest _
      obtain ⟨h1, h2, h3⟩ := receive_pend { m with drops := fun y => if y = x then rest else m.drops y } Ans.dropped x g
      show (receive { m with drops := fun y => if y = x then rest else m.drops y } Ans.dropped x g).1.closed r = false → _
      simp only
      rw [h1, h2, h3]
      exact fun h => ⟨h, by simp⟩
  | closeW => simp only [Writer.step, stepWith]; repeat (first | exact fun h => ⟨h, by simp⟩ | split)

/-- An answer of `r` while the writer awaits one: one less, nothing handed out, `r` stays as it was. -/
theorem answer_owed (m : W) (r : RId) (a : Ans) (hp : 0 < (m.pend r).length) :
    ((Writer.step m (.answer r a)).1.pend r).length = (m.pend r).length - 1 ∧ (Writer.step m (.answer r a)).1.closed = m.closed ∧
    (Writer.step m (.answer r a)).2.deliv = [] := by
  cases hpr : m.pend r with
  | nil => rw [hpr] at hp; simp at hp
  | cons g rest =>
    simp only [Writer.step, stepWith, hpr]
    obtain ⟨h1, h2, h3⟩ := receive_pend { m with pend := fun y => if y = r then rest else m.pend y } a r g
    show ((receive { m with pend := fun y => if y = r then rest else m.pend y } a r g).1.pend r).length = _ ∧ _
    rw [h1, h2, h3]
    simp

theorem answer_closed (m : W) (r : RId) (a : Ans) : (Writer.step m (.answer r a)).1.closed = m.closed := by
  simp only [Writer.step, stepWith]
  split
  · rfl
  · rename_i g rest _
    exact (receive_pend { m with pend := fun y => if y = r then rest else m.pend y } a r g).2.1

/-! ### system level -/

theorem applyPrim_inbox_other (rule : Pump.Rule) (t : Topo) (s : Sys) (w : WId) (c : CStep) (x : WId) (y : RId) (hx : x ≠ w) :
    (applyPrim rule t s w c).1.inbox x y = s.inbox x y := by
  simp only [applyPrim]
  split
  · simp only [setComp]; rw [deliver_other _ _ _ _ _ _ hx]
  · rfl

theorem prim_owed (t : Topo) (s : Sys) (w : WId) (c : CStep) (wi : WId) (r : RId) (n : Nat) (wo : WId)
    (hl : t.listener wi r = .node wo)
    (hf : ¬ (w = wi ∧ ∃ a, c = .w (.answer r a)))
    (hnd : w = wi → (∃ v, c = .w (.write v)) → (s.comp wi).w.readers.Nodup)
    (h : OwedEq s wi r n) : OwedEq (applyPrim .discard t s w c).1 wi r n := by
  unfold OwedEq at h ⊢
  by_cases hw : w = wi
  · subst hw
    rw [applyPrim_comp]; simp only [if_true]
    cases c with
    | w st =>
      have hst : ∀ a, st ≠ .answer r a := fun a he => hf ⟨rfl, a, by rw [he]⟩
      have hn : (∃ v, st = .write v) → (s.comp w).w.readers.Nodup := fun ⟨v, hv⟩ => hnd rfl ⟨v, by rw [hv]⟩
      have key := wstep_owed (s.comp w).w st r hst hn
      simp only [applyC, applyPrim, setComp]
      intro hc
      obtain ⟨k1, k2⟩ := key hc
      rw [k2, h k1, deliver_count t w _ _ r wo hl]
      omega
    | recv =>
      intro hc
      have hw' : (applyC .discard (s.comp w) .recv).1.w = (s.comp w).w := by
        simp only [applyC]; split
        · split <;> rfl
        · rfl
      rw [hw'] at hc ⊢
      have hin : (applyPrim .discard t s w .recv).1.inbox = s.inbox := by
        simp only [applyPrim, applyC]
        by_cases hg : (s.comp w).got.length < (s.comp w).accepted
        · simp only [hg, if_true]
          cases Pump.recv (s.comp w).p <;> rfl
        · simp only [hg, if_false]; rfl
      rw [hin]; exact h hc
    | steal => exact h
    | pumpExit => exact h
  · rw [applyPrim_comp]; simp only [Ne.symm hw, if_false]
    rw [applyPrim_inbox_other _ _ _ _ _ _ _ (Ne.symm hw)]
    exact h

/-- one answer passed up by the node -/
theorem answer_prim_owed (t : Topo) (s : Sys) (wi : WId) (r : RId) (a : Ans) (n : Nat)
    (h : OwedEq s wi r (n + 1)) : OwedEq (applyPrim .discard t s wi (.w (.answer r a))).1 wi r n := by
  unfold OwedEq at h ⊢
  rw [applyPrim_comp]; simp only [if_true]
  simp only [applyC, applyPrim, setComp]
  rw [answer_closed]
  intro hc
  have hp := h hc
  obtain ⟨k1, _, k3⟩ := answer_owed (s.comp wi).w r a (by omega)
  rw [k1, k3]
  simp only [deliver]
  omega

theorem flush_owed (t : Topo) (wi : WId) (r : RId) (s : Sys) (l : List (Nat × Option Ans))
    (h : OwedEq s wi r l.length) :
    OwedEq (flushReads .discard t wi r s l).1 wi r (flushReads .discard t wi r s l).2.length := by
  induction l generalizing s with
  | nil => exact h
  | cons e rest ih =>
    obtain ⟨v, oa⟩ := e
    cases oa with
    | none => exact h
    | some a =>
      simp only [flushReads]
      exact ih _ (answer_prim_owed t s wi r a rest.length (by simpa using h))

theorem flush_other_owed (t : Topo) (w' : WId) (r' : RId) (wi : WId) (r : RId) (wo : WId) (n : Nat) (s : Sys)
    (l : List (Nat × Option Ans)) (hl : t.listener wi r = .node wo) (hne : ¬ (w' = wi ∧ r' = r))
    (h : OwedEq s wi r n) : OwedEq (flushReads .discard t w' r' s l).1 wi r n := by
  induction l generalizing s with
  | nil => exact h
  | cons e rest ih =>
    obtain ⟨v, oa⟩ := e
    cases oa with
    | none => exact h
    | some a =>
      simp only [flushReads]
      apply ih
      apply prim_owed t s w' _ wi r n wo hl _ _ h
      · rintro ⟨hw, a', ha⟩
        injection ha with ha
        injection ha with h1 _
        exact hne ⟨hw, h1⟩
      · rintro _ ⟨v', hv⟩; cases hv

theorem flush_closed (t : Topo) (w : WId) (r : RId) (s : Sys) (l : List (Nat × Option Ans)) :
    ((flushReads .discard t w r s l).1.comp w).w.closed = (s.comp w).w.closed := by
  induction l generalizing s with
  | nil => rfl
  | cons e rest ih =>
    obtain ⟨v, oa⟩ := e
    cases oa with
    | none => rfl
    | some a =>
      simp only [flushReads]
      rw [ih, applyPrim_comp]
      simp only [if_true, applyC]
      exact answer_closed _ _ _

theorem flushReads_inbox (t : Topo) (w : WId) (r : RId) (s : Sys) (l : List (Nat × Option Ans)) (x : WId) (y : RId)
    (hx : x ≠ w) : (flushReads .discard t w r s l).1.inbox x y = s.inbox x y := by
  induction l generalizing s with
  | nil => rfl
  | cons e rest ih =>
    obtain ⟨v, oa⟩ := e
    cases oa with
    | none => rfl
    | some a =>
      simp only [flushReads]
      rw [ih, applyPrim_inbox_other _ _ _ _ _ _ _ hx]

theorem fillFirst_length (a : Ans) (l : List (Nat × Option Ans)) : (fillFirst a l).length = l.length := by
  induction l with
  | nil => rfl
  | cons e rest ih =>
    obtain ⟨v, oa⟩ := e
    cases oa <;> simp [fillFirst, ih]

theorem fillAll_length (a : Ans) (l : List (Nat × Option Ans)) : (fillAll a l).length = l.length := by
  induction l with
  | nil => rfl
  | cons e rest ih =>
    obtain ⟨v, oa⟩ := e
    cases oa <;> simp [fillAll, ih]

end Uniflow.TeardownProofs

namespace Uniflow.TeardownProofs
open Uniflow Uniflow.Writer Uniflow.Teardown Uniflow.WriterProofs Uniflow.WriterSpec

/-- The invariant: while the node's in-reader `r` (of writer `wi`) is open, `wi` awaits from it
exactly the requests the node holds – handed to the reader and not yet taken, or taken and not yet
answered. -/
def Upstream (s : Sys) (wi : WId) (r : RId) : Prop := OwedEq s wi r (s.reads wi r).length

/-- Nobody but the node answers on the node's in-reader. -/
def stepNoForeign (wi : WId) (r : RId) : Teardown.Step → Prop
  | .prim w (.w (.answer r' _)) => ¬ (w = wi ∧ r' = r)
  | _ => True

theorem backed_nodup {s : Sys} (hb : AllBacked s) (w : WId) : (s.comp w).w.readers.Nodup := by
  obtain ⟨sp, hR⟩ := hb w
  rw [hR.readers]; exact hR.inv.nodup

theorem applyCloses_reads (t : Topo) (s : Sys) (cl : List Close) : (applyCloses .discard t s cl).reads = s.reads := by
  induction cl generalizing s with
  | nil => rfl
  | cons c rest ih =>
    simp only [applyCloses]
    rw [ih]
    cases c <;> exact applyPrim_reads _ _ _ _ _

theorem closes_owed (t : Topo) (wi : WId) (r : RId) (wo : WId) (n : Nat) (hl : t.listener wi r = .node wo)
    (s : Sys) (cl : List Close) (h : OwedEq s wi r n) : OwedEq (applyCloses .discard t s cl) wi r n := by
  induction cl generalizing s with
  | nil => exact h
  | cons c rest ih =>
    simp only [applyCloses]
    apply ih
    cases c with
    | reader w x =>
      exact prim_owed t s w _ wi r n wo hl (by rintro ⟨_, a, ha⟩; cases ha) (by rintro _ ⟨v, hv⟩; cases hv) h
    | writer w =>
      exact prim_owed t s w _ wi r n wo hl (by rintro ⟨_, a, ha⟩; cases ha) (by rintro _ ⟨v, hv⟩; cases hv) h

theorem setReads_owed_same (s : Sys) (wi : WId) (r : RId) (l : List (Nat × Option Ans))
    (h : OwedEq s wi r l.length) : Upstream (setReads s wi r l) wi r := by
  unfold Upstream OwedEq at *
  simpa [setReads] using h

theorem setReads_owed_other (s : Sys) (w' : WId) (r' : RId) (wi : WId) (r : RId) (l : List (Nat × Option Ans))
    (hne : ¬ (w' = wi ∧ r' = r)) (h : OwedEq s wi r (s.reads wi r).length) : Upstream (setReads s w' r' l) wi r := by
  unfold Upstream OwedEq at *
  have : ¬ (wi = w' ∧ r = r') := fun ⟨a, b⟩ => hne ⟨a.symm, b.symm⟩
  simpa [setReads, this] using h

theorem flushReads_reads (t : Topo) (w : WId) (r : RId) (s : Sys) (l : List (Nat × Option Ans)) :
    (flushReads .discard t w r s l).1.reads = s.reads := by
  induction l generalizing s with
  | nil => rfl
  | cons e rest ih =>
    obtain ⟨v, oa⟩ := e
    cases oa with
    | none => rfl
    | some a => simp only [flushReads]; rw [ih, applyPrim_reads]

theorem upstream_step (t : Topo) (wi : WId) (r : RId) (wo : WId) (hl : t.listener wi r = .node wo) (hwo : wo ≠ wi)
    (s : Sys) (st : Teardown.Step) (hb : AllBacked s) (hf : stepNoForeign wi r st) (h : Upstream s wi r) :
    Upstream (Teardown.step .discard t s st).1 wi r := by
  have hnd := backed_nodup hb wi
  cases st with
  | prim w c =>
    simp only [Teardown.step]
    unfold Upstream
    rw [applyPrim_reads]
    apply prim_owed t s w c wi r _ wo hl _ (fun _ _ => hnd) h
    rintro ⟨hw, a, ha⟩
    subst ha
    exact hf ⟨hw, rfl⟩
  | fwd w' r' =>
    simp only [Teardown.step]
    cases hl' : t.listener w' r' with
    | sink k => exact h
    | node wo' =>
      cases hi : s.inbox w' r' with
      | nil => exact h
      | cons v rest =>
        simp only
        by_cases hsame : w' = wi ∧ r' = r
        · obtain ⟨rfl, rfl⟩ := hsame
          have hwo' : wo' = wo := by rw [hl] at hl'; injection hl' with e; exact e.symm
          subst hwo'
          apply setReads_owed_same
          apply flush_owed
          apply prim_owed t _ wo' _ w' r' _ wo' hl (by rintro ⟨hw, _⟩; exact hwo hw) (by intro hw; exact absurd hw hwo)
          unfold Upstream at h
          unfold OwedEq at h ⊢
          intro hc
          have := h hc
          simp only [hi, List.length_cons, List.length_append, List.length_nil, and_self, if_true] at this ⊢
          omega
        · apply setReads_owed_other _ _ _ _ _ _ hsame
          rw [flushReads_reads, applyPrim_reads]
          apply flush_other_owed t w' r' wi r wo _ _ _ hl hsame
          refine prim_owed t { s with inbox := fun x y => if x = w' ∧ y = r' then rest else s.inbox x y } wo' (.w (.write v))
            wi r _ wo hl (by rintro ⟨_, a, ha⟩; cases ha) (fun _ _ => hnd) ?_
          unfold Upstream at h
          unfold OwedEq at h ⊢
          have hne : ¬ (wi = w' ∧ r = r') := fun ⟨a, b⟩ => hsame ⟨a.symm, b.symm⟩
          simpa [hne] using h
  | bwd wo' =>
    simp only [Teardown.step]
    cases hc' : t.consumer wo' with
    | requester => exact h
    | node wi' r' =>
      simp only
      cases hr : Pump.recv (s.comp wo').p with
      | got a =>
        simp only
        have h1 : OwedEq (applyPrim .discard t s wo' .recv).1 wi r (s.reads wi r).length :=
          prim_owed t s wo' .recv wi r _ wo hl (by rintro ⟨_, a', ha⟩; cases ha) (by rintro _ ⟨v, hv⟩; cases hv) h
        by_cases hsame : wi' = wi ∧ r' = r
        · obtain ⟨rfl, rfl⟩ := hsame
          apply setReads_owed_same
          apply flush_owed
          rw [fillFirst_length]; exact h1
        · apply setReads_owed_other _ _ _ _ _ _ hsame
          rw [flushReads_reads, applyPrim_reads]
          exact flush_other_owed t wi' r' wi r wo _ _ _ hl hsame h1
      | closed =>
        simp only
        by_cases hsame : wi' = wi ∧ r' = r
        · obtain ⟨rfl, rfl⟩ := hsame
          apply setReads_owed_same
          apply flush_owed
          rw [fillAll_length]; exact h
        · apply setReads_owed_other _ _ _ _ _ _ hsame
          rw [flushReads_reads]
          exact flush_other_owed t wi' r' wi r wo _ _ _ hl hsame h
      | blocked => exact h
  | fwdEnd w' r' =>
    simp only [Teardown.step]
    cases hl' : t.listener w' r' with
    | sink k => exact h
    | node wo' =>
      simp only
      split
      · rename_i hcl
        by_cases hsame : w' = wi ∧ r' = r
        · obtain ⟨rfl, rfl⟩ := hsame
          -- the reader is closed: nothing is claimed
          unfold Upstream OwedEq
          intro hc
          simp only [setReads] at hc
          rw [flush_closed] at hc
          simp only at hc
          rw [hcl] at hc; cases hc
        · apply setReads_owed_other _ _ _ _ _ _ hsame
          rw [flushReads_reads]
          apply flush_other_owed t w' r' wi r wo _ _ _ hl hsame
          unfold Upstream at h
          unfold OwedEq at h ⊢
          have hne : ¬ (wi = w' ∧ r = r') := fun ⟨a, b⟩ => hsame ⟨a.symm, b.symm⟩
          simpa [hne] using h
      · exact h
  | down td =>
    simp only [Teardown.step]
    unfold Upstream
    rw [applyCloses_reads]
    exact closes_owed t wi r wo _ hl s _ h

theorem upstream_run (t : Topo) (wi : WId) (r : RId) (wo : WId) (hl : t.listener wi r = .node wo) (hwo : wo ≠ wi) :
    ∀ (h : List Teardown.Step) (s : Sys), AllBacked s → (∀ st ∈ h, stepNoForeign wi r st) →
      Upstream s wi r → Upstream (Teardown.run .discard t s h) wi r ∧ AllBacked (Teardown.run .discard t s h) := by
  intro h
  induction h with
  | nil => intro s hb _ hu; exact ⟨hu, hb⟩
  | cons st rest ih =>
    intro s hb hf hu
    simp only [Teardown.run]
    exact ih _ (backed_step .discard t s st hb) (fun x hx => hf x (by simp [hx]))
      (upstream_step t wi r wo hl hwo s st hb (hf st (by simp)) hu)

end Uniflow.TeardownProofs
