/-
C03, a requester upstream of a node: the bookkeeping invariant that ties what the upstream
writer still awaits from the node's in-reader (`pend r` = `len(reader.writers)`, the reader's FIFO
of unanswered requests) to what the node holds: requests its reader was handed and the forward
loop has not taken yet (`inbox`) plus requests taken and not yet answered (`reads`).
-/
import Uniflow.Proofs.Teardown

namespace Uniflow.TeardownProofs
open Uniflow Uniflow.Writer Uniflow.Teardown Uniflow.WriterProofs

/-- while reader `r` of writer `wi` is open, the writer awaits from it `inbox + n` answers -/
def OwedEq (s : Sys) (wi : WId) (r : RId) (n : Nat) : Prop :=
  (s.comp wi).w.closed r = false → ((s.comp wi).w.pend r).length = (s.inbox wi r).length + n

/-! ### `deliver` -/

theorem deliver_other (t : Topo) (w : WId) (inbox : WId → RId → List Nat) (dl : List (RId × Nat)) (x : WId) (y : RId)
    (hx : x ≠ w) : deliver t w inbox dl x y = inbox x y := by
  induction dl generalizing inbox with
  | nil => rfl
  | cons d rest ih =>
    obtain ⟨r, v⟩ := d
    simp only [deliver]
    cases t.listener w r with
    | node _ => simp only; rw [ih]; simp [hx]
    | sink _ => exact ih _

theorem deliver_count (t : Topo) (w : WId) (inbox : WId → RId → List Nat) (dl : List (RId × Nat)) (y : RId) (wo : WId)
    (hl : t.listener w y = .node wo) :
    (deliver t w inbox dl w y).length = (inbox w y).length + (dl.filter (fun d => d.1 = y)).length := by
  induction dl generalizing inbox with
  | nil => simp [deliver]
  | cons d rest ih =>
    obtain ⟨r, v⟩ := d
    simp only [deliver]
    by_cases hr : r = y
    · subst hr
      rw [hl]
      simp only
      rw [ih]
      simp; omega
    · cases t.listener w r with
      | node _ => simp only; rw [ih]; simp [hr, Ne.symm hr]
      | sink _ => simp only; rw [ih]; simp [hr]

/-! ### one critical section of the writer machine, seen from reader `r` -/

theorem receive_pend (m : W) (a : Ans) (r : RId) (g w : Nat) : (receive m a r g w).1.pend = m.pend ∧
    (receive m a r g w).1.closed = m.closed ∧ (receive m a r g w).2.deliv = [] := by
  simp only [receive, receiveWith]
  repeat (first | exact ⟨rfl, rfl, rfl⟩ | split)

theorem filter_acc (closed : RId → Bool) (readers : List RId) (r : RId) (v : Nat) (hnd : readers.Nodup) :
    (((accepting closed readers).map fun x => (x, v)).filter (fun d => d.1 = r)).length =
      if r ∈ accepting closed readers then 1 else 0 := by
  have hnd' : (accepting closed readers).Nodup := hnd.sublist List.filter_sublist
  generalize accepting closed readers = l at hnd' ⊢
  induction l with
  | nil => simp
  | cons x rest ih =>
    simp only [List.nodup_cons] at hnd'
    simp only [List.map_cons, List.filter_cons]
    by_cases hx : x = r
    · subst hx
      have : (List.filter (fun d : RId × Nat => decide (d.1 = x)) (List.map (fun x => (x, v)) rest)).length = 0 := by
        rw [ih hnd'.2]; simp [hnd'.1]
      simp [this]
    · have := ih hnd'.2
      simp only [hx, decide_false, Bool.false_eq_true, if_false, List.mem_cons]
      rw [this]
      simp [Ne.symm hx]

/-- a linked reader has a link generation (`w.links[i]` is in range) -/
theorem linkOf_some (m : W) (r : RId) (hr : r ∈ m.readers) (hl : m.readers.length ≤ m.links.length) :
    ∃ g, linkOf m r = some g := by
  obtain ⟨i, hi⟩ := indexOf_some_of_mem hr
  have hlt := indexOf_lt hi
  simp only [linkOf, hi]
  have : i < m.links.length := by omega
  exact ⟨m.links[i], by simp [this]⟩

/-- Any critical section other than an answer of `r` itself: if `r` is open afterwards it was open
before, and the writer awaits from it as many more answers as requests the step handed to it. -/
theorem wstep_owed (m : W) (st : Writer.Step) (r : RId) (hf : ∀ a, st ≠ .answer r a ∧ st ≠ .pop r a)
    (hnd : (∃ v, st = .write v) → m.readers.Nodup) :
    (Writer.step m st).1.closed r = false →
      m.closed r = false ∧
      ((Writer.step m st).1.pend r).length = (m.pend r).length + ((Writer.step m st).2.deliv.filter (fun d => d.1 = r)).length := by
  cases st with
  | link x => simp only [Writer.step, stepWith]; repeat (first | exact fun h => ⟨h, by simp⟩ | split)
  | unlink x => simp only [Writer.step, stepWith]; repeat (first | exact fun h => ⟨h, by simp⟩ | split)
  | write v =>
    have hn := hnd ⟨v, rfl⟩
    simp only [Writer.step, stepWith]
    split
    · exact fun h => ⟨h, by simp⟩
    · split
      · exact fun h => ⟨h, by simp⟩
      · split
        · exact fun h => ⟨h, by simp⟩
        · rename_i hlen
          split
          · intro h
            refine ⟨h, ?_⟩
            show (if r ∈ accepting m.closed m.readers then m.pend r ++ (linkOf m r).toList.map (·, m.written) else m.pend r).length =
              (m.pend r).length + (((accepting m.closed m.readers).map fun x => (x, v)).filter (fun d => d.1 = r)).length
            rw [filter_acc m.closed m.readers r v hn]
            split
            · rename_i hacc
              have hr : r ∈ m.readers := (List.mem_filter.1 hacc).1
              obtain ⟨g, hg⟩ := linkOf_some m r hr (by omega)
              simp [hg]
            · simp
          · rename_i hacc
            intro h
            refine ⟨h, ?_⟩
            have : accepting m.closed m.readers = [] := by
              cases hl : accepting m.closed m.readers with
              | nil => rfl
              | cons _ _ => rw [hl] at hacc; simp at hacc
            simp [this]
  | answer x a =>
    have hx : x ≠ r := fun h => (hf a).1 (by rw [h])
    simp only [Writer.step, stepWith]
    split
    · exact fun h => ⟨h, by simp⟩
    · rename_i g rest _
      obtain ⟨h1, h2, h3⟩ := receive_pend { m with pend := fun y => if y = x then rest else m.pend y } a x g.1 g.2
      show (receive { m with pend := fun y => if y = x then rest else m.pend y } a x g.1 g.2).1.closed r = false → _
      rw [h1, h2, h3]
      intro h
      exact ⟨h, by simp [Ne.symm hx]⟩
  | pop x a =>
    have hx : x ≠ r := fun h => (hf a).2 (by rw [h])
    simp only [Writer.step, stepWith]
    split
    · exact fun h => ⟨h, by simp⟩
    · exact fun h => ⟨h, by simp [Ne.symm hx]⟩
  | deliver x k =>
    simp only [Writer.step, stepWith]
    split
    · exact fun h => ⟨h, by simp⟩
    · rename_i e _
      obtain ⟨h1, h2, h3⟩ := receive_pend { m with flight := fun y => if y = x then (m.flight x).eraseIdx k else m.flight y } e.1 x e.2.1 e.2.2
      show (receive { m with flight := fun y => if y = x then (m.flight x).eraseIdx k else m.flight y } e.1 x e.2.1 e.2.2).1.closed r = false → _
      rw [h1, h2, h3]
      exact fun h => ⟨h, by simp⟩
  | closeR x =>
    simp only [Writer.step, stepWith]
    split
    · exact fun h => ⟨h, by simp⟩
    · by_cases hx : r = x
      · subst hx; simp
      · simp [hx]
  | deliverDrop x =>
    simp only [Writer.step, stepWith]
    split
    · exact fun h => ⟨h, by simp⟩
    · rename_i g rest _
      obtain ⟨h1, h2, h3⟩ := receive_pend { m with drops := fun y => if y = x then rest else m.drops y } Ans.dropped x g.1 g.2
      show (receive { m with drops := fun y => if y = x then rest else m.drops y } Ans.dropped x g.1 g.2).1.closed r = false → _
      simp only
      rw [h1, h2, h3]
      exact fun h => ⟨h, by simp⟩
  | closeW => simp only [Writer.step, stepWith]; repeat (first | exact fun h => ⟨h, by simp⟩ | split)

/-- An answer of `r` while the writer awaits one: one less, nothing handed out, `r` stays as it was. -/
theorem answer_owed (m : W) (r : RId) (a : Ans) (hp : 0 < (m.pend r).length) :
    ((Writer.step m (.answer r a)).1.pend r).length = (m.pend r).length - 1 ∧ (Writer.step m (.answer r a)).1.closed = m.closed ∧
    (Writer.step m (.answer r a)).2.deliv = [] := by
  cases hpr : m.pend r with
  | nil => rw [hpr] at hp; simp at hp
  | cons g rest =>
    simp only [Writer.step, stepWith, hpr]
    obtain ⟨h1, h2, h3⟩ := receive_pend { m with pend := fun y => if y = r then rest else m.pend y } a r g.1 g.2
    show ((receive { m with pend := fun y => if y = r then rest else m.pend y } a r g.1 g.2).1.pend r).length = _ ∧ _
    rw [h1, h2, h3]
    simp

theorem answer_closed (m : W) (r : RId) (a : Ans) : (Writer.step m (.answer r a)).1.closed = m.closed := by
  simp only [Writer.step, stepWith]
  split
  · rfl
  · rename_i g rest _
    exact (receive_pend { m with pend := fun y => if y = r then rest else m.pend y } a r g.1 g.2).2.1

/-! ### system level -/

theorem applyPrim_inbox_other (rule : Pump.Rule) (t : Topo) (s : Sys) (w : WId) (c : CStep) (x : WId) (y : RId) (hx : x ≠ w) :
    (applyPrim rule t s w c).1.inbox x y = s.inbox x y := by
  simp only [applyPrim]
  split
  · simp only [setComp]; rw [deliver_other _ _ _ _ _ _ hx]
  · rfl

theorem prim_owed (t : Topo) (s : Sys) (w : WId) (c : CStep) (wi : WId) (r : RId) (n : Nat) (wo : WId)
    (hl : t.listener wi r = .node wo)
    (hf : ¬ (w = wi ∧ ∃ a, c = .w (.answer r a) ∨ c = .w (.pop r a)))
    (hnd : w = wi → (∃ v, c = .w (.write v)) → (s.comp wi).w.readers.Nodup)
    (h : OwedEq s wi r n) : OwedEq (applyPrim .discard t s w c).1 wi r n := by
  unfold OwedEq at h ⊢
  by_cases hw : w = wi
  · subst hw
    rw [applyPrim_comp]; simp only [if_true]
    cases c with
    | w st =>
      have hst : ∀ a, st ≠ .answer r a ∧ st ≠ .pop r a :=
        fun a => ⟨fun he => hf ⟨rfl, a, Or.inl (by rw [he])⟩, fun he => hf ⟨rfl, a, Or.inr (by rw [he])⟩⟩
      have hn : (∃ v, st = .write v) → (s.comp w).w.readers.Nodup := fun ⟨v, hv⟩ => hnd rfl ⟨v, by rw [hv]⟩
      have key := wstep_owed (s.comp w).w st r hst hn
      simp only [applyC, applyPrim, setComp]
      intro hc
      obtain ⟨k1, k2⟩ := key hc
      rw [k2, h k1, deliver_count t w _ _ r wo hl]
      omega
    | recv =>
      intro hc
      have hw' : (applyC .discard (s.comp w) .recv).1.w = (s.comp w).w := by
        simp only [applyC]; split
        · split <;> rfl
        · rfl
      rw [hw'] at hc ⊢
      have hin : (applyPrim .discard t s w .recv).1.inbox = s.inbox := by
        simp only [applyPrim, applyC]
        by_cases hg : (s.comp w).got.length < (s.comp w).accepted
        · simp only [hg, if_true]
          cases Pump.recv (s.comp w).p <;> rfl
        · simp only [hg, if_false]; rfl
      rw [hin]; exact h hc
    | steal => exact h
    | pumpExit => exact h
  · rw [applyPrim_comp]; simp only [Ne.symm hw, if_false]
    rw [applyPrim_inbox_other _ _ _ _ _ _ _ (Ne.symm hw)]
    exact h

/-- one answer passed up by the node -/
theorem answer_prim_owed (t : Topo) (s : Sys) (wi : WId) (r : RId) (a : Ans) (n : Nat)
    (h : OwedEq s wi r (n + 1)) : OwedEq (applyPrim .discard t s wi (.w (.answer r a))).1 wi r n := by
  unfold OwedEq at h ⊢
  rw [applyPrim_comp]; simp only [if_true]
  simp only [applyC, applyPrim, setComp]
  rw [answer_closed]
  intro hc
  have hp := h hc
  obtain ⟨k1, _, k3⟩ := answer_owed (s.comp wi).w r a (by omega)
  rw [k1, k3]
  simp only [deliver]
  omega

theorem flush_owed (t : Topo) (wi : WId) (r : RId) (s : Sys) (l : List (Nat × Option Ans))
    (h : OwedEq s wi r l.length) :
    OwedEq (flushReads .discard t wi r s l).1 wi r (flushReads .discard t wi r s l).2.length := by
  induction l generalizing s with
  | nil => exact h
  | cons e rest ih =>
    obtain ⟨v, oa⟩ := e
    cases oa with
    | none => exact h
    | some a =>
      simp only [flushReads]
      exact ih _ (answer_prim_owed t s wi r a rest.length (by simpa using h))

theorem flush_other_owed (t : Topo) (w' : WId) (r' : RId) (wi : WId) (r : RId) (wo : WId) (n : Nat) (s : Sys)
    (l : List (Nat × Option Ans)) (hl : t.listener wi r = .node wo) (hne : ¬ (w' = wi ∧ r' = r))
    (h : OwedEq s wi r n) : OwedEq (flushReads .discard t w' r' s l).1 wi r n := by
  induction l generalizing s with
  | nil => exact h
  | cons e rest ih =>
    obtain ⟨v, oa⟩ := e
    cases oa with
    | none => exact h
    | some a =>
      simp only [flushReads]
      apply ih
      apply prim_owed t s w' _ wi r n wo hl _ _ h
      · rintro ⟨hw, a', ha | ha⟩
        · injection ha with ha
          injection ha with h1 _
          exact hne ⟨hw, h1⟩
        · injection ha with ha
          cases ha
      · rintro _ ⟨v', hv⟩; cases hv

theorem flush_closed (t : Topo) (w : WId) (r : RId) (s : Sys) (l : List (Nat × Option Ans)) :
    ((flushReads .discard t w r s l).1.comp w).w.closed = (s.comp w).w.closed := by
  induction l generalizing s with
  | nil => rfl
  | cons e rest ih =>
    obtain ⟨v, oa⟩ := e
    cases oa with
    | none => rfl
    | some a =>
      simp only [flushReads]
      rw [ih, applyPrim_comp]
      simp only [if_true, applyC]
      exact answer_closed _ _ _

theorem flushReads_inbox (t : Topo) (w : WId) (r : RId) (s : Sys) (l : List (Nat × Option Ans)) (x : WId) (y : RId)
    (hx : x ≠ w) : (flushReads .discard t w r s l).1.inbox x y = s.inbox x y := by
  induction l generalizing s with
  | nil => rfl
  | cons e rest ih =>
    obtain ⟨v, oa⟩ := e
    cases oa with
    | none => rfl
    | some a =>
      simp only [flushReads]
      rw [ih, applyPrim_inbox_other _ _ _ _ _ _ _ hx]

theorem fillFirst_length (a : Ans) (l : List (Nat × Option Ans)) : (fillFirst a l).length = l.length := by
  induction l with
  | nil => rfl
  | cons e rest ih =>
    obtain ⟨v, oa⟩ := e
    cases oa <;> simp [fillFirst, ih]

theorem fillAll_length (a : Ans) (l : List (Nat × Option Ans)) : (fillAll a l).length = l.length := by
  induction l with
  | nil => rfl
  | cons e rest ih =>
    obtain ⟨v, oa⟩ := e
    cases oa <;> simp [fillAll, ih]

end Uniflow.TeardownProofs

namespace Uniflow.TeardownProofs
open Uniflow Uniflow.Writer Uniflow.Teardown Uniflow.WriterProofs Uniflow.WriterSpec

/-- The invariant: while the node's in-reader `r` (of writer `wi`) is open, `wi` awaits from it
exactly the requests the node holds – handed to the reader and not yet taken, or taken and not yet
answered. -/
def Upstream (s : Sys) (wi : WId) (r : RId) : Prop := OwedEq s wi r (s.reads wi r).length

/-- Nobody but the node answers on the node's in-reader. -/
def stepNoForeign (wi : WId) (r : RId) : Teardown.Step → Prop
  | .prim w (.w (.answer r' _)) => ¬ (w = wi ∧ r' = r)
  | .prim w (.w (.pop r' _)) => ¬ (w = wi ∧ r' = r)
  | _ => True

theorem backed_nodup {s : Sys} (hb : AllBacked s) (w : WId) : (s.comp w).w.readers.Nodup := by
  obtain ⟨sp, hR⟩ := hb w
  rw [hR.readers]; exact hR.inv.nodup

theorem applyCloses_reads (t : Topo) (s : Sys) (cl : List Close) : (applyCloses .discard t s cl).reads = s.reads := by
  induction cl generalizing s with
  | nil => rfl
  | cons c rest ih =>
    simp only [applyCloses]
    rw [ih]
    cases c <;> exact applyPrim_reads _ _ _ _ _

theorem closes_owed (t : Topo) (wi : WId) (r : RId) (wo : WId) (n : Nat) (hl : t.listener wi r = .node wo)
    (s : Sys) (cl : List Close) (h : OwedEq s wi r n) : OwedEq (applyCloses .discard t s cl) wi r n := by
  induction cl generalizing s with
  | nil => exact h
  | cons c rest ih =>
    simp only [applyCloses]
    apply ih
    cases c with
    | reader w x =>
      exact prim_owed t s w _ wi r n wo hl (by rintro ⟨_, a, ha | ha⟩ <;> cases ha) (by rintro _ ⟨v, hv⟩; cases hv) h
    | writer w =>
      exact prim_owed t s w _ wi r n wo hl (by rintro ⟨_, a, ha | ha⟩ <;> cases ha) (by rintro _ ⟨v, hv⟩; cases hv) h

theorem setReads_owed_same (s : Sys) (wi : WId) (r : RId) (l : List (Nat × Option Ans))
    (h : OwedEq s wi r l.length) : Upstream (setReads s wi r l) wi r := by
  unfold Upstream OwedEq at *
  simpa [setReads] using h

theorem setReads_owed_other (s : Sys) (w' : WId) (r' : RId) (wi : WId) (r : RId) (l : List (Nat × Option Ans))
    (hne : ¬ (w' = wi ∧ r' = r)) (h : OwedEq s wi r (s.reads wi r).length) : Upstream (setReads s w' r' l) wi r := by
  unfold Upstream OwedEq at *
  have : ¬ (wi = w' ∧ r = r') := fun ⟨a, b⟩ => hne ⟨a.symm, b.symm⟩
  simpa [setReads, this] using h

theorem flushReads_reads (t : Topo) (w : WId) (r : RId) (s : Sys) (l : List (Nat × Option Ans)) :
    (flushReads .discard t w r s l).1.reads = s.reads := by
  induction l generalizing s with
  | nil => rfl
  | cons e rest ih =>
    obtain ⟨v, oa⟩ := e
    cases oa with
    | none => rfl
    | some a => simp only [flushReads]; rw [ih, applyPrim_reads]

/-! ### the queues of the sinks' readers hold only endpoints those sinks listen on -/

def QueueOK (t : Topo) (s : Sys) : Prop := ∀ k, ∀ e ∈ s.queue k, t.listener e.1 e.2 = .sink k

theorem deliverQ_ok (t : Topo) (w : WId) (queue : Nat → List (WId × RId)) (dl : List (RId × Nat))
    (h : ∀ k, ∀ e ∈ queue k, t.listener e.1 e.2 = .sink k) :
    ∀ k, ∀ e ∈ deliverQ t w queue dl k, t.listener e.1 e.2 = .sink k := by
  induction dl generalizing queue with
  | nil => exact h
  | cons d rest ih =>
    obtain ⟨r, v⟩ := d
    simp only [deliverQ]
    cases hl : t.listener w r with
    | node _ => exact ih _ h
    | sink k' =>
      simp only
      apply ih
      intro k e he
      by_cases hk : k = k'
      · subst hk
        simp only [if_true, List.mem_append, List.mem_singleton] at he
        rcases he with he | rfl
        · exact h k e he
        · exact hl
      · simp only [hk, if_false] at he
        exact h k e he

theorem applyPrim_queueOK (t : Topo) (s : Sys) (w : WId) (c : CStep) (h : QueueOK t s) :
    QueueOK t (applyPrim .discard t s w c).1 := by
  unfold QueueOK at *
  simp only [applyPrim]
  split
  · exact deliverQ_ok t w _ _ h
  · exact h

theorem flushReads_queueOK (t : Topo) (w : WId) (r : RId) (s : Sys) (l : List (Nat × Option Ans)) (h : QueueOK t s) :
    QueueOK t (flushReads .discard t w r s l).1 := by
  induction l generalizing s with
  | nil => exact h
  | cons e rest ih =>
    obtain ⟨v, oa⟩ := e
    cases oa with
    | none => exact h
    | some a => simp only [flushReads]; exact ih _ (applyPrim_queueOK t s w _ h)

theorem applyCloses_queueOK (t : Topo) (s : Sys) (cl : List Close) (h : QueueOK t s) :
    QueueOK t (applyCloses .discard t s cl) := by
  induction cl generalizing s with
  | nil => exact h
  | cons c rest ih =>
    simp only [applyCloses]
    apply ih
    cases c <;> exact applyPrim_queueOK t s _ _ h

theorem step_queueOK (t : Topo) (s : Sys) (st : Teardown.Step) (h : QueueOK t s) :
    QueueOK t (Teardown.step .discard t s st).1 := by
  cases st with
  | prim w c => exact applyPrim_queueOK t s w c h
  | fwd w r =>
    simp only [Teardown.step]
    cases t.listener w r with
    | sink k => exact h
    | node wo =>
      cases s.inbox w r with
      | nil => exact h
      | cons v rest =>
        simp only
        have h1 : QueueOK t { s with inbox := fun x y => if x = w ∧ y = r then rest else s.inbox x y } := h
        exact flushReads_queueOK t w r _ _ (applyPrim_queueOK t _ wo _ h1)
  | bwdLate wo =>
    simp only [Teardown.step]
    split
    · exact h
    · split
      · exact h
      · exact h
  | bwd wo =>
    simp only [Teardown.step]
    split
    · exact h
    cases t.consumer wo with
    | requester => exact h
    | node wi r =>
      simp only
      cases Pump.recv (s.comp wo).p with
      | got a => exact flushReads_queueOK t wi r _ _ (applyPrim_queueOK t s wo _ h)
      | closed => exact flushReads_queueOK t wi r _ _ h
      | blocked => exact h
  | fwdEnd w r =>
    simp only [Teardown.step]
    cases t.listener w r with
    | sink k => exact h
    | node wo =>
      simp only
      split
      · have h1 : QueueOK t { s with inbox := fun x y => if x = w ∧ y = r then [] else s.inbox x y } := h
        exact flushReads_queueOK t w r _ _ h1
      · exact h
  | sinkAnswer k a =>
    simp only [Teardown.step]
    cases hq : s.queue k with
    | nil => exact h
    | cons e rest =>
      obtain ⟨w, r⟩ := e
      simp only
      apply applyPrim_queueOK
      intro k' e he
      by_cases hk : k' = k
      · subst hk
        simp only [if_true] at he
        exact h k' e (by rw [hq]; exact List.mem_cons_of_mem _ he)
      · simp only [hk, if_false] at he
        exact h k' e he
  | down td => exact applyCloses_queueOK t s _ h

theorem upstream_step (t : Topo) (wi : WId) (r : RId) (wo : WId) (hl : t.listener wi r = .node wo) (hwo : wo ≠ wi)
    (s : Sys) (st : Teardown.Step) (hb : AllBacked s) (hq : QueueOK t s) (hf : stepNoForeign wi r st) (h : Upstream s wi r) :
    Upstream (Teardown.step .discard t s st).1 wi r := by
  have hnd := backed_nodup hb wi
  cases st with
  | sinkAnswer k a =>
    simp only [Teardown.step]
    cases hqk : s.queue k with
    | nil => exact h
    | cons e rest =>
      obtain ⟨w, r'⟩ := e
      simp only
      unfold Upstream
      rw [applyPrim_reads]
      -- the endpoint at the head of a sink's queue is listened to by that sink, not by the node
      have hsink : t.listener w r' = .sink k := hq k (w, r') (by rw [hqk]; simp)
      apply prim_owed t { s with queue := fun x => if x = k then rest else s.queue x } w _ wi r _ wo hl _
        (by rintro _ ⟨v, hv⟩; cases hv) h
      rintro ⟨hw, a', ha | ha⟩
      · injection ha with ha
        injection ha with h1 _
        subst hw; subst h1
        rw [hl] at hsink; cases hsink
      · injection ha with ha
        cases ha
  | prim w c =>
    simp only [Teardown.step]
    unfold Upstream
    rw [applyPrim_reads]
    apply prim_owed t s w c wi r _ wo hl _ (fun _ _ => hnd) h
    rintro ⟨hw, a, ha | ha⟩
    · subst ha
      exact hf ⟨hw, rfl⟩
    · subst ha
      exact hf ⟨hw, rfl⟩
  | fwd w' r' =>
    simp only [Teardown.step]
    cases hl' : t.listener w' r' with
    | sink k => exact h
    | node wo' =>
      cases hi : s.inbox w' r' with
      | nil => exact h
      | cons v rest =>
        simp only
        by_cases hsame : w' = wi ∧ r' = r
        · obtain ⟨rfl, rfl⟩ := hsame
          have hwo' : wo' = wo := by rw [hl] at hl'; injection hl' with e; exact e.symm
          subst hwo'
          apply setReads_owed_same
          apply flush_owed
          apply prim_owed t _ wo' _ w' r' _ wo' hl (by rintro ⟨hw, _⟩; exact hwo hw) (by intro hw; exact absurd hw hwo)
          unfold Upstream at h
          unfold OwedEq at h ⊢
          intro hc
          have := h hc
          simp only [hi, List.length_cons, List.length_append, List.length_nil, and_self, if_true] at this ⊢
          omega
        · apply setReads_owed_other _ _ _ _ _ _ hsame
          rw [flushReads_reads, applyPrim_reads]
          apply flush_other_owed t w' r' wi r wo _ _ _ hl hsame
          refine prim_owed t { s with inbox := fun x y => if x = w' ∧ y = r' then rest else s.inbox x y } wo' (.w (.write v))
            wi r _ wo hl (by rintro ⟨_, a, ha | ha⟩ <;> cases ha) (fun _ _ => hnd) ?_
          unfold Upstream at h
          unfold OwedEq at h ⊢
          have hne : ¬ (wi = w' ∧ r = r') := fun ⟨a, b⟩ => hsame ⟨a.symm, b.symm⟩
          simpa [hne] using h
  | bwdLate wo' =>
    simp only [Teardown.step]
    split
    · exact h
    · split
      · exact h
      · exact h
  | bwd wo' =>
    simp only [Teardown.step]
    split
    · exact h
    cases hc' : t.consumer wo' with
    | requester => exact h
    | node wi' r' =>
      simp only
      cases hr : Pump.recv (s.comp wo').p with
      | got a =>
        simp only
        have h1 : OwedEq (applyPrim .discard t s wo' .recv).1 wi r (s.reads wi r).length :=
          prim_owed t s wo' .recv wi r _ wo hl (by rintro ⟨_, a', ha | ha⟩ <;> cases ha) (by rintro _ ⟨v, hv⟩; cases hv) h
        by_cases hsame : wi' = wi ∧ r' = r
        · obtain ⟨rfl, rfl⟩ := hsame
          apply setReads_owed_same
          apply flush_owed
          rw [fillFirst_length]; exact h1
        · apply setReads_owed_other _ _ _ _ _ _ hsame
          rw [flushReads_reads, applyPrim_reads]
          exact flush_other_owed t wi' r' wi r wo _ _ _ hl hsame h1
      | closed =>
        simp only
        by_cases hsame : wi' = wi ∧ r' = r
        · obtain ⟨rfl, rfl⟩ := hsame
          apply setReads_owed_same
          apply flush_owed
          rw [fillAll_length]; exact h
        · apply setReads_owed_other _ _ _ _ _ _ hsame
          rw [flushReads_reads]
          exact flush_other_owed t wi' r' wi r wo _ _ _ hl hsame h
      | blocked => exact h
  | fwdEnd w' r' =>
    simp only [Teardown.step]
    cases hl' : t.listener w' r' with
    | sink k => exact h
    | node wo' =>
      simp only
      split
      · rename_i hcl
        by_cases hsame : w' = wi ∧ r' = r
        · obtain ⟨rfl, rfl⟩ := hsame
          -- the reader is closed: nothing is claimed
          unfold Upstream OwedEq
          intro hc
          simp only [setReads] at hc
          rw [flush_closed] at hc
          simp only at hc
          rw [hcl] at hc; cases hc
        · apply setReads_owed_other _ _ _ _ _ _ hsame
          rw [flushReads_reads]
          apply flush_other_owed t w' r' wi r wo _ _ _ hl hsame
          unfold Upstream at h
          unfold OwedEq at h ⊢
          have hne : ¬ (wi = w' ∧ r = r') := fun ⟨a, b⟩ => hsame ⟨a.symm, b.symm⟩
          simpa [hne] using h
      · exact h
  | down td =>
    simp only [Teardown.step]
    unfold Upstream
    rw [applyCloses_reads]
    exact closes_owed t wi r wo _ hl s _ h

theorem upstream_run (t : Topo) (wi : WId) (r : RId) (wo : WId) (hl : t.listener wi r = .node wo) (hwo : wo ≠ wi) :
    ∀ (h : List Teardown.Step) (s : Sys), AllBacked s → QueueOK t s → (∀ st ∈ h, stepNoForeign wi r st) →
      Upstream s wi r → Upstream (Teardown.run .discard t s h) wi r ∧ AllBacked (Teardown.run .discard t s h) := by
  intro h
  induction h with
  | nil => intro s hb _ _ hu; exact ⟨hu, hb⟩
  | cons st rest ih =>
    intro s hb hq hf hu
    simp only [Teardown.run]
    exact ih _ (backed_step .discard t s st hb) (step_queueOK t s st hq) (fun x hx => hf x (by simp [hx]))
      (upstream_step t wi r wo hl hwo s st hb hq (hf st (by simp)) hu)

end Uniflow.TeardownProofs

/-! ### Once a node's in-reader is closed and its forward loop has ended, nothing enters through it -/

namespace Uniflow.TeardownProofs
open Uniflow Uniflow.Writer Uniflow.Teardown Uniflow.WriterProofs

/-- a closed reader stays closed, whatever the critical section -/
theorem wstep_closed_mono (m : W) (st : Writer.Step) (r : RId) (h : m.closed r = true) :
    (Writer.step m st).1.closed r = true := by
  cases st with
  | link x => simp only [Writer.step, stepWith]; repeat (first | exact h | split)
  | unlink x => simp only [Writer.step, stepWith]; repeat (first | exact h | split)
  | write v => simp only [Writer.step, stepWith]; repeat (first | exact h | split)
  | answer x a =>
    simp only [Writer.step, stepWith]
    split
    · exact h
    · rename_i g rest _
      rw [(receive_pend { m with pend := fun y => if y = x then rest else m.pend y } a x g.1 g.2).2.1]; exact h
  | pop x a => simp only [Writer.step, stepWith]; repeat (first | exact h | split)
  | deliver x k =>
    simp only [Writer.step, stepWith]
    split
    · exact h
    · rename_i e _
      rw [(receive_pend { m with flight := fun y => if y = x then (m.flight x).eraseIdx k else m.flight y } e.1 x e.2.1 e.2.2).2.1]; exact h
  | closeR x =>
    simp only [Writer.step, stepWith]
    split
    · exact h
    · by_cases hx : r = x <;> simp [hx, h]
  | deliverDrop x =>
    simp only [Writer.step, stepWith]
    split
    · exact h
    · rename_i g rest _
      simp only
      rw [(receive_pend { m with drops := fun y => if y = x then rest else m.drops y } Ans.dropped x g.1 g.2).2.1]; exact h
  | closeW => simp only [Writer.step, stepWith]; repeat (first | exact h | split)

/-- a closed reader is handed nothing -/
theorem wstep_closed_no_deliv (m : W) (st : Writer.Step) (r : RId) (h : m.closed r = true) :
    ((Writer.step m st).2.deliv.filter (fun d => d.1 = r)).length = 0 := by
  cases st with
  | write v =>
    have hacc : r ∉ accepting m.closed m.readers := by
      intro hx
      have := (List.mem_filter.1 hx).2
      simp [h] at this
    have hf : (((accepting m.closed m.readers).map fun x => (x, v)).filter (fun d => d.1 = r)) = [] := by
      simp only [List.filter_eq_nil_iff, List.mem_map]
      rintro d ⟨x, hx, rfl⟩
      simp only [decide_eq_true_eq]
      rintro rfl
      exact hacc hx
    simp only [Writer.step, stepWith]
    split
    · simp
    · split
      · simp
      · split
        · simp
        · split
          · simp only; rw [hf]; rfl
          · simp
  | link x =>
    have hd : (Writer.step m (.link x)).2.deliv = [] := by simp only [Writer.step, stepWith]; repeat (first | rfl | split)
    rw [hd]; rfl
  | unlink x =>
    have hd : (Writer.step m (.unlink x)).2.deliv = [] := by simp only [Writer.step, stepWith]; repeat (first | rfl | split)
    rw [hd]; rfl
  | answer x a =>
    have hd : (Writer.step m (.answer x a)).2.deliv = [] := by
      simp only [Writer.step, stepWith]
      split
      · rfl
      · rename_i g rest _
        exact (receive_pend { m with pend := fun y => if y = x then rest else m.pend y } a x g.1 g.2).2.2
    rw [hd]; rfl
  | pop x a =>
    have hd : (Writer.step m (.pop x a)).2.deliv = [] := by simp only [Writer.step, stepWith]; repeat (first | rfl | split)
    rw [hd]; rfl
  | deliver x k =>
    have hd : (Writer.step m (.deliver x k)).2.deliv = [] := by
      simp only [Writer.step, stepWith]
      split
      · rfl
      · rename_i e _
        exact (receive_pend { m with flight := fun y => if y = x then (m.flight x).eraseIdx k else m.flight y } e.1 x e.2.1 e.2.2).2.2
    rw [hd]; rfl
  | closeR x =>
    have hd : (Writer.step m (.closeR x)).2.deliv = [] := by simp only [Writer.step, stepWith]; repeat (first | rfl | split)
    rw [hd]; rfl
  | deliverDrop x =>
    have hd : (Writer.step m (.deliverDrop x)).2.deliv = [] := by
      simp only [Writer.step, stepWith]
      split
      · rfl
      · rename_i g rest _
        exact (receive_pend { m with drops := fun y => if y = x then rest else m.drops y } Ans.dropped x g.1 g.2).2.2
    rw [hd]; rfl
  | closeW =>
    have hd : (Writer.step m .closeW).2.deliv = [] := by simp only [Writer.step, stepWith]; repeat (first | rfl | split)
    rw [hd]; rfl

theorem sealed_setReads {s : Sys} {a : WId} {b : RId} {l : List (Nat × Option Ans)} {w : WId} {r : RId}
    (h : (s.comp w).w.closed r = true ∧ s.inbox w r = []) :
    ((setReads s a b l).comp w).w.closed r = true ∧ (setReads s a b l).inbox w r = [] := h

/-- "reader `r` of `w` is closed and holds no request the forward loop could still take" -/
def Sealed (s : Sys) (w : WId) (r : RId) : Prop :=
  (s.comp w).w.closed r = true ∧ s.inbox w r = []

theorem prim_sealed (t : Topo) (s : Sys) (w' : WId) (c : CStep) (w : WId) (r : RId) (wo : WId)
    (hl : t.listener w r = .node wo) (h : Sealed s w r) : Sealed (applyPrim .discard t s w' c).1 w r := by
  obtain ⟨hc, hi⟩ := h
  by_cases hw : w' = w
  · subst hw
    constructor
    · rw [applyPrim_comp]; simp only [if_true]
      cases c with
      | w st => simp only [applyC]; exact wstep_closed_mono _ st r hc
      | recv =>
        simp only [applyC]; split
        · split <;> exact hc
        · exact hc
      | steal => exact hc
      | pumpExit => exact hc
    · cases c with
      | w st =>
        have hlen : ((applyPrim .discard t s w' (.w st)).1.inbox w' r).length = 0 := by
          simp only [applyPrim, applyC, setComp]
          rw [deliver_count t w' _ _ r wo hl, hi, wstep_closed_no_deliv _ st r hc]; rfl
        exact List.length_eq_zero_iff.1 hlen
      | recv =>
        have hin : (applyPrim .discard t s w' .recv).1.inbox = s.inbox := by
          simp only [applyPrim, applyC]
          by_cases hg : (s.comp w').got.length < (s.comp w').accepted
          · simp only [hg, if_true]
            cases Pump.recv (s.comp w').p <;> rfl
          · simp only [hg, if_false]; rfl
        rw [hin]; exact hi
      | steal => exact hi
      | pumpExit => exact hi
  · constructor
    · rw [applyPrim_comp]; simp only [Ne.symm hw, if_false]; exact hc
    · rw [applyPrim_inbox_other _ _ _ _ _ _ _ (Ne.symm hw)]; exact hi

theorem flush_sealed (t : Topo) (w' : WId) (r' : RId) (w : WId) (r : RId) (wo : WId) (hl : t.listener w r = .node wo)
    (s : Sys) (l : List (Nat × Option Ans)) (h : Sealed s w r) : Sealed (flushReads .discard t w' r' s l).1 w r := by
  induction l generalizing s with
  | nil => exact h
  | cons e rest ih =>
    obtain ⟨v, oa⟩ := e
    cases oa with
    | none => exact h
    | some a => simp only [flushReads]; exact ih _ (prim_sealed t s w' _ w r wo hl h)

theorem closes_sealed (t : Topo) (w : WId) (r : RId) (wo : WId) (hl : t.listener w r = .node wo)
    (s : Sys) (cl : List Close) (h : Sealed s w r) : Sealed (applyCloses .discard t s cl) w r := by
  induction cl generalizing s with
  | nil => exact h
  | cons c rest ih =>
    simp only [applyCloses]
    apply ih
    cases c <;> exact prim_sealed t s _ _ w r wo hl h

/-- Every step keeps a sealed reader sealed and leaves what its node still holds (`reads`) no
longer than it was: the forward loop takes nothing more through it. -/
theorem sealed_step (t : Topo) (w : WId) (r : RId) (wo : WId) (hl : t.listener w r = .node wo)
    (s : Sys) (st : Teardown.Step) (h : Sealed s w r) (hr : s.reads w r = []) :
    Sealed (Teardown.step .discard t s st).1 w r ∧ (Teardown.step .discard t s st).1.reads w r = [] := by
  cases st with
  | prim w' c => exact ⟨prim_sealed t s w' c w r wo hl h, by simp only [Teardown.step]; rw [applyPrim_reads]; exact hr⟩
  | fwd w' r' =>
    simp only [Teardown.step]
    cases hl' : t.listener w' r' with
    | sink k => exact ⟨h, hr⟩
    | node wo' =>
      cases hi : s.inbox w' r' with
      | nil => exact ⟨h, hr⟩
      | cons v rest =>
        have hne : ¬ (w' = w ∧ r' = r) := by
          rintro ⟨rfl, rfl⟩; rw [h.2] at hi; cases hi
        have hne' : ¬ (w = w' ∧ r = r') := fun ⟨a, b⟩ => hne ⟨a.symm, b.symm⟩
        simp only
        constructor
        · have h1 : Sealed { s with inbox := fun x y => if x = w' ∧ y = r' then rest else s.inbox x y } w r :=
            ⟨h.1, by simp [hne', h.2]⟩
          apply sealed_setReads
          exact flush_sealed t w' r' w r wo hl _ _ (prim_sealed t _ wo' (.w (.write v)) w r wo hl h1)
        · simp only [setReads, hne', if_false]
          rw [flushReads_reads, applyPrim_reads]; exact hr
  | bwdLate wo' =>
    simp only [Teardown.step]
    split
    · exact ⟨h, hr⟩
    · split
      · exact ⟨h, hr⟩
      · exact ⟨h, hr⟩
  | bwd wo' =>
    simp only [Teardown.step]
    split
    · exact ⟨h, hr⟩
    cases hc' : t.consumer wo' with
    | requester => exact ⟨h, hr⟩
    | node wi' r' =>
      simp only
      cases hrv : Pump.recv (s.comp wo').p with
      | got a =>
        simp only
        constructor
        · apply sealed_setReads
          exact flush_sealed t wi' r' w r wo hl _ _ (prim_sealed t s wo' .recv w r wo hl h)
        · by_cases hsame : w = wi' ∧ r = r'
          · obtain ⟨rfl, rfl⟩ := hsame
            simp only [setReads, and_self, if_true]
            rw [hr]; rfl
          · simp only [setReads, hsame, if_false]
            rw [flushReads_reads, applyPrim_reads]; exact hr
      | closed =>
        simp only
        constructor
        · apply sealed_setReads
          exact flush_sealed t wi' r' w r wo hl s _ h
        · by_cases hsame : w = wi' ∧ r = r'
          · obtain ⟨rfl, rfl⟩ := hsame
            simp only [setReads, and_self, if_true]
            rw [hr]; rfl
          · simp only [setReads, hsame, if_false]
            rw [flushReads_reads]; exact hr
      | blocked => exact ⟨h, hr⟩
  | fwdEnd w' r' =>
    simp only [Teardown.step]
    cases hl' : t.listener w' r' with
    | sink k => exact ⟨h, hr⟩
    | node wo' =>
      simp only
      split
      · constructor
        · have h1 : Sealed { s with inbox := fun x y => if x = w' ∧ y = r' then [] else s.inbox x y } w r := by
            refine ⟨h.1, ?_⟩
            simp only
            split
            · rfl
            · exact h.2
          apply sealed_setReads
          exact flush_sealed t w' r' w r wo hl _ _ h1
        · by_cases hsame : w = w' ∧ r = r'
          · obtain ⟨rfl, rfl⟩ := hsame
            simp only [setReads, and_self, if_true]
            rw [hr]; rfl
          · simp only [setReads, hsame, if_false]
            rw [flushReads_reads]; exact hr
      · exact ⟨h, hr⟩
  | sinkAnswer k a =>
    simp only [Teardown.step]
    cases hq : s.queue k with
    | nil => exact ⟨h, hr⟩
    | cons e rest =>
      obtain ⟨w', r'⟩ := e
      simp only
      have h1 : Sealed { s with queue := fun x => if x = k then rest else s.queue x } w r := h
      exact ⟨prim_sealed t _ w' _ w r wo hl h1, by rw [applyPrim_reads]; exact hr⟩
  | down td =>
    simp only [Teardown.step]
    exact ⟨closes_sealed t w r wo hl s _ h, by rw [applyCloses_reads]; exact hr⟩

theorem sealed_run (t : Topo) (w : WId) (r : RId) (wo : WId) (hl : t.listener w r = .node wo) :
    ∀ (h : List Teardown.Step) (s : Sys), Sealed s w r → s.reads w r = [] →
      Sealed (Teardown.run .discard t s h) w r ∧ (Teardown.run .discard t s h).reads w r = [] := by
  intro h
  induction h with
  | nil => intro s hs hr; exact ⟨hs, hr⟩
  | cons st rest ih =>
    intro s hs hr
    simp only [Teardown.run]
    obtain ⟨h1, h2⟩ := sealed_step t w r wo hl s st hs hr
    exact ih _ h1 h2

/-- `fwdEnd` on a closed reader seals it and leaves nothing waiting. -/
theorem fwdEnd_seals (t : Topo) (w : WId) (r : RId) (wo : WId) (hl : t.listener w r = .node wo) (s : Sys)
    (hc : (s.comp w).w.closed r = true) :
    Sealed (Teardown.step .discard t s (.fwdEnd w r)).1 w r ∧ (Teardown.step .discard t s (.fwdEnd w r)).1.reads w r = [] := by
  simp only [Teardown.step, hl, hc, if_true]
  constructor
  · have h1 : Sealed { s with inbox := fun x y => if x = w ∧ y = r then [] else s.inbox x y } w r := ⟨hc, by simp⟩
    apply sealed_setReads
    exact flush_sealed t w r w r wo hl _ _ h1
  · simp only [setReads, and_self, if_true]
    exact flushReads_all_some _ _ _ _ _ _ (fillAll_all_some _ _)

end Uniflow.TeardownProofs
