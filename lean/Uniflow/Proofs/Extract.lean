/-
`extract` (Model/Store.lean, the upsert document of a filter) is the reference `refExtract` (Spec/Query.lean) on
*simple* filters (Props/C10.lean `extract_simple`). Core Lean only.
-/
import Uniflow.Model.Store
import Uniflow.Spec.Query

namespace Uniflow.Store
open Uniflow.Value Uniflow.Query

/-! ### equation lemmas -/

theorem extract_map (ps : PList) : extract (.map ps) = extractP .nil ps := by
  conv => lhs; unfold extract

theorem extract_nonmap {f : Val} (h : ∀ ps, f ≠ .map ps) : extract f = .ok f := by
  cases f with
  | map ps => exact absurd rfl (h ps)
  | _ => conv => lhs; unfold extract

theorem extractP_nil (doc : PList) : extractP doc .nil = .ok (.map doc) := by
  conv => lhs; unfold extractP

/-- the step of `extractP` on a field key -/
theorem extractP_field (doc : PList) (key : Bytes) (value : Val) (rest : PList) (h : dollar key = false) :
    extractP doc (.cons (.str key) value rest) =
      (match extract value with
       | .ok .nil => extractP doc rest
       | .ok child => extractP (mset doc (.str key) child) rest
       | .err e => .err e
       | .panic => .panic) := by
  conv => lhs; unfold extractP
  simp only [h, Bool.not_false, if_true]
  rfl

theorem extractP_eq (doc : PList) (value : Val) (rest : PList) :
    extractP doc (.cons (.str opEq) value rest) = .ok value := by
  conv => lhs; unfold extractP
  simp [dollar, opEq]

theorem extractP_plain (doc : PList) (key : Bytes) (value : Val) (rest : PList) (hd : dollar key = true)
    (h1 : key ≠ opEq) (h2 : key ≠ opAnd) (h3 : key ≠ opOr) :
    extractP doc (.cons (.str key) value rest) = .ok .nil := by
  conv => lhs; unfold extractP
  simp [hd, h1, h2, h3]

theorem simple_map (ps : PList) :
    simple (.map ps) =
      ((allKeys fieldKey ps && simpleP ps)
        || (match ps with | .cons (.str key) _ .nil => decide (key = opEq) | _ => false)
        || (match ps with | .nil => false | _ => allKeys plainOp ps)) := by
  conv => lhs; unfold simple
  rfl

theorem simpleP_cons (k v : Val) (rest : PList) : simpleP (.cons k v rest) = (simple v && simpleP rest) := by
  conv => lhs; unfold simpleP

theorem refExtract_map (ps : PList) :
    refExtract (.map ps) =
      if allKeys fieldKey ps then .map (refExtractP .nil ps)
      else match ps with
        | .cons (.str key) v .nil => if key = opEq then v else .nil
        | _ => .nil := by
  conv => lhs; unfold refExtract
  rfl

theorem refExtract_nonmap {f : Val} (h : ∀ ps, f ≠ .map ps) : refExtract f = f := by
  cases f with
  | map ps => exact absurd rfl (h ps)
  | _ => conv => lhs; unfold refExtract

theorem refExtractP_nil (doc : PList) : refExtractP doc .nil = doc := by
  conv => lhs; unfold refExtractP

theorem refExtractP_cons (doc : PList) (k v : Val) (rest : PList) :
    refExtractP doc (.cons k v rest) = refExtractP (if isNil (refExtract v) then doc else mset doc k (refExtract v)) rest := by
  conv => lhs; unfold refExtractP

theorem fieldKey_str {k : Val} (h : fieldKey k = true) : ∃ key, k = .str key ∧ dollar key = false := by
  cases k <;> simp [fieldKey] at h
  exact ⟨_, rfl, h⟩

theorem plainOp_str {k : Val} (h : plainOp k = true) :
    ∃ key, k = .str key ∧ dollar key = true ∧ key ≠ opEq ∧ key ≠ opAnd ∧ key ≠ opOr := by
  cases k <;> simp [plainOp] at h
  exact ⟨_, rfl, h.1.1.1, h.1.1.2, h.1.2, h.2⟩

mutual
  theorem extract_simple_V : ∀ f : Val, simple f = true → extract f = .ok (refExtract f)
    | .map ps, h => by
      rw [extract_map, refExtract_map]
      rw [simple_map] at h
      by_cases hf : allKeys fieldKey ps = true
      · simp only [hf, if_true]
        have hs : simpleP ps = true := by
          cases ps with
          | nil => conv => lhs; unfold simpleP
          | cons k v rest =>
            simp only [allKeys, Bool.and_eq_true] at hf
            obtain ⟨key, rfl, hd⟩ := fieldKey_str hf.1
            have hne : key ≠ opEq := fun h0 => by rw [h0] at hd; simp [dollar, opEq] at hd
            have hpl : plainOp (.str key) = false := by simp [plainOp, hd]
            simp only [allKeys, hf.1, hf.2, Bool.and_self, Bool.true_and, hpl, Bool.false_and, Bool.or_false] at h
            cases rest with
            | nil => simpa [hne] using h
            | cons _ _ _ => simpa using h
        exact extractP_simple ps .nil hf hs
      · simp only [hf, Bool.false_and, Bool.false_or, Bool.false_eq_true, if_false] at h ⊢
        cases ps with
        | nil => simp [allKeys] at hf
        | cons k v rest =>
          simp only [Bool.or_eq_true] at h
          rcases h with h | h
          · -- exactly `{$eq: v}`
            cases k with
            | str key =>
              cases rest with
              | nil =>
                simp only [decide_eq_true_eq] at h
                subst h
                rw [extractP_eq]
                simp
              | cons _ _ _ => simp at h
            | _ => simp at h
          · simp only [allKeys, Bool.and_eq_true] at h
            obtain ⟨key, rfl, hd, h1, h2, h3⟩ := plainOp_str h.1
            rw [extractP_plain _ _ _ _ hd h1 h2 h3]
            cases rest with
            | nil => simp [h1]
            | cons _ _ _ => rfl
    | .nil, _ => by rw [extract_nonmap (by intro ps; simp), refExtract_nonmap (by intro ps; simp)]
    | .bin _, _ => by rw [extract_nonmap (by intro ps; simp), refExtract_nonmap (by intro ps; simp)]
    | .bool _, _ => by rw [extract_nonmap (by intro ps; simp), refExtract_nonmap (by intro ps; simp)]
    | .err _, _ => by rw [extract_nonmap (by intro ps; simp), refExtract_nonmap (by intro ps; simp)]
    | .int _ _, _ => by rw [extract_nonmap (by intro ps; simp), refExtract_nonmap (by intro ps; simp)]
    | .uint _ _, _ => by rw [extract_nonmap (by intro ps; simp), refExtract_nonmap (by intro ps; simp)]
    | .f32 _, _ => by rw [extract_nonmap (by intro ps; simp), refExtract_nonmap (by intro ps; simp)]
    | .f64 _, _ => by rw [extract_nonmap (by intro ps; simp), refExtract_nonmap (by intro ps; simp)]
    | .str _, _ => by rw [extract_nonmap (by intro ps; simp), refExtract_nonmap (by intro ps; simp)]
    | .slice _, _ => by rw [extract_nonmap (by intro ps; simp), refExtract_nonmap (by intro ps; simp)]
  theorem extractP_simple : ∀ (ps : PList) (doc : PList), allKeys fieldKey ps = true → simpleP ps = true →
      extractP doc ps = .ok (.map (refExtractP doc ps))
    | .nil, doc, _, _ => by rw [extractP_nil, refExtractP_nil]
    | .cons k v rest, doc, hf, hs => by
      simp only [allKeys, Bool.and_eq_true] at hf
      rw [simpleP_cons] at hs
      simp only [Bool.and_eq_true] at hs
      obtain ⟨key, rfl, hd⟩ := fieldKey_str hf.1
      rw [extractP_field _ _ _ _ hd, extract_simple_V v hs.1, refExtractP_cons]
      cases hc : refExtract v with
      | nil => simpa [isNil] using extractP_simple rest doc hf.2 hs.2
      | _ => simpa [isNil] using extractP_simple rest _ hf.2 hs.2
end

end Uniflow.Store
