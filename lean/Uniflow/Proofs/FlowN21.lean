/-
C02, joint model, all node kinds, part 21: class T4's graphs are graphs of class T5; a workflow of class T5 with a
two-input join (many-to-one) node whose in-ports are fed by different upstream nodes.
-/
import Uniflow.Proofs.FlowN20

namespace Uniflow.FlowN
open Uniflow.Tracer Uniflow.Node Uniflow.Flow Uniflow.FlowInv Uniflow.FlowG Uniflow.ATracer Uniflow.FlowH Uniflow.FlowM

theorem graphWF5_of_graphWF3 (kinds : List Kind) (links : List (Nat × List Tgt)) (h : GraphWF3 kinds links) :
    GraphWF5 kinds links := by
  have hk : ∀ k ∈ kinds, KindOK k ∧ nIn k = 1 := by
    intro k hk
    have := h.kindsOK k hk
    cases k with
    | oneToOne => exact ⟨trivial, rfl⟩
    | oneToMany _ => exact ⟨this, rfl⟩
    | manyToOne _ => exact this.elim
  refine ⟨h.small, fun k hk' => (hk k hk').1, h.nodupT, ?_, h.src, h.keys, h.fwd⟩
  intro key m port hm
  obtain ⟨h1, h2⟩ := h.tnode key m port hm
  refine ⟨kinds[m], List.getElem?_eq_getElem h1, ?_⟩
  rw [(hk _ (List.getElem_mem h1)).2, h2]; exact Nat.zero_lt_one

/-- source → node 0 (one-to-many, 2 out ports); out[0] → node 1, out[1] → node 2; node 1 → in-port 0 and node 2 →
in-port 1 of the join node 3; node 3 → sink 0 -/
def joinLinks : List (Nat × List Tgt) :=
  [(srcKey, [.node 0 0]), (wkey 0 1, [.node 1 0]), (wkey 0 2, [.node 2 0]), (wkey 1 1, [.node 3 0]),
   (wkey 2 1, [.node 3 1]), (wkey 3 1, [.sink 0])]

def joinKinds : List Kind := [.oneToMany 2, .oneToOne, .oneToOne, .manyToOne 2]

theorem join_getL (key : Nat) : getL joinLinks key =
    if key = srcKey then [.node 0 0] else if key = wkey 0 1 then [.node 1 0]
    else if key = wkey 0 2 then [.node 2 0] else if key = wkey 1 1 then [.node 3 0]
    else if key = wkey 2 1 then [.node 3 1] else if key = wkey 3 1 then [.sink 0] else [] := by
  simp only [joinLinks, getL, aget, srcKey, srcNode, wkey]
  by_cases e1 : key = 1000 * 64 + 1
  · subst e1; simp
  · by_cases e2 : key = 0 * 64 + 1
    · subst e2; simp
    · by_cases e3 : key = 0 * 64 + 2
      · subst e3; simp
      · by_cases e4 : key = 1 * 64 + 1
        · subst e4; simp
        · by_cases e5 : key = 2 * 64 + 1
          · subst e5; simp
          · by_cases e6 : key = 3 * 64 + 1
            · subst e6; simp
            · simp [e1, e2, e3, e4, e5, e6]

theorem join_wf : GraphWF5 joinKinds joinLinks := by
  refine ⟨by decide, ?_, ?_, ?_, ?_, ?_, ?_⟩
  · intro k hk
    simp only [joinKinds, List.mem_cons, List.mem_nil_iff, or_false] at hk
    rcases hk with e | e | e | e <;> subst e <;> simp [KindOK, maxW]
  · intro key; rw [join_getL]
    repeat' split
    all_goals simp [rkeyOf]
  · intro key m port hm
    rw [join_getL] at hm
    repeat' split at hm
    all_goals simp at hm
    all_goals (obtain ⟨e1, e2⟩ := hm; subst e1; subst e2; simp [joinKinds, nIn])
  · rw [join_getL]; simp
  · intro key hk
    rw [join_getL] at hk
    by_cases h0 : key = srcKey
    · left; exact h0
    · right
      rw [if_neg h0] at hk
      by_cases h1 : key = wkey 0 1
      · exact ⟨0, 1, by decide, by decide, h1⟩
      · rw [if_neg h1] at hk
        by_cases h2 : key = wkey 0 2
        · exact ⟨0, 2, by decide, by decide, h2⟩
        · rw [if_neg h2] at hk
          by_cases h3 : key = wkey 1 1
          · exact ⟨1, 1, by decide, by decide, h3⟩
          · rw [if_neg h3] at hk
            by_cases h4 : key = wkey 2 1
            · exact ⟨2, 1, by decide, by decide, h4⟩
            · rw [if_neg h4] at hk
              by_cases h5 : key = wkey 3 1
              · exact ⟨3, 1, by decide, by decide, h5⟩
              · rw [if_neg h5] at hk; exact absurd rfl hk
  · intro n w m port hn hw hm
    rw [join_getL] at hm
    have hn4 : n < 4 := hn
    have hw8 : w < 64 := hw
    have h0 : ¬ (wkey n w = srcKey) := by simp only [wkey, srcKey, srcNode]; omega
    rw [if_neg h0] at hm
    by_cases h1 : wkey n w = wkey 0 1
    · rw [if_pos h1] at hm; simp only [wkey] at h1; simp at hm; omega
    · rw [if_neg h1] at hm
      by_cases h2 : wkey n w = wkey 0 2
      · rw [if_pos h2] at hm; simp only [wkey] at h2; simp at hm; omega
      · rw [if_neg h2] at hm
        by_cases h3 : wkey n w = wkey 1 1
        · rw [if_pos h3] at hm; simp only [wkey] at h3; simp at hm; omega
        · rw [if_neg h3] at hm
          by_cases h4 : wkey n w = wkey 2 1
          · rw [if_pos h4] at hm; simp only [wkey] at h4; simp at hm; omega
          · rw [if_neg h4] at hm
            by_cases h5 : wkey n w = wkey 3 1
            · rw [if_pos h5] at hm; simp at hm
            · rw [if_neg h5] at hm; simp at hm

end Uniflow.FlowN
