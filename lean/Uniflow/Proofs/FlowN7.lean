/-
C02, joint model, all node kinds, part 7: reader keys of the class determine the reader; the sinks after
`pushAllG`; a node's in-port after the copies were handed out.
-/
import Uniflow.Proofs.FlowN6

namespace Uniflow.FlowN
open Uniflow.Tracer Uniflow.Node Uniflow.Flow Uniflow.FlowInv Uniflow.FlowG Uniflow.ATracer Uniflow.FlowH Uniflow.FlowM
open Uniflow.ATracer (getL_setOrDel getL_aset)

theorem tok_port_lt (kinds : List Kind) (hK : ∀ k ∈ kinds, KindOK k) (m port : Nat) (h : TOK kinds (.node m port)) :
    m < kinds.length ∧ port < 63 := by
  obtain ⟨k, hk, hp⟩ := h
  have := nIn_le k (hK k (List.mem_of_getElem? hk))
  exact ⟨(List.getElem?_eq_some_iff.mp hk).1, by omega⟩

theorem rkey_sink_of_tok5 (kinds : List Kind) (hN : kinds.length ≤ 1000) (hK : ∀ k ∈ kinds, KindOK k) (t : Tgt)
    (ht : TOK kinds t) (j : Nat) (e : rkeyOf t = rkeyOf (.sink j)) : t = .sink j := by
  cases t with
  | sink k => simp only [rkeyOf] at e; have : k = j := by omega
              rw [this]
  | node m port =>
    obtain ⟨h1, h2⟩ := tok_port_lt kinds hK m port ht
    simp only [rkeyOf] at e; omega

theorem rkey_node_of_tok5 (kinds : List Kind) (hN : kinds.length ≤ 1000) (hK : ∀ k ∈ kinds, KindOK k) (t : Tgt)
    (ht : TOK kinds t) (n port : Nat) (hn : n < 1000) (hp : port < 64)
    (e : rkeyOf t = rkeyOf (.node n port)) : t = .node n port := by
  cases t with
  | sink k => simp only [rkeyOf] at e; omega
  | node m port' =>
    obtain ⟨h1, h2⟩ := tok_port_lt kinds hK m port' ht
    obtain ⟨e1, e2⟩ := rkey_node_eq m n port' port (by omega) hp e
    rw [e1, e2]

theorem pushAllG_sinks5 (kinds : List Kind) (hN : kinds.length ≤ 1000) (hK : ∀ k ∈ kinds, KindOK k) (key : Nat) (v : Val) :
    ∀ (ts : List Tgt) (g : G) (j : Nat), (∀ t ∈ ts, TOK kinds t) →
    getL (pushAllG key v ts g).sinks j = getL g.sinks j ++ (copyOf ts g.next (rkeyOf (.sink j))).map (fun c => (c, v))
  | [], g, j, _ => by simp [pushAllG, copyOf]
  | t :: ts, g, j, ht => by
    simp only [pushAllG, pushAllG_sinks5 kinds hN hK key v ts (pushG g key v t) j (fun t' h' => ht t' (List.mem_cons_of_mem _ h')), copyOf]
    by_cases e : rkeyOf t = rkeyOf (.sink j)
    · have := rkey_sink_of_tok5 kinds hN hK t (ht t List.mem_cons_self) j e
      subst this
      simp [pushG, pushSinks, getL_aset]
    · have hne : ∀ k, t = .sink k → j ≠ k := by intro k hk e2; subst hk; subst e2; exact e rfl
      simp only [e, if_false, List.nil_append]
      cases t with
      | node m port => simp [pushG, pushSinks]
      | sink k => simp [pushG, pushSinks, getL_aset, hne k rfl]

theorem heldN_addInbox_ge (nd : Node) (a : A) (f : Nat → List Pkt) (port : Nat) (hp : nd.threads.length ≤ port) :
    heldN (addInbox nd f) a port = heldN nd a port := by
  have h1 : getThread nd.threads port = none := by
    cases h : getThread nd.threads port with
    | none => rfl
    | some th => exact absurd (getThread_lt _ _ _ h) (by omega)
  simp only [heldN, inboxOf, addInbox, getThread_addIn, h1, Option.map_none]

/-- no copy is made for a reader no link of the writer leads to -/
theorem copyOf_none_node (kinds : List Kind) (hN : kinds.length ≤ 1000) (hK : ∀ k ∈ kinds, KindOK k) (ts : List Tgt)
    (hts : ∀ t ∈ ts, TOK kinds t) (c : Pid) (n port : Nat) (hn : n < 1000) (hp : port < 64)
    (h : Tgt.node n port ∉ ts) : copyOf ts c (rkeyOf (.node n port)) = [] := by
  apply copyOf_none
  intro hm
  obtain ⟨t, ht, e⟩ := List.mem_map.mp hm
  have := rkey_node_of_tok5 kinds hN hK t (hts t ht) n port hn hp e
  subst this
  exact h ht

end Uniflow.FlowN
