/-
Histories with `Tracer.Receive(w, nil)` (discard). C02's abstract tracer has no discard; instead of
relaxing its refinement relation, the run with discards is SIMULATED by the run of the same history in
which every discard is an answer with `packet.None`: the two tracers stay equal except that rows of
`receives` of the second may hold extra `some None` cells (`RelC`, `Sim`), and they send the same replies
(`sim_run`). Everything `resolve` reads of a row – `hasNil`, `Join` of the non-nil cells, the positions of
the nil cells – is blind to such cells (`relC_hasNil`, `relC_join` via `join_eq_joinG`, `relC_slot`).
Used by `C05.tracer_no_residue_with_discards` in Props/C05.lean.
-/
import Uniflow.Proofs.TracerExit

namespace Uniflow.Tracer
/-! ### `Join` does not see `None` packets -/

/-- the general branch of `join` -/
def joinG (as : List Ans) : Ans :=
  match errsOf as with
  | e :: es => .pay (.err (e :: es).flatten)
  | [] =>
    match paysOf as with
    | [] => .empty
    | [v] => .pay v
    | vs => .pay (.slice vs)

theorem join_eq_joinG (as : List Ans) : join as = joinG as := by
  cases as with
  | nil => rfl
  | cons a rest =>
    cases rest with
    | nil =>
      cases a with
      | empty => rfl
      | pay v => cases v <;> simp [join, joinG, errsOf, paysOf]
    | cons b rest' => rfl

/-- `l'` is `l` with some `None` packets inserted -/
inductive RelA : List Ans → List Ans → Prop where
  | nil : RelA [] []
  | cons (a : Ans) {l l' : List Ans} : RelA l l' → RelA (a :: l) (a :: l')
  | skip {l l' : List Ans} : RelA l l' → RelA l (.empty :: l')

theorem relA_errs {l l' : List Ans} (h : RelA l l') : errsOf l = errsOf l' := by
  induction h with
  | nil => rfl
  | cons a _ ih =>
    cases a with
    | empty => simpa [errsOf] using ih
    | pay v => cases v <;> simp [errsOf, ih]
  | skip _ ih => simpa [errsOf] using ih

theorem relA_pays {l l' : List Ans} (h : RelA l l') : paysOf l = paysOf l' := by
  induction h with
  | nil => rfl
  | cons a _ ih =>
    cases a with
    | empty => simpa [paysOf] using ih
    | pay v => cases v <;> simp [paysOf, ih]
  | skip _ ih => simpa [paysOf] using ih

theorem relA_join {l l' : List Ans} (h : RelA l l') : join l = join l' := by
  rw [join_eq_joinG, join_eq_joinG, joinG, joinG, relA_errs h, relA_pays h]

/-- cell rows: `cs'` is `cs` with some `some None` cells inserted -/
inductive RelC : List (Option Ans) → List (Option Ans) → Prop where
  | nil : RelC [] []
  | cons (c : Option Ans) {cs cs' : List (Option Ans)} : RelC cs cs' → RelC (c :: cs) (c :: cs')
  | skip {cs cs' : List (Option Ans)} : RelC cs cs' → RelC cs (some .empty :: cs')

theorem relC_refl (cs : List (Option Ans)) : RelC cs cs := by
  induction cs with
  | nil => exact .nil
  | cons c cs ih => exact .cons c ih

theorem relC_hasNil {cs cs' : List (Option Ans)} (h : RelC cs cs') : hasNil cs = hasNil cs' := by
  induction h with
  | nil => rfl
  | cons c _ ih => cases c <;> simp [hasNil, ih]
  | skip _ ih => simpa [hasNil] using ih

theorem relC_cells {cs cs' : List (Option Ans)} (h : RelC cs cs') : RelA (cellsOf cs) (cellsOf cs') := by
  induction h with
  | nil => exact .nil
  | cons c _ ih => cases c with
    | none => simpa [cellsOf] using ih
    | some a => simpa [cellsOf] using RelA.cons a ih
  | skip _ ih => simpa [cellsOf] using RelA.skip ih

theorem relC_join {cs cs' : List (Option Ans)} (h : RelC cs cs') : joinCells cs = joinCells cs' :=
  relA_join (relC_cells h)

theorem relC_append {cs cs' : List (Option Ans)} (h : RelC cs cs') (x : Option Ans) : RelC (cs ++ [x]) (cs' ++ [x]) := by
  induction h with
  | nil => exact .cons x .nil
  | cons c _ ih => exact .cons c ih
  | skip _ ih => exact .skip ih

theorem relC_fillFirst {cs cs' : List (Option Ans)} (h : RelC cs cs') (a : Ans) : RelC (fillFirst cs a) (fillFirst cs' a) := by
  induction h with
  | nil => exact .cons _ .nil
  | cons c h ih => cases c with
    | none => exact .cons _ h
    | some b => exact .cons _ ih
  | skip _ ih => exact .skip ih

/-- a discard against an empty answer: the concrete row loses its first nil cell, the shadow row has
it filled with `None` -/
theorem relC_discard {cs cs' : List (Option Ans)} (h : RelC cs cs') :
    RelC (dropFirstNil cs) (fillFirst cs' .empty) ∨ hasNil cs' = false := by
  induction h with
  | nil => right; rfl
  | cons c h ih => cases c with
    | none => left; exact .skip h
    | some b =>
      rcases ih with ih | ih
      · left; exact .cons _ ih
      · right; simpa [hasNil] using ih
  | skip _ ih =>
    rcases ih with ih | ih
    · left; exact .skip ih
    · right; simpa [hasNil] using ih

theorem relC_slot (pck : Pid) (j : Ans) {rs rs' : List (Option Ans)} (h : RelC rs rs') :
    ∀ tgs, (slot pck j rs tgs = none ∧ slot pck j rs' tgs = none) ∨
      ∃ r1 r1' t1, slot pck j rs tgs = some (r1, t1) ∧ slot pck j rs' tgs = some (r1', t1) ∧ RelC r1 r1' := by
  induction h with
  | nil =>
    intro tgs
    cases tgs with
    | nil => right; exact ⟨[], [], [], rfl, rfl, .nil⟩
    | cons tg tgs => left; exact ⟨rfl, rfl⟩
  | cons c h ih =>
    intro tgs
    cases tgs with
    | nil => right; exact ⟨_, _, [], by simp [slot], by simp [slot], .cons c h⟩
    | cons tg tgs =>
      cases c with
      | some a =>
        rcases ih (tg :: tgs) with ⟨h1, h2⟩ | ⟨r1, r1', t1, h1, h2, h3⟩
        · left; simp [slot, h1, h2]
        · right; exact ⟨some a :: r1, some a :: r1', t1, by simp [slot, h1], by simp [slot, h2], .cons _ h3⟩
      | none =>
        by_cases e : tg = pck
        · right; exact ⟨some j :: _, some j :: _, tgs, by simp [slot, e], by simp [slot, e], .cons _ h⟩
        · rcases ih tgs with ⟨h1, h2⟩ | ⟨r1, r1', t1, h1, h2, h3⟩
          · left; simp [slot, e, h1, h2]
          · right; exact ⟨none :: r1, none :: r1', tg :: t1, by simp [slot, e, h1], by simp [slot, e, h2], .cons _ h3⟩
  | skip h ih =>
    intro tgs
    cases tgs with
    | nil => right; exact ⟨_, _, [], by cases ‹List (Option Ans)› <;> simp [slot], by simp [slot], .skip h⟩
    | cons tg tgs =>
      rcases ih (tg :: tgs) with ⟨h1, h2⟩ | ⟨r1, r1', t1, h1, h2, h3⟩
      · left; simp [slot, h1, h2]
      · right; exact ⟨r1, some .empty :: r1', t1, h1, by simp [slot, h2], .skip h3⟩


/-! ### the `receives` maps of the two runs -/

/-- same keys in the same order, related rows -/
inductive RelM : List (Pid × List (Option Ans)) → List (Pid × List (Option Ans)) → Prop where
  | nil : RelM [] []
  | cons (k : Pid) {cs cs' : List (Option Ans)} {m m' : List (Pid × List (Option Ans))} :
      RelC cs cs' → RelM m m' → RelM ((k, cs) :: m) ((k, cs') :: m')

theorem relM_refl (m : List (Pid × List (Option Ans))) : RelM m m := by
  induction m with
  | nil => exact .nil
  | cons x m ih => obtain ⟨k, cs⟩ := x; exact .cons k (relC_refl cs) ih

/-- lookups: absent in both, or related rows -/
theorem relM_aget {m m' : List (Pid × List (Option Ans))} (h : RelM m m') (k : Pid) :
    (aget m k = none ∧ aget m' k = none) ∨ ∃ cs cs', aget m k = some cs ∧ aget m' k = some cs' ∧ RelC cs cs' := by
  induction h with
  | nil => left; exact ⟨rfl, rfl⟩
  | cons k0 hc _ ih =>
    by_cases e : k = k0
    · right; exact ⟨_, _, by simp [aget, e], by simp [aget, e], hc⟩
    · rcases ih with ⟨h1, h2⟩ | ⟨cs, cs', h1, h2, h3⟩
      · left; simp [aget, e, h1, h2]
      · right; exact ⟨cs, cs', by simp [aget, e, h1], by simp [aget, e, h2], h3⟩

theorem relM_getL {m m' : List (Pid × List (Option Ans))} (h : RelM m m') (k : Pid) : RelC (getL m k) (getL m' k) := by
  rcases relM_aget h k with ⟨h1, h2⟩ | ⟨cs, cs', h1, h2, h3⟩
  · simp only [getL, h1, h2]; exact .nil
  · simp only [getL, h1, h2]; exact h3

theorem relM_aset {m m' : List (Pid × List (Option Ans))} (h : RelM m m') (k : Pid) {v v' : List (Option Ans)}
    (hv : RelC v v') : RelM (aset m k v) (aset m' k v') := by
  induction h with
  | nil => exact .cons k hv .nil
  | cons k0 hc hm ih =>
    by_cases e : k = k0
    · subst e; simp only [aset, if_true]; exact .cons k hv hm
    · simp only [aset, e, if_false]; exact .cons k0 hc ih

theorem relM_adel {m m' : List (Pid × List (Option Ans))} (h : RelM m m') (k : Pid) : RelM (adel m k) (adel m' k) := by
  induction h with
  | nil => exact .nil
  | cons k0 hc _ ih =>
    by_cases e : k = k0
    · subst e; simp only [adel, if_true]; exact ih
    · simp only [adel, e, if_false]; exact .cons k0 hc ih

/-- the tracer of the run with discards (`t`) against the tracer of the run in which every discard
is an answer with `None` (`t'`): everything equal but the rows of `receives`, where the second may
hold extra `some None` cells -/
structure Sim (t t' : T) : Prop where
  hooks : t.hooks = t'.hooks
  sources : t.sources = t'.sources
  targets : t.targets = t'.targets
  reads : t.reads = t'.reads
  writes : t.writes = t'.writes
  reader : t.reader = t'.reader
  panic : t.panic = t'.panic
  recv : RelM t.receives t'.receives

theorem sim_refl (t : T) : Sim t t := ⟨rfl, rfl, rfl, rfl, rfl, rfl, rfl, relM_refl _⟩

/-- related results: related tracers, the same replies -/
def SimR (r r' : T × List Ev) : Prop := Sim r.1 r'.1 ∧ r.2 = r'.2

theorem sim_read {t t' : T} (h : Sim t t') (r : Rid) (p : Pid) : Sim (read t r p) (read t' r p) :=
  ⟨h.hooks, h.sources, h.targets, by simp [read, h.reads], h.writes, by simp [read, h.reader], h.panic, h.recv⟩

theorem sim_link {t t' : T} (h : Sim t t') (p q : Pid) : Sim (link t p q) (link t' p q) := by
  unfold link
  split
  · exact h
  · exact ⟨h.hooks, by simp [h.sources], by simp [h.targets], h.reads, h.writes, h.reader, h.panic,
      relM_aset h.recv p (relC_append (relM_getL h.recv p) none)⟩

theorem sim_receive {t t' : T} (h : Sim t t') (p : Pid) (a : Ans) : Sim (receive t p a) (receive t' p a) :=
  ⟨h.hooks, h.sources, h.targets, h.reads, h.writes, h.reader, h.panic,
    relM_aset h.recv p (relC_fillFirst (relM_getL h.recv p) a)⟩

/-- the discard step against the empty answer, when the packet still has an open slot -/
theorem sim_discard {t t' : T} (h : Sim t t') (p : Pid) (hn : hasNil (getL t'.receives p) = true) :
    Sim (discard t p) (receive t' p .empty) := by
  have hr := relM_getL h.recv p
  have hn' : hasNil (getL t.receives p) = true := by rw [relC_hasNil hr]; exact hn
  unfold discard
  rw [if_pos hn']
  rcases relC_discard hr with h1 | h1
  · exact ⟨h.hooks, h.sources, h.targets, h.reads, h.writes, h.reader, h.panic, relM_aset h.recv p h1⟩
  · rw [hn] at h1; cases h1

theorem sim_flush (strict : Bool) (r : Rid) (ps : List Pid) : ∀ {t t' : T}, Sim t t' →
    (flush strict r ps t).1 = (flush strict r ps t').1 ∧ Sim (flush strict r ps t).2.1 (flush strict r ps t').2.1 ∧
    (flush strict r ps t).2.2 = (flush strict r ps t').2.2 := by
  induction ps with
  | nil => intro t t' h; exact ⟨rfl, h, rfl⟩
  | cons p ps ih =>
    intro t t' h
    have hstep : Sim { t with reader := adel t.reader p, receives := adel t.receives p }
        { t' with reader := adel t'.reader p, receives := adel t'.receives p } :=
      ⟨h.hooks, h.sources, h.targets, h.reads, h.writes, by simp [h.reader], h.panic, relM_adel h.recv p⟩
    rcases relM_aget h.recv p with ⟨h1, h2⟩ | ⟨cs, cs', h1, h2, h3⟩
    · simp only [flush, h1, h2]
      cases strict with
      | true => exact ⟨rfl, h, rfl⟩
      | false =>
        simp only [Bool.false_eq_true, if_false]
        obtain ⟨a, b, c⟩ := ih hstep
        exact ⟨a, b, by rw [c]⟩
    · simp only [flush, h1, h2]
      rw [relC_hasNil h3]
      split
      · exact ⟨rfl, h, rfl⟩
      · obtain ⟨a, b, c⟩ := ih hstep
        exact ⟨a, b, by rw [c, relC_join h3]⟩

theorem sim_fillSource {t t' : T} (h : Sim t t') (pck : Pid) (j : Ans) (s : Pid) :
    Sim (fillSource t pck j s) (fillSource t' pck j s) := by
  have et : getL t'.targets s = getL t.targets s := by rw [h.targets]
  unfold fillSource
  rcases relC_slot pck j (relM_getL h.recv s) (getL t.targets s) with ⟨h1, h2⟩ | ⟨r1, r1', t1, h1, h2, h3⟩
  · rw [et, h1, h2]
    exact ⟨h.hooks, h.sources, h.targets, h.reads, h.writes, h.reader, rfl, h.recv⟩
  · rw [et, h1, h2]
    refine ⟨h.hooks, h.sources, ?_, h.reads, h.writes, h.reader, h.panic, ?_⟩
    · show setOrDel t.targets s t1 = setOrDel t'.targets s t1
      rw [h.targets]
    · show RelM (match aget t.receives s with | some _ => aset t.receives s r1 | none => t.receives)
        (match aget t'.receives s with | some _ => aset t'.receives s r1' | none => t'.receives)
      rcases relM_aget h.recv s with ⟨g1, g2⟩ | ⟨cs, cs', g1, g2, _⟩
      · rw [g1, g2]; exact h.recv
      · rw [g1, g2]; exact relM_aset h.recv s h3

/-! ### `resolve` and the public calls preserve the relation and send the same replies -/

theorem sim_hookStep {t t' : T} (h : Sim t t') (pck : Pid) : SimR (hookStep t pck) (hookStep t' pck) := by
  unfold hookStep
  rw [← h.hooks]
  split
  · exact ⟨⟨by simp [h.hooks], h.sources, h.targets, h.reads, h.writes, h.reader, h.panic, relM_adel h.recv pck⟩,
      by simp [relC_join (relM_getL h.recv pck)]⟩
  · exact ⟨h, rfl⟩

theorem sim_tailStep (strict : Bool) {t t' : T} (h : Sim t t') (pck : Pid) (ev : List Ev) :
    SimR (tailStep strict t pck ev) (tailStep strict t' pck ev) := by
  have er : aget t'.reader pck = aget t.reader pck := by rw [h.reader]
  unfold tailStep
  rw [er]
  cases hr : aget t.reader pck with
  | none =>
    exact ⟨⟨h.hooks, h.sources, h.targets, h.reads, h.writes, h.reader, h.panic, relM_adel h.recv pck⟩, rfl⟩
  | some r =>
    simp only []
    have eg : getL t'.reads r = getL t.reads r := by rw [h.reads]
    rw [eg]
    obtain ⟨a, b, c⟩ := sim_flush strict r (getL t.reads r) h
    refine ⟨⟨b.hooks, b.sources, b.targets, ?_, b.writes, b.reader, b.panic, b.recv⟩, by rw [c]⟩
    show setOrDel (flush strict r (getL t.reads r) t).2.1.reads r (flush strict r (getL t.reads r) t).1 =
      setOrDel (flush strict r (getL t.reads r) t').2.1.reads r (flush strict r (getL t.reads r) t').1
    rw [a, b.reads]

theorem sim_resolve (strict : Bool) : ∀ (fuel : Nat) {t t' : T}, Sim t t' → ∀ p,
    SimR (resolve strict fuel t p) (resolve strict fuel t' p) := by
  intro fuel
  induction fuel with
  | zero => intro t t' h p; exact ⟨⟨h.hooks, h.sources, h.targets, h.reads, h.writes, h.reader, rfl, h.recv⟩, rfl⟩
  | succ n ih =>
    intro t t' h p
    have hfold : ∀ (srcs : List Pid) (j : Ans) (acc acc' : T × List Ev), SimR acc acc' →
        SimR (srcs.foldl (rstep strict n p j) acc) (srcs.foldl (rstep strict n p j) acc') := by
      intro srcs j
      induction srcs with
      | nil => intro acc acc' ha; exact ha
      | cons s ss ihs =>
        intro acc acc' ha
        simp only [List.foldl_cons]
        apply ihs
        obtain ⟨r1, r2⟩ := ih (sim_fillSource ha.1 p j s) s
        exact ⟨r1, by simp only [rstep]; rw [ha.2, r2]⟩
    have hsrc : ∀ {t1 t1' : T}, Sim t1 t1' → SimR (srcStep strict n t1 p) (srcStep strict n t1' p) := by
      intro t1 t1' h1
      unfold srcStep
      rw [← h1.sources]
      cases hs : aget t1.sources p with
      | none => exact ⟨h1, rfl⟩
      | some srcs =>
        simp only []
        rw [relC_join (relM_getL h1.recv p)]
        apply hfold
        exact ⟨⟨h1.hooks, by simp [h1.sources], h1.targets, h1.reads, h1.writes, h1.reader, h1.panic, h1.recv⟩, rfl⟩
    rw [resolve_succ, resolve_succ]
    have hn : hasNil (getL t.receives p) = hasNil (getL t'.receives p) := relC_hasNil (relM_getL h.recv p)
    rw [← hn]
    by_cases h1 : hasNil (getL t.receives p) = true
    · simp only [h1, if_true]; exact ⟨h, rfl⟩
    · simp only [h1, if_false]
      obtain ⟨k1, k2⟩ := sim_hookStep h p
      have hn2 : hasNil (getL (hookStep t p).1.receives p) = hasNil (getL (hookStep t' p).1.receives p) :=
        relC_hasNil (relM_getL k1.recv p)
      rw [← hn2]
      by_cases h2 : hasNil (getL (hookStep t p).1.receives p) = true
      · simp only [h2, if_true]; exact ⟨k1, k2⟩
      · simp only [h2, if_false]
        obtain ⟨s1, s2⟩ := hsrc k1
        rw [← k2, ← s2]
        exact sim_tailStep strict s1 p _

theorem sim_write {t t' : T} (h : Sim t t') (w : Option Wid) (p : Pid) (pay : Ans) (acc : Bool) :
    SimR (write true t w p pay acc) (write true t' w p pay acc) := by
  unfold write
  split
  · exact ⟨⟨h.hooks, h.sources, h.targets, h.reads, by simp [h.writes], h.reader, h.panic,
      relM_aset h.recv p (relC_append (relM_getL h.recv p) none)⟩, rfl⟩
  · exact sim_resolve true defaultFuel (sim_receive h p pay) p

theorem sim_receiveW {t t' : T} (h : Sim t t') (w : Wid) (a : Ans) :
    SimR (receiveW true t w (some a)) (receiveW true t' w (some a)) := by
  unfold receiveW
  rw [← h.writes]
  cases hq : getL t.writes w with
  | nil => exact ⟨h, rfl⟩
  | cons p rest =>
    simp only []
    apply sim_resolve true defaultFuel
    have h0 : Sim { t with writes := setOrDel t.writes w rest } { t' with writes := setOrDel t.writes w rest } :=
      ⟨h.hooks, h.sources, h.targets, h.reads, rfl, h.reader, h.panic, h.recv⟩
    exact sim_receive h0 p a

/-- **a discard against an answer with `None`** – when the packet the answer belongs to still has an
open slot (it always has in a state the abstract tracer describes) -/
theorem sim_discardW {t t' : T} (h : Sim t t') (w : Wid)
    (hn : ∀ p rest, getL t'.writes w = p :: rest → hasNil (getL t'.receives p) = true) :
    SimR (receiveW true t w none) (receiveW true t' w (some .empty)) := by
  unfold receiveW
  rw [← h.writes] at hn ⊢
  cases hq : getL t.writes w with
  | nil => exact ⟨h, rfl⟩
  | cons p rest =>
    simp only []
    apply sim_resolve true defaultFuel
    have h0 : Sim { t with writes := setOrDel t.writes w rest } { t' with writes := setOrDel t.writes w rest } :=
      ⟨h.hooks, h.sources, h.targets, h.reads, rfl, h.reader, h.panic, h.recv⟩
    exact sim_discard h0 p (hn p rest hq)

theorem sim_dropLoop (ps : List Pid) : ∀ {t t' : T}, Sim t t' → SimR (dropLoop true ps t) (dropLoop true ps t') := by
  induction ps with
  | nil => intro t t' h; exact ⟨h, rfl⟩
  | cons p ps ih =>
    intro t t' h
    simp only [dropLoop]
    obtain ⟨r1, r2⟩ := sim_resolve true defaultFuel (sim_receive h p Ans.dropped) p
    obtain ⟨q1, q2⟩ := ih r1
    exact ⟨q1, by rw [r2, q2]⟩

theorem sim_dropW {t t' : T} (h : Sim t t') (w : Wid) : SimR (dropW true t w) (dropW true t' w) := by
  unfold dropW
  rw [← h.writes]
  exact sim_dropLoop _ ⟨h.hooks, h.sources, h.targets, h.reads, rfl, h.reader, h.panic, h.recv⟩

end Uniflow.Tracer

namespace Uniflow.ATracer
open Uniflow.Tracer

theorem sim_dropAll (ws : List Wid) : ∀ {t t' : T}, Sim t t' → Sim (dropAll ws t) (dropAll ws t') := by
  induction ws with
  | nil => intro t t' h; exact h
  | cons w ws ih => intro t t' h; exact ih (sim_dropW h w).1

theorem sim_tcall {t t' : T} (h : Sim t t') (c : Call) : SimR (tcall t c) (tcall t' c) := by
  cases c with
  | read r p => exact ⟨sim_read h r p, rfl⟩
  | link p q => exact ⟨sim_link h p q, rfl⟩
  | write w k pay acc => exact sim_write h w k pay acc
  | answer w ans => exact sim_receiveW h w ans

/-- in a state the abstract tracer describes, the packet at the head of a writer's queue has exactly
one open slot -/
theorem head_has_slot (a : A) (t : T) (hr : TRel a t) (hi : Inv a) (w : Wid) (p : Pid) (rest : List Pid)
    (hq : getL t.writes w = p :: rest) : hasNil (getL t.receives p) = true := by
  have hw : getL a.wq w = p :: rest := by
    rw [getL_eq, ← hr.writes w, ← getL_eq]; exact hq
  have ho := hi.owed w p (by rw [hw]; simp)
  have := owed_recv a p w hi.nodup ho
  have hg : aget t.receives p = some [none] := by rw [hr.recv p, this]
  simp [getL, hg, hasNil]

end Uniflow.ATracer

/-! ### histories with discards -/

namespace C05tracer
open Uniflow.Tracer Uniflow.ATracer

/-- histories with discards, on the tracer model … -/
inductive DCall where
  | base (c : Call)
  | discard (w : Wid)

def tdcall (t : T) : DCall → T × List Ev
  | .base c => tcall t c
  | .discard w => receiveW true t w none

/-- … and what a discard means abstractly: the packet is answered with nothing (`packet.None`). -/
def adcall (a : A) : DCall → A × List Ev
  | .base c => acall a c
  | .discard w => aanswer a w .empty

def tdrun : T → List DCall → T × List Ev
  | t, [] => (t, [])
  | t, c :: cs => let r := tdcall t c; let r' := tdrun r.1 cs; (r'.1, r.2 ++ r'.2)

def adrun : A → List DCall → A × List Ev
  | a, [] => (a, [])
  | a, c :: cs => let r := adcall a c; let r' := adrun r.1 cs; (r'.1, r.2 ++ r'.2)

def DProtocol : A → List DCall → Prop
  | _, [] => True
  | a, .base c :: cs => Pre a c ∧ DProtocol (acall a c).1 cs
  | a, .discard w :: cs => DProtocol (aanswer a w .empty).1 cs

/-- the same history with every discard written as an answer with `None` -/
def shadow : List DCall → List Call
  | [] => []
  | .base c :: cs => c :: shadow cs
  | .discard w :: cs => .answer w .empty :: shadow cs

theorem adrun_shadow (cs : List DCall) : ∀ a, adrun a cs = arun a (shadow cs) := by
  induction cs with
  | nil => intro a; rfl
  | cons c cs ih =>
    intro a
    cases c with
    | base c => simp only [adrun, adcall, shadow, arun, ih]
    | discard w => simp only [adrun, adcall, shadow, arun, acall, ih]

theorem protocol_shadow (cs : List DCall) : ∀ a, DProtocol a cs → Protocol a (shadow cs) := by
  induction cs with
  | nil => intro a _; trivial
  | cons c cs ih =>
    intro a h
    cases c with
    | base c => exact ⟨h.1, ih _ h.2⟩
    | discard w => exact ⟨trivial, ih _ h⟩

/-- **The run with discards is simulated by the run in which every discard is an empty answer**:
related tracers (equal but for extra `some None` cells in rows of `receives`), the same replies. -/
theorem sim_run (cs : List DCall) : ∀ (a : A) (t t' : T), Sim t t' → TRel a t' → Inv a → DProtocol a cs →
    SimR (tdrun t cs) (trun t' (shadow cs)) := by
  induction cs with
  | nil => intro a t t' h _ _ _; exact ⟨h, rfl⟩
  | cons c cs ih =>
    intro a t t' h hr hi hp
    cases c with
    | base c =>
      obtain ⟨s1, s2⟩ := sim_tcall h c
      obtain ⟨_, g2, g3⟩ := call_refines a t' c hr hi hp.1
      obtain ⟨q1, q2⟩ := ih _ _ _ s1 g2 g3 hp.2
      exact ⟨q1, by simp only [tdrun, tdcall, shadow, trun]; rw [s2, q2]⟩
    | discard w =>
      obtain ⟨s1, s2⟩ := sim_discardW h w (fun p rest hq => head_has_slot a t' hr hi w p rest hq)
      obtain ⟨_, g2, g3⟩ := call_refines a t' (.answer w .empty) hr hi trivial
      obtain ⟨q1, q2⟩ := ih _ _ _ s1 g2 g3 hp
      exact ⟨q1, by simp only [tdrun, tdcall, shadow, trun, tcall]; rw [s2, q2]⟩

end C05tracer
