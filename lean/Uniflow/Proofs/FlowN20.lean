/-
C02, joint model, all node kinds, part 27: quiescence – every request has its response and the
executable reference equals the responses.
-/
import Uniflow.Proofs.FlowN19

namespace Uniflow.FlowN
open Uniflow.Tracer Uniflow.Node Uniflow.Flow Uniflow.FlowInv Uniflow.FlowG Uniflow.ATracer Uniflow.FlowH Uniflow.FlowM

/-- a node with an empty tracer and quiet threads holds nothing on any in-port -/
theorem jbm_quiet (nd : Node) (a : A) (nx : Nat) (h : JBm nd a nx)
    (hq : (isEmpty nd.tr && nd.threads.all threadQuiet) = true) (port : Nat) : heldN nd a port = [] := by
  simp only [Bool.and_eq_true] at hq
  obtain ⟨he, ht⟩ := hq
  have hinb : inboxOf nd port = [] := by
    simp only [inboxOf]
    cases hg : getThread nd.threads port with
    | none => rfl
    | some th =>
      have hm := getThread_mem _ _ _ hg
      have hqt := List.all_eq_true.mp ht th hm
      obtain ⟨inbox, pc⟩ := th
      cases inbox <;> cases pc <;> simp [threadQuiet] at hqt ⊢
  simp only [isEmpty, Bool.and_eq_true, List.isEmpty_iff] at he
  have hrd := h.j.trel.reads port
  rw [he.1.1.2] at hrd
  simp only [aget, NodeSpec.optL] at hrd
  have hro : readsOf a port = [] := by
    split at hrd
    · assumption
    · cases hrd
  simp only [readsOf] at hro
  simp [heldN, hinb, hro]

theorem HIe_quiescent (kinds : List Kind) (links : List (Nat × List Tgt)) (hwf : GraphWF5 kinds links) (g : G)
    (h : HIe kinds links g) (hq : quiescent g = true) :
    g.resp.length = g.roots.length ∧ All2 (fun p a => ∃ f, refAns g.log f p = some a) g.roots g.resp := by
  obtain ⟨aa, h⟩ := h
  simp only [quiescent, quiescentEmpty, Bool.and_eq_true] at hq
  obtain ⟨⟨hqn, hqs⟩, _⟩ := hq
  have hheld : ∀ t, heldDH D0 aa g.nodes g.sinks t = [] := by
    intro t
    cases t with
    | sink j => simp [heldDH, D0, heldAtH, all_getL g.sinks j hqs]
    | node m port =>
      simp only [heldDH, D0, heldAtH, List.map_nil, List.nil_append]
      cases hg : getNode g.nodes m with
      | none => rfl
      | some nd => exact jbm_quiet nd (aa m) g.next (h.jb m nd hg) (all_getNode _ g.nodes m nd hqn hg) port
  obtain ⟨qs, prs, e1, e2, _, e4, e5, e6, _⟩ := h.wk srcKey hwf.src
  rw [h.srcq] at e2
  have hqs0 : qs = [] := by cases qs with | nil => rfl | cons _ _ => simp [All2] at e2
  have hprs : prs = [] := by
    cases prs with
    | nil => rfl
    | cons r tl =>
      exfalso
      obtain ⟨x, c, hx⟩ := pend_of_hasNil r.cells (e6 r List.mem_cons_self)
      have hxl : x < r.cells.length := by
        rcases Nat.lt_or_ge x r.cells.length with h1 | h1
        · exact h1
        · rw [List.getElem?_eq_none h1] at hx; simp [cellPend] at hx
      rw [(e4 r List.mem_cons_self).2.2.2.1] at hxl
      have ht : (getL links srcKey)[x]? = some (getL links srcKey)[x] := List.getElem?_eq_getElem hxl
      have := e5 x _ ht
      simp only [hbOfH, hheld, selK_nil] at this
      have hm : c ∈ colPend x (r :: tl) := by
        simp only [colPend, List.filterMap_cons, hx]; exact List.mem_cons_self
      rw [← this] at hm; simp at hm
  rw [hqs0, hprs, pendH_src] at e1
  have hlen : g.roots.length ≤ g.resp.length := by
    have := congrArg List.length e1
    simp only [List.length_drop, List.append_nil, List.length_nil, List.map_nil] at this
    omega
  have heq : g.resp.length = g.roots.length := Nat.le_antisymm h.respOK.1 hlen
  refine ⟨heq, ?_⟩
  have := h.respOK.2
  rw [heq, List.take_length] at this
  exact this

/-- class T5, quiescence: the executable reference IS the list of responses -/
theorem HIe_quiescent_ref_eq (kinds : List Kind) (links : List (Nat × List Tgt)) (hwf : GraphWF5 kinds links) (g : G)
    (h : HIe kinds links g) (hq : quiescent g = true) : refAnswers g = some g.resp := by
  obtain ⟨_, h2⟩ := HIe_quiescent kinds links hwf g h hq
  obtain ⟨aa, hh⟩ := h
  have ho := hh.logOrd
  have hr := hh.rootsB
  apply allSome_of_all2
  have : ∀ (ps : List Pid) (as : List Ans), (∀ r ∈ ps, r < g.next) →
      All2 (fun p a => ∃ f, refAns g.log f p = some a) ps as →
      All2 (fun p a => refAns g.log (g.next + 1) p = some a) ps as := by
    intro ps
    induction ps with
    | nil => intro as _ h; cases as with | nil => trivial | cons _ _ => simp [All2] at h
    | cons p ps ih =>
      intro as hb h
      cases as with
      | nil => simp [All2] at h
      | cons a as =>
        obtain ⟨⟨f, hf⟩, h'⟩ := h
        refine ⟨?_, ih as (fun r hr => hb r (List.mem_cons_of_mem _ hr)) h'⟩
        have hp := hb p (by simp)
        have h3 : @HSub.hSub Nat Nat Nat _ g.next p + 1 ≤ @HAdd.hAdd Nat Nat Nat _ g.next 1 := by omega
        exact refAns_fuel_ge g.log p a _ _ (refAns_fuel_bound g.log g.next ho f p a hp hf) h3
  exact this g.roots g.resp hr h2

end Uniflow.FlowN
