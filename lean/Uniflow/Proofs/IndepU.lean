/-
Index independence in the presence of unique indexes (Props/C11.lean `find_index_independent_unique`): the `Index` /
`Unindex` operations of a history that cannot touch a unique constraint – non-unique `Index` and `Unindex` over keys that
no unique `Index` of the history (nor the built-in one on `id`) is declared over – may be interleaved anywhere or left
out without changing any answer or the stored documents. Core Lean only.
-/
import Uniflow.Proofs.RefineU

namespace Uniflow.Index
open Uniflow.Value Uniflow.Store Uniflow.Plan Uniflow.Query Uniflow.RefStore Uniflow.RefStoreU

/-- the key lists of the unique `Index` operations of a history -/
def uniqueKeysOf (ops : List Op) : List (List Val) :=
  ops.filterMap fun op => match op with | .index k true _ => some k | _ => none

/-- no constraint over the key lists `H` (nor the built-in one) is declared over `keys` -/
def freeKeys (H : List (List Val)) (keys : List Val) : Bool :=
  !keysEq [keyId] keys && H.all fun k => !keysEq k keys

/-- an index operation that cannot touch a unique constraint -/
def inertH (H : List (List Val)) : Op → Bool
  | .index keys false _ => freeKeys H keys
  | .unindex keys => freeKeys H keys
  | _ => false

/-- relative to its own history -/
def inert (ops : List Op) (op : Op) : Bool := inertH (uniqueKeysOf ops) op

/-- the history without its inert index operations -/
def effOps (ops : List Op) : List Op := ops.filter fun op => !inert ops op

/-! ### the reference store ignores inert operations -/

def UniqFrom (H : List (List Val)) (r : RState) : Prop := ∀ c ∈ r.uniq, c.keys = [keyId] ∨ c.keys ∈ H

theorem filter_free {H : List (List Val)} {r : RState} (h : UniqFrom H r) {keys : List Val} (hf : freeKeys H keys = true) :
    (r.uniq.filter fun x => !keysEq x.keys keys) = r.uniq := by
  rw [List.filter_eq_self]
  intro c hc
  simp only [freeKeys, Bool.and_eq_true, Bool.not_eq_true', List.all_eq_true] at hf
  rcases h c hc with hk | hk
  · rw [hk]; simp [hf.1]
  · simpa using hf.2 _ hk

theorem uStep_inert {H : List (List Val)} {r : RState} (h : UniqFrom H r) {op : Op} (hi : inertH H op = true) :
    (uStep r op).1 = r := by
  cases op with
  | index keys u f =>
    cases u with
    | true => simp [inertH] at hi
    | false =>
      simp only [inertH] at hi
      simp only [uStep, uIndex, Bool.false_and, Bool.false_eq_true, if_false, List.append_nil, filter_free h hi]
  | unindex keys =>
    simp only [inertH] at hi
    simp only [uStep, uUnindex, filter_free h hi]
  | _ => simp [inertH] at hi

theorem uInsertOne_uniq (r : RState) (d : PList) : (uInsertOne r d).1.uniq = r.uniq := by
  unfold uInsertOne
  simp only
  split
  · rfl
  · split
    · rfl
    · split <;> rfl

theorem uReplaceOne_uniq (r : RState) (d : PList) : (uReplaceOne r d).1.uniq = r.uniq := by
  unfold uReplaceOne
  simp only
  split
  · rfl
  · split
    · rfl
    · split <;> rfl

theorem uInsert_uniq : ∀ (ds : List PList) (r : RState), (uInsert r ds).1.uniq = r.uniq
  | [], _ => rfl
  | d :: ds, r => by
    simp only [uInsert]
    have h1 := uInsertOne_uniq r d
    cases hr : uInsertOne r d with
    | mk a e =>
      rw [hr] at h1
      cases e with
      | none => simp only; rw [uInsert_uniq ds a]; exact h1
      | some x => exact h1

theorem uReplaceAll_uniq : ∀ (ds : List PList) (r : RState), (uReplaceAll r ds).1.uniq = r.uniq
  | [], _ => rfl
  | d :: ds, r => by
    simp only [uReplaceAll]
    have h1 := uReplaceOne_uniq r d
    cases hr : uReplaceOne r d with
    | mk a e =>
      rw [hr] at h1
      cases e with
      | none => simp only; rw [uReplaceAll_uniq ds a]; exact h1
      | some x => exact h1

theorem uRemoveAll_uniq : ∀ (ds : List PList) (r : RState), (uRemoveAll r ds).1.uniq = r.uniq
  | [], _ => rfl
  | d :: ds, r => by
    simp only [uRemoveAll]
    have h1 : (uRemoveOne r (mget d keyId)).1.uniq = r.uniq := by unfold uRemoveOne; split <;> rfl
    cases hr : uRemoveOne r (mget d keyId) with
    | mk a e =>
      rw [hr] at h1
      cases e with
      | none => simp only; rw [uRemoveAll_uniq ds a]; exact h1
      | some x => exact h1

theorem liftU_state (m : RState × Option (Res Unit)) (n : Nat) : (liftU m n).1 = m.1 := by
  unfold liftU; split <;> rfl

theorem uUpdate_uniq (r : RState) (f : Option Val) (u : PList) (up : Bool) : (uUpdate r f u up).1.uniq = r.uniq := by
  unfold uUpdate
  repeat' split
  all_goals first
    | rfl
    | (rw [liftU_state]; first | exact uReplaceAll_uniq _ r | exact uInsertOne_uniq r _)

theorem uDelete_uniq (r : RState) (f : Option Val) : (uDelete r f).1.uniq = r.uniq := by
  unfold uDelete
  split
  · rfl
  · rfl
  · rw [liftU_state]; exact uRemoveAll_uniq _ r

theorem UniqFrom_step {H : List (List Val)} {r : RState} (h : UniqFrom H r) {op : Op}
    (hop : ∀ k f, op = .index k true f → k ∈ H) : UniqFrom H (uStep r op).1 := by
  cases op with
  | insert ds => intro c hc; simp only [uStep] at hc; rw [uInsert_uniq] at hc; exact h c hc
  | update f u up => intro c hc; simp only [uStep] at hc; rw [uUpdate_uniq] at hc; exact h c hc
  | delete f => intro c hc; simp only [uStep] at hc; rw [uDelete_uniq] at hc; exact h c hc
  | find f sort skip limit => intro c hc; simp only [uStep] at hc; split at hc <;> exact h c hc
  | index keys u f =>
    intro c hc
    simp only [uStep, uIndex] at hc
    split at hc
    · exact h c hc
    · simp only [List.mem_append, List.mem_filter] at hc
      rcases hc with hc | hc
      · exact h c hc.1
      · cases u with
        | false => simp at hc
        | true => simp at hc; subst hc; exact Or.inr (hop keys f rfl)
  | unindex keys =>
    intro c hc
    simp only [uStep, uUnindex, List.mem_filter] at hc
    exact h c hc.1

/-- answers of the operations that are not skipped -/
def uOutsSkip (sk : Op → Bool) (r : RState) : List Op → List Out
  | [] => []
  | op :: ops => if sk op then uOutsSkip sk (uStep r op).1 ops else (uStep r op).2 :: uOutsSkip sk (uStep r op).1 ops

theorem uRun_skip {H : List (List Val)} (sk : Op → Bool) : ∀ (ops : List Op) (r : RState), UniqFrom H r →
    (∀ op ∈ ops, sk op = true → inertH H op = true) → (∀ op ∈ ops, ∀ k f, op = .index k true f → k ∈ H) →
    uOutsSkip sk r ops = uOuts r (ops.filter fun op => !sk op) ∧ uRun r ops = uRun r (ops.filter fun op => !sk op)
  | [], _, _, _, _ => ⟨rfl, rfl⟩
  | op :: ops, r, h, hsk, hidx => by
    have hrest := fun r' (h' : UniqFrom H r') => uRun_skip sk ops r' h' (fun o ho => hsk o (by simp [ho]))
      (fun o ho => hidx o (by simp [ho]))
    cases hs : sk op with
    | true =>
      have hin := uStep_inert h (hsk op (by simp) hs)
      simp only [uOutsSkip, hs, if_true, uRun, List.filter_cons, Bool.not_true, Bool.false_eq_true, if_false, hin]
      exact hrest r h
    | false =>
      have h' := UniqFrom_step h (hidx op (by simp))
      simp only [uOutsSkip, hs, Bool.false_eq_true, if_false, uRun, List.filter_cons, Bool.not_false, if_true, uOuts]
      have := hrest _ h'
      rw [this.1, this.2]
      exact ⟨rfl, rfl⟩

/-! ### the model -/

/-- the model's answers of the operations that are not skipped -/
def outsSkip (sk : Op → Bool) (s : State) : List Op → List Out
  | [] => []
  | op :: ops => if sk op then outsSkip sk (step s op).1 ops else (step s op).2 :: outsSkip sk (step s op).1 ops

theorem outsSkip_ref (sk : Op → Bool) : ∀ (ops : List Op) {s : State}, InvU s → (∀ op ∈ ops, GoodOpU op) →
    outsSkip sk s ops = uOutsSkip sk (absOf s) ops
  | [], _, _, _ => rfl
  | op :: ops, s, h, hops => by
    have hs := step_refU h (hops op (by simp))
    have := outsSkip_ref sk ops (InvU_step h (hops op (by simp))) (fun o ho => hops o (by simp [ho]))
    simp only [outsSkip, uOutsSkip]
    rw [hs.1, this, hs.2]

theorem mem_uniqueKeysOf {ops : List Op} {k : List Val} {f : Option Val} (h : Op.index k true f ∈ ops) :
    k ∈ uniqueKeysOf ops := by
  unfold uniqueKeysOf
  rw [List.mem_filterMap]
  exact ⟨_, h, rfl⟩

/-- a history answers its effective operations, and stores documents, like the history without its inert operations -/
theorem run_eff (ops : List Op) (hops : ∀ op ∈ ops, GoodOpU op) :
    outsSkip (inert ops) init ops = uOuts rInit (effOps ops) ∧ absOf (run init ops) = uRun rInit (effOps ops) := by
  have h1 := outsSkip_ref (inert ops) ops InvU_init hops
  have h2 := (run_refU ops InvU_init hops).2
  rw [absOf_init] at h1 h2
  have hu : UniqFrom (uniqueKeysOf ops) rInit := by
    intro c hc; simp [rInit] at hc; subst hc; exact Or.inl rfl
  have := uRun_skip (H := uniqueKeysOf ops) (inert ops) ops rInit hu (fun op _ h => h)
    (fun op hop k f he => by subst he; exact mem_uniqueKeysOf hop)
  rw [h1, h2]
  exact this

end Uniflow.Index
