/-
C02, joint model: `Write` copies – the packet a reader's node is handed has an id that no live tracer
entry of that node uses (class T1, from the invariant `FI`).
-/
import Uniflow.Proofs.FlowInv14

namespace Uniflow.FlowInv
open Uniflow.Tracer Uniflow.Node Uniflow.Flow
open Uniflow.NodeSpec (S EReq ESt Cur Rel curRead writesOf allIds)

/-- a node that refines its spec state with all ids below `nx` has no tracer entry keyed by an id ≥ `nx` -/
theorem rel_fresh (s : S) (nd : Node) (nx : Nat) (hr : Rel s nd nx) (k : Pid) (hk : nx ≤ k) :
    aget nd.tr.receives k = none ∧ aget nd.tr.reader k = none ∧ aget nd.tr.sources k = none ∧
    aget nd.tr.targets k = none := by
  have hnot : k ∉ allIds s := fun hm => Nat.lt_irrefl _ (Nat.lt_of_lt_of_le (hr.bound k hm) hk)
  simp only [allIds, List.mem_append, not_or] at hnot
  have h1 := NodeSpec.infoL_none s.reqs k hnot.1.1
  have h2 := NodeSpec.infoC_none s.cur k hnot.1.2
  have hi : NodeSpec.info s k = {} := by simp only [NodeSpec.info, h1, h2]
  refine ⟨?_, ?_, ?_, ?_⟩
  · rw [hr.trel.recv k, hi]
  · rw [hr.trel.rdr k, hi]
  · rw [hr.trel.src k, hi]
  · rw [hr.trel.tgt k, hi]

theorem FIe_fresh (N : Nat) (links : List (Nat × List Tgt)) (g : G) (h : FIe N links g) (n : Nat) (nd : Node)
    (hn : getNode g.nodes n = some nd) (k : Pid) (hk : g.next ≤ k) :
    aget nd.tr.receives k = none ∧ aget nd.tr.reader k = none ∧ aget nd.tr.sources k = none ∧
    aget nd.tr.targets k = none := by
  obtain ⟨ss, h⟩ := h
  exact rel_fresh (ss n) nd g.next (h.rel n nd hn) k hk

/-- `deliver` hands the node behind the reader the packet with id `g.next` -/
theorem deliver_node (g : G) (key : Nat) (v : Val) (m port : Nat) (nd nd' : Node) (ev : List Ev)
    (hn : getNode g.nodes m = some nd) (hs : Node.step nd (.deliver port ⟨g.next, v⟩) = some (nd', ev)) :
    getNode (deliver g key v (.node m port)).nodes m = some nd' ∧ (deliver g key v (.node m port)).next = g.next + 1 := by
  simp only [deliver, hn, hs]
  rw [getNode_setNode g.nodes m m nd' (by rw [hn]; rfl)]; simp

end Uniflow.FlowInv
