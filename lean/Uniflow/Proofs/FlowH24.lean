/-
C02, joint model, one-in-port node kinds, part 24: the action running in a node returns its derived packets.
-/
import Uniflow.Proofs.FlowH23

namespace Uniflow.FlowH
open Uniflow.Tracer Uniflow.Node Uniflow.Flow Uniflow.FlowInv Uniflow.FlowG Uniflow.ATracer
open Uniflow.ATracer (getL_setOrDel getL_aset)

theorem updA_self (aa : Nat → A) (n : Nat) : updA aa n (aa n) = aa := by
  funext m; simp only [updA]; split
  · rename_i e; rw [e]
  · rfl

theorem HI_finish (kinds : List Kind) (links : List (Nat × List Tgt)) (hwf : GraphWF3 kinds links) (aa : Nat → A) (g : G)
    (h : HI kinds links aa D0 g) (n : Nat) (nd : Node) (p : Pkt) (grp inbox : List Pkt)
    (hn : getNode g.nodes n = some nd) (ht : nd.threads = [{ inbox := inbox, pc := .action p grp }])
    (o : Outcome) (nx : Nat) (ops : List Op) (hp : program nd.kind p o = some ops) (hne : linkTargets ops ≠ [])
    (hnd : (introS (.finish 0 o)).Nodup) (hfr : ∀ k ∈ introS (.finish 0 o), g.next ≤ k ∧ k < nx) (hle : g.next ≤ nx) :
    ∃ nd', Node.step nd (.finish 0 o) = some (nd', []) ∧ (writeIds ops).filter (fun q => q != p.id) = linkTargets ops ∧
      HI kinds links aa D0
        { g with nodes := setNode g.nodes n nd', next := nx,
                 log := { g.log with acts := aset g.log.acts p.id (linkTargets ops),
                                     owner := (linkTargets ops).foldl (fun m q => aset m q (qTag n)) g.log.owner } } := by
  have hN := hwf.small
  have hjb := h.jb n nd hn
  have hnl := h.nl n nd _ hn ht
  have hnN : n < kinds.length := (h.nodesLen n).mp (by rw [hn]; rfl)
  obtain ⟨lk, wr, hops, hwr, hwb⟩ := program_mk nd.kind p o ops (h.kindOK n nd hn) hp hne
  have hlt : linkTargets ops = lk := by rw [hops, linkTargets_mkOps]
  have hg : getThread nd.threads 0 = some { inbox := inbox, pc := .action p grp } := by rw [ht]; rfl
  have hX : (⟨p.id, 0, .cells []⟩ : Req) ∈ (aa n).reqs := by have := hjb.j.th 0 _ hg; simpa [ThOK] using this
  obtain ⟨_, hsub⟩ := program_ok nd.kind p o ops 0 0 (aa n).reqs hp hX
  obtain ⟨hst, hjb'⟩ := jb_finish nd (aa n) g.next nx hjb p grp inbox ht o ops hp hnd hfr hle
  have hpi : p.id ∈ ids (aa n).reqs := mem_ids_of_mem hX (by simp [idsR])
  have hplt : p.id < g.next := hjb.bnd p.id (List.mem_append_left _ hpi)
  have hlkb : ∀ t ∈ linkTargets ops, g.next ≤ t ∧ t < nx := fun t ht' => hfr t (hsub.subset ht')
  have hdis := jb_disj nd (aa n) g.next hjb _ ht p.id hpi
  -- the request is still unlogged
  have hpU : Unlogged g.log p.id := req_unlogged g.log n _ (aa n) p.id hnl hX rfl
  let lg' : Log := { g.log with acts := aset g.log.acts p.id (linkTargets ops),
                                owner := (linkTargets ops).foldl (fun m q => aset m q (qTag n)) g.log.owner }
  have hx : LogExt g.log lg' p.id := by
    refine ⟨hpU, fun x hxne => ⟨?_, rfl, rfl, rfl⟩⟩
    show aget (aset g.log.acts p.id _) x = _
    rw [aget_aset]; simp [hxne]
  have hownO : ∀ id, id < g.next → aget lg'.owner id = aget g.log.owner id := by
    intro id hid
    show aget ((linkTargets ops).foldl _ _) id = _
    apply foldl_owner_other
    intro hm
    exact Nat.lt_irrefl _ (Nat.lt_of_lt_of_le hid (hlkb id hm).1)
  have hfilt : (writeIds ops).filter (fun q => q != p.id) = linkTargets ops := by
    rw [hlt, hops, writeIds_mkOps, hwr]
    apply List.filter_eq_self.mpr
    intro q hq
    rw [← hlt] at hq
    have := (hlkb q hq).1
    simp only [bne_iff_ne, ne_eq]
    intro e; rw [e] at this; exact Nat.lt_irrefl _ (Nat.lt_of_lt_of_le hplt this)
  obtain ⟨hr1, hr2⟩ := remOps_mkOps p.id lk wr
  have hts := tag_sep n (Nat.lt_of_lt_of_le hnN hN)
  refine ⟨_, hst, hfilt, ?_⟩
  have key := HI_node_step kinds links aa D0 g h n nd
    { nd with threads := [{ inbox := inbox, pc := .emit ops }] } (aa n) lg' nx p.id hn rfl hjb'
    (by
      intro th hth
      simp only [List.cons.injEq, and_true] at hth
      subst hth
      apply nl_finish g.log lg' n (aa n) p grp inbox ops hnl hjb.j.inv.nodup hX
      · intro q hq e
        exact hdis (by simp only [tids, List.mem_append, List.mem_map]; left; exact ⟨q, hq, e⟩)
      · rw [hops, hr1, linkTargets_mkOps]
      · intro p' hp'; rw [hops]; exact hr2 p' hp'
      · exact hne
      · rw [hops]; exact wOK_mkOps p.id lk wr hwb
      · exact hx
      · show aget (aset g.log.acts p.id _) p.id = _
        rw [aget_aset]; simp [optl, hne]
      · exact hpU.2.2.1
      · exact hpU.2.2.2
      · exact hpU.2.1
      · intro t ht'
        have hb := hlkb t ht'
        refine ⟨unlogged_ext g.log lg' p.id hx t (fun e => by rw [e] at hb; exact Nat.lt_irrefl _ (Nat.lt_of_lt_of_le hplt hb.1))
          (h.logBound t hb.1), ?_⟩
        show aget ((linkTargets ops).foldl _ _) t = _
        exact foldl_owner_mem _ _ _ t ht'
      · intro id hid
        apply hownO id
        apply hjb.bnd id
        have := nlIds_sub _ (aa n) id hid
        rw [ht]; simpa using this)
    hle
    (by rw [heldN_of _ (aa n) { inbox := inbox, pc := .emit ops } rfl, heldN_of nd (aa n) _ ht])
    (fun _ => rfl) hx hownO
    (by
      intro id hid
      exact unlogged_ext g.log lg' p.id hx id
        (fun e => by rw [e] at hid; exact Nat.lt_irrefl _ (Nat.lt_of_lt_of_le hplt (Nat.le_trans hle hid)))
        (h.logBound id (Nat.le_trans hle hid)))
    (Or.inr ⟨n * 64, hnl.own _ hX, hts.2.2.1, hts.2.2.2⟩)
    (by
      refine ⟨fun cs hcs => ?_, fun qs hqs => ?_⟩
      · have : aget lg'.dels p.id = none := hpU.2.1
        rw [this] at hcs; cases hcs
      · have : aget lg'.acts p.id = some (linkTargets ops) := by
          show aget (aset g.log.acts p.id _) p.id = _; rw [aget_aset]; simp
        rw [this] at hqs
        simp only [Option.some.injEq] at hqs
        subst hqs
        intro q hq
        exact ⟨Nat.lt_of_lt_of_le hplt (hlkb q hq).1, (hlkb q hq).2⟩)
  rw [updA_self] at key
  exact HI_congr kinds links _ D0 _ _ key rfl rfl rfl rfl rfl rfl rfl rfl rfl

end Uniflow.FlowH
