/-
C02, joint model: the global invariant `FI` of `Uniflow.Flow` for workflows of one-to-one nodes in
which every writer has at most one linked reader and every reader exactly one feeding writer
(trees: out / error branches, sinks, unconnected outputs), with any number of pipelined requests.

Per node the tracer is abstracted by the one-to-one specification state `NodeSpec.S` (`Rel`).
* per writer: the packets written to it and not yet answered to its node (`written q w` of the node,
  resp. the source's unanswered requests) = queued answers' packets ++ pending rows' packets; a queued
  answer is the reference answer of its packet; each pending row is `[none]` and its packet's copy is
  the corresponding request held by the linked reader (debt ++ held, in order); the reader's FIFO of
  feeding writers has one entry per held request;
* per node: a completed request holds its reference answer; the logged derivation of every request in
  progress; packets not yet logged are `Unlogged`; `owner` tags give distinctness across containers;
* `D` (debt): replies already emitted by a node (or a sink) whose routing to the writer is pending.
-/
import Uniflow.Proofs.Flow

namespace Uniflow.FlowInv
open Uniflow.Tracer Uniflow.Node Uniflow.Flow
open Uniflow.NodeSpec (S EReq ESt Cur Rel curRead writesOf allIds)

def RA (lg : Log) (p : Pid) (a : Ans) : Prop := ∃ f, refAns lg f p = some a

def All2 {α β : Type} (P : α → β → Prop) : List α → List β → Prop
  | [], [] => True
  | x :: xs, y :: ys => P x y ∧ All2 P xs ys
  | _, _ => False

theorem all2_length {α β : Type} (P : α → β → Prop) : ∀ (l1 : List α) (l2 : List β), All2 P l1 l2 → l1.length = l2.length
  | [], [], _ => rfl
  | x :: xs, y :: ys, h => by simp [all2_length P xs ys h.2]
  | [], _ :: _, h => absurd h (by simp [All2])
  | _ :: _, [], h => absurd h (by simp [All2])

theorem all2_append {α β : Type} (P : α → β → Prop) : ∀ (l1 : List α) (l2 : List β) (x : α) (y : β),
    All2 P l1 l2 → P x y → All2 P (l1 ++ [x]) (l2 ++ [y])
  | [], [], x, y, _, h => ⟨h, trivial⟩
  | a :: as, b :: bs, x, y, h, hxy => ⟨h.1, all2_append P as bs x y h.2 hxy⟩
  | [], _ :: _, _, _, h, _ => absurd h (by simp [All2])
  | _ :: _, [], _, _, h, _ => absurd h (by simp [All2])

theorem all2_mono {α β : Type} (P Q : α → β → Prop) (hpq : ∀ x y, P x y → Q x y) :
    ∀ (l1 : List α) (l2 : List β), All2 P l1 l2 → All2 Q l1 l2
  | [], [], _ => trivial
  | x :: xs, y :: ys, h => ⟨hpq x y h.1, all2_mono P Q hpq xs ys h.2⟩
  | [], _ :: _, h => absurd h (by simp [All2])
  | _ :: _, [], h => absurd h (by simp [All2])

/-- the copy `c` of written packet `q` was handed to the one linked reader -/
def WLogged (lg : Log) (q c : Pid) : Prop :=
  aget lg.echo q = none ∧ aget lg.sinkAns q = none ∧ aget lg.dels q = some [c]

/-- the action derived exactly packet `q` from request `p` -/
def ReqLogged (lg : Log) (p q : Pid) : Prop :=
  aget lg.echo p = none ∧ aget lg.sinkAns p = none ∧ aget lg.dels p = none ∧ aget lg.acts p = some [q]

theorem ra_of_wlogged (lg : Log) (q c : Pid) (a : Ans) (h : WLogged lg q c) (hc : RA lg c a) : RA lg q a := by
  obtain ⟨f, hf⟩ := hc
  exact ⟨f + 1, by simp [refAns, h.1, h.2.1, h.2.2, allSome, hf, join]⟩

theorem ra_of_reqlogged (lg : Log) (p q : Pid) (a : Ans) (h : ReqLogged lg p q) (hq : RA lg q a) : RA lg p a := by
  obtain ⟨f, hf⟩ := hq
  exact ⟨f + 1, by simp [refAns, h.1, h.2.1, h.2.2.1, h.2.2.2, allSome, hf, join]⟩

theorem ra_echo (lg : Log) (q : Pid) (v : Val) (h : aget lg.echo q = some v) : RA lg q (.pay v) :=
  ⟨1, by simp [refAns, h]⟩

theorem ra_sink (lg : Log) (c : Pid) (a : Ans) (h1 : aget lg.echo c = none) (h2 : aget lg.sinkAns c = some a) :
    RA lg c a := ⟨1, by simp [refAns, h1, h2]⟩

/-! ### extending the log -/

theorem ra_ext (lg lg' : Log) (k : Pid) (hx : LogExt lg lg' k) (p : Pid) (a : Ans) (h : RA lg p a) : RA lg' p a := by
  obtain ⟨f, hf⟩ := h; exact ⟨f, refAns_log_mono lg lg' k hx f p a hf⟩

theorem wlogged_ext (lg lg' : Log) (k : Pid) (hx : LogExt lg lg' k) (q c : Pid) (h : WLogged lg q c) :
    WLogged lg' q c := by
  have hne : q ≠ k := by intro e; subst e; have := hx.1.2.1; rw [h.2.2] at this; cases this
  obtain ⟨_, s2, s3, s4⟩ := hx.2 q hne
  exact ⟨by rw [s3]; exact h.1, by rw [s4]; exact h.2.1, by rw [s2]; exact h.2.2⟩

theorem reqlogged_ext (lg lg' : Log) (k : Pid) (hx : LogExt lg lg' k) (p q : Pid) (h : ReqLogged lg p q) :
    ReqLogged lg' p q := by
  have hne : p ≠ k := by intro e; subst e; have := hx.1.1; rw [h.2.2.2] at this; cases this
  obtain ⟨s1, s2, s3, s4⟩ := hx.2 p hne
  exact ⟨by rw [s3]; exact h.1, by rw [s4]; exact h.2.1, by rw [s2]; exact h.2.2.1, by rw [s1]; exact h.2.2.2⟩

theorem unlogged_ext (lg lg' : Log) (k : Pid) (hx : LogExt lg lg' k) (x : Pid) (hne : x ≠ k) (h : Unlogged lg x) :
    Unlogged lg' x := by
  obtain ⟨s1, s2, s3, s4⟩ := hx.2 x hne
  exact ⟨by rw [s1]; exact h.1, by rw [s2]; exact h.2.1, by rw [s3]; exact h.2.2.1, by rw [s4]; exact h.2.2.2⟩

/-- `owner` is not read by `refAns` -/
theorem refAns_owner (lg : Log) (o : List (Pid × Nat)) (f : Nat) : ∀ p, refAns { lg with owner := o } f p = refAns lg f p := by
  induction f with
  | zero => intro p; rfl
  | succ f ih =>
    intro p
    simp only [refAns]
    have : (fun q => refAns { lg with owner := o } f q) = fun q => refAns lg f q := funext ih
    simp only [this]

/-! ### the static shape: trees of one-to-one nodes -/

/-- the ghost derivation tree is ordered: the copies of a write and the packets an action derives have
ids larger than their parent's and smaller than `nx` -/
def LogOrd (lg : Log) (nx : Nat) : Prop :=
  (∀ p cs, aget lg.dels p = some cs → ∀ c ∈ cs, p < c ∧ c < nx) ∧
  (∀ p qs, aget lg.acts p = some qs → ∀ q ∈ qs, p < q ∧ q < nx)

/-- the entries of the one key that changes are ordered -/
def OrdAt (lg : Log) (k : Pid) (nx : Nat) : Prop :=
  (∀ cs, aget lg.dels k = some cs → ∀ c ∈ cs, k < c ∧ c < nx) ∧
  (∀ qs, aget lg.acts k = some qs → ∀ q ∈ qs, k < q ∧ q < nx)

theorem ordAt_none (lg : Log) (k : Pid) (nx : Nat) (h1 : aget lg.dels k = none) (h2 : aget lg.acts k = none) :
    OrdAt lg k nx :=
  ⟨fun cs h => (by rw [h1] at h; cases h), fun qs h => (by rw [h2] at h; cases h)⟩

theorem ordAt_dels_single (lg : Log) (k c : Pid) (nx : Nat) (hd : aget lg.dels k = some [c])
    (ha : aget lg.acts k = none) (h1 : k < c) (h2 : c < nx) : OrdAt lg k nx := by
  refine ⟨fun cs h => ?_, fun qs h => (by rw [ha] at h; cases h)⟩
  rw [hd] at h
  simp only [Option.some.injEq] at h
  subst h
  intro c' hc'
  simp only [List.mem_singleton] at hc'
  subst hc'
  exact ⟨h1, h2⟩

theorem logOrd_ext (lg lg' : Log) (k : Pid) (nx nx' : Nat) (ho : LogOrd lg nx) (hx : LogExt lg lg' k)
    (hle : nx ≤ nx') (hk : OrdAt lg' k nx') : LogOrd lg' nx' := by
  constructor
  · intro p cs hp c hc
    by_cases e : p = k
    · subst e; exact hk.1 cs hp c hc
    · rw [(hx.2 p e).2.1] at hp
      exact ⟨(ho.1 p cs hp c hc).1, Nat.lt_of_lt_of_le (ho.1 p cs hp c hc).2 hle⟩
  · intro p qs hp q hq
    by_cases e : p = k
    · subst e; exact hk.2 qs hp q hq
    · rw [(hx.2 p e).1] at hp
      exact ⟨(ho.2 p qs hp q hq).1, Nat.lt_of_lt_of_le (ho.2 p qs hp q hq).2 hle⟩

structure TreeWF (N : Nat) (links : List (Nat × List Tgt)) : Prop where
  small : N ≤ 1000
  single : ∀ key, (getL links key).length ≤ 1
  tnode : ∀ key m port, Tgt.node m port ∈ getL links key → m < N ∧ port = 0
  feeder : ∀ key key' t t', t ∈ getL links key → t' ∈ getL links key' → rkeyOf t = rkeyOf t' → key = key'
  src : getL links srcKey ≠ []
  keys : ∀ key, getL links key ≠ [] → key = srcKey ∨ ∃ n w, n < N ∧ w < 2 ∧ key = wkey n w
  fwd : ∀ n w m port, n < N → w < 2 → Tgt.node m port ∈ getL links (wkey n w) → n < m

/-- a reader that can be a link target here: a sink or in-port 0 of a node -/
def TgtOK : Tgt → Prop
  | .node m port => port = 0 ∧ m < 1000
  | .sink _ => True

def upd (ss : Nat → S) (n : Nat) (s : S) : Nat → S := fun m => if m = n then s else ss m

def updD (D : Nat → List (Pid × Ans)) (rk : Nat) (l : List (Pid × Ans)) : Nat → List (Pid × Ans) :=
  fun x => if x = rk then l else D x

/-- the requests a reader holds, in the order it will answer them -/
def heldAt (ss : Nat → S) (sk : List (Nat × List (Pid × Val))) : Tgt → List Pid
  | .node m _ => (ss m).reqs.map (·.p) ++ curRead (ss m).cur ++ (ss m).inbox.map (·.id)
  | .sink k => (getL sk k).map (·.1)

def heldD (D : Nat → List (Pid × Ans)) (ss : Nat → S) (sk : List (Nat × List (Pid × Val))) (t : Tgt) : List Pid :=
  (D (rkeyOf t)).map (·.1) ++ heldAt ss sk t

/-- `Flow.getWriter` as a function of the writers table -/
def gw (ws : List (Nat × Flow.Writer)) (key : Nat) : Flow.Writer :=
  match aget ws key with
  | some w => w
  | none => {}

theorem getWriter_eq (g : G) (key : Nat) : getWriter g key = gw g.writers key := rfl

theorem gw_aset (ws : List (Nat × Flow.Writer)) (k k' : Nat) (wr : Flow.Writer) :
    gw (aset ws k wr) k' = if k' = k then wr else gw ws k' := by
  simp only [gw, aget_aset]; by_cases e : k' = k <;> simp [e]

/-- one writer `key` with linked reader `t`, whose unanswered packets are `pend` -/
structure WK (lg : Log) (wr : Flow.Writer) (fifo : List Nat) (key : Nat) (pend held : List Pid) : Prop where
  split : ∃ qs rs, pend = qs ++ rs ∧ All2 (RA lg) qs wr.queue ∧ wr.rows = rs.map (fun _ => [none]) ∧
    All2 (WLogged lg) rs held
  fifo : fifo = held.map (fun _ => key)

def CurOK (lg : Log) (n : Nat) : Cur → Prop
  | .idle => True
  | .inAction p => Unlogged lg p.id
  | .toLink p q w => ReqLogged lg p.id q.id ∧ Unlogged lg q.id ∧ w < 2 ∧ aget lg.owner q.id = some (qTag n)
  | .linked p q w => ReqLogged lg p.id q.id ∧ Unlogged lg q.id ∧ w < 2 ∧ aget lg.owner q.id = some (qTag n)

def ReqOK (lg : Log) (r : EReq) : Prop :=
  match r.st with
  | .done a => RA lg r.p a
  | .written q w => ReqLogged lg r.p q ∧ w < 2

structure FI (N : Nat) (links : List (Nat × List Tgt)) (ss : Nat → S) (D : Nat → List (Pid × Ans)) (g : G) : Prop where
  glinks : g.links = links
  nodesLen : ∀ n, (getNode g.nodes n).isSome = true ↔ n < N
  rel : ∀ n nd, getNode g.nodes n = some nd → Rel (ss n) nd g.next
  dflt : ∀ n, N ≤ n → ss n = {}
  reqsOK : ∀ n, ∀ r ∈ (ss n).reqs, ReqOK g.log r
  curOK : ∀ n, CurOK g.log n (ss n).cur
  inboxOK : ∀ n, ∀ p ∈ (ss n).inbox, Unlogged g.log p.id
  ownNode : ∀ n, ∀ id ∈ heldAt ss g.sinks (.node n 0), aget g.log.owner id = some (rkeyOf (.node n 0))
  sinkOK : ∀ k, ((getL g.sinks k).map (·.1)).Nodup ∧
    ∀ c ∈ (getL g.sinks k).map (·.1), Unlogged g.log c ∧ c < g.next ∧ aget g.log.owner c = some (rkeyOf (.sink k))
  debtOK : ∀ rk, ∀ x ∈ D rk, RA g.log x.1 x.2
  wkN : ∀ n w t, n < N → w < 2 → getL links (wkey n w) = [t] →
    WK g.log (gw g.writers (wkey n w)) (getL g.fifo (rkeyOf t)) (wkey n w) (writesOf (ss n).reqs w) (heldD D ss g.sinks t)
  wkS : ∀ t, getL links srcKey = [t] →
    WK g.log (gw g.writers srcKey) (getL g.fifo (rkeyOf t)) srcKey (g.roots.drop g.resp.length) (heldD D ss g.sinks t) ∧
    (gw g.writers srcKey).queue = []
  respOK : g.resp.length ≤ g.roots.length ∧ All2 (RA g.log) (g.roots.take g.resp.length) g.resp
  nofeed : ∀ t, TgtOK t → (∀ key, t ∉ getL links key) → heldD D ss g.sinks t = []
  logBound : ∀ id, g.next ≤ id → Unlogged g.log id
  rootsB : ∀ r ∈ g.roots, r < g.next
  wq0 : ∀ key, getL links key = [] → (gw g.writers key).queue = []
  logOrd : LogOrd g.log g.next

theorem getNode_replicate (N n : Nat) :
    getNode (List.map (fun k => Node.mk k) (List.replicate N Kind.oneToOne)) n =
      if n < N then some (Node.mk .oneToOne) else none := by
  induction N generalizing n with
  | zero => simp [getNode]
  | succ N ih =>
    cases n with
    | zero => simp [List.replicate, getNode]
    | succ n => simp only [List.replicate, List.map_cons, getNode, ih n]; simp

theorem unlogged_empty (id : Pid) : Unlogged ({} : Log) id := ⟨rfl, rfl, rfl, rfl⟩

theorem wk_empty (lg : Log) (key : Nat) : WK lg {} [] key [] [] :=
  ⟨⟨[], [], rfl, trivial, rfl, trivial⟩, rfl⟩

theorem FI_init (N : Nat) (links : List (Nat × List Tgt)) (hwf : TreeWF N links) :
    FI N links (fun _ => {}) (fun _ => []) (initG (List.replicate N .oneToOne) links) := by
  have hg : ∀ key, gw (initG (List.replicate N .oneToOne) links).writers key = {} := fun key => rfl
  constructor
  · rfl
  · intro n; simp only [initG, getNode_replicate]; split <;> simp_all
  · intro n nd hn
    simp only [initG, getNode_replicate] at hn
    split at hn
    · simp only [Option.some.injEq] at hn; subst hn
      exact NodeSpec.rel_mono _ _ 0 _ NodeSpec.rel_init (Nat.zero_le _)
    · cases hn
  · intro n _; rfl
  · intro n r hr; simp at hr
  · intro n; trivial
  · intro n p hp; simp at hp
  · intro n id hid; simp [heldAt, curRead] at hid
  · intro k; simp [initG, getL_eq]
  · intro rk x hx; simp at hx
  · intro n w t _ _ _
    rw [hg]
    cases t with
    | node m port => simp only [heldD, heldAt, curRead, writesOf, List.map_nil, List.append_nil, initG, getL_eq, aget_nil]; exact wk_empty _ _
    | sink k => simp only [heldD, heldAt, writesOf, List.map_nil, List.append_nil, initG, getL_eq, aget_nil]; exact wk_empty _ _
  · intro t _
    refine ⟨?_, rfl⟩
    rw [hg]
    simp only [heldD]
    cases t with
    | node m port => simp only [heldAt, curRead, initG, List.map_nil, List.append_nil, getL_eq, aget_nil]; exact wk_empty _ _
    | sink k => simp only [heldAt, initG, List.map_nil, List.append_nil, getL_eq, aget_nil]; exact wk_empty _ _
  · exact ⟨Nat.le_refl _, trivial⟩
  · intro t _ _
    cases t <;> simp [heldD, heldAt, curRead, initG, getL_eq]
  · intro id _; exact unlogged_empty id
  · intro r hr; simp [initG] at hr
  · intro key _; rfl
  · exact ⟨fun p cs h => (by simp [initG, aget] at h), fun p qs h => (by simp [initG, aget] at h)⟩

end Uniflow.FlowInv
