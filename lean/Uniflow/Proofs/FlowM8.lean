/-
C02, joint model, nodes with several in-ports, part 8: `JBm` under the action's return, the `Link`/`Write` calls of
thread `i`, and a downstream answer.
-/
import Uniflow.Proofs.FlowM7

namespace Uniflow.FlowM
open Uniflow.Tracer Uniflow.Node Uniflow.Flow Uniflow.FlowInv Uniflow.FlowG Uniflow.ATracer Uniflow.FlowH

theorem jbm_finish (nd : Node) (a : A) (nx nx' : Nat) (h : JBm nd a nx) (i : Rid) (p : Pkt) (grp inbox : List Pkt)
    (hg : getThread nd.threads i = some { inbox := inbox, pc := .action p grp }) (o : Outcome) (ops : List Op)
    (hp : program nd.kind p o = some ops) (hnd : (introS (.finish i o)).Nodup)
    (hfr : ∀ k ∈ introS (.finish i o), nx ≤ k ∧ k < nx') (hle : nx ≤ nx') :
    Node.step nd (.finish i o) =
      some ({ nd with threads := setThread nd.threads i { inbox := inbox, pc := .emit ops } }, []) ∧
    JBm { nd with threads := setThread nd.threads i { inbox := inbox, pc := .emit ops } } a nx' := by
  have hJ := jbm_fut nd a nx h (introS (.finish i o)) hnd (fun k hk => (hfr k hk).1)
  obtain ⟨hJ', _⟩ := J_finish nd a [] i o p grp inbox (by simpa using hJ) hg
  have hJ2 := hJ' ops hp
  have hX : (⟨p.id, i, .cells []⟩ : Req) ∈ a.reqs := by have := h.j.th i _ hg; simpa [ThOK] using this
  have hplt : p.id < nx := h.bnd p.id (List.mem_append_left _ (mem_ids_of_mem hX (by simp [idsR])))
  obtain ⟨_, hsub, _⟩ := program_ok nd.kind p o ops i i a.reqs hp hX
    (Or.inl (fun x hx e => by rw [e] at hx; exact Nat.lt_irrefl _ (Nat.lt_of_lt_of_le hplt (hfr _ hx).1)))
  refine ⟨by simp [Node.step, hg, hp], hJ2, ?_, h.np⟩
  intro k hk
  rw [List.mem_append] at hk
  rcases hk with hk | hk
  · exact Nat.lt_of_lt_of_le (h.bnd k (List.mem_append_left _ hk)) hle
  · rcases mem_setThread nd.threads i _ _ hg k hk with h1 | h1
    · exact Nat.lt_of_lt_of_le (h.bnd k (List.mem_append_right _ h1)) hle
    · simp only [tids, pendIds, List.mem_append] at h1
      rcases h1 with h1 | h1
      · exact Nat.lt_of_lt_of_le
          (h.bnd k (List.mem_append_right _ (mem_thread _ i _ hg k (by simp [tids, h1])))) hle
      · exact (hfr k (hsub.subset h1)).2

/-- the action of thread `i` returns its input packet: nothing new is introduced -/
theorem jbm_finish_same (nd : Node) (a : A) (nx : Nat) (h : JBm nd a nx) (i : Rid) (p : Pkt) (grp inbox : List Pkt)
    (hg : getThread nd.threads i = some { inbox := inbox, pc := .action p grp }) (o : Outcome) (ops : List Op)
    (hp : program nd.kind p o = some ops) (hs : introS (.finish i o) = [p.id]) :
    Node.step nd (.finish i o) =
      some ({ nd with threads := setThread nd.threads i { inbox := inbox, pc := .emit ops } }, []) ∧
    JBm { nd with threads := setThread nd.threads i { inbox := inbox, pc := .emit ops } } a nx ∧
    linkTargets ops = [] := by
  obtain ⟨hJ', _⟩ := J_finish_same nd a [] i o p grp inbox h.j hg hs
  have hJ2 := hJ' ops hp
  have hX : (⟨p.id, i, .cells []⟩ : Req) ∈ a.reqs := by have := h.j.th i _ hg; simpa [ThOK] using this
  obtain ⟨_, _, hlt⟩ := program_ok nd.kind p o ops i i a.reqs hp hX (Or.inr hs)
  refine ⟨by simp [Node.step, hg, hp], ⟨hJ2, ?_, h.np⟩, hlt hs⟩
  intro k hk
  rw [List.mem_append] at hk
  rcases hk with hk | hk
  · exact h.bnd k (List.mem_append_left _ hk)
  · rcases mem_setThread nd.threads i _ _ hg k hk with h1 | h1
    · exact h.bnd k (List.mem_append_right _ h1)
    · simp only [tids, pendIds, hlt hs, List.append_nil] at h1
      exact h.bnd k (List.mem_append_right _ (mem_thread _ i _ hg k (by simp [tids, pendIds, h1])))

theorem jbm_answer (nd : Node) (a : A) (nx : Nat) (h : JBm nd a nx) (w : Wid) (ans : Ans) (hq : getL a.wq w ≠ []) :
    Node.step nd (.answer w ans) =
      some ({ nd with tr := (receiveW nd.strict nd.tr w (some ans)).1 }, (acall a (.answer w ans)).2) ∧
    JBm { nd with tr := (receiveW nd.strict nd.tr w (some ans)).1 } (acall a (.answer w ans)).1 nx := by
  have hJ' := J_answer nd a [] w ans h.j
  obtain ⟨hev, _, _⟩ := call_refines a nd.tr (.answer w ans) h.j.trel h.j.inv trivial
  have hw : getL nd.tr.writes w = getL a.wq w := by simp only [getL_eq, h.j.trel.writes w]
  refine ⟨?_, hJ', ?_, h.np⟩
  · simp only [Node.step, hw]
    cases hl : getL a.wq w with
    | nil => exact absurd hl hq
    | cons k rest =>
      simp only [tcall, h.j.strict] at hev ⊢
      rw [← hev]
  · intro k hk
    rw [List.mem_append] at hk
    rcases hk with hk | hk
    · rcases acall_ids_sub a nd.tr (.answer w ans) h.j.trel h.j.inv trivial k hk with h1 | h1
      · exact h.bnd k (List.mem_append_left _ h1)
      · simp [newIds] at h1
    · exact h.bnd k (List.mem_append_right _ hk)

end Uniflow.FlowM
