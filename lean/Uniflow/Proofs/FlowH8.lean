/-
C02, joint model, one-in-port node kinds, part 8: class T3 (one-to-one and one-to-many nodes, any forward
links), the global invariant `HI` over the abstract tracer states of the nodes, and the initial state.
-/
import Uniflow.Proofs.FlowH7e

namespace Uniflow.FlowH
open Uniflow.Tracer Uniflow.Node Uniflow.Flow Uniflow.FlowInv Uniflow.FlowG Uniflow.ATracer

/-- a node kind with one in-port whose out-writers fit the pump (`maxW`) -/
def KindOK : Kind → Prop
  | .oneToOne => True
  | .oneToMany k => k + 1 < maxW
  | .manyToOne _ => False

/-- class T3: one-to-one and one-to-many nodes, arbitrary forward links -/
structure GraphWF3 (kinds : List Kind) (links : List (Nat × List Tgt)) : Prop where
  small : kinds.length ≤ 1000
  kindsOK : ∀ k ∈ kinds, KindOK k
  nodupT : ∀ key, ((getL links key).map rkeyOf).Nodup
  tnode : ∀ key m port, Tgt.node m port ∈ getL links key → m < kinds.length ∧ port = 0
  src : getL links srcKey ≠ []
  keys : ∀ key, getL links key ≠ [] → key = srcKey ∨ ∃ n w, n < kinds.length ∧ w < maxW ∧ key = wkey n w
  fwd : ∀ n w m port, n < kinds.length → w < maxW → Tgt.node m port ∈ getL links (wkey n w) → n < m

/-- what the in-port of a node holds, in the order it will answer: the requests read and the inbox -/
def heldN (nd : Node) (a : A) : List Pid := a.reqs.map (·.p) ++ nd.threads.flatMap (fun th => th.inbox.map (·.id))

def heldAtH (aa : Nat → A) (nodes : List Node) (sk : List (Nat × List (Pid × Val))) : Tgt → List Pid
  | .node m _ => match getNode nodes m with
    | some nd => heldN nd (aa m)
    | none => []
  | .sink k => (getL sk k).map (·.1)

def heldDH (D : Nat → List (Pid × Ans)) (aa : Nat → A) (nodes : List Node) (sk : List (Nat × List (Pid × Val)))
    (t : Tgt) : List Pid :=
  (D (rkeyOf t)).map (·.1) ++ heldAtH aa nodes sk t

/-- the packets writer `key` still owes answers for, oldest first -/
def pendH (aa : Nat → A) (roots : List Pid) (nresp : Nat) (key : Nat) : List Pid :=
  if key = srcKey then roots.drop nresp else getL (aa (key / 64)).wq (key % 64)

def hbOfH (D : Nat → List (Pid × Ans)) (aa : Nat → A) (nodes : List Node) (sk : List (Nat × List (Pid × Val)))
    (ff : List (Nat × List Nat)) (key : Nat) (t : Tgt) : List Pid :=
  selK key (heldDH D aa nodes sk t) (getL ff (rkeyOf t))

structure HI (kinds : List Kind) (links : List (Nat × List Tgt)) (aa : Nat → A) (D : Nat → List (Pid × Ans)) (g : G) : Prop where
  glinks : g.links = links
  nodesLen : ∀ n, (getNode g.nodes n).isSome = true ↔ n < kinds.length
  kindOK : ∀ n nd, getNode g.nodes n = some nd → KindOK nd.kind
  kindEq : ∀ n nd, getNode g.nodes n = some nd → kinds[n]? = some nd.kind
  jb : ∀ n nd, getNode g.nodes n = some nd → JB nd (aa n) g.next
  nl : ∀ n nd th, getNode g.nodes n = some nd → nd.threads = [th] → NL g.log n th (aa n)
  dflt : ∀ n, kinds.length ≤ n → aa n = {}
  sinkOK : ∀ k, ((getL g.sinks k).map (·.1)).Nodup ∧
    ∀ c ∈ (getL g.sinks k).map (·.1), Unlogged g.log c ∧ c < g.next ∧ aget g.log.owner c = some (rkeyOf (.sink k))
  debtOK : ∀ rk, ∀ x ∈ D rk, RA g.log x.1 x.2
  wk : ∀ key, getL links key ≠ [] →
    WKG g.log (gw g.writers key) (getL links key) (pendH aa g.roots g.resp.length key)
      (hbOfH D aa g.nodes g.sinks g.fifo key)
  srcq : (gw g.writers srcKey).queue = []
  fifoLen : ∀ t, TgtOK t → (getL g.fifo (rkeyOf t)).length = (heldDH D aa g.nodes g.sinks t).length
  fifoKeys : ∀ t, TgtOK t → ∀ key ∈ getL g.fifo (rkeyOf t), t ∈ getL links key
  respOK : g.resp.length ≤ g.roots.length ∧ All2 (RA g.log) (g.roots.take g.resp.length) g.resp
  logBound : ∀ id, g.next ≤ id → Unlogged g.log id
  rootsB : ∀ r ∈ g.roots, r < g.next
  wq0 : ∀ key, getL links key = [] → (gw g.writers key).queue = []
  logOrd : LogOrd g.log g.next

theorem getNode_map (kinds : List Kind) : ∀ n, getNode (kinds.map (fun k => Node.mk k)) n = (kinds[n]?).map (fun k => Node.mk k) := by
  induction kinds with
  | nil => intro n; simp [getNode]
  | cons k ks ih =>
    intro n
    cases n with
    | zero => simp [getNode]
    | succ n => simp [getNode, ih n]

theorem jb_init (k : Kind) (hk : KindOK k) (nx : Nat) : JB (Node.mk k) {} nx := by
  refine ⟨J_init k [] (by simp), ?_, ?_, rfl, by simp⟩
  · cases k with
    | oneToOne => rfl
    | oneToMany _ => rfl
    | manyToOne _ => exact hk.elim
  · intro x hx
    simp only [ids, List.flatMap_nil, List.nil_append, Node.mk, List.mem_flatMap, List.mem_replicate] at hx
    obtain ⟨th, ⟨_, e⟩, hx⟩ := hx
    rw [e] at hx; simp [tids, pendIds] at hx

theorem nl_init (lg : Log) (n : Nat) : NL lg n {} {} :=
  ⟨by intro p hp; simp at hp, by intro x hx; simp at hx, by intro x hx; simp at hx, by intro x hx; simp at hx, trivial⟩

theorem mk_threads (k : Kind) (hk : KindOK k) : (Node.mk k).threads = [{}] := by
  cases k with
  | oneToOne => rfl
  | oneToMany _ => rfl
  | manyToOne _ => exact hk.elim

theorem HI_init (kinds : List Kind) (links : List (Nat × List Tgt)) (hwf : GraphWF3 kinds links) :
    HI kinds links (fun _ => {}) (fun _ => []) (initG kinds links) := by
  have hg : ∀ key, gw (initG kinds links).writers key = {} := fun key => rfl
  have hnode : ∀ n nd, getNode (initG kinds links).nodes n = some nd → ∃ k ∈ kinds, nd = Node.mk k ∧ kinds[n]? = some k := by
    intro n nd hn
    simp only [initG, getNode_map] at hn
    cases hk : kinds[n]? with
    | none => rw [hk] at hn; simp at hn
    | some k =>
      rw [hk] at hn; simp only [Option.map_some, Option.some.injEq] at hn
      exact ⟨k, List.mem_of_getElem? hk, hn.symm, rfl⟩
  have hheld : ∀ t, heldDH (fun _ => []) (fun _ => ({} : A)) (initG kinds links).nodes (initG kinds links).sinks t = [] := by
    intro t
    cases t with
    | sink j => simp [heldDH, heldAtH, initG, getL_eq]
    | node m port =>
      simp only [heldDH, heldAtH, List.map_nil, List.nil_append]
      cases hn : getNode (initG kinds links).nodes m with
      | none => rfl
      | some nd =>
        obtain ⟨k, hk, e, hke⟩ := hnode m nd hn
        subst e
        simp [heldN, mk_threads k (hwf.kindsOK k hk)]
  refine { glinks := rfl, nodesLen := ?_, kindOK := ?_, kindEq := ?_, jb := ?_, nl := ?_, dflt := fun _ _ => rfl, sinkOK := ?_,
           debtOK := ?_, wk := ?_, srcq := rfl, fifoLen := ?_, fifoKeys := ?_, respOK := ⟨Nat.le_refl _, trivial⟩,
           logBound := fun id _ => unlogged_empty id, rootsB := ?_, wq0 := fun _ _ => rfl, logOrd := ?_ }
  · intro n
    simp only [initG, getNode_map]
    cases hk : kinds[n]? with
    | none => simp; exact List.getElem?_eq_none_iff.mp hk
    | some k =>
      simp
      exact (List.getElem?_eq_some_iff.mp hk).1
  · intro n nd hn
    obtain ⟨k, hk, e, hke⟩ := hnode n nd hn
    subst e; exact hwf.kindsOK k hk
  · intro n nd hn
    obtain ⟨k, hk, e, hke⟩ := hnode n nd hn
    subst e; exact hke
  · intro n nd hn
    obtain ⟨k, hk, e, hke⟩ := hnode n nd hn
    subst e; exact jb_init k (hwf.kindsOK k hk) _
  · intro n nd th hn ht
    obtain ⟨k, hk, e, hke⟩ := hnode n nd hn
    subst e
    rw [mk_threads k (hwf.kindsOK k hk)] at ht
    simp only [List.cons.injEq, and_true] at ht
    subst ht
    exact nl_init _ n
  · intro k; simp [initG, getL_eq]
  · intro rk x hx; simp at hx
  · intro key _
    rw [hg]
    have hp : pendH (fun _ => ({} : A)) (initG kinds links).roots (initG kinds links).resp.length key = [] := by
      simp only [pendH, initG]; split <;> simp [getL_eq]
    rw [hp]
    exact wkg_empty _ _ _ (fun t => by simp only [hbOfH, hheld, selK_nil])
  · intro t _; rw [hheld]; simp [initG, getL_eq]
  · intro t _ key hk; simp [initG, getL_eq] at hk
  · intro r hr; simp [initG] at hr
  · exact ⟨fun p cs h => (by simp [initG, aget] at h), fun p qs h => (by simp [initG, aget] at h)⟩

end Uniflow.FlowH
