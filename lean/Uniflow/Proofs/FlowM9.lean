/-
C02, joint model, nodes with several in-ports, part 9: the `Link` / `Write` call of thread `i` for `JBm`; ids of
different threads are disjoint; the owner tags of the ids a thread's invariant speaks about.
-/
import Uniflow.Proofs.FlowM8

namespace Uniflow.FlowM
open Uniflow.Tracer Uniflow.Node Uniflow.Flow Uniflow.FlowInv Uniflow.FlowG Uniflow.ATracer Uniflow.FlowH

theorem step_op_eq_m (nd : Node) (i : Rid) (inbox : List Pkt) (o : Op) (ops : List Op)
    (hg : getThread nd.threads i = some { inbox := inbox, pc := .emit (o :: ops) }) (acc : Bool) :
    Node.step nd (.op i acc) =
      some ({ nd with tr := (tcall nd.tr (opCall acc o)).1,
                      threads := setThread nd.threads i { inbox := inbox, pc := nextPc ops } },
            (match o with
             | .link _ _ => []
             | .write w q => (Tracer.write nd.strict nd.tr w q.id (.pay q.pay) acc).2)) ∨ nd.strict = false := by
  by_cases hs : nd.strict = true
  · left
    cases ops <;> cases o <;> simp [Node.step, hg, nextPc, opCall, tcall, hs]
  · right; simpa using hs

/-- thread `i` makes the next `Link` / `Write` call of its program -/
theorem jbm_op (nd : Node) (a : A) (nx : Nat) (h : JBm nd a nx) (i : Rid) (inbox : List Pkt) (o : Op) (ops : List Op)
    (hg : getThread nd.threads i = some { inbox := inbox, pc := .emit (o :: ops) }) (acc : Bool) :
    Node.step nd (.op i acc) =
      some ({ nd with tr := (tcall nd.tr (opCall acc o)).1,
                      threads := setThread nd.threads i { inbox := inbox, pc := nextPc ops } },
            (acall a (opCall acc o)).2) ∧
    JBm { nd with tr := (tcall nd.tr (opCall acc o)).1,
                  threads := setThread nd.threads i { inbox := inbox, pc := nextPc ops } }
      (acall a (opCall acc o)).1 nx ∧ Pre a (opCall acc o) := by
  obtain ⟨hpre, hJ'⟩ := J_op nd a [] i acc inbox o ops h.j hg
  obtain ⟨hev, _, _⟩ := call_refines a nd.tr (opCall acc o) h.j.trel h.j.inv hpre
  refine ⟨?_, ⟨hJ', ?_, h.np⟩, hpre⟩
  · rcases step_op_eq_m nd i inbox o ops hg acc with he | he
    · rw [he]
      cases o with
      | link s t => simp [opCall, acall]
      | write w q =>
        simp only [opCall, tcall, h.j.strict] at hev ⊢
        rw [← hev]
    · rw [h.j.strict] at he; cases he
  · intro k hk
    rw [List.mem_append] at hk
    have hthis : ∀ k, k ∈ tids ({ inbox := inbox, pc := .emit (o :: ops) } : Thread) → k < nx :=
      fun k hk => h.bnd k (List.mem_append_right _ (mem_thread _ i _ hg k hk))
    rcases hk with hk | hk
    · rcases acall_ids_sub a nd.tr (opCall acc o) h.j.trel h.j.inv hpre k hk with h1 | h1
      · exact h.bnd k (List.mem_append_left _ h1)
      · cases o with
        | link s t =>
          simp only [opCall, newIds] at h1
          by_cases e : s = t
          · simp [e] at h1
          · simp only [e, if_false, List.mem_singleton] at h1
            exact hthis k (by simp [tids, pendIds, linkTargets, h1, e])
        | write w q => simp [opCall, newIds] at h1
    · rcases mem_setThread nd.threads i _ _ hg k hk with h1 | h1
      · exact h.bnd k (List.mem_append_right _ h1)
      · simp only [tids, List.mem_append] at h1
        rcases h1 with h1 | h1
        · exact hthis k (by simp [tids, h1])
        · exact hthis k (by simp only [tids, List.mem_append]; right; exact pend_nextPc_sub o ops k h1)

/-- an id the tracer knows is not an id waiting in a thread -/
theorem jbm_disj (nd : Node) (a : A) (nx : Nat) (h : JBm nd a nx) (j : Rid) (th : Thread)
    (hg : getThread nd.threads j = some th) : ∀ k, k ∈ ids a.reqs → k ∉ tids th := by
  intro k h1 h2
  have := h.j.cnt k
  have c1 := List.count_pos_iff.mpr h1
  have c2 := List.count_pos_iff.mpr (mem_thread nd.threads j th hg k h2)
  simp only [List.count_nil, Nat.add_zero] at this
  omega

/-- ids waiting in different threads are different -/
theorem jbm_disj_th (nd : Node) (a : A) (nx : Nat) (h : JBm nd a nx) (i j : Rid) (hij : j ≠ i) (thi thj : Thread)
    (hgi : getThread nd.threads i = some thi) (hgj : getThread nd.threads j = some thj) :
    ∀ k, k ∈ tids thi → k ∉ tids thj := by
  intro k h1 h2
  have hc := h.j.cnt k
  simp only [List.count_nil, Nat.add_zero] at hc
  have h3 := count_flatMap_setThread tids nd.threads i thi { inbox := [], pc := .idle } hgi k
  have hgj' : getThread (setThread nd.threads i { inbox := [], pc := .idle }) j = some thj := by
    rw [getThread_setThread nd.threads i j _ (by rw [hgi]; rfl)]; simp [hij, hgj]
  have c1 := List.count_pos_iff.mpr h1
  have c2 := List.count_pos_iff.mpr (mem_thread _ j thj hgj' k h2)
  have e0 : tids ({ inbox := [], pc := .idle } : Thread) = [] := rfl
  rw [e0] at h3
  simp only [List.count_nil, Nat.add_zero] at h3
  omega

/-- the ids thread `j`'s invariant speaks about are ids of reader `j`'s requests or ids waiting in the thread -/
theorem nlIdsT_sub (j : Rid) (th : Thread) (a : A) : ∀ id ∈ nlIdsT j th a,
    (∃ y ∈ a.reqs, y.r = j ∧ id ∈ idsR y) ∨ id ∈ tids th := by
  intro id hid
  simp only [nlIdsT, List.mem_append, List.mem_map, List.mem_flatMap, List.mem_filter, decide_eq_true_eq] at hid
  rcases hid with ((⟨p, hp, e⟩ | ⟨x, ⟨hx, hr⟩, e⟩) | ⟨x, ⟨hx, hr⟩, hq⟩) | ⟨x, ⟨hx, hr⟩, ht⟩
  · right; simp only [tids, List.mem_append, List.mem_map]; left; exact ⟨p, hp, e⟩
  · left; exact ⟨x, hx, hr, by simp [idsR, e]⟩
  · left
    refine ⟨x, hx, hr, ?_⟩
    simp only [idsR, List.mem_cons]; right
    exact linkedIds_sub_open _ id hq
  · right; simp only [tids, List.mem_append]; right; exact remFor_sub th.pc x.p id ht

/-- every id thread `j`'s invariant speaks about carries reader `j`'s tag or the node's action tag -/
theorem nlt_tag (lg : Log) (n : Nat) (j : Rid) (th : Thread) (a : A) (h : NLt lg n j th a) :
    ∀ id ∈ nlIdsT j th a, aget lg.owner id = some (n * 64 + j) ∨ aget lg.owner id = some (qTag n) := by
  intro id hid
  simp only [nlIdsT, List.mem_append, List.mem_map, List.mem_flatMap, List.mem_filter, decide_eq_true_eq] at hid
  rcases hid with ((⟨p, hp, e⟩ | ⟨x, ⟨hx, hr⟩, e⟩) | ⟨x, ⟨hx, hr⟩, hq⟩) | ⟨x, ⟨hx, hr⟩, ht⟩
  · left; rw [← e]; exact (h.inb p hp).2
  · left; rw [← e]; exact h.own x hx hr
  · right
    rcases h.req x hx hr with hr' | ⟨v, e1, _, _⟩
    rotate_left
    · rw [e1] at hq; simp [cellsOfSt, linkedIds] at hq
    simp only [ReqA] at hr'
    cases hst : x.st with
    | direct w => rw [hst] at hq; simp [cellsOfSt, linkedIds] at hq
    | cells cs =>
      rw [hst] at hr' hq
      obtain ⟨qs, a1, _⟩ := hr'
      simp only [cellsOfSt] at hq
      exact (all2_linked lg n qs cs a1 id hq).2
  · right
    rcases h.req x hx hr with hr' | ⟨v, _, _, e3⟩
    rotate_left
    · rw [e3] at ht; simp at ht
    simp only [ReqA] at hr'
    cases hst : x.st with
    | direct w => rw [hst] at hr'; rw [hr'] at ht; simp at ht
    | cells cs =>
      rw [hst] at hr'
      obtain ⟨qs, _, _, _, _, _, _, a7⟩ := hr'
      exact (a7 id ht).2

/-- all ids of a thread's invariant are below the node's bound -/
theorem nlIdsT_lt (nd : Node) (a : A) (nx : Nat) (h : JBm nd a nx) (j : Rid) (th : Thread)
    (hg : getThread nd.threads j = some th) : ∀ id ∈ nlIdsT j th a, id < nx := by
  intro id hid
  rcases nlIdsT_sub j th a id hid with ⟨y, hy, _, hm⟩ | hm
  · exact h.bnd id (List.mem_append_left _ (mem_ids_of_mem hy hm))
  · exact h.bnd id (List.mem_append_right _ (mem_thread _ j th hg id hm))

end Uniflow.FlowM
