/-
Helper lemmas for Props/C10.lean and Props/C12.lean about the primary tree, the residual filter of `find`, the
dictionary operations of `patch` and the sort of `Find`. Core Lean only.
-/
import Uniflow.Model.Index
import Uniflow.Proofs.Store

namespace Uniflow.Index
open Uniflow.Value Uniflow.Store Uniflow.Plan Uniflow.Query

/-! ### residual filter = reference filter -/

theorem residual_ref {f : Val} (hf : wf f = true) :
    ∀ ds : List PList, residual f ds = .ok (ds.filter fun d => refMatch (some (.map d)) f)
  | [] => rfl
  | d :: ds => by
    have h := matchV_ref f hf (some (.map d))
    simp only [valOf, Option.getD_some, Option.isSome_some] at h
    simp only [residual, h, residual_ref hf ds, Res.bind, List.filter_cons]

/-! ### primary tree: what was put is what is read -/

theorem getDoc_putDoc_same (id : Val) (d : PList) (hid : cmp id id = 0) :
    ∀ docs : List (Val × PList), getDoc (putDoc docs id d) id = some d
  | [] => by simp [putDoc, getDoc, hid]
  | (i, e) :: rest => by
    simp only [putDoc]
    split
    · simp [getDoc, hid]
    · split
      · simp [getDoc, hid]
      · next h1 _ => simp [getDoc, h1, getDoc_putDoc_same id d hid rest]

/-- ids that compare equal address the same entry -/
theorem getDoc_congr {a b : Val} (h : cmp a b = 0) : ∀ docs : List (Val × PList), getDoc docs a = getDoc docs b
  | [] => rfl
  | (i, e) :: rest => by
    have hia : cmp i a = 0 ↔ cmp i b = 0 := by
      have t1 := C14.cmp_trans i a b; have t2 := C14.cmp_trans b a i
      have t3 := C14.cmp_trans i b a; have t4 := C14.cmp_trans a b i
      have := C14.cmp_antisymm a b; have := C14.cmp_antisymm i a; have := C14.cmp_antisymm i b
      constructor <;> intro h' <;> omega
    simp only [getDoc]
    by_cases h1 : cmp i a = 0
    · simp [h1, hia.mp h1]
    · have h2 : ¬ cmp i b = 0 := fun h' => h1 (hia.mpr h')
      simp [h1, h2, getDoc_congr h rest]

theorem getDoc_putDoc_other {id x : Val} (d : PList) (hx : cmp id x ≠ 0) :
    ∀ docs : List (Val × PList), getDoc (putDoc docs id d) x = getDoc docs x
  | [] => by simp [putDoc, getDoc, hx]
  | (i, e) :: rest => by
    simp only [putDoc]
    split
    · next h1 =>
      have hix : cmp i x ≠ 0 := by
        intro h'
        have t1 := C14.cmp_trans id i x; have t2 := C14.cmp_trans x i id
        have := C14.cmp_antisymm i id; have := C14.cmp_antisymm i x; have := C14.cmp_antisymm id x
        omega
      simp [getDoc, hx, hix]
    · split
      · simp [getDoc, hx]
      · simp only [getDoc]
        split
        · rfl
        · exact getDoc_putDoc_other d hx rest

/-! ### strictly ascending ids -/

/-- `docs` is strictly ascending in the id -/
def Asc : List (Val × PList) → Prop
  | [] => True
  | [_] => True
  | a :: b :: rest => cmp a.1 b.1 < 0 ∧ Asc (b :: rest)

/-- every id of `docs` is above `x` -/
def Above (x : Val) (docs : List (Val × PList)) : Prop := ∀ p ∈ docs, cmp x p.1 < 0

theorem Asc_cons {a : Val × PList} {rest : List (Val × PList)} :
    Asc (a :: rest) ↔ Above a.1 rest ∧ Asc rest := by
  induction rest generalizing a with
  | nil => simp [Asc, Above]
  | cons b rest ih =>
    simp only [Asc]
    rw [ih]
    constructor
    · rintro ⟨hab, hb, hr⟩
      refine ⟨fun p hp => ?_, hb, hr⟩
      rcases List.mem_cons.mp hp with rfl | hp
      · exact hab
      · exact (C14.cmp_trans_strict _ _ _).1 hab (Int.le_of_lt (hb p hp))
    · rintro ⟨ha, hb, hr⟩
      exact ⟨ha b (by simp), hb, hr⟩

theorem Above_putDoc {x id : Val} {d : PList} (hx : cmp x id < 0) :
    ∀ {docs : List (Val × PList)}, Above x docs → Above x (putDoc docs id d)
  | [], _ => by intro p hp; simp [putDoc] at hp; subst hp; exact hx
  | (i, e) :: rest, h => by
    simp only [putDoc]
    split
    · intro p hp
      rcases List.mem_cons.mp hp with rfl | hp
      · exact hx
      · exact h p (by simp [hp])
    · split
      · intro p hp
        rcases List.mem_cons.mp hp with rfl | hp
        · exact hx
        · exact h p hp
      · intro p hp
        rcases List.mem_cons.mp hp with rfl | hp
        · exact h _ (by simp)
        · exact Above_putDoc hx (fun q hq => h q (by simp [hq])) p hp

theorem Asc_putDoc (id : Val) (d : PList) : ∀ {docs : List (Val × PList)}, Asc docs → Asc (putDoc docs id d)
  | [], _ => by simp [putDoc, Asc]
  | (i, e) :: rest, h => by
    rw [Asc_cons] at h
    simp only [putDoc]
    split
    · next h0 =>
      rw [Asc_cons]
      refine ⟨fun p hp => ?_, h.2⟩
      have hip : cmp i p.1 < 0 := h.1 p hp
      have han := C14.cmp_antisymm i id
      exact (C14.cmp_trans_strict id i p.1).2 (by omega) hip
    · split
      · next h1 =>
        rw [Asc_cons]
        refine ⟨fun p hp => ?_, Asc_cons.mpr h⟩
        rcases List.mem_cons.mp hp with rfl | hp
        · exact h1
        · exact (C14.cmp_trans_strict _ _ _).1 h1 (Int.le_of_lt (h.1 p hp))
      · next h0 h1 =>
        rw [Asc_cons]
        have hlt : cmp i id < 0 := by
          have := C14.cmp_antisymm i id
          have := C14.cmp_range i id
          omega
        exact ⟨Above_putDoc hlt h.1, Asc_putDoc id d h.2⟩

theorem mem_delDoc {x : Val} : ∀ {docs : List (Val × PList)} {p : Val × PList}, p ∈ delDoc docs x → p ∈ docs
  | [], _, h => by simp [delDoc] at h
  | (i, e) :: rest, p, h => by
    simp only [delDoc] at h
    split at h
    · simp [h]
    · rcases List.mem_cons.mp h with rfl | h
      · simp
      · simp [mem_delDoc h]

theorem Asc_delDoc (x : Val) : ∀ {docs : List (Val × PList)}, Asc docs → Asc (delDoc docs x)
  | [], _ => by simp [delDoc, Asc]
  | (i, e) :: rest, h => by
    rw [Asc_cons] at h
    simp only [delDoc]
    split
    · exact h.2
    · rw [Asc_cons]
      exact ⟨fun p hp => h.1 p (mem_delDoc hp), Asc_delDoc x h.2⟩

/-- in an ascending list no two entries have ids that compare equal -/
theorem Asc_distinct : ∀ {docs : List (Val × PList)}, Asc docs → docs.Pairwise (fun a b => cmp a.1 b.1 ≠ 0)
  | [], _ => List.Pairwise.nil
  | a :: rest, h => by
    rw [Asc_cons] at h
    exact List.Pairwise.cons (fun b hb => by have := h.1 b hb; omega) (Asc_distinct h.2)

end Uniflow.Index
