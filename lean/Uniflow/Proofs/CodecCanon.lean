/-
`decode t (encode t v) = canon t v` for types without `any` (Props/C16.lean: roundtrip_closed).
Core Lean only.
-/
import Uniflow.Proofs.CodecStruct

namespace Uniflow.Codec
open Uniflow.Value

/-- decoding after one more `Set` = inserting the decoded pair (the two walk the same keys) -/
theorem decodeP_set (f : Val → Res GoVal) (k : Bytes) (x : Val) (w : GoVal) (hx : f x = .ok w) :
    ∀ (m : PList) (kvs : GoKVs), decodeP f m = .ok kvs → decodeP f (mapSet m k x) = .ok (kvInsert k w kvs)
  | .nil, kvs, h => by
    simp [decodeP] at h; subst h
    simp [mapSet, decodeP, kvInsert, hx, Res.bind, Res.map]
  | .cons k0 x0 rest, kvs, h => by
    cases k0 <;> simp only [decodeP] at h <;> try (cases h; done)
    rename_i k0'
    cases h0 : f x0 with
    | err e => simp [h0, Res.bind] at h
    | panic => simp [h0, Res.bind] at h
    | ok w0 =>
      cases hr : decodeP f rest with
      | err e => simp [h0, hr, Res.bind, Res.map] at h
      | panic => simp [h0, hr, Res.bind, Res.map] at h
      | ok kr =>
        simp [h0, hr, Res.bind, Res.map] at h; subst h
        simp only [mapSet, kvInsert]
        by_cases e : k = k0'
        · simp [e, decodeP, hx, hr, Res.bind, Res.map]
        · simp only [e, if_false]
          by_cases l : klt k k0' = true
          · simp [l, decodeP, hx, h0, hr, Res.bind, Res.map]
          · have l' : klt k k0' = false := by simpa using l
            simp [l', decodeP, h0, decodeP_set f k x w hx rest kr hr, Res.bind, Res.map]

theorem canonL_length (t : GoType) : ∀ xs : GoVals, (canonL t xs).length = xs.length
  | .nil => rfl
  | .cons _ xs => by simp [canonL, GoVals.length, canonL_length t xs]

theorem isNilDoc_iff {x : Val} : isNilDoc x = true ↔ x = .nil := by
  cases x <;> simp [isNilDoc]

/-- a value of a closed type that encodes to null is a pointer chain ending in nil: its normal form is the zero value -/
theorem canon_nil {t : GoType} {v : GoVal} (hc : closed t = true) (h : hasType t v = true) (he : encode t v = .nil) :
    canon t v = zero t := by
  cases t <;> cases v <;> simp [hasType] at h <;> simp [encode] at he <;> simp [closed] at hc
  · simp [canon, zero]
  · simp [canon, zero, he, isNilDoc]

/-- the per-field induction hypothesis, with the exact values -/
def CanonIH : Fields → GoVals → Prop
  | .cons m _ t rest, .cons v vs =>
    (match m, t, v with
     | .named, _, _ => closed t = true ∧ decode t (encode t v) = .ok (canon t v)
     | .omit, _, _ => closed t = true ∧ decode t (encode t v) = .ok (canon t v)
     | .inline, .struct fs', .struct vs' => CanonIH fs' vs'
     | .inline, .map t', .map kvs => decodeP (decode t') (encodeKV t' kvs .nil) = .ok (canonKV t' kvs .nil)
     | _, _, _ => True) ∧ CanonIH rest vs
  | _, _ => True

theorem dec_canon : (fs : Fields) → (vs ws : GoVals) → Fields.wf fs = true → hasTypeF fs vs = true →
    Dec true fs vs ws → CanonIH fs vs → ws = canonF fs vs
  | .nil, .nil, .nil, _, _, _, _ => by simp [canonF]
  | .nil, .nil, .cons _ _, _, _, hd, _ => by simp [Dec] at hd
  | .nil, .cons _ _, _, _, ht, _, _ => by simp [hasTypeF] at ht
  | .cons md a t rest, .nil, _, _, ht, _, _ => by simp [hasTypeF] at ht
  | .cons md a t rest, .cons v vs, .nil, _, _, hd, _ => by simp [Dec] at hd
  | .cons md a t rest, .cons v vs, .cons w ws, hw, ht, hd, hih => by
    have sh := fshape hw ht
    simp only [hasTypeF, Bool.and_eq_true] at ht
    have field : ∀ {x : Val}, x = encode t v → closed t = true → decode t (encode t v) = .ok (canon t v) →
        decodeField (decode t) (zero t) x = .ok w → w = canon t v := by
      intro x hx hc hdc hdf
      subst hx
      cases hx : encode t v <;> rw [hx] at hdf <;> simp only [decodeField] at hdf
      case nil => cases hdf; exact (canon_nil hc ht.1 hx).symm
      all_goals
        rw [← hx, hdc] at hdf; cases hdf; rfl
    cases sh with
    | nam =>
      simp only [Fields.wf, Bool.and_eq_true] at hw
      simp only [Dec] at hd
      simp only [CanonIH] at hih
      rw [field rfl hih.1.1 hih.1.2 hd.1, dec_canon rest vs ws hw.2 ht.2 hd.2 hih.2]
      simp [canonF]
    | omi =>
      simp only [Fields.wf, Bool.and_eq_true] at hw
      simp only [Dec] at hd
      simp only [CanonIH] at hih
      rw [dec_canon rest vs ws hw.2 ht.2 hd.2 hih.2]
      by_cases z : equal (encode t v) (zeroDoc t) = true
      · have hd1 := hd.1
        simp only [z, if_true, decodeField] at hd1
        cases hd1
        simp [canonF, z]
      · have z' : equal (encode t v) (zeroDoc t) = false := by simpa using z
        have hd1 := hd.1
        simp only [z', Bool.false_eq_true, if_false] at hd1
        rw [field rfl hih.1.1 hih.1.2 hd1]
        simp [canonF, z']
    | ign =>
      simp only [Fields.wf, Bool.and_eq_true] at hw
      simp only [Dec] at hd
      simp only [CanonIH] at hih
      rw [hd.1, dec_canon rest vs ws hw.2 ht.2 hd.2 hih.2]
      simp [canonF]
    | istruct fs' vs' =>
      simp only [Fields.wf, Bool.and_eq_true, decide_eq_true_eq] at hw
      simp only [Dec] at hd
      simp only [CanonIH] at hih
      simp only [hasType, Bool.and_eq_true] at ht
      obtain ⟨⟨ws', rfl, hd'⟩, hdr⟩ := hd
      rw [dec_canon fs' vs' ws' hw.1.1 ht.1.1 hd' hih.1, dec_canon rest vs ws hw.2 ht.2 hdr hih.2]
      simp [canonF]
    | imap t' kvs =>
      simp only [Fields.wf, Bool.and_eq_true] at hw
      simp only [Dec] at hd
      simp only [CanonIH] at hih
      obtain ⟨⟨kvs', rfl, hdk⟩, hdr⟩ := hd
      simp only [kvsOf] at hdk
      rw [hih.1] at hdk; cases hdk
      rw [dec_canon rest vs ws hw.2 ht.2 hdr hih.2]
      simp [canonF]
    | imapNil t' =>
      simp only [Fields.wf, Bool.and_eq_true] at hw
      simp only [Dec] at hd
      simp only [CanonIH] at hih
      obtain ⟨⟨kvs', rfl, hdk⟩, hdr⟩ := hd
      simp only [kvsOf, encodeKV, decodeP] at hdk
      cases hdk
      rw [dec_canon rest vs ws hw.2 ht.2 hdr hih.2]
      simp [canonF]


mutual
  theorem co : (v : GoVal) → ∀ t : GoType, closed t = true → t.wf = true → hasType t v = true →
      decode t (encode t v) = .ok (canon t v)
    | .int v, t, _, _, h => by
      cases t <;> simp [hasType] at h; simp [encode, canon, dec_int _ _ h]
    | .uint v, t, _, _, h => by
      cases t <;> simp [hasType] at h; simp [encode, canon, dec_uint _ _ h]
    | .f32 b, t, _, _, h => by
      cases t <;> simp [hasType] at h; simp [encode, canon, dec_f32 _ h.2]
    | .f64 b, t, _, _, h => by
      cases t <;> simp [hasType] at h; simp [encode, canon, dec_f64]
    | .str s, t, _, _, h => by
      cases t <;> simp [hasType] at h; simp [encode, canon, dec_str]
    | .bool b, t, _, _, h => by
      cases t <;> simp [hasType] at h; simp [encode, canon, dec_bool]
    | .bytesNil, t, _, _, h => by
      cases t <;> simp [hasType] at h; simp [encode, canon, dec_bytes]
    | .bytes bs, t, _, _, h => by
      cases t <;> simp [hasType] at h; simp [encode, canon, dec_bytes]
    | .barr bs, t, _, _, h => by
      cases t <;> simp [hasType] at h; simp [encode, canon, dec_barr _ _ h.1]
    | .time ms lost, t, _, _, h => by
      cases t <;> simp [hasType] at h; simp [encode, canon, dec_time]
    | .dur ns, t, _, _, h => by
      cases t <;> simp [hasType] at h; simp [encode, canon, dec_dur]
    | .uuid bs, t, _, _, h => by
      cases t <;> simp [hasType] at h; simp [encode, canon, dec_uuid _ h.1 h.2]
    | .ptrNil, t, _, _, h => by
      cases t <;> simp [hasType] at h; simp [encode, canon, decode]
    | .ptr v, t, hc, hn, h => by
      cases t <;> simp [hasType] at h
      rename_i t'
      simp only [closed] at hc
      simp only [GoType.wf, Bool.and_eq_true] at hn
      have ih := co v t' hc hn.2 h
      simp only [encode, canon]
      cases hx : encode t' v with
      | nil => simp [decode, isNilDoc]
      | _ =>
        rw [hx] at ih
        simp [decode, ih, Res.map, isNilDoc]
    | .sliceNil, t, _, _, h => by
      cases t <;> simp [hasType] at h; simp [encode, canon, decode, decodeL, Res.map]
    | .slice xs, t, hc, hn, h => by
      cases t <;> simp [hasType] at h
      rename_i t'
      simp only [closed] at hc
      simp only [GoType.wf, Bool.and_eq_true] at hn
      simp [encode, canon, decode, coL xs t' hc hn.2 h, Res.map]
    | .arr xs, t, hc, hn, h => by
      cases t <;> simp [hasType] at h
      rename_i n t'
      simp only [closed] at hc
      simp only [GoType.wf, Bool.and_eq_true] at hn
      have hlen : ¬ (encodeL t' xs).length > n := by rw [encodeL_length]; omega
      simp [encode, canon, decode, hlen, coL xs t' hc hn.2 h.2, Res.map,
        padTo_full _ n (canonL t' xs) (by rw [canonL_length]; omega)]
    | .mapNil, t, _, _, h => by
      cases t <;> simp [hasType] at h; simp [encode, canon, decode, decodeP, Res.map]
    | .map kvs, t, hc, hn, h => by
      cases t <;> simp [hasType] at h
      rename_i t'
      simp only [closed] at hc
      simp only [GoType.wf] at hn
      simp [encode, canon, decode, coKV kvs t' hc hn h.1 .nil .nil (by simp [decodeP]), Res.map]
    | .struct vs, t, hc, hn, h => by
      cases t <;> try (simp [hasType] at h; done)
      rename_i fs
      simp only [closed] at hc
      have hfw : Fields.wf fs = true := by
        simp only [GoType.wf, Bool.and_eq_true] at hn; exact hn.1.1
      have htf : hasTypeF fs vs = true := by
        simp only [hasType, Bool.and_eq_true] at h; exact h.1
      obtain ⟨ws, hd, hdec, _⟩ := struct_rt fs vs hn h (rt_allF vs fs hfw htf)
      rw [hd, dec_canon fs vs ws hfw htf hdec (coF vs fs hc hfw htf)]
      simp [canon]
    | .anyNil, t, hc, _, h => by
      cases t <;> simp [hasType] at h; simp [closed] at hc
    | .any t' v, t, hc, _, h => by
      cases t <;> simp [hasType] at h; simp [closed] at hc
  theorem coL : (xs : GoVals) → ∀ t : GoType, closed t = true → t.wf = true → hasTypeL t xs = true →
      decodeL (decode t) (encodeL t xs) = .ok (canonL t xs)
    | .nil, _, _, _, _ => by simp [encodeL, decodeL, canonL]
    | .cons v vs, t, hc, hn, h => by
      simp only [hasTypeL, Bool.and_eq_true] at h
      simp [encodeL, decodeL, canonL, co v t hc hn h.1, coL vs t hc hn h.2, Res.bind, Res.map]
  theorem coKV : (kvs : GoKVs) → ∀ t : GoType, closed t = true → t.wf = true → hasTypeKV t kvs = true →
      ∀ (acc : PList) (akv : GoKVs), decodeP (decode t) acc = .ok akv →
      decodeP (decode t) (encodeKV t kvs acc) = .ok (canonKV t kvs akv)
    | .nil, _, _, _, _, acc, akv, ha => by simpa [encodeKV, canonKV] using ha
    | .cons k v kvs, t, hc, hn, h, acc, akv, ha => by
      simp only [hasTypeKV, Bool.and_eq_true] at h
      simp only [encodeKV, canonKV]
      exact coKV kvs t hc hn h.2 _ _ (decodeP_set (decode t) k _ _ (co v t hc hn h.1.2) acc akv ha)
  theorem coF : (vs : GoVals) → ∀ fs : Fields, closedF fs = true → Fields.wf fs = true → hasTypeF fs vs = true →
      CanonIH fs vs
    | .nil, fs, _, _, _ => by cases fs <;> simp [CanonIH]
    | .cons v vs, .nil, _, _, _ => by simp [CanonIH]
    | .cons v vs, .cons md a t rest, hc, hw, ht => by
      simp only [hasTypeF, Bool.and_eq_true] at ht
      cases md
      · simp only [Fields.wf, closedF, Bool.and_eq_true] at hw hc
        simp only [CanonIH]; exact ⟨⟨hc.1, co v t hc.1 hw.1 ht.1⟩, coF vs rest hc.2 hw.2 ht.2⟩
      · simp only [Fields.wf, closedF, Bool.and_eq_true] at hw hc
        simp only [CanonIH]; exact ⟨⟨hc.1, co v t hc.1 hw.1 ht.1⟩, coF vs rest hc.2 hw.2 ht.2⟩
      · cases t <;> try (simp [Fields.wf] at hw; done)
        case map t' =>
          simp only [Fields.wf, closedF, closed, Bool.and_eq_true] at hw hc
          cases v <;> try (simp [hasType] at ht; done)
          case mapNil => simp only [CanonIH]; exact ⟨trivial, coF vs rest hc.2 hw.2 ht.2⟩
          case map kvs =>
            simp only [hasType, Bool.and_eq_true] at ht
            simp only [CanonIH]
            exact ⟨coKV kvs t' hc.1 hw.1 ht.1.1 .nil .nil (by simp [decodeP]), coF vs rest hc.2 hw.2 ht.2⟩
        case struct fs' =>
          simp only [Fields.wf, closedF, closed, Bool.and_eq_true] at hw hc
          cases v <;> try (simp [hasType] at ht; done)
          case struct vs' =>
            simp only [hasType, Bool.and_eq_true] at ht
            simp only [CanonIH]; exact ⟨coF vs' fs' hc.1 hw.1.1 ht.1.1, coF vs rest hc.2 hw.2 ht.2⟩
      · simp only [Fields.wf, closedF, Bool.and_eq_true] at hw hc
        simp only [CanonIH]; exact ⟨trivial, coF vs rest hc hw.2 ht.2⟩
end

end Uniflow.Codec
