/-
Second invariant of the process machine (`Uniflow.Process`): ORDER.
  * tokens are handed out in increasing order, so within one process registration order is
    token order; `exitHooks` is ascending, every activation's remaining list is descending;
  * an activation that still holds an early (registered-before-termination) token of `p` holds
    ALL smaller early tokens of `p` (`remClosed`) – with token conservation this makes the
    activation holding early tokens unique;
  * the log respects the order: an early token is logged only after every larger early token
    of the same process (`logOrd`).
-/
import Uniflow.Proofs.Process

namespace Uniflow.Process

structure Ord (s : State) : Prop where
  ownLt : ∀ k, k < s.nextTok → s.owner k < s.np
  hooksAsc : ∀ p, p < s.np → (s.procs p).hooks.Pairwise (fun a b => a.tok < b.tok)
  hooksEarly : ∀ p h, p < s.np → h ∈ (s.procs p).hooks → s.late h.tok = false
  remDesc : ∀ t f, t < s.nt → f ∈ (s.threads t).stack → f.rem.Pairwise (fun a b => b.tok < a.tok)
  remClosed : ∀ t f h k, t < s.nt → f ∈ (s.threads t).stack → h ∈ f.rem → s.late h.tok = false →
    k < h.tok → s.late k = false → s.owner k = f.proc → ∃ h', h' ∈ f.rem ∧ h'.tok = k
  logOrd : ∀ k1 k2, k1 < k2 → k2 < s.nextTok → s.owner k1 = s.owner k2 → s.late k1 = false →
    s.late k2 = false → 0 < cntL k1 s.log → 0 < cntL k2 s.log

theorem ord_init (nt : Nat) : Ord (init nt) := by
  refine ⟨?_, ?_, ?_, ?_, ?_, ?_⟩ <;> simp [init, cntL]

/-! ### consequences of the basic invariant used here -/

/-- a token of a running process sits in its `exitHooks` -/
theorem Good.running_has {s : State} (g : Good s) {p k : Nat} (_hp : p < s.np)
    (hrun : (s.procs p).terminated = false) (hk : k < s.nextTok) (ho : s.owner k = p) :
    ∃ h, h ∈ (s.procs p).hooks ∧ h.tok = k := by
  have hc := (g.cons k).1 hk
  have h1 : cntL k s.log = 0 := by
    by_cases h0 : 0 < cntL k s.log
    · obtain ⟨e, he, hek⟩ := cntL_pos h0
      have := g.logOK e he
      rw [hek, ho] at this
      rw [← this.2.2.2, hrun] at this
      simp at this
    · omega
  have h2 : framesCount k s = 0 := by
    apply sumTo_eq_zero
    intro t ht
    by_cases h0 : 0 < cntS k (s.threads t).stack
    · obtain ⟨f, hf, x, hx, hxk⟩ := cntS_pos h0
      have := (g.frameOK t f ht hf).2 x hx
      rw [hxk, ho] at this
      rw [← this.2.2.1, hrun] at this
      simp at this
    · omega
  have h3 : 0 < hooksCount k s := by simp only [total] at hc; omega
  obtain ⟨q, hq, hq0⟩ := sumTo_pos h3
  obtain ⟨x, hx, hxk⟩ := cntH_pos hq0
  have := (g.hooksOK q x hq hx).1
  rw [hxk, ho] at this
  subst this
  exact ⟨x, hx, hxk⟩

theorem cntS_two {k : Nat} {st : List Frame} {f f' : Frame} {x x' : Hook} (hf : f ∈ st) (hf' : f' ∈ st)
    (hne : f ≠ f') (hx : x ∈ f.rem) (hx' : x' ∈ f'.rem) (hk : x.tok = k) (hk' : x'.tok = k) :
    2 ≤ cntS k st := by
  induction st with
  | nil => simp at hf
  | cons g r ih =>
    simp only [cntS]
    rcases List.mem_cons.mp hf with e | e <;> rcases List.mem_cons.mp hf' with e' | e'
    · exact absurd (e.trans e'.symm) hne
    · subst e
      have := cntH_mem_pos hx hk; have := cntS_mem_pos e' hx' hk'; omega
    · subst e'
      have := cntH_mem_pos hx' hk'; have := cntS_mem_pos e hx hk; omega
    · have := ih e e'; omega

/-- **A token is held by one activation only**: two activations (frames on any threads' stacks)
that both hold a hook with the same token are the same frame of the same thread. -/
theorem Good.frame_tok_unique {s : State} (g : Good s) {t t' : Nat} {f f' : Frame} {x x' : Hook}
    (ht : t < s.nt) (ht' : t' < s.nt) (hf : f ∈ (s.threads t).stack) (hf' : f' ∈ (s.threads t').stack)
    (hx : x ∈ f.rem) (hx' : x' ∈ f'.rem) (hk : x'.tok = x.tok) : t = t' ∧ f = f' := by
  have hlt := g.frame_lt ht hf hx
  have hc := (g.cons x.tok).1 hlt
  simp only [total] at hc
  by_cases e : t = t'
  · subst e
    refine ⟨rfl, ?_⟩
    by_cases e2 : f = f'
    · exact e2
    · have h2 := cntS_two hf hf' e2 hx hx' rfl hk
      have h3 := sumTo_ge (f := fun t => cntS x.tok (s.threads t).stack) ht
      simp only [framesCount] at hc
      omega
  · have h1 := cntS_mem_pos hf hx rfl
    have h2 := cntS_mem_pos hf' hx' hk
    have h3 := sumTo_ge_two (f := fun t => cntS x.tok (s.threads t).stack) ht ht' e
    simp only [framesCount] at hc
    omega

/-! ### projections of `logMove` -/

@[simp] theorem logMove_np (s : State) (t : Nat) (f : Frame) (h : Hook) (hs : List Hook) (rest : List Frame) :
    (logMove s t f h hs rest).np = s.np := rfl
@[simp] theorem logMove_nt (s : State) (t : Nat) (f : Frame) (h : Hook) (hs : List Hook) (rest : List Frame) :
    (logMove s t f h hs rest).nt = s.nt := rfl
@[simp] theorem logMove_procs (s : State) (t : Nat) (f : Frame) (h : Hook) (hs : List Hook) (rest : List Frame) :
    (logMove s t f h hs rest).procs = s.procs := rfl
@[simp] theorem logMove_nextTok (s : State) (t : Nat) (f : Frame) (h : Hook) (hs : List Hook) (rest : List Frame) :
    (logMove s t f h hs rest).nextTok = s.nextTok := rfl
@[simp] theorem logMove_owner (s : State) (t : Nat) (f : Frame) (h : Hook) (hs : List Hook) (rest : List Frame) :
    (logMove s t f h hs rest).owner = s.owner := rfl
@[simp] theorem logMove_late (s : State) (t : Nat) (f : Frame) (h : Hook) (hs : List Hook) (rest : List Frame) :
    (logMove s t f h hs rest).late = s.late := rfl
@[simp] theorem logMove_log (s : State) (t : Nat) (f : Frame) (h : Hook) (hs : List Hook) (rest : List Frame) :
    (logMove s t f h hs rest).log = { tok := h.tok, proc := f.proc, kind := h.kind, err := f.err } :: s.log := rfl
theorem logMove_threads (s : State) (t : Nat) (f : Frame) (h : Hook) (hs : List Hook) (rest : List Frame) :
    (logMove s t f h hs rest).threads =
      (setThread s t { s.threads t with stack := { f with rem := hs } :: rest }).threads := rfl

theorem mem_stack_logMove (s : State) (t t' : Nat) (f : Frame) (h : Hook) (hs : List Hook) (rest : List Frame)
    (g : Frame) :
    g ∈ ((logMove s t f h hs rest).threads t').stack ↔
      (t' = t ∧ (g = { f with rem := hs } ∨ g ∈ rest)) ∨ (t' ≠ t ∧ g ∈ (s.threads t').stack) := by
  rw [logMove_threads, mem_stack_setThread]
  simp

/-! ### preservation -/

theorem ord_pushEmpty {s : State} (o : Ord s) (t p e : Nat) :
    Ord (pushFrame s t { proc := p, rem := [], err := e }) := by
  refine ⟨o.ownLt, o.hooksAsc, o.hooksEarly, ?_, ?_, o.logOrd⟩
  · intro t' f ht' hf
    rcases (mem_stack_pushFrame s t t' _ f).mp hf with ⟨_, rfl⟩ | h
    · simp
    · exact o.remDesc t' f ht' h
  · intro t' f h k ht' hf hh
    rcases (mem_stack_pushFrame s t t' _ f).mp hf with ⟨_, rfl⟩ | h'
    · simp at hh
    · exact o.remClosed t' f h k ht' h' hh

theorem ord_exitFlip {s : State} (g : Good s) (o : Ord s) (t p e : Nat) (hp : p < s.np) :
    Ord (exitFlip s t p e) := by
  unfold exitFlip
  by_cases hterm : (s.procs p).terminated = true
  · simp only [hterm, if_true, g.hooksRun p hp hterm, List.reverse_nil]
    exact ord_pushEmpty o t p e
  · simp only [hterm, if_false, Bool.false_eq_true]
    have hrun : (s.procs p).terminated = false := by simpa using hterm
    refine ⟨o.ownLt, ?_, ?_, ?_, ?_, o.logOrd⟩
    · intro q hq
      by_cases hqp : q = p
      · subst hqp; simp
      · simpa [upd_other _ _ hqp] using o.hooksAsc q hq
    · intro q h hq hh
      by_cases hqp : q = p
      · subst hqp; simp at hh
      · simp [upd_other _ _ hqp] at hh ⊢; exact o.hooksEarly q h hq hh
    · intro t' f ht' hf
      rcases (mem_stack_pushFrame _ t t' _ f).mp hf with ⟨_, rfl⟩ | h
      · simp only [List.pairwise_reverse]
        exact o.hooksAsc p hp
      · exact o.remDesc t' f ht' h
    · intro t' f h k ht' hf hh hl hk hlk hok
      rcases (mem_stack_pushFrame _ t t' _ f).mp hf with ⟨_, rfl⟩ | h'
      · have hh' : h ∈ (s.procs p).hooks := by simpa using hh
        have hlt := g.hook_lt hp hh'
        obtain ⟨x, hx, hxk⟩ := g.running_has hp hrun (k := k) (by omega) hok
        exact ⟨x, by simpa using hx, hxk⟩
      · exact o.remClosed t' f h k ht' h' hh hl hk hlk hok

theorem ord_addHook {s : State} (g : Good s) (o : Ord s) (t p : Nat) (k : HookKind) (hp : p < s.np) :
    Ord (addHook s t p k) := by
  unfold addHook
  by_cases hterm : (s.procs p).terminated = true
  · simp only [hterm, if_true]
    refine ⟨?_, o.hooksAsc, ?_, ?_, ?_, ?_⟩
    · intro k' hk'
      by_cases e : k' = s.nextTok
      · subst e; simpa using hp
      · simp [upd_other _ _ e]; exact o.ownLt k' (by simp at hk'; omega)
    · intro q h hq hh
      have hlt := g.hook_lt hq hh
      simpa [upd_other _ _ (Nat.ne_of_lt hlt)] using o.hooksEarly q h hq hh
    · intro t' f ht' hf
      rcases (mem_stack_pushFrame _ t t' _ f).mp hf with ⟨_, rfl⟩ | h
      · simp
      · exact o.remDesc t' f ht' h
    · intro t' f h k' ht' hf hh hl hk hlk hok
      rcases (mem_stack_pushFrame _ t t' _ f).mp hf with ⟨_, rfl⟩ | h'
      · simp at hh; subst hh; simp at hl
      · have hlt := g.frame_lt ht' h' hh
        have e1 : h.tok ≠ s.nextTok := by omega
        have e2 : k' ≠ s.nextTok := by omega
        simp [upd_other _ _ e1, upd_other _ _ e2] at hl hlk hok
        exact o.remClosed t' f h k' ht' h' hh hl hk hlk hok
    · intro k1 k2 h12 h2 hown hl1 hl2 hc
      by_cases e : k2 = s.nextTok
      · subst e; simp at hl2
      · have e1 : k1 ≠ s.nextTok := by simp at h2; omega
        simp [upd_other _ _ e, upd_other _ _ e1] at hown hl1 hl2 hc ⊢
        exact o.logOrd k1 k2 h12 (by simp at h2; omega) hown hl1 hl2 hc
  · have hrun : (s.procs p).terminated = false := by simpa using hterm
    dsimp only
    rw [if_neg hterm]
    split
    · exact o
    · refine ⟨?_, ?_, ?_, o.remDesc, ?_, ?_⟩
      · intro k' hk'
        by_cases e : k' = s.nextTok
        · subst e; simpa using hp
        · simp [upd_other _ _ e]; exact o.ownLt k' (by simp at hk'; omega)
      · intro q hq
        by_cases hqp : q = p
        · subst hqp
          simp only [alloc_procs, setProc_procs, upd_same, List.pairwise_append]
          refine ⟨o.hooksAsc q hp, by simp, ?_⟩
          intro a ha b hb
          simp at hb; subst hb
          exact g.hook_lt hp ha
        · simpa [upd_other _ _ hqp] using o.hooksAsc q hq
      · intro q h hq hh
        by_cases hqp : q = p
        · subst hqp
          simp at hh
          rcases hh with hh | hh
          · have hlt := g.hook_lt hp hh
            simpa [upd_other _ _ (Nat.ne_of_lt hlt)] using o.hooksEarly q h hp hh
          · subst hh; simp
        · simp [upd_other _ _ hqp] at hh
          have hlt := g.hook_lt hq hh
          simpa [upd_other _ _ (Nat.ne_of_lt hlt)] using o.hooksEarly q h hq hh
      · intro t' f h k' ht' hf hh hl hk hlk hok
        have hlt := g.frame_lt ht' hf hh
        have e1 : h.tok ≠ s.nextTok := by omega
        have e2 : k' ≠ s.nextTok := by omega
        simp [upd_other _ _ e1, upd_other _ _ e2] at hl hlk hok
        exact o.remClosed t' f h k' ht' hf hh hl hk hlk hok
      · intro k1 k2 h12 h2 hown hl1 hl2 hc
        have e1 : k1 ≠ s.nextTok := by simp at h2; omega
        by_cases e : k2 = s.nextTok
        · subst e
          simp [upd_other _ _ e1] at hown hc
          obtain ⟨x, hx, hxk⟩ := cntL_pos hc
          have := g.logOK x hx
          rw [hxk, hown] at this
          rw [← this.2.2.2, hrun] at this
          simp at this
        · simp [upd_other _ _ e, upd_other _ _ e1] at hown hl1 hl2 hc ⊢
          exact o.logOrd k1 k2 h12 (by simp at h2; omega) hown hl1 hl2 hc

theorem ord_new {s : State} (o : Ord s) : Ord { setProc s s.np {} with np := s.np + 1 } := by
  refine ⟨?_, ?_, ?_, o.remDesc, o.remClosed, o.logOrd⟩
  · intro k hk; have := o.ownLt k hk; simp; omega
  · intro q hq
    by_cases hqp : q = s.np
    · subst hqp; simp
    · simpa [upd_other _ _ hqp] using o.hooksAsc q (by simp at hq; omega)
  · intro q h hq hh
    by_cases hqp : q = s.np
    · subst hqp; simp at hh
    · simp [upd_other _ _ hqp] at hh ⊢; exact o.hooksEarly q h (by simp at hq; omega) hh

theorem ord_mkChild {s : State} (g : Good s) (o : Ord s) (p : Nat) : Ord (mkChild s p) := by
  unfold mkChild
  refine ⟨?_, ?_, ?_, o.remDesc, ?_, ?_⟩
  · intro k' hk'
    by_cases e : k' = s.nextTok
    · subst e; simp
    · simp [upd_other _ _ e]; have := o.ownLt k' (by simp at hk'; omega); omega
  · intro q hq
    by_cases hqp : q = s.np
    · subst hqp; simp
    · simpa [upd_other _ _ hqp] using o.hooksAsc q (by simp at hq; omega)
  · intro q h hq hh
    by_cases hqp : q = s.np
    · subst hqp; simp at hh; subst hh; simp
    · simp [upd_other _ _ hqp] at hh
      have hq' : q < s.np := by simp at hq; omega
      have hlt := g.hook_lt hq' hh
      simpa [upd_other _ _ (Nat.ne_of_lt hlt)] using o.hooksEarly q h hq' hh
  · intro t' f h k' ht' hf hh hl hk hlk hok
    have hlt := g.frame_lt ht' hf hh
    have e1 : h.tok ≠ s.nextTok := by omega
    have e2 : k' ≠ s.nextTok := by omega
    simp [upd_other _ _ e1, upd_other _ _ e2] at hl hlk hok
    exact o.remClosed t' f h k' ht' hf hh hl hk hlk hok
  · intro k1 k2 h12 h2 hown hl1 hl2 hc
    have e1 : k1 ≠ s.nextTok := by simp at h2; omega
    by_cases e : k2 = s.nextTok
    · subst e
      simp [upd_other _ _ e1] at hown
      have := o.ownLt k1 h12
      omega
    · simp [upd_other _ _ e, upd_other _ _ e1] at hown hl1 hl2 hc ⊢
      exact o.logOrd k1 k2 h12 (by simp at h2; omega) hown hl1 hl2 hc

theorem ord_inert {s s' : State} (o : Ord s) (i : Inert s s') (hl : s'.late = s.late) : Ord s' := by
  refine ⟨?_, ?_, ?_, ?_, ?_, ?_⟩
  · rw [i.nextTok, i.owner, i.np]; exact o.ownLt
  · intro q hq; rw [(i.procs q).1]; exact o.hooksAsc q (by rw [← i.np]; exact hq)
  · intro q h hq hh; rw [hl]; exact o.hooksEarly q h (by rw [← i.np]; exact hq) (by rw [← (i.procs q).1]; exact hh)
  · intro t f ht hf; exact o.remDesc t f (by rw [← i.nt]; exact ht) (by rw [← i.stacks t]; exact hf)
  · intro t f h k ht hf
    rw [hl, i.owner]
    exact o.remClosed t f h k (by rw [← i.nt]; exact ht) (by rw [← i.stacks t]; exact hf)
  · rw [i.nextTok, i.owner, hl, i.log]; exact o.logOrd

theorem ord_pop {s : State} (o : Ord s) (t : Nat) (f : Frame) (rest : List Frame)
    (hst : (s.threads t).stack = f :: rest) :
    Ord (setThread s t { s.threads t with stack := rest }) := by
  have sub : ∀ t' f', f' ∈ ((setThread s t { s.threads t with stack := rest }).threads t').stack →
      f' ∈ (s.threads t').stack := by
    intro t' f' hf'
    rcases (mem_stack_setThread s t t' _ f').mp hf' with ⟨e, h⟩ | ⟨_, h⟩
    · subst e; rw [hst]; simp at h; simp [h]
    · exact h
  refine ⟨o.ownLt, o.hooksAsc, o.hooksEarly, ?_, ?_, o.logOrd⟩
  · intro t' f' ht' hf'; exact o.remDesc t' f' ht' (sub t' f' hf')
  · intro t' f' h k ht' hf'; exact o.remClosed t' f' h k ht' (sub t' f' hf')

theorem ord_logMove {s : State} (g : Good s) (o : Ord s) (t : Nat) (f : Frame) (h : Hook) (hs : List Hook)
    (rest : List Frame) (ht : t < s.nt) (hst : (s.threads t).stack = f :: rest) (hf : f.rem = h :: hs) :
    Ord (logMove s t f h hs rest) := by
  have hfm : f ∈ (s.threads t).stack := by rw [hst]; simp
  have hdesc := o.remDesc t f ht hfm
  rw [hf, List.pairwise_cons] at hdesc
  refine ⟨o.ownLt, o.hooksAsc, o.hooksEarly, ?_, ?_, ?_⟩
  · intro t' f' ht' hf'
    rcases (mem_stack_logMove s t t' f h hs rest f').mp hf' with ⟨e, h' | h'⟩ | ⟨_, h'⟩
    · subst h'; exact hdesc.2
    · subst e; exact o.remDesc t' f' ht' (by rw [hst]; simp [h'])
    · exact o.remDesc t' f' ht' h'
  · intro t' f' x k ht' hf' hx hl hk hlk hok
    rcases (mem_stack_logMove s t t' f h hs rest f').mp hf' with ⟨e, h' | h'⟩ | ⟨_, h'⟩
    · subst h'; subst e
      simp only at hx hok ⊢
      obtain ⟨y, hy, hyk⟩ := o.remClosed t' f x k ht hfm (by rw [hf]; simp [hx]) hl hk hlk hok
      rw [hf] at hy
      rcases List.mem_cons.mp hy with e1 | e1
      · subst e1
        have := hdesc.1 x hx
        omega
      · exact ⟨y, e1, hyk⟩
    · subst e; exact o.remClosed t' f' x k ht' (by rw [hst]; simp [h']) hx hl hk hlk hok
    · exact o.remClosed t' f' x k ht' h' hx hl hk hlk hok
  · intro k1 k2 h12 h2 hown hl1 hl2 hc
    simp only [logMove_log, cntL_cons, logMove_nextTok, logMove_owner, logMove_late] at *
    by_cases hold : 0 < cntL k1 s.log
    · have := o.logOrd k1 k2 h12 h2 hown hl1 hl2 hold; omega
    · have hk1 : h.tok = k1 := by
        by_cases e : h.tok = k1
        · exact e
        · simp [e] at hc; omega
      by_cases hdone : 0 < cntL k2 s.log
      · omega
      · exfalso
        have hfo := (g.frameOK t f ht hfm).2 h (by rw [hf]; simp)
        have hc2 := (g.cons k2).1 h2
        simp only [total] at hc2
        by_cases hh0 : 0 < hooksCount k2 s
        · obtain ⟨q, hq, hq0⟩ := sumTo_pos hh0
          obtain ⟨x, hx, hxk⟩ := cntH_pos hq0
          have h5 := (g.hooksOK q x hq hx).1
          rw [hxk, ← hown, ← hk1, hfo.2.2.1] at h5
          have h6 := g.hooksRun q hq (by rw [← h5]; exact hfo.1)
          rw [h6] at hx; simp at hx
        · have hf0 : 0 < framesCount k2 s := by omega
          obtain ⟨t', ht', ht0⟩ := sumTo_pos hf0
          obtain ⟨f', hf', x', hx', hxk'⟩ := cntS_pos ht0
          have h5 := ((g.frameOK t' f' ht' hf').2 x' hx').2.2.1
          rw [hxk'] at h5
          obtain ⟨y, hy, hyk⟩ := o.remClosed t' f' x' k1 ht' hf' hx' (by rw [hxk']; exact hl2)
            (by rw [hxk']; exact h12) hl1 (by rw [hown]; exact h5)
          have hu := g.frame_tok_unique ht ht' hfm hf' (x := h) (by rw [hf]; simp) hy (by rw [hyk, hk1])
          obtain ⟨e1, e2⟩ := hu
          subst e2
          rw [hf] at hx'
          rcases List.mem_cons.mp hx' with e3 | e3
          · subst e3; omega
          · have := hdesc.1 x' e3; omega

/-! ### assembling the step -/

theorem ord_waitDone {s : State} (g : Good s) (o : Ord s) (p : Nat) : Ord (waitDone s p) :=
  ord_inert o (inert_waitDone s g p) (waitDone_ghost s p).2.2.2.2.2

theorem ord_startOp {s : State} (g : Good s) (o : Ord s) (t : Nat) (op : Op) : Ord (startOp s t op) := by
  cases op with
  | new => exact ord_new o
  | exit p e =>
    simp only [startOp]; split
    · exact ord_exitFlip g o t p e (by assumption)
    · exact o
  | add p h =>
    simp only [startOp]; split
    · exact ord_addHook g o t p _ (by assumption)
    · exact o
  | fork p =>
    simp only [startOp]; split
    · rename_i hp
      have i1 := inert_setProc s g p { s.procs p with children := (s.procs p).children + 1 } rfl rfl rfl rfl
      have g1 := good_inert g i1
      exact ord_inert (ord_inert o i1 rfl) (inert_setPc _ g1 t (.forkReg p) (by intro q hq; cases hq; exact hp)) rfl
    · exact o
  | join p =>
    simp only [startOp]; split
    · exact ord_inert o (inert_setPc _ g t (.joining p) (by intro q hq; cases hq)) rfl
    · exact o
  | setv p k v =>
    simp only [startOp]; split
    · exact ord_inert o (inert_setProc s g p { s.procs p with data := setData (s.procs p).data k v } rfl rfl rfl rfl) rfl
    · exact o
  | delv p k =>
    simp only [startOp]; split
    · refine ord_inert o ⟨rfl, rfl, ?_, fun _ => rfl, rfl, rfl, rfl, g.pcOK⟩ rfl
      intro q
      have := removeValue_fields s.np s.procs p k q
      exact ⟨this.1, this.2.1, this.2.2.1, this.2.2.2.1⟩
    · exact o

theorem ord_forkReg {s : State} (g : Good s) (o : Ord s) (t p : Nat) (hp : p < s.np) : Ord (forkReg s t p) := by
  unfold forkReg
  have i1 := inert_setPc s g t .idle (by intro q hq; cases hq)
  have g1 := good_inert g i1
  have o1 := ord_inert o i1 rfl
  exact ord_addHook (good_mkChild g1 p) (ord_mkChild g1 o1 p) t p _ (by simp [mkChild]; omega)

theorem ord_runHook {s : State} (g : Good s) (o : Ord s) (t : Nat) (f : Frame) (h : Hook) (hs : List Hook)
    (rest : List Frame) (ht : t < s.nt) (hst : (s.threads t).stack = f :: rest) (hf : f.rem = h :: hs) :
    Ord (runHook s t f h hs rest) := by
  have g1 := good_logMove g t f h hs rest ht hst hf
  have o1 := ord_logMove g o t f h hs rest ht hst hf
  unfold runHook
  dsimp only
  split
  · exact o1
  · exact ord_waitDone g1 o1 _
  · rename_i c hc
    have := (g.frameOK t f ht (by rw [hst]; simp)).2 h (by rw [hf]; simp)
    exact ord_exitFlip g1 o1 t c f.err (this.2.2.2 c hc)

theorem ord_contStep {s : State} (g : Good s) (o : Ord s) (t : Nat) (ht : t < s.nt) : Ord (contStep s t) := by
  unfold contStep
  dsimp only
  split
  · rename_i p hpc
    exact ord_forkReg g o t p (g.pcOK t p hpc)
  · split
    · exact ord_inert o (inert_setPc s g t (.waiting _) (by intro q hq; cases hq)) rfl
    · exact ord_inert o (inert_setPc s g t .idle (by intro q hq; cases hq)) rfl
  · exact o
  · split
    · exact o
    · rename_i f rest hst
      split
      · exact ord_pop o t f rest hst
      · rename_i h hs hf
        exact ord_runHook g o t f h hs rest ht hst hf

theorem ord_step {s : State} (g : Good s) (o : Ord s) (t : Nat) (a : Action) : Ord (step s t a) := by
  unfold step
  split
  · rename_i ht
    cases a with
    | start op => simp only []; split
                  · exact ord_startOp g o t op
                  · exact o
    | cont => exact ord_contStep g o t ht
  · exact o

theorem ord_run {s : State} (g : Good s) (o : Ord s) (sched : List (Nat × Action)) : Ord (run s sched) := by
  induction sched generalizing s with
  | nil => exact o
  | cons x xs ih => obtain ⟨t, a⟩ := x; exact ih (good_step g t a) (ord_step g o t a)

end Uniflow.Process
