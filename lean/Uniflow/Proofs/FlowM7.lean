/-
C02, joint model, nodes with several in-ports, part 7: the node relation `JBm` (abstract tracer + id bound) for any
number of forward threads, and the steps of the node model for thread `i` – including the many-to-one `Read`.
-/
import Uniflow.Proofs.FlowM6

namespace Uniflow.FlowM
open Uniflow.Tracer Uniflow.Node Uniflow.Flow Uniflow.FlowInv Uniflow.FlowG Uniflow.ATracer Uniflow.FlowH

/-- node `nd` (any number of forward threads) refines the abstract tracer state `a`; every id it knows is `< nx` -/
structure JBm (nd : Node) (a : A) (nx : Nat) : Prop where
  j : J nd a []
  bnd : ∀ k ∈ ids a.reqs ++ nd.threads.flatMap tids, k < nx
  np : nd.panic = false

theorem jbm_mono (nd : Node) (a : A) (nx nx' : Nat) (h : JBm nd a nx) (hle : nx ≤ nx') : JBm nd a nx' :=
  ⟨h.j, fun k hk => Nat.lt_of_lt_of_le (h.bnd k hk) hle, h.np⟩

theorem jbm_fut (nd : Node) (a : A) (nx : Nat) (h : JBm nd a nx) (fut : List Pid) (hnd : fut.Nodup)
    (hf : ∀ k ∈ fut, nx ≤ k) : J nd a fut := by
  refine ⟨h.j.strict, h.j.trel, h.j.inv, ?_, h.j.th⟩
  intro k
  have h0 := h.j.cnt k
  simp only [List.count_nil, Nat.add_zero] at h0
  by_cases hk : k ∈ fut
  · have h1 : (ids a.reqs).count k = 0 := List.count_eq_zero.mpr (fun hm =>
      Nat.lt_irrefl _ (Nat.lt_of_lt_of_le (h.bnd k (List.mem_append_left _ hm)) (hf k hk)))
    have h2 : (nd.threads.flatMap tids).count k = 0 := List.count_eq_zero.mpr (fun hm =>
      Nat.lt_irrefl _ (Nat.lt_of_lt_of_le (h.bnd k (List.mem_append_right _ hm)) (hf k hk)))
    have h3 : fut.count k ≤ 1 := by rw [List.Nodup.count hnd]; split <;> omega
    omega
  · rw [List.count_eq_zero.mpr hk]; omega

theorem mem_setThread (ths : List Thread) (i : Nat) (th th' : Thread) (h : getThread ths i = some th) (k : Pid)
    (hk : k ∈ (setThread ths i th').flatMap tids) : k ∈ ths.flatMap tids ∨ k ∈ tids th' := by
  have hc := count_flatMap_setThread tids ths i th th' h k
  have h1 := List.count_pos_iff.mpr hk
  by_cases h2 : k ∈ tids th'
  · exact Or.inr h2
  · left
    rw [List.count_eq_zero.mpr h2] at hc
    exact List.count_pos_iff.mp (by omega)

theorem mem_thread (ths : List Thread) (i : Nat) (th : Thread) (h : getThread ths i = some th) (k : Pid)
    (hk : k ∈ tids th) : k ∈ ths.flatMap tids := by
  induction ths generalizing i with
  | nil => simp [getThread] at h
  | cons t ts ih =>
    cases i with
    | zero => simp only [getThread, Option.some.injEq] at h; subst h; simp [hk]
    | succ i => simp only [getThread] at h; simp only [List.flatMap_cons, List.mem_append]; right; exact ih i h

/-- a copy arrives on in-port `i` -/
theorem jbm_deliver (nd : Node) (a : A) (nx : Nat) (h : JBm nd a nx) (i : Rid) (th : Thread)
    (hg : getThread nd.threads i = some th) (c : Pid) (v : Val) (hc : nx ≤ c) :
    Node.step nd (.deliver i ⟨c, v⟩) =
      some ({ nd with threads := setThread nd.threads i { th with inbox := th.inbox ++ [⟨c, v⟩] } }, []) ∧
    JBm { nd with threads := setThread nd.threads i { th with inbox := th.inbox ++ [⟨c, v⟩] } } a (c + 1) := by
  have hJ := jbm_fut nd a nx h [c] (by simp) (by intro k hk; simp at hk; rw [hk]; exact hc)
  have hJ' := J_deliver nd a [] i ⟨c, v⟩ th (by simpa [introS] using hJ) hg
  refine ⟨by simp [Node.step, hg], hJ', ?_, h.np⟩
  intro k hk
  rw [List.mem_append] at hk
  rcases hk with hk | hk
  · exact Nat.lt_succ_of_lt (Nat.lt_of_lt_of_le (h.bnd k (List.mem_append_left _ hk)) hc)
  · rcases mem_setThread nd.threads i th _ hg k hk with h1 | h1
    · exact Nat.lt_succ_of_lt (Nat.lt_of_lt_of_le (h.bnd k (List.mem_append_right _ h1)) hc)
    · simp only [tids, List.map_append, List.map_cons, List.map_nil, List.mem_append, List.mem_singleton] at h1
      rcases h1 with (h1 | h1) | h1
      · exact Nat.lt_succ_of_lt (Nat.lt_of_lt_of_le
          (h.bnd k (List.mem_append_right _ (mem_thread _ i th hg k (by simp [tids, h1])))) hc)
      · rw [h1]; exact Nat.lt_succ_self _
      · exact Nat.lt_succ_of_lt (Nat.lt_of_lt_of_le
          (h.bnd k (List.mem_append_right _ (mem_thread _ i th hg k (by simp [tids, h1])))) hc)

/-- `Read` by thread `i`: one-to-one / one-to-many enter the action; many-to-one enters the action with the group
when the packet completes the OLDEST open row, else holds the echo program -/
theorem jbm_read (nd : Node) (a : A) (nx : Nat) (h : JBm nd a nx) (i : Rid) (p : Pkt) (rest : List Pkt)
    (hg : getThread nd.threads i = some { inbox := p :: rest, pc := .idle }) :
    ∃ nd' pc', Node.step nd (.read i) = some (nd', []) ∧
      ((∃ g, pc' = .action p g) ∨ pc' = .emit [.write none p]) ∧
      getThread nd'.threads i = some { inbox := rest, pc := pc' } ∧
      (∀ j, j ≠ i → getThread nd'.threads j = getThread nd.threads j) ∧ nd'.kind = nd.kind ∧
      JBm nd' (aread a i p.id) nx := by
  have hbnd : ∀ pc' rows', ((∃ g, pc' = PC.action p g) ∨ pc' = .emit [.write none p]) →
      JBm { nd with tr := Tracer.read nd.tr i p.id, rows := rows',
                    threads := setThread nd.threads i { inbox := rest, pc := pc' } } (aread a i p.id) nx := by
    intro pc' rows' hpc
    obtain ⟨_, hJ'⟩ := J_read nd a [] i p rest pc' rows' h.j hg hpc
    refine ⟨hJ', ?_, h.np⟩
    intro k hk
    rw [List.mem_append] at hk
    have hold : ∀ k, k ∈ tids { inbox := p :: rest, pc := PC.idle } → k < nx :=
      fun k hk' => h.bnd k (List.mem_append_right _ (mem_thread _ i _ hg k hk'))
    rcases hk with hk | hk
    · simp only [aread, ids_append, idsR, cellsOfSt, openIds, List.mem_append, List.mem_singleton] at hk
      rcases hk with hk | hk
      · exact h.bnd k (List.mem_append_left _ hk)
      · rw [hk]; exact hold p.id (by simp [tids])
    · rcases mem_setThread nd.threads i _ _ hg k hk with h1 | h1
      · exact h.bnd k (List.mem_append_right _ h1)
      · have hp : pendIds pc' = [] := by rcases hpc with ⟨g, e⟩ | e <;> subst e <;> rfl
        simp only [tids, hp, List.append_nil] at h1
        exact hold k (by simp only [tids, pendIds, List.append_nil, List.map_cons, List.mem_cons]; right; exact h1)
  have hget : ∀ pc', getThread (setThread nd.threads i { inbox := rest, pc := pc' }) i = some { inbox := rest, pc := pc' } := by
    intro pc'; rw [getThread_setThread nd.threads i i _ (by rw [hg]; rfl)]; simp
  have hoth : ∀ pc' j, j ≠ i → getThread (setThread nd.threads i { inbox := rest, pc := pc' }) j = getThread nd.threads j := by
    intro pc' j hj; rw [getThread_setThread nd.threads i j _ (by rw [hg]; rfl)]; simp [hj]
  cases hk : nd.kind with
  | oneToOne =>
    exact ⟨_, .action p [p], by simp [Node.step, hg, hk], Or.inl ⟨[p], rfl⟩, hget _, hoth _, by simp [hk],
      hbnd _ nd.rows (Or.inl ⟨[p], rfl⟩)⟩
  | oneToMany k' =>
    exact ⟨_, .action p [p], by simp [Node.step, hg, hk], Or.inl ⟨[p], rfl⟩, hget _, hoth _, by simp [hk],
      hbnd _ nd.rows (Or.inl ⟨[p], rfl⟩)⟩
  | manyToOne k' =>
    cases hr : rgRead k' i p nd.rows with
    | mk rows' grp =>
      cases grp with
      | some g =>
        exact ⟨_, .action p g, by simp [Node.step, hg, hk, hr], Or.inl ⟨g, rfl⟩, hget _, hoth _, by simp [hk],
          hbnd _ rows' (Or.inl ⟨g, rfl⟩)⟩
      | none =>
        exact ⟨_, .emit [.write none p], by simp [Node.step, hg, hk, hr], Or.inr rfl, hget _, hoth _, by simp [hk],
          hbnd _ rows' (Or.inr rfl)⟩

end Uniflow.FlowM
