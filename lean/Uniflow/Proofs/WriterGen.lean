/-
Link generations of `Uniflow.Writer` are fresh: an invariant over every history.

`Writer.Link` hands out `linked + 1` and counts it. Every generation on record – of a live link, of a
request a reader still holds, of a drop notice whose goroutine has not run, of an answer in flight – is
one that was handed out before (`≤ linked`), and live links carry pairwise different generations. So the
generation a NEW link gets is carried by no request recorded before it: a late answer over a removed link
can never be taken for an answer over the new one, however often a link flaps and whatever the writes
between were numbered. (Seeded changes c01m / c03m, thirteenth round: generations taken from `written`
and write numbers restarted on an idle writer – exactly this invariant was given up.)
-/
import Uniflow.Model.Writer

namespace Uniflow.WriterProofs
open Uniflow.Writer

structure GenOK (m : W) : Prop where
  links : ∀ g ∈ m.links, g ≤ m.linked
  nodup : m.links.Nodup
  pend : ∀ r, ∀ e ∈ m.pend r, e.1 ≤ m.linked
  drops : ∀ r, ∀ e ∈ m.drops r, e.1 ≤ m.linked
  flight : ∀ r, ∀ e ∈ m.flight r, e.2.1 ≤ m.linked

theorem genOK_init : GenOK W.init := by
  refine ⟨?_, ?_, ?_, ?_, ?_⟩ <;> simp [W.init]

/-- `(*Writer).receive` touches rows and write numbers only. -/
theorem receiveWith_gen (chk : Bool) (m : W) (a : Ans) (r : RId) (l w : Nat) :
    (receiveWith chk m a r l w).1.links = m.links ∧ (receiveWith chk m a r l w).1.linked = m.linked ∧
    (receiveWith chk m a r l w).1.pend = m.pend ∧ (receiveWith chk m a r l w).1.drops = m.drops ∧
    (receiveWith chk m a r l w).1.flight = m.flight := by
  unfold receiveWith
  repeat' split
  all_goals exact ⟨rfl, rfl, rfl, rfl, rfl⟩

theorem genOK_of_eq {m m' : W} (h : GenOK m) (h1 : m'.links = m.links) (h2 : m'.linked = m.linked)
    (h3 : m'.pend = m.pend) (h4 : m'.drops = m.drops) (h5 : m'.flight = m.flight) : GenOK m' := by
  refine ⟨?_, ?_, ?_, ?_, ?_⟩
  · rw [h1, h2]; exact h.links
  · rw [h1]; exact h.nodup
  · rw [h3, h2]; exact h.pend
  · rw [h4, h2]; exact h.drops
  · rw [h5, h2]; exact h.flight

theorem genOK_receive (chk : Bool) {m : W} (h : GenOK m) (a : Ans) (r : RId) (l w : Nat) :
    GenOK (receiveWith chk m a r l w).1 := by
  obtain ⟨h1, h2, h3, h4, h5⟩ := receiveWith_gen chk m a r l w
  exact genOK_of_eq h h1 h2 h3 h4 h5

theorem linkOf_mem {m : W} {r : RId} {g : Nat} (h : linkOf m r = some g) : g ∈ m.links := by
  unfold linkOf at h
  split at h
  · simp at h
  · exact List.mem_of_getElem? h

theorem genOK_step (chk : Bool) {m : W} (h : GenOK m) (s : Step) : GenOK (stepWith chk m s).1 := by
  cases s with
  | link r =>
    simp only [stepWith]
    split
    · exact h
    · split
      · exact h
      · refine ⟨?_, ?_, ?_, ?_, ?_⟩
        · intro g hg
          rcases List.mem_append.1 hg with hg | hg
          · exact Nat.le_succ_of_le (h.links g hg)
          · simp at hg; subst hg; exact Nat.le_refl _
        · refine List.nodup_append.2 ⟨h.nodup, by simp, ?_⟩
          intro a ha b hb
          simp at hb; subst hb
          have := h.links a ha
          omega
        · intro r' e he; exact Nat.le_succ_of_le (h.pend r' e he)
        · intro r' e he; exact Nat.le_succ_of_le (h.drops r' e he)
        · intro r' e he; exact Nat.le_succ_of_le (h.flight r' e he)
  | unlink r =>
    simp only [stepWith]
    split
    · exact h
    · split
      · exact h
      · split
        · exact h
        · refine ⟨?_, ?_, h.pend, h.drops, h.flight⟩
          · intro g hg; exact h.links g (List.mem_of_mem_eraseIdx hg)
          · exact h.nodup.sublist (List.eraseIdx_sublist _ _)
  | write v =>
    simp only [stepWith]
    split
    · exact h
    · split
      · exact h
      · split
        · exact h
        · have hp : ∀ r', ∀ e ∈ (if r' ∈ accepting m.closed m.readers then
              m.pend r' ++ (linkOf m r').toList.map (·, m.written) else m.pend r'), e.1 ≤ m.linked := by
            intro r' e he
            split at he
            · rcases List.mem_append.1 he with he | he
              · exact h.pend r' e he
              · simp only [List.mem_map, Option.mem_toList] at he
                obtain ⟨g, hg, rfl⟩ := he
                exact h.links g (linkOf_mem hg)
            · exact h.pend r' e he
          split
          · exact ⟨h.links, h.nodup, hp, h.drops, h.flight⟩
          · exact ⟨h.links, h.nodup, hp, h.drops, h.flight⟩
  | answer r a =>
    simp only [stepWith]
    split
    · exact h
    · rename_i g rest hpr
      apply genOK_receive
      refine ⟨h.links, h.nodup, ?_, h.drops, h.flight⟩
      intro r' e he
      simp only at he
      split at he
      · rename_i hx; subst hx
        exact h.pend r' e (by rw [hpr]; exact List.mem_cons_of_mem _ he)
      · exact h.pend r' e he
  | pop r a =>
    simp only [stepWith]
    split
    · exact h
    · rename_i g rest hpr
      refine ⟨h.links, h.nodup, ?_, h.drops, ?_⟩
      · intro r' e he
        simp only at he
        split at he
        · rename_i hx; subst hx
          exact h.pend r' e (by rw [hpr]; exact List.mem_cons_of_mem _ he)
        · exact h.pend r' e he
      · intro r' e he
        simp only at he
        split at he
        · rcases List.mem_append.1 he with he | he
          · exact h.flight r e he
          · simp at he; subst he
            exact h.pend r g (by rw [hpr]; exact List.mem_cons_self ..)
        · exact h.flight r' e he
  | deliver r k =>
    simp only [stepWith]
    split
    · exact h
    · rename_i e hk
      apply genOK_receive
      refine ⟨h.links, h.nodup, h.pend, h.drops, ?_⟩
      intro r' e' he
      simp only at he
      split at he
      · exact h.flight r e' (List.mem_of_mem_eraseIdx he)
      · exact h.flight r' e' he
  | closeR r =>
    simp only [stepWith]
    split
    · exact h
    · refine ⟨h.links, h.nodup, ?_, ?_, h.flight⟩
      · intro r' e he
        simp only at he
        split at he
        · simp at he
        · exact h.pend r' e he
      · intro r' e he
        simp only at he
        split at he
        · exact h.pend r e he
        · exact h.drops r' e he
  | deliverDrop r =>
    simp only [stepWith]
    split
    · exact h
    · rename_i g rest hdr
      dsimp only
      apply genOK_receive
      refine ⟨h.links, h.nodup, h.pend, ?_, h.flight⟩
      intro r' e he
      simp only at he
      split at he
      · rename_i hx; subst hx
        exact h.drops r' e (by rw [hdr]; exact List.mem_cons_of_mem _ he)
      · exact h.drops r' e he
  | closeW =>
    simp only [stepWith]
    split
    · exact h
    · exact ⟨by simp, by simp, h.pend, h.drops, h.flight⟩

theorem genOK_runFrom {m : W} (h : GenOK m) (hs : List Step) : GenOK (runFrom m hs).1 := by
  induction hs generalizing m with
  | nil => exact h
  | cons s hs ih => exact ih (genOK_step true h s)

theorem genOK_run (hs : List Step) : GenOK (run hs).1 := genOK_runFrom genOK_init hs

end Uniflow.WriterProofs
