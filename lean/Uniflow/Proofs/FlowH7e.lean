/-
C02, joint model, one-in-port node kinds, part 7e: a request that derived no packet is answered with itself
(`Write(nil, in)`): its state becomes `cells [filled in]`, the complete prefix of the reader's requests is answered.
-/
import Uniflow.Proofs.FlowH7

namespace Uniflow.FlowH
open Uniflow.Tracer Uniflow.Node Uniflow.Flow Uniflow.FlowInv Uniflow.FlowG Uniflow.ATracer

theorem nl_echo_self (lg lg' : Log) (n : Nat) (inbox : List Pkt) (a : A) (q : Pkt)
    (h : NL lg n { inbox := inbox, pc := .emit [.write none q] } a)
    (hnd : (ids a.reqs).Nodup) (hr0 : ∀ x ∈ a.reqs, x.r = 0)
    (hX : (⟨q.id, 0, .cells []⟩ : Req) ∈ a.reqs)
    (hx : LogExt lg lg' q.id) (hecho : aget lg'.echo q.id = some q.pay)
    (hki : ∀ x ∈ inbox, x.id ≠ q.id)
    (ho : ∀ id ∈ nlIds { inbox := inbox, pc := .emit [.write none q] } a, aget lg'.owner id = aget lg.owner id) :
    ∃ ds : List (Pid × Ans), NL lg' n { inbox := inbox, pc := .idle } (afill a q.id (.pay q.pay)).1 ∧
      (afill a q.id (.pay q.pay)).2 = ds.map (fun d => Ev.reply 0 d.2) ∧ (∀ d ∈ ds, RA lg' d.1 d.2) ∧
      a.reqs.map (·.p) = ds.map (·.1) ++ (afill a q.id (.pay q.pay)).1.reqs.map (·.p) ∧
      (afill a q.id (.pay q.pay)).1.wq = a.wq := by
  have t := tr_of_ext lg lg' q.id hx
  have hf := findReq_of_mem a.reqs _ hnd hX
  have ho1 : ∀ x ∈ inbox, aget lg'.owner x.id = aget lg.owner x.id :=
    fun x hx' => ho x.id (by simp only [nlIds, List.mem_append]; left; left; left; exact List.mem_map_of_mem hx')
  have ho2 : ∀ x ∈ a.reqs, aget lg'.owner x.p = aget lg.owner x.p :=
    fun x hx' => ho x.p (by simp only [nlIds, List.mem_append]; left; left; right; exact List.mem_map_of_mem hx')
  have ho3 : ∀ x ∈ a.reqs, ∀ cs', x.st = .cells cs' → ∀ q' ∈ linkedIds cs', aget lg'.owner q' = aget lg.owner q' :=
    fun x hx' cs' hst q' hq' => ho q' (by
      simp only [nlIds, List.mem_append]; left; right; exact mem_linkedAll a x cs' hx' hst q' hq')
  have hcases := mem_updReq_cases q.id (fun _ => RSt.cells [.filled (.pay q.pay)]) a.reqs
  have hrem : ∀ p', remFor .idle p' = remFor (.emit [.write none q]) p' := fun _ => rfl
  have hA : ∀ y ∈ updReq q.id (fun _ => RSt.cells [.filled (.pay q.pay)]) a.reqs,
      ReqB lg' n .idle y ∧ aget lg'.owner y.p = some (n * 64) ∧ y.st ≠ .cells [] := by
    intro y hy
    rcases hcases y (nodup_p _ hnd) hy with ⟨h1, h2⟩ | ⟨x, h1, h2, h3⟩
    · refine ⟨?_, by rw [ho2 y h1]; exact h.own y h1, ?_⟩
      · apply reqB_tr lg lg' q.id t n _ _ y (hrem y.p) h2 _ _ (h.req y h1)
        · intro q' hq'
          cases hst : y.st with
          | direct w' => rw [hst] at hq'; simp [cellsOfSt, linkedIds] at hq'
          | cells cs' =>
            rw [hst] at hq'
            refine ⟨fun e => ?_, ho3 y h1 cs' hst q' hq'⟩
            have := mem_unique a.reqs y _ q.id hnd h1 hX (e ▸ linked_in_idsR y cs' hst q' hq') (by simp [idsR])
            rw [this] at h2; exact h2 rfl
        · intro q' hq'; simp [remFor, remOps] at hq'
      · intro hst
        rcases h.nz y h1 hst with e | ⟨pk, grp, e, _⟩ | ⟨q', e, e2⟩
        · simp [remFor, remOps] at e
        · cases e
        · simp only [PC.emit.injEq, List.cons.injEq, Op.write.injEq, true_and, and_true] at e
          rw [← e] at e2; exact h2 e2.symm
    · have hxe : x = ⟨q.id, 0, .cells []⟩ := mem_unique a.reqs x _ q.id hnd h1 hX (by simp [idsR, h2]) (by simp [idsR])
      subst hxe
      subst h3
      refine ⟨Or.inr ?_, ?_, ?_⟩
      · exact ⟨q.pay, rfl, hecho, rfl⟩
      · show aget lg'.owner q.id = _; rw [ho2 _ h1]; exact h.own _ h1
      · intro e; cases e
  have hinb : ∀ x ∈ inbox, Unlogged lg' x.id ∧ aget lg'.owner x.id = some (n * 64) := by
    intro x hx'
    obtain ⟨u, o⟩ := h.inb x hx'
    exact ⟨t.unl x.id (hki x hx') u, by rw [ho1 x hx']; exact o⟩
  have hf1 : findReq q.id (updReq q.id (fun _ => RSt.cells [.filled (.pay q.pay)]) a.reqs) =
      some ⟨q.id, 0, .cells [.filled (.pay q.pay)]⟩ := findReq_upd a.reqs q.id _ _ hf
  have hr1 : ∀ y ∈ updReq q.id (fun _ => RSt.cells [.filled (.pay q.pay)]) a.reqs, y.r = 0 := updReq_r0 q.id _ a.reqs hr0
  have hmp : (updReq q.id (fun _ => RSt.cells [.filled (.pay q.pay)]) a.reqs).map (·.p) = a.reqs.map (·.p) :=
    updReq_map_p _ _ _
  have hrep : reply (.cells [.filled (.pay q.pay)]) = some (.pay q.pay) := by
    simp [reply, cellVal, hasNil, joinCells, cellsOf, join]
  simp only [afill, hf, afterFill, hf1, hrep]
  obtain ⟨pre, e1, e2, e3⟩ := flush_ds _ hr1
  have hsub := flushR_sublist 0 (updReq q.id (fun _ => RSt.cells [.filled (.pay q.pay)]) a.reqs)
  refine ⟨pre.flatMap ansOf, ⟨hinb, fun y hy => (hA y (hsub.subset hy)).2.1, fun y hy => (hA y (hsub.subset hy)).1,
    fun y hy hst => absurd hst (hA y (hsub.subset hy)).2.2, trivial⟩, e2, ?_, ?_, trivial⟩
  · intro d hd
    simp only [List.mem_flatMap, ansOf] at hd
    obtain ⟨x, hx', hd⟩ := hd
    cases hb : reply x.st with
    | none => rw [hb] at hd; simp at hd
    | some b' =>
      rw [hb] at hd
      simp only [List.mem_singleton] at hd
      subst hd
      have hxm : x ∈ updReq q.id (fun _ => RSt.cells [.filled (.pay q.pay)]) a.reqs := by
        rw [e1]; exact List.mem_append_left _ hx'
      exact ra_of_reqA lg' n .idle x b' (hA x hxm).1 hb
  · rw [ansOf_fst pre e3, ← hmp]
    conv => lhs; rw [e1]
    simp

end Uniflow.FlowH
