/-
C02, joint model, all node kinds, part 18s: the action of thread `i` returns its INPUT packet (`return inPck, nil`,
`return nil, inPck`, `[inPck]` on one port): the program is `Link(p, p); Write(w, p)` – or the echo `Write(nil, p)`
when no port exists –, no packet is derived, the ghost log is unchanged.
-/
import Uniflow.Proofs.FlowN18

namespace Uniflow.FlowN
open Uniflow.Tracer Uniflow.Node Uniflow.Flow Uniflow.FlowInv Uniflow.FlowG Uniflow.ATracer Uniflow.FlowH Uniflow.FlowM
open Uniflow.ATracer (getL_setOrDel getL_aset)

/-- the programs of an action result that consists of the input packet only -/
theorem program_same (kind : Kind) (p : Pkt) (o : Outcome) (ops : List Op) (hk : KindOK kind)
    (hp : program kind p o = some ops) (hs : introS (.finish 0 o) = [p.id]) :
    ops = [.write none p] ∨ ∃ w q, w < maxW ∧ q.id = p.id ∧ ops = [.link p.id q.id, .write (some w) q] := by
  cases o with
  | err q =>
    simp only [program, Option.some.injEq] at hp; subst hp
    simp only [introS, List.cons.injEq, and_true] at hs
    exact Or.inr ⟨errW, q, by simp [errW, maxW], hs, rfl⟩
  | outs qs =>
    simp only [introS] at hs
    cases kind with
    | oneToOne =>
      simp only [program] at hp
      match qs, hp with
      | [some q], hp =>
        simp only [Option.some.injEq] at hp; subst hp
        simp only [cellsOf, List.map_cons, List.map_nil, List.cons.injEq, and_true] at hs
        exact Or.inr ⟨outW 0, q, by simp [outW, maxW], hs, rfl⟩
      | [], hp => simp only [Option.some.injEq] at hp; subst hp; exact Or.inl rfl
      | none :: _, hp => simp only [Option.some.injEq] at hp; subst hp; exact Or.inl rfl
      | some _ :: _ :: _, hp => simp only [Option.some.injEq] at hp; subst hp; exact Or.inl rfl
    | manyToOne _ =>
      simp only [program] at hp
      match qs, hp with
      | [some q], hp =>
        simp only [Option.some.injEq] at hp; subst hp
        simp only [cellsOf, List.map_cons, List.map_nil, List.cons.injEq, and_true] at hs
        exact Or.inr ⟨outW 0, q, by simp [outW, maxW], hs, rfl⟩
      | [], hp => simp only [Option.some.injEq] at hp; subst hp; exact Or.inl rfl
      | none :: _, hp => simp only [Option.some.injEq] at hp; subst hp; exact Or.inl rfl
      | some _ :: _ :: _, hp => simp only [Option.some.injEq] at hp; subst hp; exact Or.inl rfl
    | oneToMany n =>
      simp only [program] at hp
      cases hv : validOuts n 0 qs with
      | nil => simp only [hv, Option.some.injEq] at hp; subst hp; exact Or.inl rfl
      | cons v vs =>
        simp only [hv, Option.some.injEq] at hp
        have hsub := validOuts_sub n 0 qs
        rw [hv, hs] at hsub
        have h1 := hsub.length_le
        simp only [List.length_map, List.length_cons, List.length_nil] at h1
        have hvs : vs = [] := by cases vs with | nil => rfl | cons _ _ => simp at h1
        subst hvs
        have hvp : v.2.id = p.id := by simpa using hsub.subset (List.mem_cons_self)
        have hlt := validOuts_lt n 0 qs v (by rw [hv]; simp)
        simp only [KindOK] at hk
        refine Or.inr ⟨outW v.1, v.2, by show v.1 + 1 < maxW; omega, hvp, ?_⟩
        rw [← hp]; rfl

theorem HI_finish_same (kinds : List Kind) (links : List (Nat × List Tgt)) (hwf : GraphWF5 kinds links) (aa : Nat → A) (g : G)
    (h : HI kinds links aa D0 g) (n : Nat) (nd : Node) (i : Rid) (p : Pkt) (grp inbox : List Pkt)
    (hn : getNode g.nodes n = some nd) (hg : getThread nd.threads i = some { inbox := inbox, pc := .action p grp })
    (o : Outcome) (ops : List Op) (hp : program nd.kind p o = some ops) (hs : introS (.finish i o) = [p.id]) :
    ∃ nd', Node.step nd (.finish i o) = some (nd', []) ∧ (writeIds ops).filter (fun q => q != p.id) = [] ∧
      HI kinds links aa D0 { g with nodes := setNode g.nodes n nd' } := by
  have hjb := h.jb n nd hn
  have hnl := h.nl n nd hn i _ hg
  obtain ⟨hst, hjb', _⟩ := jbm_finish_same nd (aa n) g.next hjb i p grp inbox hg o ops hp hs
  have hsh := program_same nd.kind p o ops (h.kindOK n nd hn) hp (by rw [introS_finish0 i o]; exact hs)
  have hub : Unlogged g.log g.next := h.logBound g.next (Nat.le_refl _)
  have hnl' : NLt g.log n i { inbox := inbox, pc := .emit ops } (aa n) := by
    rcases hsh with e | ⟨w, q, hw, hq, e⟩
    · rw [e]; exact nlt_finish_echo g.log n i (aa n) p grp inbox hnl
    · rw [e]; exact nlt_finish_same g.log n i (aa n) p grp inbox w q hq hw hnl
  have hfilt : (writeIds ops).filter (fun q => q != p.id) = [] := by
    rcases hsh with e | ⟨w, q, _, hq, e⟩
    · rw [e]; simp [writeIds]
    · rw [e]; simp [writeIds, hq]
  refine ⟨_, hst, hfilt, ?_⟩
  have key := HI_thread_step kinds links hwf aa g h n nd
    { nd with threads := setThread nd.threads i { inbox := inbox, pc := .emit ops } } i _
    { inbox := inbox, pc := .emit ops } (aa n) g.log g.next g.next hn hg rfl (hths_of_set nd.threads i _ _ hg) hjb'
    hnl' (fun y hy _ => hy) (h.rdr n nd hn) (Nat.le_refl _)
    (by
      rw [heldN_of _ (aa n) i { inbox := inbox, pc := .emit ops } (by
          show getThread (setThread nd.threads i _) i = _
          rw [hths_of_set nd.threads i _ _ hg]; simp),
        heldN_of nd (aa n) i _ hg])
    (fun _ _ => rfl) (fun _ => rfl) (logExt_refl g.log g.next hub) (fun _ _ => rfl) h.logBound
    (Or.inl (Nat.le_refl _)) (Or.inl (Nat.le_refl _)) (ordAt_none g.log g.next g.next hub.2.1 hub.1)
  rw [updA_self] at key
  exact HI_congr kinds links _ D0 _ _ key rfl rfl rfl rfl rfl rfl rfl rfl rfl

/-- what `release` needs when the action returns its input packet -/
def ProgS (kind : Kind) (p : Pkt) (o : Outcome) : Prop :=
  introS (.finish 0 o) = [p.id] ∧ ∃ ops, program kind p o = some ops

theorem HIe_relTail_same (kinds : List Kind) (links : List (Nat × List Tgt)) (hwf : GraphWF5 kinds links) (g g' : G)
    (h : HIe kinds links g) (n : Nat) (nd : Node) (i : Nat) (p : Pkt) (grp inbox : List Pkt)
    (hn : getNode g.nodes n = some nd) (hg : getThread nd.threads i = some { inbox := inbox, pc := .action p grp })
    (o : Outcome) (hpo : ProgS nd.kind p o) (hs : relTail g n nd i p o g.next = some g') :
    HIe kinds links g' := by
  obtain ⟨aa, h⟩ := h
  obtain ⟨hsi, ops, hp⟩ := hpo
  rw [introS_finish0 i o] at hsi
  obtain ⟨nd', hst, hfilt, key⟩ := HI_finish_same kinds links hwf aa g h n nd i p grp inbox hn hg o ops hp hsi
  simp only [relTail, hst, hp, hfilt, Option.some.injEq] at hs
  subst hs
  apply HIe_settle kinds links hwf
  exact ⟨aa, HI_congr kinds links _ D0 _ _ key rfl rfl rfl rfl rfl rfl rfl rfl rfl⟩

end Uniflow.FlowN
