/-
C02, joint model, all node kinds, part 11: one node steps (a thread's `Read`, the action's return, `Link`) without
changing what it holds or owes; the log may be extended at one key.
-/
import Uniflow.Proofs.FlowN3

namespace Uniflow.FlowN
open Uniflow.Tracer Uniflow.Node Uniflow.Flow Uniflow.FlowInv Uniflow.FlowG Uniflow.ATracer Uniflow.FlowH Uniflow.FlowM
open Uniflow.ATracer (getL_setOrDel getL_aset)

theorem heldAtH_set (aa : Nat → A) (g : G) (n0 : Nat) (nd0 nd' : Node) (a' : A)
    (hn0 : getNode g.nodes n0 = some nd0) (hheld : ∀ port, heldN nd' a' port = heldN nd0 (aa n0) port) (t : Tgt) :
    heldAtH (updA aa n0 a') (setNode g.nodes n0 nd') g.sinks t = heldAtH aa g.nodes g.sinks t := by
  cases t with
  | sink j => rfl
  | node m port =>
    simp only [heldAtH, getNode_set g n0 nd0 nd' hn0 m]
    by_cases e : m = n0
    · subst e; simp only [if_true, updA, hn0, hheld]
    · simp only [e, if_false, updA]

theorem HI_node_step (kinds : List Kind) (links : List (Nat × List Tgt)) (aa : Nat → A)
    (D : Nat → List (Pid × Ans)) (g : G) (h : HI kinds links aa D g)
    (n0 : Nat) (nd0 nd' : Node) (a' : A) (lg' : Log) (nx' : Nat) (k : Pid)
    (hn0 : getNode g.nodes n0 = some nd0) (hkind : nd'.kind = nd0.kind)
    (hjb' : JBm nd' a' nx') (hnl' : NLm lg' n0 nd' a') (hthr' : nd'.threads.length = nd0.threads.length)
    (hrdr' : ∀ x ∈ a'.reqs, x.r < nd0.threads.length) (hle : g.next ≤ nx')
    (hheld : ∀ port, heldN nd' a' port = heldN nd0 (aa n0) port) (hwq : ∀ w, getL a'.wq w = getL (aa n0).wq w)
    (hx : LogExt g.log lg' k) (hown : ∀ id, id < g.next → aget lg'.owner id = aget g.log.owner id)
    (hlb : ∀ id, nx' ≤ id → Unlogged lg' id)
    (hn1000 : n0 < 1000) (hk : g.next ≤ k ∨ ∃ τ, aget g.log.owner k = some τ ∧ τ / 64 = n0)
    (hordk : OrdAt lg' k nx') :
    HI kinds links (updA aa n0 a') D { g with nodes := setNode g.nodes n0 nd', log := lg', next := nx' } := by
  have hn0N : n0 < kinds.length := (h.nodesLen n0).mp (by rw [hn0]; rfl)
  have hheldD : ∀ t, heldDH D (updA aa n0 a') (setNode g.nodes n0 nd') g.sinks t = heldDH D aa g.nodes g.sinks t := by
    intro t; simp only [heldDH, heldAtH_set aa g n0 nd0 nd' a' hn0 hheld t]
  refine { glinks := h.glinks, nodesLen := nodesLen_set g _ n0 nd0 nd' hn0 h.nodesLen, kindOK := ?_, kindEq := ?_, thr := ?_, rdr := ?_, jb := ?_,
           nl := ?_, dflt := ?_, sinkOK := ?_, debtOK := ?_, wk := ?_, srcq := h.srcq, fifoLen := ?_,
           fifoKeys := h.fifoKeys, respOK := ?_, logBound := hlb,
           rootsB := fun r hr' => Nat.lt_of_lt_of_le (h.rootsB r hr') hle, wq0 := h.wq0,
           logOrd := logOrd_ext g.log lg' k g.next nx' h.logOrd hx hle hordk }
  · intro n nd hn
    rw [getNode_set g n0 nd0 nd' hn0 n] at hn
    by_cases e : n = n0
    · simp only [e, if_true, Option.some.injEq] at hn; subst hn; rw [hkind]; exact h.kindOK n0 nd0 hn0
    · simp only [e, if_false] at hn; exact h.kindOK n nd hn
  · intro n nd hn
    rw [getNode_set g n0 nd0 nd' hn0 n] at hn
    by_cases e : n = n0
    · simp only [e, if_true, Option.some.injEq] at hn; subst hn; rw [hkind, e]; exact h.kindEq n0 nd0 hn0
    · simp only [e, if_false] at hn; exact h.kindEq n nd hn
  · intro n nd hn
    rw [getNode_set g n0 nd0 nd' hn0 n] at hn
    by_cases e : n = n0
    · simp only [e, if_true, Option.some.injEq] at hn; subst hn; rw [hthr', hkind]; exact h.thr n0 nd0 hn0
    · simp only [e, if_false] at hn; exact h.thr n nd hn
  · intro n nd hn
    rw [getNode_set g n0 nd0 nd' hn0 n] at hn
    by_cases e : n = n0
    · simp only [e, if_true, Option.some.injEq] at hn; subst hn; simp only [updA, e, if_true]
      rw [hthr']; exact hrdr'
    · simp only [e, if_false] at hn; simp only [updA, e, if_false]; exact h.rdr n nd hn
  · intro n nd hn
    rw [getNode_set g n0 nd0 nd' hn0 n] at hn
    by_cases e : n = n0
    · simp only [e, if_true, Option.some.injEq] at hn; subst hn; simp only [updA, e, if_true]; exact hjb'
    · simp only [e, if_false] at hn; simp only [updA, e, if_false]; exact jbm_mono nd _ _ _ (h.jb n nd hn) hle
  · intro n nd hn
    rw [getNode_set g n0 nd0 nd' hn0 n] at hn
    by_cases e : n = n0
    · simp only [e, if_true, Option.some.injEq] at hn; subst hn; simp only [updA, e, if_true]
      exact hnl'
    · simp only [e, if_false] at hn; simp only [updA, e, if_false]
      apply nlm_keep g.log lg' k hx n nd (aa n) g.next (h.jb n nd hn)
        (by rw [h.thr n nd hn]; exact nIn_le _ (h.kindOK n nd hn)) (h.nl n nd hn) hown
      rcases hk with hk | ⟨τ, h1, h2⟩
      · exact Or.inl hk
      · exact Or.inr ⟨τ, h1, by rw [h2]; exact fun e2 => e e2.symm⟩
  · intro n hn
    have : n ≠ n0 := by omega
    simp only [updA, this, if_false]; exact h.dflt n hn
  · intro j
    obtain ⟨h1, h2⟩ := h.sinkOK j
    refine ⟨h1, ?_⟩
    intro c hc
    obtain ⟨u1, u2, u3⟩ := h2 c hc
    refine ⟨unlogged_ext g.log lg' k hx c ?_ u1, Nat.lt_of_lt_of_le u2 hle, by simp only; rw [hown c u2]; exact u3⟩
    intro e
    rcases hk with hk | ⟨τ, t1, t3⟩
    · rw [e] at u2; exact Nat.lt_irrefl _ (Nat.lt_of_lt_of_le u2 hk)
    · rw [e, t1] at u3
      simp only [rkeyOf, Option.some.injEq] at u3
      omega
  · intro rk x hx'; exact ra_ext g.log lg' k hx x.1 x.2 (h.debtOK rk x hx')
  · intro key hl
    have e1 : hbOfH D (updA aa n0 a') (setNode g.nodes n0 nd') g.sinks g.fifo key = hbOfH D aa g.nodes g.sinks g.fifo key := by
      funext t; simp only [hbOfH, hheldD]
    show WKG lg' (gw g.writers key) _ (pendH (updA aa n0 a') g.roots g.resp.length key)
      (hbOfH D (updA aa n0 a') (setNode g.nodes n0 nd') g.sinks g.fifo key)
    rw [e1, pendH_upd aa n0 a' _ _ _ hwq]
    exact wkg_ext g.log lg' k hx _ _ _ _ (h.wk key hl)
  · intro t htok
    show (getL g.fifo (rkeyOf t)).length = _
    rw [hheldD t]; exact h.fifoLen t htok
  · exact ⟨h.respOK.1, all2_mono _ _ (fun p a => ra_ext g.log lg' k hx p a) _ _ h.respOK.2⟩

end Uniflow.FlowN
